(* C05 proofs for Model/CacheF.v: cached fields that read other cached fields, per-solution aggregates, the concrete goal table. *)
From VRP Require Import Base.Tac Model.Core Model.Cache Model.CacheF.


Lemma fold_left_ext_d {A B} (f g : A -> B -> A) : (forall a b, f a b = g a b) -> forall l a, fold_left f l a = fold_left g l a.
Proof. intros H l. induction l as [|b l IH]; intros a; cbn; [reflexivity|]. rewrite H. apply IH. Qed.

Section PD.
Variables tour job value svalue : Type.
Notation dfeature := (dfeature tour job value).
Notation afeature := (afeature tour value svalue).
Notation entry := (entry tour job value svalue).
Notation rctx := (rctx tour value).
Notation sctx := (sctx tour value svalue).
(* every cached field as a function of the bare tour *)
Variable SC : tour -> cache value.

Definition key_ok (k : nat) (r : rctx) : Prop := rc_state r k = SC (rc_tour r) k.
(* the handler of f computes the field's function of the tour whenever the keys it reads hold theirs *)
Definition Sound (f : dfeature) : Prop :=
  forall t c, (forall k, In k (d_deps f) -> c k = SC t k) -> d_read f t c = SC t (d_key f).
Definition reads_only (f : dfeature) : Prop :=
  forall t c c', (forall k, In k (d_deps f) -> c k = c' k) -> d_read f t c = d_read f t c'.

Lemma memn_In : forall k l, memn k l = true <-> In k l.
Proof.
  intros k l. unfold memn. rewrite existsb_exists. split.
  - intros (x & Hx & E). apply Nat.eqb_eq in E. subst. exact Hx.
  - intros H. exists k. split; [exact H|apply Nat.eqb_refl].
Qed.
Lemma deps_in_In : forall avail deps, deps_in avail deps = true -> forall k, In k deps -> In k avail.
Proof. intros avail deps H k Hk. unfold deps_in in H. rewrite forallb_forall in H. apply memn_In. apply H. exact Hk. Qed.

Lemma refresh_tour_d : forall (f : dfeature) r, rc_tour (d_refresh tour job value f r) = rc_tour r.
Proof. reflexivity. Qed.
Lemma refresh_stale_d : forall (f : dfeature) r, rc_stale (d_refresh tour job value f r) = true.
Proof. reflexivity. Qed.
Lemma refresh_other_d : forall (f : dfeature) r k, k <> d_key f -> key_ok k r -> key_ok k (d_refresh tour job value f r).
Proof.
  intros f r k Hk H. unfold key_ok, d_refresh, set_key in *. cbn.
  destruct (Nat.eqb k (d_key f)) eqn:E; [apply Nat.eqb_eq in E; congruence|exact H].
Qed.
Lemma refresh_own_d : forall (f : dfeature) r, Sound f -> (forall k, In k (d_deps f) -> key_ok k r) ->
  key_ok (d_key f) (d_refresh tour job value f r).
Proof.
  intros f r Hs Hd. unfold key_ok, d_refresh, set_key. cbn. rewrite Nat.eqb_refl. apply Hs. exact Hd.
Qed.

(* ---------------- good_from ---------------- *)
Lemma good_from_incl : forall ok es avail k, In k avail -> In k (good_from tour job value svalue ok avail es).
Proof.
  intros ok es; induction es as [|e es IH]; intros avail k Hk; cbn [good_from]; [exact Hk|].
  destruct e as [f|a]; [|apply IH; exact Hk].
  destruct (ok f && deps_in avail (d_deps f)); apply IH; [right; exact Hk|exact Hk].
Qed.
Lemma good_from_sub : forall ok es avail k, In k (good_from tour job value svalue ok avail es) ->
  In k avail \/ In k (route_keys tour job value svalue es).
Proof.
  intros ok es; induction es as [|e es IH]; intros avail k Hk; cbn [good_from] in Hk; [left; exact Hk|].
  unfold route_keys. cbn [flat_map]. fold (route_keys tour job value svalue es).
  destruct e as [f|a]; [|apply IH in Hk; cbn [app]; exact Hk].
  destruct (ok f && deps_in avail (d_deps f)); apply IH in Hk; cbn [app].
  - destruct Hk as [[<-|Hk]|Hk]; [right; left; reflexivity|left; exact Hk|right; right; exact Hk].
  - destruct Hk as [Hk|Hk]; [left; exact Hk|right; right; exact Hk].
Qed.

(* ---------------- passes in which a handler fires or not independently of the context ---------------- *)
Section Pass.
Variable fires : dfeature -> bool.
Definition pass_step (e : entry) (r : rctx) : rctx :=
  match e with ERoute f => if fires f then d_refresh tour job value f r else r | EAgg _ => r end.
Definition pass (es : list entry) (r : rctx) : rctx := fold_left (fun acc e => pass_step e acc) es r.

Lemma pass_tour : forall es r, rc_tour (pass es r) = rc_tour r.
Proof.
  induction es as [|e es IH]; intros r; cbn; [reflexivity|]. unfold pass in IH. rewrite IH.
  destruct e as [f|a]; cbn; [destruct (fires f); reflexivity|reflexivity].
Qed.

Lemma pass_good : forall es avail r,
  NoDup (route_keys tour job value svalue es) ->
  (forall f, In (ERoute f) es -> Sound f) ->
  (forall f, In (ERoute f) es -> fires f = true -> ~ In (d_key f) avail) ->
  (forall k, In k avail -> key_ok k r) ->
  forall k, In k (good_from tour job value svalue fires avail es) -> key_ok k (pass es r).
Proof.
  induction es as [|e es IH]; intros avail r Hnd Hs Hfa Hav k Hk; cbn [good_from] in Hk; [cbn; apply Hav; exact Hk|].
  unfold pass. cbn [fold_left]. fold (pass es (pass_step e r)).
  unfold route_keys in Hnd. cbn [flat_map] in Hnd. fold (route_keys tour job value svalue es) in Hnd.
  destruct e as [f|a].
  - cbn [app] in Hnd. inversion Hnd as [|? ? Hni Hnd']; subst.
    cbn [pass_step]. destruct (fires f) eqn:Ef; cbn [andb] in Hk.
    + destruct (deps_in avail (d_deps f)) eqn:Ed.
      * apply (IH (d_key f :: avail)); auto.
        -- intros g Hg; apply Hs; right; exact Hg.
        -- intros g Hg Hfg [E|Hin].
           ++ apply Hni. rewrite E. unfold route_keys. apply in_flat_map. exists (ERoute g). split; [exact Hg|left; reflexivity].
           ++ apply (Hfa g); [right; exact Hg|exact Hfg|exact Hin].
        -- intros k' [<-|Hk'].
           ++ apply refresh_own_d; [apply Hs; left; reflexivity|]. intros d Hd. apply Hav. apply (deps_in_In _ _ Ed). exact Hd.
           ++ apply refresh_other_d; [|apply Hav; exact Hk']. intros E. subst. apply (Hfa f); auto. left; reflexivity.
      * apply (IH avail); auto.
        -- intros g Hg; apply Hs; right; exact Hg.
        -- intros g Hg; apply Hfa; right; exact Hg.
        -- intros k' Hk'. apply refresh_other_d; [|apply Hav; exact Hk']. intros E. subst. apply (Hfa f); auto. left; reflexivity.
    + apply (IH avail); auto.
      * intros g Hg; apply Hs; right; exact Hg.
      * intros g Hg; apply Hfa; right; exact Hg.
  - cbn [app] in Hnd. cbn [pass_step]. apply (IH avail); auto.
    + intros g Hg; apply Hs; right; exact Hg.
    + intros g Hg; apply Hfa; right; exact Hg.
Qed.
End Pass.

(* accept_route_state: the pass with fires = on_route on the cleared cache *)
Lemma run_route_pass : forall es r, run_route tour job value svalue es r = pass (fun f => d_on_route f) es r.
Proof.
  intros es r. unfold run_route, pass. apply fold_left_ext_d. intros acc e. destruct e; reflexivity.
Qed.
Lemma run_ins_pass : forall j es r, run_ins tour job value svalue j es r = pass (fun f => d_on_insertion f j) es r.
Proof.
  intros j es r. unfold run_ins, pass. apply fold_left_ext_d. intros acc e. destruct e; reflexivity.
Qed.

Theorem route_state_fresh : forall es r,
  NoDup (route_keys tour job value svalue es) -> (forall f, In (ERoute f) es -> Sound f) ->
  rc_stale r = true ->
  let r' := accept_route_state_d tour job value svalue es r in
  rc_stale r' = false /\ rc_tour r' = rc_tour r /\
  forall k, In k (good_from tour job value svalue (fun f => d_on_route f) [] es) -> key_ok k r'.
Proof.
  intros es r Hnd Hs Hst. unfold accept_route_state_d. rewrite Hst. cbn zeta.
  split; [reflexivity|]. rewrite run_route_pass. split; [cbn [rc_tour]; rewrite pass_tour; reflexivity|].
  intros k Hk. unfold key_ok. cbn [rc_state rc_tour].
  apply (pass_good (fun f => d_on_route f) es [] _ Hnd Hs); auto.
  intros k' [].
Qed.

(* after every single insertion: the keys in `avail` were right before and are not changed by the insertion (their handlers
   do not fire for this job and their function of the tour is the same before and after); then every key the pass makes good
   is right on the tour as it is now *)
Theorem insertion_fresh_d : forall es ins j r avail,
  NoDup (route_keys tour job value svalue es) -> (forall f, In (ERoute f) es -> Sound f) ->
  (forall f, In (ERoute f) es -> d_on_insertion f j = true -> ~ In (d_key f) avail) ->
  (forall k, In k avail -> key_ok k r /\ SC (ins j (rc_tour r)) k = SC (rc_tour r) k) ->
  let r' := apply_insertion_d tour job value svalue es ins j r in
  rc_tour r' = ins j (rc_tour r) /\
  forall k, In k (good_from tour job value svalue (fun f => d_on_insertion f j) avail es) -> key_ok k r'.
Proof.
  intros es ins j r avail Hnd Hs Hfa Hav. unfold apply_insertion_d. rewrite run_ins_pass.
  split; [rewrite pass_tour; reflexivity|].
  apply (pass_good (fun f => d_on_insertion f j) es avail _ Hnd Hs Hfa).
  intros k Hk. destruct (Hav k Hk) as [H1 H2]. unfold key_ok, route_mut in *. cbn. rewrite H2. exact H1.
Qed.

(* ---------------- accept_solution_state ---------------- *)
Notation refreshes := (refreshes_d tour job value).
Definition sol_route_step (e : entry) (r : rctx) : rctx :=
  match e with ERoute f => d_sol_handler tour job value f r | EAgg _ => r end.
Definition route_sol (es : list entry) (r : rctx) : rctx := fold_left (fun acc e => sol_route_step e acc) es r.

Lemma sol_handler_cases_d : forall (f : dfeature) r,
  d_sol_handler tour job value f r = r \/
  (d_sol_handler tour job value f r = d_refresh tour job value f r /\ (d_on_solution f = SolAlways \/ (d_on_solution f = SolStale /\ rc_stale r = true))).
Proof.
  intros f r. unfold d_sol_handler. destruct (d_on_solution f); auto. destruct (rc_stale r); auto.
Qed.

Lemma sol_handler_tour : forall (f : dfeature) r, rc_tour (d_sol_handler tour job value f r) = rc_tour r.
Proof. intros f r. destruct (sol_handler_cases_d f r) as [E|[E _]]; rewrite E; reflexivity. Qed.

Lemma route_sol_tour : forall es r, rc_tour (route_sol es r) = rc_tour r.
Proof.
  induction es as [|e es IH]; intros r; cbn; [reflexivity|]. unfold route_sol in IH. rewrite IH.
  destruct e; cbn; [apply sol_handler_tour|reflexivity].
Qed.

(* the invariant of one route context while the handlers run: the keys already known good are right; and a context that is
   (still) not stale has every key right that the rest of the pass will declare good *)
Definition RInv (avail : list nat) (es : list entry) (r : rctx) : Prop :=
  (forall k, In k avail -> key_ok k r) /\
  (rc_stale r = false -> forall k, In k (good_from tour job value svalue refreshes avail es) -> key_ok k r).

Definition next_avail (avail : list nat) (e : entry) : list nat :=
  match e with
  | ERoute f => if refreshes f && deps_in avail (d_deps f) then d_key f :: avail else avail
  | EAgg _ => avail
  end.
Lemma good_from_cons : forall avail e es,
  good_from tour job value svalue refreshes avail (e :: es) = good_from tour job value svalue refreshes (next_avail avail e) es.
Proof. intros avail e es. destruct e as [f|a]; cbn; [destruct (refreshes f && deps_in avail (d_deps f)); reflexivity|reflexivity]. Qed.

Lemma sol_step_inv : forall avail e es r,
  (forall f, e = ERoute f -> Sound f /\ ~ In (d_key f) avail /\ ~ In (d_key f) (route_keys tour job value svalue es)) ->
  RInv avail (e :: es) r -> RInv (next_avail avail e) es (sol_route_step e r).
Proof.
  intros avail e es r He [Hav Hns]. rewrite good_from_cons in Hns.
  destruct e as [f|a]; [|split; assumption].
  destruct (He f eq_refl) as (Hs & Hna & Hne). cbn [sol_route_step].
  assert (Hkeep : forall k, k <> d_key f -> key_ok k r -> key_ok k (d_sol_handler tour job value f r)).
  { intros k Hk H. destruct (sol_handler_cases_d f r) as [E|[E _]]; rewrite E; [exact H|apply refresh_other_d; assumption]. }
  assert (Hfresh : rc_stale (d_sol_handler tour job value f r) = false -> d_sol_handler tour job value f r = r /\ rc_stale r = false).
  { intros H. destruct (sol_handler_cases_d f r) as [E|[E _]]; rewrite E in H; [split; [exact E|exact H]|discriminate]. }
  split.
  - intros k Hk. cbn [next_avail] in Hk. destruct (refreshes f && deps_in avail (d_deps f)) eqn:Ec.
    + apply andb_prop in Ec as [Er Ed]. destruct Hk as [<-|Hk].
      * assert (Hown : key_ok (d_key f) (d_refresh tour job value f r)).
        { apply refresh_own_d; [exact Hs|]. intros d Hd. apply Hav. apply (deps_in_In _ _ Ed). exact Hd. }
        unfold d_sol_handler. pose proof Er as Er'. unfold refreshes_d in Er'.
        destruct (d_on_solution f) eqn:Eo; [discriminate| |exact Hown].
        destruct (rc_stale r) eqn:Es; [exact Hown|].
        (* did not fire: the context is not stale, the invariant has the key *)
        apply Hns; [reflexivity|]. cbn [next_avail]. rewrite Er, Ed. cbn [andb]. apply good_from_incl. left; reflexivity.
      * apply Hkeep; [intros E; subst; apply Hna; exact Hk|apply Hav; exact Hk].
    + apply Hkeep; [intros E; subst; apply Hna; exact Hk|apply Hav; exact Hk].
  - intros Hst k Hk. destruct (Hfresh Hst) as [E Hst']. rewrite E. apply Hns; [exact Hst'|exact Hk].
Qed.

Lemma route_keys_cons : forall e es, route_keys tour job value svalue (e :: es) =
  (match e with ERoute f => [d_key f] | EAgg _ => [] end) ++ route_keys tour job value svalue es.
Proof. reflexivity. Qed.
Lemma agg_keys_cons : forall e es, agg_keys tour job value svalue (e :: es) =
  (match e with ERoute _ => [] | EAgg a => [a_key a] end) ++ agg_keys tour job value svalue es.
Proof. reflexivity. Qed.

Lemma step_side : forall e es avail,
  NoDup (route_keys tour job value svalue (e :: es)) ->
  (forall f, In (ERoute f) (e :: es) -> Sound f) ->
  (forall k, In k (route_keys tour job value svalue (e :: es)) -> ~ In k avail) ->
  (forall f, e = ERoute f -> Sound f /\ ~ In (d_key f) avail /\ ~ In (d_key f) (route_keys tour job value svalue es)) /\
  NoDup (route_keys tour job value svalue es) /\
  (forall f, In (ERoute f) es -> Sound f) /\
  (forall k, In k (route_keys tour job value svalue es) -> ~ In k (next_avail avail e)).
Proof.
  intros e es avail Hnd Hs Hd. rewrite route_keys_cons in Hnd, Hd.
  assert (Hnd' : NoDup (route_keys tour job value svalue es)) by (destruct e; cbn [app] in Hnd; [inversion Hnd; assumption|exact Hnd]).
  split; [|split; [exact Hnd'|split]].
  - intros f ->. cbn [app] in Hnd, Hd. inversion Hnd as [|? ? Hni _]; subst.
    split; [apply Hs; left; reflexivity|]. split; [apply Hd; left; reflexivity|exact Hni].
  - intros f Hf. apply Hs. right. exact Hf.
  - intros k Hk Hin. destruct e as [f|a]; cbn [next_avail app] in *.
    + destruct (refreshes f && deps_in avail (d_deps f)).
      * destruct Hin as [<-|Hin]; [inversion Hnd as [|? ? Hni _]; subst; apply Hni; exact Hk|apply (Hd k); [right; exact Hk|exact Hin]].
      * apply (Hd k); [right; exact Hk|exact Hin].
    + apply (Hd k); [exact Hk|exact Hin].
Qed.

Lemma route_sol_inv : forall es avail r,
  NoDup (route_keys tour job value svalue es) -> (forall f, In (ERoute f) es -> Sound f) ->
  (forall k, In k (route_keys tour job value svalue es) -> ~ In k avail) ->
  RInv avail es r ->
  forall k, In k (good_from tour job value svalue refreshes avail es) -> key_ok k (route_sol es r).
Proof.
  induction es as [|e es IH]; intros avail r Hnd Hs Hd Hinv k Hk.
  - cbn in *. destruct Hinv as [Hav _]. apply Hav. exact Hk.
  - unfold route_sol. cbn [fold_left]. fold (route_sol es (sol_route_step e r)).
    rewrite good_from_cons in Hk. destruct (step_side e es avail Hnd Hs Hd) as (H1 & H2 & H3 & H4).
    apply (IH (next_avail avail e)); auto. apply sol_step_inv; assumption.
Qed.

(* ---- the whole solution context ---- *)
Lemma sol_step_routes : forall e s, s_routes (sol_step tour job value svalue e s) = map (sol_route_step e) (s_routes s).
Proof.
  intros e s. destruct e as [f|a]; cbn; [reflexivity|]. symmetry. rewrite <- (map_id (s_routes s)) at 2. reflexivity.
Qed.
Lemma run_sol_routes : forall es s, s_routes (run_sol tour job value svalue es s) = map (route_sol es) (s_routes s).
Proof.
  induction es as [|e es IH]; intros s.
  - cbn. symmetry. apply map_id.
  - unfold run_sol. cbn [fold_left]. fold (run_sol tour job value svalue es (sol_step tour job value svalue e s)).
    rewrite IH, sol_step_routes, map_map. reflexivity.
Qed.
Lemma aggs_preserved : forall es s k, ~ In k (agg_keys tour job value svalue es) ->
  s_aggs (run_sol tour job value svalue es s) k = s_aggs s k.
Proof.
  induction es as [|e es IH]; intros s k Hk; [reflexivity|].
  unfold run_sol. cbn [fold_left]. fold (run_sol tour job value svalue es (sol_step tour job value svalue e s)).
  rewrite agg_keys_cons in Hk. rewrite IH; [|intros H; apply Hk; apply in_or_app; right; exact H].
  destruct e as [f|a]; cbn; [reflexivity|]. unfold set_key.
  destruct (Nat.eqb k (a_key a)) eqn:E; [|reflexivity]. apply Nat.eqb_eq in E. exfalso. apply Hk. left. auto.
Qed.

(* a fresh context of a tour: what recomputation from the tour alone gives *)
Definition fresh (t : tour) : rctx := mkRctx t (SC t) false.
(* the handler of a reads, of every route context, the tour and the keys it declares *)
Definition a_ext (a : afeature) : Prop :=
  forall rs rs', Forall2 (fun r r' => rc_tour r = rc_tour r' /\ forall k, In k (a_deps a) -> rc_state r k = rc_state r' k) rs rs' ->
  a_read a rs = a_read a rs'.

Lemma good_aggs_cons : forall avail e es,
  good_aggs tour job value svalue refreshes avail (e :: es) =
  match e with
  | ERoute _ => good_aggs tour job value svalue refreshes (next_avail avail e) es
  | EAgg a => if deps_in avail (a_deps a) then a_key a :: good_aggs tour job value svalue refreshes avail es
              else good_aggs tour job value svalue refreshes avail es
  end.
Proof. intros avail e es. destruct e as [f|a]; cbn; [destruct (refreshes f && deps_in avail (d_deps f)); reflexivity|reflexivity]. Qed.
Lemma good_aggs_sub : forall es avail k, In k (good_aggs tour job value svalue refreshes avail es) -> In k (agg_keys tour job value svalue es).
Proof.
  induction es as [|e es IH]; intros avail k Hk; [destruct Hk|]. rewrite good_aggs_cons in Hk. rewrite agg_keys_cons.
  destruct e as [f|a]; [apply IH in Hk; exact Hk|].
  destruct (deps_in avail (a_deps a)); [destruct Hk as [<-|Hk]; [left; reflexivity|right; apply IH in Hk; exact Hk]|right; apply IH in Hk; exact Hk].
Qed.
Lemma in_agg_keys : forall es a, In (EAgg a) es -> In (a_key a) (agg_keys tour job value svalue es).
Proof. intros es a H. unfold agg_keys. apply in_flat_map. exists (EAgg a). split; [exact H|left; reflexivity]. Qed.

Lemma fresh_forall2 : forall (a : afeature) avail rs,
  Forall (fun r => forall k, In k avail -> key_ok k r) rs -> (forall k, In k (a_deps a) -> In k avail) ->
  Forall2 (fun r r' => rc_tour r = rc_tour r' /\ forall k, In k (a_deps a) -> rc_state r k = rc_state r' k) rs (map fresh (map rc_tour rs)).
Proof.
  intros a avail rs H Hd. induction rs as [|r rs IH]; cbn; [constructor|].
  inversion H as [|? ? Hr Hrs]; subst. constructor; [|apply IH; exact Hrs].
  split; [reflexivity|]. intros k Hk. cbn. apply Hr. apply Hd. exact Hk.
Qed.

Lemma run_sol_aggs : forall es avail s,
  NoDup (route_keys tour job value svalue es) -> NoDup (agg_keys tour job value svalue es) ->
  (forall f, In (ERoute f) es -> Sound f) ->
  (forall k, In k (route_keys tour job value svalue es) -> ~ In k avail) ->
  Forall (RInv avail es) (s_routes s) ->
  forall a, In (EAgg a) es -> a_ext a -> In (a_key a) (good_aggs tour job value svalue refreshes avail es) ->
  s_aggs (run_sol tour job value svalue es s) (a_key a) = a_read a (map fresh (map rc_tour (s_routes s))).
Proof.
  induction es as [|e es IH]; intros avail s Hnd Hna Hs Hd Hinv a Hin Hext Hgood; [destruct Hin|].
  unfold run_sol. cbn [fold_left]. fold (run_sol tour job value svalue es (sol_step tour job value svalue e s)).
  destruct (step_side e es avail Hnd Hs Hd) as (H1 & H2 & H3 & H4).
  assert (Hinv' : Forall (RInv (next_avail avail e) es) (s_routes (sol_step tour job value svalue e s))).
  { rewrite sol_step_routes. apply Forall_map. eapply Forall_impl; [|exact Hinv]. intros r Hr. apply sol_step_inv; assumption. }
  assert (Htours : map rc_tour (s_routes (sol_step tour job value svalue e s)) = map rc_tour (s_routes s)).
  { rewrite sol_step_routes, map_map. apply map_ext. intros r. destruct e; cbn; [apply sol_handler_tour|reflexivity]. }
  rewrite good_aggs_cons in Hgood. rewrite agg_keys_cons in Hna.
  destruct e as [f|a0].
  - cbn [app] in Hna. destruct Hin as [Hin|Hin]; [discriminate|].
    rewrite (IH (next_avail avail (ERoute f)) _ H2 Hna H3 H4 Hinv' a Hin Hext Hgood). rewrite Htours. reflexivity.
  - cbn [app] in Hna. inversion Hna as [|? ? Hni Hna']; subst. cbn [next_avail] in *.
    destruct Hin as [Hin|Hin].
    + injection Hin as ->. rewrite aggs_preserved; [|exact Hni].
      destruct (deps_in avail (a_deps a)) eqn:Ed.
      * cbn. unfold set_key. rewrite Nat.eqb_refl. apply Hext. apply (fresh_forall2 a avail).
        -- eapply Forall_impl; [|exact Hinv]. intros r [Hav _]. exact Hav.
        -- apply deps_in_In. exact Ed.
      * exfalso. apply Hni. apply (good_aggs_sub es avail). exact Hgood.
    + assert (Hne : a_key a <> a_key a0) by (intros E; apply Hni; rewrite <- E; apply in_agg_keys; exact Hin).
      assert (Hg' : In (a_key a) (good_aggs tour job value svalue refreshes avail es)).
      { destruct (deps_in avail (a_deps a0)); [destruct Hgood as [E|Hg]; [congruence|exact Hg]|exact Hgood]. }
      rewrite (IH avail _ H2 Hna' H3 H4 Hinv' a Hin Hext Hg'). rewrite Htours. reflexivity.
Qed.

(* hand-over: after accept_solution_state no tour is stale, the tours are what they were, every key the pass declares good
   is right on every tour, every good aggregate is its handler applied to FRESH contexts of the tours - a function of the tours *)
Theorem handover_fresh_d : forall es s,
  NoDup (route_keys tour job value svalue es) -> NoDup (agg_keys tour job value svalue es) ->
  (forall f, In (ERoute f) es -> Sound f) ->
  Forall (fun r => rc_stale r = false -> forall k, In k (good_from tour job value svalue refreshes [] es) -> key_ok k r) (s_routes s) ->
  let s' := accept_solution_state_d tour job value svalue es s in
  map rc_tour (s_routes s') = map rc_tour (s_routes s) /\
  Forall (fun r' => rc_stale r' = false /\ forall k, In k (good_from tour job value svalue refreshes [] es) -> key_ok k r') (s_routes s') /\
  forall a, In (EAgg a) es -> a_ext a -> In (a_key a) (good_aggs tour job value svalue refreshes [] es) ->
            s_aggs s' (a_key a) = a_read a (map fresh (map rc_tour (s_routes s'))).
Proof.
  intros es s Hnd Hna Hs Hinv. cbn zeta. unfold accept_solution_state_d. cbn [s_routes s_aggs].
  assert (Hinv0 : Forall (RInv [] es) (s_routes s)).
  { eapply Forall_impl; [|exact Hinv]. intros r Hr. split; [intros k []|exact Hr]. }
  assert (Htours : map rc_tour (map (unset_d tour value) (s_routes (run_sol tour job value svalue es s))) = map rc_tour (s_routes s)).
  { rewrite run_sol_routes, !map_map. apply map_ext. intros r. cbn. apply route_sol_tour. }
  split; [exact Htours|]. split.
  - rewrite run_sol_routes, map_map. apply Forall_map. eapply Forall_impl; [|exact Hinv0]. intros r Hr. cbn.
    split; [reflexivity|]. intros k Hk. unfold key_ok. cbn [rc_state rc_tour].
    apply (route_sol_inv es [] r Hnd Hs); auto.
  - intros a Hin Hext Hg. rewrite Htours. apply (run_sol_aggs es [] s Hnd Hna Hs); auto.
Qed.

(* the invariant of the per-solution entries on its own: after accept_solution_state every good entry of the solution state is
   its handler applied to fresh contexts of the tours of the result, i.e. the fold over the tours alone *)
Theorem aggregates_fresh_d : forall es s,
  NoDup (route_keys tour job value svalue es) -> NoDup (agg_keys tour job value svalue es) ->
  (forall f, In (ERoute f) es -> Sound f) ->
  Forall (fun r => rc_stale r = false -> forall k, In k (good_from tour job value svalue refreshes [] es) -> key_ok k r) (s_routes s) ->
  let s' := accept_solution_state_d tour job value svalue es s in
  forall a, In (EAgg a) es -> a_ext a -> In (a_key a) (good_aggs tour job value svalue refreshes [] es) ->
            s_aggs s' (a_key a) = a_read a (map fresh (map rc_tour (s_routes s'))).
Proof. intros es s Hnd Hna Hs Hinv. destruct (handover_fresh_d es s Hnd Hna Hs Hinv) as (_ & _ & H). exact H. Qed.

(* InsertionContext::restore BEFORE /repo 38e261f (`early = false`): the aggregates are those of ALL tours the solution held when the
   handlers ran - the tours without jobs that restore drops afterwards included *)
Theorem restore_aggs_d : forall is_empty es s,
  NoDup (route_keys tour job value svalue es) -> NoDup (agg_keys tour job value svalue es) ->
  (forall f, In (ERoute f) es -> Sound f) ->
  Forall (fun r => rc_stale r = false -> forall k, In k (good_from tour job value svalue refreshes [] es) -> key_ok k r) (s_routes s) ->
  let s' := restore_d tour job value svalue false is_empty es s in
  map rc_tour (s_routes s') = filter (fun t => negb (is_empty t)) (map rc_tour (s_routes s)) /\
  forall a, In (EAgg a) es -> a_ext a -> In (a_key a) (good_aggs tour job value svalue refreshes [] es) ->
            s_aggs s' (a_key a) = a_read a (map fresh (map rc_tour (s_routes s))).
Proof.
  intros is_empty es s Hnd Hna Hs Hinv. cbn zeta. unfold restore_d, drop_empty. cbn [s_routes s_aggs].
  destruct (handover_fresh_d es s Hnd Hna Hs Hinv) as (Ht & _ & Ha). cbn zeta in Ht, Ha. split.
  - rewrite <- Ht. generalize (s_routes (accept_solution_state_d tour job value svalue es s)). intros l.
    induction l as [|r l IH]; cbn; [reflexivity|]. destruct (is_empty (rc_tour r)); cbn; [exact IH|f_equal; exact IH].
  - intros a Hin Hext Hg. rewrite (Ha a Hin Hext Hg), Ht. reflexivity.
Qed.

Lemma map_drop_empty : forall is_empty (l : list rctx),
  map rc_tour (drop_empty tour value is_empty l) = filter (fun t => negb (is_empty t)) (map rc_tour l).
Proof.
  intros is_empty l. unfold drop_empty. induction l as [|r l IH]; cbn; [reflexivity|].
  destruct (is_empty (rc_tour r)); cbn; [exact IH|f_equal; exact IH].
Qed.
Lemma drop_empty_id : forall is_empty (l : list rctx),
  Forall (fun t => is_empty t = false) (map rc_tour l) -> drop_empty tour value is_empty l = l.
Proof.
  intros is_empty l H. unfold drop_empty. induction l as [|r l IH]; cbn; [reflexivity|].
  cbn [map] in H. inversion H as [|? ? Hr Hl]; subst. rewrite Hr. cbn. f_equal. apply IH. exact Hl.
Qed.
Lemma filter_all_nonempty : forall (is_empty : tour -> bool) (l : list tour),
  Forall (fun t => is_empty t = false) (filter (fun t => negb (is_empty t)) l).
Proof.
  intros is_empty l. apply Forall_forall. intros t Ht. apply filter_In in Ht as [_ Ht]. destruct (is_empty t); [discriminate|reflexivity].
Qed.

(* InsertionContext::restore as it is since /repo 38e261f (`early = true`): the tours of the result are the tours with jobs, and
   every good aggregate is the fold over exactly THOSE tours *)
Theorem restore_fixed_d : forall is_empty es s,
  NoDup (route_keys tour job value svalue es) -> NoDup (agg_keys tour job value svalue es) ->
  (forall f, In (ERoute f) es -> Sound f) ->
  Forall (fun r => rc_stale r = false -> forall k, In k (good_from tour job value svalue refreshes [] es) -> key_ok k r) (s_routes s) ->
  let s' := restore_d tour job value svalue true is_empty es s in
  map rc_tour (s_routes s') = filter (fun t => negb (is_empty t)) (map rc_tour (s_routes s)) /\
  Forall (fun r' => rc_stale r' = false /\ forall k, In k (good_from tour job value svalue refreshes [] es) -> key_ok k r') (s_routes s') /\
  forall a, In (EAgg a) es -> a_ext a -> In (a_key a) (good_aggs tour job value svalue refreshes [] es) ->
            s_aggs s' (a_key a) = a_read a (map fresh (map rc_tour (s_routes s'))).
Proof.
  intros is_empty es s Hnd Hna Hs Hinv. cbn zeta. unfold restore_d.
  set (s0 := mkS (drop_empty tour value is_empty (s_routes s)) (s_aggs s)).
  assert (Hinv0 : Forall (fun r => rc_stale r = false -> forall k, In k (good_from tour job value svalue refreshes [] es) -> key_ok k r) (s_routes s0)).
  { cbn [s0 s_routes]. unfold drop_empty. apply Forall_forall. intros r Hr. apply filter_In in Hr as [Hr _].
    rewrite Forall_forall in Hinv. apply Hinv. exact Hr. }
  destruct (handover_fresh_d es s0 Hnd Hna Hs Hinv0) as (Ht & Hf & Ha). cbn zeta in Ht, Hf, Ha.
  assert (Ht0 : map rc_tour (s_routes (accept_solution_state_d tour job value svalue es s0)) =
                filter (fun t => negb (is_empty t)) (map rc_tour (s_routes s))).
  { rewrite Ht. cbn [s0 s_routes]. apply map_drop_empty. }
  assert (Hid : drop_empty tour value is_empty (s_routes (accept_solution_state_d tour job value svalue es s0)) =
                s_routes (accept_solution_state_d tour job value svalue es s0)).
  { apply drop_empty_id. rewrite Ht0. apply filter_all_nonempty. }
  cbn [s_routes s_aggs]. rewrite Hid. split; [exact Ht0|]. split; [exact Hf|exact Ha].
Qed.

(* objective values are a function of the tours: what an objective can read after a hand-over - tours, good keys, good
   aggregates - is the same for two solutions with identical tours *)
Definition view_d (G A : list nat) (s : sctx) :=
  (map (fun r => (rc_tour r, map (fun k => rc_state r k) G)) (s_routes s), map (fun k => s_aggs s k) A).

Lemma good_aggs_entry : forall es avail k, In k (good_aggs tour job value svalue refreshes avail es) -> exists a, In (EAgg a) es /\ a_key a = k.
Proof.
  induction es as [|e es IH]; intros avail k Hk; [destruct Hk|]. rewrite good_aggs_cons in Hk.
  destruct e as [f|a].
  - destruct (IH _ _ Hk) as (a & Ha & E). exists a. split; [right; exact Ha|exact E].
  - destruct (deps_in avail (a_deps a)).
    + destruct Hk as [<-|Hk]; [exists a; split; [left; reflexivity|reflexivity]|].
      destruct (IH _ _ Hk) as (a' & Ha & E). exists a'. split; [right; exact Ha|exact E].
    + destruct (IH _ _ Hk) as (a' & Ha & E). exists a'. split; [right; exact Ha|exact E].
Qed.

Theorem objective_function_d : forall (result : Type) es s1 s2
  (fitness : list (tour * list (option value)) * list (option svalue) -> result),
  NoDup (route_keys tour job value svalue es) -> NoDup (agg_keys tour job value svalue es) ->
  (forall f, In (ERoute f) es -> Sound f) -> (forall a, In (EAgg a) es -> a_ext a) ->
  Forall (fun r => rc_stale r = false -> forall k, In k (good_from tour job value svalue refreshes [] es) -> key_ok k r) (s_routes s1) ->
  Forall (fun r => rc_stale r = false -> forall k, In k (good_from tour job value svalue refreshes [] es) -> key_ok k r) (s_routes s2) ->
  map rc_tour (s_routes s1) = map rc_tour (s_routes s2) ->
  let G := good_from tour job value svalue refreshes [] es in
  let A := good_aggs tour job value svalue refreshes [] es in
  fitness (view_d G A (accept_solution_state_d tour job value svalue es s1)) =
  fitness (view_d G A (accept_solution_state_d tour job value svalue es s2)).
Proof.
  intros result es s1 s2 fitness Hnd Hna Hs Hext H1 H2 Ht G A. f_equal.
  destruct (handover_fresh_d es s1 Hnd Hna Hs H1) as (T1 & F1 & A1).
  destruct (handover_fresh_d es s2 Hnd Hna Hs H2) as (T2 & F2 & A2). cbn zeta in *.
  unfold view_d. f_equal.
  - assert (Hl : map rc_tour (s_routes (accept_solution_state_d tour job value svalue es s1)) =
                 map rc_tour (s_routes (accept_solution_state_d tour job value svalue es s2))) by (rewrite T1, T2; exact Ht).
    revert F1 F2 Hl. generalize (s_routes (accept_solution_state_d tour job value svalue es s1)) (s_routes (accept_solution_state_d tour job value svalue es s2)).
    intros l1. induction l1 as [|a l1 IH]; intros [|b l2] F1 F2 Hl; try discriminate; [reflexivity|].
    cbn [map] in *. inversion Hl as [[Ea El]]. inversion F1 as [|? ? [_ Fa] F1']; inversion F2 as [|? ? [_ Fb] F2']; subst.
    f_equal; [|apply IH; assumption]. rewrite Ea. f_equal. apply map_ext_in. intros k Hk.
    rewrite (Fa k Hk), (Fb k Hk), Ea. reflexivity.
  - apply map_ext_in. intros k Hk. destruct (good_aggs_entry es [] k Hk) as (a & Ha & <-).
    rewrite (A1 a Ha (Hext a Ha) Hk), (A2 a Ha (Hext a Ha) Hk), T1, T2, Ht. reflexivity.
Qed.
End PD.

(* ---------------- "recompute": the run of the read functions in a dependency-respecting order ---------------- *)
Lemma nodup_app_disj : forall (l1 l2 : list nat) k, NoDup (l1 ++ l2) -> In k l1 -> ~ In k l2.
Proof.
  induction l1 as [|x l1 IH]; intros l2 k Hnd H1 H2; [destruct H1|]. cbn [app] in Hnd. inversion Hnd as [|? ? Hni Hnd']; subst.
  destruct H1 as [<-|H1]; [apply Hni; apply in_or_app; right; exact H2|exact (IH l2 k Hnd' H1 H2)].
Qed.

Section Ideal.
Variables tour job value : Type.
Notation dfeature := (dfeature tour job value).
Definition write_step (t : tour) (c : cache value) (f : dfeature) : cache value := set_key value c (d_key f) (d_read f t c).

Lemma run_all_app : forall (pre post : list dfeature) t,
  run_all tour job value (pre ++ post) t = fold_left (write_step t) post (run_all tour job value pre t).
Proof. intros pre post t. unfold run_all. rewrite fold_left_app. reflexivity. Qed.
Lemma write_stable : forall t (post : list dfeature) c k, ~ In k (map d_key post) -> fold_left (write_step t) post c k = c k.
Proof.
  intros t post; induction post as [|f post IH]; intros c k Hk; [reflexivity|]. cbn [fold_left].
  rewrite IH; [|intros H; apply Hk; right; exact H]. unfold write_step, set_key.
  destruct (Nat.eqb k (d_key f)) eqn:E; [|reflexivity]. apply Nat.eqb_eq in E. exfalso. apply Hk. left. auto.
Qed.
Lemma ordered_deps : forall (pre : list dfeature) seen f post,
  ordered_b tour job value seen (pre ++ f :: post) = true -> forall k, In k (d_deps f) -> In k seen \/ In k (map d_key pre).
Proof.
  induction pre as [|g pre IH]; intros seen f post H k Hk; cbn [app ordered_b] in H; apply andb_prop in H as [H1 H2].
  - left. apply (deps_in_In _ _ H1). exact Hk.
  - destruct (IH _ _ _ H2 k Hk) as [[<-|Hs]|Hp]; [right; left; reflexivity|left; exact Hs|right; right; exact Hp].
Qed.

Theorem ideal_sound : forall fs : list dfeature,
  NoDup (map d_key fs) -> ordered_b tour job value [] fs = true ->
  (forall f, In f fs -> reads_only tour job value f) ->
  forall f, In f fs -> Sound tour job value (run_all tour job value fs) f.
Proof.
  intros fs Hnd Hord Hro f Hin t c Hc. destruct (in_split f fs Hin) as (pre & post & ->).
  rewrite map_app in Hnd. cbn [map] in Hnd.
  assert (Hkf : ~ In (d_key f) (map d_key post)).
  { apply NoDup_remove_2 in Hnd. intros H. apply Hnd. apply in_or_app. right. exact H. }
  rewrite run_all_app. cbn [fold_left]. rewrite write_stable; [|exact Hkf].
  unfold write_step at 1. unfold set_key. rewrite Nat.eqb_refl.
  apply (Hro f Hin). intros k Hk. rewrite (Hc k Hk).
  destruct (ordered_deps pre [] f post Hord k Hk) as [[]|Hp].
  rewrite (run_all_app pre (f :: post) t). apply write_stable. intros H.
  (* k is the key of a descriptor of `pre`: it is not a key of f :: post *)
  exact (nodup_app_disj _ _ _ Hnd Hp H).
Qed.
End Ideal.

(* ================= the concrete goal table ================= *)
Lemma nodup_check : forall l : list nat,
  (if list_eq_dec Nat.eq_dec (nodup Nat.eq_dec l) l then true else false) = true -> NoDup l.
Proof. intros l H. destruct (list_eq_dec Nat.eq_dec (nodup Nat.eq_dec l) l) as [e|]; [rewrite <- e; apply NoDup_nodup|discriminate]. Qed.
Lemma in_if : forall {A} (b : bool) (l : list A) x, In x (if b then l else []) -> b = true /\ In x l.
Proof. intros A b l x H. destruct b; [split; [reflexivity|exact H]|destruct H]. Qed.

Section CP.
Variable dur dist : Z -> Z -> Z.
Notation feat := (dfeature ftour fact fval).
Notation RO := (reads_only ftour fact fval).

Ltac ro_const := intros t c c' H; reflexivity.
Lemma ro_sched : RO (f_sched dur).   Proof. ro_const. Qed.
Lemma ro_latest : RO (f_latest dur). Proof. ro_const. Qed.
Lemma ro_dist : RO (f_dist dist).    Proof. ro_const. Qed.
Lemma ro_reload : RO f_reload.       Proof. ro_const. Qed.
Lemma ro_compat : RO f_compat.       Proof. ro_const. Qed.
Lemma ro_groups : RO f_groups.       Proof. ro_const. Qed.
Lemma ro_limit : RO f_limit.         Proof. ro_const. Qed.
Lemma ro_rivs : RO f_rivs.           Proof. ro_const. Qed.
Lemma ro_ranges : RO f_ranges.       Proof. ro_const. Qed.
Lemma ro_wait : RO f_wait.
Proof. intros t c c' H. cbn. unfold scheduled. rewrite (H K_SCHED) by (left; reflexivity). reflexivity. Qed.
Lemma ro_dur : RO f_dur.
Proof. intros t c c' H. cbn. unfold scheduled. rewrite (H K_SCHED) by (left; reflexivity). reflexivity. Qed.
Lemma load_ivs_ext : forall reload t (c c' : cache fval), (forall k, In k (load_deps reload) -> c k = c' k) -> load_ivs reload t c = load_ivs reload t c'.
Proof. intros reload t c c' H. destruct reload; cbn in *; [|reflexivity]. unfold cached_ivs. rewrite (H K_RELOAD) by (left; reflexivity). reflexivity. Qed.
Lemma ro_cur : forall reload, RO (f_cur reload).
Proof. intros reload t c c' H. cbn. rewrite (load_ivs_ext reload t c c' H). reflexivity. Qed.
Lemma ro_past : forall reload, RO (f_past reload).
Proof. intros reload t c c' H. cbn. rewrite (load_ivs_ext reload t c c' H). reflexivity. Qed.
Lemma ro_fut : forall reload, RO (f_fut reload).
Proof. intros reload t c c' H. cbn. rewrite (load_ivs_ext reload t c c' H). reflexivity. Qed.
Lemma ro_maxload : forall reload, RO (f_maxload reload).
Proof. intros reload t c c' H. cbn. rewrite (load_ivs_ext reload t c c' H). reflexivity. Qed.
Lemma ro_rdist : RO (f_rdist dist).
Proof. intros t c c' H. cbn. unfold cached_ivs. rewrite (H K_RIVS) by (left; reflexivity). reflexivity. Qed.
Lemma estimate_ext : forall reload o t (c c' : cache fval), (forall k, In k (estimate_deps reload o) -> c k = c' k) ->
  route_estimate reload o t c = route_estimate reload o t c'.
Proof.
  intros reload o t c c' H. destruct o; cbn in *; try reflexivity.
  - unfold max_load_estimate, cached_ivs, cached_list. destruct reload; cbn in H.
    + rewrite (H K_RELOAD) by (left; reflexivity). rewrite (H K_FUT) by (right; left; reflexivity). reflexivity.
    + rewrite (H K_FUT) by (left; reflexivity). reflexivity.
  - unfold cached_z. rewrite (H K_DIST) by (left; reflexivity). reflexivity.
  - unfold cached_z. rewrite (H K_DUR) by (left; reflexivity). reflexivity.
Qed.
Lemma ro_balance_gen : forall sol reload o, RO (f_balance_gen sol reload o).
Proof. intros sol reload o t c c' H. cbn. rewrite (estimate_ext reload o t c c' H). reflexivity. Qed.
Lemma ro_balance : forall reload o, RO (f_balance reload o).
Proof. intros reload o. apply ro_balance_gen. Qed.

Lemma ideal_reads_only : forall g f, In f (ideal dur dist g) -> RO f.
Proof.
  intros g f H. unfold ideal in H. rewrite !in_app_iff in H.
  destruct H as [H|[H|[H|[H|[H|[H|H]]]]]].
  - cbn in H. destruct H as [<-|[<-|[<-|[<-|[<-|[]]]]]]; [apply ro_sched|apply ro_latest|apply ro_wait|apply ro_dist|apply ro_dur].
  - unfold capacity_fs in H. apply in_app_iff in H as [H|H].
    + apply in_if in H as [_ [<-|[]]]. apply ro_reload.
    + cbn in H. destruct H as [<-|[<-|[<-|[<-|[]]]]]; [apply ro_cur|apply ro_past|apply ro_fut|apply ro_maxload].
  - apply in_if in H as [_ [<-|[]]]. apply ro_compat.
  - apply in_if in H as [_ [<-|[]]]. apply ro_groups.
  - apply in_if in H as [_ [<-|[]]]. apply ro_limit.
  - apply in_if in H as [_ [<-|[<-|[]]]]; [apply ro_rivs|apply ro_rdist].
  - apply in_flat_map in H as (o & _ & H). destruct o; cbn in H; destruct H as [<-|[]]; try apply ro_balance. apply ro_ranges.
Qed.

Lemma obj_entry_feature : forall reload o f, In (ERoute f) (objective_entries SolStale reload o) -> In f (objective_features reload o).
Proof.
  intros reload o f H. destruct o; cbn in *; destruct H as [E|H]; try (injection E as <-; left; reflexivity);
    try (destruct H as [E|[]]; discriminate); try destruct H.
Qed.

Lemma goal_features_ideal : forall g f, In (ERoute f) (goal_table dur dist g) -> In f (ideal dur dist g).
Proof.
  intros g f H. unfold goal_table, goal_table_gen in H. unfold ideal. rewrite !in_app_iff in *.
  destruct H as [H|[H|[H|[H|[H|[H|[H|[H|H]]]]]]]].
  - apply in_if in H as [_ [E|[]]]. discriminate.
  - apply in_flat_map in H as (o & Ho & H). do 6 right. apply in_flat_map. exists o.
    split; [apply in_or_app; left; exact Ho|apply obj_entry_feature; exact H].
  - apply in_map_iff in H as (f' & E & Hf). injection E as ->. left. exact Hf.
  - apply in_flat_map in H as (o & Ho & H). do 6 right. apply in_flat_map. exists o.
    split; [apply in_or_app; right; exact Ho|apply obj_entry_feature; exact H].
  - apply in_map_iff in H as (f' & E & Hf). injection E as ->. right. left. exact Hf.
  - apply in_if in H as [Eb [E|[]]]. injection E as <-. do 2 right. left. rewrite Eb. left. reflexivity.
  - apply in_if in H as [Eb [E|[]]]. injection E as <-. do 3 right. left. rewrite Eb. left. reflexivity.
  - apply in_if in H as [Eb [E|[]]]. injection E as <-. do 4 right. left. rewrite Eb. left. reflexivity.
  - apply in_if in H as [Eb [E|[E|[]]]]; injection E as <-; do 5 right; left; rewrite Eb; [left|right; left]; reflexivity.
Qed.

Notation SCg := (spec_cache dur dist).

Theorem goal_sound : forall g, keys_ok dur dist g = true -> ideal_ok dur dist g = true ->
  forall f, In (ERoute f) (goal_table dur dist g) -> Sound ftour fact fval (SCg g) f.
Proof.
  intros g Hk Hi f Hf. unfold spec_cache. apply ideal_sound.
  - unfold keys_ok in Hk. apply andb_prop in Hk as [_ Hk]. apply nodup_check. exact Hk.
  - exact Hi.
  - apply ideal_reads_only.
  - apply goal_features_ideal. exact Hf.
Qed.

Lemma keys_ok_nodup : forall g, keys_ok dur dist g = true ->
  NoDup (route_keys ftour fact fval sval (goal_table dur dist g)) /\ NoDup (agg_keys ftour fact fval sval (goal_table dur dist g)).
Proof.
  intros g Hk. unfold keys_ok in Hk. apply andb_prop in Hk as [Hk _]. apply andb_prop in Hk as [H1 H2].
  split; apply nodup_check; assumption.
Qed.

(* the per-solution entries read the tours and the keys they declare *)
Lemma ext_order : a_ext ftour fval sval a_order.
Proof.
  intros rs rs' H. cbn. f_equal. f_equal. generalize 0. induction H as [|r r' rs rs' [Et _] _ IH]; intros acc; cbn; [reflexivity|].
  rewrite Et. apply IH.
Qed.
Lemma ext_balance : forall reload o, a_ext ftour fval sval (a_balance reload o).
Proof.
  intros reload o rs rs' H. cbn. f_equal. f_equal. induction H as [|r r' rs rs' [Et Hk] _ IH]; cbn; [reflexivity|].
  f_equal; [|exact IH]. rewrite Et. apply estimate_ext. exact Hk.
Qed.
Lemma goal_aggs_ext : forall g a, In (EAgg a) (goal_table dur dist g) -> a_ext ftour fval sval a.
Proof.
  intros g a H. unfold goal_table, goal_table_gen in H. rewrite !in_app_iff in H.
  assert (Hobj : forall l, In (EAgg a) (flat_map (objective_entries SolStale (c_reload g)) l) -> a_ext ftour fval sval a).
  { intros l Hl. apply in_flat_map in Hl as (o & _ & Ho). destruct o; cbn in Ho;
      try (destruct Ho as [E|[E|[]]]; [discriminate|injection E as <-; apply ext_balance]).
    destruct Ho as [E|[]]. discriminate. }
  destruct H as [H|[H|[H|[H|[H|[H|[H|[H|H]]]]]]]]; try (apply Hobj in H; exact H).
  - apply in_if in H as [_ [E|[]]]. injection E as <-. apply ext_order.
  - apply in_map_iff in H as (f' & E & _). discriminate.
  - apply in_map_iff in H as (f' & E & _). discriminate.
  - apply in_if in H as [_ [E|[]]]. discriminate.
  - apply in_if in H as [_ [E|[]]]. discriminate.
  - apply in_if in H as [_ [E|[]]]. discriminate.
  - apply in_if in H as [_ [E|[E|[]]]]; discriminate.
Qed.

Lemma find_agg : forall (es : list (entry ftour fact fval sval)) a,
  NoDup (agg_keys ftour fact fval sval es) -> In (EAgg a) es ->
  find (fun a' => Nat.eqb (a_key a') (a_key a)) (flat_map (fun e => match e with EAgg a => [a] | ERoute _ => [] end) es) = Some a.
Proof.
  induction es as [|e es IH]; intros a Hnd Hin; [destruct Hin|].
  unfold agg_keys in Hnd. cbn [flat_map] in *. fold (agg_keys ftour fact fval sval es) in Hnd.
  destruct e as [f|a0]; cbn [app] in *.
  - destruct Hin as [E|Hin]; [discriminate|]. apply IH; assumption.
  - inversion Hnd as [|? ? Hni Hnd']; subst. cbn [find]. destruct Hin as [E|Hin].
    + injection E as ->. rewrite Nat.eqb_refl. reflexivity.
    + destruct (Nat.eqb (a_key a0) (a_key a)) eqn:E.
      * apply Nat.eqb_eq in E. exfalso. apply Hni. rewrite E. unfold agg_keys. apply in_flat_map. exists (EAgg a). split; [exact Hin|left; reflexivity].
      * apply IH; assumption.
Qed.

Notation key_okg g := (key_ok ftour fval (SCg g)).

(* hand-over, for any goal configuration whose boolean side conditions evaluate to true *)
Theorem goal_handover_fresh : forall g, keys_ok dur dist g = true -> ideal_ok dur dist g = true ->
  forall s : sctx ftour fval sval,
  Forall (fun r => rc_stale r = false -> forall k, In k (good_handover dur dist g) -> key_okg g k r) (s_routes s) ->
  let s' := accept_solution_state_d ftour fact fval sval (goal_table dur dist g) s in
  map rc_tour (s_routes s') = map rc_tour (s_routes s) /\
  Forall (fun r' => rc_stale r' = false /\ forall k, In k (good_handover dur dist g) -> key_okg g k r') (s_routes s') /\
  forall k, In k (good_handover_aggs dur dist g) -> s_aggs s' k = spec_aggs dur dist g (map rc_tour (s_routes s')) k.
Proof.
  intros g Hk Hi s Hinv. destruct (keys_ok_nodup g Hk) as [Hnd Hna].
  destruct (handover_fresh_d ftour fact fval sval (SCg g) (goal_table dur dist g) s Hnd Hna (goal_sound g Hk Hi) Hinv) as (Ht & Hf & Ha).
  cbn zeta in *. split; [exact Ht|]. split; [exact Hf|].
  intros k Hin. destruct (good_aggs_entry ftour fact fval sval _ _ _ Hin) as (a & Hain & <-).
  rewrite (Ha a Hain (goal_aggs_ext g a Hain) Hin). unfold spec_aggs. rewrite (find_agg _ a Hna Hain). reflexivity.
Qed.

(* restore / the end of an insertion run, as they are since /repo 38e261f, for any goal configuration passing the checks *)
Theorem goal_restore_fresh : forall g, keys_ok dur dist g = true -> ideal_ok dur dist g = true ->
  forall (is_empty : ftour -> bool) (s : sctx ftour fval sval),
  Forall (fun r => rc_stale r = false -> forall k, In k (good_handover dur dist g) -> key_okg g k r) (s_routes s) ->
  let s' := restore_d ftour fact fval sval true is_empty (goal_table dur dist g) s in
  map rc_tour (s_routes s') = filter (fun t => negb (is_empty t)) (map rc_tour (s_routes s)) /\
  Forall (fun r' => rc_stale r' = false /\ forall k, In k (good_handover dur dist g) -> key_okg g k r') (s_routes s') /\
  forall k, In k (good_handover_aggs dur dist g) -> s_aggs s' k = spec_aggs dur dist g (map rc_tour (s_routes s')) k.
Proof.
  intros g Hk Hi is_empty s Hinv. destruct (keys_ok_nodup g Hk) as [Hnd Hna].
  destruct (restore_fixed_d ftour fact fval sval (SCg g) is_empty (goal_table dur dist g) s Hnd Hna (goal_sound g Hk Hi) Hinv) as (Ht & Hf & Ha).
  cbn zeta in *. split; [exact Ht|]. split; [exact Hf|].
  intros k Hin. destruct (good_aggs_entry ftour fact fval sval _ _ _ Hin) as (a & Hain & <-).
  rewrite (Ha a Hain (goal_aggs_ext g a Hain) Hin). unfold spec_aggs. rewrite (find_agg _ a Hna Hain). reflexivity.
Qed.

Theorem goal_route_state_fresh : forall g, keys_ok dur dist g = true -> ideal_ok dur dist g = true ->
  forall r : rctx ftour fval, rc_stale r = true ->
  let r' := accept_route_state_d ftour fact fval sval (goal_table dur dist g) r in
  rc_stale r' = false /\ rc_tour r' = rc_tour r /\ forall k, In k (good_route dur dist g) -> key_okg g k r'.
Proof.
  intros g Hk Hi r Hst. destruct (keys_ok_nodup g Hk) as [Hnd _].
  exact (route_state_fresh ftour fact fval sval (SCg g) (goal_table dur dist g) r Hnd (goal_sound g Hk Hi) Hst).
Qed.

Theorem goal_insertion_fresh : forall g, keys_ok dur dist g = true -> ideal_ok dur dist g = true ->
  forall ins j (r : rctx ftour fval) avail,
  (forall f, In (ERoute f) (goal_table dur dist g) -> d_on_insertion f j = true -> ~ In (d_key f) avail) ->
  (forall k, In k avail -> key_okg g k r /\ SCg g (ins j (rc_tour r)) k = SCg g (rc_tour r) k) ->
  let r' := apply_insertion_d ftour fact fval sval (goal_table dur dist g) ins j r in
  rc_tour r' = ins j (rc_tour r) /\
  forall k, In k (good_from ftour fact fval sval (fun f => d_on_insertion f j) avail (goal_table dur dist g)) -> key_okg g k r'.
Proof.
  intros g Hk Hi ins j r avail H1 H2. destruct (keys_ok_nodup g Hk) as [Hnd _].
  exact (insertion_fresh_d ftour fact fval sval (SCg g) (goal_table dur dist g) ins j r avail Hnd (goal_sound g Hk Hi) H1 H2).
Qed.

Theorem goal_objective_function : forall (result : Type) g, keys_ok dur dist g = true -> ideal_ok dur dist g = true ->
  forall (s1 s2 : sctx ftour fval sval) (fitness : list (ftour * list (option fval)) * list (option sval) -> result),
  Forall (fun r => rc_stale r = false -> forall k, In k (good_handover dur dist g) -> key_okg g k r) (s_routes s1) ->
  Forall (fun r => rc_stale r = false -> forall k, In k (good_handover dur dist g) -> key_okg g k r) (s_routes s2) ->
  map rc_tour (s_routes s1) = map rc_tour (s_routes s2) ->
  fitness (view_d ftour fval sval (good_handover dur dist g) (good_handover_aggs dur dist g)
                  (accept_solution_state_d ftour fact fval sval (goal_table dur dist g) s1)) =
  fitness (view_d ftour fval sval (good_handover dur dist g) (good_handover_aggs dur dist g)
                  (accept_solution_state_d ftour fact fval sval (goal_table dur dist g) s2)).
Proof.
  intros result g Hk Hi s1 s2 fitness H1 H2 Ht. destruct (keys_ok_nodup g Hk) as [Hnd Hna].
  exact (objective_function_d ftour fact fval sval (SCg g) result (goal_table dur dist g) s1 s2 fitness Hnd Hna
           (goal_sound g Hk Hi) (goal_aggs_ext g) H1 H2 Ht).
Qed.
End CP.

(* ================= instances: the configuration cfg_full, and the witnesses of the three work-balance findings ================= *)
Section Inst.
Variable dur dist : Z -> Z -> Z.
Notation SCg := (spec_cache dur dist).
Notation key_okg g := (key_ok ftour fval (SCg g)).
Notation tab g := (goal_table dur dist g).

Lemma full_checks : keys_ok dur dist cfg_full = true /\ ideal_ok dur dist cfg_full = true.
Proof. split; vm_compute; reflexivity. Qed.
Lemma untagged_checks : keys_ok dur dist cfg_untagged = true /\ ideal_ok dur dist cfg_untagged = true.
Proof. split; vm_compute; reflexivity. Qed.

(* the keys accept_solution_state makes right in cfg_full: everything cached per tour except the limit duration (no
   solution-level handler; a function of the actor) - since /repo 5d6f1d2 the work-balance route values included *)
Lemma full_good_handover : good_handover dur dist cfg_full =
  [K_RDIST; K_RIVS; K_GROUPS; K_COMPAT; K_MAXLOAD; K_FUT; K_PAST; K_CUR; K_RELOAD; K_RANGES; K_BAL ODuration; K_BAL ODistance;
   K_BAL OActivities; K_DUR; K_DIST; K_WAIT; K_LATEST; K_SCHED].
Proof. vm_compute. reflexivity. Qed.
Lemma full_good_aggs : good_handover_aggs dur dist cfg_full = [A_ORDER; K_BAL OActivities; K_BAL ODistance; K_BAL ODuration].
Proof. vm_compute. reflexivity. Qed.
Lemma full_good_route : good_route dur dist cfg_full =
  [K_RDIST; K_RIVS; K_LIMIT; K_COMPAT; K_MAXLOAD; K_FUT; K_PAST; K_CUR; K_RELOAD; K_RANGES; K_BAL ODuration; K_BAL ODistance;
   K_BAL OActivities; K_DUR; K_DIST; K_WAIT; K_LATEST; K_SCHED].
Proof. vm_compute. reflexivity. Qed.
Lemma untagged_good_insertion : forall j,
  good_from ftour fact fval sval (fun f => d_on_insertion f j) [] (tab cfg_untagged) =
  [K_RDIST; K_RIVS; K_MAXLOAD; K_FUT; K_PAST; K_CUR; K_RELOAD; K_RANGES; K_BAL ODuration; K_BAL ODistance; K_BAL OActivities;
   K_DUR; K_DIST; K_WAIT; K_LATEST; K_SCHED].
Proof. intros j. vm_compute. reflexivity. Qed.

Definition HandoverInv (g : gcfg) (s : sctx ftour fval sval) : Prop :=
  Forall (fun r => rc_stale r = false -> forall k, In k (good_handover dur dist g) -> key_okg g k r) (s_routes s).

Theorem full_handover : forall s, HandoverInv cfg_full s ->
  let s' := accept_solution_state_d ftour fact fval sval (tab cfg_full) s in
  map rc_tour (s_routes s') = map rc_tour (s_routes s) /\
  Forall (fun r' => rc_stale r' = false /\ forall k, In k (good_handover dur dist cfg_full) -> key_okg cfg_full k r') (s_routes s') /\
  forall k, In k (good_handover_aggs dur dist cfg_full) -> s_aggs s' k = spec_aggs dur dist cfg_full (map rc_tour (s_routes s')) k.
Proof. intros s H. destruct full_checks as [Hk Hi]. exact (goal_handover_fresh dur dist cfg_full Hk Hi s H). Qed.

Lemma full_handover_keys : forall ks, (forall k, In k ks -> In k (good_handover dur dist cfg_full)) ->
  forall s, HandoverInv cfg_full s ->
  Forall (fun r' => rc_stale r' = false /\ forall k, In k ks -> key_okg cfg_full k r')
         (s_routes (accept_solution_state_d ftour fact fval sval (tab cfg_full) s)).
Proof.
  intros ks Hks s H. destruct (full_handover s H) as (_ & Hf & _). eapply Forall_impl; [|exact Hf].
  intros r [Hs Hg]. split; [exact Hs|]. intros k Hk. apply Hg. apply Hks. exact Hk.
Qed.
Ltac in_good := intros k Hk; rewrite full_good_handover; cbn in Hk |- *; intuition auto.

Theorem handover_fresh_reload : forall s, HandoverInv cfg_full s ->
  Forall (fun r' => rc_stale r' = false /\ forall k, In k [K_RELOAD; K_CUR; K_PAST; K_FUT; K_MAXLOAD] -> key_okg cfg_full k r')
         (s_routes (accept_solution_state_d ftour fact fval sval (tab cfg_full) s)).
Proof. apply full_handover_keys. in_good. Qed.
Theorem handover_fresh_recharge : forall s, HandoverInv cfg_full s ->
  Forall (fun r' => rc_stale r' = false /\ forall k, In k [K_RIVS; K_RDIST] -> key_okg cfg_full k r')
         (s_routes (accept_solution_state_d ftour fact fval sval (tab cfg_full) s)).
Proof. apply full_handover_keys. in_good. Qed.
Theorem handover_fresh_fast_service : forall s, HandoverInv cfg_full s ->
  Forall (fun r' => rc_stale r' = false /\ forall k, In k [K_RANGES; K_SCHED; K_RELOAD] -> key_okg cfg_full k r')
         (s_routes (accept_solution_state_d ftour fact fval sval (tab cfg_full) s)).
Proof. apply full_handover_keys. in_good. Qed.
Theorem handover_fresh_work_balance_route_values : forall s, HandoverInv cfg_full s ->
  Forall (fun r' => rc_stale r' = false /\ forall k, In k [K_BAL OActivities; K_BAL ODistance; K_BAL ODuration] -> key_okg cfg_full k r')
         (s_routes (accept_solution_state_d ftour fact fval sval (tab cfg_full) s)).
Proof. apply full_handover_keys. in_good. Qed.
Theorem handover_fresh_transport : forall s, HandoverInv cfg_full s ->
  Forall (fun r' => rc_stale r' = false /\ forall k, In k [K_SCHED; K_LATEST; K_WAIT; K_DIST; K_DUR] -> key_okg cfg_full k r')
         (s_routes (accept_solution_state_d ftour fact fval sval (tab cfg_full) s)).
Proof. apply full_handover_keys. in_good. Qed.

Lemma spec_aggs_in : forall g a l, keys_ok dur dist g = true -> In (EAgg a) (tab g) ->
  spec_aggs dur dist g l (a_key a) = a_read a (map (fresh_rctx dur dist g) l).
Proof.
  intros g a l Hk Hin. destruct (keys_ok_nodup dur dist g Hk) as [_ Hna]. unfold spec_aggs. rewrite (find_agg _ a Hna Hin). reflexivity.
Qed.
Lemma spec_order : forall l,
  spec_aggs dur dist cfg_full l A_ORDER = Some (SCount (fold_left (fun acc t => acc + tour_violations t) l 0)).
Proof.
  intros l. destruct full_checks as [Hk _]. change A_ORDER with (a_key a_order).
  rewrite (spec_aggs_in cfg_full a_order l Hk) by (cbn; repeat (try (left; reflexivity); right)). cbn [a_read a_order].
  assert (E : forall acc, fold_left (fun a (r : rctx ftour fval) => a + tour_violations (rc_tour r)) (map (fresh_rctx dur dist cfg_full) l) acc =
                          fold_left (fun a t => a + tour_violations t) l acc).
  { induction l as [|t l IH]; intros acc; cbn; [reflexivity|apply IH]. }
  rewrite E. reflexivity.
Qed.
Lemma spec_balance : forall l o, In o [OActivities; ODistance; ODuration] ->
  spec_aggs dur dist cfg_full l (K_BAL o) = Some (SVec (map (fun t => route_estimate true o t (SCg cfg_full t)) l)).
Proof.
  intros l o Ho. destruct full_checks as [Hk _]. change (K_BAL o) with (a_key (a_balance true o)).
  rewrite (spec_aggs_in cfg_full (a_balance true o) l Hk).
  - cbn [a_read a_balance]. rewrite map_map. reflexivity.
  - destruct Ho as [<-|[<-|[<-|[]]]]; cbn; repeat (try (left; reflexivity); right).
Qed.

Theorem handover_fresh_tour_order : forall s, HandoverInv cfg_full s ->
  let s' := accept_solution_state_d ftour fact fval sval (tab cfg_full) s in
  s_aggs s' A_ORDER = Some (SCount (fold_left (fun acc t => acc + tour_violations t) (map rc_tour (s_routes s')) 0)).
Proof.
  intros s H. destruct (full_handover s H) as (_ & _ & Ha). cbn zeta in *.
  rewrite (Ha A_ORDER) by (rewrite full_good_aggs; left; reflexivity). apply spec_order.
Qed.

Theorem handover_fresh_work_balance_aggregates : forall s, HandoverInv cfg_full s ->
  let s' := accept_solution_state_d ftour fact fval sval (tab cfg_full) s in
  forall o, In o [OActivities; ODistance; ODuration] ->
  s_aggs s' (K_BAL o) = Some (SVec (map (fun t => route_estimate true o t (SCg cfg_full t)) (map rc_tour (s_routes s')))).
Proof.
  intros s H. destruct (full_handover s H) as (_ & _ & Ha). cbn zeta in *. intros o Ho.
  rewrite (Ha (K_BAL o)) by (rewrite full_good_aggs; cbn in Ho |- *; intuition (subst; auto)). apply spec_balance. exact Ho.
Qed.

(* the limit duration: set by the route-level handler, left alone by the other two; a function of the actor *)
Lemma limit_spec : forall t, SCg cfg_full t K_LIMIT = option_map VZ (fv_dur_limit (ft_veh t)).
Proof.
  intros t. destruct full_checks as [Hk Hi].
  assert (Hin : In (ERoute f_limit) (tab cfg_full)) by (cbn; repeat (try (left; reflexivity); right)).
  symmetry. exact (goal_sound dur dist cfg_full Hk Hi f_limit Hin t (fun _ => None) (fun k (H : In k []) => match H with end)).
Qed.
End Inst.

Section Untouched.
Variables tour job value svalue : Type.
Lemma route_sol_untouched : forall (es : list (entry tour job value svalue)) r k,
  (forall f, In (ERoute f) es -> d_key f = k -> d_on_solution f = SolNever) ->
  rc_state (route_sol tour job value svalue es r) k = rc_state r k.
Proof.
  induction es as [|e es IH]; intros r k H; [reflexivity|].
  unfold route_sol. cbn [fold_left]. fold (route_sol tour job value svalue es (sol_route_step tour job value svalue e r)).
  rewrite IH; [|intros f Hf; apply H; right; exact Hf].
  destruct e as [f|a]; [|reflexivity]. cbn [sol_route_step]. unfold d_sol_handler.
  destruct (Nat.eq_dec (d_key f) k) as [E|E].
  - rewrite (H f (or_introl eq_refl) E). reflexivity.
  - destruct (d_on_solution f); [reflexivity| |]; [destruct (rc_stale r); [|reflexivity]|];
      unfold d_refresh, set_key; cbn; destruct (Nat.eqb k (d_key f)) eqn:Ek; try reflexivity; apply Nat.eqb_eq in Ek; congruence.
Qed.
End Untouched.

Section Inst2.
Variable dur dist : Z -> Z -> Z.
Notation SCg := (spec_cache dur dist).
Notation key_okg g := (key_ok ftour fval (SCg g)).
Notation tab g := (goal_table dur dist g).

(* tour limits: accept_route_state sets the limit duration (it is in `good_route`), accept_solution_state leaves it alone, and it
   is a function of the actor, so no edit of the activities can make it wrong *)
Theorem handover_keeps_tour_limits : forall s : sctx ftour fval sval,
  Forall (fun r => key_okg cfg_full K_LIMIT r) (s_routes s) ->
  Forall (fun r' => key_okg cfg_full K_LIMIT r') (s_routes (accept_solution_state_d ftour fact fval sval (tab cfg_full) s)).
Proof.
  intros s H. unfold accept_solution_state_d. cbn [s_routes]. rewrite run_sol_routes, map_map. apply Forall_map.
  eapply Forall_impl; [|exact H]. intros r Hr. unfold key_ok in *. cbn [unset_d rc_state rc_tour].
  rewrite route_sol_tour. rewrite route_sol_untouched; [exact Hr|].
  intros f Hin Hk. cbn in Hin.
  repeat (destruct Hin as [E|Hin]; [try discriminate E; injection E as <-; cbn in Hk; try discriminate Hk; reflexivity|]).
  destruct Hin.
Qed.

Theorem route_state_fresh_full : forall r : rctx ftour fval, rc_stale r = true ->
  let r' := accept_route_state_d ftour fact fval sval (tab cfg_full) r in
  rc_stale r' = false /\ rc_tour r' = rc_tour r /\
  forall k, In k [K_SCHED; K_LATEST; K_WAIT; K_DIST; K_DUR; K_RELOAD; K_CUR; K_PAST; K_FUT; K_MAXLOAD; K_COMPAT; K_LIMIT; K_RIVS; K_RDIST;
                  K_BAL OActivities; K_BAL ODistance; K_BAL ODuration; K_RANGES] -> key_okg cfg_full k r'.
Proof.
  intros r Hst. destruct (full_checks dur dist) as [Hk Hi].
  destruct (goal_route_state_fresh dur dist cfg_full Hk Hi r Hst) as (H1 & H2 & H3). cbn zeta in *.
  split; [exact H1|]. split; [exact H2|]. intros k Hin. apply H3. rewrite full_good_route. cbn in Hin |- *. intuition auto.
Qed.

(* after every single insertion (any job, any change of the tour), without any assumption on the context before: every cached
   field whose insertion handler always fires is right on the tour as it is now *)
Theorem insertion_fresh_untagged : forall ins j (r : rctx ftour fval),
  let r' := apply_insertion_d ftour fact fval sval (tab cfg_untagged) ins j r in
  rc_tour r' = ins j (rc_tour r) /\
  forall k, In k [K_SCHED; K_LATEST; K_WAIT; K_DIST; K_DUR; K_RELOAD; K_CUR; K_PAST; K_FUT; K_MAXLOAD; K_RIVS; K_RDIST;
                  K_BAL OActivities; K_BAL ODistance; K_BAL ODuration; K_RANGES] -> key_okg cfg_untagged k r'.
Proof.
  intros ins j r. destruct (untagged_checks dur dist) as [Hk Hi].
  destruct (goal_insertion_fresh dur dist cfg_untagged Hk Hi ins j r []) as (H1 & H2).
  - intros f _ _ [].
  - intros k [].
  - cbn zeta in *. split; [exact H1|]. intros k Hin. apply H2. rewrite untagged_good_insertion. cbn in Hin |- *. intuition auto.
Qed.

Lemma insertion_fresh_keys : forall ks,
  (forall k, In k ks -> In k [K_SCHED; K_LATEST; K_WAIT; K_DIST; K_DUR; K_RELOAD; K_CUR; K_PAST; K_FUT; K_MAXLOAD; K_RIVS; K_RDIST;
                              K_BAL OActivities; K_BAL ODistance; K_BAL ODuration; K_RANGES]) ->
  forall ins j (r : rctx ftour fval),
  forall k, In k ks -> key_okg cfg_untagged k (apply_insertion_d ftour fact fval sval (tab cfg_untagged) ins j r).
Proof. intros ks Hks ins j r k Hk. destruct (insertion_fresh_untagged ins j r) as [_ H]. apply H. apply Hks. exact Hk. Qed.
Ltac in_ins := intros k Hk; cbn in Hk |- *; intuition auto.
Theorem insertion_fresh_reload : forall ins j (r : rctx ftour fval),
  forall k, In k [K_RELOAD; K_CUR; K_PAST; K_FUT; K_MAXLOAD] -> key_okg cfg_untagged k (apply_insertion_d ftour fact fval sval (tab cfg_untagged) ins j r).
Proof. apply insertion_fresh_keys. in_ins. Qed.
Theorem insertion_fresh_recharge : forall ins j (r : rctx ftour fval),
  forall k, In k [K_RIVS; K_RDIST] -> key_okg cfg_untagged k (apply_insertion_d ftour fact fval sval (tab cfg_untagged) ins j r).
Proof. apply insertion_fresh_keys. in_ins. Qed.
Theorem insertion_fresh_fast_service : forall ins j (r : rctx ftour fval),
  forall k, In k [K_RANGES; K_SCHED; K_RELOAD] -> key_okg cfg_untagged k (apply_insertion_d ftour fact fval sval (tab cfg_untagged) ins j r).
Proof. apply insertion_fresh_keys. in_ins. Qed.
Theorem insertion_fresh_work_balance : forall ins j (r : rctx ftour fval),
  forall k, In k [K_BAL OActivities; K_BAL ODistance; K_BAL ODuration] -> key_okg cfg_untagged k (apply_insertion_d ftour fact fval sval (tab cfg_untagged) ins j r).
Proof. apply insertion_fresh_keys. in_ins. Qed.

(* ... and the limit duration, whose insertion handler is empty: right before, an edit that keeps the actor, right after *)
Theorem insertion_keeps_tour_limits : forall ins j (r : rctx ftour fval),
  key_okg cfg_untagged K_LIMIT r -> SCg cfg_untagged (ins j (rc_tour r)) K_LIMIT = SCg cfg_untagged (rc_tour r) K_LIMIT ->
  key_okg cfg_untagged K_LIMIT (apply_insertion_d ftour fact fval sval (tab cfg_untagged) ins j r).
Proof.
  intros ins j r H1 H2. destruct (untagged_checks dur dist) as [Hk Hi].
  destruct (goal_insertion_fresh dur dist cfg_untagged Hk Hi ins j r [K_LIMIT]) as (_ & H).
  - intros f Hin Hf [E|[]]. cbn in Hin.
    repeat (destruct Hin as [E'|Hin]; [try discriminate E'; injection E' as <-; cbn in E, Hf; try discriminate E; try discriminate Hf|]).
    destruct Hin.
  - intros k [<-|[]]. split; assumption.
  - apply H. apply good_from_incl. left. reflexivity.
Qed.
End Inst2.

(* ================= the three findings about the work balance feature, on concrete tours ================= *)
(* F3: the per-route value has no solution-level refresh: a job leaves the tour (ruin), accept_solution_state runs, the tour is
   flagged fresh, the value is the old one *)
Lemma balance_route_value_stale :
  let es := goal_table_before_5d6f1d2 udur udist cfg_activities in
  let s' := accept_solution_state_d ftour fact fval sval es
              (mkS [route_mut ftour fval (drop_job 2) (wfresh_before cfg_activities wtour2)] (fun _ => None)) in
  exists r', s_routes s' = [r'] /\ rc_stale r' = false /\ rc_tour r' = wtour1 /\
             rc_state r' (K_BAL OActivities) = Some (VZ 2) /\
             spec_cache udur udist cfg_activities wtour1 (K_BAL OActivities) = Some (VZ 1).
Proof. cbn zeta. eexists. split; [reflexivity|]. vm_compute. auto. Qed.

(* the same history with the table as it is since 5d6f1d2: the value is the one of the tour *)
Lemma balance_route_value_repaired :
  let es := goal_table udur udist cfg_activities in
  let s' := accept_solution_state_d ftour fact fval sval es
              (mkS [route_mut ftour fval (drop_job 2) (wfresh cfg_activities wtour2)] (fun _ => None)) in
  exists r', s_routes s' = [r'] /\ rc_stale r' = false /\ rc_tour r' = wtour1 /\
             rc_state r' (K_BAL OActivities) = Some (VZ 1) /\
             spec_cache udur udist cfg_activities wtour1 (K_BAL OActivities) = Some (VZ 1).
Proof. cbn zeta. eexists. split; [reflexivity|]. vm_compute. auto. Qed.

(* F4, route level: the distance balance listed before the cost objective reads the total distance before TransportState
   refreshes it: 0 on a rebuilt tour, the distance before the insertion after an insertion *)
Lemma balance_order_route :
  let es := goal_table udur udist cfg_distance_first in
  let r0 := wfresh cfg_distance_first wtour1 in
  let r1 := apply_insertion_d ftour fact fval sval es (ins_act 2) (wact 2 5 3) r0 in
  rc_state r0 (K_BAL ODistance) = Some (VZ 0) /\ spec_cache udur udist cfg_distance_first wtour1 (K_BAL ODistance) = Some (VZ 12) /\
  rc_tour r1 = wtour2 /\
  rc_state r1 (K_BAL ODistance) = Some (VZ 12) /\ spec_cache udur udist cfg_distance_first wtour2 (K_BAL ODistance) = Some (VZ 20).
Proof. vm_compute. auto 10. Qed.

(* F4, solution level: the max-load balance always precedes the capacity feature, so its aggregate is computed from the
   max-future loads of BEFORE the refresh of a changed tour *)
Lemma balance_order_aggregate :
  let es := goal_table udur udist cfg_max_load in
  let s' := accept_solution_state_d ftour fact fval sval es
              (mkS [route_mut ftour fval (drop_job 2) (wfresh cfg_max_load wtour2)] (fun _ => None)) in
  map rc_tour (s_routes s') = [wtour1] /\ Forall (fun r => rc_stale r = false) (s_routes s') /\
  s_aggs s' (K_BAL OMaxLoad) = Some (SVec [VQ 5 10]) /\
  spec_aggs udur udist cfg_max_load [wtour1] (K_BAL OMaxLoad) = Some (SVec [VQ 2 10]).
Proof. vm_compute. repeat split; auto. Qed.

(* F5: restore = accept_solution_state, then remove_empty_routes: the aggregate counts the tour that was emptied *)
Lemma restore_counts_empty_tour :
  let es := goal_table udur udist cfg_activities in
  let s' := restore_d ftour fact fval sval false no_jobs es
              (mkS [wfresh cfg_activities wtour2; route_mut ftour fval (drop_job 1) (wfresh cfg_activities wtour1)] (fun _ => None)) in
  map rc_tour (s_routes s') = [wtour2] /\
  s_aggs s' (K_BAL OActivities) = Some (SVec [VZ 2; VZ 0]) /\
  spec_aggs udur udist cfg_activities [wtour2] (K_BAL OActivities) = Some (SVec [VZ 2]).
Proof. vm_compute. auto. Qed.
(* the same with restore as it is since 38e261f *)
Lemma restore_repaired :
  let es := goal_table udur udist cfg_activities in
  let s' := restore_d ftour fact fval sval true no_jobs es
              (mkS [wfresh cfg_activities wtour2; route_mut ftour fval (drop_job 1) (wfresh cfg_activities wtour1)] (fun _ => None)) in
  map rc_tour (s_routes s') = [wtour2] /\
  s_aggs s' (K_BAL OActivities) = Some (SVec [VZ 2]) /\
  spec_aggs udur udist cfg_activities [wtour2] (K_BAL OActivities) = Some (SVec [VZ 2]).
Proof. vm_compute. auto. Qed.

(* non-vacuity: a stale context with an empty cache satisfies the hand-over invariant (trivially); after accept_solution_state the
   context is not stale, satisfies the invariant again, and holds the values *)
Lemma full_nonvacuous :
  let s0 := mkS [mkRctx wtour2 (fun _ : nat => @None fval) true] (fun _ : nat => @None sval) in
  let s1 := accept_solution_state_d ftour fact fval sval (goal_table udur udist cfg_full) s0 in
  HandoverInv udur udist cfg_full s0 /\ HandoverInv udur udist cfg_full s1 /\
  (exists r, s_routes s1 = [r] /\ rc_stale r = false /\ rc_state r K_DIST = Some (VZ 20) /\
             rc_state r K_FUT = Some (VList [5; 3; 0; 0]) /\ rc_state r K_RIVS = Some (VIvs [(0%nat, 3%nat)]) /\
             rc_state r K_GROUPS = Some (VSet [])) /\
  s_aggs s1 (K_BAL ODistance) = Some (SVec [VZ 20]) /\ s_aggs s1 A_ORDER = Some (SCount 0).
Proof.
  cbn zeta.
  assert (H0 : HandoverInv udur udist cfg_full (mkS [mkRctx wtour2 (fun _ : nat => @None fval) true] (fun _ : nat => @None sval))).
  { constructor; [|constructor]. intros Hst. discriminate. }
  split; [exact H0|]. split.
  - destruct (full_handover udur udist _ H0) as (_ & Hf & _). cbn zeta in Hf. unfold HandoverInv.
    eapply Forall_impl; [|exact Hf]. intros r [_ Hg] _. exact Hg.
  - split; [eexists; split; [reflexivity|]|]; vm_compute; auto 10.
Qed.

(* F6: the tour emptied by a state handler of the same refresh is counted: [2; 0] where the remaining tours give [2] *)
Lemma restore_counts_tour_emptied_by_handler :
  let es := goal_table udur udist cfg_activities in
  let s' := restore_with_restart false drop_markers es
              (mkS [wfresh cfg_activities wtour2; wfresh cfg_activities wtourm] (fun _ => None)) in
  map rc_tour (s_routes s') = [wtour2] /\
  s_aggs s' (K_BAL OActivities) = Some (SVec [VZ 2; VZ 0]) /\
  spec_aggs udur udist cfg_activities [wtour2] (K_BAL OActivities) = Some (SVec [VZ 2]).
Proof. vm_compute. auto. Qed.
(* the same with the second refresh the code runs now when the final clean-up removed a tour *)
Lemma restore_after_handler_emptied_tour_repaired :
  let es := goal_table udur udist cfg_activities in
  let s' := restore_with_restart true drop_markers es
              (mkS [wfresh cfg_activities wtour2; wfresh cfg_activities wtourm] (fun _ => None)) in
  map rc_tour (s_routes s') = [wtour2] /\ Forall (fun r => rc_stale r = false) (s_routes s') /\
  s_aggs s' (K_BAL OActivities) = Some (SVec [VZ 2]) /\
  spec_aggs udur udist cfg_activities [wtour2] (K_BAL OActivities) = Some (SVec [VZ 2]).
Proof. vm_compute. repeat split; auto. Qed.
