(* C13 — lemmas about Model/Scientific.v *)
From VRP Require Import Base.Tac Model.Scientific.
From Coq Require Import String Permutation.

(* ---------- rounding of distances ---------- *)
Lemma isqrt_round_spec s : 0 <= s ->
  let r := isqrt_round s in
  0 <= r /\ 4 * s < (2 * r + 1) * (2 * r + 1) /\ (0 < r -> (2 * r - 1) * (2 * r - 1) <= 4 * s).
Proof.
  intros Hs r. subst r. unfold isqrt_round.
  pose proof (Z.sqrt_spec (4 * s) ltac:(lia)) as H. cbv zeta in H. unfold Z.succ in H.
  pose proof (Z.sqrt_nonneg (4 * s)) as Hn.
  set (t := Z.sqrt (4 * s)) in *.
  assert (Hq : t + 1 = 2 * ((t + 1) / 2) + (t + 1) mod 2) by (apply Z.div_mod; lia).
  assert (Hm : 0 <= (t + 1) mod 2 < 2) by (apply Z.mod_pos_bound; lia).
  set (q := (t + 1) / 2) in *. set (m := (t + 1) mod 2) in *.
  assert (Hc : m = 0 \/ m = 1) by lia.
  split; [lia|].
  destruct Hc as [E|E]; rewrite E in Hq.
  - assert (Ht : t = 2 * q - 1) by lia. rewrite Ht in H. split; [nia|intros _; lia].
  - assert (Ht : t = 2 * q) by lia. rewrite Ht in H. split; [lia|intros Hq0; nia].
Qed.

Lemma isqrt_round_unique s r : 0 <= s -> 0 <= r ->
  4 * s < (2 * r + 1) * (2 * r + 1) -> (0 < r -> (2 * r - 1) * (2 * r - 1) <= 4 * s) -> r = isqrt_round s.
Proof.
  intros Hs Hr H1 H2. destruct (isqrt_round_spec s Hs) as (G0 & G1 & G2).
  set (q := isqrt_round s) in *.
  destruct (Z.lt_trichotomy r q) as [L|[E|L]]; [|exact E|].
  - exfalso. assert (0 < q) by lia. specialize (G2 H). nia.
  - exfalso. assert (0 < r) by lia. specialize (H2 H). nia.
Qed.

Lemma sqdist_sym a b : sqdist a b = sqdist b a.
Proof. unfold sqdist. ring. Qed.
Lemma sqdist_nonneg a b : 0 <= sqdist a b.
Proof.
  unfold sqdist. pose proof (Z.square_nonneg (fst a - fst b)). pose proof (Z.square_nonneg (snd a - snd b)). lia.
Qed.
Lemma dist_sym rd a b : dist rd a b = dist rd b a.
Proof. unfold dist. now rewrite sqdist_sym. Qed.
Lemma dist_self rd a : dist rd a a = 0.
Proof.
  unfold dist. assert (E : sqdist a a = 0) by (unfold sqdist; ring). rewrite E. now destruct rd.
Qed.

Lemma matrix_entry rd cs a b ca cb :
  nth_error cs a = Some ca -> nth_error cs b = Some cb ->
  exists row, nth_error (matrix rd cs) a = Some row /\ nth_error row b = Some (dist rd ca cb).
Proof.
  intros Ha Hb. unfold matrix. eexists. split.
  - apply map_nth_error. exact Ha.
  - cbv beta. apply map_nth_error. exact Hb.
Qed.

(* ---------- machine integers ---------- *)
Lemma parse_i32_ok z : i32 z -> parse_i32 (TInt z) = Ok z.
Proof.
  unfold i32, parse_i32, in_i32. intros H.
  replace (i32_min <=? z) with true by (symmetry; apply Z.leb_le; lia).
  replace (z <=? i32_max) with true by (symmetry; apply Z.leb_le; lia). reflexivity.
Qed.
Lemma parse_usize_ok z : 0 <= z < two64 -> parse_usize (TInt z) = Ok z.
Proof.
  unfold parse_usize, in_usize. intros H.
  replace (0 <=? z) with true by (symmetry; apply Z.leb_le; lia).
  replace (z <? two64) with true by (symmetry; apply Z.ltb_lt; lia). reflexivity.
Qed.
Lemma as_usize_id z : nat32 z -> as_usize z = z.
Proof. unfold nat32, as_usize, i32_max, two64. intros H. apply Z.mod_small. lia. Qed.
Lemma as_i32_id z : i32 z -> as_i32 z = z.
Proof.
  unfold i32, as_i32, i32_min, i32_max, two31, two32. intros H. rewrite Z.mod_small by lia. lia.
Qed.
Lemma clamp_id z : i32 z -> clamp_i32 z = z.
Proof. unfold i32, clamp_i32. lia. Qed.
Lemma nat32_i32 z : nat32 z -> i32 z.
Proof. unfold nat32, i32, i32_min, i32_max. lia. Qed.
Lemma nat32_usize z : nat32 z -> 0 <= z < two64.
Proof. unfold nat32, i32_max, two64. lia. Qed.

Lemma round_exact z k : round_half_away (z * 10 ^ Z.of_nat k) k = z.
Proof.
  unfold round_half_away. set (d := 10 ^ Z.of_nat k).
  assert (Hd : 0 < d) by (apply Z.pow_pos_nonneg; lia).
  rewrite Z.abs_mul, (Z.abs_eq d) by lia.
  replace (2 * (Z.abs z * d) + d) with (Z.abs z * (2 * d) + d) by ring.
  rewrite Z.div_add_l by lia. rewrite (Z.div_small d (2 * d)) by lia.
  rewrite Z.sgn_mul, (Z.sgn_pos d) by lia. destruct z; cbn; lia.
Qed.
Lemma round_half_away_spec m k :
  let d := 10 ^ Z.of_nat k in let r := round_half_away m k in
  2 * Z.abs (r * d - m) <= d /\ (2 * Z.abs (r * d - m) = d -> Z.abs m < Z.abs (r * d)).
Proof.
  intros d r. subst r. unfold round_half_away. fold d.
  assert (Hd : 0 < d) by (apply Z.pow_pos_nonneg; lia).
  set (a := Z.abs m).
  pose proof (Z.div_mod (2 * a + d) (2 * d) ltac:(lia)) as E.
  pose proof (Z.mod_pos_bound (2 * a + d) (2 * d) ltac:(lia)) as B.
  set (q := (2 * a + d) / (2 * d)) in *. set (t := (2 * a + d) mod (2 * d)) in *.
  assert (Hq : 0 <= q) by (apply Z.div_pos; lia).
  destruct m as [|p|p]; cbn [Z.sgn] in *.
  - subst a. cbn in *. nia.
  - assert (a = Z.pos p) by (subst a; reflexivity). nia.
  - assert (a = Z.pos p) by (subst a; reflexivity). nia.
Qed.
(* ---------- the double of a decimal text, rounded (what parse_int computes) ---------- *)
Lemma binade_some fuel : forall j0 n4 d j, binade fuel j0 n4 d = Some j -> j0 <= j < j0 + Z.of_nat fuel.
Proof.
  induction fuel as [|f IH]; intros j0 n4 d j; cbn [binade]; [discriminate|].
  destruct (n4 <? 2 ^ (j0 + 1) * d).
  - intros [= <-]. lia.
  - intros H. apply IH in H. lia.
Qed.
Lemma binade_none fuel : forall j0 n4 d, 0 < d -> 0 <= j0 -> 0 <= n4 ->
  binade fuel j0 n4 d = None -> fuel <> O -> 2 ^ (j0 + Z.of_nat fuel) * d <= n4.
Proof.
  induction fuel as [|f IH]; intros j0 n4 d Hd Hj Hn; cbn [binade]; [congruence|].
  destruct (Z.ltb_spec n4 (2 ^ (j0 + 1) * d)) as [L|L]; [discriminate|].
  intros H _. destruct f as [|f'].
  - replace (j0 + Z.of_nat 1) with (j0 + 1) by lia. exact L.
  - specialize (IH (j0 + 1) n4 d Hd ltac:(lia) Hn H ltac:(discriminate)).
    replace (j0 + Z.of_nat (S (S f'))) with (j0 + 1 + Z.of_nat (S f')) by lia. exact IH.
Qed.

Lemma f64_round_abs_exact a d : 0 <= a < 2 ^ 33 -> 0 < d -> f64_round_abs (a * d) d = a.
Proof.
  intros Ha Hd. unfold f64_round_abs.
  destruct (Z.ltb_spec (4 * (a * d)) d) as [L|L]; [nia|].
  assert (Ha1 : 1 <= a) by nia.
  destruct (binade 35 0 (4 * (a * d)) d) as [j|] eqn:E.
  - apply binade_some in E. cbv zeta.
    set (s := 54 - j). assert (Hs : 0 < s) by (subst s; lia).
    assert (Hp : 0 < 2 ^ s) by (apply Z.pow_pos_nonneg; lia).
    unfold rne_div.
    replace (a * d * 2 ^ s) with (a * 2 ^ s * d) by ring.
    rewrite Z.div_mul, Z.mod_mul by lia. rewrite Z.mul_0_r.
    replace (0 <? d) with true by (symmetry; apply Z.ltb_lt; lia).
    replace (2 ^ (s + 1)) with (2 * 2 ^ s) by (rewrite Z.pow_add_r by lia; ring).
    replace (2 * (a * 2 ^ s) + 2 ^ s) with (a * (2 * 2 ^ s) + 2 ^ s) by ring.
    rewrite Z.div_add_l by lia. rewrite Z.div_small by lia. lia.
  - exfalso. apply binade_none in E; try lia.
    change (2 ^ (0 + Z.of_nat 35)) with (2 ^ 35) in E.
    assert (2 ^ 35 = 4 * 2 ^ 33) by reflexivity. nia.
Qed.

Lemma f64_round_exact z k : Z.abs z < 2 ^ 33 -> f64_round (z * 10 ^ Z.of_nat k) k = z.
Proof.
  intros Hz. unfold f64_round. set (d := 10 ^ Z.of_nat k).
  assert (Hd : 0 < d) by (apply Z.pow_pos_nonneg; lia).
  rewrite Z.abs_mul, (Z.abs_eq d) by lia.
  rewrite f64_round_abs_exact by lia.
  rewrite Z.sgn_mul, (Z.sgn_pos d) by lia. destruct z; cbn; lia.
Qed.
Lemma parse_int_num_tok k z : i32 z -> parse_int (num_tok k z) = Ok z.
Proof.
  intros H. destruct k as [|k]; cbn [num_tok parse_int].
  - now rewrite clamp_id.
  - rewrite f64_round_exact by (unfold i32, i32_min, i32_max in H; change (2 ^ 33) with 8589934592; lia).
    now rewrite clamp_id.
Qed.

(* ---------- take_parse / skipn ---------- *)
Lemma take_parse_ints p zs extra :
  Forall (fun z => p (TInt z) = Ok z) zs ->
  take_parse (List.length zs) p (map TInt zs ++ extra) = Ok zs.
Proof.
  induction 1 as [|z zs Hz _ IH]; [reflexivity|].
  cbn [List.length map app take_parse]. rewrite Hz. cbn [bind]. rewrite IH. reflexivity.
Qed.
Lemma skipn_exact {A} (h r : list A) n : List.length h = n -> skipn n (h ++ r) = r.
Proof. intros <-. induction h; [reflexivity|]. cbn. exact IHh. Qed.

(* ---------- coordinate index ---------- *)
Lemma coord_eqb_eq a b : coord_eqb a b = true <-> a = b.
Proof.
  unfold coord_eqb. destruct a as [a1 a2], b as [b1 b2]. cbn [fst snd].
  rewrite andb_true_iff, !Z.eqb_eq. split; [intros [-> ->]; reflexivity|intros E; inversion E; auto].
Qed.
Lemma coord_eqb_refl a : coord_eqb a a = true.
Proof. now apply coord_eqb_eq. Qed.

Lemma index_of_app_some c l r i : index_of c l = Some i -> index_of c (l ++ r) = Some i.
Proof.
  revert i. induction l as [|h t IH]; intros i; cbn [index_of app]; [discriminate|].
  destruct (coord_eqb h c); [auto|].
  destruct (index_of c t) as [j|]; cbn [option_map]; [|discriminate].
  intros E. now rewrite (IH j eq_refl).
Qed.
Lemma index_of_app_none c l : index_of c l = None -> index_of c (l ++ [c]) = Some (List.length l).
Proof.
  induction l as [|h t IH]; cbn [index_of app List.length].
  - now rewrite coord_eqb_refl.
  - destruct (coord_eqb h c); [discriminate|].
    destruct (index_of c t); cbn [option_map]; [discriminate|]. intros _. now rewrite IH.
Qed.
Lemma index_of_nth c l i : index_of c l = Some i -> nth_error l i = Some c.
Proof.
  revert i. induction l as [|h t IH]; intros i; cbn [index_of]; [discriminate|].
  destruct (coord_eqb h c) eqn:E.
  - intros [= <-]. apply coord_eqb_eq in E. now subst.
  - destruct (index_of c t) as [j|]; cbn [option_map]; [|discriminate].
    intros [= <-]. cbn [nth_error]. now apply IH.
Qed.
Lemma index_of_none_notin c l : index_of c l = None -> ~ In c l.
Proof.
  induction l as [|h t IH]; cbn [index_of]; [auto|].
  destruct (coord_eqb h c) eqn:E; [discriminate|].
  destruct (index_of c t); cbn [option_map]; [discriminate|]. intros _ [->|H].
  - now rewrite coord_eqb_refl in E.
  - now apply IH.
Qed.
Lemma index_of_in c l : In c l -> exists i, index_of c l = Some i.
Proof.
  intros H. destruct (index_of c l) eqn:E; [eauto|]. now apply index_of_none_notin in E.
Qed.

Lemma fold_add_prefix cs : forall ci, exists r, fold_left add_coord cs ci = ci ++ r.
Proof.
  induction cs as [|c cs IH]; intros ci; cbn [fold_left].
  - exists []. now rewrite app_nil_r.
  - destruct (IH (add_coord ci c)) as [r Hr]. rewrite Hr. unfold add_coord.
    destruct (index_of c ci); [eauto|]. exists ([c] ++ r). now rewrite app_assoc.
Qed.
Lemma collect_fst ci c : fst (collect ci c) = add_coord ci c.
Proof. unfold collect, add_coord. now destruct (index_of c ci). Qed.
(* the location handed out by `collect` is the position of the coordinate in every later state of the index *)
Lemma collect_snd_final ci c rest :
  snd (collect ci c) = loc_of (fold_left add_coord rest (add_coord ci c)) c.
Proof.
  destruct (fold_add_prefix rest (add_coord ci c)) as [r Hr]. rewrite Hr.
  unfold collect, add_coord, loc_of. destruct (index_of c ci) as [i|] eqn:E; cbn [snd].
  - now rewrite (index_of_app_some _ _ r _ E).
  - now rewrite (index_of_app_some _ _ r _ (index_of_app_none _ _ E)).
Qed.
Lemma collect_eq ci c rest ci' loc :
  collect ci c = (ci', loc) -> ci' = add_coord ci c /\ loc = loc_of (fold_left add_coord rest ci') c.
Proof.
  intros E. pose proof (collect_fst ci c) as H1. pose proof (collect_snd_final ci c rest) as H2.
  rewrite E in H1, H2. cbn [fst snd] in H1, H2. subst ci'. auto.
Qed.

Lemma NoDup_snoc {A} (l : list A) c : NoDup l -> ~ In c l -> NoDup (l ++ [c]).
Proof.
  induction 1 as [|h t Hh Ht IH]; intros Hc; cbn [app].
  - constructor; [auto|constructor].
  - constructor.
    + intros G. apply in_app_or in G. destruct G as [G|[G|[]]]; [auto|]. subst. apply Hc. now left.
    + apply IH. intros G. apply Hc. now right.
Qed.
Lemma add_coord_NoDup ci c : NoDup ci -> NoDup (add_coord ci c).
Proof.
  intros H. unfold add_coord. destruct (index_of c ci) eqn:E; [exact H|].
  apply NoDup_snoc; [exact H|now apply index_of_none_notin].
Qed.
Lemma fold_add_NoDup cs : forall ci, NoDup ci -> NoDup (fold_left add_coord cs ci).
Proof. induction cs; intros ci H; cbn [fold_left]; [exact H|]. apply IHcs. now apply add_coord_NoDup. Qed.
Lemma all_coords_NoDup cs : NoDup (all_coords cs).
Proof. apply fold_add_NoDup. constructor. Qed.
Lemma add_coord_self ci c : In c (add_coord ci c).
Proof.
  unfold add_coord. destruct (index_of c ci) eqn:E.
  - eapply nth_error_In. eapply index_of_nth. exact E.
  - apply in_or_app. right. now left.
Qed.
Lemma add_coord_incl ci h x : In x ci -> In x (add_coord ci h).
Proof. intros H. unfold add_coord. destruct (index_of h ci); [exact H|]. apply in_or_app. now left. Qed.
Lemma fold_add_in c cs : forall ci, In c cs \/ In c ci -> In c (fold_left add_coord cs ci).
Proof.
  induction cs as [|h cs IH]; intros ci H; cbn [fold_left].
  - destruct H as [[]|H]. exact H.
  - apply IH. destruct H as [[->|H]|H].
    + right. apply add_coord_self.
    + now left.
    + right. now apply add_coord_incl.
Qed.
(* every coordinate of the sequence has a location, and that location holds the coordinate *)
Lemma loc_of_faithful cs c : In c cs ->
  exists i, loc_of (all_coords cs) c = Z.of_nat i /\ nth_error (all_coords cs) i = Some c.
Proof.
  intros H. assert (G : In c (all_coords cs)) by (apply fold_add_in; now left).
  destruct (index_of_in _ _ G) as [i E]. exists i. unfold loc_of. rewrite E. split; [reflexivity|].
  now apply index_of_nth.
Qed.

(* ---------- Solomon ---------- *)
Lemma read_customer7_print c extra : cust_wf c -> read_customer7 (cust_line c ++ extra) = Ok c.
Proof.
  intros (H1 & H2 & H3 & H4 & H5 & H6 & H7). unfold read_customer7, cust_line.
  change 7%nat with (List.length [c_id c; c_x c; c_y c; c_dem c; c_start c; c_end c; c_service c]).
  rewrite take_parse_ints.
  - cbn [bind]. rewrite !as_usize_id by assumption. now destruct c.
  - repeat constructor; apply parse_i32_ok; auto using nat32_i32.
Qed.

Lemma sol_read_jobs_print cs : Forall cust_wf cs -> forall ci rest,
  sol_read_jobs ci (map cust_line cs) =
  Ok (map (fun c => JSingle (mkSingle (Some (c_id c)) (Some (0, 0, c_dem c, 0))
                              (loc_of (fold_left add_coord (map cxy cs ++ rest) ci) (cxy c))
                              (c_service c) (c_start c) (Some (c_end c)))) cs,
      fold_left add_coord (map cxy cs) ci).
Proof.
  induction 1 as [|c cs Hc _ IH]; intros ci rest; [reflexivity|].
  cbn [map sol_read_jobs]. rewrite <- (app_nil_r (cust_line c)), read_customer7_print by exact Hc.
  cbn [bind]. destruct (collect ci (c_x c, c_y c)) as [ci' loc] eqn:E.
  destruct (collect_eq _ _ (map cxy cs ++ rest) _ _ E) as [-> ->].
  rewrite (IH _ rest). cbn [bind app fold_left]. unfold sol_job, cxy at 2.
  rewrite as_i32_id by (apply nat32_i32, Hc). reflexivity.
Qed.

Lemma parse_print_solomon I h1 h2 :
  sol_wf I -> List.length h1 = 4%nat -> List.length h2 = 4%nat ->
  read_solomon_defs (print_solomon h1 h2 I) = Ok (expected_solomon I).
Proof.
  intros (Hn & Hc & Hd & Hcs) L1 L2. unfold read_solomon_defs, print_solomon.
  rewrite (skipn_exact h1 _ 4 L1). cbn [next_line].
  unfold read_vehicle2. change 2%nat with (List.length [si_number I; si_capacity I]).
  change [TInt (si_number I); TInt (si_capacity I)] with (map TInt [si_number I; si_capacity I] ++ []).
  rewrite take_parse_ints
    by (constructor; [apply parse_usize_ok; lia|constructor; [apply parse_usize_ok, nat32_usize, Hc|constructor]]).
  cbn [bind]. rewrite (skipn_exact h2 _ 4 L2). cbn [next_line].
  rewrite <- (app_nil_r (cust_line _)), read_customer7_print by exact Hd. cbn [bind].
  replace (si_number I =? 0) with false by (symmetry; apply Z.eqb_neq; lia).
  destruct (collect [] (c_x (si_depot I), c_y (si_depot I))) as [ci dloc] eqn:E.
  destruct (collect_eq _ _ (map cxy (si_custs I)) _ _ E) as [-> ->].
  rewrite (sol_read_jobs_print _ Hcs _ []). cbn [bind]. rewrite app_nil_r.
  unfold expected_solomon, all_coords. cbn [fold_left]. rewrite as_i32_id by (apply nat32_i32, Hc).
  reflexivity.
Qed.

(* ---------- Li & Lim ---------- *)
Lemma read_customer9_print row : lline_wf (fst row) -> i32 (snd row) -> read_customer9 (print_lline row) = Ok (fst row).
Proof.
  destruct row as [c e]. cbn [fst snd]. intros (H1 & H2 & H3 & H4 & H5 & H6 & H7 & H8) He.
  unfold read_customer9, print_lline. cbn [fst snd].
  rewrite <- (app_nil_r (map TInt _)).
  change 9%nat with (List.length [l_id c; l_x c; l_y c; l_dem c; l_start c; l_end c; l_service c; e; l_rel c]).
  rewrite take_parse_ints.
  - cbn [bind]. rewrite !as_usize_id by assumption. now destruct c.
  - repeat (constructor; [apply parse_i32_ok; auto using nat32_i32|]). constructor.
Qed.
Lemma lilim_read_lines_print rows :
  Forall (fun row => lline_wf (fst row) /\ i32 (snd row)) rows ->
  lilim_read_lines (map print_lline rows) = Ok (map fst rows).
Proof.
  induction 1 as [|row rows [H1 H2] _ IH]; [reflexivity|].
  cbn [map lilim_read_lines]. rewrite read_customer9_print by assumption. cbn [bind]. now rewrite IH.
Qed.

Lemma alookup_some_in {A} k (m : list (Z * A)) v : alookup k m = Some v -> In k (map fst m).
Proof.
  revert v. induction m as [|[k' v'] m IH]; intros v; cbn [alookup map fst]; [discriminate|].
  destruct (alookup k m) as [w|].
  - intros _. right. exact (IH w eq_refl).
  - destruct (Z.eqb_spec k' k); [subst; now left|discriminate].
Qed.
Lemma alookup_nodup {A} k v (m : list (Z * A)) : NoDup (map fst m) -> In (k, v) m -> alookup k m = Some v.
Proof.
  induction m as [|[k' v'] m IH]; cbn [map fst]; [intros _ []|].
  intros Hnd [E|Hin]; inversion Hnd as [|? ? Hk Hm]; subst; cbn [alookup].
  - inversion E; subst. destruct (alookup k m) as [w|] eqn:G.
    + exfalso. apply Hk. eapply alookup_some_in. exact G.
    + now rewrite Z.eqb_refl.
  - now rewrite (IH Hm Hin).
Qed.

Definition req_coords (rs : list request) : list coord := flat_map (fun r => [nxy (rq_p r); nxy (rq_d r)]) rs.

Lemma lilim_build_spec m rs :
  (forall r, In r rs -> 0 < rq_q r <= i32_max /\
                        alookup (n_id (rq_p r)) m = Some (pickup_line r) /\
                        alookup (n_id (rq_d r)) m = Some (delivery_line r)) ->
  forall ci idx rest,
  lilim_build ci idx (map (fun r => (n_id (rq_p r), n_id (rq_d r))) rs) m =
  Ok (map (fun kr => JMulti (fst kr)
                       [lil_single (fold_left add_coord (req_coords rs ++ rest) ci) (rq_p (snd kr)) (0, rq_q (snd kr), 0, 0);
                        lil_single (fold_left add_coord (req_coords rs ++ rest) ci) (rq_d (snd kr)) (0, 0, 0, rq_q (snd kr))])
          (number_from idx rs),
      fold_left add_coord (req_coords rs) ci).
Proof.
  induction rs as [|r rs IH]; intros Hm ci idx rest; [reflexivity|].
  cbn [map lilim_build]. destruct (Hm r (or_introl eq_refl)) as (Hq & -> & ->).
  assert (Sp : forall ci0, lilim_single ci0 (pickup_line r) =
            let '(ci', loc) := collect ci0 (nxy (rq_p r)) in
            Ok (ci', mkSingle (Some (n_id (rq_p r))) (Some (0, rq_q r, 0, 0)) loc
                              (n_service (rq_p r)) (n_start (rq_p r)) (Some (n_end (rq_p r))))).
  { intros ci0. unfold lilim_single, lilim_dimens, pickup_line, nxy. cbn [l_dem l_x l_y l_id l_service l_start l_end fst snd].
    replace (rq_q r =? i32_min) with false by (symmetry; apply Z.eqb_neq; unfold i32_min; lia).
    replace (0 <? rq_q r) with true by (symmetry; apply Z.ltb_lt; lia). reflexivity. }
  assert (Sd : forall ci0, lilim_single ci0 (delivery_line r) =
            let '(ci', loc) := collect ci0 (nxy (rq_d r)) in
            Ok (ci', mkSingle (Some (n_id (rq_d r))) (Some (0, 0, 0, rq_q r)) loc
                              (n_service (rq_d r)) (n_start (rq_d r)) (Some (n_end (rq_d r))))).
  { intros ci0. unfold lilim_single, lilim_dimens, delivery_line, nxy. cbn [l_dem l_x l_y l_id l_service l_start l_end fst snd].
    replace (- rq_q r =? i32_min) with false by (symmetry; apply Z.eqb_neq; unfold i32_min, i32_max in *; lia).
    replace (0 <? - rq_q r) with false by (symmetry; apply Z.ltb_ge; lia).
    replace (Z.abs (- rq_q r)) with (rq_q r) by lia. reflexivity. }
  rewrite Sp. destruct (collect ci (nxy (rq_p r))) as [ci1 lp] eqn:E1. cbn [bind].
  rewrite Sd. destruct (collect ci1 (nxy (rq_d r))) as [ci2 ld] eqn:E2. cbn [bind].
  destruct (collect_eq _ _ (nxy (rq_d r) :: req_coords rs ++ rest) _ _ E1) as [-> ->].
  destruct (collect_eq _ _ (req_coords rs ++ rest) _ _ E2) as [-> ->].
  rewrite (IH (fun r' H' => Hm r' (or_intror H')) _ (idx + 1) rest). cbn [bind].
  cbn [number_from map fst snd req_coords flat_map app fold_left]. unfold lil_single. reflexivity.
Qed.

(* any arrangement of the node lines in which the pickups appear in request order *)
Definition lilim_layout (I : lil_inst) (rows : list (lline * Z)) : Prop :=
  Forall (fun row => lline_wf (fst row) /\ i32 (snd row)) rows /\
  NoDup (map l_id (map fst rows)) /\
  map (fun c => (l_id c, l_rel c)) (filter (fun c => 0 <? l_dem c) (map fst rows))
    = map (fun r => (n_id (rq_p r), n_id (rq_d r))) (li_reqs I) /\
  (forall r, In r (li_reqs I) -> In (pickup_line r) (map fst rows) /\ In (delivery_line r) (map fst rows)).

Lemma parse_print_lilim_layout I rows :
  1 <= li_number I < two64 -> nat32 (li_capacity I) -> 0 <= li_speed I < two64 -> node_wf (li_depot I) ->
  Forall (fun r => 0 < rq_q r) (li_reqs I) ->
  lilim_layout I rows ->
  read_lilim_defs (print_lilim_rows I rows) = Ok (expected_lilim I).
Proof.
  intros Hn Hc Hs (D1 & D2 & D3 & D4 & D5 & D6) Hqs (Hrows & Hnd & Hrel & Hin).
  unfold read_lilim_defs, print_lilim_rows, lilim_head. cbn [app next_line].
  unfold read_vehicle3. rewrite <- (app_nil_r (map TInt _)).
  change 3%nat with (List.length [li_number I; li_capacity I; li_speed I]).
  rewrite take_parse_ints
    by (constructor; [apply parse_usize_ok; lia|constructor; [apply parse_usize_ok, nat32_usize, Hc|
        constructor; [apply parse_usize_ok; lia|constructor]]]).
  cbn [bind].
  set (d := li_depot I) in *.
  pose (drow := (mkLline (n_id d) (n_x d) (n_y d) 0 (n_start d) (n_end d) (n_service d) 0, 0)).
  change (map TInt [n_id d; n_x d; n_y d; 0; n_start d; n_end d; n_service d; 0; 0]) with (print_lline drow).
  rewrite read_customer9_print.
  2:{ cbn. unfold lline_wf. cbn. unfold nat32, i32, i32_min, i32_max in *. repeat split; lia. }
  2:{ cbn. unfold i32, i32_min, i32_max. lia. }
  cbn [bind fst drow l_x l_y l_start l_end].
  replace (li_number I =? 0) with false by (symmetry; apply Z.eqb_neq; lia).
  destruct (collect [] (n_x d, n_y d)) as [ci dloc] eqn:E.
  destruct (collect_eq _ _ (req_coords (li_reqs I)) _ _ E) as [-> ->].
  rewrite (lilim_read_lines_print _ Hrows). cbn [bind]. unfold lilim_relations. rewrite Hrel.
  rewrite (lilim_build_spec _ (li_reqs I)) with (rest := []).
  - cbn [bind]. rewrite app_nil_r. unfold expected_lilim. cbv zeta. fold d. unfold all_coords, req_coords. cbn [fold_left].
    rewrite as_i32_id by (apply nat32_i32, Hc). reflexivity.
  - intros r Hr. destruct (Hin r Hr) as [Hp Hd]. unfold lilim_map.
    split.
    { split; [rewrite Forall_forall in Hqs; exact (Hqs r Hr)|].
      rewrite Forall_forall in Hrows. apply in_map_iff in Hp. destruct Hp as (row & Erow & Hrow).
      destruct (Hrows row Hrow) as ((_ & _ & _ & Hdm & _) & _). rewrite Erow in Hdm. unfold i32, pickup_line in Hdm. cbn [l_dem] in Hdm. lia. }
    split; apply alookup_nodup; try (rewrite map_map; cbn [fst]; exact Hnd).
    + change (n_id (rq_p r)) with (l_id (pickup_line r)).
      apply (in_map (fun c => (l_id c, c))). exact Hp.
    + change (n_id (rq_d r)) with (l_id (delivery_line r)).
      apply (in_map (fun c => (l_id c, c))). exact Hd.
Qed.

Lemma lilim_rows_layout I : lil_wf I -> lilim_layout I (lilim_rows I).
Proof.
  intros (_ & _ & _ & _ & Hreqs & Hnd). unfold lilim_layout, lilim_rows.
  repeat split.
  - apply Forall_forall. intros row Hrow. apply in_flat_map in Hrow. destruct Hrow as (r & Hr & Hrow).
    rewrite Forall_forall in Hreqs. destruct (Hreqs r Hr) as ((P1 & P2 & P3 & P4 & P5 & P6) & (Q1 & Q2 & Q3 & Q4 & Q5 & Q6) & Hq).
    destruct Hrow as [<-|[<-|[]]]; cbn [fst snd]; unfold lline_wf, pickup_line, delivery_line; cbn;
      unfold nat32, i32, i32_min, i32_max in *; repeat split; lia.
  - replace (map l_id (map fst (flat_map (fun r => [(pickup_line r, 0); (delivery_line r, n_id (rq_p r))]) (li_reqs I))))
      with (flat_map req_ids (li_reqs I)); [exact Hnd|].
    clear. induction (li_reqs I) as [|r rs IH]; [reflexivity|]. cbn [flat_map app map fst]. now rewrite <- IH.
  - clear Hnd. induction Hreqs as [|r rs (_ & _ & Hq) _ IH]; [reflexivity|].
    cbn [flat_map app map fst filter]. unfold pickup_line at 1, delivery_line at 1. cbn [l_dem].
    replace (0 <? rq_q r) with true by (symmetry; apply Z.ltb_lt; lia).
    replace (0 <? - rq_q r) with false by (symmetry; apply Z.ltb_ge; lia).
    cbn [map]. rewrite IH. reflexivity.
  - apply in_map_iff. exists (pickup_line r, 0). split; [reflexivity|]. apply in_flat_map. exists r. split; [assumption|now left].
  - apply in_map_iff. exists (delivery_line r, n_id (rq_p r)). split; [reflexivity|]. apply in_flat_map. exists r.
    split; [assumption|right; now left].
Qed.

Lemma parse_print_lilim I : lil_wf I ->
  read_lilim_defs (print_lilim I) = Ok (expected_lilim I).
Proof.
  intros H. pose proof (lilim_rows_layout I H) as L. destruct H as (H1 & H2 & H3 & H4 & H5 & _).
  apply parse_print_lilim_layout; try assumption.
  eapply Forall_impl; [|exact H5]. cbv beta. intros r (_ & _ & Hq). lia.
Qed.

(* the instance that refuted the full statement before the repair of C13-F1 (commit 164f50b); kept as the
   non-vacuity witness and as corpus case corpus/C13/lilim_dimens_dropped.json *)
Definition lil_witness : lil_inst :=
  mkLil 2 20 1 (mkNode 0 5 5 0 100 0) [mkReq (mkNode 1 6 5 0 50 2) (mkNode 2 7 7 10 90 1) 3].
Lemma lil_witness_wf : lil_wf lil_witness.
Proof.
  unfold lil_wf, lil_witness, node_wf, nat32, i32, i32_min, i32_max, two64. cbn.
  repeat split; try lia.
  - repeat constructor; cbn; lia.
  - repeat constructor; cbn; intuition lia.
Qed.

(* ---------- TSPLIB ---------- *)
Lemma read_key_value_kv key v : v <> TColon -> read_key_value key (kv key v) = Ok [v].
Proof.
  intros Hv. unfold read_key_value, kv.
  destruct v; try congruence; cbn [count_colons Nat.eqb split_colon]; now rewrite String.eqb_refl.
Qed.
Lemma expect_word_ok w : expect_word w [TWord w] = Ok tt.
Proof. unfold expect_word. now rewrite String.eqb_refl. Qed.
Lemma num_tok_not_colon k z : num_tok k z <> TColon.
Proof. destruct k; discriminate. Qed.

Lemma read_n_print {A B} (f : line -> res B) (pr : A -> line) (g : A -> B) xs rest :
  (forall x, In x xs -> f (pr x) = Ok (g x)) ->
  read_n (List.length xs) f (map pr xs ++ rest) = Ok (map g xs, rest).
Proof.
  induction xs as [|x xs IH]; intros H; [reflexivity|].
  cbn [List.length map app read_n next_line]. rewrite (H x (or_introl eq_refl)). cbn [bind].
  rewrite IH by (intros y Hy; apply H; now right). reflexivity.
Qed.

Definition tsp_cm (nodes : list tnode) : list (Z * coord) := map (fun n => (t_id n, txy n)) nodes.
Definition tsp_dm (nodes : list tnode) : list (Z * Z) := map (fun n => (t_id n, t_dem n)) nodes.

Lemma tsp_jobs_spec nodes depot : NoDup (map t_id nodes) -> (forall n, In n nodes -> t_id n <> i32_min) ->
  forall pn, incl pn nodes -> forall ci rest,
  let custs := filter (fun n => negb (t_id n =? depot)) pn in
  tsp_jobs ci depot (map t_id pn) (tsp_cm nodes) (tsp_dm nodes) =
  Ok (map (fun n => JSingle (mkSingle (Some (t_id n - 1)) (Some (0, 0, t_dem n, 0))
                               (loc_of (fold_left add_coord (map txy custs ++ rest) ci) (txy n)) 0 0 None)) custs,
      fold_left add_coord (map txy custs) ci).
Proof.
  intros Hnd Hmin. induction pn as [|n pn IH]; intros Hincl ci rest; [reflexivity|].
  cbn zeta. cbn [map tsp_jobs filter].
  assert (Hn : In n nodes) by (apply Hincl; now left).
  assert (Hpn : incl pn nodes) by (intros x Hx; apply Hincl; now right).
  destruct (t_id n =? depot) eqn:Ed; cbn [negb].
  - exact (IH Hpn ci rest).
  - assert (Ec : alookup (t_id n) (tsp_cm nodes) = Some (txy n)).
    { apply alookup_nodup; [unfold tsp_cm; rewrite map_map; exact Hnd|].
      apply (in_map (fun n => (t_id n, txy n))). exact Hn. }
    assert (Edm : alookup (t_id n) (tsp_dm nodes) = Some (t_dem n)).
    { apply alookup_nodup; [unfold tsp_dm; rewrite map_map; exact Hnd|].
      apply (in_map (fun n => (t_id n, t_dem n))). exact Hn. }
    rewrite Ec, Edm.
    replace (t_id n =? i32_min) with false by (symmetry; apply Z.eqb_neq, Hmin; exact Hn).
    destruct (collect ci (txy n)) as [ci' loc] eqn:E.
    destruct (collect_eq _ _ (map txy (filter (fun n => negb (t_id n =? depot)) pn) ++ rest) _ _ E) as [-> ->].
    specialize (IH Hpn (add_coord ci (txy n)) rest). cbn zeta in IH. rewrite IH. cbn [bind map app fold_left].
    reflexivity.
Qed.

Lemma find_nodup {A} (f : A -> Z) (l : list A) x :
  NoDup (map f l) -> In x l -> find (fun y => f y =? f x) l = Some x.
Proof.
  induction l as [|h t IH]; [intros _ []|]. cbn [map find]. intros Hnd Hin.
  inversion Hnd as [|? ? Hh Ht]; subst. destruct Hin as [->|Hin].
  - now rewrite Z.eqb_refl.
  - destruct (Z.eqb_spec (f h) (f x)) as [E|_]; [|now apply IH].
    exfalso. apply Hh. rewrite E. now apply in_map.
Qed.

Lemma parse_print_tsplib I h k pn :
  tsp_wf I -> List.length h = 2%nat -> Permutation pn (ti_nodes I) ->
  read_tsplib_defs (map t_id pn) (print_tsplib h k I) = Ok (expected_tsplib pn I).
Proof.
  intros (Hwf & Hnd & Hdep & Hcap & Hlen) Lh Hperm.
  unfold read_tsplib_defs, print_tsplib. rewrite (skipn_exact h _ 2 Lh).
  cbn [next_line]. rewrite read_key_value_kv by discriminate. cbn [bind]. rewrite expect_word_ok. cbn [bind].
  rewrite read_key_value_kv by discriminate. cbn [bind parse_int_line parse_int].
  rewrite clamp_id by (unfold i32, i32_min, i32_max in *; lia).
  rewrite read_key_value_kv by discriminate. cbn [bind]. rewrite expect_word_ok. cbn [bind].
  rewrite read_key_value_kv by apply num_tok_not_colon. cbn [bind parse_int_line].
  rewrite parse_int_num_tok by (apply nat32_i32, Hcap). cbn [bind].
  rewrite expect_word_ok. cbn [bind].
  replace (Z.of_nat (List.length (ti_nodes I)) <? 0) with false by (symmetry; apply Z.ltb_ge; lia).
  rewrite Nat2Z.id.
  rewrite (read_n_print coord_line _ (fun n => (t_id n, txy n))).
  2:{ intros n Hn. rewrite Forall_forall in Hwf. destruct (Hwf n Hn) as ((W1 & W1') & W2 & W3 & W4).
      unfold coord_line. rewrite !parse_int_num_tok by assumption. cbn [bind parse_int].
      now rewrite clamp_id. }
  cbn [bind next_line]. rewrite expect_word_ok. cbn [bind].
  rewrite (read_n_print demand_line _ (fun n => (t_id n, t_dem n))).
  2:{ intros n Hn. rewrite Forall_forall in Hwf. destruct (Hwf n Hn) as ((W1 & W1') & W2 & W3 & W4).
      unfold demand_line. cbn [parse_int bind]. now rewrite !clamp_id. }
  cbn [bind next_line]. rewrite expect_word_ok. cbn [bind parse_int_line parse_int].
  apply in_map_iff in Hdep. destruct Hdep as (dn & Edn & Hdn).
  assert (Wd : tnode_wf dn) by (rewrite Forall_forall in Hwf; auto). destruct Wd as ((Wd1 & _) & _).
  rewrite clamp_id by (rewrite <- Edn; exact Wd1). cbn [bind]. rewrite expect_word_ok. cbn [bind].
  fold (tsp_cm (ti_nodes I)). fold (tsp_dm (ti_nodes I)).
  rewrite (tsp_jobs_spec _ _ Hnd) with (pn := pn) (rest := [depot_xy I]).
  2:{ intros n Hn E. rewrite Forall_forall in Hwf. destruct (Hwf n Hn) as ((_ & W) & _). lia. }
  2:{ intros x Hx. eapply Permutation_in; eassumption. }
  cbn [bind].
  assert (Edxy : depot_xy I = txy dn).
  { unfold depot_xy. rewrite <- Edn. now rewrite (find_nodup t_id _ dn Hnd Hdn). }
  assert (Ec : alookup (ti_depot I) (tsp_cm (ti_nodes I)) = Some (depot_xy I)).
  { rewrite Edxy, <- Edn. apply alookup_nodup; [unfold tsp_cm; rewrite map_map; exact Hnd|].
    apply (in_map (fun n => (t_id n, txy n))). exact Hdn. }
  rewrite Ec.
  set (custs := filter (fun n => negb (t_id n =? ti_depot I)) pn).
  destruct (collect (fold_left add_coord (map txy custs) []) (depot_xy I)) as [cf dloc] eqn:E.
  destruct (collect_eq _ _ [] _ _ E) as [-> ->]. cbn [fold_left].
  unfold expected_tsplib. fold custs. unfold all_coords. rewrite fold_left_app. cbn [fold_left].
  rewrite as_usize_id by exact Hcap. rewrite as_i32_id by (apply nat32_i32, Hcap). reflexivity.
Qed.

(* ---------- initial solution text ---------- *)
Lemma count_colons_ints r : count_colons (map TInt r) = O.
Proof. induction r; [reflexivity|exact IHr]. Qed.
Lemma route_ids_ok known r : Forall (fun z => In z known) r -> route_ids known (map TInt r) = Ok r.
Proof.
  induction 1 as [|z r Hz _ IH]; [reflexivity|]. cbn [map route_ids].
  replace (known_id known z) with true.
  - rewrite IH. reflexivity.
  - symmetry. unfold known_id. apply existsb_exists. exists z. split; [exact Hz|apply Z.eqb_refl].
Qed.
Lemma read_init_routes known tail rs : Forall (Forall (fun z => In z known)) rs ->
  forall i avail, (List.length rs <= avail)%nat ->
  (forall a, read_init known a tail = Ok []) ->
  read_init known avail
    (map (fun ir => TWord "Route" :: TInt (fst ir) :: TColon :: map TInt (snd ir)) (number_from i rs) ++ tail) = Ok rs.
Proof.
  intros Hk. induction Hk as [|r rs Hr _ IH]; intros i avail Hl Ht; cbn [number_from map app].
  - apply Ht.
  - cbn [read_init count_colons fst snd]. rewrite count_colons_ints. cbn [Nat.eqb].
    destruct avail as [|a]; [cbn in Hl; lia|].
    cbn [split_colon snd]. rewrite route_ids_ok by exact Hr. cbn [bind].
    rewrite IH by (cbn in Hl; lia || exact Ht). reflexivity.
Qed.
Lemma init_text_roundtrip known nveh rs cost :
  Forall (Forall (fun z => In z known)) rs -> (List.length rs <= nveh)%nat ->
  read_init known nveh (write_solution rs cost) = Ok rs.
Proof.
  intros Hk Hl. unfold write_solution.
  replace (map (fun '(i, r) => TWord "Route" :: TInt i :: TColon :: map TInt r) (number_from 1 rs))
    with (map (fun ir => TWord "Route" :: TInt (fst ir) :: TColon :: map TInt (snd ir)) (number_from 1 rs))
    by (apply map_ext; now intros [i r]).
  apply read_init_routes; [exact Hk|exact Hl|]. intros a. reflexivity.
Qed.

(* ---------- distances between customers through their location indices ---------- *)
Lemma distance_between rd cs a b : In a cs -> In b cs ->
  exists i j row, loc_of (all_coords cs) a = Z.of_nat i /\ loc_of (all_coords cs) b = Z.of_nat j /\
                  nth_error (matrix rd (all_coords cs)) i = Some row /\ nth_error row j = Some (dist rd a b).
Proof.
  intros Ha Hb. destruct (loc_of_faithful cs a Ha) as (i & Li & Ni). destruct (loc_of_faithful cs b Hb) as (j & Lj & Nj).
  destruct (matrix_entry rd _ _ _ _ _ Ni Nj) as (row & R1 & R2). exists i, j, row. auto.
Qed.

(* ---------- non-vacuity witnesses ---------- *)
Definition sol_witness : sol_inst :=
  mkSol 3 20 (mkCust 0 5 5 0 0 100 0) [mkCust 1 6 5 3 10 50 2; mkCust 2 5 5 4 0 60 1].
Lemma sol_witness_wf : sol_wf sol_witness.
Proof.
  unfold sol_wf, sol_witness, cust_wf, nat32, i32, i32_min, i32_max, two64. cbn.
  repeat split; try lia. repeat constructor; cbn; lia.
Qed.
Definition tsp_witness : tsp_inst := mkTsp [mkTnode 1 0 0 0; mkTnode 2 3 4 4; mkTnode 3 6 9 5] 1 10.
Lemma tsp_witness_wf : tsp_wf tsp_witness.
Proof.
  unfold tsp_wf, tsp_witness, tnode_wf, nat32, i32, i32_min, i32_max. cbn.
  repeat split; try lia.
  - repeat constructor; cbn; lia.
  - repeat constructor; cbn; intuition lia.
Qed.
