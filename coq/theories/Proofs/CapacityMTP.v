(* Lemmas about Model/CapacityMT.v: multi-trip (reload intervals) and multi-dimensional capacity.
   A. laws of MultiDimLoad (can_fit pointwise over the 8 array slots, vectors of different lengths, partial_cmp);
   B. the load operations seen through one dimension (`load_hom`), projection of the generic state computation;
   C. get_route_intervals = the index ranges of the tour cut in front of every marker activity;
   D. one-dimensional reasoning on segments: state values at a position, insertion into a segment, carried loads;
   E. the theorems exposed in Properties/C06.v and Properties/C01.v. *)
From VRP Require Import Base.Tac Model.Core Spec.Feasible Spec.Intervals Proofs.IntervalsP Proofs.CoreCapP Proofs.CoreEvalP Model.CapacityMT.

(* ================= A. MultiDimLoad laws ================= *)
Definition ml_wf (x : mload) : Prop := length (ml_load x) = LOAD_DIMENSION_SIZE.

Lemma zipw_length f : forall a b, length (zipw f a b) = length a.
Proof. induction a as [|x a IH]; intros [|y b]; cbn [zipw length]; auto. Qed.

Lemma zipw_nth f : forall a b d, (d < length a)%nat -> (d < length b)%nat ->
  nth d (zipw f a b) 0 = f (nth d a 0) (nth d b 0).
Proof.
  induction a as [|x a IH]; intros [|y b] d Ha Hb; cbn [length] in *; try lia.
  destruct d as [|d]; cbn [zipw nth]; [reflexivity|]. apply IH; lia.
Qed.

Lemma ml_wf_default : ml_wf ml_default.
Proof. reflexivity. Qed.
Lemma ml_wf_new data x : ml_new data = Some x -> ml_wf x.
Proof.
  unfold ml_new. destruct (length data <=? LOAD_DIMENSION_SIZE)%nat eqn:E; [|discriminate].
  intros H. injection H as <-. apply Nat.leb_le in E. unfold ml_wf. change (length (data ++ repeat 0 (LOAD_DIMENSION_SIZE - length data)) = LOAD_DIMENSION_SIZE). rewrite app_length, repeat_length. lia.
Qed.
Lemma ml_wf_add x y : ml_wf x -> ml_wf (ml_add x y).
Proof. unfold ml_wf, ml_add. cbn [ml_load]. rewrite zipw_length. auto. Qed.
Lemma ml_wf_sub x y : ml_wf x -> ml_wf (ml_sub x y).
Proof. unfold ml_wf, ml_sub. cbn [ml_load]. rewrite zipw_length. auto. Qed.
Lemma ml_wf_max x y : ml_wf x -> ml_wf (ml_max_load x y).
Proof. unfold ml_wf, ml_max_load. cbn [ml_load]. rewrite zipw_length. auto. Qed.

Lemma ml_get_default d : ml_get ml_default d = 0.
Proof. unfold ml_get, ml_default. cbn [ml_load]. do 9 (destruct d as [|d]; [reflexivity|]). destruct d; reflexivity. Qed.
Lemma ml_get_add x y d : ml_wf x -> ml_wf y -> (d < LOAD_DIMENSION_SIZE)%nat -> ml_get (ml_add x y) d = ml_get x d + ml_get y d.
Proof. unfold ml_wf, ml_get, ml_add. cbn [ml_load]. intros Hx Hy Hd. apply zipw_nth; lia. Qed.
Lemma ml_get_sub x y d : ml_wf x -> ml_wf y -> (d < LOAD_DIMENSION_SIZE)%nat -> ml_get (ml_sub x y) d = ml_get x d - ml_get y d.
Proof. unfold ml_wf, ml_get, ml_sub. cbn [ml_load]. intros Hx Hy Hd. apply zipw_nth; lia. Qed.
Lemma ml_get_max x y d : ml_wf x -> ml_wf y -> (d < LOAD_DIMENSION_SIZE)%nat -> ml_get (ml_max_load x y) d = Z.max (ml_get x d) (ml_get y d).
Proof. unfold ml_wf, ml_get, ml_max_load. cbn [ml_load]. intros Hx Hy Hd. apply zipw_nth; lia. Qed.

Lemma forallb_combine_nth : forall (a b : list Z), length a = length b ->
  (forallb (fun p => snd p <=? fst p) (combine a b) = true <-> forall d, (d < length a)%nat -> nth d b 0 <= nth d a 0).
Proof.
  induction a as [|x a IH]; intros [|y b] Hl; cbn [length] in Hl; try discriminate.
  - cbn. split; [intros _ d Hd; inversion Hd|reflexivity].
  - injection Hl as Hl. cbn [combine forallb fst snd length]. rewrite andb_true_iff, Z.leb_le, (IH b Hl). split.
    + intros [H0 H] [|d] Hd; cbn [nth]; [exact H0|apply H; lia].
    + intros H. split; [apply (H 0%nat); lia|intros d Hd; apply (H (S d)); lia].
Qed.

(* can_fit is the conjunction of the per-dimension tests over all LOAD_DIMENSION_SIZE array slots *)
Lemma ml_can_fit_iff x y : ml_wf x -> ml_wf y ->
  (ml_can_fit x y = true <-> forall d, (d < LOAD_DIMENSION_SIZE)%nat -> ml_get y d <= ml_get x d).
Proof.
  unfold ml_wf, ml_can_fit, ml_get. intros Hx Hy. rewrite forallb_combine_nth by lia. rewrite Hx. tauto.
Qed.

Lemma nth_pad (data : list Z) k d : nth d (data ++ repeat 0 k) 0 = nth d data 0.
Proof.
  destruct (Nat.lt_ge_cases d (length data)) as [H|H].
  - apply app_nth1; exact H.
  - rewrite app_nth2 by exact H. rewrite (nth_overflow data) by exact H.
    destruct (Nat.lt_ge_cases (d - length data) k) as [H2|H2].
    + apply nth_repeat.
    + apply nth_overflow. rewrite repeat_length. exact H2.
Qed.
Lemma ml_get_new data x d : ml_new data = Some x -> ml_get x d = nth d data 0.
Proof.
  unfold ml_new. destruct (length data <=? LOAD_DIMENSION_SIZE)%nat; [|discriminate]. intros H. injection H as <-.
  unfold ml_get. change (nth d (data ++ repeat 0 (LOAD_DIMENSION_SIZE - length data)) 0 = nth d data 0). apply nth_pad.
Qed.

(* vectors of different lengths: a missing dimension counts as 0 on either side *)
Lemma ml_can_fit_new a b x y : ml_new a = Some x -> ml_new b = Some y ->
  (ml_can_fit x y = true <-> forall d, nth d b 0 <= nth d a 0).
Proof.
  intros Ha Hb. rewrite (ml_can_fit_iff x y (ml_wf_new _ _ Ha) (ml_wf_new _ _ Hb)). split.
  - intros H d. destruct (Nat.lt_ge_cases d LOAD_DIMENSION_SIZE) as [Hd|Hd].
    + specialize (H d Hd). rewrite (ml_get_new _ _ _ Ha), (ml_get_new _ _ _ Hb) in H. exact H.
    + unfold ml_new in Ha, Hb.
      destruct (length a <=? LOAD_DIMENSION_SIZE)%nat eqn:Ea; [|discriminate].
      destruct (length b <=? LOAD_DIMENSION_SIZE)%nat eqn:Eb; [|discriminate].
      apply Nat.leb_le in Ea, Eb. rewrite !nth_overflow by lia. lia.
  - intros H d _. rewrite (ml_get_new _ _ _ Ha), (ml_get_new _ _ _ Hb). apply H.
Qed.

Lemma existsb_nth_nonzero : forall (l : list Z) d, (d < length l)%nat -> nth d l 0 <> 0 -> existsb (fun v => negb (v =? 0)) l = true.
Proof.
  induction l as [|x l IH]; intros d Hd Hn; cbn [length] in Hd; [lia|]. cbn [existsb]. destruct d as [|d]; cbn [nth] in Hn.
  - destruct (x =? 0) eqn:E; [apply Z.eqb_eq in E; contradiction|reflexivity].
  - rewrite (IH d) by (lia || assumption). apply orb_true_r.
Qed.
Lemma ml_nonempty_get x d : ml_wf x -> (d < LOAD_DIMENSION_SIZE)%nat -> ml_get x d <> 0 -> ml_is_not_empty x = true.
Proof.
  unfold ml_wf, ml_get, ml_is_not_empty. intros Hx Hd Hn. rewrite (existsb_nth_nonzero _ d) by (lia || assumption). apply orb_true_r.
Qed.
(* the quirk: a load without dimensions counts as "not empty" *)
Lemma ml_default_is_not_empty : ml_is_not_empty ml_default = true.
Proof. reflexivity. Qed.

(* partial_cmp: Some c iff there is at least one dimension and every dimension compares as c *)
Lemma pcmp_fold_some x y : forall idxs c0 c,
  pcmp_fold x y idxs (Some c0) = Some c <-> c = c0 /\ forall i, In i idxs -> (ml_get x i ?= ml_get y i) = c0.
Proof.
  induction idxs as [|i r IH]; intros c0 c; cbn [pcmp_fold].
  - split; [intros H; injection H as <-; split; [reflexivity|intros i []]|intros [-> _]; reflexivity].
  - destruct (cmp_eqb c0 (ml_get x i ?= ml_get y i)) eqn:E.
    + assert (Hc : (ml_get x i ?= ml_get y i) = c0) by (destruct c0, (ml_get x i ?= ml_get y i); cbn in E; congruence).
      rewrite Hc, IH. split.
      * intros [-> H]. split; [reflexivity|]. intros j [<-|Hj]; [exact Hc|apply H; exact Hj].
      * intros [-> H]. split; [reflexivity|]. intros j Hj. apply H. right; exact Hj.
    + split; [discriminate|]. intros [_ H]. specialize (H i (or_introl eq_refl)). rewrite H in E.
      destruct c0; discriminate.
Qed.
Lemma ml_partial_cmp_some x y c :
  ml_partial_cmp x y = Some c <->
  (0 < Nat.max (ml_size x) (ml_size y))%nat /\
  forall i, (i < Nat.max (ml_size x) (ml_size y))%nat -> (ml_get x i ?= ml_get y i) = c.
Proof.
  unfold ml_partial_cmp. set (n := Nat.max (ml_size x) (ml_size y)). destruct n as [|n].
  - cbn. split; [discriminate|intros [H _]; lia].
  - cbn [seq pcmp_fold]. rewrite pcmp_fold_some. split.
    + intros [-> H]. split; [lia|]. intros i Hi. destruct i as [|i]; [reflexivity|]. apply H. apply in_seq. lia.
    + intros [_ H]. split; [symmetry; apply H; lia|]. intros i Hi. apply in_seq in Hi. rewrite (H i) by lia. symmetry. apply H. lia.
Qed.
(* the empty-vs-empty quirk: two loads without dimensions are incomparable (so not "less", so not "equal") *)
Lemma ml_partial_cmp_empty x y : ml_size x = 0%nat -> ml_size y = 0%nat -> ml_partial_cmp x y = None.
Proof. intros Hx Hy. unfold ml_partial_cmp. rewrite Hx, Hy. reflexivity. Qed.

(* ================= C. cutting a list in front of every marked element ================= *)
Fixpoint cutb {A} (m : A -> bool) (l : list A) : list (list A) :=
  match l with
  | [] => [[]]
  | a :: r => match cutb m r with
              | iv :: rest => if m a then [] :: (a :: iv) :: rest else (a :: iv) :: rest
              | [] => [[a]]
              end
  end.

Lemma ivls_cutb : forall l, ivls l = cutb is_reload l.
Proof. induction l as [|a r IH]; cbn [ivls cutb]; [reflexivity|]. rewrite IH. reflexivity. Qed.

Lemma cutb_cons {A} (m : A -> bool) a r : exists s0 rest, cutb m r = s0 :: rest /\
  cutb m (a :: r) = if m a then [] :: (a :: s0) :: rest else (a :: s0) :: rest.
Proof.
  assert (H : cutb m r <> []).
  { clear a. induction r as [|b r IH]; cbn [cutb]; [discriminate|]. destruct (cutb m r) as [|iv rest]; [discriminate|]. destruct (m b); discriminate. }
  cbn [cutb]. destruct (cutb m r) as [|s0 rest]; [congruence|]. exists s0, rest. split; reflexivity.
Qed.

Lemma cutb_concat {A} (m : A -> bool) : forall l, concat (cutb m l) = l.
Proof.
  induction l as [|a r IH]; [reflexivity|]. destruct (cutb_cons m a r) as (s0 & rest & E & ->). rewrite E in IH.
  cbn [concat app] in *. destruct (m a); cbn [concat app]; rewrite IH; reflexivity.
Qed.

Lemma cutb_map {A B} (f : A -> B) (m : A -> bool) (m' : B -> bool) : (forall a, m' (f a) = m a) ->
  forall l, cutb m' (map f l) = map (map f) (cutb m l).
Proof.
  intros Hm. induction l as [|a r IH]; [reflexivity|]. cbn [map].
  destruct (cutb_cons m a r) as (s0 & rest & E & ->). destruct (cutb_cons m' (f a) (map f r)) as (s0' & rest' & E' & ->).
  rewrite IH, E in E'. cbn [map] in E'. injection E' as <- <-. rewrite Hm. destruct (m a); reflexivity.
Qed.

(* every segment after the first starts with a marked element; no other element of a segment is marked *)
Definition seg_tail_ok {A} (m : A -> bool) (s : list A) : Prop := forallb (fun a => negb (m a)) s = true.
Definition seg_later_ok {A} (m : A -> bool) (s : list A) : Prop := exists a s', s = a :: s' /\ m a = true /\ seg_tail_ok m s'.
Lemma cutb_shape {A} (m : A -> bool) : forall l, exists s0 rest, cutb m l = s0 :: rest /\ seg_tail_ok m s0 /\ Forall (seg_later_ok m) rest.
Proof.
  induction l as [|a r IH].
  - exists [], []. repeat split. constructor.
  - destruct IH as (s0 & rest & E & H0 & Hr). destruct (cutb_cons m a r) as (s0' & rest' & E' & ->). rewrite E in E'. injection E' as <- <-.
    destruct (m a) eqn:Ea.
    + exists [], ((a :: s0) :: rest). repeat split. constructor; [|exact Hr]. exists a, s0. auto.
    + exists (a :: s0), rest. repeat split; [|exact Hr]. unfold seg_tail_ok. cbn [forallb]. rewrite Ea. exact H0.
Qed.

(* a tour whose first element is not marked: all segments are non-empty *)
Lemma cutb_hd_nonempty {A} (m : A -> bool) a r : m a = false -> Forall (fun s => s <> []) (cutb m (a :: r)).
Proof.
  intros Ha. destruct (cutb_shape m r) as (s0 & rest & E & _ & Hr). destruct (cutb_cons m a r) as (s0' & rest' & E' & ->).
  rewrite E in E'. injection E' as <- <-. rewrite Ha. constructor; [discriminate|].
  eapply Forall_impl; [|exact Hr]. intros s (b & s' & -> & _). discriminate.
Qed.

(* consecutive index ranges of a list of segments *)
Fixpoint bounds {A} (start : nat) (segs : list (list A)) : list (nat * nat) :=
  match segs with [] => [] | s :: r => (start, (start + length s - 1)%nat) :: bounds (start + length s) r end.

(* ---- get_route_intervals computes the bounds of the cut ---- *)
Section Intervals.
Variable O : load_ops.
Notation gact := (gact O).
Notation mk := (is_marker_act O).

Fixpoint nice (idx start : nat) (acts : list gact) : list (nat * nat) :=
  match acts with
  | [] => []
  | a :: r => match r with
              | [] => if mk a then [(start, (idx - 1)%nat); (idx, idx)] else [(start, idx)]
              | _ :: _ => if mk a then (start, (idx - 1)%nat) :: nice (S idx) idx r else nice (S idx) start r
              end
  end.

Lemma nice_cons2 a b r idx start :
  nice idx start (a :: b :: r) = if mk a then (start, (idx - 1)%nat) :: nice (S idx) idx (b :: r) else nice (S idx) start (b :: r).
Proof. reflexivity. Qed.

Definition open_start (acc : list (nat * nat)) : nat := match last_opt acc with Some it => (snd it + 1)%nat | None => 0%nat end.
Lemma last_opt_app {A} (l : list A) x : last_opt (l ++ [x]) = Some x.
Proof. unfold last_opt. rewrite rev_app_distr. reflexivity. Qed.

Lemma route_intervals_from_nice : forall acts idx last_idx acc,
  acts <> [] -> (0 < idx)%nat -> last_idx = (idx + length acts - 1)%nat ->
  route_intervals_from O idx last_idx acts acc = acc ++ nice idx (open_start acc) acts.
Proof.
  induction acts as [|a r IH]; intros idx last_idx acc Hne Hidx Hl; [congruence|].
  cbn [route_intervals_from]. destruct r as [|b r].
  - cbn [length] in Hl. assert (Hl' : last_idx = idx) by lia. clear Hl. subst last_idx. rewrite Nat.eqb_refl.
    cbn [route_intervals_from nice]. fold (open_start acc). rewrite orb_true_r, andb_true_r.
    destruct (mk a); reflexivity.
  - cbn [length] in Hl. assert (El : (idx =? last_idx)%nat = false) by (apply Nat.eqb_neq; lia). rewrite El.
    rewrite orb_false_r, andb_false_r. fold (open_start acc). cbn [nice]. destruct (mk a) eqn:Ea.
    + rewrite (IH (S idx) last_idx) by (try discriminate; cbn [length]; lia).
      assert (Eo : open_start (acc ++ [(open_start acc, (idx - 1)%nat)]) = idx) by (unfold open_start at 1; rewrite last_opt_app; cbn [snd]; lia).
      rewrite Eo, <- app_assoc. reflexivity.
    + rewrite (IH (S idx) last_idx) by (try discriminate; cbn [length]; lia). reflexivity.
Qed.

Lemma nice_cut : forall acts idx start, acts <> [] ->
  exists s0 rest, cutb mk acts = s0 :: rest /\
                  nice idx start acts = (start, (idx + length s0 - 1)%nat) :: bounds (idx + length s0) rest.
Proof.
  induction acts as [|a r IH]; intros idx start Hne; [congruence|].
  destruct r as [|b r].
  - cbn [cutb nice]. destruct (mk a).
    + exists [], [[a]]. split; [reflexivity|]. cbn [length bounds]. repeat f_equal; lia.
    + exists [a], []. split; [reflexivity|]. cbn [length bounds]. repeat f_equal; lia.
  - destruct (cutb_cons mk a (b :: r)) as (s0 & rest & E & ->). rewrite nice_cons2. destruct (mk a).
    + destruct (IH (S idx) idx) as (s0' & rest' & E' & ->); [discriminate|]. rewrite E in E'. injection E' as <- <-.
      exists [], ((a :: s0) :: rest). split; [reflexivity|]. cbn [length bounds]. f_equal; [f_equal; lia|].
      f_equal; [f_equal; lia|]. f_equal; lia.
    + destruct (IH (S idx) start) as (s0' & rest' & E' & ->); [discriminate|]. rewrite E in E'. injection E' as <- <-.
      exists (a :: s0), rest. split; [reflexivity|]. cbn [length]. f_equal; [f_equal; lia|]. f_equal; lia.
Qed.

Theorem route_intervals_bounds : forall a r, mk a = false ->
  get_route_intervals O (a :: r) = bounds 0 (cutb mk (a :: r)).
Proof.
  intros a r Ha. unfold get_route_intervals. cbn [route_intervals_from length]. rewrite Ha. cbn [orb andb].
  destruct r as [|b r].
  - cbn. rewrite Ha. reflexivity.
  - replace (0 =? S (length (b :: r)) - 1)%nat with false by (symmetry; apply Nat.eqb_neq; cbn [length]; lia).
    rewrite (route_intervals_from_nice (b :: r) 1 (S (length (b :: r)) - 1) []) by (try discriminate; cbn [length]; lia).
    cbn [app]. change (open_start []) with 0%nat.
    destruct (nice_cut (b :: r) 1 0) as (s0 & rest & E & ->); [discriminate|].
    destruct (cutb_cons mk a (b :: r)) as (s0' & rest' & E' & ->). rewrite E in E'. injection E' as <- <-. rewrite Ha.
    cbn [bounds length]. repeat (f_equal; try lia).
Qed.
End Intervals.

(* ================= B. the load operations seen through one dimension ================= *)
Record load_hom (O : load_ops) (get : LT O -> Z) (wf : LT O -> Prop) : Prop := mkHom {
  h_wf_zero : wf (l_default O);
  h_wf_add : forall x y, wf x -> wf y -> wf (l_add O x y);
  h_wf_sub : forall x y, wf x -> wf y -> wf (l_sub O x y);
  h_wf_max : forall x y, wf x -> wf y -> wf (l_max_load O x y);
  h_zero : get (l_default O) = 0;
  h_add : forall x y, wf x -> wf y -> get (l_add O x y) = get x + get y;
  h_sub : forall x y, wf x -> wf y -> get (l_sub O x y) = get x - get y;
  h_max : forall x y, wf x -> wf y -> get (l_max_load O x y) = Z.max (get x) (get y);
  h_fit : forall c x, wf c -> wf x -> l_can_fit O c x = true -> get x <= get c;
  h_nonempty : forall x, wf x -> get x <> 0 -> l_is_not_empty O x = true
}.

Lemma hom_single : load_hom SingleOps get_single (fun _ => True).
Proof.
  constructor; cbn; unfold get_single; intros; auto; try lia.
Qed.

Lemma hom_multi d : (d < LOAD_DIMENSION_SIZE)%nat -> load_hom MultiOps (get_dim d) ml_wf.
Proof.
  intros Hd. constructor; cbn [MultiOps LT l_default l_add l_sub l_max_load l_can_fit l_is_not_empty]; unfold get_dim.
  - exact ml_wf_default.
  - intros x y Hx _. apply ml_wf_add; exact Hx.
  - intros x y Hx _. apply ml_wf_sub; exact Hx.
  - intros x y Hx _. apply ml_wf_max; exact Hx.
  - apply ml_get_default.
  - intros; apply ml_get_add; assumption.
  - intros; apply ml_get_sub; assumption.
  - intros; apply ml_get_max; assumption.
  - intros c x Hc Hx H. apply (proj1 (ml_can_fit_iff c x Hc Hx) H d Hd).
  - intros x Hx Hn. apply (ml_nonempty_get x d Hx Hd Hn).
Qed.

Section Hom.
Variable O : load_ops.
Variable get : LT O -> Z.
Variable wf : LT O -> Prop.
Hypothesis HH : load_hom O get wf.
Notation T := (LT O).
Notation gact := (gact O).
Notation proj := (proj_act O get).
Notation mk := (is_marker_act O).

Definition dem_wf (d : option (gdemand T)) : Prop :=
  match d with Some d => wf (g_ps d) /\ wf (g_pd d) /\ wf (g_ds d) /\ wf (g_dd d) | None => True end.
Definition act_wf (a : gact) : Prop := dem_wf (ga_dem a).
Definition tour_wf (t : list gact) : Prop := Forall act_wf t.

Lemma get_demand_wf a : act_wf a -> dem_wf (get_demand O a).
Proof. unfold act_wf, get_demand. destruct (is_terminal (ga_core a)); [intros _; exact I|auto]. Qed.

Lemma change_wf a : act_wf a -> wf (change_of O a).
Proof.
  intros H. apply get_demand_wf in H. unfold change_of. destruct (get_demand O a) as [d|]; [|apply (h_wf_zero _ _ _ HH)].
  destruct H as (H1 & H2 & H3 & H4). unfold g_change. repeat (first [apply (h_wf_sub _ _ _ HH)|apply (h_wf_add _ _ _ HH)]); assumption.
Qed.
Lemma change_get a : act_wf a -> get (change_of O a) = d_change (a_dem (proj a)).
Proof.
  intros H. apply get_demand_wf in H. unfold change_of, proj_act. cbn [a_dem]. destruct (get_demand O a) as [d|]; cbn [proj_demand].
  - destruct H as (H1 & H2 & H3 & H4). unfold g_change, d_change. cbn [d_ps d_pd d_ds d_dd].
    rewrite (h_sub _ _ _ HH), (h_sub _ _ _ HH), (h_add _ _ _ HH); try assumption; try reflexivity;
      repeat (first [apply (h_wf_sub _ _ _ HH)|apply (h_wf_add _ _ _ HH)]); assumption.
  - apply (h_zero _ _ _ HH).
Qed.

Lemma proj_is_reload a : is_reload (proj a) = mk a.
Proof.
  unfold is_reload, proj_act, is_marker_act, RELOAD_JOB. cbn [a_job]. unfold is_terminal.
  destruct (a_job (ga_core a) <? 0) eqn:E; cbn [negb andb]; [reflexivity|].
  destruct (ga_marker a); [reflexivity|]. apply Z.ltb_ge in E. apply Z.eqb_neq. lia.
Qed.

Lemma gcurrents_wf : forall l c, wf c -> Forall act_wf l -> Forall wf (gcurrents O c l).
Proof.
  induction l as [|a l IH]; intros c Hc Hl; cbn [gcurrents]; [constructor|]. inversion Hl; subst.
  assert (Hc' : wf (l_add O c (change_of O a))) by (apply (h_wf_add _ _ _ HH); [exact Hc|apply change_wf; assumption]).
  constructor; [exact Hc'|apply IH; assumption].
Qed.
Lemma gcurrents_get : forall l c, wf c -> Forall act_wf l -> map get (gcurrents O c l) = currents (get c) (map proj l).
Proof.
  induction l as [|a l IH]; intros c Hc Hl; cbn [gcurrents map currents]; [reflexivity|]. inversion Hl; subst.
  assert (Hc' : wf (l_add O c (change_of O a))) by (apply (h_wf_add _ _ _ HH); [exact Hc|apply change_wf; assumption]).
  rewrite (h_add _ _ _ HH) by (try assumption; apply change_wf; assumption). rewrite change_get by assumption.
  f_equal. rewrite IH by assumption. rewrite (h_add _ _ _ HH) by (try assumption; apply change_wf; assumption).
  rewrite change_get by assumption. reflexivity.
Qed.
Lemma gcurrents_length : forall l c, length (gcurrents O c l) = length l.
Proof. induction l as [|a l IH]; intros c; cbn [gcurrents length]; auto. Qed.

Lemma grun_max_wf : forall l m, wf m -> Forall wf l -> Forall wf (grun_max O m l).
Proof.
  induction l as [|c l IH]; intros m Hm Hl; cbn [grun_max]; [constructor|]. inversion Hl; subst.
  assert (wf (l_max_load O m c)) by (apply (h_wf_max _ _ _ HH); assumption). constructor; [assumption|apply IH; assumption].
Qed.
Lemma grun_max_get : forall l m, wf m -> Forall wf l -> map get (grun_max O m l) = run_max (get m) (map get l).
Proof.
  induction l as [|c l IH]; intros m Hm Hl; cbn [grun_max map run_max]; [reflexivity|]. inversion Hl; subst.
  assert (wf (l_max_load O m c)) by (apply (h_wf_max _ _ _ HH); assumption).
  rewrite (h_max _ _ _ HH) by assumption. f_equal. rewrite IH by assumption. rewrite (h_max _ _ _ HH) by assumption. reflexivity.
Qed.
Lemma grun_max_length : forall l m, length (grun_max O m l) = length l.
Proof. induction l as [|c l IH]; intros m; cbn [grun_max length]; auto. Qed.

Lemma delivery_pickup_spec : forall sl acc ep, wf acc -> wf ep -> Forall act_wf sl ->
  let r := fold_left (fun ac a => match get_demand O a with
                                   | Some d => (l_add O (fst ac) (g_ds d), l_add O (snd ac) (g_ps d))
                                   | None => ac end) sl (acc, ep) in
  wf (fst r) /\ wf (snd r) /\
  get (fst r) = get acc + total_static_delivery (map proj sl) /\
  get (snd r) = get ep + total_static_pickup (map proj sl).
Proof.
  induction sl as [|a sl IH]; intros acc ep Ha He Hl; cbn [fold_left map].
  - cbn. unfold total_static_delivery, total_static_pickup. cbn. repeat split; try assumption; lia.
  - inversion Hl as [|? ? Hwa Hl']; subst. pose proof (get_demand_wf a Hwa) as Hd.
    unfold total_static_delivery, total_static_pickup. cbn [fold_right]. fold (total_static_delivery (map proj sl)). fold (total_static_pickup (map proj sl)).
    unfold proj_act at 1 3. cbn [a_dem].
    destruct (get_demand O a) as [d|]; cbn [proj_demand d_ds d_ps fst snd].
    + destruct Hd as (H1 & H2 & H3 & H4).
      destruct (IH (l_add O acc (g_ds d)) (l_add O ep (g_ps d))) as (W1 & W2 & G1 & G2);
        try (apply (h_wf_add _ _ _ HH)); try assumption.
      repeat split; try assumption.
      * rewrite G1, (h_add _ _ _ HH) by assumption. lia.
      * rewrite G2, (h_add _ _ _ HH) by assumption. lia.
    + destruct (IH acc ep) as (W1 & W2 & G1 & G2); try assumption. repeat split; try assumption; cbn; lia.
Qed.

Lemma last_map {A B} (f : A -> B) : forall l d, f (last l d) = last (map f l) (f d).
Proof. induction l as [|x l IH]; intros d; [reflexivity|]. cbn [map]. destruct l as [|y l]; [reflexivity|]. cbn [last map] in *. apply IH. Qed.
Lemma last_Forall {A} (P : A -> Prop) : forall l d, P d -> Forall P l -> P (last l d).
Proof. induction l as [|x l IH]; intros d Hd Hl; [exact Hd|]. inversion Hl; subst. destruct l as [|y l]; [assumption|]. apply IH; assumption. Qed.
Lemma hd_map {A B} (f : A -> B) l d : f (hd d l) = hd (f d) (map f l).
Proof. destruct l; reflexivity. Qed.

(* ---- per-segment reference lists over the one-dimensional activities ---- *)
Definition seg_L0 (carry : Z) (s : list act) : Z := carry + total_static_delivery s.
Definition seg_cs (carry : Z) (s : list act) : list Z := currents (seg_L0 carry s) s.
Definition seg_ps (carry : Z) (s : list act) : list Z := run_max 0 (seg_cs carry s).
Definition seg_fs (carry : Z) (s : list act) : list Z :=
  let cs := seg_cs carry s in rev (run_max (last cs (seg_L0 carry s)) (rev cs)).
Definition seg_next (carry : Z) (s : list act) : Z := load_after (seg_L0 carry s) s - total_static_pickup s.
Fixpoint ref_lists (f : Z -> list act -> list Z) (carry : Z) (segs : list (list act)) : list Z :=
  match segs with [] => [] | s :: r => f carry s ++ ref_lists f (seg_next carry s) r end.

Lemma last_nonempty_default {A} : forall (l : list A) d d', l <> [] -> last l d = last l d'.
Proof.
  induction l as [|x l IH]; intros d d' H; [congruence|]. destruct l as [|y l]; [reflexivity|].
  change (last (y :: l) d = last (y :: l) d'). apply IH. discriminate.
Qed.
Lemma currents_last_load_after : forall s l0, last (currents l0 s) l0 = load_after l0 s.
Proof.
  induction s as [|a s IH]; intros l0; [reflexivity|]. cbn [currents load_after]. rewrite <- IH.
  destruct s as [|b s]; [reflexivity|].
  change (last (currents (l0 + d_change (a_dem a)) (b :: s)) l0 = last (currents (l0 + d_change (a_dem a)) (b :: s)) (l0 + d_change (a_dem a))).
  apply last_nonempty_default. discriminate.
Qed.

(* ---- the generic per-segment values ---- *)
Definition gseg (acc : T) (s : list gact) : list T * list T * list T * T * T :=
  let '(sd, ep) := delivery_pickup O acc s in
  let cs := gcurrents O sd s in
  let current := last cs sd in
  let fs := rev (grun_max O current (rev cs)) in
  (cs, grun_max O (l_default O) cs, fs, l_sub O current ep, hd current fs).
Fixpoint gref (acc mx : T) (segs : list (list gact)) : T * T * (list T * list T * list T) :=
  match segs with
  | [] => (acc, mx, ([], [], []))
  | s :: r => let '(cs, ps, fs, next, cmax) := gseg acc s in
              let '(acc', mx', (C, P, F)) := gref next (l_max_load O cmax mx) r in
              (acc', mx', (cs ++ C, ps ++ P, fs ++ F))
  end.

Lemma slice_app {A} (pre s post : list A) : s <> [] -> slice (length pre) (length pre + length s - 1) (pre ++ s ++ post) = s.
Proof.
  intros Hs. unfold slice. rewrite skipn_app, skipn_all, Nat.sub_diag. cbn [app skipn].
  replace (S (length pre + length s - 1) - length pre)%nat with (length s) by (destruct s; [congruence|cbn [length]; lia]).
  rewrite firstn_app, firstn_all, Nat.sub_diag. cbn [firstn]. apply app_nil_r.
Qed.

Lemma write_at_firstn {A} (off : nat) (vals arr : list A) : (off + length vals <= length arr)%nat ->
  firstn (off + length vals) (write_at off vals arr) = firstn off arr ++ vals /\ length (write_at off vals arr) = length arr.
Proof.
  intros H. unfold write_at. split.
  - rewrite firstn_app. rewrite firstn_length_le by lia. rewrite (firstn_all2 (n := (off + length vals)%nat) (firstn off arr)) by (rewrite firstn_length_le; lia).
    replace (off + length vals - off)%nat with (length vals) by lia. rewrite firstn_app, firstn_all, Nat.sub_diag. cbn [firstn]. rewrite app_nil_r. reflexivity.
  - rewrite !app_length, firstn_length_le, skipn_length by lia. lia.
Qed.

Lemma fold_intervals_gref : forall segs pre acc mx cur past fut t,
  Forall (fun s => s <> []) segs -> t = pre ++ concat segs ->
  length cur = length t -> length past = length t -> length fut = length t ->
  fold_left (interval_step O t) (bounds (length pre) segs) (acc, mx, (cur, past, fut)) =
  let '(acc', mx', (C, P, F)) := gref acc mx segs in
  (acc', mx', (firstn (length pre) cur ++ C, firstn (length pre) past ++ P, firstn (length pre) fut ++ F)).
Proof.
  induction segs as [|s r IH]; intros pre acc mx cur past fut t Hne Ht Hc Hp Hf.
  - cbn [bounds fold_left gref]. cbn [concat] in Ht. rewrite app_nil_r in Ht. subst t. rewrite !app_nil_r, !firstn_all2 by lia. reflexivity.
  - inversion Hne as [|? ? Hs Hr]; subst. cbn [bounds fold_left concat gref].
    assert (Esl : slice (length pre) (length pre + length s - 1) (pre ++ s ++ concat r) = s) by (apply slice_app; exact Hs).
    unfold interval_step at 2. rewrite Esl. unfold gseg.
    destruct (delivery_pickup O acc s) as [sd ep].
    set (cs := gcurrents O sd s). set (current := last cs sd). set (fs := rev (grun_max O current (rev cs))). set (ps := grun_max O (l_default O) cs).
    assert (Lcs : length cs = length s) by apply gcurrents_length.
    assert (Lps : length ps = length s) by (unfold ps; rewrite grun_max_length; exact Lcs).
    assert (Lfs : length fs = length s) by (unfold fs; rewrite rev_length, grun_max_length, rev_length; exact Lcs).
    assert (Lt : length (pre ++ s ++ concat r) = (length pre + length s + length (concat r))%nat) by (rewrite !app_length; lia).
    cbn [concat] in Hc, Hp, Hf.
    destruct (write_at_firstn (length pre) cs cur) as [F1 L1]; [lia|].
    destruct (write_at_firstn (length pre) ps past) as [F2 L2]; [lia|].
    destruct (write_at_firstn (length pre) fs fut) as [F3 L3]; [lia|].
    specialize (IH (pre ++ s) (l_sub O current ep) (l_max_load O (hd current fs) mx)
                   (write_at (length pre) cs cur) (write_at (length pre) ps past) (write_at (length pre) fs fut) (pre ++ s ++ concat r) Hr).
    rewrite (app_length pre s) in IH. rewrite IH by (try (rewrite <- app_assoc; reflexivity); lia).
    destruct (gref (l_sub O current ep) (l_max_load O (hd current fs) mx) r) as [[acc' mx'] [[C P] F]].
    rewrite <- Lcs at 1. rewrite F1. rewrite <- Lps at 1. rewrite F2. rewrite <- Lfs at 1. rewrite F3. rewrite <- !app_assoc. reflexivity.
Qed.

(* ---- projection of the generic per-segment values ---- *)
Lemma gseg_proj acc s : wf acc -> Forall act_wf s ->
  let '(cs, ps, fs, next, cmax) := gseg acc s in
  map get cs = seg_cs (get acc) (map proj s) /\ map get ps = seg_ps (get acc) (map proj s) /\
  map get fs = seg_fs (get acc) (map proj s) /\ get next = seg_next (get acc) (map proj s) /\ wf next /\ wf cmax.
Proof.
  intros Ha Hs. unfold gseg, delivery_pickup.
  pose proof (delivery_pickup_spec s acc (l_default O) Ha (h_wf_zero _ _ _ HH) Hs) as Hdp. cbv zeta in Hdp.
  destruct (fold_left _ s (acc, l_default O)) as [sd ep]. cbn [fst snd] in Hdp. destruct Hdp as (Wsd & Wep & Gsd & Gep).
  rewrite (h_zero _ _ _ HH) in Gep.
  set (cs := gcurrents O sd s).
  assert (Wcs : Forall wf cs) by (apply gcurrents_wf; assumption).
  assert (Gcs : map get cs = seg_cs (get acc) (map proj s)) by (unfold cs, seg_cs, seg_L0; rewrite gcurrents_get by assumption; rewrite Gsd; reflexivity).
  assert (Wcur : wf (last cs sd)) by (apply last_Forall; assumption).
  assert (Gcur : get (last cs sd) = last (seg_cs (get acc) (map proj s)) (seg_L0 (get acc) (map proj s))).
  { rewrite (last_map get). rewrite Gcs. unfold seg_L0. rewrite Gsd. reflexivity. }
  assert (Wrev : Forall wf (rev cs)) by (apply Forall_rev; exact Wcs).
  assert (Wfs : Forall wf (rev (grun_max O (last cs sd) (rev cs)))) by (apply Forall_rev; apply grun_max_wf; assumption).
  repeat split.
  - exact Gcs.
  - unfold seg_ps. rewrite grun_max_get by (try assumption; apply (h_wf_zero _ _ _ HH)). rewrite (h_zero _ _ _ HH), Gcs. reflexivity.
  - unfold seg_fs. rewrite map_rev, grun_max_get by assumption. rewrite map_rev, Gcs, Gcur. reflexivity.
  - rewrite (h_sub _ _ _ HH) by assumption. unfold seg_next. rewrite Gcur, Gep. unfold seg_cs. rewrite currents_last_load_after. lia.
  - apply (h_wf_sub _ _ _ HH); assumption.
  - destruct (rev (grun_max O (last cs sd) (rev cs))) as [|x l]; cbn [hd]; [exact Wcur|inversion Wfs; assumption].
Qed.

Lemma gref_proj : forall segs acc mx, wf acc -> wf mx -> Forall (Forall act_wf) segs ->
  let '(_, _, (C, P, F)) := gref acc mx segs in
  map get C = ref_lists seg_cs (get acc) (map (map proj) segs) /\
  map get P = ref_lists seg_ps (get acc) (map (map proj) segs) /\
  map get F = ref_lists seg_fs (get acc) (map (map proj) segs).
Proof.
  induction segs as [|s r IH]; intros acc mx Ha Hm Hs; cbn [gref map ref_lists]; [repeat split|].
  inversion Hs as [|? ? Hs1 Hs2]; subst. pose proof (gseg_proj acc s Ha Hs1) as Hg.
  destruct (gseg acc s) as [[[[cs ps] fs] next] cmax]. destruct Hg as (G1 & G2 & G3 & G4 & W1 & W2).
  assert (Wm : wf (l_max_load O cmax mx)) by (apply (h_wf_max _ _ _ HH); assumption).
  specialize (IH next (l_max_load O cmax mx) W1 Wm Hs2).
  destruct (gref next (l_max_load O cmax mx) r) as [[acc' mx'] [[C P] F]]. destruct IH as (I1 & I2 & I3).
  rewrite !map_app, G1, G2, G3, I1, I2, I3, G4. repeat split.
Qed.

Lemma Forall_cutb {A} (P : A -> Prop) (m : A -> bool) : forall l, Forall P l -> Forall (Forall P) (cutb m l).
Proof.
  induction l as [|a r IH]; intros H; [repeat constructor|]. inversion H; subst.
  destruct (cutb_cons m a r) as (s0 & rest & E & ->). specialize (IH H3). rewrite E in IH. inversion IH; subst.
  destruct (m a); repeat constructor; assumption.
Qed.

(* Theorem A, structural half: the cached state vectors of a route with intervals, seen through one dimension, are the
   concatenation of the per-interval reference lists of the projected tour *)
Theorem mt_states_ref : forall a r cap, mk a = false -> tour_wf (a :: r) ->
  let st := gr_st (accept_route_state O true cap (a :: r)) in
  let segs := ivls (proj_tour O get (a :: r)) in
  map get (gs_cur st) = ref_lists seg_cs 0 segs /\
  map get (gs_past st) = ref_lists seg_ps 0 segs /\
  map get (gs_fut st) = ref_lists seg_fs 0 segs.
Proof.
  intros a r cap Ha Hwf. cbv zeta. unfold accept_route_state. cbn [gr_st]. rewrite (route_intervals_bounds O a r Ha).
  unfold recalculate_states.
  pose proof (fold_intervals_gref (cutb mk (a :: r)) [] (l_default O) (l_default O)
                (repeat (l_default O) (length (a :: r))) (repeat (l_default O) (length (a :: r))) (repeat (l_default O) (length (a :: r)))
                (a :: r) (cutb_hd_nonempty mk a r Ha)) as Hf.
  cbn [app] in Hf. change (length (@nil gact)) with 0%nat in Hf. cbv zeta.
  rewrite Hf by (try (rewrite cutb_concat; reflexivity); rewrite repeat_length; reflexivity). clear Hf.
  pose proof (gref_proj (cutb mk (a :: r)) (l_default O) (l_default O) (h_wf_zero _ _ _ HH) (h_wf_zero _ _ _ HH)
                (Forall_cutb act_wf mk (a :: r) Hwf)) as Hp.
  destruct (gref (l_default O) (l_default O) (cutb mk (a :: r))) as [[acc' mx'] [[C P] F]]. cbn [firstn app gs_cur gs_past gs_fut].
  rewrite (h_zero _ _ _ HH) in Hp.
  assert (Es : map (map proj) (cutb mk (a :: r)) = ivls (proj_tour O get (a :: r))).
  { rewrite ivls_cutb. unfold proj_tour. symmetry. apply cutb_map. apply proj_is_reload. }
  rewrite Es in Hp. exact Hp.
Qed.
End Hom.

(* ================= D. one-dimensional reasoning on the segments of a tour ================= *)
Lemma sumch_load_after : forall A l, sumch l A = load_after l A.
Proof. induction A as [|a A IH]; intros l; [reflexivity|]. cbn [load_after]. rewrite <- IH. reflexivity. Qed.

Lemma IntervalOk_currents cap l0 i : IntervalOk cap l0 i <-> l0 <= cap /\ Forall (fun c => c <= cap) (currents l0 i).
Proof. rewrite <- interval_ok_iff, andb_true_iff, Z.leb_le, sim_load_forall. tauto. Qed.

Lemma total_static_pickup_app : forall A B, total_static_pickup (A ++ B) = total_static_pickup A + total_static_pickup B.
Proof. intros A B; unfold total_static_pickup. induction A as [|a A IH]; cbn [app fold_right]; [lia|]. rewrite IH; lia. Qed.
Lemma load_after_app : forall A B l, load_after l (A ++ B) = load_after (load_after l A) B.
Proof. induction A as [|a A IH]; intros B l; [reflexivity|]. cbn [app load_after]. apply IH. Qed.
Lemma load_after_shift : forall A l k, load_after (l + k) A = load_after l A + k.
Proof. intros. rewrite <- !sumch_load_after. apply sumch_shift. Qed.

(* ---- D1. the three state values of a segment at one of its positions (arbitrary start load) ---- *)
Section SegAt.
Variables (L0 : Z) (A : list act) (p : act) (B : list act).
Let s := A ++ p :: B.
Let cs := currents L0 s.
Let cA := currents L0 (A ++ [p]).
Let c := load_after L0 (A ++ [p]).
Let cB := currents c B.

Lemma seg_split : cs = cA ++ cB.
Proof.
  unfold cs, s, cA, cB, c. replace (A ++ p :: B) with ((A ++ [p]) ++ B) by (rewrite <- app_assoc; reflexivity).
  rewrite currents_app, sumch_load_after. reflexivity.
Qed.
Lemma seg_cA_shape : exists X, cA = X ++ [c] /\ length X = length A.
Proof.
  unfold cA. destruct (currents L0 (A ++ [p])) eqn:E using rev_ind.
  - apply (f_equal (@length Z)) in E. rewrite currents_length, app_length in E. cbn in E. lia.
  - clear IHl. exists l. split.
    + f_equal. f_equal. pose proof (currents_last A p L0) as H. rewrite E in H. rewrite last_last in H. rewrite H.
      unfold c. apply sumch_load_after.
    + apply (f_equal (@length Z)) in E. rewrite currents_length, !app_length in E. cbn in E. lia.
Qed.
Lemma seg_cur_at : nth (length A) cs 0 = c.
Proof.
  destruct seg_cA_shape as (X & HX & HL). rewrite seg_split, HX. rewrite <- app_assoc. rewrite app_nth2 by lia.
  rewrite HL, Nat.sub_diag. reflexivity.
Qed.
Lemma seg_past_at : nth (length A) (run_max 0 cs) 0 = lmax 0 cA.
Proof.
  destruct seg_cA_shape as (X & HX & HL). rewrite seg_split, HX, <- app_assoc. cbn [app]. rewrite <- HL. apply run_max_nth.
Qed.
Lemma seg_fut_at : exists m0, In m0 (c :: cB) /\ nth (length A) (rev (run_max (last cs L0) (rev cs))) 0 = lmax m0 (rev cB ++ [c]).
Proof.
  destruct seg_cA_shape as (X & HX & HL).
  assert (Hne : cs <> []) by (rewrite seg_split, HX; destruct X; discriminate).
  rewrite (last_nonempty_default cs L0 0 Hne). rewrite seg_split, HX, <- app_assoc. cbn [app].
  set (m0 := last (X ++ c :: cB) 0). exists m0. split.
  - unfold m0. rewrite last_app_cons. apply last_in. discriminate.
  - assert (Hlen : (length A < length (run_max m0 (rev (X ++ c :: cB))))%nat).
    { rewrite run_max_length, rev_length, app_length. cbn. lia. }
    rewrite rev_nth by exact Hlen. rewrite run_max_length, rev_length.
    rewrite rev_app_distr. cbn [rev]. rewrite <- app_assoc. cbn [app].
    replace (length (X ++ c :: cB) - S (length A))%nat with (length (rev cB)).
    + apply run_max_nth.
    + rewrite rev_length, app_length. cbn. lia.
Qed.

Lemma seg_in_cA_le_past : forall x, In x cA -> x <= nth (length A) (run_max 0 cs) 0.
Proof. intros x H. rewrite seg_past_at. apply lmax_ge_in; assumption. Qed.
Lemma seg_in_cB_le_fut : forall x, In x (c :: cB) -> x <= nth (length A) (rev (run_max (last cs L0) (rev cs))) 0.
Proof.
  intros x H. destruct seg_fut_at as (m0 & _ & ->). apply lmax_ge_in.
  destruct H as [->|H]; apply in_or_app; [right; left; reflexivity|left; apply in_rev in H; exact H].
Qed.
Lemma seg_past_attained : nth (length A) (run_max 0 cs) 0 = 0 \/ In (nth (length A) (run_max 0 cs) 0) cA.
Proof. rewrite seg_past_at. apply lmax_attained. Qed.
Lemma seg_fut_attained : In (nth (length A) (rev (run_max (last cs L0) (rev cs))) 0) (c :: cB).
Proof.
  destruct seg_fut_at as (m0 & Hm & ->). destruct (lmax_attained (rev cB ++ [c]) m0) as [->|H]; [exact Hm|].
  apply in_app_or in H. destruct H as [H|[<-|[]]]; [right; apply in_rev; exact H|left; reflexivity].
Qed.

(* D3. loads of the segment after inserting x right behind p, when the segment's start load grows by the static delivery of x *)
Lemma seg_after_insert : forall x,
  currents (L0 + d_ds (a_dem x)) (A ++ p :: x :: B) =
  map (fun z => z + d_ds (a_dem x)) cA ++ (c + d_ds (a_dem x) + d_change (a_dem x)) ::
  map (fun z => z + (d_ds (a_dem x) + d_change (a_dem x))) cB.
Proof.
  intros x. replace (A ++ p :: x :: B) with ((A ++ [p]) ++ x :: B) by (rewrite <- app_assoc; reflexivity).
  rewrite currents_app, currents_shift. fold cA. f_equal. cbn [currents].
  rewrite sumch_shift, sumch_load_after. fold c. f_equal.
  replace (c + d_ds (a_dem x) + d_change (a_dem x)) with (c + (d_ds (a_dem x) + d_change (a_dem x))) by lia.
  apply currents_shift.
Qed.
End SegAt.

(* ---- D4. threading the carried load through lists of segments ---- *)
Fixpoint carry_after (carry : Z) (segs : list (list act)) : Z :=
  match segs with [] => carry | s :: r => carry_after (seg_next carry s) r end.

Lemma IvlOk_app cap : forall S1 S2 carry, IvlOk cap carry (S1 ++ S2) <-> IvlOk cap carry S1 /\ IvlOk cap (carry_after carry S1) S2.
Proof.
  induction S1 as [|s r IH]; intros S2 carry; cbn [app IvlOk carry_after]; [tauto|]. cbv zeta. rewrite IH.
  unfold seg_next, seg_L0. tauto.
Qed.
Lemma ref_lists_app f : forall S1 S2 carry, ref_lists f carry (S1 ++ S2) = ref_lists f carry S1 ++ ref_lists f (carry_after carry S1) S2.
Proof. induction S1 as [|s r IH]; intros S2 carry; cbn [app ref_lists carry_after]; [reflexivity|]. rewrite IH, app_assoc. reflexivity. Qed.
Lemma ref_lists_length f : (forall carry s, length (f carry s) = length s) ->
  forall S carry, length (ref_lists f carry S) = length (concat S).
Proof. intros Hf. induction S as [|s r IH]; intros carry; cbn [ref_lists concat]; [reflexivity|]. rewrite !app_length, Hf, IH. reflexivity. Qed.
Lemma seg_cs_length carry s : length (seg_cs carry s) = length s.
Proof. apply currents_length. Qed.
Lemma seg_ps_length carry s : length (seg_ps carry s) = length s.
Proof. unfold seg_ps. rewrite run_max_length. apply currents_length. Qed.
Lemma seg_fs_length carry s : length (seg_fs carry s) = length s.
Proof. unfold seg_fs. cbv zeta. rewrite rev_length, run_max_length, rev_length. apply currents_length. Qed.

(* the state value at a position of the k-th segment *)
Lemma ref_lists_nth f : (forall carry s, length (f carry s) = length s) ->
  forall S1 s S2 carry i, (i < length s)%nat ->
  nth (length (concat S1) + i) (ref_lists f carry (S1 ++ s :: S2)) 0 = nth i (f (carry_after carry S1) s) 0.
Proof.
  intros Hf S1 s S2 carry i Hi. rewrite ref_lists_app. rewrite app_nth2 by (rewrite (ref_lists_length f Hf); lia).
  rewrite (ref_lists_length f Hf). replace (length (concat S1) + i - length (concat S1))%nat with i by lia.
  cbn [ref_lists]. apply app_nth1. rewrite Hf. exact Hi.
Qed.

(* ---- D6. all loads of later segments move by delta ---- *)
Fixpoint later_fit (cap delta carry : Z) (segs : list (list act)) : Prop :=
  match segs with
  | [] => True
  | s :: r => (seg_L0 carry s + delta <= cap /\ Forall (fun y => y + delta <= cap) (seg_cs carry s)) /\ later_fit cap delta (seg_next carry s) r
  end.

Lemma IvlOk_shift cap delta : forall segs carry, later_fit cap delta carry segs -> IvlOk cap (carry + delta) segs.
Proof.
  induction segs as [|s r IH]; intros carry H; cbn [IvlOk later_fit] in *; [exact I|]. cbv zeta. destruct H as [[H0 Hs] Hr]. split.
  - apply IntervalOk_currents. unfold seg_L0, seg_cs in *. split; [lia|].
    replace (carry + delta + total_static_delivery s) with (carry + total_static_delivery s + delta) by lia.
    rewrite currents_shift. apply Forall_map_iff. exact Hs.
  - replace (load_after (carry + delta + total_static_delivery s) s - total_static_pickup s) with (seg_next carry s + delta).
    + apply IH. exact Hr.
    + unfold seg_next, seg_L0. replace (carry + delta + total_static_delivery s) with (carry + total_static_delivery s + delta) by lia.
      rewrite (load_after_shift s (carry + total_static_delivery s) delta). lia.
Qed.
Lemma later_fit_nonpos cap delta : delta <= 0 -> forall segs carry, IvlOk cap carry segs -> later_fit cap delta carry segs.
Proof.
  intros Hd. induction segs as [|s r IH]; intros carry H; cbn [IvlOk later_fit] in *; [exact I|]. cbv zeta in H. destruct H as [H0 Hr].
  apply IntervalOk_currents in H0. destruct H0 as [H0 Hs]. split; [split|].
  - unfold seg_L0. lia.
  - unfold seg_cs, seg_L0. eapply Forall_impl; [|exact Hs]. cbn. intros; lia.
  - apply IH. exact Hr.
Qed.

(* ---- D5. the segment of a position, and what an insertion behind that position does to the cut ---- *)
Definition ins {A} (t : list A) (idx : nat) (x : A) : list A := firstn (S idx) t ++ x :: skipn (S idx) t.

Lemma ivls_cons a r : exists s0 rest, ivls r = s0 :: rest /\ ivls (a :: r) = if is_reload a then [] :: (a :: s0) :: rest else (a :: s0) :: rest.
Proof. rewrite !ivls_cutb. apply cutb_cons. Qed.

Lemma ivls_locate : forall t idx, (idx < length t)%nat ->
  exists S1 A p B S2,
    ivls t = S1 ++ (A ++ p :: B) :: S2 /\ (length (concat S1) + length A = idx)%nat /\
    forall x, is_reload x = false -> ivls (ins t idx x) = S1 ++ (A ++ p :: x :: B) :: S2.
Proof.
  induction t as [|a r IH]; intros idx Hidx; cbn [length] in Hidx; [lia|].
  destruct (ivls_cons a r) as (s0 & rest & E & Ea). destruct idx as [|i].
  - destruct (is_reload a) eqn:Ra.
    + exists [[]], [], a, s0, rest. rewrite Ea. split; [reflexivity|]. split; [reflexivity|]. intros x Hx.
      unfold ins. cbn [firstn skipn app]. destruct (ivls_cons a (x :: r)) as (s1 & rest1 & E1 & ->).
      destruct (ivls_cons x r) as (s2 & rest2 & E2 & E3). rewrite E in E2. injection E2 as <- <-. rewrite Hx in E3. rewrite E3 in E1.
      injection E1 as <- <-. rewrite Ra. reflexivity.
    + exists [], [], a, s0, rest. rewrite Ea. split; [reflexivity|]. split; [reflexivity|]. intros x Hx.
      unfold ins. cbn [firstn skipn app]. destruct (ivls_cons a (x :: r)) as (s1 & rest1 & E1 & ->).
      destruct (ivls_cons x r) as (s2 & rest2 & E2 & E3). rewrite E in E2. injection E2 as <- <-. rewrite Hx in E3. rewrite E3 in E1.
      injection E1 as <- <-. rewrite Ra. reflexivity.
  - destruct (IH i) as (S1 & A & p & B & S2 & Ei & Hl & Hins); [lia|]. rewrite E in Ei.
    assert (Hins' : forall x, is_reload x = false -> exists s1 rest1, ivls (ins r i x) = s1 :: rest1 /\
              ivls (ins (a :: r) (S i) x) = if is_reload a then [] :: (a :: s1) :: rest1 else (a :: s1) :: rest1).
    { intros x Hx. change (ins (a :: r) (S i) x) with (a :: ins r i x). apply ivls_cons. }
    destruct S1 as [|s1 S1'].
    + cbn [app] in Ei. injection Ei as -> ->. cbn [concat length] in Hl. destruct (is_reload a) eqn:Ra.
      * exists [[]], (a :: A), p, B, S2. rewrite Ea. split; [reflexivity|]. split; [cbn [concat app length]; lia|]. intros x Hx.
        destruct (Hins' x Hx) as (s1 & rest1 & E1 & ->). rewrite (Hins x Hx) in E1. cbn [app] in E1. injection E1 as <- <-. reflexivity.
      * exists [], (a :: A), p, B, S2. rewrite Ea. split; [reflexivity|]. split; [cbn [concat app length]; lia|]. intros x Hx.
        destruct (Hins' x Hx) as (s1 & rest1 & E1 & ->). rewrite (Hins x Hx) in E1. cbn [app] in E1. injection E1 as <- <-. reflexivity.
    + cbn [app] in Ei. injection Ei as -> ->. cbn [concat] in Hl. rewrite app_length in Hl. destruct (is_reload a) eqn:Ra.
      * exists ([] :: (a :: s1) :: S1'), A, p, B, S2. rewrite Ea. split; [reflexivity|]. split; [cbn [concat app length]; rewrite app_length; lia|].
        intros x Hx. destruct (Hins' x Hx) as (s1' & rest1 & E1 & ->). rewrite (Hins x Hx) in E1. cbn [app] in E1. injection E1 as <- <-. reflexivity.
      * exists ((a :: s1) :: S1'), A, p, B, S2. rewrite Ea. split; [reflexivity|]. split; [cbn [concat app length]; rewrite app_length; lia|].
        intros x Hx. destruct (Hins' x Hx) as (s1' & rest1 & E1 & ->). rewrite (Hins x Hx) in E1. cbn [app] in E1. injection E1 as <- <-. reflexivity.
Qed.

(* what has_demand_violation = None means in one dimension: the tests that were made passed *)
Definition AccZ (cap past fut cur : Z) (d : demand) : Prop :=
  (d_ds d <> 0 -> past + d_ds d <= cap) /\ (d_ps d <> 0 -> fut + d_ps d <= cap) /\
  (d_change d <> 0 -> fut + d_change d <= cap /\ cur + d_change d <= cap).

Lemma tsd_insert A p x B : total_static_delivery (A ++ p :: x :: B) = total_static_delivery (A ++ p :: B) + d_ds (a_dem x).
Proof.
  replace (A ++ p :: x :: B) with ((A ++ [p]) ++ x :: B) by (rewrite <- app_assoc; reflexivity).
  replace (A ++ p :: B) with ((A ++ [p]) ++ B) by (rewrite <- app_assoc; reflexivity).
  rewrite !total_static_delivery_app. unfold total_static_delivery. cbn [fold_right]. lia.
Qed.
Lemma tsp_insert A p x B : total_static_pickup (A ++ p :: x :: B) = total_static_pickup (A ++ p :: B) + d_ps (a_dem x).
Proof.
  replace (A ++ p :: x :: B) with ((A ++ [p]) ++ x :: B) by (rewrite <- app_assoc; reflexivity).
  replace (A ++ p :: B) with ((A ++ [p]) ++ B) by (rewrite <- app_assoc; reflexivity).
  rewrite !total_static_pickup_app. unfold total_static_pickup. cbn [fold_right]. lia.
Qed.
Lemma load_after_insert A p x B l : load_after l (A ++ p :: x :: B) = load_after l (A ++ p :: B) + d_change (a_dem x).
Proof.
  replace (A ++ p :: x :: B) with ((A ++ [p]) ++ x :: B) by (rewrite <- app_assoc; reflexivity).
  replace (A ++ p :: B) with ((A ++ [p]) ++ B) by (rewrite <- app_assoc; reflexivity).
  rewrite !load_after_app. cbn [load_after]. apply load_after_shift.
Qed.

Lemma first_current_is_L0 L0 A p : d_change (a_dem (hd p A)) = 0 -> In L0 (currents L0 (A ++ [p])).
Proof. intros H. destruct A as [|a A']; cbn [app currents hd] in *; left; lia. Qed.

(* insertion into one segment: the tests of has_demand_violation are sufficient *)
Lemma seg_insert_ok cap L0 A p B x :
  IntervalOk cap L0 (A ++ p :: B) -> d_change (a_dem (hd p A)) = 0 -> simple_demand (a_dem x) ->
  let cs := currents L0 (A ++ p :: B) in
  AccZ cap (nth (length A) (run_max 0 cs) 0) (nth (length A) (rev (run_max (last cs L0) (rev cs))) 0) (nth (length A) cs 0) (a_dem x) ->
  IntervalOk cap (L0 + d_ds (a_dem x)) (A ++ p :: x :: B).
Proof.
  intros Hok Hst Hd cs Hacc. apply IntervalOk_currents in Hok. destruct Hok as [Hf0 Hf]. apply IntervalOk_currents.
  rewrite (seg_after_insert L0 A p B x). fold cs in Hf.
  unfold cs in *. rewrite (seg_split L0 A p B) in Hf. apply Forall_app in Hf as [HfA HfB].
  pose proof (seg_in_cA_le_past L0 A p B) as HP. pose proof (seg_in_cB_le_fut L0 A p B) as HF. pose proof (seg_cur_at L0 A p B) as HC.
  cbv zeta in HP, HF, HC. rewrite HC in Hacc.
  set (c := load_after L0 (A ++ [p])) in *. set (cA := currents L0 (A ++ [p])) in *. set (cB := currents c B) in *.
  set (P := nth (length A) (run_max 0 (currents L0 (A ++ p :: B))) 0) in *.
  set (F := nth (length A) (rev (run_max (last (currents L0 (A ++ p :: B)) L0) (rev (currents L0 (A ++ p :: B))))) 0) in *.
  assert (HL0 : L0 <= P) by (apply HP, first_current_is_L0; exact Hst).
  assert (Hc : c <= F) by (apply HF; left; reflexivity).
  assert (Hccap : c <= cap).
  { destruct (seg_cA_shape L0 A p) as (X & HX & _). fold cA c in HX. rewrite HX in HfA.
    apply Forall_app in HfA as [_ HfA]. inversion HfA; assumption. }
  destruct Hacc as (A1 & A2 & A3). destruct Hd as (H1 & H2 & H3 & H4 & Hk). unfold d_change in *.
  split; [destruct (Z.eq_dec (d_ds (a_dem x)) 0); [lia|specialize (A1 n); lia]|].
  apply Forall_app; split; [|constructor].
  - apply Forall_map_iff. rewrite Forall_forall in *. intros z Hz. specialize (HP z Hz). specialize (HfA z Hz).
    destruct (Z.eq_dec (d_ds (a_dem x)) 0); [lia|specialize (A1 n); lia].
  - destruct (Z.eq_dec (d_ps (a_dem x) + d_pd (a_dem x) - d_ds (a_dem x) - d_dd (a_dem x)) 0) as [e|n]; [lia|].
    destruct (A3 n) as [A31 A32]. destruct (Z.eq_dec (d_ds (a_dem x)) 0) as [e1|n1]; [lia|].
    destruct (Z.eq_dec (d_ps (a_dem x)) 0) as [e2|n2]; [lia|specialize (A2 n2); lia].
  - apply Forall_map_iff. rewrite Forall_forall in *. intros z Hz. specialize (HF z (or_intror Hz)). specialize (HfB z Hz).
    destruct (Z.eq_dec (d_ps (a_dem x) + d_pd (a_dem x) - d_ds (a_dem x) - d_dd (a_dem x)) 0) as [e|n].
    + destruct (Z.eq_dec (d_ps (a_dem x)) 0) as [e2|n2]; [lia|specialize (A2 n2); lia].
    + destruct (A3 n) as [A31 A32]. destruct (Z.eq_dec (d_ps (a_dem x)) 0) as [e2|n2]; [lia|specialize (A2 n2); lia].
Qed.

(* heads of the segments carry no load change: the tour start and the reload activities *)
Definition heads_zero (t : list act) : Prop :=
  (forall d, d_change (a_dem (hd d t)) = 0) /\ Forall (fun a => is_reload a = true -> d_change (a_dem a) = 0) t.

Lemma heads_zero_segs t : heads_zero t -> Forall (fun s => forall d, d_change (a_dem (hd d s)) = 0 \/ s = []) (ivls t).
Proof.
  intros [Hh Hr]. rewrite ivls_cutb. destruct (cutb_shape is_reload t) as (s0 & rest & E & _ & Hrest).
  pose proof (cutb_concat is_reload t) as Hc. rewrite E in *. constructor.
  - intros d. destruct s0 as [|a s0]; [right; reflexivity|left]. cbn [concat app] in Hc. rewrite <- Hc in Hh. apply (Hh d).
  - apply Forall_forall. intros s Hs. rewrite Forall_forall in Hrest. destruct (Hrest s Hs) as (a & s' & -> & Ha & _). intros d. left. cbn [hd].
    rewrite Forall_forall in Hr. apply Hr; [|exact Ha]. rewrite <- Hc. cbn [concat]. apply in_or_app. right.
    apply in_concat. exists (a :: s'). split; [exact Hs|left; reflexivity].
Qed.

Lemma nth_skipn_add {A} : forall n (l : list A) i d, nth i (skipn n l) d = nth (n + i) l d.
Proof. induction n as [|n IH]; intros l i d; [reflexivity|]. destruct l as [|x l]; [destruct i; reflexivity|]. cbn [skipn plus nth]. apply IH. Qed.

Lemma skipn_plus {A} : forall n m (l : list A), skipn (n + m) l = skipn m (skipn n l).
Proof. induction n as [|n IH]; intros m l; [reflexivity|]. destruct l as [|x l]; [destruct m; reflexivity|]. cbn [plus skipn]. apply IH. Qed.

(* the later segments, when a shipment pickup (dynamic demand) is carried into them: the test at each segment's first position *)
Lemma later_fit_from_tests cap delta : 0 <= delta ->
  forall S2 carry off (cur fut : list Z),
  Forall (fun s => s <> [] /\ forall d, d_change (a_dem (hd d s)) = 0) S2 ->
  skipn off cur = ref_lists seg_cs carry S2 -> skipn off fut = ref_lists seg_fs carry S2 ->
  (forall iv, In iv (bounds off S2) -> nth (fst iv) fut 0 + delta <= cap) ->
  later_fit cap delta carry S2.
Proof.
  intros Hd. induction S2 as [|s r IH]; intros carry off cur fut Hs Hc Hf Ht; cbn [later_fit]; [exact I|].
  inversion Hs as [|? ? [Hne Hz] Hs']; subst. cbn [ref_lists bounds] in *.
  destruct s as [|p B]; [congruence|]. clear Hne.
  assert (Hfut0 : nth off fut 0 = nth 0 (seg_fs carry (p :: B)) 0).
  { rewrite <- (Nat.add_0_r off) at 1. rewrite <- nth_skipn_add, Hf. apply app_nth1. rewrite seg_fs_length. cbn [length]. lia. }
  pose proof (Ht _ (or_introl eq_refl)) as H0. cbn [fst] in H0. rewrite Hfut0 in H0.
  pose proof (seg_in_cB_le_fut (seg_L0 carry (p :: B)) [] p B) as HF. cbv zeta in HF. cbn [app length] in HF.
  unfold seg_fs in H0. cbv zeta in H0. unfold seg_cs in H0.
  specialize (Hz p). cbn [hd] in Hz.
  assert (Ec : load_after (seg_L0 carry (p :: B)) [p] = seg_L0 carry (p :: B)) by (cbn [load_after]; lia).
  split; [split|].
  - specialize (HF (load_after (seg_L0 carry (p :: B)) [p]) (or_introl eq_refl)). rewrite Ec in HF. lia.
  - unfold seg_cs. apply Forall_forall. intros y Hy. cbn [currents] in Hy.
    assert (In y (load_after (seg_L0 carry (p :: B)) [p] :: currents (load_after (seg_L0 carry (p :: B)) [p]) B)).
    { cbn [load_after]. exact Hy. }
    specialize (HF y H). lia.
  - apply (IH (seg_next carry (p :: B)) (off + length (p :: B))%nat cur fut Hs').
    + rewrite skipn_plus, Hc.
      rewrite skipn_app, seg_cs_length, Nat.sub_diag, skipn_all2 by (rewrite seg_cs_length; lia). reflexivity.
    + rewrite skipn_plus, Hf.
      rewrite skipn_app, seg_fs_length, Nat.sub_diag, skipn_all2 by (rewrite seg_fs_length; lia). reflexivity.
    + intros iv Hiv. apply Ht. right. exact Hiv.
Qed.

Lemma bounds_app {A} : forall (S1 S2 : list (list A)) off, bounds off (S1 ++ S2) = bounds off S1 ++ bounds (off + length (concat S1)) S2.
Proof.
  induction S1 as [|s r IH]; intros S2 off; cbn [app bounds concat length]; [rewrite Nat.add_0_r; reflexivity|].
  rewrite IH, app_length. f_equal. f_equal. f_equal. lia.
Qed.
Lemma skipn_app_exact {A} (l1 l2 : list A) n : length l1 = n -> skipn n (l1 ++ l2) = l2.
Proof. intros <-. rewrite skipn_app, skipn_all, Nat.sub_diag. reflexivity. Qed.
Lemma bounds_fst_ge {A} : forall (S : list (list A)) off iv, In iv (bounds off S) -> (off <= fst iv)%nat.
Proof.
  induction S as [|s r IH]; intros off iv H; cbn [bounds] in H; [destruct H|]. destruct H as [<-|H]; [cbn; lia|].
  apply IH in H. lia.
Qed.

Lemma later_segments_ok t S1 s S2 : heads_zero t -> ivls t = S1 ++ s :: S2 ->
  Forall (fun s => s <> [] /\ forall d, d_change (a_dem (hd d s)) = 0) S2.
Proof.
  intros Hh E. pose proof (heads_zero_segs t Hh) as Hz. rewrite ivls_cutb in *.
  destruct (cutb_shape is_reload t) as (s0 & rest & E0 & _ & Hrest). rewrite E0 in E.
  assert (Hsub : forall y, In y S2 -> In y rest).
  { destruct S1 as [|s1 S1']; cbn [app] in E; injection E as _ ->; intros y Hy; [exact Hy|]. apply in_or_app. right. right. exact Hy. }
  apply Forall_forall. intros y Hy. rewrite Forall_forall in Hrest, Hz. destruct (Hrest y (Hsub y Hy)) as (a & s' & -> & _).
  split; [discriminate|]. intros d. rewrite E0 in Hz. destruct (Hz (a :: s') (or_intror (Hsub _ Hy)) d) as [H|H]; [exact H|discriminate].
Qed.

(* Soundness in one dimension: the tests made at the insertion position (and, for a shipment pickup, at the first position of
   every later interval) are sufficient for the per-interval capacity statement of the tour after the insertion *)
Theorem insertion_sound_Z cap t idx x :
  heads_zero t -> IvlOk cap 0 (ivls t) -> (idx < length t)%nat -> is_reload x = false -> simple_demand (a_dem x) ->
  AccZ cap (nth idx (ref_lists seg_ps 0 (ivls t)) 0) (nth idx (ref_lists seg_fs 0 (ivls t)) 0)
       (nth idx (ref_lists seg_cs 0 (ivls t)) 0) (a_dem x) ->
  (d_pd (a_dem x) = 0 \/
   forall iv, In iv (bounds 0 (ivls t)) -> (idx < fst iv)%nat -> nth (fst iv) (ref_lists seg_fs 0 (ivls t)) 0 + d_pd (a_dem x) <= cap) ->
  IvlOk cap 0 (ivls (ins t idx x)).
Proof.
  intros Hh Hok Hidx Hx Hd Hacc Hlater.
  destruct (ivls_locate t idx Hidx) as (S1 & A & p & B & S2 & E & Hl & Hins). rewrite (Hins x Hx).
  pose proof (later_segments_ok t S1 (A ++ p :: B) S2 Hh E) as HS2.
  pose proof (heads_zero_segs t Hh) as Hz. rewrite E in *.
  apply IvlOk_app in Hok. destruct Hok as [Hok1 Hok2]. cbn [IvlOk] in Hok2. cbv zeta in Hok2. destruct Hok2 as [Hseg Hpost].
  apply IvlOk_app. split; [exact Hok1|]. cbn [IvlOk]. cbv zeta.
  set (ck := carry_after 0 S1) in *. set (s := A ++ p :: B) in *.
  assert (HA : (length A < length s)%nat) by (unfold s; rewrite app_length; cbn [length]; lia).
  rewrite <- Hl in Hacc.
  rewrite (ref_lists_nth seg_ps seg_ps_length S1 s S2 0 (length A) HA) in Hacc.
  rewrite (ref_lists_nth seg_fs seg_fs_length S1 s S2 0 (length A) HA) in Hacc.
  rewrite (ref_lists_nth seg_cs seg_cs_length S1 s S2 0 (length A) HA) in Hacc. fold ck in Hacc.
  assert (Hhd : d_change (a_dem (hd p A)) = 0).
  { rewrite Forall_forall in Hz. assert (Hin : In s (S1 ++ s :: S2)) by (apply in_or_app; right; left; reflexivity).
    destruct (Hz s Hin p) as [H|H].
    - unfold s in H. destruct A; exact H.
    - unfold s in H. destruct A; discriminate. }
  split.
  - rewrite tsd_insert. fold s. replace (ck + (total_static_delivery s + d_ds (a_dem x))) with (ck + total_static_delivery s + d_ds (a_dem x)) by lia.
    apply seg_insert_ok; try assumption.
  - rewrite tsd_insert, tsp_insert, load_after_insert. fold s.
    replace (ck + (total_static_delivery s + d_ds (a_dem x))) with (ck + total_static_delivery s + d_ds (a_dem x)) by lia.
    rewrite load_after_shift.
    set (delta := d_pd (a_dem x) - d_dd (a_dem x)).
    replace (load_after (ck + total_static_delivery s) s + d_ds (a_dem x) + d_change (a_dem x) - (total_static_pickup s + d_ps (a_dem x)))
      with (load_after (ck + total_static_delivery s) s - total_static_pickup s + delta) by (unfold delta, d_change; lia).
    apply IvlOk_shift. destruct Hd as (H1 & H2 & H3 & H4 & Hk).
    destruct (Z_le_gt_dec delta 0) as [Hle|Hgt]; [apply later_fit_nonpos; assumption|].
    assert (Epd : delta = d_pd (a_dem x)) by (unfold delta; lia). assert (Hpd : d_pd (a_dem x) <> 0) by lia.
    destruct Hlater as [Hlater|Hlater]; [contradiction|]. rewrite Epd.
    apply (later_fit_from_tests cap (d_pd (a_dem x)) H2 S2 _ (length (concat S1) + length s)%nat
             (ref_lists seg_cs 0 (S1 ++ s :: S2)) (ref_lists seg_fs 0 (S1 ++ s :: S2)) HS2).
    + rewrite ref_lists_app, skipn_plus, skipn_app_exact by apply (ref_lists_length seg_cs seg_cs_length).
      cbn [ref_lists]. apply skipn_app_exact, seg_cs_length.
    + rewrite ref_lists_app, skipn_plus, skipn_app_exact by apply (ref_lists_length seg_fs seg_fs_length).
      cbn [ref_lists]. apply skipn_app_exact, seg_fs_length.
    + intros iv Hiv. apply Hlater.
      * rewrite bounds_app. apply in_or_app. right. cbn [bounds]. right. rewrite Nat.add_0_l. exact Hiv.
      * apply bounds_fst_ge in Hiv. lia.
Qed.

Lemma bounds_map {A B} (f : A -> B) : forall (S : list (list A)) off, bounds off (map (map f) S) = bounds off S.
Proof. induction S as [|s r IH]; intros off; cbn [map bounds]; [reflexivity|]. rewrite map_length, IH. reflexivity. Qed.
Lemma bounds_snd_ge {A} : forall (S : list (list A)) off iv, Forall (fun s => s <> []) S -> In iv (bounds off S) -> (fst iv <= snd iv)%nat.
Proof.
  induction S as [|s r IH]; intros off iv Hne H; cbn [bounds] in H; [destruct H|]. inversion Hne; subst.
  destruct H as [<-|H]; [cbn [fst snd]; destruct s; [congruence|cbn [length]; lia]|]. apply (IH _ _ H3 H).
Qed.
Lemma proj_ins {A B} (f : A -> B) t idx x : map f (ginsert_after t idx x) = ins (map f t) idx (f x).
Proof. unfold ginsert_after, ins. rewrite map_app, firstn_map. cbn [map]. rewrite skipn_map. reflexivity. Qed.

Section Hom2.
Variable O : load_ops.
Variable get : LT O -> Z.
Variable wf : LT O -> Prop.
Hypothesis HH : load_hom O get wf.
Notation T := (LT O).
Notation gact := (gact O).
Notation proj := (proj_act O get).
Notation mk := (is_marker_act O).

Lemma gseg_wf acc s : wf acc -> Forall (act_wf O wf) s ->
  let '(cs, ps, fs, next, cmax) := gseg O acc s in Forall wf cs /\ Forall wf ps /\ Forall wf fs.
Proof.
  intros Ha Hs. unfold gseg, delivery_pickup.
  pose proof (delivery_pickup_spec O get wf HH s acc (l_default O) Ha (h_wf_zero _ _ _ HH) Hs) as Hdp. cbv zeta in Hdp.
  destruct (fold_left _ s (acc, l_default O)) as [sd ep]. cbn [fst snd] in Hdp. destruct Hdp as (Wsd & Wep & _ & _).
  assert (Wcs : Forall wf (gcurrents O sd s)) by (apply (gcurrents_wf O get wf HH); assumption).
  repeat split.
  - exact Wcs.
  - apply (grun_max_wf O get wf HH); [apply (h_wf_zero _ _ _ HH)|exact Wcs].
  - apply Forall_rev. apply (grun_max_wf O get wf HH); [apply last_Forall; assumption|apply Forall_rev; exact Wcs].
Qed.
Lemma gref_wf : forall segs acc mx, wf acc -> wf mx -> Forall (Forall (act_wf O wf)) segs ->
  let '(_, _, (C, P, F)) := gref O acc mx segs in Forall wf C /\ Forall wf P /\ Forall wf F.
Proof.
  induction segs as [|s r IH]; intros acc mx Ha Hm Hs; cbn [gref]; [repeat split; constructor|].
  inversion Hs as [|? ? Hs1 Hs2]; subst. pose proof (gseg_wf acc s Ha Hs1) as Hw. pose proof (gseg_proj O get wf HH acc s Ha Hs1) as Hg.
  destruct (gseg O acc s) as [[[[cs ps] fs] next] cmax]. destruct Hg as (_ & _ & _ & _ & W1 & W2). destruct Hw as (Wc & Wp & Wf).
  assert (Wm : wf (l_max_load O cmax mx)) by (apply (h_wf_max _ _ _ HH); assumption).
  specialize (IH next (l_max_load O cmax mx) W1 Wm Hs2).
  destruct (gref O next (l_max_load O cmax mx) r) as [[acc' mx'] [[C P] F]]. destruct IH as (I1 & I2 & I3).
  repeat split; apply Forall_app; split; assumption.
Qed.
Lemma mt_states_wf : forall a r cap, mk a = false -> tour_wf O wf (a :: r) ->
  let st := gr_st (accept_route_state O true cap (a :: r)) in
  Forall wf (gs_cur st) /\ Forall wf (gs_past st) /\ Forall wf (gs_fut st).
Proof.
  intros a r cap Ha Hwf. cbv zeta. unfold accept_route_state. cbn [gr_st]. rewrite (route_intervals_bounds O a r Ha).
  unfold recalculate_states.
  pose proof (fold_intervals_gref O (cutb mk (a :: r)) [] (l_default O) (l_default O)
                (repeat (l_default O) (length (a :: r))) (repeat (l_default O) (length (a :: r))) (repeat (l_default O) (length (a :: r)))
                (a :: r) (cutb_hd_nonempty mk a r Ha)) as Hf.
  cbn [app] in Hf. change (length (@nil gact)) with 0%nat in Hf. cbv zeta.
  rewrite Hf by (try (rewrite cutb_concat; reflexivity); rewrite repeat_length; reflexivity). clear Hf.
  pose proof (gref_wf (cutb mk (a :: r)) (l_default O) (l_default O) (h_wf_zero _ _ _ HH) (h_wf_zero _ _ _ HH)
                (Forall_cutb (act_wf O wf) mk (a :: r) Hwf)) as Hp.
  destruct (gref O (l_default O) (l_default O) (cutb mk (a :: r))) as [[acc' mx'] [[C P] F]]. cbn [firstn app gs_cur gs_past gs_fut].
  exact Hp.
Qed.

Lemma st_at_get l i : Forall wf l -> wf (st_at O l i) /\ get (st_at O l i) = nth i (map get l) 0.
Proof.
  intros Hl. unfold st_at. split.
  - destruct (nth_in_or_default i l (l_default O)) as [H|H]; [rewrite Forall_forall in Hl; apply Hl; exact H|rewrite H; apply (h_wf_zero _ _ _ HH)].
  - rewrite <- (h_zero _ _ _ HH). symmetry. apply map_nth.
Qed.

(* has_demand_violation = None: in every dimension the tests that were made passed *)
Lemma hdv_none_acc r pivot d st cap :
  gr_cap r = Some cap -> wf cap -> Forall wf (gs_cur (gr_st r)) -> Forall wf (gs_past (gr_st r)) -> Forall wf (gs_fut (gr_st r)) ->
  dem_wf O wf (Some d) ->
  has_demand_violation O r pivot (Some d) st = None ->
  AccZ (get cap) (nth pivot (map get (gs_past (gr_st r))) 0) (nth pivot (map get (gs_fut (gr_st r))) 0)
       (nth pivot (map get (gs_cur (gr_st r))) 0) (proj_demand O get (Some d)).
Proof.
  intros Hcap Wcap Wc Wp Wf (W1 & W2 & W3 & W4) Hv. unfold has_demand_violation in Hv. rewrite Hcap in Hv.
  destruct (st_at_get _ pivot Wc) as [Wc' Gc]. destruct (st_at_get _ pivot Wp) as [Wp' Gp]. destruct (st_at_get _ pivot Wf) as [Wf' Gf].
  rewrite <- Gc, <- Gp, <- Gf.
  assert (Wchg : wf (g_change O d)) by (unfold g_change; repeat (first [apply (h_wf_sub _ _ _ HH)|apply (h_wf_add _ _ _ HH)]); assumption).
  assert (Gchg : get (g_change O d) = d_change (proj_demand O get (Some d))).
  { unfold g_change, d_change. cbn [proj_demand d_ps d_pd d_ds d_dd].
    rewrite (h_sub _ _ _ HH), (h_sub _ _ _ HH), (h_add _ _ _ HH); try assumption; try reflexivity;
      repeat (first [apply (h_wf_sub _ _ _ HH)|apply (h_wf_add _ _ _ HH)]); assumption. }
  cbn [proj_demand] in *. unfold AccZ. cbn [d_ds d_ps].
  destruct (l_is_not_empty O (g_ds d) && negb (l_can_fit O cap (l_add O (st_at O (gs_past (gr_st r)) pivot) (g_ds d)))) eqn:E1; [discriminate|].
  destruct (l_is_not_empty O (g_ps d) && negb (l_can_fit O cap (l_add O (st_at O (gs_fut (gr_st r)) pivot) (g_ps d)))) eqn:E2; [discriminate|].
  split; [|split].
  - intros Hn. rewrite (h_nonempty _ _ _ HH _ W3 Hn) in E1. cbn [andb] in E1. apply negb_false_iff in E1.
    apply (h_fit _ _ _ HH) in E1; [|assumption|apply (h_wf_add _ _ _ HH); assumption]. rewrite (h_add _ _ _ HH) in E1 by assumption. exact E1.
  - intros Hn. rewrite (h_nonempty _ _ _ HH _ W1 Hn) in E2. cbn [andb] in E2. apply negb_false_iff in E2.
    apply (h_fit _ _ _ HH) in E2; [|assumption|apply (h_wf_add _ _ _ HH); assumption]. rewrite (h_add _ _ _ HH) in E2 by assumption. exact E2.
  - intros Hn. rewrite <- Gchg in Hn. rewrite (h_nonempty _ _ _ HH _ Wchg Hn) in Hv.
    destruct (l_can_fit O cap (l_add O (st_at O (gs_fut (gr_st r)) pivot) (g_change O d))) eqn:E3; cbn [negb] in Hv; [|discriminate].
    destruct (l_can_fit O cap (l_add O (st_at O (gs_cur (gr_st r)) pivot) (g_change O d))) eqn:E4; cbn [negb] in Hv; [|discriminate].
    apply (h_fit _ _ _ HH) in E3; [|assumption|apply (h_wf_add _ _ _ HH); assumption]. rewrite (h_add _ _ _ HH) in E3 by assumption.
    apply (h_fit _ _ _ HH) in E4; [|assumption|apply (h_wf_add _ _ _ HH); assumption]. rewrite (h_add _ _ _ HH) in E4 by assumption.
    rewrite <- Gchg. split; assumption.
Qed.

(* tours the theorems speak about: the first activity is the vehicle start (no job), marker activities carry no demand *)
Definition mt_tour_ok (t : list gact) : Prop :=
  (exists a r, t = a :: r /\ is_terminal (ga_core a) = true) /\ Forall (fun a => mk a = true -> ga_dem a = None) t.

Lemma heads_zero_proj t : mt_tour_ok t -> heads_zero (proj_tour O get t).
Proof.
  intros [(a & r & -> & Ha) Hm]. split.
  - intros d. cbn [proj_tour map hd]. unfold proj_act. cbn [a_dem]. unfold get_demand. rewrite Ha. reflexivity.
  - unfold proj_tour. apply Forall_map_iff. eapply Forall_impl; [|exact Hm]. intros b Hb Hr. rewrite proj_is_reload in Hr.
    unfold proj_act. cbn [a_dem]. unfold get_demand. rewrite (Hb Hr). destruct (is_terminal (ga_core b)); reflexivity.
Qed.

(* Soundness, one dimension of any load type: an activity (not a marker) accepted by CapacitatedMultiTrip::evaluate_activity at
   position idx of a tour whose every interval satisfies the capacity statement of Spec/Intervals.v leaves a tour whose every
   interval satisfies it.  A target that does not belong to a multi job must not carry a shipment pickup (dynamic pickup demand). *)
Theorem mt_insertion_sound_dim : forall t cap idx x,
  mt_tour_ok t -> tour_wf O wf t -> act_wf O wf x -> wf cap ->
  IvlOk (get cap) 0 (ivls (proj_tour O get t)) ->
  (idx < length t)%nat -> mk x = false ->
  simple_demand (a_dem (proj x)) ->
  (ga_multi x = false -> d_pd (a_dem (proj x)) = 0) ->
  cap_evaluate_activity O (accept_route_state O true (Some cap) t) idx x = None ->
  IvlOk (get cap) 0 (ivls (proj_tour O get (ginsert_after t idx x))).
Proof.
  intros t cap idx x Hok Hwf Hwx Wcap Hfeas Hidx Hmx Hsd Hnm Hev.
  pose proof (heads_zero_proj t Hok) as Hhz. destruct Hok as [(a & r & -> & Ha) Hm].
  assert (Hmk : mk a = false) by (unfold is_marker_act; rewrite Ha; reflexivity).
  unfold proj_tour. rewrite proj_ins. fold (proj_tour O get (a :: r)).
  destruct (mt_states_ref O get wf HH a r (Some cap) Hmk Hwf) as (Rc & Rp & Rf).
  destruct (mt_states_wf a r (Some cap) Hmk Hwf) as (Wc & Wp & Wf).
  set (rt := accept_route_state O true (Some cap) (a :: r)) in *.
  assert (Hcap : gr_cap rt = Some cap) by reflexivity.
  assert (Hivs : gr_ivs rt = Some (bounds 0 (ivls (proj_tour O get (a :: r))))).
  { unfold rt, accept_route_state. cbn [gr_ivs]. rewrite (route_intervals_bounds O a r Hmk). f_equal.
    rewrite ivls_cutb. unfold proj_tour. rewrite (cutb_map proj mk is_reload (proj_is_reload O get)). symmetry. apply bounds_map. }
  assert (Hrx : is_reload (proj x) = false) by (rewrite proj_is_reload; exact Hmx).
  assert (Hlen : (idx < length (proj_tour O get (a :: r)))%nat) by (unfold proj_tour; rewrite map_length; exact Hidx).
  assert (Hdem : a_dem (proj x) = proj_demand O get (get_demand O x)) by reflexivity.
  pose proof (get_demand_wf O wf x Hwx) as Wdx.
  unfold cap_evaluate_activity in Hev.
  destruct (get_demand O x) as [d|] eqn:Edx.
  2:{ (* no demand: nothing changes *)
      apply (insertion_sound_Z (get cap) _ idx (proj x) Hhz Hfeas Hlen Hrx Hsd).
      - rewrite Hdem. cbn [proj_demand]. unfold AccZ, dzero, d_change. cbn. repeat split; intros; lia.
      - left. rewrite Hdem. reflexivity. }
  destruct (ga_multi x) eqn:Emx.
  - (* part of a multi job: can_handle_demand_on_intervals with the insertion index *)
    destruct (can_handle_demand_on_intervals O rt (Some d) (Some idx)) eqn:Ech; [|discriminate].
    unfold can_handle_demand_on_intervals in Ech. rewrite Hivs in Ech.
    assert (Htest : forall iv, In iv (bounds 0 (ivls (proj_tour O get (a :: r)))) -> (idx <= snd iv)%nat ->
                    has_demand_violation O rt (Nat.max idx (fst iv)) (Some d) true = None).
    { intros iv Hin Hle. rewrite forallb_forall in Ech. specialize (Ech iv).
      assert (Hf : In iv (filter (fun iv => (idx <=? snd iv)%nat) (bounds 0 (ivls (proj_tour O get (a :: r)))))).
      { apply filter_In. split; [exact Hin|apply Nat.leb_le; exact Hle]. }
      specialize (Ech Hf). destruct (has_demand_violation O rt (Nat.max idx (fst iv)) (Some d) true); [discriminate|reflexivity]. }
    destruct (ivls_locate _ idx Hlen) as (S1 & A & p & B & S2 & E & Hl & _).
    assert (Hne : Forall (fun s => s <> []) (ivls (proj_tour O get (a :: r)))).
    { rewrite ivls_cutb. cbn [proj_tour map]. apply cutb_hd_nonempty. rewrite proj_is_reload. exact Hmk. }
    apply (insertion_sound_Z (get cap) _ idx (proj x) Hhz Hfeas Hlen Hrx Hsd).
    + (* own interval *)
      assert (Hown : In (length (concat S1), (length (concat S1) + length (A ++ p :: B) - 1)%nat) (bounds 0 (ivls (proj_tour O get (a :: r))))).
      { rewrite E, bounds_app. apply in_or_app. right. left. reflexivity. }
      specialize (Htest _ Hown). cbn [fst snd] in Htest. rewrite app_length in Htest. cbn [length] in Htest.
      replace (Nat.max idx (length (concat S1))) with idx in Htest by lia.
      rewrite Hdem, <- Rc, <- Rp, <- Rf. apply (hdv_none_acc rt idx d true cap Hcap Wcap Wc Wp Wf Wdx). apply Htest. lia.
    + (* later intervals *)
      destruct (Z.eq_dec (d_pd (a_dem (proj x))) 0) as [Hz|Hnz]; [left; exact Hz|right].
      intros iv Hin Hlt. pose proof (bounds_snd_ge _ _ _ Hne Hin) as Hfs.
      assert (Hle : (idx <= snd iv)%nat) by lia. specialize (Htest iv Hin Hle).
      replace (Nat.max idx (fst iv)) with (fst iv) in Htest by lia.
      pose proof (hdv_none_acc rt (fst iv) d true cap Hcap Wcap Wc Wp Wf Wdx Htest) as (_ & _ & A3).
      rewrite Rf in A3. rewrite Hdem. rewrite Hdem in Hnz, Hsd.
      destruct Hsd as (H1 & H2 & H3 & H4 & [(K1 & K2)|[(K1 & K2 & K3)|(K1 & K2 & K3)]]); try contradiction.
      assert (Ech' : d_change (proj_demand O get (Some d)) = d_pd (proj_demand O get (Some d))) by (unfold d_change; lia).
      rewrite Ech' in A3. apply A3. exact Hnz.
  - (* single job: has_demand_violation at the insertion position *)
    apply (insertion_sound_Z (get cap) _ idx (proj x) Hhz Hfeas Hlen Hrx Hsd).
    + rewrite Hdem, <- Rc, <- Rp, <- Rf. apply (hdv_none_acc rt idx d _ cap Hcap Wcap Wc Wp Wf Wdx Hev).
    + left. apply Hnm. reflexivity.
Qed.
End Hom2.

(* ================= E. the theorems ================= *)

(* ---- E1. the cached states are what they are meant to be ---- *)
Section StatesExact.
Variable O : load_ops.
Variable get : LT O -> Z.
Variable wf : LT O -> Prop.
Hypothesis HH : load_hom O get wf.

(* position idx lies in an interval A ++ p :: B (p = the activity at idx) that starts with L0 on board: what is carried in from
   the intervals before (carry_after, the threading of Spec.Intervals.IvlOk) plus the interval's static deliveries.  Then, in the
   dimension `get`: current = the running load after p; max-past = the largest running load of the interval up to p (and 0);
   max-future = the largest running load of the interval from p on *)
Theorem mt_states_exact_dim : forall t cap idx,
  mt_tour_ok O t -> tour_wf O wf t -> (idx < length t)%nat ->
  let st := gr_st (accept_route_state O true cap t) in
  exists S1 A p B S2,
    ivls (proj_tour O get t) = S1 ++ (A ++ p :: B) :: S2 /\ (length (concat S1) + length A)%nat = idx /\
    let L0 := carry_after 0 S1 + total_static_delivery (A ++ p :: B) in
    let cur := get (st_at O (gs_cur st) idx) in
    let past := get (st_at O (gs_past st) idx) in
    let fut := get (st_at O (gs_fut st) idx) in
    cur = load_after L0 (A ++ [p]) /\
    past = lmax 0 (currents L0 (A ++ [p])) /\
    (forall y, In y (cur :: currents cur B) -> y <= fut) /\ In fut (cur :: currents cur B).
Proof.
  intros t cap idx Hok Hwf Hidx. cbv zeta. destruct Hok as [(a & r & -> & Ha) Hm].
  assert (Hmk : is_marker_act O a = false) by (unfold is_marker_act; rewrite Ha; reflexivity).
  destruct (mt_states_ref O get wf HH a r cap Hmk Hwf) as (Rc & Rp & Rf).
  destruct (mt_states_wf O get wf HH a r cap Hmk Hwf) as (Wc & Wp & Wf).
  assert (Hlen : (idx < length (proj_tour O get (a :: r)))%nat) by (unfold proj_tour; rewrite map_length; exact Hidx).
  destruct (ivls_locate _ idx Hlen) as (S1 & A & p & B & S2 & E & Hl & _).
  exists S1, A, p, B, S2. split; [exact E|]. split; [exact Hl|].
  destruct (st_at_get O get wf HH _ idx Wc) as [_ Gc]. destruct (st_at_get O get wf HH _ idx Wp) as [_ Gp]. destruct (st_at_get O get wf HH _ idx Wf) as [_ Gf].
  rewrite Gc, Gp, Gf, Rc, Rp, Rf, E. clear Gc Gp Gf Rc Rp Rf.
  assert (HA : (length A < length (A ++ p :: B))%nat) by (rewrite app_length; cbn [length]; lia).
  rewrite <- Hl.
  rewrite (ref_lists_nth seg_ps seg_ps_length S1 _ S2 0 (length A) HA).
  rewrite (ref_lists_nth seg_fs seg_fs_length S1 _ S2 0 (length A) HA).
  rewrite (ref_lists_nth seg_cs seg_cs_length S1 _ S2 0 (length A) HA).
  unfold seg_ps, seg_fs, seg_cs, seg_L0. cbv zeta.
  set (L0 := carry_after 0 S1 + total_static_delivery (A ++ p :: B)).
  rewrite (seg_cur_at L0 A p B). split; [reflexivity|]. split; [apply seg_past_at|]. split.
  - apply (seg_in_cB_le_fut L0 A p B).
  - apply (seg_fut_attained L0 A p B).
Qed.
End StatesExact.

(* one interval, one dimension: the states are the ones of Model/Core.v *)
Theorem mt_states_single_interval : forall t cap,
  mt_tour_ok SingleOps t -> forallb (fun a => negb (is_marker_act SingleOps a)) t = true ->
  let st := gr_st (accept_route_state SingleOps true cap t) in
  let pt := proj_tour SingleOps get_single t in
  gs_cur st = cur_states pt /\ gs_past st = past_states pt /\ gs_fut st = fut_states pt.
Proof.
  intros t cap Hok Hnm. cbv zeta. destruct Hok as [(a & r & -> & Ha) Hm].
  assert (Hmk : is_marker_act SingleOps a = false) by (unfold is_marker_act; rewrite Ha; reflexivity).
  assert (Hwf : tour_wf SingleOps (fun _ => True) (a :: r)).
  { apply Forall_forall. intros b _. unfold act_wf, dem_wf. destruct (ga_dem b); auto. }
  destruct (mt_states_ref SingleOps get_single _ hom_single a r cap Hmk Hwf) as (Rc & Rp & Rf).
  assert (Hid : forall l : list Z, map get_single l = l) by (intros l; unfold get_single; apply map_id).
  rewrite !Hid in *. rewrite Rc, Rp, Rf.
  assert (Hno : forallb (fun a => negb (is_reload a)) (proj_tour SingleOps get_single (a :: r)) = true).
  { unfold proj_tour. rewrite forallb_forall in *. intros y Hy. apply in_map_iff in Hy. destruct Hy as (b & <- & Hb).
    rewrite proj_is_reload. apply Hnm. exact Hb. }
  rewrite (ivls_no_reload _ Hno). cbn [ref_lists]. rewrite !app_nil_r.
  set (pt := proj_tour SingleOps get_single (a :: r)).
  assert (Ecs : seg_cs 0 pt = cur_states pt) by (unfold seg_cs, seg_L0, cur_states; rewrite Z.add_0_l, <- start_delivery_eq; reflexivity).
  assert (EL0 : seg_L0 0 pt = start_delivery pt) by (unfold seg_L0; rewrite Z.add_0_l, <- start_delivery_eq; reflexivity).
  unfold seg_ps, seg_fs, past_states, fut_states. cbv zeta. rewrite Ecs, EL0. repeat split.
  assert (Hne : cur_states pt <> []) by (unfold cur_states, pt; cbn [proj_tour map currents]; discriminate).
  rewrite (last_nonempty_default _ (start_delivery pt) 0 Hne). reflexivity.
Qed.

(* ---- E2. soundness for the two load types ---- *)
Theorem mt_insertion_sound_single : forall t cap idx x,
  mt_tour_ok SingleOps t ->
  IvlOk cap 0 (ivls (proj_tour SingleOps get_single t)) ->
  (idx < length t)%nat -> is_marker_act SingleOps x = false ->
  simple_demand (a_dem (proj_act SingleOps get_single x)) ->
  (ga_multi x = false -> d_pd (a_dem (proj_act SingleOps get_single x)) = 0) ->
  mt_evaluate_activity SingleOps PolicyLast (accept_route_state SingleOps true (Some cap) t) idx x = None ->
  IvlOk cap 0 (ivls (proj_tour SingleOps get_single (ginsert_after t idx x))).
Proof.
  intros t cap idx x Hok Hf Hidx Hmx Hsd Hnm Hev. unfold mt_evaluate_activity in Hev. rewrite Hmx in Hev.
  apply (mt_insertion_sound_dim SingleOps get_single _ hom_single t cap idx x); try assumption; try exact I.
  - apply Forall_forall. intros b _. unfold act_wf, dem_wf. destruct (ga_dem b); auto.
  - unfold act_wf, dem_wf. destruct (ga_dem x); auto.
Qed.

Definition ml_tour_wf (t : list (gact MultiOps)) : Prop := tour_wf MultiOps ml_wf t.

Theorem mt_insertion_sound_multi : forall t cap idx x,
  mt_tour_ok MultiOps t -> ml_tour_wf t -> act_wf MultiOps ml_wf x -> ml_wf cap ->
  (idx < length t)%nat -> is_marker_act MultiOps x = false ->
  mt_evaluate_activity MultiOps PolicyLast (accept_route_state MultiOps true (Some cap) t) idx x = None ->
  forall d, (d < LOAD_DIMENSION_SIZE)%nat ->
    IvlOk (ml_get cap d) 0 (ivls (proj_tour MultiOps (get_dim d) t)) ->
    simple_demand (a_dem (proj_act MultiOps (get_dim d) x)) ->
    (ga_multi x = false -> d_pd (a_dem (proj_act MultiOps (get_dim d) x)) = 0) ->
    IvlOk (ml_get cap d) 0 (ivls (proj_tour MultiOps (get_dim d) (ginsert_after t idx x))).
Proof.
  intros t cap idx x Hok Hwf Hwx Wcap Hidx Hmx Hev d Hd Hf Hsd Hnm. unfold mt_evaluate_activity in Hev. rewrite Hmx in Hev.
  apply (mt_insertion_sound_dim MultiOps (get_dim d) ml_wf (hom_multi d Hd) t cap idx x); assumption.
Qed.

(* ---- E3. exactness for static demand ---- *)
Definition static_nonneg (d : demand) : Prop := d_pd d = 0 /\ d_dd d = 0 /\ 0 <= d_ps d /\ 0 <= d_ds d.

Lemma seg_insert_exact cap L0 A p B x :
  IntervalOk cap L0 (A ++ p :: B) -> d_change (a_dem (hd p A)) = 0 -> static_nonneg (a_dem x) -> 0 <= L0 ->
  let cs := currents L0 (A ++ p :: B) in
  (AccZ cap (nth (length A) (run_max 0 cs) 0) (nth (length A) (rev (run_max (last cs L0) (rev cs))) 0) (nth (length A) cs 0) (a_dem x)
   <-> IntervalOk cap (L0 + d_ds (a_dem x)) (A ++ p :: x :: B)).
Proof.
  intros Hok Hst (Hpd & Hdd & Hps & Hds) HL0 cs. split.
  - apply seg_insert_ok; try assumption. unfold simple_demand. lia.
  - intros Hi. pose proof Hok as Hok'. apply IntervalOk_currents in Hok'. destruct Hok' as [Hf0 Hf]. apply IntervalOk_currents in Hi. destruct Hi as [Hi0 Hi].
    rewrite (seg_after_insert L0 A p B x) in Hi. apply Forall_app in Hi as [HiA HiB]. inversion HiB as [|? ? Hix HiB']; subst. clear HiB.
    unfold cs in *. rewrite (seg_split L0 A p B) in Hf. apply Forall_app in Hf as [HfA HfB].
    pose proof (seg_past_attained L0 A p B) as HP. pose proof (seg_fut_attained L0 A p B) as HF. pose proof (seg_cur_at L0 A p B) as HC.
    cbv zeta in HP, HF, HC. rewrite HC.
    set (c := load_after L0 (A ++ [p])) in *. set (cA := currents L0 (A ++ [p])) in *. set (cB := currents c B) in *.
    set (P := nth (length A) (run_max 0 (currents L0 (A ++ p :: B))) 0) in *.
    set (F := nth (length A) (rev (run_max (last (currents L0 (A ++ p :: B)) L0) (rev (currents L0 (A ++ p :: B))))) 0) in *.
    assert (HPd : P + d_ds (a_dem x) <= cap).
    { destruct HP as [HP|HP]; [lia|]. pose proof (proj1 (Forall_map_iff _ _ _) HiA) as HiA2. rewrite Forall_forall in HiA2. apply (HiA2 P HP). }
    assert (HFp : F + d_ps (a_dem x) <= cap).
    { unfold d_change in *. destruct HF as [HF|HF]; [rewrite <- HF; lia|].
      pose proof (proj1 (Forall_map_iff _ _ _) HiB') as HiB2. rewrite Forall_forall in HiB2. specialize (HiB2 F HF). lia. }
    assert (HFc : F <= cap).
    { destruct HF as [HF|HF]; [rewrite <- HF|].
      - destruct (seg_cA_shape L0 A p) as (X & HX & _). fold cA c in HX. rewrite HX in HfA. apply Forall_app in HfA as [_ HfA]. inversion HfA; assumption.
      - rewrite Forall_forall in HfB. apply HfB. exact HF. }
    assert (Hcc : c <= F) by (apply (seg_in_cB_le_fut L0 A p B); left; reflexivity).
    unfold AccZ, d_change in *. repeat split; intros; lia.
Qed.

Theorem insertion_exact_Z cap t idx x :
  heads_zero t -> IvlOk cap 0 (ivls t) -> (idx < length t)%nat -> is_reload x = false -> static_nonneg (a_dem x) ->
  (forall y, In y (ref_lists seg_cs 0 (ivls t)) -> 0 <= y) ->
  (AccZ cap (nth idx (ref_lists seg_ps 0 (ivls t)) 0) (nth idx (ref_lists seg_fs 0 (ivls t)) 0)
        (nth idx (ref_lists seg_cs 0 (ivls t)) 0) (a_dem x)
   <-> IvlOk cap 0 (ivls (ins t idx x))).
Proof.
  intros Hh Hok Hidx Hx Hst Hnn. split.
  - intros Hacc. apply insertion_sound_Z; try assumption.
    + destruct Hst as (Hpd & Hdd & Hps & Hds). unfold simple_demand. lia.
    + left. apply Hst.
  - intros Hi. destruct (ivls_locate t idx Hidx) as (S1 & A & p & B & S2 & E & Hl & Hins). rewrite (Hins x Hx) in Hi.
    pose proof (heads_zero_segs t Hh) as Hz. rewrite E in *.
    apply IvlOk_app in Hok. destruct Hok as [Hok1 Hok2]. cbn [IvlOk] in Hok2. cbv zeta in Hok2. destruct Hok2 as [Hseg _].
    apply IvlOk_app in Hi. destruct Hi as [_ Hi2]. cbn [IvlOk] in Hi2. cbv zeta in Hi2. destruct Hi2 as [Hseg' _].
    set (ck := carry_after 0 S1) in *. set (s := A ++ p :: B) in *.
    assert (HA : (length A < length s)%nat) by (unfold s; rewrite app_length; cbn [length]; lia).
    rewrite <- Hl.
    rewrite (ref_lists_nth seg_ps seg_ps_length S1 s S2 0 (length A) HA).
    rewrite (ref_lists_nth seg_fs seg_fs_length S1 s S2 0 (length A) HA).
    rewrite (ref_lists_nth seg_cs seg_cs_length S1 s S2 0 (length A) HA). fold ck.
    assert (Hhd : d_change (a_dem (hd p A)) = 0).
    { rewrite Forall_forall in Hz. assert (Hin : In s (S1 ++ s :: S2)) by (apply in_or_app; right; left; reflexivity).
      destruct (Hz s Hin p) as [H|H].
      - unfold s in H. destruct A; exact H.
      - unfold s in H. destruct A; discriminate. }
    assert (HL0 : 0 <= ck + total_static_delivery s).
    { apply Hnn. rewrite ref_lists_app. apply in_or_app. right. cbn [ref_lists]. apply in_or_app. left.
      unfold seg_cs, seg_L0. fold ck. unfold s at 2. rewrite (seg_split _ A p B). apply in_or_app. left.
      apply first_current_is_L0. exact Hhd. }
    rewrite tsd_insert in Hseg'. fold s in Hseg'.
    replace (ck + (total_static_delivery s + d_ds (a_dem x))) with (ck + total_static_delivery s + d_ds (a_dem x)) in Hseg' by lia.
    apply (seg_insert_exact cap (ck + total_static_delivery s) A p B x Hseg Hhd Hst HL0). exact Hseg'.
Qed.

(* SingleDimLoad: has_demand_violation = None says exactly that the three tests pass *)
Lemma hdv_single_iff (r : groute SingleOps) pivot d st cap : gr_cap r = Some cap ->
  (has_demand_violation SingleOps r pivot (Some d) st = None <->
   AccZ cap (nth pivot (gs_past (gr_st r)) 0) (nth pivot (gs_fut (gr_st r)) 0) (nth pivot (gs_cur (gr_st r)) 0)
        (proj_demand SingleOps get_single (Some d))).
Proof.
  intros Hcap. unfold has_demand_violation. rewrite Hcap. unfold AccZ, st_at, d_change, g_change, get_single. cbn.
  set (P := nth pivot (gs_past (gr_st r)) 0). set (F := nth pivot (gs_fut (gr_st r)) 0). set (C := nth pivot (gs_cur (gr_st r)) 0).
  set (ds := g_ds d). set (ps := g_ps d). set (pd := g_pd d). set (dd := g_dd d).
  change (LT SingleOps) with Z in *.
  repeat match goal with |- context [if ?b then _ else _] => let E := fresh "E" in destruct b eqn:E end;
    (split; [intros H; try discriminate; repeat split; intros; lia | intros (A1 & A2 & A3); try reflexivity; exfalso; lia]).
Qed.

(* exactness, static demand of a single job (a delivery amount, a pickup amount, or both), SingleDimLoad: accepted iff every
   interval of the tour after the insertion satisfies the capacity statement (only the receiving interval changes) *)
Theorem mt_static_exact : forall t cap idx x d,
  mt_tour_ok SingleOps t ->
  IvlOk cap 0 (ivls (proj_tour SingleOps get_single t)) ->
  (idx < length t)%nat -> is_marker_act SingleOps x = false -> ga_multi x = false ->
  get_demand SingleOps x = Some d -> static_nonneg (proj_demand SingleOps get_single (Some d)) ->
  (forall y, In y (gs_cur (gr_st (accept_route_state SingleOps true (Some cap) t))) -> 0 <= y) ->
  (mt_evaluate_activity SingleOps PolicyLast (accept_route_state SingleOps true (Some cap) t) idx x = None
   <-> IvlOk cap 0 (ivls (proj_tour SingleOps get_single (ginsert_after t idx x)))).
Proof.
  intros t cap idx x d Hok Hf Hidx Hmx Hnm Hdx Hst Hnn.
  pose proof (heads_zero_proj SingleOps get_single t Hok) as Hhz. destruct Hok as [(a & r & -> & Ha) Hm].
  assert (Hmk : is_marker_act SingleOps a = false) by (unfold is_marker_act; rewrite Ha; reflexivity).
  assert (Hwf : tour_wf SingleOps (fun _ => True) (a :: r)).
  { apply Forall_forall. intros b _. unfold act_wf, dem_wf. destruct (ga_dem b); auto. }
  destruct (mt_states_ref SingleOps get_single _ hom_single a r (Some cap) Hmk Hwf) as (Rc & Rp & Rf).
  assert (Hid : forall l : list Z, map get_single l = l) by (intros l; unfold get_single; apply map_id).
  rewrite !Hid in *.
  unfold mt_evaluate_activity. rewrite Hmx. unfold cap_evaluate_activity. rewrite Hdx, Hnm.
  set (rt := accept_route_state SingleOps true (Some cap) (a :: r)) in *.
  rewrite (hdv_single_iff rt idx d _ cap eq_refl). rewrite Rc, Rp, Rf. rewrite Rc in Hnn.
  unfold proj_tour. rewrite proj_ins. fold (proj_tour SingleOps get_single (a :: r)).
  assert (Hdem : a_dem (proj_act SingleOps get_single x) = proj_demand SingleOps get_single (Some d)) by (unfold proj_act; cbn [a_dem]; rewrite Hdx; reflexivity).
  rewrite <- Hdem in *.
  apply insertion_exact_Z; try assumption.
  - unfold proj_tour. rewrite map_length. exact Hidx.
  - rewrite proj_is_reload. exact Hmx.
Qed.

(* ---- E4. the multi-dimensional test is the conjunction of the one-dimensional tests ---- *)
Theorem md_violation_pointwise (r : groute MultiOps) pivot d st cap :
  gr_cap r = Some cap -> ml_wf cap ->
  Forall ml_wf (gs_cur (gr_st r)) -> Forall ml_wf (gs_past (gr_st r)) -> Forall ml_wf (gs_fut (gr_st r)) ->
  dem_wf MultiOps ml_wf (Some d) ->
  (* the states are within the capacity (as they are for a tour that satisfies the capacity statement) *)
  (forall k, (k < LOAD_DIMENSION_SIZE)%nat ->
     ml_get (st_at MultiOps (gs_past (gr_st r)) pivot) k <= ml_get cap k /\
     ml_get (st_at MultiOps (gs_fut (gr_st r)) pivot) k <= ml_get cap k /\
     ml_get (st_at MultiOps (gs_cur (gr_st r)) pivot) k <= ml_get cap k) ->
  (has_demand_violation MultiOps r pivot (Some d) st = None <->
   forall k, (k < LOAD_DIMENSION_SIZE)%nat ->
     AccZ (ml_get cap k) (ml_get (st_at MultiOps (gs_past (gr_st r)) pivot) k) (ml_get (st_at MultiOps (gs_fut (gr_st r)) pivot) k)
          (ml_get (st_at MultiOps (gs_cur (gr_st r)) pivot) k) (proj_demand MultiOps (get_dim k) (Some d))).
Proof.
  intros Hcap Wcap Wc Wp Wf Wd Hin. split.
  - intros Hv k Hk. pose proof (hdv_none_acc MultiOps (get_dim k) ml_wf (hom_multi k Hk) r pivot d st cap Hcap Wcap Wc Wp Wf Wd Hv) as H.
    destruct (st_at_get MultiOps (get_dim k) ml_wf (hom_multi k Hk) _ pivot Wc) as [_ Gc].
    destruct (st_at_get MultiOps (get_dim k) ml_wf (hom_multi k Hk) _ pivot Wp) as [_ Gp].
    destruct (st_at_get MultiOps (get_dim k) ml_wf (hom_multi k Hk) _ pivot Wf) as [_ Gf].
    unfold get_dim in Gc, Gp, Gf at 1. rewrite Gc, Gp, Gf. exact H.
  - intros Hall. destruct Wd as (W1 & W2 & W3 & W4).
    destruct (st_at_get MultiOps (get_dim 0) ml_wf (hom_multi 0 ltac:(unfold LOAD_DIMENSION_SIZE; lia)) _ pivot Wc) as [Wc' _].
    destruct (st_at_get MultiOps (get_dim 0) ml_wf (hom_multi 0 ltac:(unfold LOAD_DIMENSION_SIZE; lia)) _ pivot Wp) as [Wp' _].
    destruct (st_at_get MultiOps (get_dim 0) ml_wf (hom_multi 0 ltac:(unfold LOAD_DIMENSION_SIZE; lia)) _ pivot Wf) as [Wf' _].
    assert (Wchg : ml_wf (g_change MultiOps d)) by (unfold g_change; cbn; apply ml_wf_sub, ml_wf_sub, ml_wf_add; exact W1).
    assert (Gchg : forall k, (k < LOAD_DIMENSION_SIZE)%nat -> ml_get (g_change MultiOps d) k = d_change (proj_demand MultiOps (get_dim k) (Some d))).
    { intros k Hk. unfold g_change, d_change, get_dim. cbn [MultiOps l_add l_sub proj_demand d_ps d_pd d_ds d_dd].
      rewrite !ml_get_sub, ml_get_add; try assumption; try reflexivity.
      - apply ml_wf_add; assumption.
      - apply ml_wf_sub, ml_wf_add; assumption. }
    unfold has_demand_violation. rewrite Hcap. cbn [MultiOps l_is_not_empty l_can_fit l_add].
    set (P := st_at MultiOps (gs_past (gr_st r)) pivot) in *. set (F := st_at MultiOps (gs_fut (gr_st r)) pivot) in *.
    set (C := st_at MultiOps (gs_cur (gr_st r)) pivot) in *.
    assert (F1 : ml_can_fit cap (ml_add P (g_ds d)) = true).
    { apply ml_can_fit_iff; [exact Wcap|apply ml_wf_add; exact Wp'|]. intros k Hk. rewrite ml_get_add by assumption.
      destruct (Hall k Hk) as (A1 & _). destruct (Hin k Hk) as (I1 & _). cbn [proj_demand d_ds] in A1. unfold get_dim in A1.
      destruct (Z.eq_dec (ml_get (g_ds d) k) 0) as [e|n]; [lia|specialize (A1 n); lia]. }
    assert (F2 : ml_can_fit cap (ml_add F (g_ps d)) = true).
    { apply ml_can_fit_iff; [exact Wcap|apply ml_wf_add; exact Wf'|]. intros k Hk. rewrite ml_get_add by assumption.
      destruct (Hall k Hk) as (_ & A2 & _). destruct (Hin k Hk) as (_ & I2 & _). cbn [proj_demand d_ps] in A2. unfold get_dim in A2.
      destruct (Z.eq_dec (ml_get (g_ps d) k) 0) as [e|n]; [lia|specialize (A2 n); lia]. }
    assert (F3 : ml_can_fit cap (ml_add F (g_change MultiOps d)) = true).
    { apply ml_can_fit_iff; [exact Wcap|apply ml_wf_add; exact Wf'|]. intros k Hk. rewrite ml_get_add by assumption. rewrite (Gchg k Hk).
      destruct (Hall k Hk) as (_ & _ & A3). destruct (Hin k Hk) as (_ & I2 & _).
      destruct (Z.eq_dec (d_change (proj_demand MultiOps (get_dim k) (Some d))) 0) as [e|n]; [lia|destruct (A3 n); lia]. }
    assert (F4 : ml_can_fit cap (ml_add C (g_change MultiOps d)) = true).
    { apply ml_can_fit_iff; [exact Wcap|apply ml_wf_add; exact Wc'|]. intros k Hk. rewrite ml_get_add by assumption. rewrite (Gchg k Hk).
      destruct (Hall k Hk) as (_ & _ & A3). destruct (Hin k Hk) as (_ & _ & I3).
      destruct (Z.eq_dec (d_change (proj_demand MultiOps (get_dim k) (Some d))) 0) as [e|n]; [lia|destruct (A3 n); lia]. }
    rewrite F1, F2, F3, F4. cbn [negb]. rewrite !andb_false_r. destruct (ml_is_not_empty (g_change MultiOps d)); reflexivity.
Qed.

(* ---- E5. reload marker insertion ---- *)
Lemma ivls_locate_reload : forall t idx, (idx < length t)%nat ->
  exists S1 A p B S2,
    ivls t = S1 ++ (A ++ p :: B) :: S2 /\ (length (concat S1) + length A = idx)%nat /\
    forall x, is_reload x = true -> ivls (ins t idx x) = S1 ++ (A ++ [p]) :: (x :: B) :: S2.
Proof.
  induction t as [|a r IH]; intros idx Hidx; cbn [length] in Hidx; [lia|].
  destruct (ivls_cons a r) as (s0 & rest & E & Ea). destruct idx as [|i].
  - assert (Hx : forall x, is_reload x = true -> ivls (ins (a :: r) 0 x) = if is_reload a then [] :: [a] :: (x :: s0) :: rest else [a] :: (x :: s0) :: rest).
    { intros x Hx. unfold ins. cbn [firstn skipn app]. destruct (ivls_cons a (x :: r)) as (s1 & rest1 & E1 & ->).
      destruct (ivls_cons x r) as (s2 & rest2 & E2 & E3). rewrite E in E2. injection E2 as <- <-. rewrite Hx in E3. rewrite E3 in E1.
      injection E1 as <- <-. reflexivity. }
    destruct (is_reload a) eqn:Ra.
    + exists [[]], [], a, s0, rest. rewrite Ea. split; [reflexivity|]. split; [reflexivity|]. intros x Hxr. rewrite (Hx x Hxr). reflexivity.
    + exists [], [], a, s0, rest. rewrite Ea. split; [reflexivity|]. split; [reflexivity|]. intros x Hxr. rewrite (Hx x Hxr). reflexivity.
  - destruct (IH i) as (S1 & A & p & B & S2 & Ei & Hl & Hins); [lia|]. rewrite E in Ei.
    assert (Hins' : forall x, is_reload x = true -> exists s1 rest1, ivls (ins r i x) = s1 :: rest1 /\
              ivls (ins (a :: r) (S i) x) = if is_reload a then [] :: (a :: s1) :: rest1 else (a :: s1) :: rest1).
    { intros x Hx. change (ins (a :: r) (S i) x) with (a :: ins r i x). apply ivls_cons. }
    destruct S1 as [|s1 S1'].
    + cbn [app] in Ei. injection Ei as -> ->. cbn [concat length] in Hl. destruct (is_reload a) eqn:Ra.
      * exists [[]], (a :: A), p, B, S2. rewrite Ea. split; [reflexivity|]. split; [cbn [concat app length]; lia|]. intros x Hx.
        destruct (Hins' x Hx) as (s1 & rest1 & E1 & ->). rewrite (Hins x Hx) in E1. cbn [app] in E1. injection E1 as <- <-. reflexivity.
      * exists [], (a :: A), p, B, S2. rewrite Ea. split; [reflexivity|]. split; [cbn [concat app length]; lia|]. intros x Hx.
        destruct (Hins' x Hx) as (s1 & rest1 & E1 & ->). rewrite (Hins x Hx) in E1. cbn [app] in E1. injection E1 as <- <-. reflexivity.
    + cbn [app] in Ei. injection Ei as -> ->. cbn [concat] in Hl. rewrite app_length in Hl. destruct (is_reload a) eqn:Ra.
      * exists ([] :: (a :: s1) :: S1'), A, p, B, S2. rewrite Ea. split; [reflexivity|]. split; [cbn [concat app length]; rewrite app_length; lia|].
        intros x Hx. destruct (Hins' x Hx) as (s1' & rest1 & E1 & ->). rewrite (Hins x Hx) in E1. cbn [app] in E1. injection E1 as <- <-. reflexivity.
      * exists ((a :: s1) :: S1'), A, p, B, S2. rewrite Ea. split; [reflexivity|]. split; [cbn [concat app length]; rewrite app_length; lia|].
        intros x Hx. destruct (Hins' x Hx) as (s1' & rest1 & E1 & ->). rewrite (Hins x Hx) in E1. cbn [app] in E1. injection E1 as <- <-. reflexivity.
Qed.

Definition static_amounts_nonneg (t : list act) : Prop := Forall (fun a => 0 <= d_ds (a_dem a) /\ 0 <= d_ps (a_dem a)) t.
Lemma tsd_nonneg s : static_amounts_nonneg s -> 0 <= total_static_delivery s.
Proof. unfold static_amounts_nonneg, total_static_delivery. induction 1 as [|a s [H1 _] _ IH]; cbn [fold_right]; lia. Qed.
Lemma tsp_nonneg s : static_amounts_nonneg s -> 0 <= total_static_pickup s.
Proof. unfold static_amounts_nonneg, total_static_pickup. induction 1 as [|a s [_ H2] _ IH]; cbn [fold_right]; lia. Qed.

(* a reload activity without demand, inserted at ANY position, splits its interval into two that satisfy the capacity statement;
   what was picked up by a shipment before the reload stays on board (it is carried over by the specification too), static
   pickups of the left part are unloaded, static deliveries of the right part are loaded only at the reload *)
Theorem reload_insertion_Z cap t idx m :
  IvlOk cap 0 (ivls t) -> (idx < length t)%nat -> is_reload m = true -> a_dem m = dzero -> static_amounts_nonneg t ->
  IvlOk cap 0 (ivls (ins t idx m)).
Proof.
  intros Hok Hidx Hm Hdm Hnn. destruct (ivls_locate_reload t idx Hidx) as (S1 & A & p & B & S2 & E & Hl & Hins). rewrite (Hins m Hm).
  assert (Hsub : forall y, In y (A ++ p :: B) -> In y t).
  { intros y Hy. rewrite <- (ivls_concat t), E. apply in_concat. exists (A ++ p :: B). split; [apply in_or_app; right; left; reflexivity|exact Hy]. }
  assert (HnnB : static_amounts_nonneg B).
  { apply Forall_forall. intros y Hy. unfold static_amounts_nonneg in Hnn. rewrite Forall_forall in Hnn. apply Hnn, Hsub. apply in_or_app. right. right. exact Hy. }
  assert (HnnA : static_amounts_nonneg (A ++ [p])).
  { apply Forall_forall. intros y Hy. unfold static_amounts_nonneg in Hnn. rewrite Forall_forall in Hnn. apply Hnn, Hsub.
    apply in_app_or in Hy. apply in_or_app. destruct Hy as [Hy|[<-|[]]]; [left; exact Hy|right; left; reflexivity]. }
  pose proof (tsd_nonneg B HnnB) as HdB. pose proof (tsp_nonneg _ HnnA) as HpA.
  rewrite E in Hok. apply IvlOk_app in Hok. destruct Hok as [Hok1 Hok2]. cbn [IvlOk] in Hok2. cbv zeta in Hok2. destruct Hok2 as [Hseg Hpost].
  apply IvlOk_app. split; [exact Hok1|]. cbn [IvlOk]. cbv zeta. set (ck := carry_after 0 S1) in *.
  replace (A ++ p :: B) with ((A ++ [p]) ++ B) in Hseg, Hpost by (rewrite <- app_assoc; reflexivity).
  rewrite total_static_delivery_app in Hseg, Hpost. rewrite total_static_pickup_app, load_after_app in Hpost.
  apply IntervalOk_currents in Hseg. destruct Hseg as [Hs0 Hs]. rewrite currents_app, sumch_load_after in Hs. apply Forall_app in Hs as [HsA HsB].
  set (tA := total_static_delivery (A ++ [p])) in *. set (tB := total_static_delivery B) in *.
  set (pA := total_static_pickup (A ++ [p])) in *. set (pB := total_static_pickup B) in *.
  set (c := load_after (ck + (tA + tB)) (A ++ [p])) in *.
  assert (Ec : load_after (ck + tA) (A ++ [p]) = c - tB).
  { unfold c. replace (ck + (tA + tB)) with (ck + tA + tB) by lia. rewrite (load_after_shift (A ++ [p]) (ck + tA) tB). lia. }
  assert (Hc : c <= cap).
  { destruct (seg_cA_shape (ck + (tA + tB)) A p) as (X & HX & _). fold c in HX. rewrite HX in HsA. apply Forall_app in HsA as [_ HsA]. inversion HsA; assumption. }
  assert (EtmB : total_static_delivery (m :: B) = tB) by (unfold total_static_delivery; cbn [fold_right]; rewrite Hdm; cbn; fold (total_static_delivery B); reflexivity).
  assert (EpmB : total_static_pickup (m :: B) = pB) by (unfold total_static_pickup; cbn [fold_right]; rewrite Hdm; cbn; fold (total_static_pickup B); reflexivity).
  split; [|split].
  - apply IntervalOk_currents. split; [lia|]. replace (ck + tA) with (ck + (tA + tB) + (- tB)) by lia. rewrite currents_shift.
    apply Forall_map_iff. eapply Forall_impl; [|exact HsA]. cbn. intros; lia.
  - rewrite Ec, EtmB. replace (c - tB - pA + tB) with (c + (- pA)) by lia.
    apply IntervalOk_currents. split; [lia|]. cbn [currents]. rewrite Hdm. change (d_change dzero) with 0. rewrite Z.add_0_r.
    constructor; [lia|]. rewrite currents_shift.
    apply Forall_map_iff. eapply Forall_impl; [|exact HsB]. cbn. intros; lia.
  - rewrite Ec, EtmB, EpmB. replace (c - tB - pA + tB) with (c + (- pA)) by lia.
    cbn [load_after]. rewrite Hdm. change (d_change dzero) with 0. rewrite Z.add_0_r. rewrite load_after_shift.
    replace (load_after c B + - pA - pB) with (load_after c B - (pA + pB)) by lia. exact Hpost.
Qed.

Section Marker.
Variable O : load_ops.
Variable get : LT O -> Z.
Variable wf : LT O -> Prop.
Hypothesis HH : load_hom O get wf.

Theorem mt_marker_insertion_sound_dim : forall t cap idx m,
  IvlOk (get cap) 0 (ivls (proj_tour O get t)) -> (idx < length t)%nat ->
  is_marker_act O m = true -> ga_dem m = None -> static_amounts_nonneg (proj_tour O get t) ->
  IvlOk (get cap) 0 (ivls (proj_tour O get (ginsert_after t idx m))).
Proof.
  intros t cap idx m Hok Hidx Hm Hd Hnn. unfold proj_tour. rewrite proj_ins. fold (proj_tour O get t).
  apply reload_insertion_Z; try assumption.
  - unfold proj_tour. rewrite map_length. exact Hidx.
  - rewrite proj_is_reload. exact Hm.
  - unfold proj_act. cbn [a_dem]. unfold get_demand. rewrite Hd. destruct (is_terminal (ga_core m)); reflexivity.
Qed.

(* what the code checks for a marker activity (MarkerInsertionPolicy::Last; a marker job has no demand): the previous activity is a
   job activity (not the vehicle start) and the next one, if any, is the vehicle end *)
Theorem mt_marker_accept_iff : forall (r : groute O) idx m,
  is_marker_act O m = true -> ga_dem m = None ->
  (mt_evaluate_activity O PolicyLast r idx m = None <->
   (exists p, nth_error (gr_acts r) idx = Some p /\ is_terminal (ga_core p) = false) /\
   (forall n, nth_error (gr_acts r) (S idx) = Some n -> is_terminal (ga_core n) = true)).
Proof.
  intros r idx m Hm Hd. unfold mt_evaluate_activity. rewrite Hm.
  assert (Hcap : cap_evaluate_activity O r idx m = None).
  { unfold cap_evaluate_activity, get_demand. rewrite Hd. replace (if is_terminal (ga_core m) then None else None) with (@None (gdemand (LT O))) by (destruct (is_terminal (ga_core m)); reflexivity).
    destruct (ga_multi m); [|reflexivity].
    replace (can_handle_demand_on_intervals O r None (Some idx)) with true; [reflexivity|].
    unfold can_handle_demand_on_intervals. cbn [has_demand_violation is_none]. destruct (gr_ivs r); [|reflexivity].
    symmetry. apply forallb_forall. intros; reflexivity. }
  rewrite Hcap. destruct (nth_error (gr_acts r) idx) as [p|] eqn:Ep; destruct (nth_error (gr_acts r) (S idx)) as [n|] eqn:En.
  - destruct (is_terminal (ga_core p)) eqn:Tp; destruct (is_terminal (ga_core n)) eqn:Tn; cbn [negb orb]; split; try discriminate; try reflexivity.
    + intros [(q & Hq & Hq') _]. injection Hq as <-. congruence.
    + intros [(q & Hq & Hq') _]. injection Hq as <-. congruence.
    + intros _. split; [exists p; auto|]. intros n' Hn'. injection Hn' as <-. exact Tn.
    + intros [_ H]. specialize (H n eq_refl). congruence.
  - destruct (is_terminal (ga_core p)) eqn:Tp; cbn [negb orb]; split; try discriminate; try reflexivity.
    + intros [(q & Hq & Hq') _]. injection Hq as <-. congruence.
    + intros _. split; [exists p; auto|]. intros n' Hn'. discriminate.
  - cbn [orb]. split; [discriminate|]. intros [(q & Hq & _) _]. discriminate.
  - cbn [orb]. split; [discriminate|]. intros [(q & Hq & _) _]. discriminate.
Qed.
End Marker.

(* ---- E6. examples: two intervals, a shipment carried across the reload, two capacity dimensions ---- *)
Definition exg (job : Z) (marker multi : bool) (dem : option (gdemand mload)) : gact MultiOps :=
  @mkGA MultiOps (mkAct job 0 0 0 1000 dzero 0 0) marker multi dem.
Definition exd (ps pd ds dd : list Z) : option (gdemand mload) := Some (mkGD (ml_of ps) (ml_of pd) (ml_of ds) (ml_of dd)).
(* start; delivery (4,1); shipment 9 picked up (3,1); RELOAD; delivery (5,2); shipment 9 delivered (3,1); end *)
Definition ex_mt_tour : list (gact MultiOps) :=
  [exg (-1) false false None; exg 1 false false (exd [] [] [4; 1] []); exg 9 false true (exd [] [3; 1] [] []);
   exg 50 true false None; exg 3 false false (exd [] [] [5; 2] []); exg 9 false true (exd [] [] [] [3; 1]); exg (-1) false false None].
Definition ex_mt_cap : mload := ml_of [10; 5].
(* a second shipment's pickup, part of a multi job *)
Definition ex_mt_pick (q : list Z) : gact MultiOps := exg 8 false true (exd [] q [] []).

Lemma ex_mt_facts :
  mt_tour_ok MultiOps ex_mt_tour /\ ml_tour_wf ex_mt_tour /\ ml_wf ex_mt_cap /\
  get_route_intervals MultiOps ex_mt_tour = [(0, 2); (3, 6)]%nat /\
  (forall d, (d < LOAD_DIMENSION_SIZE)%nat -> IvlOk (ml_get ex_mt_cap d) 0 (ivls (proj_tour MultiOps (get_dim d) ex_mt_tour))) /\
  ivl_loads_of (proj_tour MultiOps (get_dim 0) ex_mt_tour) = [4; 0; 3; 8; 3; 0; 0] /\
  (* (2,1) more fits everywhere: accepted in front of the reload, the parcel is carried across it *)
  mt_evaluate_activity MultiOps PolicyLast (accept_route_state MultiOps true (Some ex_mt_cap) ex_mt_tour) 1 (ex_mt_pick [2; 1]) = None /\
  ivl_loads_of (proj_tour MultiOps (get_dim 0) (ginsert_after ex_mt_tour 1 (ex_mt_pick [2; 1]))) = [4; 0; 2; 5; 10; 5; 2; 2] /\
  (* (3,1) more fits in the first interval but not in the second one (8 + 3 > 10): rejected although the insertion position lies
     in the first interval *)
  mt_evaluate_activity MultiOps PolicyLast (accept_route_state MultiOps true (Some ex_mt_cap) ex_mt_tour) 1 (ex_mt_pick [3; 1]) = Some false /\
  ivl_load_feasible 10 (proj_tour MultiOps (get_dim 0) (ginsert_after ex_mt_tour 1 (ex_mt_pick [3; 1]))) = false.
Proof.
  split; [|split; [|split; [|split; [|split; [|split; [|split; [|split; [|split]]]]]]]].
  - split; [eexists; eexists; split; reflexivity|]. repeat constructor; cbn; intros; try reflexivity; discriminate.
  - repeat constructor.
  - reflexivity.
  - vm_compute. reflexivity.
  - intros d Hd. apply ivl_feasible_iff. unfold LOAD_DIMENSION_SIZE in Hd.
    do 8 (destruct d as [|d]; [vm_compute; reflexivity|]). lia.
  - vm_compute. reflexivity.
  - vm_compute. reflexivity.
  - vm_compute. reflexivity.
  - vm_compute. reflexivity.
  - vm_compute. reflexivity.
Qed.

(* ---- E7. finding C06-F4: the hypothesis "a target outside a multi job carries no dynamic pickup" is needed ---- *)
Definition exs (job : Z) (marker multi : bool) (dem : option (gdemand Z)) : gact SingleOps :=
  @mkGA SingleOps (mkAct job 0 0 0 1000 dzero 0 0) marker multi dem.
(* start; delivery 1; RELOAD; delivery 4; end — capacity 4 *)
Definition ex_f4_tour : list (gact SingleOps) :=
  [exs (-1) false false None; exs 1 false false (Some (mkGD 0 0 1 0)); exs 50 true false None;
   exs 2 false false (Some (mkGD 0 0 4 0)); exs (-1) false false None].
(* a stand-alone job (not part of a multi job) with dynamic pickup 1 *)
Definition ex_f4_job (multi : bool) : gact SingleOps := exs 96 false multi (Some (mkGD 0 1 0 0)).

Lemma standalone_dynamic_pickup_refuted :
  exists t cap idx x,
    mt_tour_ok SingleOps t /\ IvlOk cap 0 (ivls (proj_tour SingleOps get_single t)) /\ (idx < length t)%nat /\
    is_marker_act SingleOps x = false /\ simple_demand (a_dem (proj_act SingleOps get_single x)) /\ ga_multi x = false /\
    mt_evaluate_activity SingleOps PolicyLast (accept_route_state SingleOps true (Some cap) t) idx x = None /\
    ~ IvlOk cap 0 (ivls (proj_tour SingleOps get_single (ginsert_after t idx x))) /\
    ivl_loads_of (proj_tour SingleOps get_single (ginsert_after t idx x)) = [1; 0; 1; 5; 1; 1] /\
    (* the same demand as part of a multi job is rejected there *)
    mt_evaluate_activity SingleOps PolicyLast (accept_route_state SingleOps true (Some cap) t) idx (ex_f4_job true) = Some false.
Proof.
  exists ex_f4_tour, 4, 1%nat, (ex_f4_job false).
  split; [split; [eexists; eexists; split; reflexivity|repeat constructor; cbn; intros; try reflexivity; discriminate]|].
  split; [apply ivl_feasible_iff; vm_compute; reflexivity|].
  split; [cbn; lia|]. split; [reflexivity|]. split; [unfold simple_demand; cbn; lia|]. split; [reflexivity|].
  split; [vm_compute; reflexivity|]. split; [|split; vm_compute; reflexivity].
  intros H. apply ivl_feasible_iff in H. vm_compute in H. discriminate.
Qed.

(* ---- E8. remove_trivial_markers: the obsolete-interval test is sufficient for merging two intervals ---- *)
Lemma cutb_unmarked {A} (m : A -> bool) : forall s, seg_tail_ok m s -> cutb m s = [s].
Proof.
  induction s as [|a s IH]; intros H; [reflexivity|]. unfold seg_tail_ok in *. cbn [forallb] in H. apply andb_true_iff in H. destruct H as [Ha Hs].
  destruct (cutb_cons m a s) as (s0 & rest & E & ->). rewrite (IH Hs) in E. injection E as <- <-. apply negb_true_iff in Ha. rewrite Ha. reflexivity.
Qed.
Lemma cutb_of_segs {A} (m : A -> bool) : forall rest s0, seg_tail_ok m s0 -> Forall (seg_later_ok m) rest ->
  cutb m (s0 ++ concat rest) = s0 :: rest.
Proof.
  induction rest as [|s1 rest IH]; intros s0 H0 Hr.
  - cbn [concat]. rewrite app_nil_r. apply cutb_unmarked. exact H0.
  - inversion Hr as [|? ? (a & s' & -> & Ha & Hs') Hr']; subst. cbn [concat].
    change ((a :: s') ++ concat rest) with (a :: s' ++ concat rest).
    induction s0 as [|b s0 IHs].
    + cbn [app]. destruct (cutb_cons m a (s' ++ concat rest)) as (x & r & E & ->). rewrite (IH s' Hs' Hr') in E. injection E as <- <-.
      rewrite Ha. reflexivity.
    + unfold seg_tail_ok in H0. cbn [forallb] in H0. apply andb_true_iff in H0. destruct H0 as [Hb H0].
      cbn [app]. destruct (cutb_cons m b (s0 ++ a :: s' ++ concat rest)) as (x & r & E & ->). rewrite (IHs H0) in E. injection E as <- <-.
      apply negb_true_iff in Hb. rewrite Hb. reflexivity.
Qed.

Lemma remove_at_concat {A} (S1 : list (list A)) sl (m : A) sr S2 :
  remove_at (length (concat S1) + length sl) (concat (S1 ++ sl :: (m :: sr) :: S2)) = concat (S1 ++ (sl ++ sr) :: S2).
Proof.
  unfold remove_at. rewrite !concat_app. cbn [concat]. 
  replace (concat S1 ++ sl ++ (m :: sr) ++ concat S2) with ((concat S1 ++ sl) ++ m :: (sr ++ concat S2)) by (rewrite <- !app_assoc; reflexivity).
  rewrite firstn_app, firstn_all2 by (rewrite app_length; lia).
  replace (length (concat S1) + length sl - length (concat S1 ++ sl))%nat with 0%nat by (rewrite app_length; lia). cbn [firstn]. rewrite app_nil_r.
  replace (S (length (concat S1) + length sl)) with (length (concat S1 ++ sl) + 1)%nat by (rewrite app_length; lia).
  rewrite skipn_plus, skipn_app_exact by reflexivity. cbn [skipn]. rewrite <- !app_assoc. reflexivity.
Qed.

Lemma ivls_remove_marker t S1 sl m sr S2 : ivls t = S1 ++ sl :: (m :: sr) :: S2 ->
  ivls (remove_at (length (concat S1) + length sl) t) = S1 ++ (sl ++ sr) :: S2.
Proof.
  intros E. rewrite <- (ivls_concat t) at 1. rewrite E, remove_at_concat. rewrite ivls_cutb in *.
  destruct (cutb_shape is_reload t) as (s0 & rest & E0 & H0 & Hr). rewrite E0 in E.
  destruct S1 as [|s1 S1']; cbn [app] in E; injection E as -> ->.
  - cbn [app concat]. inversion Hr as [|? ? (a & s' & Ea & Ha & Hs') Hr']; subst. injection Ea as <- <-.
    apply cutb_of_segs; [|exact Hr']. unfold seg_tail_ok in *. rewrite forallb_app, H0, Hs'. reflexivity.
  - cbn [app concat]. apply cutb_of_segs; [exact H0|].
    apply Forall_app in Hr. destruct Hr as [H1 H2]. inversion H2 as [|? ? (a & sl' & -> & Ha & Hsl') H3]; subst.
    inversion H3 as [|? ? (b & s' & Eb & Hb & Hs') H4]; subst. injection Eb as <- <-.
    apply Forall_app. split; [exact H1|]. constructor; [|exact H4]. exists a, (sl' ++ sr). split; [reflexivity|]. split; [exact Ha|].
    unfold seg_tail_ok in *. rewrite forallb_app, Hsl', Hs'. reflexivity.
Qed.

(* merging the interval sl with the following interval m :: sr (m a reload without demand): the loads of sl grow by the static
   deliveries of sr, the loads of sr by the static pickups of sl; the carried load behind them does not change *)
Lemma merge_segments_ok cap ck sl m sr :
  a_dem m = dzero ->
  let L0l := ck + total_static_delivery sl in
  let carry_r := load_after L0l sl - total_static_pickup sl in
  let L0r := carry_r + total_static_delivery (m :: sr) in
  (forall y, In y (L0l :: currents L0l sl) -> y + total_static_delivery sr <= cap) ->
  (forall y, In y (currents L0r (m :: sr)) -> y + total_static_pickup sl <= cap) ->
  IntervalOk cap (ck + total_static_delivery (sl ++ sr)) (sl ++ sr) /\
  seg_next ck (sl ++ sr) = seg_next carry_r (m :: sr).
Proof.
  intros Hm L0l carry_r L0r Hl Hr.
  assert (Etm : total_static_delivery (m :: sr) = total_static_delivery sr) by (unfold total_static_delivery; cbn [fold_right]; rewrite Hm; reflexivity).
  assert (Epm : total_static_pickup (m :: sr) = total_static_pickup sr) by (unfold total_static_pickup; cbn [fold_right]; rewrite Hm; reflexivity).
  set (rd := total_static_delivery sr) in *. set (lp := total_static_pickup sl) in *. set (el := load_after L0l sl) in *.
  assert (EL0r : L0r = el - lp + rd) by (unfold L0r, carry_r; rewrite Etm; reflexivity).
  assert (Ecur : currents L0r (m :: sr) = L0r :: currents L0r sr).
  { cbn [currents]. rewrite Hm. change (d_change dzero) with 0. rewrite Z.add_0_r. reflexivity. }
  rewrite Ecur in Hr. split.
  - apply IntervalOk_currents. rewrite total_static_delivery_app. fold rd. replace (ck + (total_static_delivery sl + rd)) with (L0l + rd) by (unfold L0l; lia).
    split; [apply Hl; left; reflexivity|]. rewrite currents_app, sumch_load_after, load_after_shift. fold el.
    apply Forall_app. split.
    + rewrite currents_shift. apply Forall_map_iff. apply Forall_forall. intros y Hy. apply Hl. right. exact Hy.
    + replace (el + rd) with (L0r + lp) by lia. rewrite currents_shift. apply Forall_map_iff. apply Forall_forall. intros y Hy. apply Hr. right. exact Hy.
  - unfold seg_next, seg_L0. rewrite total_static_delivery_app, total_static_pickup_app, load_after_app. fold rd lp.
    replace (ck + (total_static_delivery sl + rd)) with (L0l + rd) by (unfold L0l; lia). rewrite load_after_shift. fold el.
    fold L0r. rewrite Epm. cbn [load_after]. rewrite Hm. change (d_change dzero) with 0. rewrite Z.add_0_r.
    replace (el + rd) with (L0r + lp) by lia. rewrite load_after_shift. lia.
Qed.

Theorem marker_removal_Z cap t S1 sl m sr S2 :
  ivls t = S1 ++ sl :: (m :: sr) :: S2 -> a_dem m = dzero -> IvlOk cap 0 (ivls t) ->
  let ck := carry_after 0 S1 in
  (forall y, In y (seg_L0 ck sl :: seg_cs ck sl) -> y + total_static_delivery sr <= cap) ->
  (forall y, In y (seg_cs (seg_next ck sl) (m :: sr)) -> y + total_static_pickup sl <= cap) ->
  IvlOk cap 0 (ivls (remove_at (length (concat S1) + length sl) t)).
Proof.
  intros E Hm Hok ck Hl Hr. rewrite (ivls_remove_marker t S1 sl m sr S2 E). rewrite E in Hok.
  apply IvlOk_app in Hok. destruct Hok as [Hok1 Hok2]. cbn [IvlOk] in Hok2. cbv zeta in Hok2. destruct Hok2 as (_ & _ & Hpost).
  apply IvlOk_app. split; [exact Hok1|]. cbn [IvlOk]. cbv zeta. fold ck in Hpost |- *.
  destruct (merge_segments_ok cap ck sl m sr Hm Hl Hr) as [Hi Hn]. split; [exact Hi|].
  unfold seg_next, seg_L0 in Hn. rewrite Hn. exact Hpost.
Qed.

Section Removal.
Variable O : load_ops.
Variable get : LT O -> Z.
Variable wf : LT O -> Prop.
Hypothesis HH : load_hom O get wf.
Notation proj := (proj_act O get).
Notation mk := (is_marker_act O).

Lemma fold_demand_ds : forall sl acc, wf acc -> Forall (act_wf O wf) sl ->
  let r := fold_left (fun acc a => match get_demand O a with Some d => l_add O acc (g_ds d) | None => acc end) sl acc in
  wf r /\ get r = get acc + total_static_delivery (map proj sl).
Proof.
  induction sl as [|a sl IH]; intros acc Ha Hl; cbn [fold_left map].
  - cbn. unfold total_static_delivery. cbn. split; [assumption|lia].
  - inversion Hl as [|? ? Hwa Hl']; subst. pose proof (get_demand_wf O wf a Hwa) as Hd.
    unfold total_static_delivery. cbn [fold_right]. fold (total_static_delivery (map proj sl)). unfold proj_act at 1. cbn [a_dem].
    destruct (get_demand O a) as [d|]; cbn [proj_demand d_ds].
    + destruct Hd as (H1 & H2 & H3 & H4). destruct (IH (l_add O acc (g_ds d))) as (W & G); [apply (h_wf_add _ _ _ HH); assumption|assumption|].
      split; [exact W|]. rewrite G, (h_add _ _ _ HH) by assumption. lia.
    + destruct (IH acc Ha Hl') as (W & G). split; [exact W|]. rewrite G. cbn. lia.
Qed.
Lemma fold_demand_ps : forall sl acc, wf acc -> Forall (act_wf O wf) sl ->
  let r := fold_left (fun acc a => match get_demand O a with Some d => l_add O acc (g_ps d) | None => acc end) sl acc in
  wf r /\ get r = get acc + total_static_pickup (map proj sl).
Proof.
  induction sl as [|a sl IH]; intros acc Ha Hl; cbn [fold_left map].
  - cbn. unfold total_static_pickup. cbn. split; [assumption|lia].
  - inversion Hl as [|? ? Hwa Hl']; subst. pose proof (get_demand_wf O wf a Hwa) as Hd.
    unfold total_static_pickup. cbn [fold_right]. fold (total_static_pickup (map proj sl)). unfold proj_act at 1. cbn [a_dem].
    destruct (get_demand O a) as [d|]; cbn [proj_demand d_ps].
    + destruct Hd as (H1 & H2 & H3 & H4). destruct (IH (l_add O acc (g_ps d))) as (W & G); [apply (h_wf_add _ _ _ HH); assumption|assumption|].
      split; [exact W|]. rewrite G, (h_add _ _ _ HH) by assumption. lia.
    + destruct (IH acc Ha Hl') as (W & G). split; [exact W|]. rewrite G. cbn. lia.
Qed.

Lemma first_obsolete_bounds (r : groute O) : forall (segs : list (list (gact O))) off i,
  first_obsolete O r (bounds off segs) = Some i ->
  exists S1 sl sr S2, segs = S1 ++ sl :: sr :: S2 /\ i = (off + length (concat S1) + length sl)%nat /\
    is_obsolete_interval O r ((off + length (concat S1))%nat, (off + length (concat S1) + length sl - 1)%nat)
                             (i, (i + length sr - 1)%nat) = true.
Proof.
  induction segs as [|s rest IH]; intros off i H; cbn [bounds first_obsolete] in H; [discriminate|].
  destruct rest as [|s' rest']; cbn [bounds] in H; [discriminate|].
  destruct (is_obsolete_interval O r (off, (off + length s - 1)%nat) ((off + length s)%nat, (off + length s + length s' - 1)%nat)) eqn:Eo.
  - cbn [fst] in H. injection H as <-. exists [], s, s', rest'. cbn [app concat length]. rewrite !Nat.add_0_r. repeat split. exact Eo.
  - destruct (IH (off + length s)%nat i H) as (S1 & sl & sr & S2 & E & Ei & Hob). exists (s :: S1), sl, sr, S2. cbn [app concat]. rewrite app_length.
    split; [rewrite E; reflexivity|]. split; [lia|].
    replace (off + (length s + length (concat S1)))%nat with (off + length s + length (concat S1))%nat by lia. exact Hob.
Qed.

(* remove_trivial_markers: when the obsolete-interval test lets a reload go, every interval of the tour without it satisfies the
   capacity statement *)
Theorem mt_trivial_marker_removal_sound_dim : forall t cap i,
  mt_tour_ok O t -> tour_wf O wf t -> wf cap ->
  IvlOk (get cap) 0 (ivls (proj_tour O get t)) ->
  trivial_marker O (accept_route_state O true (Some cap) t) = Some i ->
  IvlOk (get cap) 0 (ivls (proj_tour O get (remove_at i t))).
Proof.
  intros t cap i Hok Hwf Wcap Hfeas Htm.
  pose proof (heads_zero_proj O get t Hok) as Hhz. destruct Hok as [(a & r & -> & Ha) Hm].
  assert (Hmk : mk a = false) by (unfold is_marker_act; rewrite Ha; reflexivity).
  destruct (mt_states_ref O get wf HH a r (Some cap) Hmk Hwf) as (_ & _ & Rf).
  destruct (mt_states_wf O get wf HH a r (Some cap) Hmk Hwf) as (_ & _ & Wf).
  set (rt := accept_route_state O true (Some cap) (a :: r)) in *.
  assert (Hivs : gr_ivs rt = Some (bounds 0 (cutb mk (a :: r)))).
  { unfold rt, accept_route_state. cbn [gr_ivs]. rewrite (route_intervals_bounds O a r Hmk). reflexivity. }
  unfold trivial_marker in Htm. destruct (has_markers O rt); [|discriminate]. rewrite Hivs in Htm.
  destruct (first_obsolete_bounds rt _ 0 i Htm) as (G1 & gl & gr & G2 & EG & Ei & Hob). cbn [plus] in Ei, Hob.
  (* the generic segments and their projections *)
  assert (Es : ivls (proj_tour O get (a :: r)) = map (map proj) (cutb mk (a :: r))).
  { rewrite ivls_cutb. unfold proj_tour. apply cutb_map. apply proj_is_reload. }
  rewrite EG in Es. rewrite map_app in Es. cbn [map] in Es.
  set (S1 := map (map proj) G1) in *. set (sl := map proj gl) in *. set (S2 := map (map proj) G2) in *.
  assert (Hshape : Forall (seg_later_ok mk) (gr :: G2)).
  { destruct (cutb_shape mk (a :: r)) as (s0 & rest & E0 & _ & Hr). rewrite EG in E0.
    destruct G1 as [|g1 G1']; cbn [app] in E0; injection E0 as _ <-; [exact Hr|]. apply Forall_app in Hr. destruct Hr as [_ Hr]. inversion Hr; assumption. }
  destruct (Forall_inv Hshape) as (gm & gsr & -> & Hgm & _).
  cbn [map] in Es. set (m := proj gm) in *. set (sr := map proj gsr) in *.
  assert (Hne : Forall (fun s => s <> []) (cutb mk (a :: r))) by (apply cutb_hd_nonempty; exact Hmk).
  rewrite EG in Hne. apply Forall_app in Hne. destruct Hne as [_ Hne]. pose proof (Forall_inv Hne) as Hgl.
  assert (Hconc : a :: r = concat G1 ++ gl ++ (gm :: gsr) ++ concat G2).
  { rewrite <- (cutb_concat mk (a :: r)), EG, concat_app. cbn [concat]. reflexivity. }
  assert (Hwfseg : Forall (Forall (act_wf O wf)) (cutb mk (a :: r))) by (apply Forall_cutb; exact Hwf).
  rewrite EG in Hwfseg. apply Forall_app in Hwfseg. destruct Hwfseg as [_ Hwfseg]. pose proof (Forall_inv Hwfseg) as Wgl. pose proof (Forall_inv (Forall_inv_tail Hwfseg)) as Wgr.
  assert (Lc : length (concat S1) = length (concat G1)).
  { unfold S1. rewrite <- concat_map, map_length. reflexivity. }
  assert (Ll : length sl = length gl) by apply map_length.
  (* the marker has no demand *)
  assert (Hdm : a_dem m = dzero).
  { unfold m, proj_act. cbn [a_dem]. unfold get_demand. rewrite Forall_forall in Hm.
    rewrite (Hm gm); [destruct (is_terminal (ga_core gm)); reflexivity| |exact Hgm].
    rewrite Hconc. apply in_or_app. right. apply in_or_app. right. apply in_or_app. left. left. reflexivity. }
  (* what the test says *)
  unfold is_obsolete_interval in Hob. cbn [gr_cap rt accept_route_state fst snd] in Hob.
  change (gr_cap rt) with (Some cap) in Hob. cbv iota in Hob.
  apply andb_true_iff in Hob. destruct Hob as [Hob1 Hob2].
  assert (Esl : slice (length (concat G1)) (length (concat G1) + length gl - 1) (a :: r) = gl).
  { rewrite Hconc. apply slice_app. exact Hgl. }
  assert (Esr : slice i (i + length (gm :: gsr) - 1) (a :: r) = gm :: gsr).
  { rewrite Hconc, Ei. replace (concat G1 ++ gl ++ (gm :: gsr) ++ concat G2) with ((concat G1 ++ gl) ++ (gm :: gsr) ++ concat G2) by (rewrite <- !app_assoc; reflexivity).
    rewrite <- app_length. apply slice_app. discriminate. }
  unfold fold_demand in Hob1, Hob2. change (gr_acts rt) with (a :: r) in Hob1, Hob2. rewrite Esl in Hob2. rewrite Esr in Hob1.
  destruct (fold_demand_ds (gm :: gsr) (l_default O) (h_wf_zero _ _ _ HH) Wgr) as (Wrd & Grd).
  destruct (fold_demand_ps gl (l_default O) (h_wf_zero _ _ _ HH) Wgl) as (Wlp & Glp).
  cbv zeta in Wrd, Grd, Wlp, Glp. rewrite (h_zero _ _ _ HH), Z.add_0_l in Grd, Glp.
  destruct (st_at_get O get wf HH _ (length (concat G1)) Wf) as [Wf1 Gf1]. destruct (st_at_get O get wf HH _ i Wf) as [Wf2 Gf2].
  apply (h_fit _ _ _ HH) in Hob1; [|exact Wcap|apply (h_wf_add _ _ _ HH); assumption]. rewrite (h_add _ _ _ HH) in Hob1 by assumption.
  apply (h_fit _ _ _ HH) in Hob2; [|exact Wcap|apply (h_wf_add _ _ _ HH); assumption]. rewrite (h_add _ _ _ HH) in Hob2 by assumption.
  rewrite Gf1, Grd in Hob1. rewrite Gf2, Glp in Hob2. rewrite Rf, Es in Hob1, Hob2.
  fold sl in Hob2. change (map proj (gm :: gsr)) with (m :: sr) in Hob1.
  assert (Etd : total_static_delivery (m :: sr) = total_static_delivery sr) by (unfold total_static_delivery; cbn [fold_right]; rewrite Hdm; reflexivity).
  rewrite Etd in Hob1.
  (* locate the two state values *)
  assert (Hsl : sl <> []) by (unfold sl; destruct gl; [congruence|discriminate]).
  rewrite <- Lc in Hob1. rewrite <- (Nat.add_0_r (length (concat S1))) in Hob1.
  rewrite (ref_lists_nth seg_fs seg_fs_length S1 sl ((m :: sr) :: S2) 0 0) in Hob1 by (destruct sl; [congruence|cbn [length]; lia]).
  assert (Ei' : i = (length (concat (S1 ++ [sl])) + 0)%nat).
  { rewrite concat_app, app_length. cbn [concat]. rewrite app_nil_r. lia. }
  rewrite Ei' in Hob2. replace (S1 ++ sl :: (m :: sr) :: S2) with ((S1 ++ [sl]) ++ (m :: sr) :: S2) in Hob2 by (rewrite <- app_assoc; reflexivity).
  rewrite (ref_lists_nth seg_fs seg_fs_length (S1 ++ [sl]) (m :: sr) S2 0 0) in Hob2 by (cbn [length]; lia).
  assert (Eck : carry_after 0 (S1 ++ [sl]) = seg_next (carry_after 0 S1) sl).
  { clear. generalize 0. induction S1 as [|s S IH]; intros c; cbn [app carry_after]; [reflexivity|apply IH]. }
  rewrite Eck in Hob2. set (ck := carry_after 0 S1) in *.
  (* conclude *)
  unfold proj_tour. replace (map proj (remove_at i (a :: r))) with (remove_at i (proj_tour O get (a :: r))).
  2:{ unfold remove_at, proj_tour. rewrite map_app, firstn_map, skipn_map. reflexivity. }
  replace i with (length (concat S1) + length sl)%nat by lia.
  apply (marker_removal_Z (get cap) _ S1 sl m sr S2 Es Hdm Hfeas); fold ck.
  - intros y Hy. destruct sl as [|p B] eqn:Esl'; [congruence|].
    pose proof (seg_in_cB_le_fut (seg_L0 ck (p :: B)) [] p B) as HF. cbv zeta in HF. cbn [app length] in HF.
    unfold seg_fs in Hob1. cbv zeta in Hob1. unfold seg_cs in Hob1, Hy.
    assert (Hz : d_change (a_dem p) = 0).
    { pose proof (heads_zero_segs _ Hhz) as Hz. rewrite Es in Hz. rewrite Forall_forall in Hz.
      assert (Hin : In (p :: B) (S1 ++ (p :: B) :: (m :: sr) :: S2)) by (apply in_or_app; right; left; reflexivity).
      destruct (Hz (p :: B) Hin p) as [H|H]; [exact H|discriminate]. }
    assert (Ec : load_after (seg_L0 ck (p :: B)) [p] = seg_L0 ck (p :: B)) by (cbn [load_after]; lia).
    assert (Hy' : In y (load_after (seg_L0 ck (p :: B)) [p] :: currents (load_after (seg_L0 ck (p :: B)) [p]) B)).
    { destruct Hy as [<-|Hy]; [left; exact Ec|]. cbn [currents] in Hy. cbn [load_after]. exact Hy. }
    specialize (HF y Hy'). lia.
  - intros y Hy.
    pose proof (seg_in_cB_le_fut (seg_L0 (seg_next ck sl) (m :: sr)) [] m sr) as HF. cbv zeta in HF. cbn [app length] in HF.
    unfold seg_fs in Hob2. cbv zeta in Hob2. unfold seg_cs in Hob2, Hy.
    assert (Hy' : In y (load_after (seg_L0 (seg_next ck sl) (m :: sr)) [m] :: currents (load_after (seg_L0 (seg_next ck sl) (m :: sr)) [m]) sr)).
    { cbn [currents] in Hy. cbn [load_after]. exact Hy. }
    specialize (HF y Hy'). lia.
Qed.
End Removal.

(* ---- E9. the plain capacity feature (RouteIntervals::Single): a tour without marker activities ---- *)
Section NoReloads.
Variable O : load_ops.
Notation mk := (is_marker_act O).

Lemma no_marker_intervals : forall a r, forallb (fun b => negb (mk b)) (a :: r) = true ->
  get_route_intervals O (a :: r) = [(0%nat, (length (a :: r) - 1)%nat)].
Proof.
  intros a r H. assert (Ha : mk a = false) by (cbn [forallb] in H; apply andb_true_iff in H; destruct H as [H _]; apply negb_true_iff; exact H).
  rewrite (route_intervals_bounds O a r Ha). rewrite (cutb_unmarked mk (a :: r) H). reflexivity.
Qed.

(* with or without the reload feature the constraint evaluates such a tour in the same way *)
Lemma cap_evaluate_no_markers : forall a r cap idx x, forallb (fun b => negb (mk b)) (a :: r) = true -> (idx < length (a :: r))%nat ->
  cap_evaluate_activity O (accept_route_state O false cap (a :: r)) idx x = cap_evaluate_activity O (accept_route_state O true cap (a :: r)) idx x.
Proof.
  intros a r cap idx x H Hidx. unfold accept_route_state. rewrite (no_marker_intervals a r H).
  set (st := recalculate_states O [(0%nat, (length (a :: r) - 1)%nat)] (a :: r)).
  unfold cap_evaluate_activity, has_markers, can_handle_demand_on_intervals. cbn [gr_ivs length Nat.ltb Nat.leb].
  assert (E : forall p d s, has_demand_violation O (mkGR (a :: r) cap None st) p d s = has_demand_violation O (mkGR (a :: r) cap (Some [(0%nat, (length (a :: r) - 1)%nat)]) st) p d s) by reflexivity.
  destruct (ga_multi x); [|apply E].
  cbn [filter snd fst]. cbn [length] in Hidx.
  assert (El : (idx <=? S (length r) - 1)%nat = true) by (apply Nat.leb_le; lia). rewrite El.
  cbn [forallb fst]. rewrite Nat.max_0_r, andb_true_r. rewrite E. reflexivity.
Qed.
End NoReloads.

(* MultiDimLoad capacity without reloads, every dimension count: an accepted insertion keeps the load within the capacity at every
   point of the tour, in each dimension (the single-interval simulation of Spec/Feasible.v) *)
Theorem md_insertion_sound_no_reloads : forall t cap idx x,
  mt_tour_ok MultiOps t -> ml_tour_wf t -> act_wf MultiOps ml_wf x -> ml_wf cap ->
  forallb (fun b => negb (is_marker_act MultiOps b)) t = true ->
  (idx < length t)%nat -> is_marker_act MultiOps x = false ->
  mt_evaluate_activity MultiOps PolicyLast (accept_route_state MultiOps false (Some cap) t) idx x = None ->
  forall d, (d < LOAD_DIMENSION_SIZE)%nat ->
    load_feasible (ml_get cap d) (proj_tour MultiOps (get_dim d) t) = true ->
    simple_demand (a_dem (proj_act MultiOps (get_dim d) x)) ->
    (ga_multi x = false -> d_pd (a_dem (proj_act MultiOps (get_dim d) x)) = 0) ->
    load_feasible (ml_get cap d) (proj_tour MultiOps (get_dim d) (ginsert_after t idx x)) = true.
Proof.
  intros t cap idx x Hok Hwf Hwx Wcap Hnm Hidx Hmx Hev d Hd Hf Hsd Hdyn.
  assert (Hno : forall t', forallb (fun b => negb (is_marker_act MultiOps b)) t' = true ->
                forallb (fun b => negb (is_reload b)) (proj_tour MultiOps (get_dim d) t') = true).
  { intros t' H. unfold proj_tour. rewrite forallb_forall in *. intros y Hy. apply in_map_iff in Hy. destruct Hy as (b & <- & Hb).
    rewrite proj_is_reload. apply H. exact Hb. }
  assert (Hnm' : forallb (fun b => negb (is_marker_act MultiOps b)) (ginsert_after t idx x) = true).
  { unfold ginsert_after. rewrite forallb_app. cbn [forallb]. rewrite Hmx. cbn [negb andb].
    rewrite <- forallb_app, firstn_skipn. exact Hnm. }
  rewrite <- (ivl_load_feasible_single _ _ (Hno _ Hnm)) in Hf. rewrite <- (ivl_load_feasible_single _ _ (Hno _ Hnm')).
  apply ivl_feasible_iff. apply ivl_feasible_iff in Hf.
  destruct Hok as [(a & r & -> & Ha) Hm].
  unfold mt_evaluate_activity in Hev. rewrite Hmx in Hev. rewrite (cap_evaluate_no_markers MultiOps a r (Some cap) idx x Hnm Hidx) in Hev.
  apply (mt_insertion_sound_multi (a :: r) cap idx x); try assumption.
  - split; [exists a, r; auto|exact Hm].
  - unfold mt_evaluate_activity. rewrite Hmx. exact Hev.
Qed.
