(* C02: every job has exactly one home after any history of the bookkeeping primitives (Model/Homes.v). *)
From VRP Require Import Base.Tac Model.Homes.
From Coq Require Import Permutation.

(* ------------------------------------------------------------------ list facts *)
Lemma zin_In j l : zin j l = true <-> In j l.
Proof.
  unfold zin. rewrite existsb_exists. split.
  - intros [x [Hx He]]. apply Z.eqb_eq in He. subst. exact Hx.
  - intros H. exists j. split; [exact H|apply Z.eqb_refl].
Qed.

Lemma zin_false j l : zin j l = false <-> ~ In j l.
Proof.
  rewrite <- zin_In. destruct (zin j l); split.
  - intros H. discriminate H.
  - intros H. exfalso. apply H. reflexivity.
  - intros _ H. discriminate H.
  - intros _. reflexivity.
Qed.

Lemma zremove_In x j l : In x (zremove j l) <-> In x l /\ x <> j.
Proof.
  unfold zremove. rewrite filter_In. split; intros [H1 H2]; split; auto.
  - apply negb_true_iff in H2. apply Z.eqb_neq in H2. exact H2.
  - apply negb_true_iff. apply Z.eqb_neq. exact H2.
Qed.

Lemma NoDup_filter {A} (f : A -> bool) l : NoDup l -> NoDup (filter f l).
Proof.
  induction 1 as [|x l Hx Hl IH]; cbn [filter]; [constructor|].
  destruct (f x); [constructor; [|exact IH]|exact IH]. intros Hin. apply filter_In in Hin. apply Hx. apply Hin.
Qed.

Lemma NoDup_app_iff {A} (l1 l2 : list A) :
  NoDup (l1 ++ l2) <-> NoDup l1 /\ NoDup l2 /\ (forall x, In x l1 -> ~ In x l2).
Proof.
  induction l1 as [|a l1 IH]; cbn [app].
  - split; [intros H; split; [constructor|split; [exact H|intros x []]]|intros [_ [H _]]; exact H].
  - split.
    + intros H. inversion H as [|y ys Hn Hd]; subst. apply IH in Hd. destruct Hd as [H1 [H2 H3]].
      split; [constructor; [intros Hin; apply Hn; apply in_or_app; left; exact Hin|exact H1]|].
      split; [exact H2|]. intros x [<-|Hx]; [intros Hin; apply Hn; apply in_or_app; right; exact Hin|apply H3; exact Hx].
    + intros [H1 [H2 H3]]. inversion H1 as [|y ys Hn Hd]; subst. constructor.
      * intros Hin. apply in_app_or in Hin. destruct Hin as [Hin|Hin]; [apply Hn; exact Hin|].
        apply (H3 a); [left; reflexivity|exact Hin].
      * apply IH. split; [exact Hd|split; [exact H2|]]. intros x Hx. apply H3. right. exact Hx.
Qed.

Lemma concat_split {A} (rs : list (list A)) : forall k,
  concat rs = concat (firstn k rs) ++ nth k rs [] ++ concat (skipn (S k) rs).
Proof.
  induction rs as [|r rs IH]; intros k.
  - destruct k; reflexivity.
  - destruct k as [|k].
    + cbn [firstn nth skipn concat app]. reflexivity.
    + cbn [firstn nth concat]. change (skipn (S (S k)) (r :: rs)) with (skipn (S k) rs).
      rewrite (IH k) at 1. rewrite <- app_assoc. reflexivity.
Qed.

Lemma concat_set_route k r rs :
  concat (set_route k r rs) = concat (firstn k rs) ++ r ++ concat (skipn (S k) rs).
Proof. unfold set_route. rewrite concat_app. cbn [concat]. reflexivity. Qed.

Lemma concat_drop_empty (rs : list (list Z)) :
  concat (filter (fun r => match r with [] => false | _ => true end) rs) = concat rs.
Proof.
  induction rs as [|r rs IH]; cbn [filter concat]; [reflexivity|].
  destruct r; cbn [concat app]; rewrite IH; reflexivity.
Qed.

Lemma map_insert_In u j x : In x (map_insert u j) <-> In x u \/ x = j.
Proof.
  unfold map_insert. destruct (zin j u) eqn:H.
  - apply zin_In in H. split; [intros Hx; left; exact Hx|intros [Hx| ->]; assumption].
  - rewrite in_app_iff. cbn [In]. split; [intros [Hx|[Hx|[]]]; [left; exact Hx|right; symmetry; exact Hx]|].
    intros [Hx| ->]; [left; exact Hx|right; left; reflexivity].
Qed.

Lemma map_insert_NoDup u j : NoDup u -> NoDup (map_insert u j).
Proof.
  unfold map_insert. destruct (zin j u) eqn:H; [auto|]. intros Hu. apply zin_false in H.
  apply NoDup_app_iff. split; [exact Hu|]. split; [constructor; [intros []|constructor]|].
  intros x Hx [<-|[]]. apply H. exact Hx.
Qed.

Lemma fold_insert_In req : forall u x, In x (fold_left map_insert req u) <-> In x u \/ In x req.
Proof.
  induction req as [|j r IH]; intros u x; cbn [fold_left].
  - split; [intros H; left; exact H|intros [H|[]]; exact H].
  - rewrite IH, map_insert_In. cbn [In]. split.
    + intros [[H| ->]|H]; [left; exact H|right; left; reflexivity|right; right; exact H].
    + intros [H|[<-|H]]; [left; left; exact H|left; right; reflexivity|right; exact H].
Qed.

Lemma fold_insert_NoDup req : forall u, NoDup u -> NoDup (fold_left map_insert req u).
Proof. induction req as [|j r IH]; intros u Hu; cbn [fold_left]; [exact Hu|]. apply IH. apply map_insert_NoDup. exact Hu. Qed.

(* ------------------------------------------------------------------ the invariant *)
Record Inv (jobs : list Z) (s : hsol) : Prop := mkInv {
  inv_nodup_routes : NoDup (concat (h_routes s));                 (* at most once on a route, on at most one route *)
  inv_nodup_un : NoDup (h_unassigned s);
  inv_disjoint : forall j, In j (concat (h_routes s)) -> ~ In j (h_required s) /\ ~ In j (h_unassigned s);
  inv_cover : forall j, In j jobs <-> In j (concat (h_routes s)) \/ In j (h_required s) \/ In j (h_unassigned s)
}.

Lemma homes_init jobs : Inv jobs (init jobs).
Proof.
  constructor; cbn [init h_routes h_required h_unassigned concat].
  - constructor.
  - constructor.
  - intros j [].
  - intros j. split; [intros H; right; left; exact H|intros [[]|[H|[]]]; exact H].
Qed.

Lemma step_insert jobs s k j : Inv jobs s -> In j (h_required s) -> Inv jobs (step s (HInsert k j)).
Proof.
  intros [Hnd Hnu Hdis Hcov] Hreq. cbn [step].
  set (A := concat (firstn k (h_routes s))). set (X := nth k (h_routes s) []). set (B := concat (skipn (S k) (h_routes s))).
  assert (Hold : concat (h_routes s) = A ++ X ++ B) by apply concat_split.
  assert (Hjn : ~ In j (concat (h_routes s))). { intros Hin. apply (proj1 (Hdis j Hin)). exact Hreq. }
  assert (Hperm : Permutation (j :: concat (h_routes s)) (A ++ (j :: X) ++ B)).
  { rewrite Hold. cbn [app]. apply Permutation_middle. }
  constructor; cbn [h_routes h_required h_unassigned]; rewrite ?concat_set_route; fold A B X.
  - eapply Permutation_NoDup; [exact Hperm|]. constructor; assumption.
  - apply NoDup_filter. exact Hnu.
  - intros x Hx. apply (Permutation_in _ (Permutation_sym Hperm)) in Hx. rewrite !zremove_In. destruct Hx as [<-|Hx].
    + split; intros [_ H]; apply H; reflexivity.
    + destruct (Hdis x Hx) as [H1 H2]. split; intros [H _]; auto.
  - intros x. rewrite (Hcov x), !zremove_In. split.
    + intros [H|[H|H]].
      * left. apply (Permutation_in _ Hperm). right. exact H.
      * destruct (Z.eq_dec x j) as [->|Hne]; [left; apply (Permutation_in _ Hperm); left; reflexivity|right; left; split; assumption].
      * destruct (Z.eq_dec x j) as [->|Hne]; [left; apply (Permutation_in _ Hperm); left; reflexivity|right; right; split; assumption].
    + intros [H|[[H _]|[H _]]]; [|right; left; exact H|right; right; exact H].
      apply (Permutation_in _ (Permutation_sym Hperm)) in H. destruct H as [<-|H]; [right; left; exact Hreq|left; exact H].
Qed.

Lemma step_fail jobs s j : Inv jobs s -> In j (h_required s) -> Inv jobs (step s (HFail j)).
Proof.
  intros [Hnd Hnu Hdis Hcov] Hreq. constructor; cbn [step h_routes h_required h_unassigned].
  - exact Hnd.
  - apply map_insert_NoDup. exact Hnu.
  - intros x Hx. destruct (Hdis x Hx) as [H1 H2]. rewrite zremove_In, map_insert_In. split.
    + intros [H _]. auto.
    + intros [H| ->]; [auto|]. apply H1. exact Hreq.
  - intros x. rewrite (Hcov x), zremove_In, map_insert_In. split.
    + intros [H|[H|H]]; [left; exact H| |right; right; left; exact H].
      destruct (Z.eq_dec x j) as [->|Hne]; [right; right; right; reflexivity|right; left; split; assumption].
    + intros [H|[[H _]|[H| ->]]]; [left; exact H|right; left; exact H|right; right; exact H|right; left; exact Hreq].
Qed.

Lemma step_finalize jobs s : Inv jobs s -> Inv jobs (step s HFinalize).
Proof.
  intros [Hnd Hnu Hdis Hcov]. constructor; cbn [step h_routes h_required h_unassigned].
  - exact Hnd.
  - apply fold_insert_NoDup. exact Hnu.
  - intros x Hx. destruct (Hdis x Hx) as [H1 H2]. split; [intros []|]. rewrite fold_insert_In. intros [H|H]; auto.
  - intros x. rewrite (Hcov x), fold_insert_In. cbn [In]. split.
    + intros [H|[H|H]]; [left; exact H|right; right; right; exact H|right; right; left; exact H].
    + intros [H|[[]|[H|H]]]; [left; exact H|right; right; exact H|right; left; exact H].
Qed.

Lemma step_prepare jobs s : Inv jobs s -> Inv jobs (step s HPrepare).
Proof.
  intros [Hnd Hnu Hdis Hcov]. constructor; cbn [step h_routes h_required h_unassigned].
  - exact Hnd.
  - exact Hnu.
  - intros x Hx. destruct (Hdis x Hx) as [H1 H2]. split; [|exact H2]. rewrite in_app_iff. intros [H|H]; auto.
  - intros x. rewrite (Hcov x), in_app_iff. split.
    + intros [H|[H|H]]; [left; exact H|right; left; left; exact H|right; right; exact H].
    + intros [H|[[H|H]|H]]; [left; exact H|right; left; exact H|right; right; exact H|right; right; exact H].
Qed.

Lemma step_remove_job jobs s k j : Inv jobs s -> Inv jobs (step s (HRemoveJob k j)).
Proof.
  intros HI. cbn [step]. destruct (zin j (nth k (h_routes s) [])) eqn:Hz; [|exact HI].
  destruct HI as [Hnd Hnu Hdis Hcov]. apply zin_In in Hz.
  set (A := concat (firstn k (h_routes s))) in *. set (X := nth k (h_routes s) []) in *.
  set (B := concat (skipn (S k) (h_routes s))) in *.
  assert (Hold : concat (h_routes s) = A ++ X ++ B) by apply concat_split.
  rewrite Hold in Hnd. apply NoDup_app_iff in Hnd. destruct Hnd as [HA [HXB HAXB]].
  apply NoDup_app_iff in HXB. destruct HXB as [HX [HB HXBd]].
  assert (HjA : ~ In j A). { intros H. apply (HAXB j H). apply in_or_app. left. exact Hz. }
  assert (HjB : ~ In j B). { apply HXBd. exact Hz. }
  assert (Hin : forall x, In x (A ++ zremove j X ++ B) <-> In x (concat (h_routes s)) /\ x <> j).
  { intros x. rewrite Hold, !in_app_iff, zremove_In. split.
    - intros [H|[[H Hne]|H]]; (split; [auto|]); [intros ->; auto|exact Hne|intros ->; auto].
    - intros [[H|[H|H]] Hne]; auto. }
  constructor; cbn [h_routes h_required h_unassigned]; rewrite ?concat_set_route; fold A B X.
  - apply NoDup_app_iff. split; [exact HA|]. split.
    + apply NoDup_app_iff. split; [apply NoDup_filter; exact HX|]. split; [exact HB|].
      intros x Hx. apply zremove_In in Hx. apply HXBd. apply Hx.
    + intros x Hx Hx'. apply (HAXB x Hx). apply in_app_or in Hx'. apply in_or_app.
      destruct Hx' as [Hx'|Hx']; [left; apply zremove_In in Hx'; apply Hx'|right; exact Hx'].
  - exact Hnu.
  - intros x Hx. apply Hin in Hx. destruct Hx as [Hx Hne]. destruct (Hdis x Hx) as [H1 H2]. split; [|exact H2].
    rewrite in_app_iff. intros [H|[H|[]]]; [auto|]. apply Hne. symmetry. exact H.
  - intros x. rewrite (Hcov x), Hin, in_app_iff. cbn [In]. split.
    + intros [H|[H|H]]; [|right; left; left; exact H|right; right; exact H].
      destruct (Z.eq_dec x j) as [->|Hne]; [right; left; right; left; reflexivity|left; split; assumption].
    + intros [[H _]|[[H|[<-|[]]]|H]]; [left; exact H|right; left; exact H| |right; right; exact H].
      left. rewrite Hold. apply in_or_app. right. apply in_or_app. left. exact Hz.
Qed.

Lemma step_remove_route jobs s k : Inv jobs s -> Inv jobs (step s (HRemoveRoute k)).
Proof.
  intros HI. cbn [step]. destruct (k <? length (h_routes s))%nat eqn:Hk; [|exact HI].
  destruct HI as [Hnd Hnu Hdis Hcov].
  set (A := concat (firstn k (h_routes s))) in *. set (X := nth k (h_routes s) []) in *.
  set (B := concat (skipn (S k) (h_routes s))) in *.
  assert (Hold : concat (h_routes s) = A ++ X ++ B) by apply concat_split.
  assert (Hnew : concat (firstn k (h_routes s) ++ skipn (S k) (h_routes s)) = A ++ B) by apply concat_app.
  assert (Hnd' := Hnd). rewrite Hold in Hnd'. apply NoDup_app_iff in Hnd'. destruct Hnd' as [HA [HXB HAXB]].
  apply NoDup_app_iff in HXB. destruct HXB as [HX [HB HXBd]].
  assert (Hin : forall x, In x (concat (h_routes s)) <-> In x (A ++ B) \/ In x X).
  { intros x. rewrite Hold, !in_app_iff. split; [intros [H|[H|H]]; auto|intros [[H|H]|H]; auto]. }
  constructor; cbn [h_routes h_required h_unassigned]; rewrite ?Hnew.
  - apply NoDup_app_iff. split; [exact HA|]. split; [exact HB|].
    intros x Hx Hx'. apply (HAXB x Hx). apply in_or_app. right. exact Hx'.
  - exact Hnu.
  - intros x Hx. assert (Hx0 : In x (concat (h_routes s))) by (apply Hin; left; exact Hx).
    destruct (Hdis x Hx0) as [H1 H2]. split; [|exact H2]. rewrite in_app_iff. intros [H|H]; [auto|].
    apply in_app_or in Hx. destruct Hx as [Hx|Hx].
    + apply (HAXB x Hx). apply in_or_app. left. exact H.
    + apply (HXBd x H). exact Hx.
  - intros x. rewrite (Hcov x), Hin, (in_app_iff (h_required s)). split.
    + intros [[H|H]|[H|H]]; [left; exact H|right; left; right; exact H|right; left; left; exact H|right; right; exact H].
    + intros [H|[[H|H]|H]]; [left; left; exact H|right; left; exact H|left; right; exact H|right; right; exact H].
Qed.

Lemma step_drop_empty jobs s : Inv jobs s -> Inv jobs (step s HDropEmpty).
Proof.
  intros [Hnd Hnu Hdis Hcov]. constructor; cbn [step h_routes h_required h_unassigned]; rewrite ?concat_drop_empty; assumption.
Qed.

Lemma step_push_empty jobs s : Inv jobs s -> Inv jobs (step s HPushEmpty).
Proof.
  intros [Hnd Hnu Hdis Hcov].
  assert (Hc : concat (h_routes s ++ [[]]) = concat (h_routes s)).
  { rewrite concat_app. cbn [concat app]. apply app_nil_r. }
  constructor; cbn [step h_routes h_required h_unassigned]; rewrite ?Hc; assumption.
Qed.

(* the tours handed to the writer all serve a job when remove_empty_routes is the last step ... *)
Lemma drop_empty_no_empty_route s : ~ In [] (h_routes (step s HDropEmpty)).
Proof. cbn [step h_routes]. intros H. apply filter_In in H. destruct H as [_ H]. discriminate H. Qed.

(* ... but nothing calls it between notify_failure's push and Solution::from: a guarded history that reports an empty tour *)
Lemma empty_route_reported :
  exists jobs ops, guards (init jobs) (ops ++ [HFinalize]) /\ In [] (h_routes (run (init jobs) (ops ++ [HFinalize]))).
Proof.
  exists [1], [HPushEmpty; HFail 1]. split.
  - cbn. split; [exact I|]. split; [left; reflexivity|]. split; exact I.
  - cbn. left. reflexivity.
Qed.

(* ------------------------------------------------------------------ each primitive, then any history *)
Theorem homes_step jobs s o : Inv jobs s -> guard s o -> Inv jobs (step s o).
Proof.
  intros HI Hg. destruct o as [k j|j| | |k j|k| |]; [| | | | | | |apply step_push_empty; assumption].
  - apply step_insert; assumption.
  - apply step_fail; assumption.
  - apply step_finalize; assumption.
  - apply step_prepare; assumption.
  - apply step_remove_job; assumption.
  - apply step_remove_route; assumption.
  - apply step_drop_empty; assumption.
Qed.

Theorem homes_reach jobs ops : forall s, Inv jobs s -> guards s ops -> Inv jobs (run s ops).
Proof.
  induction ops as [|o r IH]; intros s HI Hg; cbn [run]; [exact HI|].
  destruct Hg as [Hg Hr]. apply IH; [apply homes_step; assumption|exact Hr].
Qed.

Lemma finalize_drains s : h_required (step s HFinalize) = [].
Proof. reflexivity. Qed.

(* what is handed to the writer (Solution::from) is an exact partition of the plan once `required` is drained *)
Theorem reported_partition jobs s :
  Inv jobs s -> h_required s = [] ->
  (forall j, In j jobs ->
     (count_occ Z.eq_dec (concat (h_routes s)) j = 1%nat /\ count_occ Z.eq_dec (reported_unassigned s) j = 0%nat)
     \/ (count_occ Z.eq_dec (concat (h_routes s)) j = 0%nat /\ count_occ Z.eq_dec (reported_unassigned s) j = 1%nat))
  /\ (forall j, In j (concat (h_routes s)) \/ In j (reported_unassigned s) -> In j jobs).
Proof.
  intros [Hnd Hnu Hdis Hcov] Hreq. unfold reported_unassigned. rewrite Hreq, app_nil_r. split.
  - intros j Hj. apply Hcov in Hj. rewrite Hreq in Hj. destruct Hj as [Hj|[[]|Hj]].
    + left. split; [apply NoDup_count_occ'; assumption|]. apply count_occ_not_In. exact (proj2 (Hdis j Hj)).
    + right. split; [|apply NoDup_count_occ'; assumption]. apply count_occ_not_In. intros H. apply (proj2 (Hdis j H)). exact Hj.
  - intros j [H|H]; apply Hcov; [left; exact H|right; right; exact H].
Qed.

Corollary history_reported jobs ops :
  guards (init jobs) (ops ++ [HFinalize]) ->
  let s := run (init jobs) (ops ++ [HFinalize]) in
  forall j, In j jobs ->
     (count_occ Z.eq_dec (concat (h_routes s)) j = 1%nat /\ count_occ Z.eq_dec (reported_unassigned s) j = 0%nat)
     \/ (count_occ Z.eq_dec (concat (h_routes s)) j = 0%nat /\ count_occ Z.eq_dec (reported_unassigned s) j = 1%nat).
Proof.
  intros Hg s. assert (HI : Inv jobs s) by (unfold s; apply homes_reach; [apply homes_init|exact Hg]).
  assert (Hreq : h_required s = []).
  { subst s. clear. generalize (init jobs). induction ops as [|o r IH]; intros s0; cbn [app run]; [reflexivity|apply IH]. }
  exact (proj1 (reported_partition jobs s HI Hreq)).
Qed.

(* ------------------------------------------------------------------ the executable invariant is the invariant *)
Lemma nodupb_iff l : nodupb l = true <-> NoDup l.
Proof.
  induction l as [|x r IH]; cbn [nodupb].
  - split; intros _; [constructor|reflexivity].
  - rewrite andb_true_iff, negb_true_iff, zin_false, IH. split.
    + intros [H1 H2]. constructor; assumption.
    + intros H. inversion H; subst. split; assumption.
Qed.

Theorem inv_b_iff jobs s : inv_b jobs s = true <-> Inv jobs s.
Proof.
  unfold inv_b. cbv zeta. rewrite !andb_true_iff, !nodupb_iff, !forallb_forall. cbv beta. split.
  - intros [[[[H1 H2] H3] H4] H5]. constructor; [exact H1|exact H2| |].
    + intros j Hj. specialize (H3 j Hj). apply andb_true_iff in H3. destruct H3 as [Ha Hb].
      apply negb_true_iff in Ha, Hb. apply zin_false in Ha, Hb. split; assumption.
    + intros j. split.
      * intros Hj. specialize (H4 j Hj). rewrite !orb_true_iff, !zin_In in H4. destruct H4 as [[H|H]|H]; auto.
      * intros H. apply zin_In. apply H5. rewrite !in_app_iff. destruct H as [H|[H|H]]; auto.
  - intros [H1 H2 H3 H4]. split; [split; [split; [split; [exact H1|exact H2]|]|]|].
    + intros j Hj. destruct (H3 j Hj) as [Ha Hb]. apply andb_true_iff. rewrite !negb_true_iff, !zin_false. split; assumption.
    + intros j Hj. apply H4 in Hj. rewrite !orb_true_iff, !zin_In. destruct Hj as [H|[H|H]]; auto.
    + intros j Hj. apply zin_In. apply H4. rewrite !in_app_iff in Hj. destruct Hj as [H|[H|H]]; auto.
Qed.

(* ------------------------------------------------------------------ histories that end with finalize_insertion_ctx *)
Lemma run_app l1 : forall s l2, run s (l1 ++ l2) = run (run s l1) l2.
Proof. induction l1 as [|o r IH]; intros s l2; cbn [app run]; [reflexivity|apply IH]. Qed.

Lemma run_finalize_ctx s ops :
  run s (ops ++ finalize_ctx) = step (step (run s ops) HFinalize) HDropEmpty.
Proof. rewrite run_app. reflexivity. Qed.

(* every tour handed over serves a job *)
Theorem history_no_empty_tour jobs ops : ~ In [] (h_routes (run (init jobs) (ops ++ finalize_ctx))).
Proof. rewrite run_finalize_ctx. apply drop_empty_no_empty_route. Qed.

(* and the jobs are still an exact partition *)
Theorem history_reported_ctx jobs ops :
  guards (init jobs) (ops ++ finalize_ctx) ->
  let s := run (init jobs) (ops ++ finalize_ctx) in
  forall j, In j jobs ->
     (count_occ Z.eq_dec (concat (h_routes s)) j = 1%nat /\ count_occ Z.eq_dec (reported_unassigned s) j = 0%nat)
     \/ (count_occ Z.eq_dec (concat (h_routes s)) j = 0%nat /\ count_occ Z.eq_dec (reported_unassigned s) j = 1%nat).
Proof.
  intros Hg s. assert (HI : Inv jobs s) by (unfold s; apply homes_reach; [apply homes_init|exact Hg]).
  assert (Hreq : h_required s = []) by (unfold s; rewrite run_finalize_ctx; reflexivity).
  exact (proj1 (reported_partition jobs s HI Hreq)).
Qed.
