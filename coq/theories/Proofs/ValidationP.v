(* C10 — lemmas about Model/Validation.v and Spec/Rules.v. *)
From VRP Require Import Base.Tac Model.Validation Spec.Rules Generated.RuleTable.
From Coq Require Import String.

(* ---------- rule tables (re-proved against the regenerated Generated/RuleTable.v on every run) ---------- *)
Definition zmem (c : Z) (l : list Z) : bool := existsb (Z.eqb c) l.
Definition subset (a b : list Z) : bool := forallb (fun c => zmem c b) a.
Fixpoint znodup (l : list Z) : bool := match l with [] => true | x :: r => negb (zmem x r) && znodup r end.
Definition implemented_codes : list Z :=
  gen_jobs_calls ++ gen_vehicles_calls ++ gen_objectives_calls ++ gen_routing_calls ++ gen_relations_calls.
Definition defined_codes : list Z :=
  gen_jobs_defined ++ gen_vehicles_defined ++ gen_objectives_defined ++ gen_routing_defined ++ gen_relations_defined.

Lemma zmem_In c l : zmem c l = true <-> In c l.
Proof.
  unfold zmem. rewrite existsb_exists. split.
  - intros (x & Hin & He). apply Z.eqb_eq in He. now subst.
  - intros H. exists c. split; auto. apply Z.eqb_refl.
Qed.
Lemma subset_In a b : subset a b = true -> forall c, In c a -> In c b.
Proof. unfold subset. rewrite forallb_forall. intros H c Hc. apply zmem_In. auto. Qed.

(* every implemented rule is documented and vice versa; no rule is called twice; every defined rule is called;
   every rule function reports its own code *)
Lemma rule_table_complete_l :
  (forall c, In c implemented_codes <-> In c gen_doc_validation)
  /\ NoDup implemented_codes
  /\ (forall c, In c defined_codes <-> In c implemented_codes)
  /\ (forall p, In p gen_emitted -> fst p = snd p).
Proof.
  assert (H1 : subset implemented_codes gen_doc_validation = true) by (vm_compute; reflexivity).
  assert (H2 : subset gen_doc_validation implemented_codes = true) by (vm_compute; reflexivity).
  assert (H3 : subset defined_codes implemented_codes = true) by (vm_compute; reflexivity).
  assert (H4 : subset implemented_codes defined_codes = true) by (vm_compute; reflexivity).
  assert (H5 : forallb (fun p : Z * Z => fst p =? snd p) gen_emitted = true) by (vm_compute; reflexivity).
  repeat split; try (apply subset_In; assumption).
  - assert (Hn : znodup implemented_codes = true) by (vm_compute; reflexivity).
    revert Hn. generalize implemented_codes. induction l as [|x r IH]; cbn; intros Hn; constructor.
    + apply andb_prop in Hn. destruct Hn as [Hx _]. intro Hin. apply zmem_In in Hin. rewrite Hin in Hx. discriminate.
    + apply IH. apply andb_prop in Hn. tauto.
  - intros p Hp. rewrite forallb_forall in H5. apply Z.eqb_eq. auto.
Qed.

(* the model runs the rules of the source, in the order of the source *)
Lemma model_table_matches_source_l :
  gen_group_order = ["jobs"; "vehicles"; "objectives"; "routing"; "relations"]%string
  /\ map fst jobs_checks = gen_jobs_calls
  /\ map fst vehicles_checks = gen_vehicles_calls
  /\ map fst routing_checks = filter (fun c => negb (zmem c [1502; 1503])) gen_routing_calls
  /\ map fst spec_table = map fst all_checks.
Proof. repeat split; vm_compute; reflexivity. Qed.

(* ---------- list / bool helpers ---------- *)
Lemma existsb_false {A} (f : A -> bool) l : existsb f l = false <-> forall x, In x l -> f x = false.
Proof.
  induction l as [|a l IH]; cbn.
  - split; [intros _ x []|reflexivity].
  - rewrite orb_false_iff, IH. split.
    + intros [Ha Hl] x [<-|Hx]; auto.
    + intros H. split; [apply H; auto|intros x Hx; apply H; auto].
Qed.
Lemma existsb_ext_in {A} (f g : A -> bool) l : (forall x, In x l -> f x = g x) -> existsb f l = existsb g l.
Proof.
  induction l as [|a l IH]; cbn; intros H; [reflexivity|].
  rewrite (H a), IH; auto.
Qed.
Lemma forallb_ext_in {A} (f g : A -> bool) l : (forall x, In x l -> f x = g x) -> forallb f l = forallb g l.
Proof.
  induction l as [|a l IH]; cbn; intros H; [reflexivity|].
  rewrite (H a), IH; auto.
Qed.
Lemma negb_forallb {A} (f : A -> bool) l : negb (forallb f l) = existsb (fun x => negb (f x)) l.
Proof. induction l as [|a l IH]; cbn; [reflexivity|]. rewrite negb_andb, IH. reflexivity. Qed.
Lemma existsb_orb {A} (f g : A -> bool) l : existsb (fun x => f x || g x) l = existsb f l || existsb g l.
Proof. induction l as [|a l IH]; cbn; [reflexivity|]. rewrite IH. destruct (f a), (g a), (existsb f l); reflexivity. Qed.
Lemma streqb_sym a b : String.eqb a b = String.eqb b a.
Proof. destruct (String.eqb_spec a b), (String.eqb_spec b a); congruence. Qed.

(* ---------- get_duplicates ---------- *)
Lemma has_dup_from_spec l : forall seen, has_dup_from seen l = negb (nodupb l) || existsb (fun x => mem x seen) l.
Proof.
  induction l as [|x r IH]; intros seen; cbn [has_dup_from nodupb existsb]; [reflexivity|].
  destruct (mem x seen) eqn:Hm.
  - now rewrite orb_true_r.
  - rewrite IH. cbn [orb]. rewrite negb_andb, negb_involutive.
    assert (He : existsb (fun y => mem y (x :: seen)) r = existsb (String.eqb x) r || existsb (fun y => mem y seen) r).
    { rewrite <- existsb_orb. apply existsb_ext_in. intros y _. unfold mem. cbn [existsb]. now rewrite streqb_sym. }
    rewrite He. destruct (existsb (String.eqb x) r), (nodupb r), (existsb (fun y => mem y seen) r); reflexivity.
Qed.
Lemma has_dup_spec l : has_dup l = negb (nodupb l).
Proof.
  unfold has_dup. rewrite has_dup_from_spec.
  assert (H : existsb (fun x => mem x []) l = false) by (apply existsb_false; reflexivity).
  now rewrite H, orb_false_r.
Qed.

(* ---------- time windows ---------- *)
Lemma parse_window_eq w : get_time_window_from_vec w = parse_window w.
Proof. destruct w as [|a [|b [|c r]]]; reflexivity. Qed.
Lemma overlap_eq a b : intersects a b = overlap a b.
Proof.
  unfold intersects, overlap.
  destruct (Z.leb_spec (fst a) (snd b)), (Z.leb_spec (fst b) (snd a)), (Z.ltb_spec (snd a) (fst b)), (Z.ltb_spec (snd b) (fst a));
    cbn; try reflexivity; lia.
Qed.
Lemma overlap_sym a b : overlap a b = overlap b a.
Proof. unfold overlap. now rewrite orb_comm. Qed.
Lemma somes_eq l : unwrap_all l = somes l.
Proof. induction l as [|[x|] r IH]; cbn; congruence. Qed.

(* check_time_windows agrees with the documented rules on lists of at most two windows *)
Lemma check_time_windows_spec ws skip : (List.length ws <= 2)%nat ->
  check_time_windows ws skip = nonempty ws && windows_ok skip ws.
Proof.
  intros Hlen. destruct ws as [|o1 [|o2 [|o3 r]]]; [reflexivity| | |cbn in Hlen; lia].
  - destruct o1 as [a|]; [|reflexivity].
    unfold check_time_windows, windows_ok. cbn. rewrite andb_true_r. now destruct skip; rewrite ?andb_true_r.
  - destruct o1 as [a|]; [|reflexivity]. destruct o2 as [b|]; [|unfold check_time_windows, windows_ok; cbn; now rewrite ?andb_false_r].
    unfold check_time_windows, windows_ok. cbn -[pair_ok].
    assert (Hs : pair_ok skip b a = pair_ok skip a b).
    { unfold pair_ok. rewrite !overlap_eq, (overlap_sym b a). destruct (fst a <=? snd a), (fst b <=? snd b); reflexivity. }
    assert (Hg : (if fst a <=? fst b then pair_ok skip a b || false else pair_ok skip b a || false) = pair_ok skip a b).
    { destruct (fst a <=? fst b); rewrite orb_false_r; auto. }
    destruct (fst a <=? fst b); cbn -[pair_ok]; rewrite orb_false_r, ?Hs; unfold pair_ok; rewrite overlap_eq;
      destruct (fst a <=? snd a), (fst b <=? snd b), skip, (overlap a b); reflexivity.
Qed.

Lemma windows_ok_all_some skip ws : windows_ok skip ws = true -> forall o, In o ws -> exists w, o = Some w /\ fst w <= snd w.
Proof.
  unfold windows_ok. intros H o Ho. apply andb_prop in H. destruct H as [H _].
  rewrite forallb_forall in H. specialize (H o Ho). destruct o as [w|]; [|discriminate].
  exists w. split; auto. now apply Z.leb_le.
Qed.

(* ---------- jobs.rs rules against the documented rules ---------- *)
Lemma tasks_olist o : tasks o = olist o. Proof. reflexivity. Qed.
Lemma job_tasks_all j : job_tasks j = all_tasks j. Proof. reflexivity. Qed.

Lemma e1100_ok d : check_e1100 d = Some (viol_1100 d).
Proof. unfold check_e1100, viol_1100. now rewrite has_dup_spec. Qed.

Lemma e1101_ok d : check_e1101 d = Some (viol_1101 d).
Proof.
  unfold check_e1101, viol_1101. f_equal. apply existsb_ext_in. intros j _. f_equal.
  apply existsb_ext_in. intros t _. unfold is_some, is_none. now destruct (tk_demand t).
Qed.

(* MultiDimLoad arithmetic *)
Lemma vzip_nth f (Hf : f 0 0 = 0) a : forall b i, nth i (vzip f a b) 0 = f (nth i a 0) (nth i b 0).
Proof.
  induction a as [|x a IH]; intros b i; cbn [vzip].
  - assert (Hn : forall k, nth k (@nil Z) 0 = 0) by (now intros [|k]).
    rewrite Hn. revert i. induction b as [|y b IHb]; intros [|i]; cbn [map nth]; rewrite ?Hn; auto.
  - destruct b as [|y b]; destruct i as [|i]; cbn [nth]; auto.
    rewrite IH. now destruct i.
Qed.
Lemma vzip_length f a : forall b, List.length (vzip f a b) = Nat.max (List.length a) (List.length b).
Proof.
  induction a as [|x a IH]; intros b; cbn [vzip].
  - now rewrite map_length.
  - destruct b as [|y b]; cbn [List.length]; rewrite IH; cbn; lia.
Qed.
Definition max_len (ts : list task) : nat := fold_right (fun t m => Nat.max (List.length (demand_vec t)) m) 0%nat ts.
Lemma get_demand_fold_nth i ts : forall acc,
  nth i (fold_left (fun acc t => vadd (demand_vec t) acc) ts acc) 0 = nth i acc 0 + dim_sum i ts.
Proof.
  induction ts as [|t ts IH]; intros acc; cbn [fold_left dim_sum fold_right]; [lia|].
  rewrite IH. unfold vadd. rewrite vzip_nth by reflexivity. unfold demand_vec. fold (dim_sum i ts). lia.
Qed.
Lemma get_demand_fold_len ts : forall acc,
  List.length (fold_left (fun acc t => vadd (demand_vec t) acc) ts acc) = Nat.max (List.length acc) (max_len ts).
Proof.
  induction ts as [|t ts IH]; intros acc; cbn [fold_left max_len fold_right]; [lia|].
  rewrite IH. unfold vadd. rewrite vzip_length. fold (max_len ts). lia.
Qed.
Lemma get_demand_nth i o : nth i (get_demand o) 0 = dim_sum i (tasks o).
Proof. unfold get_demand. rewrite get_demand_fold_nth. now destruct i. Qed.
Lemma get_demand_len o : List.length (get_demand o) = max_len (olist o).
Proof. unfold get_demand. now rewrite get_demand_fold_len. Qed.

Lemma existsb_nonzero_nth v n : (List.length v <= n)%nat ->
  existsb (fun x => negb (x =? 0)) v = existsb (fun i => negb (nth i v 0 =? 0)) (seq 0 n).
Proof.
  intros Hn. apply eq_true_iff_eq. rewrite !existsb_exists. split.
  - intros (x & Hx & Hnz). destruct (In_nth _ _ 0 Hx) as (i & Hi & Hnth).
    exists i. split; [apply in_seq; lia|now rewrite Hnth].
  - intros (i & Hi & Hnz). exists (nth i v 0). split; auto.
    destruct (Nat.lt_ge_cases i (List.length v)) as [Hlt|Hge]; [now apply nth_In|].
    rewrite nth_overflow in Hnz by lia. discriminate.
Qed.

Lemma max_len_app a b : max_len (a ++ b) = Nat.max (max_len a) (max_len b).
Proof. induction a as [|t a IH]; cbn; [reflexivity|]. fold (max_len (a ++ b)) (max_len a). rewrite IH. lia. Qed.
Lemma max_len_le n ts : (forall t, In t ts -> task_over8 t = false) -> n = 8%nat -> (max_len ts <= n)%nat.
Proof.
  intros H ->. induction ts as [|t ts IH]; cbn; [lia|]. fold (max_len ts).
  assert (Ht := H t (or_introl eq_refl)). unfold task_over8, demand_vec, over8 in *.
  assert (IH' : (max_len ts <= 8)%nat) by (apply IH; intros; apply H; now right).
  destruct (tk_demand t) as [v|]; cbn [List.length]; [apply Nat.ltb_ge in Ht|]; lia.
Qed.
Lemma max_len_pos ts : forallb (fun t => match tk_demand t with Some (_ :: _) => false | _ => true end) ts = false ->
  (0 < max_len ts)%nat.
Proof.
  induction ts as [|t ts IH]; cbn; [discriminate|]. fold (max_len ts). unfold demand_vec.
  destruct (tk_demand t) as [[|x v]|]; cbn; intros H; try lia; apply IH in H; lia.
Qed.

Lemma k7_jobs d : k7_over8 d = false -> forall j, In j (d_jobs d) -> forall t, In t (all_tasks j) -> task_over8 t = false.
Proof.
  unfold k7_over8. intros H j Hj t Ht. apply orb_false_iff in H. destruct H as [_ H].
  rewrite existsb_false in H. specialize (H j Hj). cbn beta in H. rewrite existsb_false in H.
  specialize (H t Ht). unfold task_over8, over8. exact H.
Qed.

Lemma e1102_ok d : k7_over8 d = false -> k8_empty_demand_vectors d = false -> check_e1102 d = Some (viol_1102 d).
Proof.
  intros H7 H8. unfold check_e1102.
  assert (Hp : existsb e1102_job_panics (d_jobs d) = false).
  { apply existsb_false. intros j Hj. unfold e1102_job_panics.
    assert (He : existsb task_over8 (olist (j_pickups j) ++ olist (j_deliveries j)) = false).
    { apply existsb_false. intros t Ht. apply (k7_jobs d H7 j Hj). unfold all_tasks. rewrite app_assoc. apply in_or_app. now left. }
    rewrite He. now rewrite andb_false_r. }
  rewrite Hp. f_equal. unfold viol_1102. apply existsb_ext_in. intros j Hj. unfold e1102_job.
  assert (Hh : forall o, has_tasks o = nonempty (tasks o)) by (intros [[|? ?]|]; reflexivity).
  rewrite !Hh. destruct (nonempty (tasks (j_pickups j)) && nonempty (tasks (j_deliveries j))) eqn:Hboth; [|reflexivity].
  cbn [andb]. unfold k8_empty_demand_vectors in H8. rewrite existsb_false in H8. specialize (H8 j Hj). cbn beta in H8.
  rewrite Hboth in H8. cbn [andb] in H8.
  set (P := get_demand (j_pickups j)) in *. set (D := get_demand (j_deliveries j)) in *.
  assert (Hlen : List.length (vsub P D) = max_len (tasks (j_pickups j) ++ tasks (j_deliveries j))).
  { unfold vsub. rewrite vzip_length. subst P D. rewrite !get_demand_len, max_len_app. reflexivity. }
  assert (Hpos := max_len_pos _ H8).
  assert (Hle : (List.length (vsub P D) <= 8)%nat).
  { rewrite Hlen. apply max_len_le; [|reflexivity]. intros t Ht. apply (k7_jobs d H7 j Hj).
    unfold all_tasks. rewrite app_assoc. apply in_or_app. now left. }
  unfold load_ne_default. replace (List.length (vsub P D) =? 0)%nat with false by (symmetry; apply Nat.eqb_neq; lia).
  cbn [orb]. rewrite (existsb_nonzero_nth _ 8 Hle). apply existsb_ext_in. intros i _.
  unfold vsub. rewrite vzip_nth by reflexivity. subst P D. rewrite !get_demand_nth.
  destruct (Z.eqb_spec (dim_sum i (tasks (j_pickups j)) - dim_sum i (tasks (j_deliveries j))) 0),
           (Z.eqb_spec (dim_sum i (tasks (j_pickups j))) (dim_sum i (tasks (j_deliveries j)))); cbn; try reflexivity; lia.
Qed.
