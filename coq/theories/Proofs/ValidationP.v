(* C10 — lemmas about Model/Validation.v and Spec/Rules.v. *)
From VRP Require Import Base.Tac Model.Validation Spec.Rules Generated.RuleTable.
From Coq Require Import String Permutation Sorted.

(* ---------- rule tables (re-proved against the regenerated Generated/RuleTable.v on every run) ---------- *)
Definition zmem (c : Z) (l : list Z) : bool := existsb (Z.eqb c) l.
Definition subset (a b : list Z) : bool := forallb (fun c => zmem c b) a.
Fixpoint znodup (l : list Z) : bool := match l with [] => true | x :: r => negb (zmem x r) && znodup r end.
Definition implemented_codes : list Z :=
  gen_jobs_calls ++ gen_vehicles_calls ++ gen_objectives_calls ++ gen_routing_calls ++ gen_relations_calls.
Definition defined_codes : list Z :=
  gen_jobs_defined ++ gen_vehicles_defined ++ gen_objectives_defined ++ gen_routing_defined ++ gen_relations_defined.

Lemma zmem_In c l : zmem c l = true <-> In c l.
Proof.
  unfold zmem. rewrite existsb_exists. split.
  - intros (x & Hin & He). apply Z.eqb_eq in He. now subst.
  - intros H. exists c. split; auto. apply Z.eqb_refl.
Qed.
Lemma subset_In a b : subset a b = true -> forall c, In c a -> In c b.
Proof. unfold subset. rewrite forallb_forall. intros H c Hc. apply zmem_In. auto. Qed.

(* every implemented rule is documented and vice versa; no rule is called twice; every defined rule is called;
   every rule function reports its own code *)
Lemma rule_table_complete_l :
  (forall c, In c implemented_codes <-> In c gen_doc_validation)
  /\ NoDup implemented_codes
  /\ (forall c, In c defined_codes <-> In c implemented_codes)
  /\ (forall p, In p gen_emitted -> fst p = snd p).
Proof.
  assert (H1 : subset implemented_codes gen_doc_validation = true) by (vm_compute; reflexivity).
  assert (H2 : subset gen_doc_validation implemented_codes = true) by (vm_compute; reflexivity).
  assert (H3 : subset defined_codes implemented_codes = true) by (vm_compute; reflexivity).
  assert (H4 : subset implemented_codes defined_codes = true) by (vm_compute; reflexivity).
  assert (H5 : forallb (fun p : Z * Z => fst p =? snd p) gen_emitted = true) by (vm_compute; reflexivity).
  repeat split; try (apply subset_In; assumption).
  - assert (Hn : znodup implemented_codes = true) by (vm_compute; reflexivity).
    revert Hn. generalize implemented_codes. induction l as [|x r IH]; cbn; intros Hn; constructor.
    + apply andb_prop in Hn. destruct Hn as [Hx _]. intro Hin. apply zmem_In in Hin. rewrite Hin in Hx. discriminate.
    + apply IH. apply andb_prop in Hn. tauto.
  - intros p Hp. rewrite forallb_forall in H5. apply Z.eqb_eq. auto.
Qed.

(* the model runs the rules of the source, in the order of the source *)
Lemma model_table_matches_source_l :
  gen_group_order = ["jobs"; "vehicles"; "objectives"; "routing"; "relations"]%string
  /\ map fst jobs_checks = gen_jobs_calls
  /\ map fst vehicles_checks = gen_vehicles_calls
  /\ map fst routing_checks = filter (fun c => negb (zmem c [1502; 1503])) gen_routing_calls
  /\ map fst spec_table = map fst all_checks.
Proof. repeat split; vm_compute; reflexivity. Qed.

(* ---------- list / bool helpers ---------- *)
Lemma existsb_false {A} (f : A -> bool) l : existsb f l = false <-> forall x, In x l -> f x = false.
Proof.
  induction l as [|a l IH]; cbn.
  - split; [intros _ x []|reflexivity].
  - rewrite orb_false_iff, IH. split.
    + intros [Ha Hl] x [<-|Hx]; auto.
    + intros H. split; [apply H; auto|intros x Hx; apply H; auto].
Qed.
Lemma existsb_ext_in {A} (f g : A -> bool) l : (forall x, In x l -> f x = g x) -> existsb f l = existsb g l.
Proof.
  induction l as [|a l IH]; cbn; intros H; [reflexivity|].
  rewrite (H a), IH; auto.
Qed.
Lemma forallb_ext_in {A} (f g : A -> bool) l : (forall x, In x l -> f x = g x) -> forallb f l = forallb g l.
Proof.
  induction l as [|a l IH]; cbn; intros H; [reflexivity|].
  rewrite (H a), IH; auto.
Qed.
Lemma negb_forallb {A} (f : A -> bool) l : negb (forallb f l) = existsb (fun x => negb (f x)) l.
Proof. induction l as [|a l IH]; cbn; [reflexivity|]. rewrite negb_andb, IH. reflexivity. Qed.
Lemma existsb_orb {A} (f g : A -> bool) l : existsb (fun x => f x || g x) l = existsb f l || existsb g l.
Proof. induction l as [|a l IH]; cbn; [reflexivity|]. rewrite IH. destruct (f a), (g a), (existsb f l); reflexivity. Qed.
Lemma streqb_sym a b : String.eqb a b = String.eqb b a.
Proof. destruct (String.eqb_spec a b), (String.eqb_spec b a); congruence. Qed.

(* ---------- get_duplicates ---------- *)
Lemma has_dup_from_spec l : forall seen, has_dup_from seen l = negb (nodupb l) || existsb (fun x => mem x seen) l.
Proof.
  induction l as [|x r IH]; intros seen; cbn [has_dup_from nodupb existsb]; [reflexivity|].
  destruct (mem x seen) eqn:Hm.
  - now rewrite orb_true_r.
  - rewrite IH. cbn [orb]. rewrite negb_andb, negb_involutive.
    assert (He : existsb (fun y => mem y (x :: seen)) r = existsb (String.eqb x) r || existsb (fun y => mem y seen) r).
    { rewrite <- existsb_orb. apply existsb_ext_in. intros y _. unfold mem. cbn [existsb]. now rewrite streqb_sym. }
    rewrite He. destruct (existsb (String.eqb x) r), (nodupb r), (existsb (fun y => mem y seen) r); reflexivity.
Qed.
Lemma has_dup_spec l : has_dup l = negb (nodupb l).
Proof.
  unfold has_dup. rewrite has_dup_from_spec.
  assert (H : existsb (fun x => mem x []) l = false) by (apply existsb_false; reflexivity).
  now rewrite H, orb_false_r.
Qed.

(* ---------- time windows ---------- *)
Lemma parse_window_eq w : get_time_window_from_vec w = parse_window w.
Proof. destruct w as [|a [|b [|c r]]]; reflexivity. Qed.
Lemma overlap_eq a b : intersects a b = overlap a b.
Proof.
  unfold intersects, overlap.
  destruct (Z.leb_spec (fst a) (snd b)), (Z.leb_spec (fst b) (snd a)), (Z.ltb_spec (snd a) (fst b)), (Z.ltb_spec (snd b) (fst a));
    cbn; try reflexivity; lia.
Qed.
Lemma overlap_sym a b : overlap a b = overlap b a.
Proof. unfold overlap. now rewrite orb_comm. Qed.
Lemma somes_eq l : unwrap_all l = somes l.
Proof. induction l as [|[x|] r IH]; cbn; congruence. Qed.

(* sorting *)
Definition le_start (a b : tw) : Prop := fst a <= fst b.
Lemma insert_perm x l : Permutation (x :: l) (insert_by_start x l).
Proof.
  induction l as [|y r IH]; cbn [insert_by_start]; [reflexivity|].
  destruct (fst x <=? fst y); [reflexivity|].
  apply perm_trans with (y :: x :: r); [apply perm_swap|apply perm_skip, IH].
Qed.
Lemma sort_perm l : Permutation l (sort_by_start l).
Proof.
  induction l as [|x r IH]; cbn [sort_by_start]; [reflexivity|].
  apply perm_trans with (x :: sort_by_start r); [apply perm_skip, IH|apply insert_perm].
Qed.
Lemma perm_Forall {A} (P : A -> Prop) l l' : Permutation l l' -> Forall P l -> Forall P l'.
Proof.
  intros Hp H. rewrite Forall_forall in *. intros x Hx. apply H. apply (Permutation_in x (Permutation_sym Hp) Hx).
Qed.
Lemma insert_sorted x l : StronglySorted le_start l -> StronglySorted le_start (insert_by_start x l).
Proof.
  induction l as [|y r IH]; intros HS; cbn [insert_by_start].
  - constructor; constructor.
  - inversion HS as [|? ? HSr Hy]; subst. destruct (Z.leb_spec (fst x) (fst y)) as [Hle|Hgt].
    + constructor; [exact HS|]. constructor; [exact Hle|].
      eapply Forall_impl; [|exact Hy]. unfold le_start. intros z Hz. lia.
    + constructor; [now apply IH|].
      apply (perm_Forall _ _ _ (insert_perm x r)). constructor; [unfold le_start; lia|exact Hy].
Qed.
Lemma sort_sorted l : StronglySorted le_start (sort_by_start l).
Proof. induction l as [|x r IH]; cbn [sort_by_start]; [constructor|now apply insert_sorted]. Qed.

Lemma forallb_perm {A} (f : A -> bool) l l' : Permutation l l' -> forallb f l = forallb f l'.
Proof.
  induction 1 as [|x l l' _ IH|x y l|l l' l'' _ IH1 _ IH2]; cbn [forallb]; [reflexivity|now rewrite IH| |congruence].
  destruct (f x), (f y); reflexivity.
Qed.
Lemma pw_cons {A} (r : A -> A -> bool) x t : pairwise r (x :: t) = forallb (r x) t && pairwise r t.
Proof. reflexivity. Qed.
Lemma pairwise_perm {A} (r : A -> A -> bool) (Hsym : forall a b, r a b = r b a) l l' :
  Permutation l l' -> pairwise r l = pairwise r l'.
Proof.
  induction 1 as [|x l l' Hp IH|x y l|l l' l'' _ IH1 _ IH2]; [reflexivity| | |congruence].
  - rewrite !pw_cons. now rewrite IH, (forallb_perm (r x) l l' Hp).
  - rewrite !pw_cons. cbn [forallb]. rewrite (Hsym y x).
    destruct (r x y), (forallb (r y) l), (forallb (r x) l), (pairwise r l); reflexivity.
Qed.
Lemma pairwise_ext {A} (r r' : A -> A -> bool) l : (forall a b, r a b = r' a b) -> pairwise r l = pairwise r' l.
Proof.
  intros H. induction l as [|x t IH]; [reflexivity|]. rewrite !pw_cons, IH. f_equal. apply forallb_ext_in. intros; apply H.
Qed.

Definition valid (a : tw) : bool := fst a <=? snd a.
Definition disj (a b : tw) : bool := negb (intersects a b).
Lemma disj_sym a b : disj a b = disj b a.
Proof. unfold disj. now rewrite !overlap_eq, overlap_sym. Qed.
Lemma pair_ok_eq skip a b : pair_ok skip a b = valid a && valid b && (skip || disj a b).
Proof. reflexivity. Qed.
Lemma w2_cons f a b r : windows2_all f (a :: b :: r) = f a b && windows2_all f (b :: r).
Proof. reflexivity. Qed.

(* windows(2).all(pair_ok) = every window valid and every adjacent pair disjoint *)
Lemma windows2_pair_ok_cons skip r : forall a b,
  windows2_all (pair_ok skip) (a :: b :: r) = valid a && forallb valid (b :: r) && (skip || windows2_all disj (a :: b :: r)).
Proof.
  induction r as [|c r' IH]; intros a b.
  - rewrite !w2_cons, pair_ok_eq. cbn [windows2_all forallb].
    destruct (valid a), (valid b), skip, (disj a b); reflexivity.
  - rewrite (w2_cons (pair_ok skip) a b), (w2_cons disj a b), IH, pair_ok_eq. cbn [forallb].
    destruct (valid a), (valid b), (valid c), (forallb valid r'), skip, (disj a b), (windows2_all disj (b :: c :: r')); reflexivity.
Qed.
Lemma windows2_pair_ok skip l : (2 <= List.length l)%nat ->
  windows2_all (pair_ok skip) l = forallb valid l && (skip || windows2_all disj l).
Proof.
  destruct l as [|a [|b r]]; cbn [List.length]; try lia. intros _. now rewrite windows2_pair_ok_cons.
Qed.

(* on a list sorted by start whose windows are all valid, adjacent disjointness is pairwise disjointness *)
Lemma sorted_adjacent_pairwise l : StronglySorted le_start l -> forallb valid l = true ->
  windows2_all disj l = pairwise disj l.
Proof.
  induction l as [|a l IH]; intros HS Hv; [reflexivity|].
  inversion HS as [|? ? HSl Ha]; subst. cbn [forallb] in Hv. apply andb_prop in Hv. destruct Hv as [Hva Hvl].
  specialize (IH HSl Hvl). destruct l as [|b r]; [reflexivity|].
  rewrite w2_cons, IH, (pw_cons disj a). cbn [forallb].
  destruct (disj a b) eqn:Hd; [|reflexivity]. cbn [andb].
  assert (Hall : forallb (disj a) r = true).
  { apply forallb_forall. intros c Hc.
    inversion HSl as [|? ? _ Hb]; subst. rewrite Forall_forall in Hb. specialize (Hb c Hc).
    inversion Ha as [|? ? Hab _]; subst. cbn [forallb] in Hvl. apply andb_prop in Hvl. destruct Hvl as [Hvb _].
    unfold valid in Hva, Hvb. apply Z.leb_le in Hva, Hvb. unfold le_start in Hb, Hab.
    unfold disj, intersects in *.
    destruct (Z.leb_spec (fst a) (snd b)), (Z.leb_spec (fst b) (snd a)); cbn in Hd; try discriminate;
      destruct (Z.leb_spec (fst a) (snd c)), (Z.leb_spec (fst c) (snd a)); cbn; try reflexivity; lia. }
  now rewrite Hall.
Qed.

Lemma none_forallb ws : existsb (@is_none tw) ws = true ->
  forallb (fun o : option (Z * Z) => match o with Some w => fst w <=? snd w | None => false end) ws = false.
Proof.
  induction ws as [|[w|] r IH]; cbn [existsb forallb is_none orb]; [discriminate| |reflexivity].
  intros H. rewrite (IH H). apply andb_false_r.
Qed.
Lemma all_some ws : existsb (@is_none tw) ws = false -> ws = map Some (unwrap_all ws).
Proof.
  induction ws as [|[w|] r IH]; cbn [existsb unwrap_all map is_none orb]; [reflexivity| |discriminate].
  intros H. f_equal. now apply IH.
Qed.
Lemma map_some_facts (l : list tw) :
  nonempty (map Some l) = nonempty l
  /\ forallb (fun o : option (Z * Z) => match o with Some w => fst w <=? snd w | None => false end) (map Some l) = forallb valid l
  /\ @somes (Z * Z) (map Some l) = l /\ unwrap_all (map Some l) = l.
Proof.
  repeat split; try (now destruct l); induction l as [|x l IH]; cbn; try reflexivity; now rewrite IH.
Qed.

(* check_time_windows (after the repair c324ed4) is exactly the documented window rule, for lists of any length *)
Lemma check_time_windows_spec ws skip : check_time_windows ws skip = nonempty ws && windows_ok skip ws.
Proof.
  unfold check_time_windows, windows_ok. destruct (existsb is_none ws) eqn:En.
  - rewrite (none_forallb ws En). now rewrite andb_false_r.
  - rewrite (all_some ws En). generalize (unwrap_all ws). clear ws En. intros l.
    destruct (map_some_facts l) as (E1 & E2 & E3 & E4). rewrite E1, E2, E3, E4. clear E1 E2 E3 E4.
    destruct l as [|a [|b r]].
    + reflexivity.
    + cbn. unfold valid. destruct (fst a <=? snd a), skip; reflexivity.
    + cbv beta iota zeta. remember (a :: b :: r) as l eqn:El.
      assert (Hl2 : (2 <= List.length l)%nat) by (subst l; cbn; lia).
      assert (Hne : nonempty l = true) by (subst l; reflexivity).
      clear El a b r. rewrite Hne. cbn [andb].
      assert (Hp := sort_perm l). assert (Hlen := Permutation_length Hp).
      assert (Hnil : is_nil (sort_by_start l) = false) by (destruct (sort_by_start l); [cbn in Hlen; lia|reflexivity]).
      rewrite Hnil. cbn [negb andb]. rewrite windows2_pair_ok by lia. rewrite <- (forallb_perm valid _ _ Hp).
      destruct (forallb valid l) eqn:Hv; [|reflexivity]. cbn [andb].
      rewrite sorted_adjacent_pairwise; [|apply sort_sorted|now rewrite <- (forallb_perm valid _ _ Hp)].
      rewrite <- (pairwise_perm disj disj_sym _ _ Hp).
      rewrite (pairwise_ext disj (fun a b => negb (overlap a b))); [reflexivity|].
      intros x y. unfold disj. now rewrite overlap_eq.
Qed.

Lemma windows_ok_all_some skip ws : windows_ok skip ws = true -> forall o, In o ws -> exists w, o = Some w /\ fst w <= snd w.
Proof.
  unfold windows_ok. intros H o Ho. apply andb_prop in H. destruct H as [H _].
  rewrite forallb_forall in H. specialize (H o Ho). destruct o as [w|]; [|discriminate].
  exists w. split; auto. now apply Z.leb_le.
Qed.

(* ---------- jobs.rs rules against the documented rules ---------- *)
Lemma tasks_olist o : tasks o = olist o. Proof. reflexivity. Qed.
Lemma job_tasks_all j : job_tasks j = all_tasks j. Proof. reflexivity. Qed.

Lemma e1100_ok d : check_e1100 d = Some (viol_1100 d).
Proof. unfold check_e1100, viol_1100. now rewrite has_dup_spec. Qed.

Lemma e1101_ok d : check_e1101 d = Some (viol_1101 d).
Proof.
  unfold check_e1101, viol_1101. f_equal. apply existsb_ext_in. intros j _. f_equal.
  apply existsb_ext_in. intros t _. unfold is_some, is_none. now destruct (tk_demand t).
Qed.

(* MultiDimLoad arithmetic *)
Lemma vzip_nth f (Hf : f 0 0 = 0) a : forall b i, nth i (vzip f a b) 0 = f (nth i a 0) (nth i b 0).
Proof.
  induction a as [|x a IH]; intros b i; cbn [vzip].
  - assert (Hn : forall k, nth k (@nil Z) 0 = 0) by (now intros [|k]).
    rewrite Hn. revert i. induction b as [|y b IHb]; intros [|i]; cbn [map nth]; rewrite ?Hn; auto.
  - destruct b as [|y b]; destruct i as [|i]; cbn [nth]; auto.
    rewrite IH. now destruct i.
Qed.
Lemma vzip_length f a : forall b, List.length (vzip f a b) = Nat.max (List.length a) (List.length b).
Proof.
  induction a as [|x a IH]; intros b; cbn [vzip].
  - now rewrite map_length.
  - destruct b as [|y b]; cbn [List.length]; rewrite IH; cbn; lia.
Qed.
Definition max_len (ts : list task) : nat := fold_right (fun t m => Nat.max (List.length (demand_vec t)) m) 0%nat ts.
Lemma get_demand_fold_nth i ts : forall acc,
  nth i (fold_left (fun acc t => vadd (demand_vec t) acc) ts acc) 0 = nth i acc 0 + dim_sum i ts.
Proof.
  induction ts as [|t ts IH]; intros acc; cbn [fold_left dim_sum fold_right]; [lia|].
  rewrite IH. unfold vadd. rewrite vzip_nth by reflexivity. unfold demand_vec. fold (dim_sum i ts). lia.
Qed.
Lemma get_demand_fold_len ts : forall acc,
  List.length (fold_left (fun acc t => vadd (demand_vec t) acc) ts acc) = Nat.max (List.length acc) (max_len ts).
Proof.
  induction ts as [|t ts IH]; intros acc; cbn [fold_left max_len fold_right]; [lia|].
  rewrite IH. unfold vadd. rewrite vzip_length. fold (max_len ts). lia.
Qed.
Lemma get_demand_nth i o : nth i (get_demand o) 0 = dim_sum i (tasks o).
Proof. unfold get_demand. rewrite get_demand_fold_nth. now destruct i. Qed.
Lemma get_demand_len o : List.length (get_demand o) = max_len (olist o).
Proof. unfold get_demand. now rewrite get_demand_fold_len. Qed.

Lemma existsb_nonzero_nth v n : (List.length v <= n)%nat ->
  existsb (fun x => negb (x =? 0)) v = existsb (fun i => negb (nth i v 0 =? 0)) (seq 0 n).
Proof.
  intros Hn. apply eq_true_iff_eq. rewrite !existsb_exists. split.
  - intros (x & Hx & Hnz). destruct (In_nth _ _ 0 Hx) as (i & Hi & Hnth).
    exists i. split; [apply in_seq; lia|now rewrite Hnth].
  - intros (i & Hi & Hnz). exists (nth i v 0). split; auto.
    destruct (Nat.lt_ge_cases i (List.length v)) as [Hlt|Hge]; [now apply nth_In|].
    rewrite nth_overflow in Hnz by lia. discriminate.
Qed.

Lemma max_len_app a b : max_len (a ++ b) = Nat.max (max_len a) (max_len b).
Proof. induction a as [|t a IH]; cbn; [reflexivity|]. fold (max_len (a ++ b)) (max_len a). rewrite IH. lia. Qed.
Lemma max_len_le n ts : (forall t, In t ts -> task_over8 t = false) -> n = 8%nat -> (max_len ts <= n)%nat.
Proof.
  intros H ->. induction ts as [|t ts IH]; cbn; [lia|]. fold (max_len ts).
  assert (Ht := H t (or_introl eq_refl)). unfold task_over8, demand_vec, over8 in *.
  assert (IH' : (max_len ts <= 8)%nat) by (apply IH; intros; apply H; now right).
  destruct (tk_demand t) as [v|]; cbn [List.length]; [apply Nat.ltb_ge in Ht|]; lia.
Qed.
Lemma max_len_pos ts : forallb (fun t => match tk_demand t with Some (_ :: _) => false | _ => true end) ts = false ->
  (0 < max_len ts)%nat.
Proof.
  induction ts as [|t ts IH]; [discriminate|]. cbn [forallb max_len fold_right]. fold (max_len ts). unfold demand_vec.
  destruct (tk_demand t) as [[|x v]|]; cbn [andb List.length]; intros H; first [apply IH in H; lia | lia].
Qed.

Lemma k7_jobs d : k7_over8 d = false -> forall j, In j (d_jobs d) -> forall t, In t (all_tasks j) -> task_over8 t = false.
Proof.
  unfold k7_over8. intros H j Hj t Ht. apply orb_false_iff in H. destruct H as [_ H].
  rewrite existsb_false in H. specialize (H j Hj). cbn beta in H. rewrite existsb_false in H.
  specialize (H t Ht). unfold task_over8, over8. exact H.
Qed.

Lemma e1102_ok d : k7_over8 d = false -> check_e1102 d = Some (viol_1102 d).
Proof.
  intros H7. unfold check_e1102.
  assert (Hp : existsb e1102_job_panics (d_jobs d) = false).
  { apply existsb_false. intros j Hj. unfold e1102_job_panics.
    assert (He : existsb task_over8 (olist (j_pickups j) ++ olist (j_deliveries j)) = false).
    { apply existsb_false. intros t Ht. apply (k7_jobs d H7 j Hj). unfold all_tasks. rewrite app_assoc. apply in_or_app. now left. }
    rewrite He. now rewrite andb_false_r. }
  rewrite Hp. f_equal. unfold viol_1102. apply existsb_ext_in. intros j Hj. unfold e1102_job.
  assert (Hh : forall o, has_tasks o = nonempty (tasks o)) by (intros [[|? ?]|]; reflexivity).
  rewrite !Hh. destruct (nonempty (tasks (j_pickups j)) && nonempty (tasks (j_deliveries j))) eqn:Hboth; [|reflexivity].
  cbn [andb].
  set (P := get_demand (j_pickups j)) in *. set (D := get_demand (j_deliveries j)) in *.
  assert (Hlen : List.length (vsub P D) = max_len (tasks (j_pickups j) ++ tasks (j_deliveries j))).
  { unfold vsub. rewrite vzip_length. subst P D. rewrite !get_demand_len, max_len_app. reflexivity. }
  assert (Hle : (List.length (vsub P D) <= 8)%nat).
  { rewrite Hlen. apply max_len_le; [|reflexivity]. intros t Ht. apply (k7_jobs d H7 j Hj).
    unfold all_tasks. rewrite app_assoc. apply in_or_app. now left. }
  unfold load_ne_default. rewrite (existsb_nonzero_nth _ 8 Hle). apply existsb_ext_in. intros i _.
  unfold vsub. rewrite vzip_nth by reflexivity. subst P D. rewrite !get_demand_nth.
  destruct (Z.eqb_spec (dim_sum i (tasks (j_pickups j)) - dim_sum i (tasks (j_deliveries j))) 0),
           (Z.eqb_spec (dim_sum i (tasks (j_pickups j))) (dim_sum i (tasks (j_deliveries j)))); cbn; try reflexivity; lia.
Qed.



Lemma raw_windows_spec tws : check_raw_time_windows tws false = times_ok tws.
Proof.
  unfold check_raw_time_windows, get_time_windows, times_ok. rewrite check_time_windows_spec.
  rewrite (map_ext _ _ parse_window_eq). now destruct tws.
Qed.

Lemma has_invalid_tws_spec o :
  has_invalid_tws o = existsb (fun t => existsb (fun p => match pl_times p with
                                                          | Some tws => negb (times_ok tws)
                                                          | None => false end) (tk_places t)) (tasks o).
Proof.
  unfold has_invalid_tws. apply existsb_ext_in. intros t _. apply existsb_ext_in. intros p _.
  destruct (pl_times p); [now rewrite raw_windows_spec|reflexivity].
Qed.
Lemma e1103_ok d : check_e1103 d = Some (viol_1103 d).
Proof.
  unfold check_e1103, viol_1103. f_equal. apply existsb_ext_in. intros j _.
  unfold job_tasks. rewrite !existsb_app, !has_invalid_tws_spec.
  destruct (existsb _ (tasks (j_pickups j))), (existsb _ (tasks (j_deliveries j))),
           (existsb _ (tasks (j_replacements j))), (existsb _ (tasks (j_services j))); reflexivity.
Qed.

Lemma e1104_ok d : check_e1104 d = Some (viol_1104 d).
Proof.
  unfold check_e1104, viol_1104. f_equal. apply existsb_ext_in. intros j _. unfold reserved. cbn [existsb].
  repeat match goal with |- context [String.eqb ?a ?b] => destruct (String.eqb a b) end; reflexivity.
Qed.
Lemma e1105_ok d : check_e1105 d = Some (viol_1105 d).
Proof.
  unfold check_e1105, viol_1105. f_equal. apply existsb_ext_in. intros j _. change (job_tasks j) with (all_tasks j). now destruct (all_tasks j).
Qed.
Lemma e1106_ok d : check_e1106 d = Some (viol_1106 d).
Proof. reflexivity. Qed.
Lemma e1107_ok d : check_e1107 d = Some (viol_1107 d).
Proof.
  unfold check_e1107, viol_1107. f_equal. apply existsb_ext_in. intros j _. change (job_tasks j) with (all_tasks j).
  apply existsb_ext_in. intros t _. now destruct (tk_demand t).
Qed.

(* ---------- vehicles.rs rules against the documented rules ---------- *)
Lemma all_shifts_total f g ss : (forall s, In s ss -> f s = Some (g s)) -> all_shifts f ss = Some (forallb g ss).
Proof.
  induction ss as [|s ss IH]; intros H; cbn [all_shifts forallb]; [reflexivity|].
  rewrite (H s) by now left. destruct (g s); cbn -[all_shifts forallb]; [apply IH; intros s0 H0; apply H; cbn; auto|reflexivity].
Qed.
Lemma any_vehicle_invalid_total f g vs : (forall v, In v vs -> forall s, In s (v_shifts v) -> f s = Some (g s)) ->
  any_vehicle_invalid f vs = Some (existsb (fun v => existsb (fun s => negb (g s)) (v_shifts v)) vs).
Proof.
  induction vs as [|v vs IH]; intros H; cbn [any_vehicle_invalid existsb]; [reflexivity|].
  rewrite (all_shifts_total f g) by (apply H; now left). rewrite IH by (intros v0 Hv0 s0 Hs0; apply (H v0); [now right|exact Hs0]).
  now rewrite negb_forallb.
Qed.

Lemma e1300_ok d : check_e1300 d = Some (viol_1300 d).
Proof. unfold check_e1300, viol_1300. now rewrite has_dup_spec. Qed.
Lemma e1301_ok d : check_e1301 d = Some (viol_1301 d).
Proof. unfold check_e1301, viol_1301. now rewrite has_dup_spec. Qed.

Lemma shift_window_eq s : get_time_window_from_vec (shift_raw_window s) = shift_window s.
Proof. unfold shift_raw_window, shift_window, get_time_window_from_vec, get_time_window. now destruct (sh_end s). Qed.



Lemma latest_valid_eq s : latest_valid s = latest_is_date s.
Proof. unfold latest_valid, latest_is_date, is_some, is_none. destruct (sh_latest s) as [l|]; [destruct (tm_val l)|]; reflexivity. Qed.

Lemma e1302_ok d : check_e1302 d = Some (viol_1302 d).
Proof.
  unfold check_e1302, viol_1302. f_equal. apply existsb_ext_in. intros v _. rewrite negb_andb. f_equal.
  - f_equal. unfold check_raw_time_windows, get_time_windows. rewrite map_map, check_time_windows_spec.
    rewrite (map_ext _ _ shift_window_eq). now destruct (v_shifts v).
  - rewrite negb_forallb. apply existsb_ext_in. intros s _. now rewrite latest_valid_eq.
Qed.

Lemma shift_span_eq s : get_shift_time_window s = shift_span s.
Proof. reflexivity. Qed.

(* check_shift_time_windows against "window rules + inside the shift" *)
Lemma check_shift_windows_spec s ws skip :
  check_shift_time_windows (get_shift_time_window s) ws skip
  = negb (nonempty ws && negb (windows_ok skip ws && inside_shift s ws)).
Proof.
  unfold check_shift_time_windows. destruct ws as [|o ws']; [reflexivity|].
  set (ws := o :: ws') in *. rewrite check_time_windows_spec.
  change (nonempty ws) with true. cbn [andb]. rewrite negb_involutive.
  destruct (windows_ok skip ws) eqn:Hok; [|reflexivity]. cbn [andb].
  unfold inside_shift. rewrite shift_span_eq. destruct (shift_span s) as [sp|]; [|reflexivity].
  assert (Hall := windows_ok_all_some _ _ Hok). clearbody ws. clear Hok.
  induction ws as [|x ws IH]; [reflexivity|]. cbn [forallb somes].
  destruct (Hall x (or_introl eq_refl)) as (w & -> & _). cbn [forallb somes]. rewrite overlap_eq. f_equal.
  apply IH. intros; apply Hall; now right.
Qed.

Lemma break_tws_spec s bs : break_tws s bs = break_windows s bs.
Proof.
  induction bs as [|b bs IH]; [reflexivity|]. cbn [break_tws break_windows flat_map]. fold (break_windows s bs).
  rewrite <- IH. destruct b as [w|o|e l dur|e l dur]; cbn [break_tw app]; try reflexivity.
  destruct (List.length o =? 2)%nat; reflexivity.
Qed.



Lemma e1303_ok d : check_e1303 d = Some (viol_1303 d).
Proof.
  unfold check_e1303, viol_1303.
  rewrite (any_vehicle_invalid_total e1303_shift
           (fun s => match sh_breaks s with
                     | None => true
                     | Some bs => let ws := break_windows s bs in
                                  negb (nonempty ws && negb (windows_ok false ws && inside_shift s ws))
                     end)).
  - f_equal. apply existsb_ext_in. intros v _. apply existsb_ext_in. intros s _.
    destruct (sh_breaks s); [now rewrite negb_involutive|reflexivity].
  - intros v _ s _. unfold e1303_shift. destruct (sh_breaks s) as [bs|]; [|reflexivity].
    rewrite break_tws_spec. f_equal. apply check_shift_windows_spec.
Qed.

Lemma reload_windows_eq rs : reload_tws rs = reload_windows rs.
Proof.
  unfold reload_tws, reload_windows. induction rs as [|r rs IH]; [reflexivity|]. cbn [flat_map]. rewrite IH. f_equal.
Qed.

Lemma e1304_ok d : check_e1304 d = Some (viol_1304 d).
Proof.
  unfold check_e1304, viol_1304.
  rewrite (any_vehicle_invalid_total e1304_shift
           (fun s => match sh_reloads s with
                     | None => true
                     | Some rs => let ws := reload_windows rs in
                                  negb (nonempty ws && negb (windows_ok true ws && inside_shift s ws))
                     end)).
  - f_equal. apply existsb_ext_in. intros v _. apply existsb_ext_in. intros s _.
    destruct (sh_reloads s); [now rewrite negb_involutive|reflexivity].
  - intros v _ s _. unfold e1304_shift. destruct (sh_reloads s) as [rs|]; [|reflexivity].
    rewrite reload_windows_eq. f_equal. apply check_shift_windows_spec.
Qed.

Lemma e1306_ok d : check_e1306 d = Some (viol_1306 d).
Proof. unfold check_e1306, viol_1306. f_equal. apply existsb_ext_in. intros v _. apply andb_comm. Qed.

Lemma e1307_ok d : check_e1307 d = Some (viol_1307 d).
Proof.
  unfold check_e1307, viol_1307.
  rewrite (any_vehicle_invalid_total e1307_shift
             (fun s => match sh_breaks s with
                       | None => true
                       | Some bs => negb (existsb is_offset_break bs
                                          && match sh_latest s with
                                             | None => true
                                             | Some l => negb (String.eqb (tm_txt l) (tm_txt (sh_earliest s)))
                                             end)
                       end)).
  - f_equal. apply existsb_ext_in. intros v _. apply existsb_ext_in. intros s _.
    destruct (sh_breaks s) as [bs|]; [|reflexivity]. rewrite negb_involutive.
    assert (E1 : existsb is_offset_break bs
                 = existsb (fun b => match b with BOptOff _ | BReqOff _ _ _ => true | _ => false end) bs)
      by (apply existsb_ext_in; intros b _; now destruct b).
    rewrite E1. now destruct (sh_latest s).
  - intros v _ s _. unfold e1307_shift. now destruct (sh_breaks s).
Qed.

Lemma e1308_ok d : check_e1308 d = Some (viol_1308 d).
Proof.
  unfold check_e1308, viol_1308. rewrite has_dup_spec. change (olist (d_resources d)) with (match d_resources d with Some l => l | None => [] end).
  set (ids := match d_resources d with Some l => l | None => [] end).
  destruct (nodupb ids); cbn [negb orb]; [|reflexivity].
  rewrite (any_vehicle_invalid_total (e1308_shift ids)
             (fun s => forallb (fun r => match rl_resource r with Some x => mem x ids | None => true end) (olist (sh_reloads s)))).
  - f_equal. apply existsb_ext_in. intros v _. apply existsb_ext_in. intros s _. rewrite negb_forallb.
    apply existsb_ext_in. intros r _. now destruct (rl_resource r).
  - reflexivity.
Qed.

(* ---------- routing.rs ---------- *)
Lemma e1500_ok d : check_e1500 d = Some (viol_1500 d).
Proof. unfold check_e1500, viol_1500. now rewrite has_dup_spec. Qed.
Lemma e1501_ok d : check_e1501 d = Some (viol_1501 d).
Proof. unfold check_e1501, viol_1501. now destruct (d_profiles d). Qed.
Lemma e1504_ok d : check_e1504 d = Some (viol_1504 d).
Proof. unfold check_e1504, viol_1504. now destruct (d_profiles d). Qed.
Lemma e1505_ok d : check_e1505 d = Some (viol_1505 d).
Proof. reflexivity. Qed.

(* ---------- validate = the documented rules, outside the known classes ---------- *)
Definition spec_result (d : doc) : vres :=
  match filter (fun c => violates c d) (map fst all_checks) with [] => VOk | cs => VErr cs end.

Lemma known_false d : known d = false ->
  k7_over8 d = false /\ k9_no_vehicles d = false /\ g2_required_breaks_of d = false.
Proof.
  unfold known, known_table. cbn [existsb snd]. intros H.
  repeat (apply orb_false_iff in H; destruct H as [? H]). repeat split; assumption.
Qed.

Lemma checks_agree d : known d = false -> forall c f, In (c, f) all_checks -> f d = Some (violates c d).
Proof.
  intros Hk c f Hin. destruct (known_false d Hk) as (H7 & H9 & _).
  unfold all_checks, jobs_checks, vehicles_checks, routing_checks in Hin. cbn [app In] in Hin.
  repeat (destruct Hin as [Hin|Hin]; [inversion Hin; subst c f; clear Hin|]); [..|contradiction].
  - change (violates 1100 d) with (viol_1100 d). apply e1100_ok.
  - change (violates 1101 d) with (viol_1101 d). apply e1101_ok.
  - change (violates 1102 d) with (viol_1102 d). now apply e1102_ok.
  - change (violates 1103 d) with (viol_1103 d). apply e1103_ok.
  - change (violates 1104 d) with (viol_1104 d). apply e1104_ok.
  - change (violates 1105 d) with (viol_1105 d). apply e1105_ok.
  - change (violates 1106 d) with (viol_1106 d). apply e1106_ok.
  - change (violates 1107 d) with (viol_1107 d). apply e1107_ok.
  - change (violates 1300 d) with (viol_1300 d). apply e1300_ok.
  - change (violates 1301 d) with (viol_1301 d). apply e1301_ok.
  - change (violates 1302 d) with (viol_1302 d). apply e1302_ok.
  - change (violates 1303 d) with (viol_1303 d). apply e1303_ok.
  - change (violates 1304 d) with (viol_1304 d). apply e1304_ok.
  - change (violates 1306 d) with (viol_1306 d). apply e1306_ok.
  - change (violates 1307 d) with (viol_1307 d). apply e1307_ok.
  - change (violates 1308 d) with (viol_1308 d). apply e1308_ok.
  - change (violates 1500 d) with (viol_1500 d). apply e1500_ok.
  - change (violates 1501 d) with (viol_1501 d). apply e1501_ok.
  - change (violates 1504 d) with (viol_1504 d). apply e1504_ok.
  - change (violates 1505 d) with (viol_1505 d). apply e1505_ok.
Qed.

Lemma validate_generic (checks : list (Z * (doc -> option bool))) d :
  (forall c f, In (c, f) checks -> f d = Some (violates c d)) ->
  existsb (fun r : Z * option bool => is_none (snd r)) (map (fun cf => (fst cf, snd cf d)) checks) = false
  /\ map fst (filter (fun r : Z * option bool => match snd r with Some true => true | _ => false end)
                     (map (fun cf => (fst cf, snd cf d)) checks))
     = filter (fun c => violates c d) (map fst checks).
Proof.
  induction checks as [|[c f] r IH]; intros H; [split; reflexivity|].
  destruct IH as [IH1 IH2]; [intros c' f' Hin; apply H; now right|].
  cbn [map existsb filter fst snd]. rewrite (H c f) by now left. cbn [is_none orb]. split; [exact IH1|].
  destruct (violates c d); cbn [map fst]; now rewrite IH2.
Qed.

Lemma validate_spec d : known d = false -> validate d = spec_result d.
Proof.
  intros Hk. destruct (validate_generic all_checks d (checks_agree d Hk)) as [Hn Hc].
  unfold validate, spec_result. cbv zeta. rewrite Hn, Hc. reflexivity.
Qed.

Lemma spec_result_cases d :
  (spec_result d = VOk /\ forall c, In c (map fst all_checks) -> violates c d = false)
  \/ (exists cs, spec_result d = VErr cs /\ cs <> [] /\ forall c, In c cs <-> In c (map fst all_checks) /\ violates c d = true).
Proof.
  unfold spec_result. destruct (filter (fun c => violates c d) (map fst all_checks)) as [|c0 cs] eqn:E.
  - left. split; [reflexivity|]. intros c Hc. destruct (violates c d) eqn:Ev; [|reflexivity].
    assert (Hin : In c (filter (fun c => violates c d) (map fst all_checks))) by (apply filter_In; auto).
    rewrite E in Hin. destruct Hin.
  - right. exists (c0 :: cs). split; [reflexivity|]. split; [discriminate|]. intros c. rewrite <- E. apply filter_In.
Qed.

(* ---------- a validated document cannot make the reader panic (outside the known classes) ---------- *)
Lemma forallb_false_exists {A} (f : A -> bool) l : forallb f l = false -> exists x, In x l /\ f x = false.
Proof.
  induction l as [|a l IH]; cbn; [discriminate|]. destruct (f a) eqn:E; cbn.
  - intros H. destruct (IH H) as (x & Hx & Hf). exists x. auto.
  - intros _. exists a. auto.
Qed.

Lemma shift_rule_some skip ws inside o :
  nonempty ws && negb (windows_ok skip ws && inside) = false -> In o ws -> exists w : Z * Z, o = Some w.
Proof.
  intros H Ho. destruct ws as [|x r]; [destruct Ho|]. cbn [nonempty andb] in H. apply negb_false_iff in H.
  apply andb_prop in H. destruct H as [H _]. destruct (windows_ok_all_some _ _ H o Ho) as (w & -> & _). now exists w.
Qed.

Lemma parse_window_some w x : parse_window w = Some x -> tw_panics w = false.
Proof.
  destruct w as [|a [|b [|c r]]]; cbn; try discriminate. unfold tm_bad, is_none.
  destruct (tm_val a), (tm_val b); cbn; congruence.
Qed.

Lemma times_ok_no_panic tws : times_ok tws = true -> existsb tw_panics tws = false.
Proof.
  unfold times_ok. intros H. apply andb_prop in H. destruct H as [_ H]. apply existsb_false. intros w Hw.
  destruct (windows_ok_all_some _ _ H (parse_window w) (in_map _ _ _ Hw)) as (x & Hx & _). now apply (parse_window_some w x).
Qed.

Section Safe.
  Variable d : doc.
  Hypothesis Hk : known d = false.
  Hypothesis Hv : forall c, In c (map fst all_checks) -> violates c d = false.

  Let H1302 : viol_1302 d = false. Proof. apply (Hv 1302). cbn. tauto. Qed.
  Let H1103 : viol_1103 d = false. Proof. apply (Hv 1103). cbn. tauto. Qed.
  Let H1303 : viol_1303 d = false. Proof. apply (Hv 1303). cbn. tauto. Qed.
  Let H1304 : viol_1304 d = false. Proof. apply (Hv 1304). cbn. tauto. Qed.
  Let H1505 : viol_1505 d = false. Proof. apply (Hv 1505). cbn. tauto. Qed.

  Lemma shifts_parse v : In v (d_vehicles d) ->
    v_shifts v <> [] /\ forall s, In s (v_shifts v) ->
      tm_bad (sh_earliest s) = false /\ match sh_end s with Some e => tm_bad e | None => false end = false
      /\ match sh_latest s with Some l => tm_bad l | None => false end = false.
  Proof.
    intros Hin. unfold viol_1302 in H1302. rewrite existsb_false in H1302. specialize (H1302 v Hin). cbn beta in H1302.
    apply orb_false_iff in H1302. destruct H1302 as [H1302a Hlat].
    apply negb_false_iff in H1302a. apply andb_prop in H1302a. destruct H1302a as [Hne Hok]. split.
    - now destruct (v_shifts v).
    - intros s Hs. destruct (windows_ok_all_some _ _ Hok (shift_window s) (in_map _ _ _ Hs)) as (w & Hw & _).
      rewrite existsb_false in Hlat. specialize (Hlat s Hs). cbn beta in Hlat. apply negb_false_iff in Hlat.
      unfold latest_is_date in Hlat. unfold shift_window in Hw. unfold tm_bad, is_none.
      destruct (tm_val (sh_earliest s)); [|discriminate]. split; [reflexivity|]. split.
      + destruct (sh_end s) as [e|]; [|auto]. destruct (tm_val e); [auto|discriminate].
      + destruct (sh_latest s) as [l|]; [|reflexivity]. destruct (tm_val l); [reflexivity|discriminate].
  Qed.

  Lemma fleet_safe : fleet_panics d = false.
  Proof.
    destruct (known_false d Hk) as (H7 & H9 & _).
    unfold fleet_panics. apply orb_false_iff. split; [apply orb_false_iff; split|].
    - exact H1505.
    - apply existsb_false. intros v Hin. apply existsb_false. intros s Hs.
      destruct (shifts_parse v Hin) as [_ Hp]. destruct (Hp s Hs) as (He & Hend & Hlat). rewrite He, Hend, Hlat. cbn [orb].
      unfold k7_over8 in H7. apply orb_false_iff in H7. destruct H7 as [H7 _]. rewrite existsb_false in H7.
      specialize (H7 v Hin). cbn beta in H7. unfold over8. rewrite H7. now destruct (has_multi_dimen_capacity d), (v_ids v).
    - destruct (forallb _ (d_vehicles d)) eqn:E; [exfalso|reflexivity]. rewrite forallb_forall in E.
      unfold k9_no_vehicles in H9. destruct (forallb_false_exists _ _ H9) as (v & Hin & Hids).
      specialize (E v Hin). destruct (shifts_parse v Hin) as [Hne _].
      destruct (v_shifts v); [now apply Hne|]. destruct (v_ids v); discriminate.
  Qed.

  Lemma breaks_some v s bs o : In v (d_vehicles d) -> In s (v_shifts v) -> sh_breaks s = Some bs ->
    In o (break_windows s bs) -> exists w : Z * Z, o = Some w.
  Proof.
    intros Hin Hs Eb Ho. unfold viol_1303 in H1303. rewrite existsb_false in H1303. specialize (H1303 v Hin). cbn beta in H1303.
    rewrite existsb_false in H1303. specialize (H1303 s Hs). cbn beta in H1303. rewrite Eb in H1303. cbv zeta in H1303.
    eapply shift_rule_some; eassumption.
  Qed.

  Lemma reloads_some v s rs o : In v (d_vehicles d) -> In s (v_shifts v) -> sh_reloads s = Some rs ->
    In o (reload_windows rs) -> exists w : Z * Z, o = Some w.
  Proof.
    intros Hin Hs Er Ho. unfold viol_1304 in H1304. rewrite existsb_false in H1304. specialize (H1304 v Hin). cbn beta in H1304.
    rewrite existsb_false in H1304. specialize (H1304 s Hs). cbn beta in H1304. rewrite Er in H1304. cbv zeta in H1304.
    eapply shift_rule_some; eassumption.
  Qed.

  Lemma reserved_safe : reserved_times_panic d = false.
  Proof.
    unfold reserved_times_panic. apply existsb_false. intros v Hin. apply existsb_false. intros s Hs.
    apply existsb_false. intros b Hb. destruct b as [w|o|e l dur|e l dur]; try reflexivity.
    destruct (sh_breaks s) as [bs|] eqn:Eb; [|destruct Hb]. cbn [olist] in Hb.
    destruct (breaks_some v s bs (match tm_val e, tm_val l with Some a, Some b => Some (a, b + dur) | _, _ => None end) Hin Hs Eb)
      as (w & Hw).
    - unfold break_windows. apply in_flat_map. exists (BReqExact e l dur). split; [exact Hb|now left].
    - unfold tm_bad, is_none. destruct (tm_val e), (tm_val l); try discriminate. reflexivity.
  Qed.

  Lemma jobs_safe : jobs_panic d = false.
  Proof.
    destruct (known_false d Hk) as (H7 & _).
    unfold jobs_panic. apply existsb_false. intros j Hj. apply existsb_false. intros t Ht.
    rewrite (k7_jobs d H7 j Hj t Ht). cbn [orb]. apply existsb_false. intros p Hp.
    unfold viol_1103 in H1103. rewrite existsb_false in H1103. specialize (H1103 j Hj). cbn beta in H1103.
    rewrite existsb_false in H1103. specialize (H1103 t Ht). cbn beta in H1103.
    rewrite existsb_false in H1103. specialize (H1103 p Hp). cbn beta in H1103.
    unfold times_panic. destruct (pl_times p) as [tws|]; [|reflexivity]. cbn [olist].
    apply times_ok_no_panic. now apply negb_false_iff.
  Qed.

  Lemma conditional_safe : conditional_panic d = false.
  Proof.
    unfold conditional_panic. apply existsb_false. intros v Hin. destruct (v_ids v) as [|vid vids]; [reflexivity|].
    apply existsb_false. intros s Hs. apply orb_false_iff. split.
    - apply existsb_false. intros b Hb. destruct (sh_breaks s) as [bs|] eqn:Eb; [|destruct Hb]. cbn [olist] in Hb.
      destruct b as [w|o|e l dur|e l dur]; try reflexivity.
      + destruct (breaks_some v s bs (parse_window w) Hin Hs Eb) as (x & Hx).
        * unfold break_windows. apply in_flat_map. exists (BOptTW w). split; [exact Hb|now left].
        * now apply (parse_window_some w x).
      + (* an offset list that is not a pair contributes the invalid window None to E1303 (7653bff) *)
        destruct (List.length o =? 2)%nat eqn:El; [reflexivity|]. exfalso.
        destruct (breaks_some v s bs None Hin Hs Eb) as (x & Hx); [|discriminate].
        unfold break_windows. apply in_flat_map. exists (BOptOff o). split; [exact Hb|]. rewrite El. now left.
    - apply existsb_false. intros r Hr. destruct (sh_reloads s) as [rs|] eqn:Er; [|destruct Hr]. cbn [olist] in Hr.
      unfold times_panic. destruct (rl_times r) as [tws|] eqn:Et; [|reflexivity]. cbn [olist].
      apply existsb_false. intros w Hw.
      destruct (reloads_some v s rs (parse_window w) Hin Hs Er) as (x & Hx).
      + unfold reload_windows. apply in_flat_map. exists r. split; [exact Hr|]. rewrite Et. now apply in_map.
      + now apply (parse_window_some w x).
  Qed.

  Lemma reader_safe : reader_panics d = false.
  Proof. unfold reader_panics. now rewrite fleet_safe, reserved_safe, jobs_safe, conditional_safe. Qed.
End Safe.

(* ---------- DynamicTransportCost::new on the required breaks of a shift ---------- *)
Lemma windows2_any_pairwise {A} (f : A -> A -> bool) l : pairwise (fun a b => negb (f a b)) l = true -> windows2_any f l = false.
Proof.
  induction l as [|a l IH]; [reflexivity|]. rewrite pw_cons. intros H. apply andb_prop in H. destruct H as [Ha Hl].
  destruct l as [|b r]; [reflexivity|]. change (windows2_any f (a :: b :: r)) with (f a b || windows2_any f (b :: r)).
  rewrite (IH Hl), orb_false_r. cbn [forallb] in Ha. apply andb_prop in Ha. destruct Ha as [Ha _]. now apply negb_true_iff.
Qed.
Lemma windows2_any_in {A} (f : A -> A -> bool) l : windows2_any f l = true -> exists a b, In a l /\ In b l /\ f a b = true.
Proof.
  induction l as [|a l IH]; [discriminate|]. destruct l as [|b r]; [discriminate|].
  change (windows2_any f (a :: b :: r)) with (f a b || windows2_any f (b :: r)). intros H. apply orb_true_iff in H. destruct H as [H|H].
  - exists a, b. cbn. tauto.
  - destruct (IH H) as (x & y & Hx & Hy & Hf). exists x, y. split; [now right|]. split; [now right|exact Hf].
Qed.
Lemma req_spans_flat bs : req_spans bs = flat_map req_kind_span bs.
Proof.
  induction bs as [|b r IH]; [reflexivity|]. cbn [req_spans flat_map]. rewrite IH.
  destruct b as [w|o|e l dur|e l dur]; cbn [req_span req_kind_span app]; try reflexivity.
  destruct (tm_val e), (tm_val l); reflexivity.
Qed.
Lemma spans_fail_g2 s : g2_shift s = false -> spans_fail (req_spans (olist (sh_breaks s))) = false.
Proof.
  unfold g2_shift, spans_fail. rewrite req_spans_flat. change (olist (sh_breaks s)) with (match sh_breaks s with Some bs => bs | None => [] end).
  set (spans := flat_map req_kind_span _). cbv zeta. intros H. apply orb_false_iff in H. destruct H as [Hk Hp].
  apply negb_false_iff in Hp. apply orb_false_iff. split.
  - destruct (windows2_any (fun a b : bool * tw => negb (Bool.eqb (fst a) (fst b))) spans) eqn:E; [|reflexivity]. exfalso. destruct (windows2_any_in _ _ E) as (a & b & Ha & Hb & Hf).
    rewrite existsb_false in Hk. specialize (Hk a Ha). cbn beta in Hk. rewrite existsb_false in Hk. specialize (Hk b Hb). cbn beta in Hk, Hf. exact (eq_true_false_abs _ Hf Hk).
  - rewrite (pairwise_perm _ (fun a b => f_equal negb (overlap_sym a b)) _ _ (sort_perm (map snd spans))) in Hp.
    rewrite (pairwise_ext _ (fun a b => negb (intersects a b))) in Hp by (intros; now rewrite overlap_eq).
    now apply windows2_any_pairwise.
Qed.
Lemma reserved_ok_base d : g2_required_breaks_of d = false -> reserved_fails d = false.
Proof.
  unfold g2_required_breaks_of, reserved_fails. intros H. apply existsb_false. intros v Hv.
  rewrite existsb_false in H. specialize (H v Hv). cbn beta in H.
  destruct (v_ids v) as [|i0 ids0]; [reflexivity|]. cbn [nonempty andb] in H. apply existsb_false. intros s Hs.
  rewrite existsb_false in H. now apply spans_fail_g2, H.
Qed.
Lemma reserved_ok_known d : known d = false -> reserved_fails d = false.
Proof. intros Hk. destruct (known_false d Hk) as (_ & _ & G2). now apply reserved_ok_base. Qed.
(* the reader of a validated base document outside the known classes goes through *)
Lemma read_tail_ok d : known d = false -> (forall c, In c (map fst all_checks) -> violates c d = false) ->
  (if fleet_panics d || reserved_times_panic d then RPanic
   else if reserved_fails d then RErr [2]
   else if jobs_panic d || conditional_panic d then RPanic else ROk) = ROk.
Proof.
  intros Hk Hv. destruct (known_false d Hk) as (_ & _ & G2).
  now rewrite (fleet_safe d Hk Hv), (reserved_safe d Hv), (reserved_ok_base d G2), (jobs_safe d Hk Hv), (conditional_safe d Hv).
Qed.

(* ---------- the three clauses of the property, outside the known classes ---------- *)
(* since 11fbd19 the step in front of validation cannot panic on a reduced document (no explicit speeds) *)
Lemma approx_ok d : approx_panics d = false.
Proof. reflexivity. Qed.

Lemma read_total_l d : known d = false -> read d <> RPanic.
Proof.
  intros Hk. unfold read, validate_approx. rewrite (approx_ok d), (validate_spec d Hk).
  destruct (spec_result_cases d) as [[E Hv]|(cs & E & _)]; rewrite E; [|discriminate].
  now rewrite (read_tail_ok d Hk Hv).
Qed.

Lemma accept_iff_l d : known d = false ->
  (read d = ROk <-> forall c, In c gen_doc_validation -> violates c d = false).
Proof.
  intros Hk. unfold read, validate_approx. rewrite (approx_ok d), (validate_spec d Hk).
  destruct (spec_result_cases d) as [[E Hv]|(cs & E & Hne & Hcs)]; rewrite E.
  - rewrite (read_tail_ok d Hk Hv). split; [intros _ c _|reflexivity].
    destruct (in_dec Z.eq_dec c (map fst all_checks)) as [Hin|Hout]; [now apply Hv|].
    unfold violates. destruct (lookup c spec_table) as [f|] eqn:El; [|reflexivity]. exfalso. apply Hout.
    clear -El. change (map fst all_checks) with (map fst spec_table). revert El. generalize spec_table.
    induction l as [|[k g] r IH]; cbn; [discriminate|]. destruct (Z.eqb_spec c k); [now left|]. intros H. right. now apply IH.
  - split; [discriminate|]. intros H. exfalso. destruct cs as [|c cs]; [now apply Hne|].
    destruct (proj1 (Hcs c) (or_introl eq_refl)) as [Hin Hvi]. rewrite H in Hvi; [discriminate|].
    assert (Hs : subset (map fst all_checks) gen_doc_validation = true) by (vm_compute; reflexivity).
    now apply (subset_In _ _ Hs).
Qed.

Lemma codes_exact_l d cs : known d = false -> read d = RErr cs ->
  cs <> [] /\ NoDup cs /\ forall c, In c cs <-> In c gen_doc_validation /\ violates c d = true.
Proof.
  intros Hk. unfold read, validate_approx. rewrite (approx_ok d), (validate_spec d Hk).
  destruct (spec_result_cases d) as [[E Hv]|(cs' & E & Hne & Hcs)]; rewrite E.
  - now rewrite (read_tail_ok d Hk Hv).
  - intros H. inversion H; subst cs'. clear H. split; [exact Hne|]. split.
    + unfold spec_result in E. destruct (filter _ _) eqn:Ef in E; [discriminate|]. inversion E; subst cs. rewrite <- Ef.
      apply NoDup_filter. assert (Hn : znodup (map fst all_checks) = true) by (vm_compute; reflexivity).
      revert Hn. generalize (map fst all_checks). induction l0 as [|x r IH]; cbn; intros Hn; constructor.
      * apply andb_prop in Hn. destruct Hn as [Hx _]. intro Hin. apply zmem_In in Hin. rewrite Hin in Hx. discriminate.
      * apply IH. apply andb_prop in Hn. tauto.
    + intros c. rewrite Hcs. split; intros [Hin Hvi]; split; auto.
      * assert (Hs : subset (map fst all_checks) gen_doc_validation = true) by (vm_compute; reflexivity).
        now apply (subset_In _ _ Hs).
      * destruct (in_dec Z.eq_dec c (map fst all_checks)) as [Hi|Hout]; [exact Hi|]. exfalso.
        unfold violates in Hvi. destruct (lookup c spec_table) as [f|] eqn:El; [|discriminate]. apply Hout.
        clear -El. change (map fst all_checks) with (map fst spec_table). revert El. generalize spec_table.
        induction l as [|[k g] r IH]; cbn; [discriminate|]. destruct (Z.eqb_spec c k); [now left|]. intros H. right. now apply IH.
Qed.

(* ---------- the step before validation when no matrix is supplied ---------- *)
Lemma prevalidation_l :
  (forall has_indices profiles speeds, pre_validation_panics has_indices profiles speeds = false)
  /\ (forall profiles speeds, approx_skipped profiles speeds = true <-> profiles = [] \/ exists s, In s speeds /\ s <= 0)
  /\ (forall d, approx_panics d = false).
Proof.
  split; [reflexivity|split; [|reflexivity]]. intros profiles speeds. unfold approx_skipped. rewrite orb_true_iff, existsb_exists. split.
  - intros [H|(s & Hin & Hs)]; [left; now destruct profiles|right; exists s; split; [exact Hin|now apply Z.leb_le]].
  - intros [->|(s & Hin & Hs)]; [now left|right; exists s; split; [exact Hin|now apply Z.leb_le]].
Qed.

(* ---------- create_transport_costs: the errorCodes loop ---------- *)
Lemma error_loop_some ec : forall i tt dd x y, error_loop i ec tt dd = Some (x, y) ->
  List.length x = List.length ec /\ List.length y = List.length ec.
Proof.
  induction ec as [|e r IH]; intros i tt dd x y H; cbn [error_loop] in H.
  - inversion H. split; reflexivity.
  - destruct (if 0 <? e then Some (-1, -1)
              else match nth_error tt i, nth_error dd i with Some a, Some b => Some (a, b) | _, _ => None end) as [[a b]|];
      [|discriminate].
    destruct (error_loop (S i) r tt dd) as [[x' y']|] eqn:Er; [|discriminate].
    inversion H; subst. destruct (IH _ _ _ _ _ Er) as [Hx Hy]. cbn [List.length]. split; congruence.
Qed.

Definition no_data (i : nat) (ec tt dd : list Z) : Prop :=
  exists k, (k < List.length ec)%nat /\ nth k ec 1 <= 0 /\ (List.length tt <= i + k \/ List.length dd <= i + k)%nat.

Lemma error_loop_none ec : forall i tt dd, error_loop i ec tt dd = None <-> no_data i ec tt dd.
Proof.
  induction ec as [|e r IH]; intros i tt dd; unfold no_data; cbn [error_loop].
  - split; [discriminate|]. intros (k & Hk & _). cbn in Hk. lia.
  - assert (Hshift : no_data (S i) r tt dd <-> exists k, (S k < List.length (e :: r))%nat /\ nth (S k) (e :: r) 1 <= 0 /\
                       (List.length tt <= i + S k \/ List.length dd <= i + S k)%nat).
    { unfold no_data. split; intros (k & Hk & Hn & Hl); exists k; cbn [List.length nth] in *; repeat split; try lia; exact Hn. }
    destruct (Z.ltb_spec 0 e) as [Hpos|Hle].
    + destruct (error_loop (S i) r tt dd) as [[x y]|] eqn:Er.
      * split; [discriminate|]. intros (k & Hk & Hn & Hl). destruct k as [|k]; [cbn in Hn; lia|].
        assert (Hnone : error_loop (S i) r tt dd = None) by (apply IH, Hshift; exists k; auto). congruence.
      * split; [intros _|reflexivity]. apply IH, Hshift in Er. destruct Er as (k & H). exists (S k). exact H.
    + destruct (nth_error tt i) as [a|] eqn:Ea; [destruct (nth_error dd i) as [b|] eqn:Eb|].
      * assert (Hti : (i < List.length tt)%nat) by (apply nth_error_Some; congruence).
        assert (Hdi : (i < List.length dd)%nat) by (apply nth_error_Some; congruence).
        destruct (error_loop (S i) r tt dd) as [[x y]|] eqn:Er.
        -- split; [discriminate|]. intros (k & Hk & Hn & Hl). destruct k as [|k]; [lia|].
           assert (Hnone : error_loop (S i) r tt dd = None) by (apply IH, Hshift; exists k; auto). congruence.
        -- split; [intros _|reflexivity]. apply IH, Hshift in Er. destruct Er as (k & H). exists (S k). exact H.
      * split; [intros _|reflexivity]. apply nth_error_None in Eb. exists 0%nat. cbn [List.length nth]. repeat split; lia.
      * split; [intros _|reflexivity]. apply nth_error_None in Ea. exists 0%nat. cbn [List.length nth]. repeat split; lia.
Qed.

Lemma matrix_step_spec_l m :
  (matrix_data m = None <-> exists ec, m_errors m = Some ec /\
        (List.length ec <> List.length (m_dist m) \/ List.length (m_travel m) <> List.length (m_dist m)))
  /\ (forall ec x y, m_errors m = Some ec -> matrix_data m = Some (x, y) ->
        List.length x = List.length ec /\ List.length y = List.length ec /\ List.length (m_dist m) = List.length ec
        /\ List.length (m_travel m) = List.length ec)
  /\ (m_errors m = None -> matrix_data m = Some (m_travel m, m_dist m)).
Proof.
  unfold matrix_data. destruct (m_errors m) as [ec|].
  - destruct (Nat.ltb_spec (List.length ec) (List.length (m_dist m))) as [Hlt|Hge].
    + split; [|split]; [|discriminate|discriminate]. split; [intros _|reflexivity]. exists ec. split; [reflexivity|]. left. lia.
    + destruct (Nat.eqb_spec (List.length ec) (List.length (m_dist m))) as [He|Hne]; cbn [negb orb].
      * destruct (Nat.eqb_spec (List.length (m_travel m)) (List.length (m_dist m))) as [Ht|Hnt]; cbn [negb].
        -- split; [|split]; [| |discriminate].
           ++ split.
              ** intros H. exfalso. apply error_loop_none in H. destruct H as (k & Hk & _ & Hl). lia.
              ** intros (ec' & E & [H|H]); inversion E; subst; contradiction.
           ++ intros ec' x y E H. inversion E; subst ec'. destruct (error_loop_some _ _ _ _ _ _ H) as [Hx Hy]. repeat split; lia.
        -- split; [|split]; [|discriminate|discriminate]. split; [intros _|reflexivity]. exists ec. split; [reflexivity|now right].
      * split; [|split]; [|discriminate|discriminate]. split; [intros _|reflexivity]. exists ec. split; [reflexivity|now left].
  - split; [|split].
    + split; [discriminate|]. intros (ec & E & _). discriminate.
    + intros ec x y E. discriminate.
    + reflexivity.
Qed.

(* ---------- witnesses for the known classes (evaluated, not assumed) ---------- *)
Local Open Scope string_scope.
Definition wt (x : Z) : tm := mkTm "t" (Some x).
Definition wbad : tm := mkTm "not-a-date" None.
Definition w_place (times : option (list twraw)) : place := mkPlace 0 times.
Definition w_delivery (times : option (list twraw)) (dem : list Z) : job :=
  mkJob "job1" None (Some [mkTask [w_place times] (Some dem)]) None None.
Definition w_service (times : option (list twraw)) : job :=
  mkJob "job2" None None None (Some [mkTask [w_place times] None]).
Definition w_shift : shift := mkShift (wt 0) None (Some (wt 100)) None None.
Definition w_vehicle (cap : list Z) (s : shift) : vehicle := mkVehicle "type1" ["v1"] "car" 1 1 cap [s].
Definition w_doc (js : list job) (vs : list vehicle) : doc := mkDoc js vs ["car"] None.
Definition w_base : doc := w_doc [w_delivery None [1]] [w_vehicle [10] w_shift].

Definition w_k1 : doc := w_doc [w_delivery (Some [[wt 0; wt 10]; [wt 5; wt 20]; [wt 30; wt 40]]) [1]] [w_vehicle [10] w_shift].
Definition w_k2_accept : doc := w_doc [w_delivery None [1]; w_service (Some [[wt 10; wt 5]])] [w_vehicle [10] w_shift].
Definition w_k2_panic : doc := w_doc [w_delivery None [1]; w_service (Some [[wbad; wt 5]])] [w_vehicle [10] w_shift].
Definition w_k3 : doc :=
  w_doc [w_delivery None [1]] [w_vehicle [10] (mkShift wbad None (Some (wt 100)) (Some [BReqOff 10 20 5]) None)].
Definition w_k4 : doc := w_doc [w_delivery None [1]] [w_vehicle [10] (mkShift (wt 0) (Some wbad) (Some (wt 100)) None None)].
Definition w_k5 : doc :=
  w_doc [w_delivery None [1]] [w_vehicle [10] (mkShift (wt 0) (Some (wt 0)) (Some (wt 100)) (Some [BOptOff [10]]) None)].
Definition w_k6 : doc := w_doc [w_delivery None [1]] [w_vehicle [] w_shift].
Definition w_k7 : doc := w_doc [w_delivery None [1; 1; 1; 1; 1; 1; 1; 1; 1]] [w_vehicle [10] w_shift].
Definition w_k8 : doc :=
  w_doc [mkJob "job1" (Some [mkTask [w_place None] (Some [])]) (Some [mkTask [w_place None] (Some [])]) None None]
        [w_vehicle [10] w_shift].
Definition w_k9 : doc := w_doc [w_delivery None [1]] [].
Definition w_g2 : doc :=
  w_doc [w_delivery None [1]] [w_vehicle [10] (mkShift (wt 0) (Some (wt 0)) (Some (wt 100)) (Some [BReqExact (wt 10) (wt 20) 5; BReqOff 40 50 5]) None)].
Definition w_k10 : doc := mkDoc [w_delivery None [1]] [w_vehicle [10] w_shift] [] None.

Definition breaks_no_rule (d : doc) : Prop := forall c, In c gen_doc_validation -> violates c d = false.
Lemma breaks_no_rule_dec d : forallb (fun c => negb (violates c d)) gen_doc_validation = true -> breaks_no_rule d.
Proof. intros H c Hc. rewrite forallb_forall in H. apply negb_true_iff. now apply H. Qed.

Lemma nonvacuous_l : known w_base = false /\ breaks_no_rule w_base /\ read w_base = ROk.
Proof. split; [|split]; [vm_compute; reflexivity|apply breaks_no_rule_dec; vm_compute; reflexivity|vm_compute; reflexivity]. Qed.
Lemma nonvacuous_err_l : exists d, known d = false /\ read d = RErr [1103; 1306].
Proof.
  exists (w_doc [w_delivery (Some [[wt 10; wt 5]]) [1]] [mkVehicle "type1" ["v1"] "car" 0 0 [10] [w_shift]]).
  split; vm_compute; reflexivity.
Qed.

(* K1, K2, K3 were repaired in /repo (c324ed4, d5aa3e7, 89050ae): their former witnesses are now rejected with the right codes *)
Lemma fixed_regression_l :
  known w_k1 = false /\ read w_k1 = RErr [1103]
  /\ known w_k2_accept = false /\ read w_k2_accept = RErr [1103]
  /\ known w_k2_panic = false /\ read w_k2_panic = RErr [1103]
  /\ known w_k3 = false /\ read w_k3 = RErr [1302; 1303; 1307].
Proof. repeat split; vm_compute; reflexivity. Qed.



(* K4, K5, K10 were repaired in /repo (d67b161, 7653bff, 11fbd19): their former witnesses are now rejected with the documented codes,
   by validation itself *)
Lemma fixed_regression2_l :
  known w_k4 = false /\ validate w_k4 = VErr [1302] /\ read w_k4 = RErr [1302]
  /\ known w_k5 = false /\ validate w_k5 = VErr [1303] /\ read w_k5 = RErr [1303]
  /\ known w_k10 = false /\ violates 1501 w_k10 = true /\ read w_k10 = RErr [1501; 1505].
Proof. repeat split; vm_compute; reflexivity. Qed.
(* K6 (capacity []), K8 (E1102 on empty demand vectors) were repaired in /repo: their former witnesses are outside `known` and accepted *)
Lemma fixed_regression3_l : k6_capacity_empty w_k6 = true /\ known w_k6 = false /\ breaks_no_rule w_k6 /\ read w_k6 = ROk
  /\ k8_empty_demand_vectors w_k8 = true /\ known w_k8 = false /\ violates 1102 w_k8 = false /\ read w_k8 = ROk.
Proof. repeat split; try (apply breaks_no_rule_dec); vm_compute; reflexivity. Qed.
Lemma k7_witness : k7_over8 w_k7 = true /\ breaks_no_rule w_k7 /\ validate w_k7 = VOk /\ read w_k7 = RPanic.
Proof. split; [|split; [apply breaks_no_rule_dec|split]]; vm_compute; reflexivity. Qed.

Lemma g2_witness_base : g2_required_breaks_of w_g2 = true /\ breaks_no_rule w_g2 /\ validate w_g2 = VOk /\ read w_g2 = RErr [2].
Proof. split; [|split; [apply breaks_no_rule_dec|split]]; vm_compute; reflexivity. Qed.
Lemma k9_witness : k9_no_vehicles w_k9 = true /\ breaks_no_rule w_k9 /\ validate w_k9 = VOk /\ read w_k9 = RPanic.
Proof. split; [|split; [apply breaks_no_rule_dec|split]]; vm_compute; reflexivity. Qed.

(* create_transport_costs only succeeds with square cost vectors of one common size (17fc8e9) that cover the distances given (f7d2f27) *)
Lemma sequence_some {A} (l : list (option A)) : forall r, sequence l = Some r -> Forall2 (fun o x => o = Some x) l r.
Proof.
  induction l as [|[a|] l IH]; intros r H; cbn [sequence] in H.
  - inversion H. constructor.
  - destruct (sequence l) as [r'|]; [|discriminate]. inversion H. constructor; [reflexivity|now apply IH].
  - discriminate.
Qed.
Lemma forall2_map_l {A B C} (f : A -> B) (P : B -> C -> Prop) l : forall r, Forall2 P (map f l) r -> Forall2 (fun a c => P (f a) c) l r.
Proof.
  induction l as [|a l IH]; intros r H; inversion H; subst; constructor; [assumption|now apply IH].
Qed.
Lemma forall2_len {A B} (P : A -> B -> Prop) l r : Forall2 P l r -> List.length l = List.length r.
Proof. induction 1; cbn [List.length]; congruence. Qed.
Lemma forall2_in_l {A B} (P : A -> B -> Prop) l r : Forall2 P l r -> forall a, In a l -> exists b, In b r /\ P a b.
Proof.
  induction 1 as [|a b l r Hab _ IH]; intros x Hx; [destruct Hx|]. destruct Hx as [<-|Hx].
  - exists b. split; [now left|assumption].
  - destruct (IH x Hx) as (y & Hy & Hp). exists y. split; [now right|assumption].
Qed.

Lemma transport_ok_square_l profiles ms size lens : create_transport_costs profiles ms = TOk size lens ->
  List.length lens = List.length ms /\ (forall l, In l lens -> l = (size * size)%nat)
  /\ (forall m, In m ms -> (List.length (m_dist m) <= size * size)%nat).
Proof.
  unfold create_transport_costs. intros H.
  destruct (negb (forallb (fun m => is_some (m_profile m)) ms) && negb (forallb (fun m => is_none (m_profile m)) ms)); [discriminate|].
  destruct (List.length ms <? List.length (dedup_from [] profiles))%nat; [discriminate|].
  destruct (sequence (map matrix_data ms)) as [datas|] eqn:Hseq; [|discriminate].
  match type of H with (if ?c then _ else _) = _ => destruct c; [discriminate|] end.
  destruct datas as [|d0 datas']; [discriminate|]. set (datas := d0 :: datas') in *.
  cbv zeta in H.
  repeat match type of H with (if ?c then _ else _) = _ => let E := fresh "E" in destruct c eqn:E; [discriminate|] end.
  injection H as <- <-.
  apply sequence_some, forall2_map_l in Hseq.
  match goal with Hsq : existsb (fun d : list Z * list Z => negb (List.length (snd d) =? _)%nat || _) datas = false |- _ =>
    rename Hsq into Hsquare end.
  rewrite existsb_false in Hsquare.
  assert (Hd : forall d, In d datas -> List.length (snd d) = (round_sqrt (List.length (fst d0)) * round_sqrt (List.length (fst d0)))%nat
                                      /\ List.length (fst d) = (round_sqrt (List.length (fst d0)) * round_sqrt (List.length (fst d0)))%nat).
  { intros d Hin. specialize (Hsquare d Hin). cbn beta in Hsquare. apply orb_false_iff in Hsquare. destruct Hsquare as [Ha Hb].
    apply negb_false_iff, Nat.eqb_eq in Ha, Hb. split; assumption. }
  split; [|split].
  - change (List.length (map (fun d : list Z * list Z => List.length (fst d)) datas) = List.length ms).
    rewrite map_length. symmetry. exact (forall2_len _ _ _ Hseq).
  - intros l Hl. change (In l (map (fun d : list Z * list Z => List.length (fst d)) datas)) in Hl. apply in_map_iff in Hl. destruct Hl as (d & <- & Hin). now apply Hd.
  - intros m Hm. destruct (forall2_in_l _ _ _ Hseq m Hm) as (d & Hin & Hmd). destruct (Hd d Hin) as [Hsnd Hfst].
    destruct (matrix_step_spec_l m) as (_ & Hsome & Hnone). destruct d as [x y]. cbn [fst snd] in *.
    destruct (m_errors m) as [ec|] eqn:Ee.
    + destruct (Hsome ec x y eq_refl Hmd) as (_ & Hy & Hle & _). lia.
    + rewrite (Hnone eq_refl) in Hmd. inversion Hmd; subst. lia.
Qed.
