(* C18 — universally quantified facts about the primitive-float twin of the slot machine (Model/SlotF.v), i.e. about what
   rosomaxa/src/algorithms/rl/slot_machine.rs computes in IEEE-754 binary64, proved through Flocq's bridge
   Prim2B : PrimFloat.float -> binary_float 53 1024 (IEEE754.PrimFloat: add_equiv, mul_equiv, div_equiv, sqrt_equiv, ...)
   and the correctness theorems of IEEE754.BinarySingleNaN (Bplus_correct, Bmult_correct, Bdiv_correct, Bsqrt_correct),
   monotonicity of rounding (round_le_generic / round_ge_generic), exactness on representable numbers (round_generic) and the
   half-ulp error bound (error_le_half_ulp).
   Depends on the standard library's classical real-number statements (ClassicalDedekindReals.sig_forall_dec, sig_not_dec,
   Classical_Prop.classic, FunctionalExtensionality.functional_extensionality_dep) and on the primitive float / integer
   specification of Coq.Floats.FloatAxioms / Uint63; this file declares nothing itself.
   Bounds used throughout: |prior|, |reward| <= 2^480 (finite), at most 2^52 updates. *)
From Coq Require Import ZArith Reals Floats Lia Lra List Psatz Bool.
From Flocq Require Import Core.Core IEEE754.BinarySingleNaN IEEE754.PrimFloat.
From VRP Require Import Model.SlotF.
Import ListNotations.
Local Open Scope R_scope.

Notation pfloat := PrimFloat.float.
Notation fexp := (SpecFloat.fexp prec emax).
Notation bp2 := (bpow radix2).
Definition rnd (x : R) : R := round radix2 fexp ZnearestE x.
Definition FR (x : pfloat) : R := B2R (Prim2B x).
Definition Ffin (x : pfloat) : Prop := is_finite (Prim2B x) = true.
Definition Fmt (x : R) : Prop := generic_format radix2 fexp x.
Definition Big : R := bp2 1024.

Lemma fmt_FR x : Fmt (FR x).
Proof. apply generic_format_B2R. Qed.
Lemma fmt_0 : Fmt 0.
Proof. apply generic_format_0. Qed.
Lemma fmt_opp x : Fmt x -> Fmt (- x).
Proof. apply generic_format_opp. Qed.
Lemma fmt_bpow e : (-1074 <= e)%Z -> Fmt (bp2 e).
Proof.
  intros H. apply generic_format_bpow. unfold SpecFloat.fexp, SpecFloat.emin, prec, emax. lia.
Qed.
Lemma fmt_int_pow z e : (Z.abs z < 2 ^ 53)%Z -> (-1074 <= e)%Z -> Fmt (IZR z * bp2 e).
Proof.
  intros Hz He. change fexp with (FLT_exp (-1074) 53). apply generic_format_FLT.
  exists (Float radix2 z e); [reflexivity | exact Hz | exact He].
Qed.

Lemma rnd_bounds lo hi x : Fmt lo -> Fmt hi -> lo <= x <= hi -> lo <= rnd x <= hi.
Proof.
  intros Hlo Hhi [H1 H2]. split.
  - apply round_ge_generic; auto with typeclass_instances. apply fexp_correct. reflexivity.
  - apply round_le_generic; auto with typeclass_instances. apply fexp_correct. reflexivity.
Qed.
Lemma rnd_id x : Fmt x -> rnd x = x.
Proof. intros H. apply round_generic; auto with typeclass_instances. Qed.

Lemma add_ok x y : Ffin x -> Ffin y -> Rabs (rnd (FR x + FR y)) < Big ->
  Ffin (x + y)%float /\ FR (x + y)%float = rnd (FR x + FR y).
Proof.
  unfold Ffin, FR. intros Hx Hy Hb. rewrite add_equiv.
  generalize (Bplus_correct prec emax Hprec Hmax mode_NE _ _ Hx Hy).
  rewrite Rlt_bool_true by exact Hb. intros (H1 & H2 & _). split; assumption.
Qed.
Lemma sub_ok x y : Ffin x -> Ffin y -> Rabs (rnd (FR x - FR y)) < Big ->
  Ffin (x - y)%float /\ FR (x - y)%float = rnd (FR x - FR y).
Proof.
  unfold Ffin, FR. intros Hx Hy Hb. rewrite sub_equiv.
  generalize (Bminus_correct prec emax Hprec Hmax mode_NE _ _ Hx Hy).
  rewrite Rlt_bool_true by exact Hb. intros (H1 & H2 & _). split; assumption.
Qed.
Lemma mul_ok x y : Ffin x -> Ffin y -> Rabs (rnd (FR x * FR y)) < Big ->
  Ffin (x * y)%float /\ FR (x * y)%float = rnd (FR x * FR y).
Proof.
  unfold Ffin, FR. intros Hx Hy Hb. rewrite mul_equiv.
  generalize (Bmult_correct prec emax Hprec Hmax mode_NE (Prim2B x) (Prim2B y)).
  rewrite Rlt_bool_true by exact Hb. intros (H1 & H2 & _). rewrite H2, Hx, Hy. split; [reflexivity | assumption].
Qed.
Lemma div_ok x y : Ffin x -> FR y <> 0 -> Rabs (rnd (FR x / FR y)) < Big ->
  Ffin (x / y)%float /\ FR (x / y)%float = rnd (FR x / FR y).
Proof.
  unfold Ffin, FR. intros Hx Hy Hb. rewrite div_equiv.
  generalize (Bdiv_correct prec emax Hprec Hmax mode_NE (Prim2B x) (Prim2B y) Hy).
  rewrite Rlt_bool_true by exact Hb. intros (H1 & H2 & _). rewrite H2. split; assumption.
Qed.

(* interval forms: the exact result lies between two representable numbers below the overflow threshold *)
Lemma rnd_small lo hi x : Fmt lo -> Fmt hi -> - Big < lo -> hi < Big -> lo <= x <= hi -> Rabs (rnd x) < Big.
Proof.
  intros Hlo Hhi Hl Hh Hx. destruct (rnd_bounds lo hi x Hlo Hhi Hx). apply Rabs_def1; lra.
Qed.
Lemma add_iv x y lo hi : Ffin x -> Ffin y -> Fmt lo -> Fmt hi -> - Big < lo -> hi < Big ->
  lo <= FR x + FR y <= hi ->
  Ffin (x + y)%float /\ FR (x + y)%float = rnd (FR x + FR y) /\ lo <= FR (x + y)%float <= hi.
Proof.
  intros Hx Hy Hlo Hhi Hl Hh Hb.
  destruct (add_ok x y Hx Hy (rnd_small _ _ _ Hlo Hhi Hl Hh Hb)) as [H1 H2].
  split; [exact H1|]. split; [exact H2|]. rewrite H2. apply rnd_bounds; assumption.
Qed.
Lemma sub_iv x y lo hi : Ffin x -> Ffin y -> Fmt lo -> Fmt hi -> - Big < lo -> hi < Big ->
  lo <= FR x - FR y <= hi ->
  Ffin (x - y)%float /\ FR (x - y)%float = rnd (FR x - FR y) /\ lo <= FR (x - y)%float <= hi.
Proof.
  intros Hx Hy Hlo Hhi Hl Hh Hb.
  destruct (sub_ok x y Hx Hy (rnd_small _ _ _ Hlo Hhi Hl Hh Hb)) as [H1 H2].
  split; [exact H1|]. split; [exact H2|]. rewrite H2. apply rnd_bounds; assumption.
Qed.
Lemma mul_iv x y lo hi : Ffin x -> Ffin y -> Fmt lo -> Fmt hi -> - Big < lo -> hi < Big ->
  lo <= FR x * FR y <= hi ->
  Ffin (x * y)%float /\ FR (x * y)%float = rnd (FR x * FR y) /\ lo <= FR (x * y)%float <= hi.
Proof.
  intros Hx Hy Hlo Hhi Hl Hh Hb.
  destruct (mul_ok x y Hx Hy (rnd_small _ _ _ Hlo Hhi Hl Hh Hb)) as [H1 H2].
  split; [exact H1|]. split; [exact H2|]. rewrite H2. apply rnd_bounds; assumption.
Qed.
Lemma div_iv x y lo hi : Ffin x -> FR y <> 0 -> Fmt lo -> Fmt hi -> - Big < lo -> hi < Big ->
  lo <= FR x / FR y <= hi ->
  Ffin (x / y)%float /\ FR (x / y)%float = rnd (FR x / FR y) /\ lo <= FR (x / y)%float <= hi.
Proof.
  intros Hx Hy Hlo Hhi Hl Hh Hb.
  destruct (div_ok x y Hx Hy (rnd_small _ _ _ Hlo Hhi Hl Hh Hb)) as [H1 H2].
  split; [exact H1|]. split; [exact H2|]. rewrite H2. apply rnd_bounds; assumption.
Qed.

(* every finite float is below the overflow threshold *)
Lemma FR_lt_Big x : Rabs (FR x) < Big.
Proof. unfold FR, Big. apply (abs_B2R_lt_emax prec emax). Qed.

(* constants *)
Lemma FR_SF x s : Prim2SF x = s -> FR x = SF2R radix2 s.
Proof. intros <-. unfold FR, Prim2B. apply B2R_SF2B. Qed.
Lemma Ffin_SF x s : Prim2SF x = s -> is_finite_SF s = true -> Ffin x.
Proof. intros <- H. unfold Ffin, Prim2B. rewrite is_finite_SF2B. exact H. Qed.

Lemma FR_0 : FR 0%float = 0.
Proof. rewrite (FR_SF 0%float (S754_zero false) eq_refl). reflexivity. Qed.
Lemma FR_1 : FR 1%float = 1.
Proof. rewrite (FR_SF 1%float (S754_finite false 4503599627370496 (-52)) eq_refl). unfold SF2R, F2R; simpl. lra. Qed.
Lemma FR_2 : FR 2%float = 2.
Proof. rewrite (FR_SF 2%float (S754_finite false 4503599627370496 (-51)) eq_refl). unfold SF2R, F2R; simpl. lra. Qed.
Lemma FR_10 : FR 10%float = 10.
Proof. rewrite (FR_SF 10%float (S754_finite false 5629499534213120 (-49)) eq_refl). unfold SF2R, F2R; simpl. lra. Qed.
Lemma FR_half : FR (1 / 2)%float = / 2.
Proof. rewrite (FR_SF (1/2)%float (S754_finite false 4503599627370496 (-53)) eq_refl). unfold SF2R, F2R; simpl. lra. Qed.
Lemma Ffin_0 : Ffin 0%float. Proof. eapply Ffin_SF; [vm_compute; reflexivity | reflexivity]. Qed.
Lemma Ffin_1 : Ffin 1%float. Proof. eapply Ffin_SF; [vm_compute; reflexivity | reflexivity]. Qed.
Lemma Ffin_2 : Ffin 2%float. Proof. eapply Ffin_SF; [vm_compute; reflexivity | reflexivity]. Qed.
Lemma Ffin_10 : Ffin 10%float. Proof. eapply Ffin_SF; [vm_compute; reflexivity | reflexivity]. Qed.
Lemma Ffin_half : Ffin (1 / 2)%float. Proof. eapply Ffin_SF; [vm_compute; reflexivity | reflexivity]. Qed.

Lemma Big_gt_2p53 : IZR (2 ^ 53) < Big.
Proof.
  unfold Big. change (2 ^ 53)%Z with (Zpower radix2 53). rewrite IZR_Zpower by lia. apply bpow_lt. lia.
Qed.

Lemma fnat_ok k : (Z.of_nat k < 2 ^ 53)%Z -> Ffin (f_of_nat k) /\ FR (f_of_nat k) = INR k.
Proof.
  intros Hk. unfold Ffin, FR, f_of_nat. rewrite of_int63_equiv.
  rewrite Uint63.of_Z_spec. rewrite Z.mod_small by (change Uint63.wB with (2 ^ 63)%Z; lia).
  generalize (binary_normalize_correct prec emax Hprec Hmax mode_NE (Z.of_nat k) 0 false).
  cbv zeta. unfold F2R; cbn [Fnum Fexp bpow]. rewrite Rmult_1_r.
  assert (Hf : Fmt (IZR (Z.of_nat k))).
  { replace (IZR (Z.of_nat k)) with (IZR (Z.of_nat k) * bp2 0) by (simpl; lra). apply fmt_int_pow; lia. }
  change (round radix2 fexp (round_mode mode_NE) (IZR (Z.of_nat k))) with (rnd (IZR (Z.of_nat k))). rewrite (rnd_id _ Hf).
  rewrite Rlt_bool_true.
  - intros (H1 & H2 & _). split; [exact H2|]. rewrite H1. symmetry. apply INR_IZR_INZ.
  - rewrite Rabs_pos_eq by (apply IZR_le; lia). apply Rlt_trans with (2 := Big_gt_2p53). apply IZR_lt. exact Hk.
Qed.

(* comparisons *)
Lemma leb_real x y : Ffin x -> Ffin y -> (x <=? y)%float = true <-> FR x <= FR y.
Proof.
  unfold Ffin, FR. intros Hx Hy. rewrite leb_equiv, (Bleb_correct _ _ _ _ Hx Hy).
  destruct (Rle_bool_spec (B2R (Prim2B x)) (B2R (Prim2B y))); split; intros; try lra; try discriminate; reflexivity.
Qed.
Lemma ltb_real x y : Ffin x -> Ffin y -> (x <? y)%float = true <-> FR x < FR y.
Proof.
  unfold Ffin, FR. intros Hx Hy. rewrite ltb_equiv, (Bltb_correct _ _ _ _ Hx Hy).
  destruct (Rlt_bool_spec (B2R (Prim2B x)) (B2R (Prim2B y))); split; intros; try lra; try discriminate; reflexivity.
Qed.
Lemma eqb_real x y : Ffin x -> Ffin y -> (x =? y)%float = true <-> FR x = FR y.
Proof.
  unfold Ffin, FR. intros Hx Hy. rewrite eqb_equiv, (Beqb_correct _ _ _ _ Hx Hy).
  destruct (Req_bool_spec (B2R (Prim2B x)) (B2R (Prim2B y))); split; intros; try lra; try discriminate; try reflexivity.
Qed.
Lemma is_finite_Ffin x : PrimFloat.is_finite x = true <-> Ffin x.
Proof. unfold Ffin. rewrite is_finite_equiv. tauto. Qed.

(* |x| <= c (as floats, c finite) forces x finite *)
Lemma leb_abs_bound x c : Ffin c -> (abs x <=? c)%float = true -> Ffin x /\ Rabs (FR x) <= FR c.
Proof.
  unfold Ffin, FR. intros Hc. rewrite leb_equiv, abs_equiv.
  destruct (Prim2B c) as [sc|sc| |sc mc ec Bc] eqn:Ec; try discriminate;
  destruct (Prim2B x) as [sx|sx| |sx mx ex Bx] eqn:Ex; try (intros; discriminate).
  all: intros H; split; [reflexivity|].
  all: rewrite <- (B2R_Babs prec emax); rewrite <- Ec in *.
  all: match goal with |- B2R ?a <= B2R ?b => assert (Ha : is_finite a = true) by reflexivity;
         assert (Hb : is_finite b = true) by (rewrite Ec; reflexivity);
         rewrite (Bleb_correct _ _ _ _ Ha Hb) in H; destruct (Rle_bool_spec (B2R a) (B2R b)); [assumption | discriminate] end.
Qed.


(* invariants along a run *)
Lemma run_inv (P : nat -> fslot -> Prop) (ok : pfloat -> Prop) (N : nat) :
  (forall k s r, (k < N)%nat -> P k s -> ok r -> P (S k) (fslot_update s r)) ->
  forall rs k s, P k s -> Forall ok rs -> (k + length rs <= N)%nat ->
  P (k + length rs)%nat (fold_left fslot_update rs s).
Proof.
  intros Hstep rs. induction rs as [|r rs IH]; intros k s HP Hok Hlen; cbn [fold_left length] in *.
  - rewrite Nat.add_0_r. exact HP.
  - inversion Hok as [|? ? Hr Hrs]; subst. replace (k + S (length rs))%nat with (S k + length rs)%nat by lia.
    apply IH; [apply Hstep; [lia | assumption | assumption] | assumption | lia].
Qed.

Definition N52 : nat := Z.to_nat (2 ^ 52).
Lemma N52_Z k : (k <= N52)%nat -> (Z.of_nat k <= 2 ^ 52)%Z.
Proof. unfold N52. lia. Qed.
Lemma Z_N52 k : (Z.of_nat k <= 2 ^ 52)%Z -> (k <= N52)%nat.
Proof. unfold N52. lia. Qed.

(* ---------- 1. alpha ---------- *)
Definition alpha_inv (k : nat) (s : fslot) : Prop :=
  Ffin (f_alpha s) /\ FR (f_alpha s) = 1 + INR k / 2.

Lemma half_int_fmt z : (Z.abs z < 2 ^ 53)%Z -> Fmt (IZR z / 2).
Proof.
  intros H. replace (IZR z / 2) with (IZR z * bp2 (-1)) by (simpl; lra). apply fmt_int_pow; lia.
Qed.
Lemma half_int_small z : (Z.abs z < 2 ^ 53)%Z -> - Big < IZR z / 2 < Big.
Proof.
  intros H. pose proof Big_gt_2p53 as HB.
  assert (- IZR (2 ^ 53) < IZR z < IZR (2 ^ 53)) by (rewrite <- opp_IZR; split; apply IZR_lt; lia). lra.
Qed.

Lemma alpha_step k s r : (k < N52)%nat -> alpha_inv k s -> alpha_inv (S k) (fslot_update s r).
Proof.
  intros Hk [Hf Hv]. apply N52_Z in Hk. unfold alpha_inv.
  change (f_alpha (fslot_update s r)) with (f_alpha s + 1 / 2)%float.
  assert (Hx : FR (f_alpha s) + FR (1 / 2)%float = IZR (Z.of_nat k + 3) / 2).
  { rewrite Hv, FR_half, plus_IZR, <- INR_IZR_INZ. lra. }
  assert (Hz : (Z.abs (Z.of_nat k + 3) < 2 ^ 53)%Z) by lia.
  destruct (add_iv (f_alpha s) (1 / 2)%float _ _ Hf Ffin_half (half_int_fmt _ Hz) (half_int_fmt _ Hz)) as (H1 & _ & H3).
  - apply half_int_small, Hz.
  - apply half_int_small, Hz.
  - lra.
  - split; [exact H1|]. rewrite S_INR. rewrite plus_IZR, <- INR_IZR_INZ in H3. lra.
Qed.

Lemma alpha_init prior : alpha_inv 0 (fslot_new prior).
Proof. split; cbn [fslot_new f_alpha]; [exact Ffin_1 | rewrite FR_1; simpl; lra]. Qed.

Theorem float_alpha_exact : forall prior rs, (Z.of_nat (length rs) <= 2 ^ 52)%Z ->
  let a := f_alpha (fslot_run prior rs) in
  PrimFloat.is_finite a = true /\ B2R (Prim2B a) = 1 + INR (length rs) / 2 /\ (0 <? a)%float = true.
Proof.
  intros prior rs Hlen a. apply Z_N52 in Hlen.
  assert (Ha : alpha_inv (0 + length rs) (fslot_run prior rs)).
  { apply (run_inv alpha_inv (fun _ => True) N52).
    - intros k s r Hk HP _. apply alpha_step; assumption.
    - apply alpha_init.
    - apply Forall_forall. trivial.
    - exact Hlen. }
  destruct Ha as [Hf Hv]. fold a in Hf, Hv. cbn [Nat.add] in Hv.
  split; [apply is_finite_Ffin, Hf|]. split; [exact Hv|].
  apply ltb_real; [exact Ffin_0 | exact Hf|]. rewrite FR_0, Hv. pose proof (pos_INR (length rs)). lra.
Qed.

(* rounding error of one operation whose exact result is below 2^(m+2): at most 2^(m-52) (half an ulp) *)
Lemma rnd_err m x : (-1022 <= m)%Z -> Rabs x < bp2 (m + 2) -> Rabs (rnd x - x) <= bp2 (m - 52).
Proof.
  intros Hm Hx. destruct (Req_dec x 0) as [->|Hx0].
  - unfold rnd. rewrite round_0 by auto with typeclass_instances. rewrite Rminus_0_r, Rabs_R0. apply bpow_ge_0.
  - eapply Rle_trans. { unfold rnd. apply error_le_half_ulp. apply fexp_correct. reflexivity. }
    rewrite ulp_neq_0 by exact Hx0. unfold cexp.
    assert (Hmag : (mag radix2 x <= m + 2)%Z) by (apply mag_le_bpow; assumption).
    replace (bp2 (m - 52)) with (/ 2 * bp2 (m - 51)).
    2:{ replace (m - 51)%Z with (1 + (m - 52))%Z by lia. rewrite bpow_plus. simpl. lra. }
    apply Rmult_le_compat_l; [lra|]. apply bpow_le.
    unfold SpecFloat.fexp, SpecFloat.emin, prec, emax. lia.
Qed.

Lemma inv_nat_bounds k : 0 < / INR (S k) <= 1.
Proof.
  assert (H : 1 <= INR (S k)) by (rewrite S_INR; pose proof (pos_INR k); lra).
  split; [apply Rinv_0_lt_compat; lra|]. rewrite <- Rinv_1. apply Rinv_le_contravar; lra.
Qed.

Lemma bp2_facts m : 0 < bp2 m /\ bp2 (m + 1) = 2 * bp2 m /\ bp2 (m + 2) = 4 * bp2 m /\ 0 < bp2 (m - 52) <= bp2 m.
Proof.
  split; [apply bpow_gt_0|]. rewrite !bpow_plus. simpl. split; [lra|]. split; [lra|].
  split; [apply bpow_gt_0 | apply bpow_le; lia].
Qed.
Lemma bp2_lt_Big e : (e < 1024)%Z -> bp2 e < Big.
Proof. intros. apply bpow_lt. assumption. Qed.

(* the difference reward - mu *)
Lemma d_ok m mu r : (-1022 <= m <= 1020)%Z -> Ffin mu -> Ffin r -> Rabs (FR r) <= bp2 m -> Rabs (FR mu) <= 2 * bp2 m ->
  let d := (r - mu)%float in
  Ffin d /\ FR d = rnd (FR r - FR mu) /\ Rabs (FR d) <= 4 * bp2 m /\ Rabs (FR d - (FR r - FR mu)) <= bp2 (m - 52).
Proof.
  intros Hm Hmu Hr Br Bmu. cbv zeta. destruct (bp2_facts m) as (HM & _ & H4 & HE).
  assert (HB : bp2 (m + 2) < Big) by (apply bp2_lt_Big; lia).
  assert (Hx : Rabs (FR r - FR mu) <= 3 * bp2 m).
  { apply Rabs_le. apply Rabs_le_inv in Br, Bmu. lra. }
  destruct (sub_iv r mu (- bp2 (m + 2)) (bp2 (m + 2)) Hr Hmu) as (H1 & H2 & H3).
  - apply fmt_opp, fmt_bpow. lia.
  - apply fmt_bpow. lia.
  - lra.
  - lra.
  - apply Rabs_le_inv in Hx. lra.
  - split; [exact H1|]. split; [exact H2|]. split.
    + apply Rabs_le. lra.
    + rewrite H2. apply rnd_err; [lia | lra].
Qed.

(* one step of the running mean: the result stays between any two representable bounds L <= H that contain the old mean
   and contain the reward with a margin of 2^(m-52) *)
Lemma mu_step m L H mu r k : (-1022 <= m <= 1020)%Z -> (Z.of_nat k < 2 ^ 53 - 1)%Z ->
  Ffin mu -> Ffin r -> Rabs (FR r) <= bp2 m ->
  Fmt L -> Fmt H -> - (2 * bp2 m) <= L -> H <= 2 * bp2 m ->
  L <= FR mu <= H -> L + bp2 (m - 52) <= FR r <= H - bp2 (m - 52) ->
  let mu' := (mu + (r - mu) / f_of_nat (S k))%float in
  Ffin mu' /\ L <= FR mu' <= H.
Proof.
  intros Hm Hk Hmu Hr Br HL HH BL BH Bmu Brr. cbv zeta. destruct (bp2_facts m) as (HM & _ & H4 & HE).
  assert (HB : bp2 (m + 2) < Big) by (apply bp2_lt_Big; lia).
  assert (Bmu2 : Rabs (FR mu) <= 2 * bp2 m) by (apply Rabs_le; lra).
  destruct (d_ok m mu r Hm Hmu Hr Br Bmu2) as (Hd1 & Hd2 & Hd3 & Hd4). cbv zeta in Hd1, Hd2, Hd3, Hd4.
  set (d := (r - mu)%float) in *. set (x := FR r - FR mu) in *.
  destruct (fnat_ok (S k)) as [Hn1 Hn2]; [lia|].
  pose proof (inv_nat_bounds k) as Hinv.
  assert (Hn0 : FR (f_of_nat (S k)) <> 0).
  { rewrite Hn2. rewrite S_INR. pose proof (pos_INR k). lra. }
  pose proof (FR_lt_Big d) as HdB. apply Rabs_lt_inv in HdB.
  apply Rabs_le_inv in Hd4.
  destruct (Rle_lt_dec 0 x) as [Hx|Hx].
  - assert (Hd0 : 0 <= FR d).
    { rewrite Hd2. apply (rnd_bounds 0 (bp2 (m + 2))); [apply fmt_0 | apply fmt_bpow; lia |].
      apply Rabs_le_inv in Bmu2, Br. unfold x in *. lra. }
    destruct (div_iv d (f_of_nat (S k)) 0 (FR d) Hd1 Hn0 fmt_0 (fmt_FR d)) as (Hq1 & _ & Hq3).
    + pose proof (bpow_gt_0 radix2 1024). unfold Big. lra.
    + lra.
    + rewrite Hn2. unfold Rdiv. nra.
    + destruct (add_iv mu (d / f_of_nat (S k))%float L H Hmu Hq1 HL HH) as (Hm1 & _ & Hm3).
      * lra.
      * lra.
      * unfold x in *. lra.
      * split; assumption.
  - assert (Hd0 : FR d <= 0).
    { rewrite Hd2. apply (rnd_bounds (- bp2 (m + 2)) 0); [apply fmt_opp, fmt_bpow; lia | apply fmt_0 |].
      apply Rabs_le_inv in Bmu2, Br. unfold x in *. lra. }
    destruct (div_iv d (f_of_nat (S k)) (FR d) 0 Hd1 Hn0 (fmt_FR d) fmt_0) as (Hq1 & _ & Hq3).
    + lra.
    + pose proof (bpow_gt_0 radix2 1024). unfold Big. lra.
    + rewrite Hn2. unfold Rdiv. nra.
    + destruct (add_iv mu (d / f_of_nat (S k))%float L H Hmu Hq1 HL HH) as (Hm1 & _ & Hm3).
      * lra.
      * lra.
      * unfold x in *. lra.
      * split; assumption.
Qed.

Lemma upd_n s r : f_n (fslot_update s r) = S (f_n s). Proof. reflexivity. Qed.
Lemma upd_mu s r : f_mu (fslot_update s r) = (f_mu s + (r - f_mu s) / f_of_nat (S (f_n s)))%float. Proof. reflexivity. Qed.
Lemma upd_beta s r : f_beta (fslot_update s r) =
  (f_beta s + (1 * f_of_nat (f_n s) / (f_of_nat (f_n s) + 1)) * ((r - f_mu s) * (r - f_mu s)) / 2)%float.
Proof. reflexivity. Qed.
Lemma upd_v s r : f_v (fslot_update s r) = (f_beta (fslot_update s r) / (f_alpha (fslot_update s r) + 1))%float.
Proof. reflexivity. Qed.

(* ---------- 5. the mean stays within representable bounds around the hull ---------- *)
Definition mu_inv (L H : R) (k : nat) (s : fslot) : Prop :=
  f_n s = k /\ Ffin (f_mu s) /\ L <= FR (f_mu s) <= H.
Definition mu_ok (m : Z) (L H : R) (r : pfloat) : Prop :=
  Ffin r /\ Rabs (FR r) <= bp2 m /\ L + bp2 (m - 52) <= FR r <= H - bp2 (m - 52).

Lemma mu_inv_step m L H k s r : (-1022 <= m <= 1020)%Z -> Fmt L -> Fmt H -> - (2 * bp2 m) <= L -> H <= 2 * bp2 m ->
  (k < N52)%nat -> mu_inv L H k s -> mu_ok m L H r -> mu_inv L H (S k) (fslot_update s r).
Proof.
  intros Hm HL HH BL BH Hk (Hn & Hf & Hb) (Hr & Br & Brr). apply N52_Z in Hk.
  unfold mu_inv. rewrite upd_n, upd_mu, Hn. split; [reflexivity|].
  apply (mu_step m L H (f_mu s) r k); try assumption. lia.
Qed.

Lemma float_mean_bounds m L H prior rs : (-1022 <= m <= 1020)%Z -> (length rs <= N52)%nat ->
  Fmt L -> Fmt H -> - (2 * bp2 m) <= L -> H <= 2 * bp2 m ->
  Ffin prior -> L <= FR prior <= H -> Forall (mu_ok m L H) rs ->
  Ffin (f_mu (fslot_run prior rs)) /\ L <= FR (f_mu (fslot_run prior rs)) <= H.
Proof.
  intros Hm Hlen HL HH BL BH Hp Bp Hrs.
  assert (Hi : mu_inv L H (0 + length rs) (fslot_run prior rs)).
  { apply (run_inv (mu_inv L H) (mu_ok m L H) N52).
    - intros k s r Hk HP Hr. apply (mu_inv_step m); assumption.
    - repeat split; try assumption; apply Bp.
    - exact Hrs.
    - exact Hlen. }
  destruct Hi as (_ & Hf & Hb). split; assumption.
Qed.

Lemma fmt_INR k : (Z.of_nat k < 2 ^ 53)%Z -> Fmt (INR k).
Proof. intros H. destruct (fnat_ok k H) as [_ <-]. apply fmt_FR. Qed.
Lemma INR_lt_Big k : (Z.of_nat k < 2 ^ 53)%Z -> INR k < Big.
Proof. intros H. destruct (fnat_ok k H) as [_ <-]. pose proof (FR_lt_Big (f_of_nat k)) as HB. apply Rabs_lt_inv in HB. lra. Qed.
Lemma fmt_1 : Fmt 1. Proof. rewrite <- FR_1. apply fmt_FR. Qed.
Lemma Big_gt_1 : 1 < Big. Proof. change 1 with (bp2 0). apply bp2_lt_Big. lia. Qed.

(* the weight n*v/(v+n) of the code (n = 1, v = number of earlier updates): between 0 and 1 *)
Lemma weight_ok k : (Z.of_nat k < 2 ^ 53 - 1)%Z ->
  Ffin (1 * f_of_nat k / (f_of_nat k + 1))%float /\ 0 <= FR (1 * f_of_nat k / (f_of_nat k + 1))%float <= 1.
Proof.
  intros Hk. destruct (fnat_ok k) as [Hv1 Hv2]; [lia|].
  pose proof (pos_INR k) as Hk0. pose proof Big_gt_1 as HB1.
  assert (HkB : INR k < Big) by (apply INR_lt_Big; lia).
  assert (HSB : INR (S k) < Big) by (apply INR_lt_Big; lia).
  rewrite S_INR in HSB.
  destruct (mul_iv 1 (f_of_nat k) (INR k) (INR k) Ffin_1 Hv1) as (Ha1 & _ & Ha3);
    [apply fmt_INR; lia | apply fmt_INR; lia | lra | lra | rewrite FR_1, Hv2; lra |].
  destruct (add_iv (f_of_nat k) 1 (INR k + 1) (INR k + 1) Hv1 Ffin_1) as (Hb1 & _ & Hb3);
    [rewrite <- S_INR; apply fmt_INR; lia | rewrite <- S_INR; apply fmt_INR; lia | lra | lra | rewrite FR_1, Hv2; lra |].
  assert (Hnum : FR (1 * f_of_nat k)%float = INR k) by lra.
  assert (Hden : FR (f_of_nat k + 1)%float = INR k + 1) by lra.
  destruct (div_iv (1 * f_of_nat k)%float (f_of_nat k + 1)%float 0 1 Ha1) as (Hc1 & _ & Hc3);
    [rewrite Hden; lra | apply fmt_0 | apply fmt_1 | lra | lra | |].
  - rewrite Hnum, Hden. pose proof (inv_nat_bounds k) as Hinv. rewrite S_INR in Hinv. unfold Rdiv.
    assert (Hone : (INR k + 1) * / (INR k + 1) = 1) by (apply Rinv_r; lra). nra.
  - split; assumption.
Qed.

(* the added term (w * d^2) / 2 for |d| <= 4 * 2^m and 0 <= w <= 1: finite, between 0 and 2^(2m+3) *)
Lemma term_ok m w d : (-530 <= m <= 500)%Z -> Ffin w -> 0 <= FR w <= 1 -> Ffin d -> Rabs (FR d) <= 4 * bp2 m ->
  Ffin (w * (d * d) / 2)%float /\ 0 <= FR (w * (d * d) / 2)%float <= bp2 (2 * m + 3).
Proof.
  intros Hm Hw Bw Hd Bd. pose proof (bpow_gt_0 radix2 m) as HM. pose proof (bpow_gt_0 radix2 1024) as HBig. fold Big in HBig.
  assert (E4 : bp2 (2 * m + 4) = 16 * (bp2 m * bp2 m)).
  { replace (2 * m + 4)%Z with (4 + (m + m))%Z by lia. rewrite !bpow_plus. simpl. lra. }
  assert (E3 : bp2 (2 * m + 4) = 2 * bp2 (2 * m + 3)).
  { replace (2 * m + 4)%Z with (1 + (2 * m + 3))%Z by lia. rewrite bpow_plus. simpl. lra. }
  assert (HB : bp2 (2 * m + 4) < Big) by (apply bp2_lt_Big; lia).
  apply Rabs_le_inv in Bd.
  destruct (mul_iv d d 0 (bp2 (2 * m + 4)) Hd Hd) as (Ha1 & _ & Ha3);
    [apply fmt_0 | apply fmt_bpow; lia | lra | lra | rewrite E4; nra |].
  destruct (mul_iv w (d * d)%float 0 (bp2 (2 * m + 4)) Hw Ha1) as (Hb1 & _ & Hb3);
    [apply fmt_0 | apply fmt_bpow; lia | lra | lra | nra |].
  destruct (div_iv (w * (d * d))%float 2 0 (bp2 (2 * m + 3)) Hb1) as (Hc1 & _ & Hc3);
    [rewrite FR_2; lra | apply fmt_0 | apply fmt_bpow; lia | lra | lra | rewrite FR_2; lra |].
  split; assumption.
Qed.

(* ---------- the whole learning state ---------- *)
Definition state_inv (m : Z) (k : nat) (s : fslot) : Prop :=
  f_n s = k /\ alpha_inv k s /\
  (Ffin (f_mu s) /\ Rabs (FR (f_mu s)) <= bp2 m + bp2 (m - 52)) /\
  (Ffin (f_beta s) /\ 10 <= FR (f_beta s) <= IZR (Z.of_nat k + 1) * bp2 (2 * m + 3)) /\
  (Ffin (f_v s) /\ bp2 (-50) <= FR (f_v s) <= FR (f_beta s)).
Definition rew_ok (m : Z) (r : pfloat) : Prop := Ffin r /\ Rabs (FR r) <= bp2 m.

Lemma beta_step m k beta t : (1 <= m <= 480)%Z -> (Z.of_nat k <= 2 ^ 52)%Z ->
  Ffin beta -> FR beta <= IZR (Z.of_nat k + 1) * bp2 (2 * m + 3) ->
  Ffin t -> 0 <= FR t <= bp2 (2 * m + 3) ->
  Ffin (beta + t)%float /\ FR beta <= FR (beta + t)%float <= IZR (Z.of_nat (S k) + 1) * bp2 (2 * m + 3).
Proof.
  intros Hm Hk Hb Bb Ht Bt. pose proof (FR_lt_Big beta) as HbB. apply Rabs_lt_inv in HbB.
  set (T := bp2 (2 * m + 3)) in *. assert (HT : 0 < T) by apply bpow_gt_0.
  assert (HB : IZR (Z.of_nat (S k) + 1) * T < Big).
  { apply Rlt_le_trans with (bp2 53 * T).
    - apply Rmult_lt_compat_r; [exact HT|]. change (bp2 53) with (IZR (2 ^ 53)). apply IZR_lt. lia.
    - unfold T, Big. rewrite <- bpow_plus. apply bpow_le. lia. }
  destruct (add_iv beta t (FR beta) (IZR (Z.of_nat (S k) + 1) * T) Hb Ht) as (H1 & _ & H3);
    [apply fmt_FR | apply fmt_int_pow; lia | lra | exact HB | |].
  - replace (Z.of_nat (S k) + 1)%Z with ((Z.of_nat k + 1) + 1)%Z by lia. rewrite (plus_IZR (Z.of_nat k + 1) 1). lra.
  - split; assumption.
Qed.

Lemma v_step k alpha' beta' : (Z.of_nat k <= 2 ^ 52)%Z -> Ffin alpha' -> FR alpha' = 1 + INR k / 2 -> Ffin beta' -> 10 <= FR beta' ->
  Ffin (beta' / (alpha' + 1))%float /\ bp2 (-50) <= FR (beta' / (alpha' + 1))%float <= FR beta'.
Proof.
  intros Hk Ha Va Hb Bb. pose proof (FR_lt_Big beta') as HbB. apply Rabs_lt_inv in HbB.
  pose proof (pos_INR k) as Hk0.
  assert (Hz : (Z.abs (Z.of_nat k + 4) < 2 ^ 53)%Z) by lia.
  assert (Hx : FR alpha' + FR 1%float = IZR (Z.of_nat k + 4) / 2).
  { rewrite Va, FR_1, plus_IZR, <- INR_IZR_INZ. lra. }
  destruct (add_iv alpha' 1 _ _ Ha Ffin_1 (half_int_fmt _ Hz) (half_int_fmt _ Hz)) as (H1 & _ & H3);
    [apply half_int_small, Hz | apply half_int_small, Hz | lra |].
  assert (Ha1 : FR (alpha' + 1)%float = 2 + INR k / 2).
  { rewrite plus_IZR, <- INR_IZR_INZ in H3. lra. }
  assert (Hle : FR (alpha' + 1)%float <= bp2 52).
  { rewrite Ha1. change (bp2 52) with (IZR (2 ^ 52)). rewrite INR_IZR_INZ.
    assert (IZR (Z.of_nat k) <= IZR (2 ^ 52)) by (apply IZR_le; lia).
    assert (8 <= IZR (2 ^ 52)) by (apply IZR_le; lia). lra. }
  set (a1 := FR (alpha' + 1)%float) in *.
  assert (Hinv : / bp2 52 <= / a1 <= 1).
  { split; [apply Rinv_le_contravar; lra|]. rewrite <- Rinv_1. apply Rinv_le_contravar; lra. }
  assert (E50 : bp2 (-50) = 4 * / bp2 52).
  { rewrite <- bpow_opp. replace (-50)%Z with (2 + - (52))%Z by lia. rewrite bpow_plus. simpl. lra. }
  assert (Hp : 0 < / bp2 52) by (apply Rinv_0_lt_compat, bpow_gt_0).
  destruct (div_iv beta' (alpha' + 1)%float (bp2 (-50)) (FR beta') Hb) as (Hc1 & _ & Hc3);
    [fold a1; lra | apply fmt_bpow; lia | apply fmt_FR | | lra | |].
  - pose proof (bpow_gt_0 radix2 (-50)). pose proof (bpow_gt_0 radix2 1024). unfold Big. lra.
  - fold a1. unfold Rdiv. rewrite E50. nra.
  - split; assumption.
Qed.

Lemma fmt_M_plus_E m : (-1022 <= m)%Z -> Fmt (bp2 m + bp2 (m - 52)).
Proof.
  intros Hm. replace (bp2 m + bp2 (m - 52)) with (IZR (2 ^ 52 + 1) * bp2 (m - 52)).
  - apply fmt_int_pow; lia.
  - rewrite plus_IZR. change (IZR (2 ^ 52)) with (bp2 52). rewrite Rmult_plus_distr_r, <- bpow_plus.
    replace (52 + (m - 52))%Z with m by lia. lra.
Qed.

Lemma state_step_full m k s r : (1 <= m <= 480)%Z -> (k < N52)%nat ->
  state_inv m k s -> rew_ok m r ->
  state_inv m (S k) (fslot_update s r) /\ FR (f_beta s) <= FR (f_beta (fslot_update s r)).
Proof.
  intros Hm Hk (Hn & Ha & (Hmu & Bmu) & (Hb & Bb) & _) (Hr & Br). subst k. set (k := f_n s) in *.
  pose proof (alpha_step k s r Hk Ha) as Ha'. apply N52_Z in Hk.
  destruct (bp2_facts m) as (HM & _ & _ & HE).
  assert (Bmu2 : Rabs (FR (f_mu s)) <= 2 * bp2 m) by lra.
  (* mean *)
  assert (Hmu' : Ffin (f_mu (fslot_update s r)) /\ Rabs (FR (f_mu (fslot_update s r))) <= bp2 m + bp2 (m - 52)).
  { rewrite upd_mu. fold k. pose proof (Rabs_le_inv _ _ Bmu) as Bmu'. pose proof (Rabs_le_inv _ _ Br) as Br'.
    destruct (mu_step m (- (bp2 m + bp2 (m - 52))) (bp2 m + bp2 (m - 52)) (f_mu s) r k) as [H1 H2]; try assumption; try lia; try lra.
    - apply fmt_opp, fmt_M_plus_E. lia.
    - apply fmt_M_plus_E. lia.
    - split; [exact H1 | apply Rabs_le; lra]. }
  (* beta *)
  destruct (d_ok m (f_mu s) r) as (Hd1 & _ & Hd3 & _); try assumption; try lia.
  destruct (weight_ok k) as [Hw1 Hw2]; [lia|].
  destruct (term_ok m _ _ ltac:(lia) Hw1 Hw2 Hd1 Hd3) as [Ht1 Ht2].
  destruct (beta_step m k (f_beta s) _ Hm ltac:(lia) Hb (proj2 Bb) Ht1 Ht2) as [Hb1 Hb2].
  change (Ffin (f_beta (fslot_update s r))) in Hb1. change (FR (f_beta s) <= FR (f_beta (fslot_update s r)) <= IZR (Z.of_nat (S k) + 1) * bp2 (2 * m + 3)) in Hb2.
  (* v *)
  destruct Ha' as [Ha1 Ha2].
  destruct (v_step (S k) _ _ ltac:(lia) Ha1 Ha2 Hb1 ltac:(lra)) as [Hv1 Hv2].
  rewrite <- upd_v in Hv1, Hv2. destruct Hmu' as [Hm1 Hm2].
  split; [|lra]. unfold state_inv. rewrite upd_n. fold k. repeat split; try assumption; try lra.
Qed.
Lemma state_inv_step m k s r : (1 <= m <= 480)%Z -> (k < N52)%nat ->
  state_inv m k s -> rew_ok m r -> state_inv m (S k) (fslot_update s r).
Proof. intros Hm Hk Hs Hr. apply (state_step_full m k s r Hm Hk Hs Hr). Qed.

Lemma FR_pow2 c e : Prim2SF c = S754_finite false 4503599627370496 (e - 52) -> FR c = bp2 e.
Proof.
  intros H. rewrite (FR_SF c _ H). unfold SF2R, F2R. cbn [Fnum Fexp cond_Zopp].
  change (IZR 4503599627370496) with (bp2 52). rewrite <- bpow_plus. f_equal. lia.
Qed.
Lemma Ffin_pow2 c e : Prim2SF c = S754_finite false 4503599627370496 (e - 52) -> Ffin c.
Proof. intros H. apply (Ffin_SF c _ H). reflexivity. Qed.

Lemma FR_5 : FR (10 / (1 + 1))%float = 5.
Proof. rewrite (FR_SF (10 / (1 + 1))%float (S754_finite false 5629499534213120 (-50)) eq_refl). unfold SF2R, F2R; simpl. lra. Qed.
Lemma Ffin_5 : Ffin (10 / (1 + 1))%float. Proof. eapply Ffin_SF; [vm_compute; reflexivity | reflexivity]. Qed.

Lemma state_inv_init m prior : (1 <= m <= 480)%Z -> rew_ok m prior -> state_inv m 0 (fslot_new prior).
Proof.
  intros Hm [Hp Bp]. destruct (bp2_facts m) as (HM & _ & _ & HE).
  assert (H32 : 32 <= bp2 (2 * m + 3)) by (change 32 with (bp2 5); apply bpow_le; lia).
  unfold state_inv. cbn [fslot_new f_n f_alpha f_beta f_mu f_v].
  split; [reflexivity|]. split; [apply (alpha_init prior)|]. split; [split; [exact Hp | lra]|].
  rewrite FR_10, FR_5. split; [split; [exact Ffin_10 | change (Z.of_nat 0 + 1)%Z with 1%Z; lra]|]. split; [exact Ffin_5|].
  assert (bp2 (-50) <= bp2 0) by (apply bpow_le; lia). change (bp2 0) with 1 in *. lra.
Qed.

Lemma state_inv_run m prior rs : (1 <= m <= 480)%Z -> (length rs <= N52)%nat ->
  rew_ok m prior -> Forall (rew_ok m) rs -> state_inv m (length rs) (fslot_run prior rs).
Proof.
  intros Hm Hlen Hp Hrs. change (length rs) with (0 + length rs)%nat.
  apply (run_inv (state_inv m) (rew_ok m) N52); try assumption.
  - intros k s r Hk HP Hr. apply state_inv_step; assumption.
  - apply state_inv_init; assumption.
Qed.

(* executable form of the hypotheses: |x| <= 2^480 as a float comparison (false for NaN and infinities) *)
Definition fbounded (x : pfloat) : bool := (abs x <=? 0x1p480)%float.
Lemma fbounded_ok x : fbounded x = true -> rew_ok 480 x.
Proof.
  unfold fbounded, rew_ok. intros H. rewrite <- (FR_pow2 0x1p480%float 480 eq_refl).
  apply leb_abs_bound; [apply (Ffin_pow2 0x1p480%float 480 eq_refl) | exact H].
Qed.
Lemma state_inv_runb prior rs : (length rs <= N52)%nat -> fbounded prior = true -> Forall (fun r => fbounded r = true) rs ->
  state_inv 480 (length rs) (fslot_run prior rs).
Proof.
  intros Hlen Hp Hrs. apply state_inv_run; [lia | assumption | apply fbounded_ok, Hp |].
  eapply Forall_impl; [|exact Hrs]. intros r. apply fbounded_ok.
Qed.

(* ---------- 2. beta ---------- *)
Lemma scale_ok m k s : (1 <= m <= 480)%Z -> (k <= N52)%nat -> state_inv m k s ->
  Ffin (1 / f_beta s)%float /\ bp2 (-1024) <= FR (1 / f_beta s)%float <= 1.
Proof.
  intros Hm Hk (_ & _ & _ & (Hb & Bb) & _). apply N52_Z in Hk.
  assert (HB : FR (f_beta s) < bp2 1024).
  { eapply Rle_lt_trans; [apply Bb|]. apply Rlt_le_trans with (bp2 53 * bp2 (2 * m + 3)).
    - apply Rmult_lt_compat_r; [apply bpow_gt_0|]. change (bp2 53) with (IZR (2 ^ 53)). apply IZR_lt. lia.
    - rewrite <- bpow_plus. apply bpow_le. lia. }
  pose proof (bpow_gt_0 radix2 1024) as HBig. pose proof (bpow_gt_0 radix2 (-1024)) as Hsm. pose proof Big_gt_1.
  destruct (div_iv 1 (f_beta s) (bp2 (-1024)) 1 Ffin_1) as (H1 & _ & H3);
    [lra | apply fmt_bpow; lia | apply fmt_1 | unfold Big; lra | lra | |].
  - rewrite FR_1. unfold Rdiv. rewrite Rmult_1_l. split.
    + change (-1024)%Z with (- (1024))%Z. rewrite bpow_opp. apply Rinv_le_contravar; lra.
    + rewrite <- Rinv_1. apply Rinv_le_contravar; lra.
  - split; assumption.
Qed.

Lemma FR_abs x : FR (abs x) = Rabs (FR x).
Proof. unfold FR. rewrite abs_equiv. apply B2R_Babs. Qed.
Lemma Ffin_abs x : Ffin x -> Ffin (abs x).
Proof. unfold Ffin. rewrite abs_equiv, is_finite_Babs. tauto. Qed.

Lemma run_snoc prior rs r : fslot_run prior (rs ++ [r]) = fslot_update (fslot_run prior rs) r.
Proof. unfold fslot_run. rewrite fold_left_app. reflexivity. Qed.

Lemma pos_float x : Ffin x -> 0 < FR x -> (0 <? x)%float = true.
Proof. intros Hx H. apply ltb_real; [exact Ffin_0 | exact Hx | rewrite FR_0; exact H]. Qed.

(* ---------- 2. beta: finite, >= 10, bounded above, 1/beta a valid Gamma scale ---------- *)
Theorem float_beta_valid : forall prior rs, (Z.of_nat (length rs) <= 2 ^ 52)%Z ->
  fbounded prior = true -> Forall (fun r => fbounded r = true) rs ->
  let b := f_beta (fslot_run prior rs) in
  PrimFloat.is_finite b = true /\ (10 <=? b)%float = true /\
  B2R (Prim2B b) <= (INR (length rs) + 1) * bp2 963 /\
  PrimFloat.is_finite (1 / b)%float = true /\ (0 <? 1 / b)%float = true.
Proof.
  intros prior rs Hlen Hp Hrs b. apply Z_N52 in Hlen. pose proof (state_inv_runb prior rs Hlen Hp Hrs) as Hs.
  destruct (scale_ok 480 _ _ ltac:(lia) Hlen Hs) as [Hsc1 Hsc2].
  destruct Hs as (_ & _ & _ & (Hb & Bb) & _). fold b in Hb, Bb, Hsc1, Hsc2.
  split; [apply is_finite_Ffin, Hb|]. split; [apply leb_real; [exact Ffin_10 | exact Hb | rewrite FR_10; lra]|].
  split. { rewrite INR_IZR_INZ, <- (plus_IZR _ 1). apply Bb. }
  split; [apply is_finite_Ffin, Hsc1|]. apply pos_float; [exact Hsc1|].
  pose proof (bpow_gt_0 radix2 (-1024)). lra.
Qed.

Theorem float_beta_monotone : forall prior rs r, (Z.of_nat (length (rs ++ [r])) <= 2 ^ 52)%Z ->
  fbounded prior = true -> Forall (fun x => fbounded x = true) (rs ++ [r]) ->
  (f_beta (fslot_run prior rs) <=? f_beta (fslot_run prior (rs ++ [r])))%float = true.
Proof.
  intros prior rs r Hlen Hp Hrs. apply Z_N52 in Hlen. rewrite app_length in Hlen. cbn [length] in Hlen.
  apply Forall_app in Hrs. destruct Hrs as [Hrs Hr]. inversion Hr as [|? ? Hr' _]; subst.
  pose proof (state_inv_runb prior rs ltac:(lia) Hp Hrs) as Hs.
  destruct (state_step_full 480 (length rs) _ r ltac:(lia) ltac:(lia) Hs (fbounded_ok _ Hr')) as [Hs' Hmono].
  rewrite run_snoc. apply leb_real; [apply Hs | apply Hs' | exact Hmono].
Qed.

(* ---------- 3. the whole state: finite, no NaN, variance > 0, |mean| <= 2^480 (1 + 2^-52) ---------- *)
Lemma FR_mubound : FR 0x1.0000000000001p480%float = bp2 480 + bp2 (480 - 52).
Proof.
  rewrite (FR_SF 0x1.0000000000001p480%float (S754_finite false 4503599627370497 428) eq_refl).
  unfold SF2R, F2R. cbn [Fnum Fexp cond_Zopp]. change 4503599627370497%Z with (2 ^ 52 + 1)%Z.
  rewrite plus_IZR. change (IZR (2 ^ 52)) with (bp2 52). rewrite Rmult_plus_distr_r, <- bpow_plus.
  change (52 + 428)%Z with 480%Z. change (480 - 52)%Z with 428%Z. lra.
Qed.
Lemma Ffin_mubound : Ffin 0x1.0000000000001p480%float.
Proof. eapply Ffin_SF; [vm_compute; reflexivity | reflexivity]. Qed.

Theorem float_state_valid : forall prior rs, (Z.of_nat (length rs) <= 2 ^ 52)%Z ->
  fbounded prior = true -> Forall (fun r => fbounded r = true) rs ->
  let s := fslot_run prior rs in
  f_n s = length rs /\
  PrimFloat.is_finite (f_alpha s) = true /\ PrimFloat.is_finite (f_beta s) = true /\
  PrimFloat.is_finite (f_mu s) = true /\ PrimFloat.is_finite (f_v s) = true /\
  (0 <? f_v s)%float = true /\ (f_v s <=? f_beta s)%float = true /\
  (abs (f_mu s) <=? 0x1.0000000000001p480)%float = true.
Proof.
  intros prior rs Hlen Hp Hrs s. apply Z_N52 in Hlen. pose proof (state_inv_runb prior rs Hlen Hp Hrs) as Hs. fold s in Hs.
  destruct Hs as (Hn & (Ha & _) & (Hmu & Bmu) & (Hb & Bb) & (Hv & Bv)).
  split; [exact Hn|]. repeat (split; [apply is_finite_Ffin; assumption|]).
  split. { apply pos_float; [exact Hv|]. pose proof (bpow_gt_0 radix2 (-50)). lra. }
  split. { apply leb_real; [exact Hv | exact Hb | lra]. }
  apply leb_real; [apply Ffin_abs, Hmu | exact Ffin_mubound |]. rewrite FR_abs, FR_mubound. exact Bmu.
Qed.

(* ---------- 4. arguments of the two sampler calls ---------- *)
Lemma sqrt_ok x : Ffin x -> 0 <= FR x -> Ffin (PrimFloat.sqrt x) /\ 0 <= FR (PrimFloat.sqrt x).
Proof.
  unfold Ffin, FR. intros Hx Bx. rewrite sqrt_equiv.
  destruct (Bsqrt_correct prec emax Hprec Hmax mode_NE (Prim2B x)) as (H1 & H2 & _).
  split.
  - rewrite H2. destruct (Prim2B x) as [sx|sx| |sx mx ex Bnd]; try discriminate; try reflexivity.
    destruct sx; [|reflexivity]. exfalso. simpl in Bx.
    pose proof (F2R_lt_0 radix2 (Float radix2 (Zneg mx) ex) ltac:(simpl; lia)). simpl in *. lra.
  - rewrite H1. apply round_ge_generic; auto with typeclass_instances.
    + apply fexp_correct. reflexivity.
    + apply generic_format_0.
    + apply sqrt_pos.
Qed.

Lemma FR_tiny : FR 0x1p-1022%float = bp2 (-1022).
Proof. apply (FR_pow2 0x1p-1022%float (-1022)). reflexivity. Qed.
Lemma Ffin_tiny : Ffin 0x1p-1022%float.
Proof. apply (Ffin_pow2 0x1p-1022%float (-1022)). reflexivity. Qed.

(* sqrt(1/p) for a finite p >= 2^-1022: finite and >= 0 *)
Lemma stddev_ok p : Ffin p -> bp2 (-1022) <= FR p ->
  Ffin (PrimFloat.sqrt (1 / p))%float /\ 0 <= FR (PrimFloat.sqrt (1 / p))%float.
Proof.
  intros Hp Bp. pose proof (FR_lt_Big p) as HB. apply Rabs_lt_inv in HB. unfold Big in HB.
  pose proof (bpow_gt_0 radix2 (-1022)) as H0. pose proof (bpow_gt_0 radix2 (-1024)) as H1. pose proof (bpow_gt_0 radix2 1024) as H2.
  destruct (div_iv 1 p (bp2 (-1024)) (bp2 1022) Ffin_1) as (Hv1 & _ & Hv3);
    [lra | apply fmt_bpow; lia | apply fmt_bpow; lia | unfold Big; lra | apply bp2_lt_Big; lia | |].
  - rewrite FR_1. unfold Rdiv. rewrite Rmult_1_l. split.
    + change (-1024)%Z with (- (1024))%Z. rewrite bpow_opp. apply Rinv_le_contravar; lra.
    + replace (bp2 1022) with (/ bp2 (-1022)).
      * apply Rinv_le_contravar; lra.
      * change (-1022)%Z with (- (1022))%Z. rewrite bpow_opp. apply Rinv_inv.
  - apply sqrt_ok; [exact Hv1 | lra].
Qed.

Definition gamma_ok (g : pfloat) : bool := ((g =? 0) || (PrimFloat.is_finite g && (0x1p-1022 <=? g)))%float.

Lemma precision_const_ok : Ffin 0x1.0624dd2f1a9fcp-10%float /\ bp2 (-1022) <= FR 0x1.0624dd2f1a9fcp-10%float.
Proof.
  assert (Hc : Ffin 0x1.0624dd2f1a9fcp-10%float) by (eapply Ffin_SF; [vm_compute; reflexivity | reflexivity]).
  split; [exact Hc|]. rewrite <- FR_tiny. apply leb_real; [exact Ffin_tiny | exact Hc |]. vm_compute. reflexivity.
Qed.

Theorem float_sampler_valid : forall prior rs g, (Z.of_nat (length rs) <= 2 ^ 52)%Z ->
  fbounded prior = true -> Forall (fun r => fbounded r = true) rs ->
  rs = [] \/ gamma_ok g = true ->
  exists shape scale mean sd, fsample_args (fslot_run prior rs) g = [shape; scale; mean; sd] /\
    PrimFloat.is_finite shape = true /\ (0 <? shape)%float = true /\
    PrimFloat.is_finite scale = true /\ (0 <? scale)%float = true /\
    PrimFloat.is_finite mean = true /\
    PrimFloat.is_finite sd = true /\ (0 <=? sd)%float = true.
Proof.
  intros prior rs g Hlen Hp Hrs Hg. pose proof (Z_N52 _ Hlen) as HlenN. destruct (float_alpha_exact prior rs Hlen) as (Ha1 & _ & Ha3).
  destruct (float_beta_valid prior rs Hlen Hp Hrs) as (_ & _ & _ & Hs1 & Hs2).
  destruct (float_state_valid prior rs Hlen Hp Hrs) as (Hn & _ & _ & Hmu & _).
  set (s := fslot_run prior rs) in *. unfold fsample_args.
  set (p := if ((g =? 0)%float || Nat.eqb (f_n s) 0)%bool then 0x1.0624dd2f1a9fcp-10%float else g).
  exists (f_alpha s), (1 / f_beta s)%float, (f_mu s), (PrimFloat.sqrt (1 / p))%float.
  split; [reflexivity|]. repeat (split; [assumption|]).
  assert (Hpp : Ffin p /\ bp2 (-1022) <= FR p).
  { unfold p. destruct ((g =? 0)%float || Nat.eqb (f_n s) 0)%bool eqn:Hc; [exact precision_const_ok|].
    apply orb_false_elim in Hc. destruct Hc as [Hg0 Hn0]. rewrite Hn in Hn0.
    destruct Hg as [->|Hg]; [discriminate Hn0|]. unfold gamma_ok in Hg. rewrite Hg0 in Hg. cbn [orb] in Hg.
    apply andb_true_iff in Hg. destruct Hg as [Hgf Hgl]. apply is_finite_Ffin in Hgf.
    split; [exact Hgf|]. rewrite <- FR_tiny. apply leb_real; [exact Ffin_tiny | exact Hgf | exact Hgl]. }
  destruct (stddev_ok p (proj1 Hpp) (proj2 Hpp)) as [Hsd1 Hsd2].
  split; [apply is_finite_Ffin, Hsd1|]. apply leb_real; [exact Ffin_0 | exact Hsd1 | rewrite FR_0; exact Hsd2].
Qed.

(* a positive gamma draw below 2^-1024 (here the smallest denormal) makes 1/precision overflow: std_dev = +inf,
   which rand_distr's Normal::new rejects (`!std_dev.is_finite()`) *)
Lemma float_sampler_tiny_gamma :
  let s := fslot_run (f_of_bits 4607182418800017408) [f_of_bits 4607182418800017408] in
  gamma_ok (f_of_bits 1) = false /\ bits_of_f (nth 3 (fsample_args s (f_of_bits 1)) 0%float) = 9218868437227405312%Z.
Proof. vm_compute. split; reflexivity. Qed.

(* ---------- 5. mean within one rounding step of the hull, executable corollary for histories in [1, 2] ---------- *)
Theorem float_mean_near_hull : forall (m : Z) (L H prior : pfloat) (rs : list pfloat),
  (-1022 <= m <= 1020)%Z -> (Z.of_nat (length rs) <= 2 ^ 52)%Z ->
  PrimFloat.is_finite L = true -> PrimFloat.is_finite H = true ->
  - (2 * bp2 m) <= B2R (Prim2B L) -> B2R (Prim2B H) <= 2 * bp2 m ->
  PrimFloat.is_finite prior = true -> B2R (Prim2B L) <= B2R (Prim2B prior) <= B2R (Prim2B H) ->
  Forall (fun r => PrimFloat.is_finite r = true /\ Rabs (B2R (Prim2B r)) <= bp2 m /\
                   B2R (Prim2B L) + bp2 (m - 52) <= B2R (Prim2B r) <= B2R (Prim2B H) - bp2 (m - 52)) rs ->
  let mu := f_mu (fslot_run prior rs) in
  PrimFloat.is_finite mu = true /\ B2R (Prim2B L) <= B2R (Prim2B mu) <= B2R (Prim2B H).
Proof.
  intros m L H prior rs Hm Hlen HL HH BL BH Hp Bp Hrs mu. apply Z_N52 in Hlen.
  destruct (float_mean_bounds m (FR L) (FR H) prior rs Hm Hlen (fmt_FR L) (fmt_FR H) BL BH) as [H1 H2].
  - apply is_finite_Ffin, Hp.
  - exact Bp.
  - eapply Forall_impl; [|exact Hrs]. intros r (Hr1 & Hr2 & Hr3). split; [apply is_finite_Ffin, Hr1|]. split; assumption.
  - split; [apply is_finite_Ffin, H1 | exact H2].
Qed.

Definition in_1_2 (x : pfloat) : bool := ((1 <=? x) && (x <=? 2))%float.
Lemma in_1_2_ok x : in_1_2 x = true -> Ffin x /\ 1 <= FR x <= 2.
Proof.
  unfold in_1_2. intros H. apply andb_true_iff in H. destruct H as [H1 H2].
  assert (Hx : Ffin x).
  { unfold Ffin. rewrite leb_equiv in H1, H2. unfold Bleb in *.
    destruct (Prim2B x) as [sx|sx| |sx mx ex Bx]; try reflexivity; try discriminate.
    destruct sx; [vm_compute in H1 | vm_compute in H2]; discriminate. }
  split; [exact Hx|]. apply (leb_real _ _ Ffin_1 Hx) in H1. apply (leb_real _ _ Hx Ffin_2) in H2.
  rewrite FR_1 in H1. rewrite FR_2 in H2. lra.
Qed.

Lemma FR_L12 : FR 0x1.ffffffffffffcp-1%float + bp2 (1 - 52) = 1.
Proof.
  rewrite (FR_SF 0x1.ffffffffffffcp-1%float (S754_finite false 9007199254740988 (-53)) eq_refl).
  unfold SF2R, F2R. simpl. lra.
Qed.
Lemma FR_H12 : FR 0x1.0000000000001p1%float - bp2 (1 - 52) = 2.
Proof.
  rewrite (FR_SF 0x1.0000000000001p1%float (S754_finite false 4503599627370497 (-51)) eq_refl).
  unfold SF2R, F2R. simpl. lra.
Qed.
Lemma Ffin_L12 : Ffin 0x1.ffffffffffffcp-1%float. Proof. eapply Ffin_SF; [vm_compute; reflexivity | reflexivity]. Qed.
Lemma Ffin_H12 : Ffin 0x1.0000000000001p1%float. Proof. eapply Ffin_SF; [vm_compute; reflexivity | reflexivity]. Qed.

Theorem float_mean_in_1_2 : forall prior rs, (Z.of_nat (length rs) <= 2 ^ 52)%Z ->
  in_1_2 prior = true -> Forall (fun r => in_1_2 r = true) rs ->
  let mu := f_mu (fslot_run prior rs) in
  PrimFloat.is_finite mu = true /\ (0x1.ffffffffffffcp-1 <=? mu)%float = true /\ (mu <=? 0x1.0000000000001p1)%float = true.
Proof.
  intros prior rs Hlen Hp Hrs mu. apply Z_N52 in Hlen. pose proof FR_L12 as HL. pose proof FR_H12 as HH.
  assert (E : 0 < bp2 (1 - 52)) by apply bpow_gt_0.
  assert (E1 : bp2 (1 - 52) <= 1) by (change 1 with (bp2 0); apply bpow_le; lia).
  destruct (in_1_2_ok _ Hp) as [Hp1 Hp2].
  destruct (float_mean_bounds 1 (FR 0x1.ffffffffffffcp-1%float) (FR 0x1.0000000000001p1%float) prior rs) as [H1 H2];
    try assumption; try lia; try apply fmt_FR.
  - change (bp2 1) with 2. lra.
  - change (bp2 1) with 2. lra.
  - lra.
  - eapply Forall_impl; [|exact Hrs]. intros r Hr. destruct (in_1_2_ok _ Hr) as [Hr1 Hr2].
    split; [exact Hr1|]. split; [change (bp2 1) with 2; apply Rabs_le; lra | lra].
  - fold mu in H1, H2. split; [apply is_finite_Ffin, H1|].
    split; apply leb_real; try assumption; try apply Ffin_L12; try apply Ffin_H12; lra.
Qed.

(* ---------- non-vacuity: concrete histories meeting the hypotheses (evaluated by the kernel) ---------- *)
(* the extreme history prior = 2^480, rewards -2^480, 2^480, 0.5 satisfies the bounds; admissible and inadmissible gamma draws *)
Example float_hypotheses_satisfiable :
  let prior := 0x1p480%float in
  let rs := [(- 0x1p480)%float; 0x1p480%float; 0x1p-1%float] in
  fbounded prior = true /\ Forall (fun r => fbounded r = true) rs /\ (Z.of_nat (length rs) <= 2 ^ 52)%Z /\
  gamma_ok 0%float = true /\ gamma_ok (- 0)%float = true /\ gamma_ok 0x1p-1022%float = true /\ gamma_ok 0x1p+1023%float = true /\
  gamma_ok 0x1p-1074%float = false /\ gamma_ok nan = false /\ gamma_ok infinity = false /\ gamma_ok (- 1)%float = false /\
  fbounded infinity = false /\ fbounded nan = false /\
  bits_of_f (f_alpha (fslot_run prior rs)) = 4612811918334230528%Z /\
  PrimFloat.is_finite (f_beta (fslot_run prior rs)) = true /\ (0x1p960 <=? f_beta (fslot_run prior rs))%float = true.
Proof.
  cbv zeta. split; [vm_compute; reflexivity|]. split; [repeat constructor|]. split; [cbn [length]; lia|].
  repeat split; vm_compute; reflexivity.
Qed.
(* a history inside [1, 2] *)
Example float_mean_in_1_2_satisfiable :
  let prior := 1%float in
  let rs := [0x1.8p0%float; 0x1.4p0%float; 2%float; 1%float] in
  in_1_2 prior = true /\ Forall (fun r => in_1_2 r = true) rs /\ (Z.of_nat (length rs) <= 2 ^ 52)%Z /\
  bits_of_f (f_mu (fslot_run prior rs)) = 4609152743636992000%Z.
Proof.
  cbv zeta. split; [vm_compute; reflexivity|]. split; [repeat constructor|]. split; [cbn [length]; lia|].
  vm_compute. reflexivity.
Qed.

(* outside the bounds the conclusions fail: one finite reward 2^512 (prior 0) gives d*d = +inf and weight 0, so the added term is
   0 * inf = NaN: beta = NaN (bits_of_f = -1) and scale = 1/beta = NaN, which Gamma::new rejects (`!(scale > 0)`) *)
Lemma float_beta_nan_beyond_bound :
  let s := fslot_run 0%float [0x1p512%float] in
  fbounded 0x1p512%float = false /\ PrimFloat.is_finite 0x1p512%float = true /\
  bits_of_f (f_beta s) = (-1)%Z /\ PrimFloat.is_nan (f_beta s) = true /\ (0 <? 1 / f_beta s)%float = false.
Proof. vm_compute. repeat split; reflexivity. Qed.
