(* C18 — the termination mathematics over IEEE-754 binary64 (Model/TermF.v), technique of Proofs/SlotFloatP.v:
   * MaxGeneration / MaxTime / CompositeTermination::estimate lie in [0, 1] (finite, no NaN) for every generation and limit below
     2^63 (limit 0 included: x/0 is +inf or NaN and f64::min maps both to 1) and for every elapsed time >= 0 and every limit
     that is not negative (+0, denormal - the quotient overflows to +inf -, +inf, NaN included); limit -0.0 is a counterexample;
   * get_variance_mean is finite for slices of at most 2^30 values of magnitude <= 2^480; get_cv is 0 for a zero mean;
   * relative_distance is finite and >= 0 for vectors with components of magnitude <= 2^1022.
   Depends on the same standard-library axioms as SlotFloatP.v; declares nothing itself. *)
From Coq Require Import ZArith Reals Floats Lia Lra List Psatz Bool.
From Flocq Require Import Core.Core IEEE754.BinarySingleNaN IEEE754.PrimFloat.
From VRP Require Import Model.SlotF Model.Selector Model.SelectorF Model.Termination Model.Termination2 Model.TermF.
From VRP Require Import Proofs.SlotFloatP Proofs.RewardFloatP.
Import ListNotations.
Local Open Scope R_scope.

(* ---------- usize as Float, for every value below 2^63 ---------- *)
Lemma fmt_2p63 : Fmt (bp2 63). Proof. apply fmt_bpow. lia. Qed.

Lemma f_of_Z_ok z : (0 <= z < 2 ^ 63)%Z ->
  Ffin (f_of_Z z) /\ 0 <= FR (f_of_Z z) <= bp2 63 /\ (z <> 0%Z -> 1 <= FR (f_of_Z z)) /\ Bsign (Prim2B (f_of_Z z)) = false /\
  (z = 0%Z -> f_of_Z z = 0%float).
Proof.
  intros Hz. unfold Ffin, FR, f_of_Z. rewrite of_int63_equiv.
  rewrite Uint63.of_Z_spec. rewrite Z.mod_small by (change Uint63.wB with (2 ^ 63)%Z; lia).
  pose proof (binary_normalize_correct prec emax Hprec Hmax mode_NE z 0 false) as G.
  cbv zeta in G. unfold F2R in G. cbn [Fnum Fexp] in G. change (bpow radix2 0) with 1 in G. rewrite Rmult_1_r in G.
  change (round radix2 fexp (round_mode mode_NE) (IZR z)) with (rnd (IZR z)) in G.
  assert (Hz0 : 0 <= IZR z <= bp2 63).
  { split; [apply IZR_le; lia|]. change (bp2 63) with (IZR (2 ^ 63)). apply IZR_le. lia. }
  destruct (rnd_bounds 0 (bp2 63) (IZR z) fmt_0 fmt_2p63 Hz0) as [R1 R2].
  assert (HB : bp2 63 < Big) by (apply bp2_lt_Big; lia).
  rewrite Rlt_bool_true in G by (rewrite Rabs_pos_eq by lra; apply Rle_lt_trans with (1 := R2); exact HB).
  destruct G as (H1 & H2 & H3).
  split; [exact H2|]. rewrite H1. split; [lra|]. split; [|split].
  - intros Hne. apply (rnd_bounds 1 (bp2 63) (IZR z) fmt_1 fmt_2p63). split; [apply IZR_le; lia | lra].
  - rewrite H3. destruct (Rcompare_spec (IZR z) 0) as [H|H|H]; try reflexivity. lra.
  - intros ->. rewrite <- (B2Prim_Prim2B 0%float). reflexivity.
Qed.

(* ---------- classification of a quotient and f64::min(x, 1) ---------- *)
Definition unit_ok (r : pfloat) : Prop :=
  PrimFloat.is_finite r = true /\ (0 <=? r)%float = true /\ (r <=? 1)%float = true.

(* NaN, or finite and >= 0 (as a real: -0.0 included), or +inf *)
Definition qclass (r : pfloat) : Prop :=
  PrimFloat.is_nan r = true \/ (Ffin r /\ 0 <= FR r) \/ Prim2B r = B754_infinity false.

Lemma unit_ok_one : unit_ok 1%float.
Proof. repeat split; vm_compute; reflexivity. Qed.

Lemma is_nan_one : PrimFloat.is_nan 1%float = false. Proof. reflexivity. Qed.

Lemma fminr_unit r : qclass r -> unit_ok (fminr r 1).
Proof.
  intros [Hn|[[Hf B]|Hi]]; unfold fminr.
  - rewrite Hn. exact unit_ok_one.
  - rewrite (is_nan_fin r Hf), is_nan_one. destruct (1 <? r)%float eqn:E; [exact unit_ok_one|].
    assert (Hle : FR r <= 1).
    { destruct (Rle_lt_dec (FR r) 1) as [H|H]; [exact H|]. exfalso.
      assert (E' : (1 <? r)%float = true) by (apply (ltb_real _ _ Ffin_1 Hf); rewrite FR_1; exact H). congruence. }
    split; [apply is_finite_Ffin, Hf|]. split.
    + apply leb_real; [exact Ffin_0 | exact Hf | rewrite FR_0; exact B].
    + apply leb_real; [exact Hf | exact Ffin_1 | rewrite FR_1; exact Hle].
  - assert (Hn : PrimFloat.is_nan r = false) by (rewrite is_nan_equiv, Hi; reflexivity). rewrite Hn, is_nan_one.
    assert (E : (1 <? r)%float = true).
    { rewrite ltb_equiv. unfold Bltb. rewrite Hi, B2SF_Prim2B. reflexivity. }
    rewrite E. exact unit_ok_one.
Qed.

Lemma Bsign_pos x : is_finite x = true -> 0 < @B2R prec emax x -> Bsign x = false.
Proof.
  destruct x as [s|s| |s m e B]; cbn; try discriminate; try lra. intros _ H. destruct s; [|reflexivity].
  exfalso. pose proof (F2R_lt_0 radix2 (Float radix2 (Zneg m) e) ltac:(simpl; lia)). simpl in *. lra.
Qed.

(* a finite dividend >= 0 divided by a divisor that is NaN or has a clear sign bit *)
Lemma div_qclass a b : Ffin a -> 0 <= FR a -> PrimFloat.is_nan b = true \/ Bsign (Prim2B b) = false -> qclass (a / b)%float.
Proof.
  unfold Ffin, FR, qclass. intros Ha Ba Hb. rewrite is_nan_equiv in *. unfold Ffin, FR. rewrite div_equiv.
  destruct (Prim2B b) as [sb|sb| |sb mb eb Bb] eqn:Eb.
  - (* divisor +0 *)
    destruct Hb as [Hb|Hb]; [discriminate|]. cbn in Hb. subst sb.
    destruct (Prim2B a) as [sa|sa| |sa ma ea Ba'] eqn:Ea; try discriminate.
    + left. reflexivity.
    + right. right. cbn [Bdiv]. destruct sa; [|reflexivity]. exfalso. cbn in Ba.
      pose proof (F2R_lt_0 radix2 (Float radix2 (Zneg ma) ea) ltac:(simpl; lia)). simpl in *. lra.
  - (* divisor +inf *)
    destruct Hb as [Hb|Hb]; [discriminate|]. cbn in Hb. subst sb.
    destruct (Prim2B a) as [sa|sa| |sa ma ea Ba'] eqn:Ea; try discriminate; right; left; cbn; split; try reflexivity; lra.
  - left. destruct (Prim2B a); reflexivity.
  - (* finite positive divisor *)
    destruct Hb as [Hb|Hb]; [discriminate|]. cbn in Hb. subst sb.
    assert (Hy : 0 < B2R (B754_finite false mb eb Bb)).
    { cbn. apply F2R_gt_0. simpl. lia. }
    generalize (Bdiv_correct prec emax Hprec Hmax mode_NE (Prim2B a) (B754_finite false mb eb Bb) ltac:(lra)).
    set (q := B2R (Prim2B a) / B2R (B754_finite false mb eb Bb)).
    assert (Hq : 0 <= q) by (unfold q; apply Rmult_le_pos; [exact Ba | apply Rlt_le, Rinv_0_lt_compat, Hy]).
    assert (Hz : 0 <= rnd q) by (apply round_ge_generic; auto with typeclass_instances; [apply fexp_correct; reflexivity | apply generic_format_0]).
    change (round radix2 fexp (round_mode mode_NE) q) with (rnd q).
    destruct (Rlt_bool_spec (Rabs (rnd q)) (bpow radix2 emax)) as [Hlt|Hge].
    + intros (H1 & H2 & _). right. left. rewrite H2. split; [exact Ha|]. rewrite H1. exact Hz.
    + intros H. right. right.
      assert (Hpos : 0 < B2R (Prim2B a)).
      { destruct (Rle_lt_or_eq_dec _ _ Ba) as [Hp|Hp]; [exact Hp|]. exfalso. unfold q in Hge. rewrite <- Hp in Hge.
        unfold Rdiv in Hge. rewrite Rmult_0_l in Hge. unfold rnd in Hge. rewrite round_0 in Hge by auto with typeclass_instances.
        rewrite Rabs_R0 in Hge. pose proof (bpow_gt_0 radix2 emax). lra. }
      rewrite (Bsign_pos _ Ha Hpos) in H. cbn in H.
      destruct (Bdiv mode_NE (Prim2B a) (B754_finite false mb eb Bb)) as [s|s| |s m e B']; cbn in H; try discriminate.
      injection H as ->. reflexivity.
Qed.

(* ---------- MaxGeneration::estimate ---------- *)
Theorem fest_max_generation_unit generation limit : (0 <= generation < 2 ^ 63)%Z -> (0 <= limit < 2 ^ 63)%Z ->
  unit_ok (fest_max_generation generation limit).
Proof.
  intros Hg Hl. unfold fest_max_generation. apply fminr_unit.
  destruct (f_of_Z_ok generation Hg) as (Ha & Ba & _). destruct (f_of_Z_ok limit Hl) as (_ & _ & _ & Hs & _).
  apply div_qclass; [exact Ha | apply Ba | right; exact Hs].
Qed.

(* a limit that is reached gives exactly 1; limit 0 gives 1 for every generation *)
Lemma fest_max_generation_zero_limit generation : (0 <= generation < 2 ^ 63)%Z -> fest_max_generation generation 0 = 1%float.
Proof.
  intros Hg. unfold fest_max_generation. change (f_of_Z 0) with 0%float.
  destruct (f_of_Z_ok generation Hg) as (Ha & Ba & Hpos & _ & Hz0).
  destruct (Z.eq_dec generation 0) as [->|Hne]; [vm_compute; reflexivity|].
  specialize (Hpos Hne).
  assert (Hi : Prim2B (f_of_Z generation / 0)%float = B754_infinity false).
  { rewrite div_equiv. change (Prim2B 0%float) with (@B754_zero prec emax false). unfold Ffin, FR in *.
    destruct (Prim2B (f_of_Z generation)) as [s|s| |s m e B]; try discriminate; cbn in Hpos; try lra.
    cbn [Bdiv]. destruct s; [|reflexivity]. exfalso.
    pose proof (F2R_lt_0 radix2 (Float radix2 (Zneg m) e) ltac:(simpl; lia)). simpl in *. lra. }
  unfold fminr. assert (Hn : PrimFloat.is_nan (f_of_Z generation / 0)%float = false) by (rewrite is_nan_equiv, Hi; reflexivity).
  rewrite Hn, is_nan_one. assert (E : (1 <? f_of_Z generation / 0)%float = true).
  { rewrite ltb_equiv. unfold Bltb. rewrite Hi, B2SF_Prim2B. reflexivity. }
  rewrite E. reflexivity.
Qed.

(* ---------- MaxTime::estimate ---------- *)
Definition limit_ok (l : pfloat) : bool := PrimFloat.is_nan l || negb (get_sign l).
Definition elapsed_ok (e : pfloat) : bool := PrimFloat.is_finite e && (0 <=? e)%float.

Theorem fest_max_time_unit elapsed limit : elapsed_ok elapsed = true -> limit_ok limit = true ->
  unit_ok (fest_max_time elapsed limit).
Proof.
  unfold elapsed_ok, limit_ok. intros He Hl. apply andb_true_iff in He. destruct He as [He1 He2]. apply is_finite_Ffin in He1.
  apply (leb_real _ _ Ffin_0 He1) in He2. rewrite FR_0 in He2.
  unfold fest_max_time. apply fminr_unit. apply div_qclass; [exact He1 | exact He2|].
  apply orb_true_iff in Hl. destruct Hl as [Hl|Hl]; [left; exact Hl | right]. rewrite <- get_sign_equiv. apply negb_true_iff, Hl.
Qed.

(* the hypothesis on the limit is needed: MaxTime::new(-0.0) estimates -inf as soon as any time has elapsed *)
Lemma fest_max_time_negative_zero :
  limit_ok (-0)%float = false /\ elapsed_ok 0x1p-10%float = true /\ fest_max_time 0x1p-10 (-0)%float = neg_infinity.
Proof. repeat split; vm_compute; reflexivity. Qed.

(* time overflow: one second elapsed against the smallest positive limit: the quotient is +inf, the estimate 1 *)
Lemma fest_max_time_overflow_example :
  limit_ok 0x1p-1074%float = true /\ (1 / 0x1p-1074)%float = infinity /\ fest_max_time 1 0x1p-1074%float = 1%float.
Proof. repeat split; vm_compute; reflexivity. Qed.

(* ---------- CompositeTermination::estimate ---------- *)
Lemma fest_composite_in (P : pfloat -> Prop) es : P 0%float -> Forall P es -> P (fest_composite es).
Proof.
  intros H0 Hall. unfold fest_composite. destruct es as [|e rest]; [exact H0|].
  inversion Hall as [|? ? He Hrest]; subst. clear Hall. revert e He.
  induction Hrest as [|x rest Hx _ IH]; intros e He; cbn [fold_left]; [exact He|].
  apply IH. destruct (ftotal_cmp e x); assumption.
Qed.

Lemma unit_ok_zero : unit_ok 0%float. Proof. repeat split; vm_compute; reflexivity. Qed.

Theorem fest_composite_unit es : Forall unit_ok es -> unit_ok (fest_composite es).
Proof. apply fest_composite_in. exact unit_ok_zero. Qed.

(* ---------- sums of bounded floats: the bound grows by one unit per term, without any rounding slack ---------- *)
Lemma FR_neg0 : FR (-0)%float = 0.
Proof. rewrite (FR_SF (-0)%float (S754_zero true) eq_refl). reflexivity. Qed.
Lemma Ffin_neg0 : Ffin (-0)%float. Proof. eapply Ffin_SF; [vm_compute; reflexivity | reflexivity]. Qed.

Lemma unit_times_pow k m : (0 <= k < 2 ^ 53)%Z -> (-1074 <= m)%Z -> (m + 53 <= 1024)%Z ->
  Fmt (IZR k * bp2 m) /\ Fmt (- (IZR k * bp2 m)) /\ 0 <= IZR k * bp2 m < Big.
Proof.
  intros Hk Hm Hm'. pose proof (bpow_gt_0 radix2 m) as HM.
  assert (F : Fmt (IZR k * bp2 m)) by (apply fmt_int_pow; lia).
  split; [exact F|]. split; [apply fmt_opp, F|]. split.
  - apply Rmult_le_pos; [apply IZR_le; lia | lra].
  - apply Rlt_le_trans with (bp2 53 * bp2 m).
    + apply Rmult_lt_compat_r; [exact HM|]. change (bp2 53) with (IZR (2 ^ 53)). apply IZR_lt. lia.
    + rewrite <- bpow_plus. apply bpow_le. lia.
Qed.

Lemma fold_add_bound m : (-1074 <= m)%Z -> (m + 53 <= 1024)%Z ->
  forall l acc K, (0 <= K)%Z -> Ffin acc -> Rabs (FR acc) <= IZR K * bp2 m -> Forall (rew_ok m) l ->
  (K + Z.of_nat (length l) < 2 ^ 53)%Z ->
  Ffin (fold_left PrimFloat.add l acc) /\ Rabs (FR (fold_left PrimFloat.add l acc)) <= IZR (K + Z.of_nat (length l)) * bp2 m.
Proof.
  intros Hm Hm'. induction l as [|x l IH]; intros acc K HK Ha Ba Hl Hlen; cbn [fold_left length] in *.
  - rewrite Z.add_0_r. split; assumption.
  - inversion Hl as [|? ? [Hx Bx] Hl']; subst.
    destruct (unit_times_pow (K + 1) m ltac:(lia) Hm Hm') as (F1 & F2 & F3 & F4).
    apply Rabs_le_inv in Ba, Bx.
    assert (E : IZR (K + 1) * bp2 m = IZR K * bp2 m + bp2 m) by (rewrite plus_IZR; ring).
    destruct (add_iv acc x (- (IZR (K + 1) * bp2 m)) (IZR (K + 1) * bp2 m) Ha Hx F2 F1) as (H1 & _ & H3); [lra | lra | lra |].
    destruct (IH (acc + x)%float (K + 1)%Z ltac:(lia) H1 ltac:(apply Rabs_le; lra) Hl' ltac:(lia)) as [G1 G2].
    split; [exact G1|]. replace (K + Z.of_nat (S (length l)))%Z with (K + 1 + Z.of_nat (length l))%Z by lia. exact G2.
Qed.

Lemma fsum_bound m l : (-1074 <= m)%Z -> (m + 53 <= 1024)%Z -> Forall (rew_ok m) l -> (Z.of_nat (length l) < 2 ^ 53)%Z ->
  Ffin (fsum l) /\ Rabs (FR (fsum l)) <= INR (length l) * bp2 m.
Proof.
  intros Hm Hm' Hl Hlen. unfold fsum.
  destruct (fold_add_bound m Hm Hm' l (-0)%float 0%Z ltac:(lia) Ffin_neg0 ltac:(rewrite FR_neg0, Rabs_R0; lra) Hl ltac:(lia)) as [H1 H2].
  split; [exact H1|]. rewrite INR_IZR_INZ. exact H2.
Qed.

(* get_mean_slice: the mean of values of magnitude <= 2^m has magnitude <= 2^m *)
Lemma fmean_bound m l : (-1074 <= m)%Z -> (m + 53 <= 1024)%Z -> Forall (rew_ok m) l -> (Z.of_nat (length l) < 2 ^ 53)%Z ->
  rew_ok m (fmean l).
Proof.
  intros Hm Hm' Hl Hlen. pose proof (bpow_gt_0 radix2 m) as HM. unfold fmean. destruct l as [|x l'] eqn:El.
  - split; [exact Ffin_0 | rewrite FR_0, Rabs_R0; lra].
  - rewrite <- El in *. assert (Hn : (0 < length l)%nat) by (subst l; cbn; lia).
    destruct (fsum_bound m l Hm Hm' Hl Hlen) as [Hs Bs]. destruct (fnat_ok (length l) Hlen) as [Hn1 Hn2].
    assert (Hn1' : 1 <= INR (length l)) by (change 1 with (INR 1); apply le_INR; lia).
    assert (HB : bp2 m < Big) by (apply bp2_lt_Big; lia).
    apply Rabs_le_inv in Bs.
    destruct (div_iv (fsum l) (f_of_nat (length l)) (- bp2 m) (bp2 m) Hs) as (H1 & _ & H3);
      [rewrite Hn2; lra | apply fmt_opp, fmt_bpow; lia | apply fmt_bpow; lia | lra | lra | |].
    + rewrite Hn2. set (n := INR (length l)) in *. set (s := FR (fsum l)) in *.
      assert (Hi : 0 < / n) by (apply Rinv_0_lt_compat; lra).
      assert (Hni : n * / n = 1) by (apply Rinv_r; lra).
      unfold Rdiv. split.
      * apply Rmult_le_reg_r with n; [lra|]. rewrite Rmult_assoc, (Rmult_comm (/ n)), Hni. nra.
      * apply Rmult_le_reg_r with n; [lra|]. rewrite Rmult_assoc, (Rmult_comm (/ n)), Hni. nra.
    + split; [exact H1 | apply Rabs_le; lra].
Qed.

(* ---------- get_variance_mean for |values| <= 2^480 and at most 2^30 of them ---------- *)
Definition vm_inv (k : Z) (acc : pfloat * pfloat) : Prop :=
  Ffin (fst acc) /\ 0 <= FR (fst acc) <= IZR k * bp2 962 /\ Ffin (snd acc) /\ Rabs (FR (snd acc)) <= IZR k * bp2 481.

Lemma vm_step mean : rew_ok 480 mean -> forall k acc v, (0 <= k < 2 ^ 52)%Z -> vm_inv k acc -> rew_ok 480 v ->
  vm_inv (k + 1) (let dev := (v - mean)%float in (fst acc + dev * dev, snd acc + dev)%float).
Proof.
  intros [Hmu Bmu] k acc v Hk (Ha1 & Ba1 & Ha2 & Ba2) [Hv Bv]. cbv zeta.
  apply Rabs_le_inv in Bmu, Bv, Ba2.
  assert (E481 : bp2 481 = 2 * bp2 480) by (change 481%Z with (1 + 480)%Z; rewrite bpow_plus; simpl; lra).
  assert (E962 : bp2 962 = bp2 481 * bp2 481) by (rewrite <- bpow_plus; reflexivity).
  pose proof (bpow_gt_0 radix2 480) as H480.
  assert (HB481 : bp2 481 < Big) by (apply bp2_lt_Big; lia).
  assert (HB962 : bp2 962 < Big) by (apply bp2_lt_Big; lia).
  destruct (sub_iv v mean (- bp2 481) (bp2 481) Hv Hmu) as (Hd1 & _ & Hd3);
    [apply fmt_opp, fmt_bpow; lia | apply fmt_bpow; lia | lra | lra | lra |].
  set (dev := (v - mean)%float) in *.
  destruct (mul_iv dev dev 0 (bp2 962) Hd1 Hd1 fmt_0) as (Hq1 & _ & Hq3); [apply fmt_bpow; lia | lra | lra | rewrite E962; nra |].
  destruct (unit_times_pow (k + 1) 962 ltac:(lia) ltac:(lia) ltac:(lia)) as (F1 & _ & F3 & F4).
  destruct (unit_times_pow (k + 1) 481 ltac:(lia) ltac:(lia) ltac:(lia)) as (G1 & G2 & G3 & G4).
  assert (Ek : forall c, IZR (k + 1) * c = IZR k * c + c) by (intros c; rewrite plus_IZR; ring).
  destruct (add_iv (fst acc) (dev * dev)%float 0 (IZR (k + 1) * bp2 962) Ha1 Hq1 fmt_0 F1) as (Hs1 & _ & Hs3); [lra | lra | rewrite Ek; lra |].
  destruct (add_iv (snd acc) dev (- (IZR (k + 1) * bp2 481)) (IZR (k + 1) * bp2 481) Ha2 Hd1 G2 G1) as (Ht1 & _ & Ht3);
    [lra | lra | rewrite Ek; lra |].
  unfold vm_inv. cbn [fst snd]. repeat split; try assumption; try lra. apply Rabs_le. lra.
Qed.

Lemma vm_fold mean : rew_ok 480 mean -> forall l k acc, (0 <= k)%Z -> (k + Z.of_nat (length l) <= 2 ^ 52)%Z -> vm_inv k acc ->
  Forall (rew_ok 480) l ->
  vm_inv (k + Z.of_nat (length l))
         (fold_left (fun acc v => let dev := (v - mean)%float in (fst acc + dev * dev, snd acc + dev)%float) l acc).
Proof.
  intros Hmean. induction l as [|v l IH]; intros k acc Hk Hlen Hinv Hl; cbn [fold_left length] in *.
  - rewrite Z.add_0_r. exact Hinv.
  - inversion Hl as [|? ? Hv Hl']; subst.
    replace (k + Z.of_nat (S (length l)))%Z with (k + 1 + Z.of_nat (length l))%Z by lia.
    apply IH; [lia | lia | apply (vm_step mean Hmean); [lia | exact Hinv | exact Hv] | exact Hl'].
Qed.

Theorem fvariance_mean_finite l : (Z.of_nat (length l) <= 2 ^ 30)%Z -> Forall (fun x => fbounded x = true) l ->
  PrimFloat.is_finite (fst (fvariance_mean l)) = true /\ PrimFloat.is_finite (snd (fvariance_mean l)) = true /\
  (abs (snd (fvariance_mean l)) <=? 0x1p480)%float = true /\ (abs (fst (fvariance_mean l)) <=? 0x1p1022)%float = true.
Proof.
  intros Hlen Hb.
  assert (Hl : Forall (rew_ok 480) l) by (eapply Forall_impl; [|exact Hb]; intros x; apply fbounded_ok).
  assert (Ffin1022 : Ffin 0x1p1022%float) by (apply (Ffin_pow2 0x1p1022%float 1022 eq_refl)).
  assert (Ffin480 : Ffin 0x1p480%float) by (apply (Ffin_pow2 0x1p480%float 480 eq_refl)).
  unfold fvariance_mean. destruct l as [|x l'] eqn:El.
  - cbn [fst snd]. repeat split; vm_compute; reflexivity.
  - rewrite <- El in *. assert (Hn : (0 < length l)%nat) by (subst l; cbn; lia).
    pose proof (fmean_bound 480 l ltac:(lia) ltac:(lia) Hl ltac:(lia)) as Hmean.
    set (mean := fmean l) in *.
    pose proof (vm_fold mean Hmean l 0%Z (0%float, 0%float) ltac:(lia) ltac:(lia)) as Hf.
    cbn [Z.add] in Hf. specialize (Hf ltac:(unfold vm_inv; cbn [fst snd]; rewrite FR_0, Rabs_R0; repeat split; try exact Ffin_0; lra) Hl).
    destruct (fold_left _ l (0%float, 0%float)) as [first second]. destruct Hf as (H1 & B1 & H2 & B2). cbn [fst snd] in *.
    destruct (fnat_ok (length l) ltac:(lia)) as [Hn1 Hn2].
    assert (Hn1' : 1 <= INR (length l)) by (change 1 with (INR 1); apply le_INR; lia).
    assert (Hn30 : INR (length l) <= bp2 30).
    { rewrite INR_IZR_INZ. change (bp2 30) with (IZR (2 ^ 30)). apply IZR_le. exact Hlen. }
    rewrite <- INR_IZR_INZ in B1, B2.
    set (n := INR (length l)) in *. set (fn := f_of_nat (length l)) in *.
    assert (E511 : bp2 511 = bp2 30 * bp2 481) by (rewrite <- bpow_plus; reflexivity).
    assert (E1022 : bp2 1022 = bp2 511 * bp2 511) by (rewrite <- bpow_plus; reflexivity).
    assert (E992 : bp2 992 = bp2 30 * bp2 962) by (rewrite <- bpow_plus; reflexivity).
    assert (L992 : bp2 992 <= bp2 1022) by (apply bpow_le; lia).
    pose proof (bpow_gt_0 radix2 481) as P481. pose proof (bpow_gt_0 radix2 962) as P962. pose proof (bpow_gt_0 radix2 30) as P30.
    pose proof (bpow_gt_0 radix2 511) as P511. pose proof (bpow_gt_0 radix2 1022) as P1022.
    assert (HB : bp2 1022 < Big) by (apply bp2_lt_Big; lia).
    assert (F1022 : Fmt (bp2 1022)) by (apply fmt_bpow; lia).
    assert (S511 : Rabs (FR second) <= bp2 511) by (rewrite E511; eapply Rle_trans; [exact B2|]; nra).
    apply Rabs_le_inv in S511.
    destruct (mul_iv second second 0 (bp2 1022) H2 H2 fmt_0 F1022) as (Hq1 & _ & Hq3); [lra | lra | rewrite E1022; nra |].
    assert (Hi : 0 < / n <= 1) by (split; [apply Rinv_0_lt_compat; lra | rewrite <- Rinv_1; apply Rinv_le_contravar; lra]).
    destruct (div_iv (second * second)%float fn 0 (bp2 1022) Hq1) as (Hr1 & _ & Hr3);
      [rewrite Hn2; lra | apply fmt_0 | exact F1022 | lra | lra | rewrite Hn2; unfold Rdiv; nra |].
    assert (F992 : 0 <= FR first <= bp2 1022) by (split; [lra|]; apply Rle_trans with (bp2 992); [rewrite E992; nra | exact L992]).
    destruct (sub_iv first (second * second / fn)%float (- bp2 1022) (bp2 1022) H1 Hr1 (fmt_opp _ F1022) F1022) as (Hs1 & _ & Hs3);
      [lra | lra | lra |].
    destruct (div_iv (first - second * second / fn)%float fn (- bp2 1022) (bp2 1022) Hs1) as (Hv1 & _ & Hv3);
      [rewrite Hn2; lra | apply fmt_opp, F1022 | exact F1022 | lra | lra | rewrite Hn2; unfold Rdiv; nra |].
    destruct Hmean as [Hm1 Hm2].
    split; [apply is_finite_Ffin, Hv1|]. split; [apply is_finite_Ffin, Hm1|]. split.
    + apply leb_real; [apply Ffin_abs, Hm1 | exact Ffin480 |]. rewrite FR_abs, (FR_pow2 0x1p480%float 480 eq_refl). exact Hm2.
    + apply leb_real; [apply Ffin_abs, Hv1 | exact Ffin1022 |]. rewrite FR_abs, (FR_pow2 0x1p1022%float 1022 eq_refl). apply Rabs_le. lra.
Qed.

(* get_cv: a zero mean gives 0 (no division) *)
Lemma fget_cv_zero_mean l : (snd (fvariance_mean l) =? 0)%float = true -> fget_cv l = 0%float.
Proof. unfold fget_cv. destruct (fvariance_mean l) as [v mu]. cbn [snd]. intros ->. reflexivity. Qed.

(* ---------- relative_distance ---------- *)
Lemma frel_change_range a b : fitR a -> fitR b -> Ffin (frel_change a b) /\ 0 <= FR (frel_change a b) <= 2.
Proof.
  intros Oa Ob. unfold frel_change.
  destruct (fmaxr_fin (abs a) (abs b) (Ffin_abs a (proj1 Oa)) (Ffin_abs b (proj1 Ob))) as [Hm1 Hm2]. rewrite !FR_abs in Hm2.
  destruct (fmaxr (abs a) (abs b) =? 0)%float eqn:E.
  - split; [exact Ffin_0 | rewrite FR_0; lra].
  - apply (frelv_range_pos a b Oa Ob).
    pose proof (Rabs_pos (FR a)). pose proof (Rmax_l (Rabs (FR a)) (Rabs (FR b))).
    destruct (Rle_lt_or_eq_dec 0 (Rmax (Rabs (FR a)) (Rabs (FR b))) ltac:(lra)) as [Hp|Hp]; [exact Hp|]. exfalso.
    assert (E' : (fmaxr (abs a) (abs b) =? 0)%float = true) by (apply (eqb_real _ _ Hm1 Ffin_0); rewrite FR_0, Hm2; symmetry; exact Hp).
    congruence.
Qed.

Lemma frel_fold_bound : forall ps acc K, (0 <= K)%Z -> (K + Z.of_nat (length ps) < 2 ^ 51)%Z ->
  Ffin acc -> 0 <= FR acc <= IZR (4 * K) ->
  Forall (fun p => fitR (fst p) /\ fitR (snd p)) ps ->
  let r := fold_left (fun acc p => let change := frel_change (fst p) (snd p) in (acc + change * change)%float) ps acc in
  Ffin r /\ 0 <= FR r <= IZR (4 * (K + Z.of_nat (length ps))).
Proof.
  induction ps as [|p ps IH]; intros acc K HK Hlen Ha Ba Hps; cbn [fold_left length] in *.
  - rewrite Z.add_0_r. split; assumption.
  - inversion Hps as [|? ? [Op1 Op2] Hps']; subst.
    destruct (frel_change_range (fst p) (snd p) Op1 Op2) as [Hc Bc]. set (c := frel_change (fst p) (snd p)) in *.
    assert (F4 : Fmt 4) by (replace 4 with (IZR 4) by reflexivity; apply fmt_IZR; lia).
    assert (B4 : 4 < Big) by (pose proof (IZR_lt_Big 4 ltac:(lia)); lra).
    destruct (mul_iv c c 0 4 Hc Hc fmt_0 F4) as (Hq1 & _ & Hq3); [lra | lra | nra |].
    assert (Hz : (Z.abs (4 * (K + 1)) < 2 ^ 53)%Z) by lia.
    destruct (add_iv acc (c * c)%float 0 (IZR (4 * (K + 1))) Ha Hq1 fmt_0 (fmt_IZR _ Hz)) as (Hs1 & _ & Hs3).
    + lra.
    + apply (IZR_lt_Big _ Hz).
    + replace (IZR (4 * (K + 1))) with (IZR (4 * K) + 4) by (rewrite !mult_IZR, plus_IZR; ring). lra.
    + replace (K + Z.of_nat (S (length ps)))%Z with (K + 1 + Z.of_nat (length ps))%Z by lia.
      apply IH; try assumption; lia.
Qed.

Theorem frelative_distance_range a b : Forall fitR a -> Forall fitR b -> (Z.of_nat (length a) < 2 ^ 50)%Z ->
  PrimFloat.is_finite (frelative_distance a b) = true /\ (0 <=? frelative_distance a b)%float = true.
Proof.
  intros Ha Hb Hlen. unfold frelative_distance.
  assert (Hps : Forall (fun p => fitR (fst p) /\ fitR (snd p)) (combine a b)).
  { apply Forall_forall. intros [x y] Hin. rewrite Forall_forall in Ha, Hb. split; cbn [fst snd].
    - apply Ha. eapply in_combine_l, Hin.
    - apply Hb. eapply in_combine_r, Hin. }
  assert (Hl : (Z.of_nat (length (combine a b)) <= Z.of_nat (length a))%Z) by (rewrite combine_length; lia).
  destruct (frel_fold_bound (combine a b) 0%float 0%Z ltac:(lia) ltac:(lia) Ffin_0 ltac:(rewrite FR_0; simpl; lra) Hps) as [Hs Bs].
  destruct (sqrt_ok _ Hs (proj1 Bs)) as [Hq1 Hq2].
  split; [apply is_finite_Ffin, Hq1|]. apply leb_real; [exact Ffin_0 | exact Hq1 | rewrite FR_0; exact Hq2].
Qed.

Theorem float_relative_distance_vector_range a b :
  Forall (fun x => PrimFloat.is_finite x = true /\ Rabs (B2R (Prim2B x)) <= bpow radix2 1022) a ->
  Forall (fun x => PrimFloat.is_finite x = true /\ Rabs (B2R (Prim2B x)) <= bpow radix2 1022) b ->
  (Z.of_nat (length a) < 2 ^ 50)%Z ->
  PrimFloat.is_finite (frelative_distance a b) = true /\ (0 <=? frelative_distance a b)%float = true.
Proof.
  intros Ha Hb. apply frelative_distance_range.
  - eapply Forall_impl; [|exact Ha]. intros x [H1 H2]. split; [apply is_finite_Ffin, H1 | exact H2].
  - eapply Forall_impl; [|exact Hb]. intros x [H1 H2]. split; [apply is_finite_Ffin, H1 | exact H2].
Qed.
