(* Proofs about Model/LkhG.v (the k-opt search over an arbitrary, possibly non-exact cost arithmetic).
   1. the instance at exact integers IS Model/Lkh.v (by conversion): every theorem of LkhP / LkhCostP speaks about it;
   2. for EVERY cost arithmetic and every `reject`: a tour the search returns is a permutation of the current one, starts at the
      same node and was not rejected; one `improve` call never runs out of its fuel  (cost independent: ports of LkhP);
   3. an `improve` 2-cycle makes KOpt::optimize diverge (refutation of termination over floats: witness in the same file);
   4. the proposed repair (KOpt::solutions keeps every discovered tour, `goptimize_hist`): the loop of KOpt::optimize ends for
      EVERY cost arithmetic (nothing is assumed of +, -, <: no tour is visited twice and there are finitely many words over the
      input's nodes), every returned path is a permutation of the input that starts at the same node, no path is returned twice;
   5. the alternative repair `rej_cheaper` (recomputed closed-tour cost strictly below the current one): ends for every cost
      arithmetic whose `<` is a strict order, and the recomputed cost never goes up. *)
From Coq Require Import Floats Permutation.
From VRP Require Import Base.Tac Model.Lkh Model.LkhG Proofs.LkhP.
Local Open Scope nat_scope.

(* ------------------------------------------------------------------ 1. exact instance *)
Lemma z_instance_improve cm nb ho p : gimprove Z ZOps (Lkh.cost cm) nb ho rej_known p = improve cm nb ho p.
Proof. reflexivity. Qed.

Lemma z_instance_optimize cm nb ho f p : goptimize Z ZOps (Lkh.cost cm) nb ho rej_known f p = optimize cm nb ho f p.
Proof. reflexivity. Qed.

(* ------------------------------------------------------------------ 2. cost-independent facts *)
Section GSearch.
  Variable C : Type.
  Variable K : cops C.
  Variable cost : nat -> nat -> C.
  Variable nb : list (list nat).
  Variable ho : list (gentry C) -> option (list (gentry C)).
  Variable reject : list nat -> list nat -> bool.
  Hypothesis ho_sound : forall l l', ho l = Some l' -> forall e, In e l' -> In e l.
  Variable p : list nat.
  Let t := tour_new p.

  Definition gokres (r : res) : Prop :=
    forall q, r = Found q -> (Permutation q p /\ hd_error q = hd_error p) /\ reject q p = false.
  Definition gkeys_in (m : list (gentry C)) : Prop := forall e, In e m -> In (fst e) p.

  Lemma gupsert_keys node d g m : In node p -> gkeys_in m -> gkeys_in (gupsert C node d g m).
  Proof.
    intros Hn. induction m as [|[k [d0 g0]] r IH]; intros Hm e He; cbn [gupsert] in He.
    - destruct He as [<- | []]. exact Hn.
    - destruct (k =? node) eqn:E.
      + destruct He as [<- | He]; [apply (Hm (k, (d0, g0))); left; reflexivity | apply Hm; right; exact He].
      + destruct He as [<- | He]; [apply (Hm (k, (d0, g0))); left; reflexivity|].
        apply IH; [|exact He]. intros e' He'. apply Hm. right. exact He'.
  Qed.

  Lemma gclosest_step_keys t2i gain broken joined m node :
    gkeys_in m -> gkeys_in (gclosest_step C K cost t t2i gain broken joined m node).
  Proof.
    intros Hm. unfold gclosest_step.
    destruct (c_le0 K (c_sub K gain (cost t2i node)) || emem (mk_edge t2i node) broken || emem (mk_edge t2i node) (tedges t));
      [exact Hm|].
    assert (Hn : forall s, In s (around t node) -> In node p).
    { intros s Hs. apply around_In in Hs. exact (proj2 Hs). }
    revert Hn. generalize (around t node) as l. intros l. revert m Hm.
    induction l as [|s l IH]; intros m Hm Hn; cbn [fold_left]; [exact Hm|].
    apply IH; [|intros s' Hs'; apply (Hn s'); right; exact Hs'].
    destruct (negb (emem (mk_edge node s) broken) && negb (emem (mk_edge node s) joined)); [|exact Hm].
    apply gupsert_keys; [apply (Hn s); left; reflexivity | exact Hm].
  Qed.

  Lemma gfold_closest_keys t2i gain broken joined : forall ns m1,
    gkeys_in m1 -> gkeys_in (fold_left (gclosest_step C K cost t t2i gain broken joined) ns m1).
  Proof.
    induction ns as [|n ns IH]; intros m1 Hm1; cbn [fold_left]; [exact Hm1|].
    apply IH. apply gclosest_step_keys. exact Hm1.
  Qed.

  Lemma gsins_In x s e : In e (gsins C K x s) -> e = x \/ In e s.
  Proof.
    induction s as [|y r IH]; cbn [gsins]; [intros [<- | []]; auto|].
    destruct (c_tgt K (fst (snd y)) (fst (snd x))); cbn [In]; intros [H | H]; auto. destruct (IH H); auto.
  Qed.

  Lemma gsort_desc_In l e : In e (gsort_desc C K l) -> In e l.
  Proof.
    unfold gsort_desc. induction l as [|x l IH]; cbn [fold_right]; [auto|].
    intros H. apply gsins_In in H. destruct H as [-> | H]; [left; reflexivity | right; auto].
  Qed.

  Lemma gfind_closest_keys t2i gain broken joined l :
    gfind_closest C K cost nb ho t t2i gain broken joined = Some l -> gkeys_in l.
  Proof.
    unfold gfind_closest. set (m0 := fold_left _ _ _).
    destruct (ho m0) as [l'|] eqn:E; cbn [option_map]; [|discriminate].
    intros H. inversion H; subst l. intros e He. apply gsort_desc_In in He.
    assert (Kk : gkeys_in m0).
    { unfold m0. apply gfold_closest_keys. intros x []. }
    apply Kk. eapply ho_sound; eauto.
  Qed.

  Lemma gfirst_found_ok f l : (forall e, In e l -> gokres (f e)) -> gokres (gfirst_found C f l).
  Proof.
    induction l as [|x r IH]; intros H q Hq; cbn [gfirst_found] in Hq; [discriminate|].
    destruct (f x) eqn:E.
    - apply (H x (or_introl eq_refl)). rewrite E. exact Hq.
    - apply IH; [|exact Hq]. intros e He. apply H. right. exact He.
    - discriminate.
    - discriminate.
  Qed.

  Definition grec_ok (rec : nat -> nat -> C -> eset -> eset -> res) : Prop :=
    forall t1 last g b j, In t1 p -> good_eset p j -> gokres (rec t1 last g b j).

  Lemma gchoose_y_ok rec t1 t2i gain broken joined :
    grec_ok rec -> In t1 p -> In t2i p -> good_eset p joined ->
    gokres (gchoose_y C K cost nb ho t rec t1 t2i gain broken joined).
  Proof.
    intros Hrec H1 H2 Hj. unfold gchoose_y.
    destruct (gfind_closest C K cost nb ho t t2i gain broken joined) as [closest|] eqn:E; [|intros q Hq; discriminate].
    apply gfind_closest_keys in E.
    apply gfirst_found_ok. intros e He. apply firstn_In' in He.
    apply Hrec; [exact H1|]. apply good_eins; [exact H2 | apply E; exact He | exact Hj].
  Qed.

  Lemma gcx_loop_ok rec t1 last gain broken joined cands :
    grec_ok rec -> In t1 p -> good_eset p joined -> (forall c, In c cands -> In c p) ->
    gokres (gcx_loop C K cost nb ho reject t rec t1 last gain broken joined cands).
  Proof.
    intros Hrec H1 Hj. induction cands as [|t2i rest IH]; intros Hc q Hq; cbn [gcx_loop] in Hq; [discriminate|].
    destruct (emem (mk_edge last t2i) joined || emem (mk_edge last t2i) broken); [discriminate|].
    assert (H2 : In t2i p) by (apply Hc; left; reflexivity).
    assert (Hy : gokres (gchoose_y C K cost nb ho t rec t1 t2i (c_add K gain (cost last t2i)) (eins (mk_edge last t2i) broken) joined))
      by (apply gchoose_y_ok; assumption).
    destruct (c_gt0 K (c_sub K (c_add K gain (cost last t2i)) (cost t2i t1))); [|apply Hy; exact Hq].
    destruct (try_path t (eins (mk_edge last t2i) broken) (eins (mk_edge t2i t1) joined)) as [q'|] eqn:Et.
    - destruct (reject q' (tpath t)) eqn:El; [discriminate|]. inversion Hq; subst q'. split.
      + eapply try_path_permutation; [|exact Et]. apply good_eins; assumption.
      + exact El.
    - destruct (2 <? length (eins (mk_edge t2i t1) joined)); [|apply Hy; exact Hq].
      apply IH; [|exact Hq]. intros c Hc'. apply Hc. right. exact Hc'.
  Qed.

  Lemma gcx_cands_around last broken c : In c (gcx_cands C K cost t last broken) -> In c (around t last).
  Proof.
    unfold gcx_cands. destruct (length broken =? 4); [|auto].
    destruct (around t last) as [|a [|b [|? ?]]]; intros H; try destruct H.
    destruct (c_gt K (cost a last) (cost b last)); destruct H as [<- | []]; cbn; auto.
  Qed.

  Lemma gcx_cands_In last broken c : In c (gcx_cands C K cost t last broken) -> In c p.
  Proof. intros H. apply gcx_cands_around in H. apply around_In in H. exact (proj1 H). Qed.

  Lemma gchoose_x_ok : forall fuel, grec_ok (gchoose_x C K cost nb ho reject t fuel).
  Proof.
    induction fuel as [|f IH]; intros t1 last g b j H1 Hj q Hq; cbn [gchoose_x] in Hq; [discriminate|].
    revert q Hq. apply gcx_loop_ok; try assumption. intros c Hc. eapply gcx_cands_In; eauto.
  Qed.

  Lemma gt3_loop_ok fuel t1 t2 aset broken : In t1 p -> In t2 p ->
    forall l tries, gkeys_in l -> gokres (gt3_loop C K cost nb ho reject t fuel t1 t2 aset broken tries l).
  Proof.
    intros H1 H2. induction l as [|e r IH]; intros tries Hk q Hq; cbn [gt3_loop] in Hq; [discriminate|].
    assert (Hr : gkeys_in r) by (intros x Hx; apply Hk; right; exact Hx).
    destruct (nmem (fst e) aset); [eapply IH; eauto|].
    destruct (gchoose_x C K cost nb ho reject t fuel t1 (fst e) (snd (snd e)) broken [mk_edge t2 (fst e)]) eqn:Ex.
    - apply (gchoose_x_ok fuel t1 (fst e) (snd (snd e)) broken [mk_edge t2 (fst e)]); [exact H1 | | rewrite Ex; exact Hq].
      change [mk_edge t2 (fst e)] with (eins (mk_edge t2 (fst e)) []).
      apply good_eins; [exact H2 | apply Hk; left; reflexivity | apply good_nil].
    - destruct tries as [|[|k]]; try discriminate. eapply IH; eauto.
    - discriminate.
    - discriminate.
  Qed.

  Lemma gt2_loop_ok fuel t1 aset : In t1 p -> forall l, (forall x, In x l -> In x p) ->
    gokres (gt2_loop C K cost nb ho reject t fuel t1 aset l).
  Proof.
    intros H1. induction l as [|t2 r IH]; intros Hl q Hq; cbn [gt2_loop] in Hq; [discriminate|].
    destruct (gfind_closest C K cost nb ho t t2 (cost t1 t2) [mk_edge t1 t2] []) as [closest|] eqn:Ec; [|discriminate].
    apply gfind_closest_keys in Ec.
    destruct (gt3_loop C K cost nb ho reject t fuel t1 t2 aset [mk_edge t1 t2] 5 closest) eqn:E3.
    - apply (gt3_loop_ok fuel t1 t2 aset [mk_edge t1 t2] H1 (Hl t2 (or_introl eq_refl)) closest 5 Ec). rewrite E3. exact Hq.
    - apply IH; [|exact Hq]. intros x Hx. apply Hl. right. exact Hx.
    - discriminate.
    - discriminate.
  Qed.

  Lemma gt1_loop_ok fuel : forall l, (forall x, In x l -> In x p) -> gokres (gt1_loop C K cost nb ho reject t fuel l).
  Proof.
    induction l as [|t1 r IH]; intros Hl q Hq; cbn [gt1_loop] in Hq; [discriminate|].
    destruct (gt2_loop C K cost nb ho reject t fuel t1 (nset_of (around t t1)) (nset_of (around t t1))) eqn:E2.
    - apply (gt2_loop_ok fuel t1 (nset_of (around t t1)) (Hl t1 (or_introl eq_refl)) (nset_of (around t t1))); [|rewrite E2; exact Hq].
      intros x Hx. apply nset_of_In in Hx. apply around_In in Hx. exact (proj1 Hx).
    - apply IH; [|exact Hq]. intros x Hx. apply Hl. right. exact Hx.
    - discriminate.
    - discriminate.
  Qed.

  Theorem gimprove_ok q : gimprove C K cost nb ho reject p = Found q ->
    (Permutation q p /\ hd_error q = hd_error p) /\ reject q p = false.
  Proof. unfold gimprove. apply gt1_loop_ok. cbn [tour_new tpath]. auto. Qed.

  (* ---- one improve call never runs out of fuel *)
  Lemma gfirst_found_nofuel f l : (forall e, f e <> Fuel) -> gfirst_found C f l <> Fuel.
  Proof.
    intros H. induction l as [|x r IH]; cbn [gfirst_found]; [discriminate|].
    destruct (f x) eqn:E; try discriminate; [exact IH | exfalso; exact (H x E)].
  Qed.

  Definition grec_nofuel (rec : nat -> nat -> C -> eset -> eset -> res) (k : nat) : Prop :=
    forall t1 last g b j, sub_tour p b -> k <= length b -> rec t1 last g b j <> Fuel.

  Lemma gcx_loop_nofuel rec t1 last gain broken joined :
    sub_tour p broken -> grec_nofuel rec (S (length broken)) ->
    forall cands, (forall c, In c cands -> In c (around t last)) ->
    gcx_loop C K cost nb ho reject t rec t1 last gain broken joined cands <> Fuel.
  Proof.
    intros [ND Hsub] Hrec. induction cands as [|t2i rest IH]; intros Hc; cbn [gcx_loop]; [discriminate|].
    destruct (emem (mk_edge last t2i) joined || emem (mk_edge last t2i) broken) eqn:Em; [discriminate|].
    apply orb_false_iff in Em. destruct Em as [_ Em].
    assert (Hnew : ~ In (mk_edge last t2i) broken) by (rewrite <- emem_In; congruence).
    destruct (eins_new_NoDup _ _ Hnew ND) as [ND' Hlen].
    assert (Hsub' : sub_tour p (eins (mk_edge last t2i) broken)).
    { split; [exact ND'|]. intros e He. apply -> eins_In in He. destruct He as [-> | He]; [|auto].
      apply around_edge. apply Hc. left. reflexivity. }
    assert (Hy : forall g j, gchoose_y C K cost nb ho t rec t1 t2i g (eins (mk_edge last t2i) broken) j <> Fuel).
    { intros g j. unfold gchoose_y. destruct (gfind_closest C K cost nb ho t t2i g _ j); [|discriminate].
      apply gfirst_found_nofuel. intros e. apply Hrec; [exact Hsub' | lia]. }
    destruct (c_gt0 K (c_sub K (c_add K gain (cost last t2i)) (cost t2i t1))); [|apply Hy].
    destruct (try_path t _ _) as [q|].
    - destruct (reject q (tpath t)); discriminate.
    - destruct (2 <? length (eins (mk_edge t2i t1) joined)); [|apply Hy].
      apply IH. intros c Hc'. apply Hc. right. exact Hc'.
  Qed.

  Lemma gchoose_x_nofuel : forall fuel t1 last g b j,
    sub_tour p b -> length (tedges t) < fuel + length b -> gchoose_x C K cost nb ho reject t fuel t1 last g b j <> Fuel.
  Proof.
    induction fuel as [|f IH]; intros t1 last g b j Hb Hlt.
    - exfalso. destruct Hb as [ND Hsub]. pose proof (NoDup_incl_length ND Hsub). fold t in H. lia.
    - cbn [gchoose_x]. apply gcx_loop_nofuel; [exact Hb | | intros c Hc; eapply gcx_cands_around; eauto].
      intros t1' last' g' b' j' Hb' Hlen. apply IH; [exact Hb' | lia].
  Qed.

  Lemma gt3_loop_nofuel fuel t1 t2 aset broken :
    sub_tour p broken -> length (tedges t) < fuel + length broken ->
    forall l tries, gt3_loop C K cost nb ho reject t fuel t1 t2 aset broken tries l <> Fuel.
  Proof.
    intros Hb Hlt. induction l as [|e r IH]; intros tries; cbn [gt3_loop]; [discriminate|].
    destruct (nmem (fst e) aset); [apply IH|].
    destruct (gchoose_x C K cost nb ho reject t fuel t1 (fst e) (snd (snd e)) broken [mk_edge t2 (fst e)]) eqn:Ex; try discriminate.
    - destruct tries as [|[|k]]; try discriminate. apply IH.
    - exfalso. revert Ex. apply gchoose_x_nofuel; assumption.
  Qed.

  Lemma gt2_loop_nofuel fuel t1 aset : length (tedges t) < fuel + 1 ->
    forall l, (forall x, In x l -> In x (around t t1)) -> gt2_loop C K cost nb ho reject t fuel t1 aset l <> Fuel.
  Proof.
    intros Hlt. induction l as [|t2 r IH]; intros Hl; cbn [gt2_loop]; [discriminate|].
    destruct (gfind_closest C K cost nb ho t t2 (cost t1 t2) [mk_edge t1 t2] []) as [closest|]; [|discriminate].
    destruct (gt3_loop C K cost nb ho reject t fuel t1 t2 aset [mk_edge t1 t2] 5 closest) eqn:E3; try discriminate.
    - apply IH. intros x Hx. apply Hl. right. exact Hx.
    - exfalso. revert E3. apply gt3_loop_nofuel; [|cbn [length]; lia].
      split; [constructor; [intros [] | constructor]|].
      intros e [<- | []]. apply around_edge. apply Hl. left. reflexivity.
  Qed.

  Lemma gt1_loop_nofuel fuel : length (tedges t) < fuel + 1 -> forall l, gt1_loop C K cost nb ho reject t fuel l <> Fuel.
  Proof.
    intros Hlt. induction l as [|t1 r IH]; cbn [gt1_loop]; [discriminate|].
    destruct (gt2_loop C K cost nb ho reject t fuel t1 (nset_of (around t t1)) (nset_of (around t t1))) eqn:E2; try discriminate.
    - exact IH.
    - exfalso. revert E2. apply gt2_loop_nofuel; [exact Hlt|].
      intros x Hx. apply nset_of_In in Hx. exact Hx.
  Qed.

  Theorem gimprove_nofuel : gimprove C K cost nb ho reject p <> Fuel.
  Proof.
    unfold gimprove. apply gt1_loop_nofuel. pose proof (tour_edges_count p). fold t in H. lia.
  Qed.
End GSearch.

Theorem goptimize_ok C K cost nb ho reject :
  (forall l l', ho l = Some l' -> forall e, In e l' -> In e l) ->
  forall ofuel p q, goptimize C K cost nb ho reject ofuel p = Found q ->
  Permutation q p /\ hd_error q = hd_error p.
Proof.
  intros Hho. induction ofuel as [|f IH]; intros p q H; cbn [goptimize] in H; [discriminate|].
  destruct (gimprove C K cost nb ho reject p) as [p'| | |] eqn:Ei; try discriminate.
  - apply (gimprove_ok C K cost nb ho reject Hho) in Ei. destruct Ei as [[P1 Hd1] _].
    apply IH in H. destruct H as [P2 Hd2]. split; [eapply Permutation_trans; eauto | congruence].
  - inversion H; subst. split; [apply Permutation_refl | reflexivity].
Qed.

(* ------------------------------------------------------------------ 3. a 2-cycle of `improve` makes the outer loop diverge *)
Section Diverge.
  Variable C : Type.
  Variable K : cops C.
  Variable cost : nat -> nat -> C.
  Variable nb : list (list nat).
  Variable ho : list (gentry C) -> option (list (gentry C)).
  Variable reject : list nat -> list nat -> bool.
  Let imp := gimprove C K cost nb ho reject.
  Let opt := goptimize C K cost nb ho reject.

  Lemma two_cycle_diverges a b : imp a = Found b -> imp b = Found a -> forall f, opt f a = Fuel /\ opt f b = Fuel.
  Proof.
    intros Hab Hba. induction f as [|f [IHa IHb]]; [split; reflexivity|].
    unfold opt. cbn [goptimize]. fold imp. rewrite Hab, Hba. fold opt. split; assumption.
  Qed.

  Lemma giter_optimize k : forall p a, giter C K cost nb ho reject k p = Some a ->
    (forall f, opt f a = Fuel) -> forall f, opt f p = Fuel.
  Proof.
    induction k as [|k IH]; intros p a H Ha f; cbn [giter] in H.
    - inversion H; subst. apply Ha.
    - fold imp in H. destruct (imp p) as [p'| | |] eqn:E; try discriminate.
      destruct f as [|f]; [reflexivity|]. unfold opt. cbn [goptimize]. fold imp. rewrite E. fold opt. eapply IH; eauto.
  Qed.

  (* ---- the cycle detector of the correspondence (goptimize_seen, code 4) is sound: it reports a tour that comes back only if
     KOpt::optimize is out of fuel for every fuel *)
  Let iter := giter C K cost nb ho reject.

  Lemma giter_add a : forall b x, iter (a + b) x = match iter a x with Some y => iter b y | None => None end.
  Proof.
    induction a as [|a IH]; intros b x; [reflexivity|].
    unfold iter. cbn [plus giter]. fold imp. destruct (imp x) as [x'| | |]; try reflexivity. apply IH.
  Qed.

  Lemma giter_run b : forall y z, iter b y = Some z -> forall f, opt (b + f) y = opt f z.
  Proof.
    induction b as [|b IH]; intros y z H f; unfold iter in H; cbn [giter] in H.
    - inversion H. reflexivity.
    - fold imp in H. destruct (imp y) as [y'| | |] eqn:E; try discriminate.
      unfold opt. cbn [plus goptimize]. fold imp. rewrite E. apply IH. exact H.
  Qed.

  Lemma giter_short b : forall y z, iter b y = Some z -> forall f, f <= b -> opt f y = Fuel.
  Proof.
    induction b as [|b IH]; intros y z H f Hf.
    - assert (f = 0) by lia. subst. reflexivity.
    - unfold iter in H. cbn [giter] in H. fold imp in H. destruct (imp y) as [y'| | |] eqn:E; try discriminate.
      destruct f as [|f]; [reflexivity|]. unfold opt. cbn [goptimize]. fold imp. rewrite E. apply (IH y' z H). lia.
  Qed.

  Lemma period_diverges b y : 0 < b -> iter b y = Some y -> forall f, opt f y = Fuel.
  Proof.
    intros Hb H f. induction f as [f IH] using lt_wf_ind.
    destruct (le_lt_dec f b) as [Hle | Hgt]; [apply (giter_short b y y H f Hle)|].
    replace f with (b + (f - b)) by lia. rewrite (giter_run b y y H). apply IH. lia.
  Qed.

  Lemma seen_cycle : forall ofuel seen p q k,
    (forall s, In s (p :: seen) -> exists a, iter a s = Some p) ->
    goptimize_seen C K cost nb ho reject ofuel seen p = (4, q, k) ->
    exists y a b, iter a p = Some y /\ 0 < b /\ iter b y = Some y.
  Proof.
    induction ofuel as [|f IH]; intros seen p q k Hs H; cbn [goptimize_seen] in H; [inversion H|].
    fold imp in H. destruct (imp p) as [p'| | |] eqn:E; try (inversion H; fail).
    assert (H1 : iter 1 p = Some p') by (unfold iter; cbn [giter]; fold imp; rewrite E; reflexivity).
    destruct (existsb (list_eqb p') (p :: seen)) eqn:Ex.
    - apply existsb_exists in Ex. destruct Ex as [s [Hin He]].
      assert (s = p').
      { clear -He. revert s He. induction p' as [|x l IHl]; intros [|y s] He; cbn [list_eqb] in He; try discriminate; [reflexivity|].
        apply andb_true_iff in He. destruct He as [A B]. apply Nat.eqb_eq in A. subst. f_equal. apply IHl. exact B. }
      subst s. destruct (Hs p' Hin) as [a Ha].
      exists p', 1, (a + 1). split; [exact H1|]. split; [lia|]. rewrite giter_add, Ha. exact H1.
    - destruct (IH (p :: seen) p' q k) as [y [a [b [Ha [Hb Hy]]]]]; [|exact H|].
      + intros s [<- | Hin]; [exists 0; reflexivity|]. destruct (Hs s Hin) as [a Ha]. exists (a + 1). rewrite giter_add, Ha. exact H1.
      + exists y, (1 + a), b. split; [rewrite giter_add, H1; exact Ha|]. split; assumption.
  Qed.

  Theorem seen_cycle_diverges ofuel p q k :
    goptimize_seen C K cost nb ho reject ofuel [] p = (4, q, k) -> forall f, opt f p = Fuel.
  Proof.
    intros H. destruct (seen_cycle ofuel [] p q k) as [y [a [b [Ha [Hb Hy]]]]]; [|exact H|].
    - intros s [<- | []]. exists 0. reflexivity.
    - apply (giter_optimize a p y Ha). apply period_diverges with (b := b); assumption.
  Qed.
End Diverge.


(* ------------------------------------------------------------------ 4. the proposed repair: every discovered tour is remembered *)
Fixpoint words (a : list nat) (n : nat) : list (list nat) :=
  match n with
  | O => [[]]
  | S k => flat_map (fun w => map (fun x => x :: w) a) (words a k)
  end.

Lemma words_complete a : forall w, (forall x, In x w -> In x a) -> In w (words a (length w)).
Proof.
  induction w as [|x w IH]; intros H; cbn [words length]; [left; reflexivity|].
  apply in_flat_map. exists w. split; [apply IH; intros y Hy; apply H; right; exact Hy|].
  apply (in_map (fun y => y :: w)). apply H. left. reflexivity.
Qed.

Lemma filter_length_lt {A} (f g : A -> bool) (l : list A) x :
  (forall y, f y = true -> g y = true) -> In x l -> f x = false -> g x = true ->
  length (filter f l) < length (filter g l).
Proof.
  intros Hfg. induction l as [|y l IH]; intros Hin Hf Hg; [destruct Hin|].
  assert (Hle : length (filter f l) <= length (filter g l)).
  { clear -Hfg. induction l as [|z l IHl]; cbn [filter]; [lia|].
    destruct (f z) eqn:Ef; [rewrite (Hfg z Ef); cbn [length]; lia|]. destruct (g z); cbn [length]; lia. }
  cbn [filter]. destruct Hin as [-> | Hin].
  - rewrite Hf, Hg. cbn [length]. lia.
  - specialize (IH Hin Hf Hg). destruct (f y) eqn:Ef; [rewrite (Hfg y Ef); cbn [length]; lia|].
    destruct (g y); cbn [length]; lia.
Qed.

Lemma list_eqb_eq : forall a b, list_eqb a b = true <-> a = b.
Proof.
  induction a as [|x a IH]; intros [|y b]; cbn [list_eqb]; split; intros H; try reflexivity; try discriminate.
  - apply andb_true_iff in H. destruct H as [H1 H2]. apply Nat.eqb_eq in H1. apply IH in H2. subst. reflexivity.
  - inversion H; subst. rewrite Nat.eqb_refl. apply IH. reflexivity.
Qed.

Lemma rej_seen_In seen q c : rej_seen seen q c = true <-> In q seen.
Proof.
  unfold rej_seen. rewrite existsb_exists. split.
  - intros [s [Hs He]]. apply list_eqb_eq in He. subst. exact Hs.
  - intros H. exists q. split; [exact H | apply list_eqb_eq; reflexivity].
Qed.

Section Memory.
  Variable C : Type.
  Variable K : cops C.
  Variable cost : nat -> nat -> C.
  Variable nb : list (list nat).
  Variable ho : list (gentry C) -> option (list (gentry C)).
  Hypothesis ho_sound : forall l l', ho l = Some l' -> forall e, In e l' -> In e l.

  Let imp (seen : list (list nat)) := gimprove C K cost nb ho (rej_seen seen).
  Let opt := goptimize_hist C K cost nb ho.

  Lemma memory_step seen p q : imp seen p = Found q ->
    Permutation q p /\ hd_error q = hd_error p /\ ~ In q seen.
  Proof.
    intros H. apply (gimprove_ok C K cost nb ho (rej_seen seen) ho_sound) in H.
    destruct H as [[P Hd] R]. split; [exact P|]. split; [exact Hd|].
    intros Hin. apply (rej_seen_In seen q p) in Hin. congruence.
  Qed.

  Variable p0 : list nat.
  Let U := words p0 (length p0).
  (* the measure: how many words over the input's nodes (of the input's length) have not been visited *)
  Definition unseen (seen : list (list nat)) : nat := length (filter (fun w => negb (rej_seen seen w [])) U).

  Lemma perm_in_words p : Permutation p p0 -> In p U.
  Proof.
    intros P. unfold U. rewrite <- (Permutation_length P). apply words_complete.
    intros x Hx. eapply Permutation_in; eauto.
  Qed.

  Lemma unseen_decreases seen q : Permutation q p0 -> ~ In q seen -> unseen (q :: seen) < unseen seen.
  Proof.
    intros P Hn. unfold unseen. apply (filter_length_lt _ _ U q).
    - intros w Hw. apply negb_true_iff in Hw. apply negb_true_iff.
      destruct (rej_seen seen w []) eqn:E; [|reflexivity].
      apply rej_seen_In in E. assert (In w (q :: seen)) by (right; exact E).
      apply (rej_seen_In (q :: seen) w []) in H. congruence.
    - apply perm_in_words. exact P.
    - apply negb_false_iff. apply rej_seen_In. left. reflexivity.
    - apply negb_true_iff. destruct (rej_seen seen q []) eqn:E; [|reflexivity]. apply rej_seen_In in E. contradiction.
  Qed.

  Lemma memory_terminates_aux : forall k cur older, Permutation cur p0 -> unseen (cur :: older) < k ->
    opt k cur older <> HFuel.
  Proof.
    induction k as [|k IH]; intros cur older P Hb; [lia|].
    unfold opt. cbn [goptimize_hist]. fold (imp (cur :: older)).
    destruct (imp (cur :: older) cur) as [p'| | |] eqn:E; try discriminate.
    - destruct (memory_step _ _ _ E) as [P' [_ Hn]].
      assert (P0 : Permutation p' p0) by (eapply Permutation_trans; eauto).
      pose proof (unseen_decreases (cur :: older) p' P0 Hn) as D.
      fold opt. apply IH; [exact P0 | lia].
    - exfalso. revert E. apply gimprove_nofuel; exact ho_sound.
  Qed.

  Theorem memory_terminates : exists ofuel, opt ofuel p0 [] <> HFuel.
  Proof.
    exists (S (unseen [p0])). apply memory_terminates_aux; [apply Permutation_refl | lia].
  Qed.

  (* every returned path: permutation of the input, same start; the input is the first one; no path twice *)
  Lemma memory_contract_aux : forall ofuel cur older ps,
    NoDup (cur :: older) -> (forall q, In q (cur :: older) -> Permutation q p0 /\ hd_error q = hd_error p0) ->
    opt ofuel cur older = HFound ps ->
    NoDup ps /\ (forall q, In q ps -> Permutation q p0 /\ hd_error q = hd_error p0)
    /\ exists l, ps = rev (cur :: older) ++ l.
  Proof.
    induction ofuel as [|f IH]; intros cur older ps ND Hall H; [discriminate|].
    unfold opt in H. cbn [goptimize_hist] in H. fold (imp (cur :: older)) in H.
    destruct (imp (cur :: older) cur) as [p'| | |] eqn:E; try discriminate.
    - fold opt in H. destruct (memory_step _ _ _ E) as [P' [Hd' Hn]].
      destruct (Hall cur (or_introl eq_refl)) as [Pc Hc].
      destruct (IH p' (cur :: older) ps) as [A [B [l Hl]]].
      + constructor; assumption.
      + intros q [<- | Hq]; [|apply Hall; exact Hq]. split; [eapply Permutation_trans; eauto | congruence].
      + exact H.
      + split; [exact A|]. split; [exact B|]. exists (p' :: l). rewrite Hl.
        change (rev (p' :: cur :: older)) with (rev (cur :: older) ++ [p']). rewrite <- app_assoc. reflexivity.
    - assert (Hps : ps = rev (cur :: older)) by congruence. subst ps. clear H. split; [apply NoDup_rev; exact ND|]. split.
      + intros q Hq. apply in_rev in Hq. apply Hall. exact Hq.
      + exists []. rewrite app_nil_r. reflexivity.
  Qed.

  Theorem memory_contract ofuel ps : opt ofuel p0 [] = HFound ps ->
    NoDup ps /\ (forall q, In q ps -> Permutation q p0 /\ hd_error q = hd_error p0) /\ hd_error ps = Some p0.
  Proof.
    intros H. destruct (memory_contract_aux ofuel p0 [] ps) as [A [B [l Hl]]].
    - constructor; [intros [] | constructor].
    - intros q [<- | []]. split; [apply Permutation_refl | reflexivity].
    - exact H.
    - split; [exact A|]. split; [exact B|]. rewrite Hl. reflexivity.
  Qed.
End Memory.

(* ------------------------------------------------------------------ 5. the alternative repair: strictly cheaper recomputed cost *)
Section Repaired.
  Variable C : Type.
  Variable K : cops C.
  Variable cost : nat -> nat -> C.
  Variable nb : list (list nat).
  Variable ho : list (gentry C) -> option (list (gentry C)).
  Hypothesis ho_sound : forall l l', ho l = Some l' -> forall e, In e l' -> In e l.
  (* `<` of the cost type is a strict order (true of Z.ltb and of the IEEE comparison; nothing is assumed of + and -) *)
  Hypothesis lt_irrefl : forall x, c_lt K x x = false.
  Hypothesis lt_trans : forall x y z, c_lt K x y = true -> c_lt K y z = true -> c_lt K x z = true.

  Let tc := tour_cost C K cost.
  Let imp := gimprove C K cost nb ho (rej_cheaper K cost).
  Let opt := goptimize C K cost nb ho (rej_cheaper K cost).

  Lemma repaired_step p q : imp p = Found q ->
    Permutation q p /\ hd_error q = hd_error p /\ c_lt K (tc q) (tc p) = true.
  Proof.
    intros H. apply (gimprove_ok C K cost nb ho (rej_cheaper K cost) ho_sound) in H.
    destruct H as [[P Hd] R]. split; [exact P|]. split; [exact Hd|].
    unfold rej_cheaper in R. apply orb_false_iff in R. destruct R as [_ R]. apply negb_false_iff in R. exact R.
  Qed.

  Variable p0 : list nat.
  Let U := words p0 (length p0).
  (* the measure: how many words over the input's nodes have a recomputed cost strictly below the current tour's *)
  Definition below (p : list nat) : nat := length (filter (fun w => c_lt K (tc w) (tc p)) U).

  Lemma below_decreases p q : Permutation q p0 -> c_lt K (tc q) (tc p) = true -> below q < below p.
  Proof.
    intros P L. unfold below. apply (filter_length_lt _ _ U q).
    - intros w Hw. eapply lt_trans; eauto.
    - unfold U. rewrite <- (Permutation_length P). apply words_complete. intros x Hx. eapply Permutation_in; eauto.
    - apply lt_irrefl.
    - exact L.
  Qed.

  Lemma repaired_terminates_aux : forall k p, Permutation p p0 -> below p < k ->
    exists q, opt (S k) p = Found q \/ opt (S k) p = Abort.
  Proof.
    induction k as [|k IH]; intros p P Hb; [lia|].
    unfold opt. cbn [goptimize]. fold imp.
    destruct (imp p) as [p'| | |] eqn:E.
    - destruct (repaired_step p p' E) as [P' [_ L]].
      assert (P0 : Permutation p' p0) by (eapply Permutation_trans; eauto).
      pose proof (below_decreases p p' P0 L) as D.
      destruct k as [|k].
      + lia.
      + fold opt. apply IH; [exact P0 | lia].
    - exists p. left. reflexivity.
    - exfalso. revert E. apply gimprove_nofuel; exact ho_sound.
    - exists []. right. reflexivity.
  Qed.

  Theorem repaired_terminates : exists ofuel, opt ofuel p0 <> Fuel.
  Proof.
    destruct (repaired_terminates_aux (S (below p0)) p0 (Permutation_refl _) (Nat.lt_succ_diag_r _)) as [q [H | H]];
      exists (S (S (below p0))); rewrite H; discriminate.
  Qed.

  (* every result: permutation, same start, and the recomputed closed-tour cost did not go up (it is the input or strictly below) *)
  Theorem repaired_contract : forall ofuel p q, opt ofuel p = Found q ->
    Permutation q p /\ hd_error q = hd_error p /\ (q = p \/ c_lt K (tc q) (tc p) = true).
  Proof.
    induction ofuel as [|f IH]; intros p q H; [discriminate|].
    unfold opt in H. cbn [goptimize] in H. fold imp in H.
    destruct (imp p) as [p'| | |] eqn:E; try discriminate.
    - fold opt in H. destruct (repaired_step p p' E) as [P1 [H1 L1]].
      destruct (IH p' q H) as [P2 [H2 L2]].
      split; [eapply Permutation_trans; eauto|]. split; [congruence|].
      right. destruct L2 as [-> | L2]; [exact L1 | eapply lt_trans; eauto].
    - inversion H; subst. split; [apply Permutation_refl|]. split; [reflexivity | left; reflexivity].
  Qed.
End Repaired.

(* the hypotheses are satisfiable: exact integers; the strict oracles return entries of the map *)
Lemma gstrict_ho_sound C K l l' : gstrict_ho C K l = Some l' -> forall e, In e l' -> In e l.
Proof. unfold gstrict_ho. destruct (ghas_tie C K l); [discriminate|]. intros H; inversion H; auto. Qed.

Lemma zops_lt_irrefl x : c_lt ZOps x x = false.
Proof. cbn. apply Z.ltb_irrefl. Qed.

Lemma zops_lt_trans x y z : c_lt ZOps x y = true -> c_lt ZOps y z = true -> c_lt ZOps x z = true.
Proof. cbn. lia. Qed.

(* ------------------------------------------------------------------ 6. the witness: seven distinct grid points, Euclidean f64 costs *)
Definition wit_pts : list (Z * Z) := [(2, 0); (0, 0); (0, 2); (3, 3); (1, 0); (2, 3); (3, 2)]%Z.
(* complete neighbour lists sorted by (distance, index), as lkh_search.rs builds them *)
Definition wit_nb : list (list nat) :=
  [[4; 1; 6; 2; 5; 3]; [4; 0; 2; 5; 6; 3]; [1; 4; 5; 0; 6; 3]; [5; 6; 0; 2; 4; 1]; [0; 1; 2; 6; 5; 3]; [3; 6; 2; 0; 4; 1];
   [3; 5; 0; 4; 2; 1]].
Definition wit_p : list nat := [0; 3; 5; 2; 4; 1; 6].
Definition wit_a : list nat := [0; 1; 4; 2; 5; 6; 3].
Definition wit_b : list nat := [0; 1; 4; 2; 3; 5; 6].
Definition wit_c : list nat := [0; 1; 4; 2; 5; 3; 6].
Definition wimp := gimprove float FOps (fcost (euclid wit_pts)) wit_nb (gstrict_ho float FOps) rej_known.

Lemma wit_pa : wimp wit_p = Found wit_a. Proof. vm_compute. reflexivity. Qed.
Lemma wit_ab : wimp wit_a = Found wit_b. Proof. vm_compute. reflexivity. Qed.
Lemma wit_ba : wimp wit_b = Found wit_a. Proof. vm_compute. reflexivity. Qed.

Lemma wit_diverges : forall f,
  goptimize float FOps (fcost (euclid wit_pts)) wit_nb (gstrict_ho float FOps) rej_known f wit_p = Fuel.
Proof.
  apply (giter_optimize float FOps _ _ _ _ 1 wit_p wit_a).
  - cbn [giter]. fold wimp. rewrite wit_pa. reflexivity.
  - intros f. apply (two_cycle_diverges float FOps _ _ _ _ wit_a wit_b wit_ab wit_ba f).
Qed.

Definition fsymb (cm : list (list float)) : bool :=
  forallb (fun i => forallb (fun j => PrimFloat.eqb (fcost cm i j) (fcost cm j i)) (seq 0 (length cm))) (seq 0 (length cm)).

Theorem lkh_float_refuted :
  exists (pts : list (Z * Z)) (nb : list (list nat)) (p a b : list nat),
    NoDup pts /\ Permutation p (seq 0 (length pts)) /\ fsymb (euclid pts) = true
    /\ a <> b /\ Permutation (sq_lengths pts a) (sq_lengths pts b)
    /\ gimprove float FOps (fcost (euclid pts)) nb (gstrict_ho float FOps) rej_known p = Found a
    /\ gimprove float FOps (fcost (euclid pts)) nb (gstrict_ho float FOps) rej_known a = Found b
    /\ gimprove float FOps (fcost (euclid pts)) nb (gstrict_ho float FOps) rej_known b = Found a
    /\ forall ofuel, goptimize float FOps (fcost (euclid pts)) nb (gstrict_ho float FOps) rej_known ofuel p = Fuel.
Proof.
  exists wit_pts, wit_nb, wit_p, wit_a, wit_b.
  split. { repeat constructor; cbn; intuition congruence. }
  split. { apply (proj1 (permb_iff _ _)). vm_compute. reflexivity. }
  split. { vm_compute. reflexivity. }
  split. { discriminate. }
  split. { apply (proj1 (permb_iff _ _)). vm_compute. reflexivity. }
  split. { exact wit_pa. } split. { exact wit_ab. } split. { exact wit_ba. }
  exact wit_diverges.
Qed.

Lemma wit_repaired :
  goptimize_hist float FOps (fcost (euclid wit_pts)) wit_nb (gstrict_ho float FOps) 400 wit_p [] = HFound [wit_p; wit_a; wit_b; wit_c].
Proof. vm_compute. reflexivity. Qed.
