(* C06, the transport constraint over generic cost providers (Model/TimeDep.v part G): soundness of
   TransportConstraint::evaluate_activity against the forward pass of the SAME providers (what update_schedules computes when the
   insertion is carried out), under explicit hypotheses that relate the backward (TravelTime::Arrival / estimate_arrival) and the
   forward (TravelTime::Departure / estimate_departure) view of the providers on the instants a schedule can reach.
   Instances: Proofs/TimeDepTDP.v (time-dependent routing), Proofs/TimeDepRTP.v (reserved times). *)
From VRP Require Import Base.Tac Model.Core Spec.Feasible Model.Eval Model.Limits Model.TimeDep Proofs.CoreTimeP Proofs.CoreCapP Proofs.CoreEvalP.

Lemma addI_fin : forall x y, x < INF -> addI x y = x + y.
Proof. intros x y H. unfold addI. destruct (INF <=? x) eqn:E; [apply Z.leb_le in E; lia|reflexivity]. Qed.
Lemma addI_inf : forall x y, INF <= x -> addI x y = INF.
Proof. intros x y H. unfold addI. destruct (INF <=? x) eqn:E; [reflexivity|apply Z.leb_gt in E; lia]. Qed.
Lemma subI_fin : forall x y, x < INF -> subI x y = x - y.
Proof. intros x y H. unfold subI. destruct (INF <=? x) eqn:E; [apply Z.leb_le in E; lia|reflexivity]. Qed.
Lemma subI_inf : forall x y, INF <= x -> subI x y = INF.
Proof. intros x y H. unfold subI. destruct (INF <=? x) eqn:E; [reflexivity|apply Z.leb_gt in E; lia]. Qed.
Lemma addI_lt_inf : forall x y, addI x y < INF -> x < INF.
Proof. intros x y H. unfold addI in H. destruct (INF <=? x) eqn:E; [lia|apply Z.leb_gt in E; exact E]. Qed.

Section GenericP.
Variable durD durA : Z -> Z -> Z -> Z.
Variable edep earr : act -> Z -> Z.

Definition fwd (from to x : Z) : Z := addI x (durD from to x).

(* the forward pass as a feasibility test: every arrival within its window; everything that feeds a later activity is a proper
   (bounded) time.  The departure of the last activity feeds nothing. *)
Fixpoint sim_g (loc dep : Z) (acts : list act) : bool :=
  match acts with
  | [] => true
  | a :: r => let arr := fwd loc (a_loc a) dep in
              (arr <=? a_twe a) &&
              match r with
              | [] => true
              | _ :: _ => (arr <? INF) && (edep a arr <? INF) && sim_g (a_loc a) (edep a arr) r
              end
  end.

Definition wf_act (a : act) : Prop := a_tws a <= a_twe a.

(* every cached latest arrival behind the insertion point is a bounded time (a closed tour with a shift end) *)
Fixpoint fin_latest (acts : list act) : Prop :=
  match acts with
  | [] => True
  | a :: r => latest_g durA earr (a :: r) < INF /\ fin_latest r
  end.

(* ---- what the proofs need from the providers ---- *)
Variable R : Z -> Prop.                 (* the instants a schedule can reach *)
Variable WF : act -> Prop.              (* well-formed activities (window start <= window end, ...) *)
Hypothesis R_fin : forall x, R x -> x < INF.
Hypothesis H_fifo : forall f t x y, R x -> R y -> x <= y -> fwd f t x <= fwd f t y.
Hypothesis H_reach_travel : forall f t x, R x -> fwd f t x < INF -> R (fwd f t x).
Hypothesis H_durA_nonneg : forall f t L, 0 <= durA f t L.
Hypothesis H_back_travel : forall f t x L, R x -> L < INF -> x <= L - durA f t L -> fwd f t x <= L.
Hypothesis H_mono_stop : forall a x y, WF a -> R x -> R y -> x <= y -> y <= a_twe a -> edep a y < INF -> edep a x <= edep a y.
Hypothesis H_reach_stop : forall a x, WF a -> R x -> x <= a_twe a -> edep a x < INF -> R (edep a x).
Hypothesis H_back_stop : forall a x y0 Ld, WF a -> R x -> R y0 -> y0 <= a_twe a -> edep a y0 < INF -> Ld < INF ->
  x <= earr a Ld -> edep a x <= Ld \/ (edep a x < INF /\ forall f t, fwd f t (edep a x) <= fwd f t (edep a y0)).
Hypothesis H_earr_window : forall a Ld, WF a -> earr a Ld <= a_twe a.
Hypothesis H_edep_inf : forall a x, WF a -> edep a x < INF -> x < INF.

Lemma sim_g_mono : forall acts loc x y, Forall WF acts -> R x -> R y -> x <= y -> sim_g loc y acts = true -> sim_g loc x acts = true.
Proof.
  induction acts as [|a r IH]; intros loc x y Hwf Rx Ry Hxy Hy; [reflexivity|].
  inversion Hwf as [|? ? Hwa Hwr]; subst.
  cbn [sim_g] in *. apply andb_true_iff in Hy as [Hy1 Hy2]. apply Z.leb_le in Hy1.
  pose proof (H_fifo loc (a_loc a) x y Rx Ry Hxy) as Hf.
  apply andb_true_iff; split; [apply Z.leb_le; lia|].
  destruct r as [|b r']; [reflexivity|].
  apply andb_true_iff in Hy2 as [Hy2 Hy4]. apply andb_true_iff in Hy2 as [Hy2 Hy3].
  apply Z.ltb_lt in Hy2. apply Z.ltb_lt in Hy3.
  pose proof (H_reach_travel loc (a_loc a) y Ry Hy2) as Ray.
  pose proof (H_reach_travel loc (a_loc a) x Rx ltac:(lia)) as Rax.
  pose proof (H_mono_stop a _ _ Hwa Rax Ray Hf Hy1 Hy3) as Hm.
  apply andb_true_iff; split; [apply andb_true_iff; split; apply Z.ltb_lt; lia|].
  apply (IH (a_loc a) _ (edep a (fwd loc (a_loc a) y))); try assumption.
  - apply H_reach_stop; [exact Hwa|exact Rax|lia|lia].
  - apply H_reach_stop; assumption.
Qed.

(* the same when the two departures are only known to be ordered through every next leg *)
Lemma sim_g_mono_pre : forall acts loc x y, Forall WF acts -> R x -> R y -> (forall f t, fwd f t x <= fwd f t y) ->
  sim_g loc y acts = true -> sim_g loc x acts = true.
Proof.
  intros [|a r] loc x y Hwf Rx Ry Hxy Hy; [reflexivity|].
  inversion Hwf as [|? ? Hwa Hwr]; subst.
  cbn [sim_g] in *. apply andb_true_iff in Hy as [Hy1 Hy2]. apply Z.leb_le in Hy1.
  pose proof (Hxy loc (a_loc a)) as Hf.
  apply andb_true_iff; split; [apply Z.leb_le; lia|].
  destruct r as [|b r']; [reflexivity|].
  apply andb_true_iff in Hy2 as [Hy2 Hy4]. apply andb_true_iff in Hy2 as [Hy2 Hy3].
  apply Z.ltb_lt in Hy2. apply Z.ltb_lt in Hy3.
  pose proof (H_reach_travel loc (a_loc a) y Ry Hy2) as Ray.
  pose proof (H_reach_travel loc (a_loc a) x Rx ltac:(lia)) as Rax.
  pose proof (H_mono_stop a _ _ Hwa Rax Ray Hf Hy1 Hy3) as Hm.
  apply andb_true_iff; split; [apply andb_true_iff; split; apply Z.ltb_lt; lia|].
  apply (sim_g_mono (b :: r') (a_loc a) _ (edep a (fwd loc (a_loc a) y))); try assumption.
  - apply H_reach_stop; [exact Hwa|exact Rax|lia|lia].
  - apply H_reach_stop; assumption.
Qed.

(* the cached latest arrival is SOUND: a tail that is feasible for the way it is reached now stays feasible for every other
   reachable way of arriving at its head not later than the cached value *)
Lemma latest_g_sound : forall r a loc0 dep0,
  R dep0 -> sim_g loc0 dep0 (a :: r) = true -> Forall WF (a :: r) -> fin_latest (a :: r) ->
  forall loc x, R x -> fwd loc (a_loc a) x <= latest_g durA earr (a :: r) -> sim_g loc x (a :: r) = true.
Proof.
  induction r as [|b r IH]; intros a loc0 dep0 R0 H0 Hwf Hfin loc x Rx Hx.
  - cbn [sim_g latest_g] in *. rewrite andb_true_r. apply Z.leb_le. exact Hx.
  - destruct Hfin as [Hfa Hfb]. pose proof Hfb as Hfb'. destruct Hfb' as [HLb _].
    inversion Hwf as [|? ? Hwa Hwr]; subst.
    change (latest_g durA earr (a :: b :: r)) with
      (let end_time := latest_g durA earr (b :: r) in
       if INF <=? end_time then a_twe a else earr a (end_time - durA (a_loc a) (a_loc b) end_time)) in Hx, Hfa.
    cbv zeta in Hx, Hfa.
    destruct (INF <=? latest_g durA earr (b :: r)) eqn:EL; [apply Z.leb_le in EL; lia|].
    set (Lb := latest_g durA earr (b :: r)) in *. set (Ld := Lb - durA (a_loc a) (a_loc b) Lb) in *.
    change (sim_g loc0 dep0 (a :: b :: r)) with
      ((fwd loc0 (a_loc a) dep0 <=? a_twe a) &&
       ((fwd loc0 (a_loc a) dep0 <? INF) && (edep a (fwd loc0 (a_loc a) dep0) <? INF) &&
        sim_g (a_loc a) (edep a (fwd loc0 (a_loc a) dep0)) (b :: r))) in H0.
    apply andb_true_iff in H0 as [H01 H02]. apply andb_true_iff in H02 as [H02 H04]. apply andb_true_iff in H02 as [H02 H03].
    apply Z.leb_le in H01. apply Z.ltb_lt in H02. apply Z.ltb_lt in H03.
    set (arr0 := fwd loc0 (a_loc a) dep0) in *. set (arr := fwd loc (a_loc a) x) in *.
    pose proof (H_earr_window a Ld Hwa) as He.
    assert (Ra0 : R arr0) by (apply H_reach_travel; assumption).
    assert (Ra : R arr) by (apply H_reach_travel; [assumption|lia]).
    assert (Rd0 : R (edep a arr0)) by (apply H_reach_stop; assumption).
    change (sim_g loc x (a :: b :: r)) with
      ((arr <=? a_twe a) && ((arr <? INF) && (edep a arr <? INF) && sim_g (a_loc a) (edep a arr) (b :: r))).
    assert (HLd : Ld < INF) by (pose proof (H_durA_nonneg (a_loc a) (a_loc b) Lb); unfold Ld; lia).
    destruct (H_back_stop a arr arr0 Ld Hwa Ra Ra0 H01 H03 HLd Hx) as [Hi|Hii].
    + assert (Hfin' : edep a arr < INF) by lia.
      assert (Rd : R (edep a arr)) by (apply H_reach_stop; [assumption|assumption|lia|assumption]).
      apply andb_true_iff; split; [apply Z.leb_le; lia|].
      apply andb_true_iff; split; [apply andb_true_iff; split; apply Z.ltb_lt; lia|].
      apply (IH b (a_loc a) (edep a arr0) Rd0 H04 Hwr Hfb (a_loc a) (edep a arr) Rd).
      apply H_back_travel; [exact Rd|exact HLb|exact Hi].
    + destruct Hii as [Hfin' Hii].
      assert (Rd : R (edep a arr)) by (apply H_reach_stop; [assumption|assumption|lia|assumption]).
      apply andb_true_iff; split; [apply Z.leb_le; lia|].
      apply andb_true_iff; split; [apply andb_true_iff; split; apply Z.ltb_lt; lia|].
      apply (sim_g_mono_pre (b :: r) (a_loc a) _ (edep a arr0)); assumption.
Qed.

(* SOUNDNESS of evaluate_activity: an accepted (prev, target, next..) keeps the tail behind `prev` feasible for the forward pass *)
Theorem eval_time_g_sound : forall v prev target nexts,
  R (a_dep prev) -> WF target -> Forall WF nexts -> fin_latest nexts ->
  sim_g (a_loc prev) (a_dep prev) nexts = true ->
  eval_time_g durD durA edep earr v prev target nexts = None ->
  sim_g (a_loc prev) (a_dep prev) (target :: nexts) = true.
Proof.
  intros v prev target nexts Rp Hwt Hwn Hfin Hs He. unfold eval_time_g in He.
  destruct (_ || _) eqn:E0; [discriminate|].
  destruct nexts as [|n r].
  - (* last leg of an open tour *)
    fold (fwd (a_loc prev) (a_loc target) (a_dep prev)) in He.
    destruct (Z.min (a_twe target) (v_shift_end v) <? fwd (a_loc prev) (a_loc target) (a_dep prev)) eqn:E1; [discriminate|].
    apply Z.ltb_ge in E1. cbn [sim_g]. rewrite andb_true_r. apply Z.leb_le. lia.
  - fold (fwd (a_loc prev) (a_loc n) (a_dep prev)) in He. fold (fwd (a_loc prev) (a_loc target) (a_dep prev)) in He.
    set (Ln := latest_g durA earr (n :: r)) in *.
    destruct (Ln <? fwd (a_loc prev) (a_loc n) (a_dep prev)) eqn:E1; [discriminate|].
    destruct (Ln <? a_tws target) eqn:E2; [discriminate|].
    set (arr := fwd (a_loc prev) (a_loc target) (a_dep prev)) in *.
    destruct (Z.min (a_twe target) (earr target (subI Ln (durA (a_loc target) (a_loc n) Ln))) <? arr) eqn:E3; [discriminate|].
    fold (fwd (a_loc target) (a_loc n) (edep target arr)) in He.
    destruct (Ln <? fwd (a_loc target) (a_loc n) (edep target arr)) eqn:E4; [discriminate|]. clear He.
    apply Z.ltb_ge in E3. apply Z.ltb_ge in E4.
    destruct Hfin as [HLn Hfr]. fold Ln in HLn.
    assert (Hdep : edep target arr < INF).
    { unfold fwd in E4. apply (addI_lt_inf _ (durD (a_loc target) (a_loc n) (edep target arr))). lia. }
    pose proof (H_edep_inf target arr Hwt Hdep) as Harr.
    assert (Ra : R arr) by (apply H_reach_travel; assumption).
    assert (Rd : R (edep target arr)) by (apply H_reach_stop; [assumption|assumption|lia|assumption]).
    change (sim_g (a_loc prev) (a_dep prev) (target :: n :: r)) with
      ((arr <=? a_twe target) && ((arr <? INF) && (edep target arr <? INF) && sim_g (a_loc target) (edep target arr) (n :: r))).
    apply andb_true_iff; split; [apply Z.leb_le; lia|].
    apply andb_true_iff; split; [apply andb_true_iff; split; apply Z.ltb_lt; lia|].
    apply (latest_g_sound r n (a_loc prev) (a_dep prev) Rp Hs Hwn (conj HLn Hfr) (a_loc target) (edep target arr) Rd).
    fold Ln. exact E4.
Qed.

(* ---------- whole tours ---------- *)
(* the cached schedule is the forward pass (what update_schedules establishes) *)
Fixpoint sched_ok_g (loc dep : Z) (acts : list act) : Prop :=
  match acts with
  | [] => True
  | a :: r => a_arr a = fwd loc (a_loc a) dep /\ a_dep a = edep a (a_arr a) /\ sched_ok_g (a_loc a) (a_dep a) r
  end.
Definition sched_ok_gt (t : list act) : Prop := match t with [] => True | s :: r => sched_ok_g (a_loc s) (a_dep s) r end.

(* the providers do not look at the schedule fields of the activity they are asked about *)
Hypothesis H_edep_sched : forall a arr d x, edep (set_sched a arr d) x = edep a x.
Lemma sched_ok_resched_g : forall acts loc dep, sched_ok_g loc dep (resched_g durD edep loc dep acts).
Proof.
  induction acts as [|a r IH]; intros; cbn [resched_g sched_ok_g]; [exact I|]. cbn [a_arr a_dep a_loc set_sched]. unfold fwd.
  split; [reflexivity|]. split; [rewrite H_edep_sched; reflexivity|]. apply IH.
Qed.

Definition time_feasible_g (t : list act) : bool := match t with [] => false | s :: r => sim_g (a_loc s) (a_dep s) r end.

(* walking a scheduled prefix: the rest of the tour is simulated from the cached departure of the prefix' last activity *)
Lemma sim_g_prefix : forall A p B loc dep,
  sched_ok_g loc dep (A ++ [p]) -> sim_g loc dep (A ++ p :: B) = true -> sim_g (a_loc p) (a_dep p) B = true.
Proof.
  induction A as [|a A IH]; intros p B loc dep Hs H.
  - cbn [app sim_g sched_ok_g] in *. destruct Hs as (H1 & H2 & _). destruct B as [|b B']; [reflexivity|].
    apply andb_true_iff in H as [_ H]. apply andb_true_iff in H as [_ H]. rewrite H2, H1. exact H.
  - cbn [app sched_ok_g] in Hs. destruct Hs as (H1 & H2 & H3).
    change ((a :: A) ++ p :: B) with (a :: (A ++ p :: B)) in H. cbn [sim_g] in H.
    apply andb_true_iff in H as [_ H].
    destruct (A ++ p :: B) as [|z zs] eqn:Ez; [destruct A; discriminate|].
    apply andb_true_iff in H as [_ H]. rewrite <- Ez in H. rewrite H2, H1 in H3. apply (IH p B _ _ H3 H).
Qed.

Lemma sim_g_replace_tail : forall A p B B' loc dep,
  sched_ok_g loc dep (A ++ [p]) -> B <> [] -> B' <> [] ->
  sim_g loc dep (A ++ p :: B) = true -> sim_g (a_loc p) (a_dep p) B' = true -> sim_g loc dep (A ++ p :: B') = true.
Proof.
  induction A as [|a A IH]; intros p B B' loc dep Hs HB HB' H H'.
  - cbn [app sim_g sched_ok_g] in *. destruct Hs as (H1 & H2 & _).
    destruct B as [|b Br]; [congruence|]. destruct B' as [|b' Br']; [congruence|].
    apply andb_true_iff in H as [Ha H]. apply andb_true_iff in H as [Hb _].
    rewrite Ha, Hb. cbn [andb]. rewrite <- H1, <- H2. exact H'.
  - cbn [app sched_ok_g] in Hs. destruct Hs as (H1 & H2 & H3).
    change ((a :: A) ++ p :: B) with (a :: (A ++ p :: B)) in H. change ((a :: A) ++ p :: B') with (a :: (A ++ p :: B')).
    cbn [sim_g] in *. apply andb_true_iff in H as [Ha H]. rewrite Ha. cbn [andb].
    destruct (A ++ p :: B) as [|z zs] eqn:Ez; [destruct A; discriminate|].
    destruct (A ++ p :: B') as [|z' zs'] eqn:Ez'; [destruct A; discriminate|].
    apply andb_true_iff in H as [Hb H]. rewrite Hb. cbn [andb]. rewrite <- Ez in H. rewrite <- Ez'.
    rewrite H2, H1 in H3. apply (IH p B B' _ _ H3 HB HB' H H').
Qed.

(* the tour with the accepted activity: feasible for the forward pass (inner position: something follows the insertion point) *)
Theorem eval_time_g_sound_tour : forall v A p B target,
  B <> [] -> A ++ [p] <> [] ->
  match A ++ [p] with s :: r => sched_ok_g (a_loc s) (a_dep s) r | [] => True end ->
  R (a_dep p) -> WF target -> Forall WF B -> fin_latest B ->
  time_feasible_g (A ++ p :: B) = true ->
  eval_time_g durD durA edep earr v p target B = None ->
  time_feasible_g (A ++ p :: target :: B) = true.
Proof.
  intros v A p B target HB _ Hs Rp Hwt HwB Hfin Hf He.
  destruct A as [|s A'].
  - cbn [app time_feasible_g] in *. apply (eval_time_g_sound v p target B); assumption.
  - cbn [app time_feasible_g] in *.
    assert (Htail : sim_g (a_loc p) (a_dep p) B = true) by (apply (sim_g_prefix A' p B _ _ Hs Hf)).
    apply (sim_g_replace_tail A' p B (target :: B) _ _ Hs HB ltac:(discriminate) Hf).
    apply (eval_time_g_sound v p target B); assumption.
Qed.

(* the cached departure in front of an inner insertion point is a reachable instant *)
Lemma sim_g_reach_prefix : forall A p B loc dep,
  sched_ok_g loc dep (A ++ [p]) -> R dep -> Forall WF (A ++ [p]) -> B <> [] ->
  sim_g loc dep (A ++ p :: B) = true -> R (a_dep p).
Proof.
  induction A as [|a A IH]; intros p B loc dep Hs Rd Hwf HB H.
  - cbn [app sim_g sched_ok_g] in *. destruct Hs as (H1 & H2 & _). inversion Hwf as [|? ? Hwp _]; subst.
    destruct B as [|b B']; [congruence|].
    apply andb_true_iff in H as [Ha H]. apply andb_true_iff in H as [Hb _]. apply andb_true_iff in Hb as [Hb Hc].
    apply Z.leb_le in Ha. apply Z.ltb_lt in Hb. apply Z.ltb_lt in Hc.
    rewrite H2, H1. apply H_reach_stop; [exact Hwp|apply H_reach_travel; assumption|exact Ha|exact Hc].
  - cbn [app sched_ok_g] in Hs. destruct Hs as (H1 & H2 & H3). inversion Hwf as [|? ? Hwa Hwr]; subst.
    change ((a :: A) ++ p :: B) with (a :: (A ++ p :: B)) in H. cbn [sim_g] in H.
    apply andb_true_iff in H as [Ha H].
    destruct (A ++ p :: B) as [|z zs] eqn:Ez; [destruct A; discriminate|].
    apply andb_true_iff in H as [Hb H]. apply andb_true_iff in Hb as [Hb Hc].
    apply Z.leb_le in Ha. apply Z.ltb_lt in Hb. apply Z.ltb_lt in Hc. rewrite <- Ez in H.
    rewrite H2, H1 in H3. apply (IH p B _ _ H3); try assumption.
    apply H_reach_stop; [exact Hwa|apply H_reach_travel; assumption|exact Ha|exact Hc].
Qed.

(* whole tour, inner position, from the reachability of the tour's own departure *)
Theorem eval_time_g_sound_tour_start : forall v s A p B target,
  B <> [] ->
  sched_ok_g (a_loc s) (a_dep s) (A ++ [p]) -> R (a_dep s) -> Forall WF (A ++ [p]) ->
  WF target -> Forall WF B -> fin_latest B ->
  time_feasible_g (s :: A ++ p :: B) = true ->
  eval_time_g durD durA edep earr v p target B = None ->
  time_feasible_g (s :: A ++ p :: target :: B) = true.
Proof.
  intros v s A p B target HB Hs Rs HwA Hwt HwB Hfin Hf He.
  pose proof (sim_g_reach_prefix A p B _ _ Hs Rs HwA HB Hf) as Rp.
  apply (eval_time_g_sound_tour v (s :: A) p B target HB ltac:(discriminate) Hs Rp Hwt HwB Hfin Hf He).
Qed.

Lemma sched_ok_g_app : forall X Y loc dep, sched_ok_g loc dep (X ++ Y) -> sched_ok_g loc dep X.
Proof. induction X as [|a X IH]; intros Y loc dep H; cbn [app sched_ok_g] in *; [exact I|]. destruct H as (H1 & H2 & H3). eauto. Qed.

(* the same by position, as the evaluator is called: leg idx of tour t, something follows the insertion point *)
Theorem eval_time_g_sound_idx : forall v t idx target,
  (S idx < length t)%nat -> sched_ok_gt t -> R (a_dep (hd target t)) -> Forall WF (tl t) ->
  WF target -> fin_latest (skipn (S idx) t) ->
  time_feasible_g t = true ->
  eval_time_g durD durA edep earr v (nth idx t target) target (skipn (S idx) t) = None ->
  time_feasible_g (insert_after t idx target) = true.
Proof.
  intros v t idx target Hidx Hs Rs Hwf Hwt Hfin Hf He.
  assert (Hidx' : (idx < length t)%nat) by lia.
  destruct (split_at t idx target Hidx') as [Et Hl].
  rewrite (insert_after_split t idx target target Hidx').
  set (p := nth idx t target) in *. set (B := skipn (S idx) t) in *.
  assert (HB : B <> []).
  { intros E. apply (f_equal (@length act)) in Et. rewrite app_length, E in Et. cbn [length] in Et. lia. }
  destruct t as [|s r]; [cbn in Hidx; lia|]. cbn [hd tl] in *.
  assert (HwB : Forall WF B).
  { unfold B. cbn [skipn]. rewrite <- (firstn_skipn idx r) in Hwf. apply Forall_app in Hwf. tauto. }
  destruct idx as [|k].
  - cbn [firstn app] in *. unfold p in *. cbn [nth] in *. cbn [time_feasible_g] in *.
    assert (EB : B = r) by reflexivity. rewrite EB in *.
    apply (eval_time_g_sound v s target r); assumption.
  - cbn [firstn] in *. set (A := firstn k r) in *.
    assert (Er : r = A ++ p :: B).
    { change (s :: r = s :: (A ++ p :: B)) in Et. injection Et as E. exact E. }
    change ((s :: A) ++ p :: target :: B) with (s :: A ++ p :: target :: B).
    assert (HsA : sched_ok_g (a_loc s) (a_dep s) (A ++ [p])).
    { cbn [sched_ok_gt] in Hs. rewrite Er in Hs. apply (sched_ok_g_app (A ++ [p]) B). rewrite <- app_assoc. exact Hs. }
    assert (HwA : Forall WF (A ++ [p])).
    { rewrite Er in Hwf. replace (A ++ p :: B) with ((A ++ [p]) ++ B) in Hwf by (rewrite <- app_assoc; reflexivity).
      apply Forall_app in Hwf. tauto. }
    rewrite Er in Hf.
    apply (eval_time_g_sound_tour_start v s A p B target HB HsA Rs HwA Hwt HwB Hfin Hf He).
Qed.

End GenericP.

(* the capacity part of the goal does not look at times: Core's lemma for any tour *)
Lemma load_insert_sound : forall v t idx target,
  (idx < length t)%nat -> d_change (a_dem (hd target t)) = 0 -> simple_demand (a_dem target) ->
  load_feasible (v_cap v) t = true -> eval_cap v t idx target = None ->
  load_feasible (v_cap v) (insert_after t idx target) = true.
Proof.
  intros v t idx target Hidx Hst Hd Hfl EC.
  destruct (split_at t idx target Hidx) as [Et Hl].
  rewrite (insert_after_split t idx target target Hidx).
  set (A := firstn idx t) in *. set (p := nth idx t target) in *. set (B := skipn (S idx) t) in *.
  unfold eval_cap in EC. rewrite <- Hl in EC. rewrite Et in EC, Hfl, Hst.
  apply (cap_sound A p B target v) with (st := true); try assumption; try (destruct A; exact Hst).
Qed.
