(* C05 proofs: the stale-flag protocol keeps every cached field equal to its recomputation from the bare tour. *)
From VRP Require Import Base.Tac Model.Core Spec.Feasible Model.Eval Spec.Inv Model.Cache.

Section P.
Variables tour job value : Type.
Notation feature := (feature tour job value).
Notation rctx := (rctx tour value).

(* the cached field of f in r equals its recomputation from the tour of r *)
Definition field_ok (f : feature) (r : rctx) : Prop := rc_state r (f_key f) = f_compute f (rc_tour r).

Lemma refresh_tour : forall (f : feature) r, rc_tour (refresh tour job value f r) = rc_tour r.
Proof. reflexivity. Qed.
Lemma refresh_own : forall (f : feature) r, field_ok f (refresh tour job value f r).
Proof. intros. unfold field_ok, refresh, set_key. cbn. rewrite Nat.eqb_refl. reflexivity. Qed.
Lemma refresh_other : forall (f g : feature) r, f_key f <> f_key g -> field_ok f r -> field_ok f (refresh tour job value g r).
Proof.
  intros f g r Hk H. unfold field_ok, refresh, set_key in *. cbn.
  destruct (Nat.eqb (f_key f) (f_key g)) eqn:E; [apply Nat.eqb_eq in E; congruence|exact H].
Qed.

(* a fold of handlers each of which either leaves the context alone or refreshes its own field *)
Section Fold.
Variable h : feature -> rctx -> rctx.
Hypothesis h_cases : forall f r, h f r = r \/ h f r = refresh tour job value f r.

Lemma fold_tour : forall l r, rc_tour (fold_left (fun acc f => h f acc) l r) = rc_tour r.
Proof.
  induction l as [|g l IH]; intros r; cbn [fold_left]; [reflexivity|].
  rewrite IH. destruct (h_cases g r) as [E|E]; rewrite E; reflexivity.
Qed.

Lemma fold_stale : forall l r, rc_stale r = true -> rc_stale (fold_left (fun acc f => h f acc) l r) = true.
Proof.
  induction l as [|g l IH]; intros r Hs; cbn [fold_left]; [exact Hs|].
  apply IH. destruct (h_cases g r) as [E|E]; rewrite E; [exact Hs|reflexivity].
Qed.

Lemma h_keeps : forall (f g : feature) r, f_key f <> f_key g -> field_ok f r -> field_ok f (h g r).
Proof. intros f g r Hk H. destruct (h_cases g r) as [E|E]; rewrite E; [exact H|apply refresh_other; assumption]. Qed.

Lemma fold_keeps : forall (f : feature) l r,
  (forall g, In g l -> f_key f <> f_key g) -> field_ok f r -> field_ok f (fold_left (fun acc g => h g acc) l r).
Proof.
  intros f l; induction l as [|g l IH]; intros r Hk H; cbn [fold_left]; [exact H|].
  apply IH; [intros; apply Hk; right; assumption|]. apply h_keeps; [apply Hk; left; reflexivity|exact H].
Qed.

(* if, whenever f's turn comes, its handler makes the field right (or it was right and stays so), it is right at the end *)
Lemma fold_field : forall (f : feature) (Q : rctx -> Prop) l r,
  NoDup (map f_key l) -> In f l ->
  (forall g r', In g l -> f_key f <> f_key g -> Q r' -> Q (h g r')) ->
  (forall r', Q r' -> field_ok f (h f r')) ->
  Q r -> field_ok f (fold_left (fun acc g => h g acc) l r).
Proof.
  intros f Q l; induction l as [|g l IH]; intros r Hnd Hin Hq Hf H; [destruct Hin|].
  cbn [fold_left]. cbn [map] in Hnd. inversion Hnd as [|? ? Hni Hnd']; subst.
  destruct Hin as [->|Hin].
  - apply fold_keeps; [|apply Hf; exact H].
    intros g' Hg' Heq. apply Hni. rewrite Heq. apply in_map. exact Hg'.
  - apply IH; auto.
    + intros g' r' Hg' Hk. apply Hq; [right; exact Hg'|exact Hk].
    + apply Hq; [left; reflexivity| |exact H].
      intros Heq. apply Hni. rewrite <- Heq. apply in_map. exact Hin.
Qed.
End Fold.

Variable fs : list feature.
Hypothesis Hkeys : keys_distinct tour job value fs.

(* ---------------- the invariant of a single route context ---------------- *)
(* not stale -> every field maintained on route level equals its recomputation *)
Definition CacheOK (r : rctx) : Prop :=
  rc_stale r = false -> forall f, In f fs -> f_on_route f = true -> field_ok f r.

Lemma cache_ok_route_mut : forall g r, CacheOK (route_mut tour value g r).
Proof. intros g r H. discriminate. Qed.
Lemma cache_ok_state_mut : forall r, CacheOK (state_mut tour value r).
Proof. intros r H. discriminate. Qed.

Lemma route_handler_cases : forall (f : feature) r,
  (if f_on_route f then refresh tour job value f r else r) = r \/
  (if f_on_route f then refresh tour job value f r else r) = refresh tour job value f r.
Proof. intros f r. destruct (f_on_route f); auto. Qed.

Theorem cache_ok_accept_route_state : forall r, CacheOK r -> CacheOK (accept_route_state tour job value fs r).
Proof.
  intros r Hok. unfold accept_route_state. destruct (rc_stale r) eqn:Es; [|exact Hok].
  intros _ f Hin Hon. unfold field_ok. cbn [rc_state rc_tour].
  apply (fold_field (fun f r => if f_on_route f then refresh tour job value f r else r) route_handler_cases
                    f (fun _ => True) fs); auto.
  intros r' _. rewrite Hon. apply refresh_own.
Qed.

(* insertion: the tour changes through route_mut, so the context is stale and the invariant holds trivially;
   what is true of the fields after an insertion is `insertion_fresh` below *)
Lemma insertion_handler_cases : forall j (f : feature) r,
  (if f_on_insertion f j then refresh tour job value f r else r) = r \/
  (if f_on_insertion f j then refresh tour job value f r else r) = refresh tour job value f r.
Proof. intros j f r. destruct (f_on_insertion f j); auto. Qed.

Theorem cache_ok_apply_insertion : forall ins j r, CacheOK (apply_insertion tour job value fs ins j r).
Proof.
  intros ins j r H. unfold apply_insertion, accept_insertion in H.
  rewrite (fold_stale (fun f r => if f_on_insertion f j then refresh tour job value f r else r) (insertion_handler_cases j)) in H;
    [discriminate|reflexivity].
Qed.

(* ---------------- after every single insertion ---------------- *)
(* every field right, stale or not *)
Definition AllFresh (r : rctx) : Prop := forall f, In f fs -> field_ok f r.
(* a feature may skip its refresh for a job only when the job cannot change the field *)
Definition insertion_exact (ins : job -> tour -> tour) : Prop :=
  forall f, In f fs -> forall j t, f_on_insertion f j = false -> f_compute f (ins j t) = f_compute f t.

Theorem insertion_fresh : forall ins j r,
  insertion_exact ins -> AllFresh r -> AllFresh (apply_insertion tour job value fs ins j r).
Proof.
  intros ins j r Hex Hall f Hin. unfold apply_insertion, accept_insertion.
  apply (fold_field (fun f r => if f_on_insertion f j then refresh tour job value f r else r) (insertion_handler_cases j)
                    f (fun r' => rc_tour r' = ins j (rc_tour r) /\ (f_on_insertion f j = false -> field_ok f r')) fs); auto.
  - intros g r' _ Ek [Ht Hf]. destruct (f_on_insertion g j) eqn:Eg; [|split; assumption].
    split; [exact Ht|]. intros Hno. apply refresh_other; [exact Ek|apply Hf; exact Hno].
  - intros r' [Ht Hf]. destruct (f_on_insertion f j) eqn:Ef; [apply refresh_own|apply Hf; reflexivity].
  - split; [reflexivity|]. intros Hno. unfold field_ok, route_mut. cbn. rewrite (Hex f Hin j _ Hno). apply Hall. exact Hin.
Qed.

(* ---------------- handover: accept_solution_state ---------------- *)
Lemma sol_handler_cases : forall (f : feature) r,
  sol_handler tour job value f r = r \/ sol_handler tour job value f r = refresh tour job value f r.
Proof. intros f r. unfold sol_handler. destruct (f_on_solution f); auto. destruct (rc_stale r); auto. Qed.

Theorem handover_fresh : forall rs r',
  Forall CacheOK rs -> In r' (accept_solution_state tour job value fs rs) ->
  rc_stale r' = false /\
  forall f, In f fs -> refreshes_on_handover tour job value f = true -> field_ok f r'.
Proof.
  intros rs r' Hall Hin. unfold accept_solution_state in Hin. apply in_map_iff in Hin as (r & <- & Hr).
  split; [reflexivity|]. intros f Hf Href. rewrite Forall_forall in Hall. specialize (Hall r Hr).
  unfold field_ok. cbn [rc_state rc_tour]. unfold refreshes_on_handover in Href.
  destruct (f_on_solution f) eqn:Es; [discriminate| |].
  - (* refreshed for stale tours; a tour that is not stale is right by the invariant *)
    apply (fold_field (sol_handler tour job value) sol_handler_cases f
                      (fun r' => rc_stale r' = true \/ field_ok f r') fs); auto.
    + intros g r0 _ Hk [Hs|Hok].
      * left. destruct (sol_handler_cases g r0) as [E|E]; rewrite E; [exact Hs|reflexivity].
      * right. apply (h_keeps (sol_handler tour job value) sol_handler_cases); assumption.
    + intros r0 Hq. unfold sol_handler. rewrite Es. destruct (rc_stale r0) eqn:E0; [apply refresh_own|].
      destruct Hq as [Hq|Hq]; [congruence|exact Hq].
    + destruct (rc_stale r) eqn:E0; [left; reflexivity|right; apply Hall; auto].
  - apply (fold_field (sol_handler tour job value) sol_handler_cases f (fun _ => True) fs); auto.
    intros r0 _. unfold sol_handler. rewrite Es. apply refresh_own.
Qed.

(* a field equals the table's recomputation *)
Lemma recompute_field : forall f t, In f fs -> caching tour job value f = true ->
  recompute tour job value fs t (f_key f) = f_compute f t.
Proof.
  intros f t Hin Hc. unfold recompute. unfold keys_distinct in Hkeys.
  induction fs as [|g l IH]; [destruct Hin|]. cbn [find].
  cbn [map] in Hkeys. inversion Hkeys as [|? ? Hni Hnd]; subst.
  destruct Hin as [->|Hin].
  - rewrite Nat.eqb_refl, Hc. reflexivity.
  - destruct (Nat.eqb (f_key g) (f_key f)) eqn:E.
    + apply Nat.eqb_eq in E. exfalso. apply Hni. rewrite E. apply in_map. exact Hin.
    + cbn [andb]. apply IH; assumption.
Qed.
End P.

(* ---------------- objective values are a function of the tours ---------------- *)
Section Objective.
Variables tour job value result : Type.
Variable fs : list (feature tour job value).
(* what an objective may read of a route: the tour and the cached fields of the table *)
Definition view (r : rctx tour value) := (rc_tour r, map (fun f => rc_state r (f_key f)) fs).
Variable fitness : list (tour * list (option value)) -> result.

Theorem objective_function_of_tours : forall s1 s2,
  map rc_tour s1 = map rc_tour s2 ->
  Forall (fun r => forall f, In f fs -> field_ok tour job value f r) s1 ->
  Forall (fun r => forall f, In f fs -> field_ok tour job value f r) s2 ->
  fitness (map view s1) = fitness (map view s2).
Proof.
  intros s1 s2 Ht H1 H2. f_equal. revert s2 Ht H2.
  induction s1 as [|a s1 IH]; intros [|b s2] Ht H2; try discriminate; [reflexivity|].
  cbn [map] in *. inversion Ht as [[Ea Er]]. inversion H1 as [|? ? Ha H1']; inversion H2 as [|? ? Hb H2']; subst.
  f_equal; [|apply IH; assumption].
  unfold view. rewrite Ea. f_equal. apply map_ext_in. intros f Hf.
  rewrite (Ha f Hf), (Hb f Hf), Ea. reflexivity.
Qed.
End Objective.

(* ---------------- the shipped table ---------------- *)
Lemma table_keys_distinct : forall cs, keys_distinct _ _ _ (table cs).
Proof. intros cs. unfold keys_distinct. cbn. repeat constructor; cbn; intuition discriminate. Qed.
Lemma shipped_keys_distinct : keys_distinct _ _ _ shipped.
Proof. apply table_keys_distinct. Qed.
Lemma shipped_refreshes : forall f, In f shipped -> refreshes_on_handover _ _ _ f = true.
Proof. intros f Hin. cbn in Hin. intuition (subst; reflexivity). Qed.

(* inserting a job at any position *)
Definition ins_at (k : nat) (j : tjob) (t : list tjob) : list tjob := firstn k t ++ j :: skipn k t.

Lemma filter_nonzero_ins : forall (g : tjob -> Z) k j t, g j = 0 ->
  filter (fun c => negb (c =? 0)) (map g (ins_at k j t)) = filter (fun c => negb (c =? 0)) (map g t).
Proof.
  intros g k j t Hj. unfold ins_at. rewrite <- (firstn_skipn k t) at 3.
  rewrite !map_app, !filter_app. cbn [map filter]. rewrite Hj. reflexivity.
Qed.

Lemma table_insertion_exact : forall cs k, insertion_exact _ _ _ (table cs) (ins_at k).
Proof.
  intros cs k f Hin j t Hno. cbn in Hin. destruct Hin as [<-|[<-|[<-|[<-|[]]]]]; cbn in Hno; try discriminate.
  - cbn [f_compute]. unfold first_compat. apply negb_false_iff, Z.eqb_eq in Hno.
    rewrite (filter_nonzero_ins tj_compat k j t Hno). reflexivity.
  - cbn [f_compute]. unfold groups_set. apply negb_false_iff, Z.eqb_eq in Hno.
    rewrite (filter_nonzero_ins tj_group k j t Hno). reflexivity.
Qed.
Lemma shipped_insertion_exact : forall k, insertion_exact _ _ _ shipped (ins_at k).
Proof. apply table_insertion_exact. Qed.

(* the witness of probe observation 11, about the table BEFORE b397f8a: the only job carrying a compatibility tag leaves
   the tour (ruin), then the solution-level refresh runs (restore): the tag stays although recomputation gives none *)
Definition witness_tour : list tjob := [(2, 0, 0); (1, 1, 0)].
Definition witness_fresh (fs : list (feature (list tjob) tjob cval)) : rctx (list tjob) cval :=
  accept_route_state _ _ _ fs (mkRctx witness_tour (fun _ => None) true).
Definition witness_after (fs : list (feature (list tjob) tjob cval)) : list (rctx (list tjob) cval) :=
  accept_solution_state _ _ _ fs [route_mut _ _ (remove_tjob 1) (witness_fresh fs)].

Lemma compat_stale_after_removal_before_fix :
  exists r, In r (witness_after shipped_before_b397f8a) /\ rc_stale r = false /\
            rc_state r 2%nat = Some (CCompat 1) /\ recompute _ _ _ shipped_before_b397f8a (rc_tour r) 2%nat = None.
Proof. eexists. split; [left; reflexivity|]. vm_compute. auto. Qed.

(* the same history on the table as shipped now: the tag is gone, as recomputation says *)
Lemma compat_fresh_after_removal_shipped :
  forall r, In r (witness_after shipped) -> rc_stale r = false /\ rc_state r 2%nat = None /\
            recompute _ _ _ shipped (rc_tour r) 2%nat = None.
Proof. intros r [<-|[]]. vm_compute. auto. Qed.
