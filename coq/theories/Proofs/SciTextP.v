(* C13 — lemmas about the character level (Model/SciText.v): read_line / split_whitespace, str::parse of printed numbers,
   the lexers on printed lines, parse (print I) at CHARACTER level through the token-level theorems of Proofs/ScientificP.v,
   the written solution text and its round trip, numbers outside the machine types. *)
From VRP Require Import Base.Tac Model.Scientific Model.SciText Proofs.ScientificP.
From Coq Require Import String Ascii Permutation.

(* ---------- characters ---------- *)
Definition no_lf (l : chars) : Prop := forallb (fun c => negb (is_lf c)) l = true.
Definition no_ws (l : chars) : Prop := forallb (fun c => negb (is_ws c)) l = true.
Definition all_ws (l : chars) : Prop := forallb is_ws l = true.
Definition no_colon (l : chars) : Prop := forallb (fun c => negb (is_colon c)) l = true.
Definition word_ok (w : chars) : Prop := w <> [] /\ no_ws w.

Lemma is_ws_wsc w : is_ws (wsc_char w) = true.
Proof. now destruct w. Qed.
Lemma is_lf_wsc w : is_lf (wsc_char w) = false.
Proof. now destruct w. Qed.
Lemma is_colon_wsc w : is_colon (wsc_char w) = false.
Proof. now destruct w. Qed.
Lemma all_ws_ws_str l : all_ws (ws_str l).
Proof. unfold all_ws, ws_str. induction l as [|w l IH]; [reflexivity|]. cbn [map forallb]. now rewrite is_ws_wsc. Qed.
Lemma no_lf_ws_str l : no_lf (ws_str l).
Proof. unfold no_lf, ws_str. induction l as [|w l IH]; [reflexivity|]. cbn [map forallb]. now rewrite is_lf_wsc. Qed.
Lemma no_colon_ws_str l : no_colon (ws_str l).
Proof. unfold no_colon, ws_str. induction l as [|w l IH]; [reflexivity|]. cbn [map forallb]. now rewrite is_colon_wsc. Qed.
Lemma forallb_app_iff {A} (f : A -> bool) a b : forallb f (a ++ b) = true <-> forallb f a = true /\ forallb f b = true.
Proof. rewrite forallb_app, andb_true_iff. reflexivity. Qed.
Lemma no_lf_app a b : no_lf (a ++ b) <-> no_lf a /\ no_lf b.
Proof. apply forallb_app_iff. Qed.
Lemma no_ws_app a b : no_ws (a ++ b) <-> no_ws a /\ no_ws b.
Proof. apply forallb_app_iff. Qed.
Lemma all_ws_app a b : all_ws (a ++ b) <-> all_ws a /\ all_ws b.
Proof. apply forallb_app_iff. Qed.
Lemma no_colon_app a b : no_colon (a ++ b) <-> no_colon a /\ no_colon b.
Proof. apply forallb_app_iff. Qed.
Lemma no_lf_strip l : no_lf (strip_lf l).
Proof.
  unfold no_lf, strip_lf. induction l as [|c l IH]; [reflexivity|]. cbn [filter].
  destruct (negb (is_lf c)) eqn:E; [cbn [forallb]; now rewrite E|exact IH].
Qed.

(* ---------- read_line ---------- *)
Lemma lines_aux_line l : forall cur s, no_lf l ->
  lines_aux cur (l ++ LF :: s) = (rev cur ++ l ++ [LF]) :: lines_aux [] s.
Proof.
  induction l as [|c l IH]; intros cur s H.
  - cbn [app lines_aux]. change (is_lf LF) with true. cbn iota. cbn [rev]. reflexivity.
  - unfold no_lf in H. cbn [forallb] in H. apply andb_true_iff in H. destruct H as [Hc Hl].
    cbn [app lines_aux]. destruct (is_lf c); [discriminate|].
    rewrite IH by exact Hl. cbn [rev]. now rewrite <- !app_assoc.
Qed.
Lemma lines_aux_last l : forall cur, no_lf l -> rev cur ++ l <> [] -> lines_aux cur l = [rev cur ++ l].
Proof.
  induction l as [|c l IH]; intros cur H Hne.
  - cbn [lines_aux]. rewrite app_nil_r in *. destruct cur; [now cbn in Hne|reflexivity].
  - unfold no_lf in H. cbn [forallb] in H. apply andb_true_iff in H. destruct H as [Hc Hl].
    cbn [lines_aux]. destruct (is_lf c); [discriminate|].
    rewrite IH; [cbn [rev]; now rewrite <- app_assoc|exact Hl|].
    cbn [rev]. rewrite <- app_assoc. cbn [app]. intros E. apply app_eq_nil in E. destruct E as [_ E]. discriminate.
Qed.
(* the lines read from a printed file *)
Fixpoint terminated (final : bool) (ls : list chars) : list chars :=
  match ls with
  | [] => []
  | [l] => [if final then l ++ [LF] else l]
  | l :: r => (l ++ [LF]) :: terminated final r
  end.
Lemma lines_unlines final ls : Forall no_lf ls -> last ls [LF] <> [] ->
  lines (unlines final ls) = terminated final ls.
Proof.
  unfold lines. induction ls as [|l r IH]; intros Hn Hl; [reflexivity|].
  inversion Hn as [|? ? H1 H2]; subst. destruct r as [|l2 r].
  - cbn [unlines terminated last] in *. destruct final.
    + rewrite lines_aux_line by exact H1. reflexivity.
    + rewrite lines_aux_last; [reflexivity|exact H1|exact Hl].
  - change (unlines final (l :: l2 :: r)) with (l ++ LF :: unlines final (l2 :: r)).
    change (terminated final (l :: l2 :: r)) with ((l ++ [LF]) :: terminated final (l2 :: r)).
    rewrite lines_aux_line by exact H1. cbn [rev app]. f_equal. apply IH; [exact H2|exact Hl].
Qed.

(* ---------- split_whitespace ---------- *)
Lemma words_aux_word w : forall cur s, no_ws w -> words_aux cur (w ++ s) = words_aux (rev w ++ cur) s.
Proof.
  induction w as [|c w IH]; intros cur s H; [reflexivity|].
  unfold no_ws in H. cbn [forallb] in H. apply andb_true_iff in H. destruct H as [Hc Hw].
  cbn [app words_aux]. destruct (is_ws c); [discriminate|]. rewrite IH by exact Hw.
  cbn [rev]. now rewrite <- app_assoc.
Qed.
Lemma words_aux_skip a : forall s, all_ws a -> words_aux [] (a ++ s) = words_aux [] s.
Proof.
  induction a as [|c a IH]; intros s H; [reflexivity|].
  unfold all_ws in H. cbn [forallb] in H. apply andb_true_iff in H. destruct H as [Hc Ha].
  cbn [app words_aux]. rewrite Hc. now apply IH.
Qed.
Lemma words_aux_trail a : forall cur, all_ws a -> cur <> [] -> words_aux cur a = [rev cur].
Proof.
  intros cur H Hc. destruct a as [|c a].
  - cbn [words_aux]. now destruct cur.
  - unfold all_ws in H. cbn [forallb] in H. apply andb_true_iff in H. destruct H as [H1 Ha].
    cbn [words_aux]. rewrite H1. destruct cur; [congruence|].
    f_equal. rewrite <- (app_nil_r a). rewrite words_aux_skip by exact Ha. reflexivity.
Qed.
Lemma words_aux_sep c s cur : is_ws c = true -> cur <> [] -> words_aux cur (c :: s) = rev cur :: words_aux [] s.
Proof. intros H Hc. cbn [words_aux]. rewrite H. now destruct cur. Qed.

Fixpoint good_joined (ws : list (chars * chars)) : Prop :=
  match ws with
  | [] => True
  | (w, sep) :: r => word_ok w /\ all_ws sep /\ (r <> [] -> sep <> []) /\ good_joined r
  end.
Lemma rev_nonempty {A} (l : list A) : l <> [] -> rev l <> [].
Proof. destruct l; [congruence|]. cbn [rev]. intros _ E. apply app_eq_nil in E. destruct E; discriminate. Qed.
Lemma words_joined ws : good_joined ws -> forall tail, all_ws tail -> words (joined ws ++ tail) = map fst ws.
Proof.
  unfold words. induction ws as [|[w sep] r IH]; intros G tail Ht.
  - cbn [joined app map]. rewrite <- (app_nil_r tail). now rewrite words_aux_skip.
  - destruct G as ((Hne & Hnw) & Hs & Hsep & Gr). cbn [joined map fst].
    rewrite <- !app_assoc. rewrite words_aux_word by exact Hnw. rewrite app_nil_r.
    destruct r as [|p r].
    + cbn [joined app map]. rewrite words_aux_trail.
      * now rewrite rev_involutive.
      * apply all_ws_app. split; [exact Hs|exact Ht].
      * now apply rev_nonempty.
    + destruct sep as [|c sep]; [exfalso; apply Hsep; [discriminate|reflexivity]|].
      unfold all_ws in Hs. cbn [forallb] in Hs. apply andb_true_iff in Hs. destruct Hs as [Hc Hs].
      cbn [app]. rewrite words_aux_sep; [|exact Hc|now apply rev_nonempty].
      rewrite rev_involutive. f_equal. rewrite words_aux_skip by exact Hs. now apply IH.
Qed.
Lemma good_joined_app a b : good_joined a -> good_joined b -> Forall (fun p => snd p <> []) a -> good_joined (a ++ b).
Proof.
  induction a as [|[w sep] a IH]; intros Ga Gb Hs; [exact Gb|].
  destruct Ga as (Hw & Hsw & _ & Ga). inversion Hs as [|? ? H1 H2]; subst. cbn [app good_joined].
  split; [exact Hw|]. split; [exact Hsw|]. split; [intros _; exact H1|]. now apply IH.
Qed.
Lemma good_with_seps ws : Forall word_ok ws -> forall seps trail, all_ws trail -> good_joined (with_seps seps trail ws).
Proof.
  induction 1 as [|w r Hw Hr IH]; intros seps trail Ht; [exact I|].
  destruct r as [|w2 r].
  - cbn [with_seps good_joined]. repeat split; try apply Hw; try exact Ht. congruence.
  - change (with_seps seps trail (w :: w2 :: r)) with ((w, sep_str (hd (WSp, []) seps)) :: with_seps (tl seps) trail (w2 :: r)).
    cbn [good_joined]. split; [exact Hw|]. split.
    + unfold sep_str. change (all_ws (ws_str (fst (hd (WSp, []) seps) :: snd (hd (WSp, []) seps)))). apply all_ws_ws_str.
    + split; [intros _; discriminate|]. apply IH. exact Ht.
Qed.
Lemma map_fst_with_seps ws : forall seps trail, map fst (with_seps seps trail ws) = ws.
Proof.
  induction ws as [|w r IH]; intros seps trail; [reflexivity|]. destruct r as [|w2 r]; [reflexivity|].
  change (with_seps seps trail (w :: w2 :: r)) with ((w, sep_str (hd (WSp, []) seps)) :: with_seps (tl seps) trail (w2 :: r)).
  cbn [map fst]. now rewrite IH.
Qed.
Lemma words_print_line ll ws tail : Forall word_ok ws -> all_ws tail -> words (print_line ll ws ++ tail) = ws.
Proof.
  intros Hw Ht. unfold print_line, words. rewrite <- app_assoc. rewrite words_aux_skip by apply all_ws_ws_str.
  destruct ws as [|w r].
  - rewrite <- (app_nil_r (_ ++ tail)). rewrite words_aux_skip; [reflexivity|].
    apply all_ws_app. split; [apply all_ws_ws_str|exact Ht].
  - fold (words (joined (with_seps (ll_seps ll) (ws_str (ll_trail ll)) (w :: r)) ++ tail)).
    rewrite words_joined; [apply map_fst_with_seps| |exact Ht].
    apply good_with_seps; [exact Hw|apply all_ws_ws_str].
Qed.

(* ---------- digits ---------- *)
Definition dig (d : Z) : Prop := 0 <= d <= 9.
Lemma dig_cases d : dig d -> d = 0 \/ d = 1 \/ d = 2 \/ d = 3 \/ d = 4 \/ d = 5 \/ d = 6 \/ d = 7 \/ d = 8 \/ d = 9.
Proof. unfold dig. lia. Qed.
Ltac dig_cases d H := destruct (dig_cases d H) as [->|[->|[->|[->|[->|[->|[->|[->|[->| ->]]]]]]]]].
Lemma digit_val_char d : dig d -> digit_val (digit_char d) = Some d.
Proof. intros H. dig_cases d H; reflexivity. Qed.
Lemma digit_char_plain d : dig d ->
  is_ws (digit_char d) = false /\ is_lf (digit_char d) = false /\ is_colon (digit_char d) = false /\
  is_plus (digit_char d) = false /\ is_minus (digit_char d) = false.
Proof. intros H. dig_cases d H; repeat split; reflexivity. Qed.

Lemma span_digits_app ds rest : Forall dig ds ->
  match rest with [] => True | c :: _ => digit_val c = None end ->
  span_digits (map digit_char ds ++ rest) = (ds, rest).
Proof.
  intros Hd Hr. induction Hd as [|d ds H _ IH].
  - cbn [map app]. destruct rest as [|c r]; [reflexivity|]. cbn [span_digits]. now rewrite Hr.
  - cbn [map app span_digits]. rewrite digit_val_char by exact H. now rewrite IH.
Qed.

Definition F (a : Z) (l : list Z) : Z := fold_left (fun a d => a * 10 + d) l a.
Lemma digits_fuel_val fuel : forall n, 0 <= n < 10 ^ Z.of_nat fuel ->
  exists p, forall acc a, F a (digits_fuel fuel n acc) = F (a * p + n) acc.
Proof.
  induction fuel as [|f IH]; intros n Hn.
  - exists 1. intros acc a. cbn [digits_fuel]. f_equal. cbn in Hn. lia.
  - cbn [digits_fuel]. destruct (Z.ltb_spec n 10) as [L|L].
    + exists 10. intros acc a. unfold F. cbn [fold_left]. rewrite Z.mod_small by lia. reflexivity.
    + assert (Hq : 0 <= n / 10 < 10 ^ Z.of_nat f).
      { rewrite Nat2Z.inj_succ, Z.pow_succ_r in Hn by lia. split; [apply Z.div_pos; lia|].
        apply Z.div_lt_upper_bound; lia. }
      destruct (IH _ Hq) as [p Hp]. exists (10 * p). intros acc a. rewrite Hp. unfold F. cbn [fold_left].
      f_equal. pose proof (Z.div_mod n 10 ltac:(lia)). lia.
Qed.
Lemma digits_fuel_dig fuel : forall n acc, 0 <= n -> Forall dig acc -> Forall dig (digits_fuel fuel n acc).
Proof.
  induction fuel as [|f IH]; intros n acc Hn Ha; [exact Ha|]. cbn [digits_fuel].
  assert (Hd : dig (n mod 10)) by (unfold dig; pose proof (Z.mod_pos_bound n 10 ltac:(lia)); lia).
  destruct (n <? 10); [now constructor|]. apply IH; [apply Z.div_pos; lia|now constructor].
Qed.
Lemma digits_fuel_shape fuel : forall n acc, 0 <= n -> fuel <> O ->
  exists d ds, digits_fuel fuel n acc = d :: ds ++ acc /\ (0 < n < 10 ^ Z.of_nat fuel -> d <> 0) /\ (n = 0 -> d = 0 /\ ds = []).
Proof.
  induction fuel as [|f IH]; intros n acc Hn Hf; [congruence|]. cbn [digits_fuel].
  destruct (Z.ltb_spec n 10) as [L|L].
  - exists (n mod 10), []. rewrite Z.mod_small by lia. repeat split; try lia.
  - destruct f as [|f'].
    + exists (n mod 10), []. repeat split; try lia.
    + destruct (IH (n / 10) (n mod 10 :: acc) ltac:(apply Z.div_pos; lia) ltac:(discriminate)) as (d & ds & E & H1 & _).
      exists d, (ds ++ [n mod 10]). rewrite E. rewrite <- app_assoc. repeat split; try lia; try reflexivity.
      intros Hb. apply H1. rewrite Nat2Z.inj_succ, Z.pow_succ_r in Hb by lia. split.
      * apply Z.div_str_pos. lia.
      * apply Z.div_lt_upper_bound; lia.
Qed.
Lemma digs_bound n : 0 <= n -> 0 <= n < 10 ^ Z.of_nat (S (Z.to_nat (Z.log2 n))).
Proof.
  intros Hn. split; [exact Hn|]. rewrite Nat2Z.inj_succ, Z2Nat.id by apply Z.log2_nonneg.
  destruct (Z.eq_dec n 0) as [->|Hz]; [cbn; lia|].
  pose proof (Z.log2_spec n ltac:(lia)) as [_ H].
  assert (2 ^ Z.succ (Z.log2 n) <= 10 ^ Z.succ (Z.log2 n)).
  { apply Z.pow_le_mono_l. lia. }
  lia.
Qed.
Lemma digs_val n : 0 <= n -> val_digits (digs n) = n.
Proof.
  intros Hn. unfold digs, val_digits. destruct (digits_fuel_val _ n (digs_bound n Hn)) as [p Hp].
  change (F 0 (digits_fuel (S (Z.to_nat (Z.log2 n))) n []) = n). rewrite Hp. reflexivity.
Qed.
Lemma digs_dig n : 0 <= n -> Forall dig (digs n).
Proof. intros Hn. apply digits_fuel_dig; [exact Hn|constructor]. Qed.
Lemma digs_shape n : 0 <= n -> exists d ds, digs n = d :: ds /\ (0 < n -> d <> 0) /\ (n = 0 -> d = 0 /\ ds = []).
Proof.
  intros Hn. destruct (digits_fuel_shape (S (Z.to_nat (Z.log2 n))) n [] Hn ltac:(discriminate)) as (d & ds & E & H1 & H2).
  exists d, ds. unfold digs. rewrite E, app_nil_r. repeat split; try (apply H2; assumption).
  intros Hp. apply H1. pose proof (digs_bound n Hn). lia.
Qed.
Lemma F_app a l1 l2 : F a (l1 ++ l2) = F (F a l1) l2.
Proof. unfold F. apply fold_left_app. Qed.
Lemma F_zeros k : forall a, F a (repeat 0 k) = a * 10 ^ Z.of_nat k.
Proof.
  induction k as [|k IH]; intros a; [cbn; lia|]. cbn [repeat]. unfold F in *. cbn [fold_left]. rewrite IH.
  rewrite Nat2Z.inj_succ, Z.pow_succ_r by lia. ring.
Qed.
Lemma dig_zeros k : Forall dig (repeat 0 k).
Proof. induction k; cbn [repeat]; constructor; [unfold dig; lia|assumption]. Qed.
Lemma zeros_chars k : repeat "0"%char k = map digit_char (repeat 0 k).
Proof. induction k; [reflexivity|]. cbn [repeat map]. now rewrite IHk. Qed.

(* characters of printed numbers *)
Lemma digits_plain ds : Forall dig ds -> no_ws (map digit_char ds) /\ no_lf (map digit_char ds) /\ no_colon (map digit_char ds).
Proof.
  unfold no_ws, no_lf, no_colon. induction 1 as [|d ds H _ (I1 & I2 & I3)]; [auto|].
  destruct (digit_char_plain d H) as (P1 & P2 & P3 & _). cbn [map forallb]. now rewrite P1, P2, P3, I1, I2, I3.
Qed.

(* ---------- str::parse of printed integers ---------- *)
Lemma all_digits_print k a : 0 <= a -> all_digits (repeat "0"%char k ++ dec_str a) = Some a.
Proof.
  intros Ha. unfold all_digits, dec_str. rewrite zeros_chars, <- map_app, <- (app_nil_r (map _ _)).
  rewrite span_digits_app; [|apply Forall_app; split; [apply dig_zeros|now apply digs_dig]|exact I].
  destruct (digs_shape a Ha) as (d & ds & E & _).
  assert (V : val_digits (repeat 0 k ++ digs a) = a).
  { change (F 0 (repeat 0 k ++ digs a) = a). rewrite F_app, F_zeros. cbn [Z.mul]. now apply digs_val. }
  destruct (repeat 0 k ++ digs a) as [|x xs] eqn:E2.
  - apply app_eq_nil in E2. destruct E2 as [_ E2]. congruence.
  - now rewrite V.
Qed.
Lemma print_int_first st z : exists c r, print_int st z = c :: r.
Proof.
  unfold print_int. destruct (z <? 0); [do 2 eexists; reflexivity|]. destruct (ns_plus st); [do 2 eexists; reflexivity|]. cbn [app].
  destruct (ns_zeros st); cbn [repeat app]; [|do 2 eexists; reflexivity].
  unfold dec_str. destruct (digs_shape (Z.abs z) ltac:(lia)) as (d & ds & E & _). rewrite E. cbn [map]. do 2 eexists; reflexivity.
Qed.
Lemma tok_int_print sg st z : sg = true \/ 0 <= z -> tok_int sg (print_int st z) = TInt z.
Proof.
  intros Hs. unfold tok_int, print_int, parse_int_str.
  destruct (Z.ltb_spec z 0) as [L|L].
  - cbn [app]. change (is_plus "-") with false. change (is_minus "-") with true. cbn iota.
    destruct Hs as [->|Hs]; [|lia]. cbn [andb]. rewrite all_digits_print by lia. cbn [option_map]. f_equal. lia.
  - destruct (ns_plus st).
    + cbn [app]. change (is_plus "+") with true. cbn iota. rewrite all_digits_print by lia. f_equal. lia.
    + cbn [app]. rewrite zeros_chars. unfold dec_str. rewrite <- map_app.
      assert (Hd : Forall dig (repeat 0 (ns_zeros st) ++ digs (Z.abs z)))
        by (apply Forall_app; split; [apply dig_zeros|apply digs_dig; lia]).
      destruct (repeat 0 (ns_zeros st) ++ digs (Z.abs z)) as [|d ds] eqn:E.
      * apply app_eq_nil in E. destruct E as [_ E]. destruct (digs_shape (Z.abs z) ltac:(lia)) as (? & ? & E' & _). congruence.
      * inversion Hd as [|? ? Hd1 _]; subst. destruct (digit_char_plain d Hd1) as (_ & _ & _ & P4 & P5).
        cbn [map]. rewrite P4, P5. cbn [andb].
        change (digit_char d :: map digit_char ds) with (map digit_char (d :: ds)). rewrite <- E.
        rewrite map_app, <- zeros_chars. fold (dec_str (Z.abs z)). rewrite all_digits_print by lia. f_equal. lia.
Qed.
Lemma print_int_plain st z : word_ok (print_int st z) /\ no_lf (print_int st z) /\ no_colon (print_int st z).
Proof.
  destruct (print_int_first st z) as (c & r & E).
  assert (P : no_ws (print_int st z) /\ no_lf (print_int st z) /\ no_colon (print_int st z)).
  { unfold print_int. rewrite zeros_chars. unfold dec_str.
    destruct (digits_plain _ (dig_zeros (ns_zeros st))) as (Z1 & Z2 & Z3).
    destruct (digits_plain _ (digs_dig (Z.abs z) ltac:(lia))) as (D1 & D2 & D3).
    repeat split.
    - apply no_ws_app. split; [destruct (z <? 0); [reflexivity|destruct (ns_plus st); reflexivity]|]. apply no_ws_app. auto.
    - apply no_lf_app. split; [destruct (z <? 0); [reflexivity|destruct (ns_plus st); reflexivity]|]. apply no_lf_app. auto.
    - apply no_colon_app. split; [destruct (z <? 0); [reflexivity|destruct (ns_plus st); reflexivity]|]. apply no_colon_app. auto. }
  destruct P as (P1 & P2 & P3). repeat split; try assumption. rewrite E. discriminate.
Qed.

(* ---------- lines of numbers ---------- *)
Lemma words_aux_tail_ws l : forall cur a, all_ws a -> words_aux cur (l ++ a) = words_aux cur l.
Proof.
  induction l as [|c l IH]; intros cur a Ha.
  - cbn [app]. destruct cur as [|x cur].
    + rewrite <- (app_nil_r a). now rewrite words_aux_skip.
    + rewrite words_aux_trail by (exact Ha || discriminate). reflexivity.
  - cbn [app words_aux]. destruct (is_ws c); [destruct cur|]; now rewrite IH.
Qed.
Lemma words_tail_ws l a : all_ws a -> words (l ++ a) = words l.
Proof. apply words_aux_tail_ws. Qed.
Lemma all_ws_lf : all_ws [LF].
Proof. reflexivity. Qed.
Lemma lex_terminated f final ls : map (lex_words f) (terminated final ls) = map (lex_words f) ls.
Proof.
  induction ls as [|l r IH]; [reflexivity|]. destruct r as [|l2 r].
  - cbn [terminated map]. destruct final; [|reflexivity]. unfold lex_words. now rewrite words_tail_ws by apply all_ws_lf.
  - change (terminated final (l :: l2 :: r)) with ((l ++ [LF]) :: terminated final (l2 :: r)).
    cbn [map] in *. rewrite IH. unfold lex_words. now rewrite words_tail_ws by apply all_ws_lf.
Qed.

Lemma print_nums_ok stys zs : Forall word_ok (print_nums stys zs) /\ Forall no_lf (print_nums stys zs) /\ Forall no_colon (print_nums stys zs).
Proof.
  revert stys. induction zs as [|z zs IH]; intros stys; cbn [print_nums]; [repeat split; constructor|].
  destruct (IH (tl stys)) as (I1 & I2 & I3). destruct (print_int_plain (hd sty0 stys) z) as (P1 & P2 & P3).
  repeat split; constructor; assumption.
Qed.
Lemma map_tok_print_nums sg zs : sg = true \/ Forall (fun z => 0 <= z) zs ->
  forall stys, map (tok_int sg) (print_nums stys zs) = map TInt zs.
Proof.
  intros Hs. induction zs as [|z zs IH]; intros stys; [reflexivity|]. cbn [print_nums map].
  rewrite tok_int_print.
  - f_equal. apply IH. destruct Hs as [Hs|Hs]; [now left|right; now inversion Hs].
  - destruct Hs as [Hs|Hs]; [now left|right; now inversion Hs].
Qed.
Lemma lex_num_line sg ll zs tail : all_ws tail -> sg = true \/ Forall (fun z => 0 <= z) zs ->
  lex_words (tok_int sg) (num_line ll zs ++ tail) = map TInt zs.
Proof.
  intros Ht Hs. unfold lex_words, num_line. rewrite words_print_line by (apply print_nums_ok || exact Ht).
  now apply map_tok_print_nums.
Qed.
Lemma lex_num_line0 sg ll zs : sg = true \/ Forall (fun z => 0 <= z) zs ->
  lex_words (tok_int sg) (num_line ll zs) = map TInt zs.
Proof. intros Hs. rewrite <- (app_nil_r (num_line ll zs)). now apply lex_num_line. Qed.
Lemma lex_num_lines rows : forall lays, map (lex_words (tok_int true)) (num_lines lays rows) = map (map TInt) rows.
Proof.
  induction rows as [|zs rows IH]; intros lays; [reflexivity|]. cbn [num_lines map].
  rewrite lex_num_line0 by now left. now rewrite IH.
Qed.

Lemma no_lf_joined ws : Forall (fun p => no_lf (fst p) /\ no_lf (snd p)) ws -> no_lf (joined ws).
Proof.
  induction 1 as [|[w sep] r [H1 H2] _ IH]; [reflexivity|]. cbn [joined]. apply no_lf_app. split; [exact H1|].
  apply no_lf_app. split; [exact H2|exact IH].
Qed.
Lemma no_lf_with_seps ws : Forall no_lf ws -> forall seps trail, no_lf trail ->
  Forall (fun p => no_lf (fst p) /\ no_lf (snd p)) (with_seps seps trail ws).
Proof.
  induction 1 as [|w r Hw Hr IH]; intros seps trail Ht; [constructor|]. destruct r as [|w2 r].
  - cbn [with_seps]. constructor; [split; assumption|constructor].
  - change (with_seps seps trail (w :: w2 :: r)) with ((w, sep_str (hd (WSp, []) seps)) :: with_seps (tl seps) trail (w2 :: r)).
    constructor; [split; [exact Hw|]|now apply IH].
    unfold sep_str. change (no_lf (ws_str (fst (hd (WSp, []) seps) :: snd (hd (WSp, []) seps)))). apply no_lf_ws_str.
Qed.
Lemma no_lf_print_line ll ws : Forall no_lf ws -> no_lf (print_line ll ws).
Proof.
  intros H. unfold print_line. apply no_lf_app. split; [apply no_lf_ws_str|]. destruct ws as [|w r]; [apply no_lf_ws_str|].
  apply no_lf_joined. apply no_lf_with_seps; [exact H|apply no_lf_ws_str].
Qed.
Lemma print_line_nonempty ll w ws : w <> [] -> print_line ll (w :: ws) <> [].
Proof.
  intros Hw. unfold print_line. intros E. apply app_eq_nil in E. destruct E as [_ E].
  destruct ws as [|w2 ws].
  - cbn [with_seps joined] in E. apply app_eq_nil in E. destruct E. congruence.
  - change (with_seps (ll_seps ll) (ws_str (ll_trail ll)) (w :: w2 :: ws))
      with ((w, sep_str (hd (WSp, []) (ll_seps ll))) :: with_seps (tl (ll_seps ll)) (ws_str (ll_trail ll)) (w2 :: ws)) in E.
    cbn [joined] in E. apply app_eq_nil in E. destruct E. congruence.
Qed.
Lemma no_lf_num_line ll zs : no_lf (num_line ll zs).
Proof. apply no_lf_print_line. apply print_nums_ok. Qed.
Lemma num_line_nonempty ll z zs : num_line ll (z :: zs) <> [].
Proof.
  unfold num_line. cbn [print_nums]. apply print_line_nonempty. destruct (print_int_plain (hd sty0 (ll_stys ll)) z) as ((H & _) & _). exact H.
Qed.
Lemma no_lf_num_lines rows : forall lays, Forall no_lf (num_lines lays rows).
Proof. induction rows as [|zs rows IH]; intros lays; cbn [num_lines]; constructor; [apply no_lf_num_line|apply IH]. Qed.
Lemma nonempty_num_lines rows : Forall (fun zs => zs <> []) rows -> forall lays, Forall (fun l => l <> []) (num_lines lays rows).
Proof.
  induction 1 as [|zs rows Hz _ IH]; intros lays; cbn [num_lines]; constructor; [|apply IH].
  destruct zs as [|z zs]; [congruence|]. apply num_line_nonempty.
Qed.
Lemma last_nonempty {A} (ls : list (list A)) d : Forall (fun l => l <> []) ls -> d <> [] -> last ls d <> [].
Proof. induction 1 as [|l r Hl _ IH]; intros Hd; [exact Hd|]. destruct r; [exact Hl|]. now apply IH. Qed.
Lemma last_app_cons {A} (a : list A) x b d : last (a ++ x :: b) d = last (x :: b) d.
Proof. induction a as [|y a IH]; [reflexivity|]. cbn [app]. destruct (a ++ x :: b) eqn:E; [now destruct a|]. exact IH. Qed.
Lemma Forall_map_strip h : Forall no_lf (map strip_lf h).
Proof. induction h; cbn [map]; constructor; [apply no_lf_strip|assumption]. Qed.
Lemma LF_nonempty : [LF] <> [].
Proof. discriminate. Qed.

(* ---------- Solomon ---------- *)
Lemma parse_print_solomon_text lay I :
  sol_wf I -> List.length (sl_h1 lay) = 4%nat -> List.length (sl_h2 lay) = 4%nat ->
  read_solomon_text (print_solomon_text lay I) = Ok (expected_solomon I).
Proof.
  intros Hwf L1 L2. unfold read_solomon_text, print_solomon_text.
  rewrite lines_unlines.
  2:{ apply Forall_app. split; [apply Forall_map_strip|]. constructor; [apply no_lf_num_line|].
      apply Forall_app. split; [apply Forall_map_strip|]. constructor; [apply no_lf_num_line|apply no_lf_num_lines]. }
  2:{ rewrite last_app_cons. change (?x :: ?a ++ ?y :: ?b) with ((x :: a) ++ y :: b). rewrite last_app_cons.
      apply last_nonempty; [|apply LF_nonempty]. constructor; [apply num_line_nonempty|].
      apply nonempty_num_lines. apply Forall_forall. intros zs Hz. apply in_map_iff in Hz. destruct Hz as (c & <- & _). discriminate. }
  destruct (sl_h1 lay) as [|a1 [|a2 [|a3 [|a4 [|? ?]]]]]; try discriminate L1.
  destruct (sl_h2 lay) as [|b1 [|b2 [|b3 [|b4 [|? ?]]]]]; try discriminate L2.
  cbn [map app].
  set (V := num_line (sl_veh lay) [si_number I; si_capacity I]).
  set (D := num_line (sl_depot lay) (cust_nums (si_depot I))).
  set (C := num_lines (sl_custs lay) (map cust_nums (si_custs I))).
  change (terminated (sl_final lay) (strip_lf a1 :: strip_lf a2 :: strip_lf a3 :: strip_lf a4 :: V :: strip_lf b1 :: strip_lf b2 :: strip_lf b3 :: strip_lf b4 :: D :: C))
    with ((strip_lf a1 ++ [LF]) :: (strip_lf a2 ++ [LF]) :: (strip_lf a3 ++ [LF]) :: (strip_lf a4 ++ [LF]) :: (V ++ [LF])
          :: (strip_lf b1 ++ [LF]) :: (strip_lf b2 ++ [LF]) :: (strip_lf b3 ++ [LF]) :: (strip_lf b4 ++ [LF]) :: terminated (sl_final lay) (D :: C)).
  unfold lex_solomon. cbn [firstn skipn map app].
  rewrite lex_terminated. cbn [map]. subst V D C.
  destruct Hwf as (Hn & Hc & Hd & Hcs).
  rewrite lex_num_line by (apply all_ws_lf || (right; repeat constructor; unfold nat32 in Hc; lia)).
  rewrite lex_num_line0 by now left. rewrite lex_num_lines.
  pose proof (parse_print_solomon I
    [lex_words (tok_int true) (strip_lf a1 ++ [LF]); lex_words (tok_int true) (strip_lf a2 ++ [LF]);
     lex_words (tok_int true) (strip_lf a3 ++ [LF]); lex_words (tok_int true) (strip_lf a4 ++ [LF])]
    [lex_words (tok_int true) (strip_lf b1 ++ [LF]); lex_words (tok_int true) (strip_lf b2 ++ [LF]);
     lex_words (tok_int true) (strip_lf b3 ++ [LF]); lex_words (tok_int true) (strip_lf b4 ++ [LF])]
    (conj Hn (conj Hc (conj Hd Hcs))) eq_refl eq_refl) as P.
  unfold print_solomon in P. cbn [app] in P. unfold cust_line in P. rewrite <- (map_map cust_nums (map TInt)) in P.
  exact P.
Qed.

(* ---------- Li & Lim ---------- *)
Lemma parse_print_lilim_rows_text lay I rows :
  1 <= li_number I < two64 -> nat32 (li_capacity I) -> 0 <= li_speed I < two64 -> node_wf (li_depot I) ->
  Forall (fun r => 0 < rq_q r) (li_reqs I) ->
  lilim_layout I rows ->
  read_lilim_text (print_lilim_rows_text lay I rows) = Ok (expected_lilim I).
Proof.
  intros Hn Hc Hs Hd Hq Hl. unfold read_lilim_text, print_lilim_rows_text.
  rewrite lines_unlines.
  2:{ constructor; [apply no_lf_num_line|]. constructor; [apply no_lf_num_line|apply no_lf_num_lines]. }
  2:{ apply last_nonempty; [|apply LF_nonempty]. constructor; [apply num_line_nonempty|]. constructor; [apply num_line_nonempty|].
      apply nonempty_num_lines. apply Forall_forall. intros zs Hz. apply in_map_iff in Hz. destruct Hz as (c & <- & _). discriminate. }
  set (V := num_line (ll_veh lay) [li_number I; li_capacity I; li_speed I]).
  set (D := num_line (ll_depot lay) (depot_nums (li_depot I))).
  set (R := num_lines (ll_rows lay) (map row_nums rows)).
  change (terminated (ll_final lay) (V :: D :: R)) with ((V ++ [LF]) :: terminated (ll_final lay) (D :: R)).
  unfold lex_lilim. rewrite lex_terminated. cbn [map]. subst V D R.
  rewrite lex_num_line by (apply all_ws_lf || (right; repeat constructor; unfold nat32 in Hc; lia)).
  rewrite lex_num_line0 by now left. rewrite lex_num_lines.
  pose proof (parse_print_lilim_layout I rows Hn Hc Hs Hd Hq Hl) as P.
  unfold print_lilim_rows, lilim_head in P. cbn [app] in P. unfold depot_nums. rewrite map_map.
  unfold print_lline in P. exact P.
Qed.
Lemma parse_print_lilim_text lay I : lil_wf I ->
  read_lilim_text (print_lilim_text lay I) = Ok (expected_lilim I).
Proof.
  intros H. pose proof (lilim_rows_layout I H) as L. destruct H as (H1 & H2 & H3 & H4 & H5 & _).
  apply parse_print_lilim_rows_text; try assumption.
  eapply Forall_impl; [|exact H5]. cbv beta. intros r (_ & _ & Hq). lia.
Qed.

(* ---------- split(':') ---------- *)
Lemma isolate_app a b : isolate_colons (a ++ b) = isolate_colons a ++ isolate_colons b.
Proof. unfold isolate_colons. apply flat_map_app. Qed.
Lemma isolate_no_colon l : no_colon l -> isolate_colons l = l.
Proof.
  unfold no_colon, isolate_colons. induction l as [|c l IH]; [reflexivity|]. cbn [forallb flat_map].
  intros H. apply andb_true_iff in H. destruct H as [Hc Hl]. destruct (is_colon c); [discriminate|]. cbn [app]. now rewrite IH.
Qed.
Lemma isolate_lf l : isolate_colons (l ++ [LF]) = isolate_colons l ++ [LF].
Proof. now rewrite isolate_app. Qed.
Lemma lex_iso_terminated f final ls :
  map (fun l => lex_words f (isolate_colons l)) (terminated final ls) = map (fun l => lex_words f (isolate_colons l)) ls.
Proof.
  induction ls as [|l r IH]; [reflexivity|]. destruct r as [|l2 r].
  - cbn [terminated map]. destruct final; [|reflexivity]. rewrite isolate_lf. unfold lex_words. now rewrite words_tail_ws by apply all_ws_lf.
  - change (terminated final (l :: l2 :: r)) with ((l ++ [LF]) :: terminated final (l2 :: r)).
    cbn [map] in *. rewrite IH. rewrite isolate_lf. unfold lex_words. now rewrite words_tail_ws by apply all_ws_lf.
Qed.

Lemma no_colon_joined ws : Forall (fun p => no_colon (fst p) /\ no_colon (snd p)) ws -> no_colon (joined ws).
Proof.
  induction 1 as [|[w sep] r [H1 H2] _ IH]; [reflexivity|]. cbn [joined]. apply no_colon_app. split; [exact H1|].
  apply no_colon_app. split; [exact H2|exact IH].
Qed.
Lemma no_colon_with_seps ws : Forall no_colon ws -> forall seps trail, no_colon trail ->
  Forall (fun p => no_colon (fst p) /\ no_colon (snd p)) (with_seps seps trail ws).
Proof.
  induction 1 as [|w r Hw Hr IH]; intros seps trail Ht; [constructor|]. destruct r as [|w2 r].
  - cbn [with_seps]. constructor; [split; assumption|constructor].
  - change (with_seps seps trail (w :: w2 :: r)) with ((w, sep_str (hd (WSp, []) seps)) :: with_seps (tl seps) trail (w2 :: r)).
    constructor; [split; [exact Hw|]|now apply IH].
    unfold sep_str. change (no_colon (ws_str (fst (hd (WSp, []) seps) :: snd (hd (WSp, []) seps)))). apply no_colon_ws_str.
Qed.
Lemma no_colon_print_line ll ws : Forall no_colon ws -> no_colon (print_line ll ws).
Proof.
  intros H. unfold print_line. apply no_colon_app. split; [apply no_colon_ws_str|]. destruct ws as [|w r]; [apply no_colon_ws_str|].
  apply no_colon_joined. apply no_colon_with_seps; [exact H|apply no_colon_ws_str].
Qed.
Lemma lex_word_line f ll ws : Forall word_ok ws -> Forall no_colon ws ->
  lex_words f (isolate_colons (print_line ll ws)) = map f ws.
Proof.
  intros Hw Hc. rewrite isolate_no_colon by now apply no_colon_print_line.
  unfold lex_words. rewrite <- (app_nil_r (print_line ll ws)). now rewrite words_print_line.
Qed.

Lemma lex_kv f l key value : word_ok key -> no_colon key -> word_ok value -> no_colon value ->
  lex_words f (isolate_colons (print_kv l key value)) = [f key; f colon_str; f value].
Proof.
  intros Hk Hkc Hv Hvc. unfold print_kv.
  rewrite !isolate_app. change (":"%char :: ws_str (kv_b l) ++ value ++ ws_str (kv_trail l))
    with ([":"%char] ++ ws_str (kv_b l) ++ value ++ ws_str (kv_trail l)). rewrite !isolate_app.
  rewrite !(isolate_no_colon (ws_str _)) by apply no_colon_ws_str.
  rewrite (isolate_no_colon key), (isolate_no_colon value) by assumption.
  change (isolate_colons [":"%char]) with ([" "%char] ++ colon_str ++ [" "%char]).
  unfold lex_words.
  assert (E : ws_str (kv_lead l) ++ key ++ ws_str (kv_a l) ++ ([" "%char] ++ colon_str ++ [" "%char]) ++ ws_str (kv_b l) ++ value ++ ws_str (kv_trail l)
              = ws_str (kv_lead l) ++ joined [(key, ws_str (kv_a l) ++ [" "%char]); (colon_str, " "%char :: ws_str (kv_b l)); (value, ws_str (kv_trail l))] ++ []).
  { cbn [joined]. rewrite <- !app_assoc. cbn [app]. now rewrite !app_nil_r. }
  rewrite E. unfold words. rewrite words_aux_skip by apply all_ws_ws_str.
  fold (words (joined [(key, ws_str (kv_a l) ++ [" "%char]); (colon_str, " "%char :: ws_str (kv_b l)); (value, ws_str (kv_trail l))] ++ [])).
  rewrite words_joined; [reflexivity| |reflexivity].
  cbn [good_joined].
  split; [exact Hk|]. split; [apply all_ws_app; split; [apply all_ws_ws_str|reflexivity]|].
  split; [intros _ E2; apply app_eq_nil in E2; destruct E2; discriminate|].
  split; [split; [discriminate|reflexivity]|]. split; [change (all_ws (ws_str (WSp :: kv_b l))); apply all_ws_ws_str|].
  split; [intros _; discriminate|].
  split; [exact Hv|]. split; [apply all_ws_ws_str|]. split; [intros E2; congruence|exact I].
Qed.
Lemma no_lf_print_kv l key value : no_lf key -> no_lf value -> no_lf (print_kv l key value).
Proof.
  intros Hk Hv. unfold print_kv.
  change (":"%char :: ws_str (kv_b l) ++ value ++ ws_str (kv_trail l)) with ([":"%char] ++ ws_str (kv_b l) ++ value ++ ws_str (kv_trail l)).
  repeat (apply no_lf_app; split); try apply no_lf_ws_str; try assumption; reflexivity.
Qed.

(* ---------- Display of integers, decimals with zero fraction ---------- *)
Lemma canon_str_print_int z : canon_str z = print_int sty0 z.
Proof. unfold canon_str, print_int. cbn [ns_plus ns_zeros sty0 repeat app]. now destruct (z <? 0). Qed.
Lemma canon_str_plain z : word_ok (canon_str z) /\ no_lf (canon_str z) /\ no_colon (canon_str z).
Proof. rewrite canon_str_print_int. apply print_int_plain. Qed.
Lemma not_colon_str w : w <> [] -> no_colon w -> chars_eqb w colon_str = false.
Proof.
  destruct w as [|c w]; [congruence|]. intros _ H. unfold no_colon in H. cbn [forallb] in H. apply andb_true_iff in H.
  destruct H as [H _]. unfold is_colon in H. unfold colon_str. cbn [chars_eqb]. destruct (Ascii.eqb c ":"); [discriminate|reflexivity].
Qed.
Lemma canon_digits_dec a : 0 <= a -> canon_digits (dec_str a) = Some a.
Proof.
  intros Ha. unfold canon_digits, dec_str. rewrite <- (app_nil_r (map _ _)).
  rewrite span_digits_app by (now apply digs_dig || exact I).
  pose proof (digs_val a Ha) as V. destruct (digs_shape a Ha) as (d & ds & E & H1 & H2). rewrite E in *.
  destruct ds as [|d2 ds].
  - f_equal. cbn in V. lia.
  - destruct (Z.eq_dec a 0) as [->|Hz]; [destruct (H2 eq_refl); discriminate|].
    replace (d =? 0) with false by (symmetry; apply Z.eqb_neq; apply H1; lia). now rewrite V.
Qed.
Lemma dec_str_first a : 0 <= a -> exists d r, dig d /\ dec_str a = digit_char d :: r.
Proof.
  intros Ha. unfold dec_str. destruct (digs_shape a Ha) as (d & ds & E & _). pose proof (digs_dig a Ha) as Hd. rewrite E in *.
  inversion Hd; subst. exists d, (map digit_char ds). split; [assumption|reflexivity].
Qed.
Lemma canon_int_canon_str z : canon_int (canon_str z) = Some z.
Proof.
  unfold canon_str. destruct (Z.ltb_spec z 0) as [L|L].
  - cbn [app canon_int]. change (is_minus "-") with true. cbn iota. rewrite canon_digits_dec by lia.
    replace (Z.abs z =? 0) with false by (symmetry; apply Z.eqb_neq; lia). f_equal. lia.
  - cbn [app]. destruct (dec_str_first (Z.abs z) ltac:(lia)) as (d & r & Hd & E).
    unfold canon_int. rewrite E. destruct (digit_char_plain d Hd) as (_ & _ & _ & _ & P5). rewrite P5. rewrite <- E.
    rewrite canon_digits_dec by lia. f_equal. lia.
Qed.
Lemma lex_tsp_canon z : lex_tsp_word (canon_str z) = TInt z.
Proof.
  unfold lex_tsp_word. destruct (canon_str_plain z) as ((Hne & _) & _ & Hc). rewrite not_colon_str by assumption.
  now rewrite canon_int_canon_str.
Qed.
Lemma lex_canon_canon z : lex_canon_word (canon_str z) = TInt z.
Proof.
  unfold lex_canon_word. destruct (canon_str_plain z) as ((Hne & _) & _ & Hc). rewrite not_colon_str by assumption.
  now rewrite canon_int_canon_str.
Qed.

Lemma digit_val_dot : digit_val "."%char = None.
Proof. reflexivity. Qed.
Lemma span_dec_zeros a k : 0 <= a ->
  span_digits (dec_str a ++ "."%char :: repeat "0"%char k) = (digs a, "."%char :: repeat "0"%char k).
Proof. intros Ha. unfold dec_str. apply span_digits_app; [now apply digs_dig|reflexivity]. Qed.
Lemma span_zeros k : span_digits (repeat "0"%char k) = (repeat 0 k, []).
Proof. rewrite zeros_chars, <- (app_nil_r (map _ _)). apply span_digits_app; [apply dig_zeros|exact I]. Qed.
Lemma canon_digits_dotted a k : 0 <= a -> canon_digits (dec_str a ++ "."%char :: repeat "0"%char k) = None.
Proof.
  intros Ha. unfold canon_digits. rewrite span_dec_zeros by exact Ha.
  destruct (digs_shape a Ha) as (d & ds & E & _). rewrite E. now destruct ds.
Qed.
Lemma parse_number_dotted a k : 0 <= a ->
  parse_number (dec_str a ++ "."%char :: repeat "0"%char (S k))
  = Some (a * 10 ^ Z.of_nat (S k), List.length (digs a ++ repeat 0 (S k)), S k, 0).
Proof.
  intros Ha. unfold parse_number. rewrite span_dec_zeros by exact Ha. change (is_dot ".") with true. cbn iota.
  rewrite span_zeros.
  assert (V : val_digits (digs a ++ repeat 0 (S k)) = a * 10 ^ Z.of_nat (S k)).
  { change (F 0 (digs a ++ repeat 0 (S k)) = a * 10 ^ Z.of_nat (S k)). rewrite F_app, F_zeros. f_equal. now apply digs_val. }
  destruct (digs a ++ repeat 0 (S k)) as [|x xs] eqn:E.
  - apply app_eq_nil in E. destruct E as [_ E]. discriminate.
  - rewrite V. now rewrite repeat_length.
Qed.
Lemma first_digit d r : dig d ->
  canon_int (digit_char d :: r) = canon_digits (digit_char d :: r) /\
  parse_float_str (digit_char d :: r) =
    match parse_number (digit_char d :: r) with
    | Some (m, nd, k, x) => Some (FNum false m nd k x)
    | None => if str_ieq (digit_char d :: r) "inf" || str_ieq (digit_char d :: r) "infinity" then Some (FInf false)
              else if str_ieq (digit_char d :: r) "nan" then Some FNan else None
    end.
Proof.
  intros Hd. destruct (digit_char_plain d Hd) as (_ & _ & _ & P4 & P5).
  unfold canon_int, parse_float_str, strip_sign. now rewrite P4, P5.
Qed.
Lemma dec_token_dotted neg a k :
  dec_token neg (a * 10 ^ Z.of_nat (S k)) (List.length (digs a ++ repeat 0 (S k))) (S k) 0
  = TDec (sgz neg (a * 10 ^ Z.of_nat (S k))) (S k).
Proof.
  unfold dec_token.
  replace (0 <=? 0 - Z.of_nat (S k)) with false by (symmetry; apply Z.leb_gt; lia).
  replace (400 + Z.of_nat (List.length (digs a ++ repeat 0 (S k))) <? - (0 - Z.of_nat (S k))) with false
    by (symmetry; apply Z.ltb_ge; rewrite app_length, repeat_length; lia).
  replace (- (0 - Z.of_nat (S k))) with (Z.of_nat (S k)) by lia. now rewrite Nat2Z.id.
Qed.
Lemma lex_tsp_dec k z : lex_tsp_word (print_dec k z) = num_tok k z.
Proof.
  destruct k as [|k]; [apply lex_tsp_canon|]. cbn [print_dec num_tok]. unfold lex_tsp_word.
  destruct (canon_str_plain z) as ((Hne & _) & _ & Hc).
  rewrite not_colon_str.
  2:{ intros E. apply app_eq_nil in E. destruct E; congruence. }
  2:{ apply no_colon_app. split; [exact Hc|]. rewrite zeros_chars. change ("."%char :: map digit_char (repeat 0 (S k))) with (["."%char] ++ map digit_char (repeat 0 (S k))).
      apply no_colon_app. split; [reflexivity|]. apply digits_plain, dig_zeros. }
  unfold canon_str. destruct (Z.ltb_spec z 0) as [L|L].
  - cbn [app canon_int]. change (is_minus "-") with true. cbn iota. rewrite canon_digits_dotted by lia.
    unfold parse_float_str. cbn [strip_sign]. change (is_minus "-") with true. cbn iota.
    rewrite parse_number_dotted by lia. rewrite dec_token_dotted. cbn [sgz]. f_equal. lia.
  - cbn [app]. destruct (dec_str_first (Z.abs z) ltac:(lia)) as (d & r & Hd & E).
    destruct (first_digit d (r ++ "."%char :: repeat "0"%char (S k)) Hd) as [C1 C2].
    change (digit_char d :: r ++ "."%char :: repeat "0"%char (S k)) with ((digit_char d :: r) ++ "."%char :: repeat "0"%char (S k)) in C1, C2.
    rewrite <- E in C1, C2. rewrite C1, C2. rewrite canon_digits_dotted by lia.
    rewrite parse_number_dotted by lia. rewrite dec_token_dotted. cbn [sgz]. f_equal. lia.
Qed.
Lemma print_dec_plain k z : word_ok (print_dec k z) /\ no_lf (print_dec k z) /\ no_colon (print_dec k z).
Proof.
  destruct (canon_str_plain z) as ((Hne & Hw) & Hl & Hc). destruct k as [|k]; [repeat split; assumption|].
  cbn [print_dec]. destruct (digits_plain _ (dig_zeros (S k))) as (Z1 & Z2 & Z3). rewrite <- zeros_chars in *.
  change ("."%char :: repeat "0"%char (S k)) with (["."%char] ++ repeat "0"%char (S k)).
  repeat split.
  - intros E. apply app_eq_nil in E. destruct E; congruence.
  - apply no_ws_app. split; [exact Hw|]. apply no_ws_app. split; [reflexivity|exact Z1].
  - apply no_lf_app. split; [exact Hl|]. apply no_lf_app. split; [reflexivity|exact Z2].
  - apply no_colon_app. split; [exact Hc|]. apply no_colon_app. split; [reflexivity|exact Z3].
Qed.

(* ---------- TSPLIB ---------- *)
Lemma lex_word_lines f rows : Forall (fun ws => Forall word_ok ws /\ Forall no_colon ws) rows -> forall lays,
  map (fun l => lex_words f (isolate_colons l)) (word_lines lays rows) = map (map f) rows.
Proof.
  induction 1 as [|ws rows [H1 H2] _ IH]; intros lays; [reflexivity|]. cbn [word_lines map].
  rewrite lex_word_line by assumption. now rewrite IH.
Qed.
Lemma no_lf_word_lines rows : Forall (Forall no_lf) rows -> forall lays, Forall no_lf (word_lines lays rows).
Proof. induction 1 as [|ws rows H _ IH]; intros lays; cbn [word_lines]; constructor; [now apply no_lf_print_line|apply IH]. Qed.

Lemma parse_print_tsplib_text lay k I pn :
  tsp_wf I -> List.length (tl_h lay) = 2%nat -> Permutation pn (ti_nodes I) ->
  read_tsplib_text (map t_id pn) (print_tsplib_text lay k I) = Ok (expected_tsplib pn I).
Proof.
  intros Hwf Lh Hp. unfold read_tsplib_text, print_tsplib_text.
  set (coords := map (fun n => [canon_str (t_id n); print_dec k (t_x n); print_dec k (t_y n)]) (ti_nodes I)).
  set (dems := map (fun n => [canon_str (t_id n); canon_str (t_dem n)]) (ti_nodes I)).
  assert (Hco : Forall (fun ws => Forall word_ok ws /\ Forall no_colon ws) coords /\ Forall (Forall no_lf) coords).
  { subst coords. split; apply Forall_forall; intros ws Hws; apply in_map_iff in Hws; destruct Hws as (n & <- & _).
    - split; repeat constructor; try apply canon_str_plain; apply print_dec_plain.
    - repeat constructor; try apply canon_str_plain; apply print_dec_plain. }
  assert (Hde : Forall (fun ws => Forall word_ok ws /\ Forall no_colon ws) dems /\ Forall (Forall no_lf) dems).
  { subst dems. split; apply Forall_forall; intros ws Hws; apply in_map_iff in Hws; destruct Hws as (n & <- & _).
    - split; repeat constructor; apply canon_str_plain.
    - repeat constructor; apply canon_str_plain. }
  rewrite lines_unlines.
  2:{ apply Forall_app. split; [apply Forall_map_strip|].
      repeat (constructor; [apply no_lf_print_kv; try reflexivity; try apply canon_str_plain; try apply print_dec_plain|]).
      constructor; [apply no_lf_print_line; repeat constructor|].
      apply Forall_app. split; [apply no_lf_word_lines, Hco|]. constructor; [apply no_lf_print_line; repeat constructor|].
      apply Forall_app. split; [apply no_lf_word_lines, Hde|].
      repeat (constructor; [apply no_lf_print_line; repeat constructor; apply canon_str_plain|]). constructor. }
  2:{ rewrite last_app_cons. do 4 (change (?x :: ?y :: ?r) with ([x] ++ y :: r); rewrite last_app_cons).
      change (?x :: ?a ++ ?y :: ?b) with ((x :: a) ++ y :: b). rewrite last_app_cons.
      change (?x :: ?a ++ ?b) with ((x :: a) ++ b).
      change [?a; ?b; ?c; ?d] with ([a; b; c] ++ [d]). rewrite app_assoc, last_app_cons. cbn [last].
      apply print_line_nonempty. discriminate. }
  unfold lex_tsplib. rewrite lex_iso_terminated. do 3 (rewrite ?map_app; cbn [map]).
  rewrite !lex_kv by (try apply canon_str_plain; try apply print_dec_plain; repeat split; try discriminate; reflexivity).
  rewrite !lex_word_line by (repeat constructor; try apply canon_str_plain; try discriminate; reflexivity).
  rewrite !lex_word_lines by (apply Hco || apply Hde). cbn [map].
  rewrite lex_tsp_canon, lex_tsp_dec, lex_tsp_canon.
  subst coords dems. rewrite !map_map.
  rewrite (map_ext (fun n => map lex_tsp_word [canon_str (t_id n); print_dec k (t_x n); print_dec k (t_y n)])
                   (fun n => [TInt (t_id n); num_tok k (t_x n); num_tok k (t_y n)]))
    by (intros n; cbn [map]; now rewrite lex_tsp_canon, !lex_tsp_dec).
  rewrite (map_ext (fun n => map lex_tsp_word [canon_str (t_id n); canon_str (t_dem n)])
                   (fun n => [TInt (t_id n); TInt (t_dem n)]))
    by (intros n; cbn [map]; now rewrite !lex_tsp_canon).
  pose proof (parse_print_tsplib I (map (fun x => lex_words lex_tsp_word (isolate_colons (strip_lf x))) (tl_h lay)) k pn Hwf
                ltac:(now rewrite map_length) Hp) as P.
  unfold print_tsplib, kv in P. exact P.
Qed.

(* ---------- the written solution text ---------- *)
Lemma joined_app a b : joined (a ++ b) = joined a ++ joined b.
Proof. induction a as [|[w s] a IH]; [reflexivity|]. cbn [app joined]. now rewrite IH, !app_assoc. Qed.
Lemma join_sp_joined ws : join_sp ws = joined (with_seps [] [] ws).
Proof.
  induction ws as [|w r IH]; [reflexivity|]. destruct r as [|w2 r].
  - cbn [join_sp with_seps joined]. now rewrite !app_nil_r.
  - change (join_sp (w :: w2 :: r)) with (w ++ " "%char :: join_sp (w2 :: r)).
    change (with_seps [] [] (w :: w2 :: r)) with ((w, [" "%char]) :: with_seps [] [] (w2 :: r)).
    cbn [joined]. now rewrite IH.
Qed.
Lemma dec_str_canon i : 0 <= i -> dec_str i = canon_str i.
Proof. intros H. unfold canon_str. replace (i <? 0) with false by (symmetry; apply Z.ltb_ge; lia). cbn [app]. f_equal. lia. Qed.
Definition route_body (ir : Z * list Z) : chars :=
  str "Route " ++ dec_str (fst ir) ++ str ": " ++ join_sp (map canon_str (snd ir)).
Lemma route_line_body ir : route_line_text ir = route_body ir ++ [LF].
Proof. unfold route_line_text, route_body. now rewrite <- !app_assoc. Qed.
Lemma canon_strs_plain r : Forall word_ok (map canon_str r) /\ Forall no_lf (map canon_str r) /\ Forall no_colon (map canon_str r).
Proof.
  induction r as [|z r (I1 & I2 & I3)]; cbn [map]; [repeat split; constructor|].
  destruct (canon_str_plain z) as (P1 & P2 & P3). repeat split; constructor; assumption.
Qed.
Lemma no_lf_route_body ir : 0 <= fst ir -> no_lf (route_body ir).
Proof.
  intros Hi. unfold route_body. rewrite dec_str_canon by exact Hi.
  apply no_lf_app; split; [reflexivity|]. apply no_lf_app; split; [apply canon_str_plain|]. apply no_lf_app; split; [reflexivity|].
  rewrite join_sp_joined. apply no_lf_joined. apply no_lf_with_seps; [apply canon_strs_plain|reflexivity].
Qed.
Lemma number_from_ge {A} (l : list A) : forall i, Forall (fun ir => i <= fst ir) (number_from i l).
Proof.
  induction l as [|a l IH]; intros i; cbn [number_from]; constructor; [cbn; lia|].
  eapply Forall_impl; [|apply IH]. cbv beta. intros ir H. lia.
Qed.
Lemma lines_routes rs : forall i last, 0 <= i -> no_lf last -> last <> [] ->
  lines (flat_map route_line_text (number_from i rs) ++ last) = map route_line_text (number_from i rs) ++ [last].
Proof.
  unfold lines. induction rs as [|r rs IH]; intros i last Hi Hl Hne.
  - cbn [number_from flat_map map app]. rewrite lines_aux_last; [reflexivity|exact Hl|exact Hne].
  - cbn [number_from flat_map map app]. rewrite route_line_body. rewrite <- !app_assoc. cbn [app].
    rewrite lines_aux_line by (apply no_lf_route_body; cbn; lia). cbn [rev app]. f_equal. apply IH; (lia || assumption).
Qed.
Lemma lex_route_line ir : 0 <= fst ir ->
  lex_words lex_canon_word (isolate_colons (route_line_text ir)) = TWord "Route" :: TInt (fst ir) :: TColon :: map TInt (snd ir).
Proof.
  intros Hi. unfold route_line_text. rewrite dec_str_canon by exact Hi.
  destruct (canon_strs_plain (snd ir)) as (C1 & C2 & C3). destruct (canon_str_plain (fst ir)) as (D1 & D2 & D3).
  rewrite !isolate_app. rewrite (isolate_no_colon (canon_str (fst ir))) by exact D3.
  rewrite (isolate_no_colon (join_sp _)).
  2:{ rewrite join_sp_joined. apply no_colon_joined. apply no_colon_with_seps; [exact C3|reflexivity]. }
  change (isolate_colons (str "Route ")) with (str "Route" ++ [" "%char]).
  change (isolate_colons (str ": ")) with ([" "%char] ++ colon_str ++ [" "%char; " "%char]).
  change (isolate_colons [LF]) with [LF].
  assert (E : (str "Route" ++ [" "%char]) ++ canon_str (fst ir) ++ ([" "%char] ++ colon_str ++ [" "%char; " "%char]) ++ join_sp (map canon_str (snd ir)) ++ [LF]
              = joined ([(str "Route", [" "%char]); (canon_str (fst ir), [" "%char]); (colon_str, [" "%char; " "%char])]
                        ++ with_seps [] [] (map canon_str (snd ir))) ++ [LF]).
  { rewrite joined_app, join_sp_joined. cbn [joined]. rewrite <- !app_assoc. cbn [app]. reflexivity. }
  rewrite E. unfold lex_words. rewrite words_joined; [|apply good_joined_app|reflexivity].
  - rewrite map_app, map_fst_with_seps. cbn [map fst app]. rewrite lex_canon_canon.
    rewrite map_map. f_equal. f_equal. f_equal. apply map_ext. intros z. apply lex_canon_canon.
  - cbn [good_joined]. repeat split; try discriminate; try apply D1.
  - apply good_with_seps; [exact C1|reflexivity].
  - repeat constructor; discriminate.
Qed.
Lemma lex_route_lines rs : forall i, 0 <= i ->
  map (fun l => lex_words lex_canon_word (isolate_colons l)) (map route_line_text (number_from i rs))
  = map (fun ir => TWord "Route" :: TInt (fst ir) :: TColon :: map TInt (snd ir)) (number_from i rs).
Proof.
  induction rs as [|r rs IH]; intros i Hi; [reflexivity|]. cbn [number_from map].
  rewrite lex_route_line by (cbn; lia). rewrite IH by lia. reflexivity.
Qed.

(* the Cost line *)
Lemma rne_div_nonneg n d : 0 <= n -> 0 < d -> 0 <= rne_div n d.
Proof.
  intros Hn Hd. unfold rne_div. pose proof (Z.div_pos n d Hn Hd).
  destruct (2 * (n mod d) <? d); [lia|]. destruct (d <? 2 * (n mod d)); [lia|]. destruct (Z.even (n / d)); lia.
Qed.
Lemma rne_div_nearest n d : 0 < d -> 2 * Z.abs (n - rne_div n d * d) <= d.
Proof.
  intros Hd. unfold rne_div. pose proof (Z.div_mod n d ltac:(lia)) as E. pose proof (Z.mod_pos_bound n d Hd) as B.
  set (a := n / d) in *. set (b := n mod d) in *.
  destruct (Z.ltb_spec (2 * b) d); [nia|]. destruct (Z.ltb_spec d (2 * b)); [nia|]. destruct (Z.even a); nia.
Qed.
Lemma rne_div_exact a d : 0 < d -> rne_div (a * d) d = a.
Proof.
  intros Hd. unfold rne_div. rewrite Z.div_mul, Z.mod_mul by lia. rewrite Z.mul_0_r.
  now replace (0 <? d) with true by (symmetry; apply Z.ltb_lt; lia).
Qed.
Lemma cost_str_plain m s : 0 <= m -> word_ok (cost_str m s) /\ no_lf (cost_str m s) /\ no_colon (cost_str m s).
Proof.
  intros Hm. unfold cost_str. set (h := rne_div (100 * m) (2 ^ Z.of_nat s)).
  assert (Hh : 0 <= h) by (apply rne_div_nonneg; [lia|apply Z.pow_pos_nonneg; lia]).
  assert (H1 : 0 <= h / 100) by (apply Z.div_pos; lia).
  destruct (digits_plain _ (digs_dig (h / 100) H1)) as (A1 & A2 & A3). fold (dec_str (h / 100)) in *.
  assert (Hd1 : dig ((h / 10) mod 10)) by (unfold dig; pose proof (Z.mod_pos_bound (h / 10) 10 ltac:(lia)); lia).
  assert (Hd2 : dig (h mod 10)) by (unfold dig; pose proof (Z.mod_pos_bound h 10 ltac:(lia)); lia).
  destruct (digits_plain [(h / 10) mod 10; h mod 10] ltac:(constructor; [assumption|constructor; [assumption|constructor]])) as (B1 & B2 & B3).
  cbn [map] in B1, B2, B3.
  change ("."%char :: [digit_char ((h / 10) mod 10); digit_char (h mod 10)]) with (["."%char] ++ [digit_char ((h / 10) mod 10); digit_char (h mod 10)]).
  repeat split.
  - intros E. apply app_eq_nil in E. destruct E as [_ E]. discriminate.
  - apply no_ws_app. split; [exact A1|]. apply no_ws_app. split; [reflexivity|exact B1].
  - apply no_lf_app. split; [exact A2|]. apply no_lf_app. split; [reflexivity|exact B2].
  - apply no_colon_app. split; [exact A3|]. apply no_colon_app. split; [reflexivity|exact B3].
Qed.
Lemma cost_str_integer c s : 0 <= c ->
  cost_str (c * 2 ^ Z.of_nat s) s = dec_str c ++ str ".00".
Proof.
  intros Hc. unfold cost_str. assert (Hp : 0 < 2 ^ Z.of_nat s) by (apply Z.pow_pos_nonneg; lia).
  replace (100 * (c * 2 ^ Z.of_nat s)) with (100 * c * 2 ^ Z.of_nat s) by ring. rewrite rne_div_exact by exact Hp.
  replace (100 * c / 100) with c by (rewrite Z.mul_comm, Z.div_mul; lia).
  replace (100 * c / 10) with (10 * c) by (replace (100 * c) with (10 * c * 10) by ring; now rewrite Z.div_mul by lia).
  replace (10 * c mod 10) with 0 by (rewrite Z.mul_comm, Z.mod_mul; lia).
  replace (100 * c mod 10) with 0 by (replace (100 * c) with (10 * c * 10) by ring; rewrite Z.mod_mul; lia).
  reflexivity.
Qed.
Lemma lex_canon_not_colon w : chars_eqb w colon_str = false -> lex_canon_word w <> TColon.
Proof. intros H. unfold lex_canon_word. rewrite H. destruct (canon_int w); discriminate. Qed.
Lemma lex_cost_line m s : 0 <= m ->
  exists t, t <> TColon /\ lex_words lex_canon_word (isolate_colons (str "Cost " ++ cost_str m s)) = [TWord "Cost"; t].
Proof.
  intros Hm. destruct (cost_str_plain m s Hm) as (P1 & P2 & P3).
  exists (lex_canon_word (cost_str m s)). split; [apply lex_canon_not_colon, not_colon_str; [apply P1|exact P3]|].
  rewrite isolate_no_colon by (apply no_colon_app; split; [reflexivity|exact P3]).
  change (str "Cost ") with (str "Cost" ++ [" "%char]).
  assert (E : (str "Cost" ++ [" "%char]) ++ cost_str m s = joined [(str "Cost", [" "%char]); (cost_str m s, [])] ++ []).
  { cbn [joined]. now rewrite <- !app_assoc, !app_nil_r. }
  rewrite E. unfold lex_words. rewrite words_joined; [reflexivity| |reflexivity].
  cbn [good_joined].
  split; [split; [discriminate|reflexivity]|]. split; [reflexivity|]. split; [intros _; discriminate|].
  split; [exact P1|]. split; [reflexivity|]. split; [intros E2; exfalso; apply E2; reflexivity|exact I].
Qed.

Lemma init_text_roundtrip_text known nveh rs m s :
  Forall (Forall (fun z => In z known)) rs -> (List.length rs <= nveh)%nat -> 0 <= m ->
  read_init_text known nveh (write_solution_text rs m s) = Ok rs.
Proof.
  intros Hk Hl Hm. unfold read_init_text, write_solution_text.
  destruct (cost_str_plain m s Hm) as (P1 & P2 & P3).
  rewrite lines_routes.
  - unfold lex_init. rewrite map_app. cbn [map]. rewrite lex_route_lines by lia.
    destruct (lex_cost_line m s Hm) as (t & Ht & ->).
    apply read_init_routes; [exact Hk|exact Hl|]. intros a. cbn [read_init count_colons].
    destruct t; try congruence; reflexivity.
  - lia.
  - apply no_lf_app. split; [reflexivity|exact P2].
  - intros E. apply app_eq_nil in E. destruct E; discriminate.
Qed.
Lemma init_full_roundtrip_text known nveh rs m s :
  Forall (Forall (fun z => In z known)) rs -> (List.length rs <= nveh)%nat -> 0 <= m ->
  read_init_full known nveh (write_solution_text rs m s) = Ok (rs, filter (fun z => negb (mentioned rs z)) known).
Proof. intros Hk Hl Hm. unfold read_init_full. now rewrite init_text_roundtrip_text. Qed.
Lemma complete_no_unassigned known rs : (forall z, In z known -> exists r, In r rs /\ In z r) ->
  filter (fun z => negb (mentioned rs z)) known = [].
Proof.
  intros H. induction known as [|z known IH]; [reflexivity|]. cbn [filter].
  replace (mentioned rs z) with true.
  - cbn [negb]. apply IH. intros y Hy. apply H. now right.
  - symmetry. unfold mentioned. destruct (H z (or_introl eq_refl)) as (r & Hr & Hz).
    apply existsb_exists. exists r. split; [exact Hr|]. apply existsb_exists. exists z. split; [exact Hz|apply Z.eqb_refl].
Qed.

(* ---------- numbers outside the machine types ---------- *)
Lemma take_parse_bad p pre z post n :
  Forall (fun y => p (TInt y) = Ok y) pre -> (List.length pre < n)%nat -> p (TInt z) = Panic ->
  take_parse n p (map TInt pre ++ TInt z :: post) = Panic.
Proof.
  intros Hp. revert n. induction Hp as [|y pre Hy _ IH]; intros n Hn Hz.
  - destruct n as [|n]; [cbn in Hn; lia|]. cbn [map app take_parse]. now rewrite Hz.
  - destruct n as [|n]; [cbn in Hn; lia|]. cbn [map app take_parse]. rewrite Hy. cbn [bind].
    rewrite IH by (cbn in Hn; lia || exact Hz). reflexivity.
Qed.
Lemma parse_i32_out z : ~ i32 z -> parse_i32 (TInt z) = Panic.
Proof.
  unfold i32, parse_i32, in_i32. intros H.
  destruct (Z.leb_spec i32_min z), (Z.leb_spec z i32_max); cbn [andb]; try reflexivity. lia.
Qed.
Lemma customer_line_out_of_range ll pre z post :
  Forall i32 pre -> (List.length pre < 7)%nat -> ~ i32 z ->
  read_customer7 (lex_words (tok_int true) (num_line ll (pre ++ z :: post))) = Panic.
Proof.
  intros Hp Hl Hz. rewrite lex_num_line0 by now left. rewrite map_app. cbn [map]. unfold read_customer7.
  rewrite take_parse_bad; [reflexivity| |exact Hl|now apply parse_i32_out].
  eapply Forall_impl; [|exact Hp]. intros y Hy. now apply parse_i32_ok.
Qed.
Lemma tsplib_saturates z : parse_int (lex_tsp_word (canon_str z)) = Ok (clamp_i32 z).
Proof. now rewrite lex_tsp_canon. Qed.

(* ---------- every way f64::from_str reads an integer: sign, leading zeros ---------- *)
Lemma canon_digits_all s v : canon_digits s = Some v -> all_digits s = Some v.
Proof.
  unfold canon_digits, all_digits. destruct (span_digits s) as [[|d [|d2 ds]] [|c r]]; try discriminate.
  - intros [= <-]. reflexivity.
  - destruct (d =? 0); [discriminate|]. auto.
Qed.
Lemma canon_int_parse s v : canon_int s = Some v -> parse_int_str true s = Some v.
Proof.
  unfold canon_int, parse_int_str. destruct s as [|c r]; [discriminate|].
  destruct (is_minus c) eqn:Em.
  - assert (is_plus c = false) as -> by (unfold is_plus, is_minus in *; apply Ascii.eqb_eq in Em; now subst).
    cbn [andb]. destruct (canon_digits r) as [v'|] eqn:E; [|discriminate]. rewrite (canon_digits_all _ _ E).
    destruct (v' =? 0); [discriminate|]. now intros [= <-].
  - cbn [andb]. intros E. destruct (is_plus c) eqn:Ep.
    + exfalso. unfold canon_digits in E. cbn [span_digits] in E.
      replace (digit_val c) with (@None Z) in E; [discriminate|].
      unfold is_plus in Ep. apply Ascii.eqb_eq in Ep. now subst.
    + now apply canon_digits_all.
Qed.
Lemma parse_number_digits k a : 0 <= a ->
  exists nd, parse_number (repeat "0"%char k ++ dec_str a) = Some (a, nd, O, 0).
Proof.
  intros Ha. unfold parse_number, dec_str. rewrite zeros_chars, <- map_app, <- (app_nil_r (map _ _)).
  rewrite span_digits_app; [|apply Forall_app; split; [apply dig_zeros|now apply digs_dig]|exact I].
  assert (V : val_digits ((repeat 0 k ++ digs a) ++ []) = a).
  { rewrite app_nil_r. change (F 0 (repeat 0 k ++ digs a) = a). rewrite F_app, F_zeros. cbn [Z.mul]. now apply digs_val. }
  destruct ((repeat 0 k ++ digs a) ++ []) as [|x xs] eqn:E.
  - rewrite app_nil_r in E. apply app_eq_nil in E. destruct E as [_ E]. destruct (digs_shape a Ha) as (? & ? & E' & _). congruence.
  - rewrite V. eexists. reflexivity.
Qed.
Lemma dec_token_int neg a nd : dec_token neg a nd 0 0 = TDec (sgz neg a) 0 \/ (a = 0 /\ dec_token neg a nd 0 0 = TDec 0 0).
Proof.
  unfold dec_token. cbn [Z.of_nat Z.sub Z.leb Z.compare Z.ltb]. destruct (Z.eqb_spec a 0) as [->|H]; [right; auto|left].
  rewrite Z.mul_1_r. reflexivity.
Qed.
Lemma float_reads_int st z : i32 z -> parse_int (lex_tsp_word (print_int st z)) = Ok z.
Proof.
  intros Hz. unfold lex_tsp_word. destruct (print_int_plain st z) as ((Hne & _) & _ & Hc).
  rewrite not_colon_str by assumption.
  destruct (canon_int (print_int st z)) as [v|] eqn:Ec.
  - apply canon_int_parse in Ec. pose proof (tok_int_print true st z (or_introl eq_refl)) as T. unfold tok_int in T.
    rewrite Ec in T. inversion T; subst. cbn [parse_int]. now rewrite clamp_id.
  - assert (R : forall neg a, 0 <= a -> a < 2 ^ 33 -> forall nd, parse_int (dec_token neg a nd 0 0) = Ok (clamp_i32 (sgz neg a))).
    { intros neg a Ha Hb nd. destruct (dec_token_int neg a nd) as [->|[-> ->]].
      - cbn [parse_int]. pose proof (f64_round_exact (sgz neg a) 0) as Fx. cbn [Z.of_nat Z.pow] in Fx. rewrite Z.mul_1_r in Fx.
        rewrite Fx; [reflexivity|]. destruct neg; cbn [sgz]; lia.
      - cbn [parse_int]. now destruct neg. }
    assert (Hb : Z.abs z < 2 ^ 33) by (unfold i32, i32_min, i32_max in Hz; change (2 ^ 33) with 8589934592; lia).
    unfold print_int, parse_float_str in *. destruct (Z.ltb_spec z 0) as [L|L].
    + cbn [app strip_sign]. change (is_minus "-") with true. cbn iota.
      destruct (parse_number_digits (ns_zeros st) (Z.abs z) ltac:(lia)) as [nd ->].
      rewrite R by lia. cbn [sgz]. rewrite clamp_id; [f_equal; lia|]. replace (- Z.abs z) with z by lia. exact Hz.
    + destruct (ns_plus st).
      * cbn [app strip_sign]. change (is_minus "+") with false. change (is_plus "+") with true. cbn iota.
        destruct (parse_number_digits (ns_zeros st) (Z.abs z) ltac:(lia)) as [nd ->].
        rewrite R by lia. cbn [sgz]. rewrite clamp_id; [f_equal; lia|]. replace (Z.abs z) with z by lia. exact Hz.
      * cbn [app] in *.
        assert (exists d r, dig d /\ repeat "0"%char (ns_zeros st) ++ dec_str (Z.abs z) = digit_char d :: r) as (d & r & Hd & E).
        { destruct (ns_zeros st) as [|k].
          - cbn [repeat app]. apply dec_str_first. lia.
          - exists 0, (repeat "0"%char k ++ dec_str (Z.abs z)). split; [unfold dig; lia|reflexivity]. }
        destruct (first_digit d r Hd) as [_ C2]. rewrite <- E in C2. unfold parse_float_str in C2. rewrite C2.
        destruct (parse_number_digits (ns_zeros st) (Z.abs z) ltac:(lia)) as [nd ->].
        rewrite R by lia. cbn [sgz]. rewrite clamp_id; [f_equal; lia|]. replace (Z.abs z) with z by lia. exact Hz.
Qed.

(* ---------- short decimals: the double rounds like the decimal ---------- *)
(* the double of a SHORT decimal rounds like the decimal itself: with at most 6 fraction digits the decimal is, unless it is
   exactly a tie (then it is a double), at least 10^-6 > 2^-20 away from the tie, more than the error of the double *)
Lemma f64_round_abs_short n d : 0 <= n -> 0 < d <= 10 ^ 6 -> n < 2 ^ 33 * d ->
  f64_round_abs n d = (2 * n + d) / (2 * d).
Proof.
  intros Hn Hd Hb. unfold f64_round_abs.
  destruct (Z.ltb_spec (4 * n) d) as [L|L].
  - symmetry. apply Z.div_small. lia.
  - destruct (binade 35 0 (4 * n) d) as [j|] eqn:E.
    2:{ exfalso. apply binade_none in E; lia. }
    apply binade_some in E. cbv zeta. set (s := 54 - j). assert (Hs : 20 <= s) by (subst s; lia).
    set (T := 2 ^ s). assert (HT : 2 ^ 20 <= T) by (subst T; apply Z.pow_le_mono_r; lia).
    change (2 ^ 20) with 1048576 in HT. change (10 ^ 6) with 1000000 in Hd.
    replace (2 ^ (s + 1)) with (2 * T) by (subst T; rewrite Z.pow_add_r by lia; ring).
    set (M := rne_div (n * T) d).
    pose proof (rne_div_nearest (n * T) d ltac:(lia)) as Hnear. fold M in Hnear.
    set (r := (2 * n + d) / (2 * d)).
    pose proof (Z.div_mod (2 * n + d) (2 * d) ltac:(lia)) as Er. pose proof (Z.mod_pos_bound (2 * n + d) (2 * d) ltac:(lia)) as Br.
    fold r in Er. set (t := (2 * n + d) mod (2 * d)) in *.
    assert (Hr0 : 0 <= r) by (subst r; apply Z.div_pos; lia).
    symmetry. apply (Z.div_unique _ _ r ((2 * M + T) - 2 * T * r)); [|ring].
    left. destruct (Z.eq_dec t 0) as [Et|Et].
    + (* exact tie: n * T is a multiple of d, the double is exact *)
      assert (ET : exists h, T = 2 * h /\ 0 < h).
      { exists (2 ^ (s - 1)). subst T. split; [|apply Z.pow_pos_nonneg; lia].
        replace s with (1 + (s - 1)) at 1 by lia. rewrite Z.pow_add_r by lia. reflexivity. }
      destruct ET as (h & Eh & Hh).
      assert (EM : M = (2 * r - 1) * h).
      { subst M. replace (n * T) with ((2 * r - 1) * h * d) by (rewrite Eh; nia). apply rne_div_exact. lia. }
      rewrite EM, Eh. nia.
    + assert (A1 : 2 * M * d >= 2 * (n * T) - d) by lia. assert (A2 : 2 * M * d <= 2 * (n * T) + d) by lia.
      split.
      * assert ((2 * M + T) * d >= 2 * T * r * d) by nia. nia.
      * assert ((2 * M + T) * d < (2 * T * r + 2 * T) * d) by nia. nia.
Qed.
Lemma f64_round_short m k : (k <= 6)%nat -> Z.abs m < 2 ^ 33 * 10 ^ Z.of_nat k ->
  f64_round m k = round_half_away m k.
Proof.
  intros Hk Hb. unfold f64_round, round_half_away. cbv zeta. f_equal.
  apply f64_round_abs_short; [lia| |exact Hb].
  split; [apply Z.pow_pos_nonneg; lia|apply Z.pow_le_mono_r; lia].
Qed.
