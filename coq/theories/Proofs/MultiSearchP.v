(* C06, multi-task jobs: the greedy sequential search of eval_multi (Model/ObjectivesX.v + Model/MultiSearch.v) as a program.
   (A) invariants of the search for every start index: what it returns follows one declared permutation, every activity is a
       declared place / window accepted on its shadow tour, at a leg at or behind the start index and strictly behind the leg
       of the activity before it; the cost is the route estimate + the per-step estimates; the loops terminate;
   (B) carrying the returned placement out gives the tour the certificate describes, and that tour is feasible for the
       independent simulation (Spec/Feasible.v);
   (C) where the activities end up in the tour (pure list facts);
   (D) the search may miss feasible combinations (witness). *)
From VRP Require Import Base.Tac Model.Core Spec.Feasible Model.Eval Model.Objectives Model.ObjectivesX Model.MultiSearch
  Proofs.CoreTimeP Proofs.CoreEvalP Proofs.CoreMultiP Proofs.ObjectivesXP.
Require Import Coq.Sorting.Sorted.

(* ================= (A) the search ================= *)
Lemma length_insert_after : forall t idx a, (idx < length t)%nat -> length (insert_after t idx a) = S (length t).
Proof.
  intros t idx a H. unfold insert_after. rewrite app_length. cbn [length]. rewrite firstn_length, skipn_length. lia.
Qed.

Section SearchAtP.
Variable dur : Z -> Z -> Z.
Variable ev : list act -> nat -> act -> option (Z * bool).
Variable est : list act -> nat -> act -> Z.
Variable closed : bool.

Local Notation ganalyze := (ObjectivesX.ganalyze ev est closed).
Local Notation m_services := (ObjectivesX.m_services dur ev est closed).
Local Notation m_loop := (ObjectivesX.m_loop dur ev est closed).
Local Notation m_perms_at := (MultiSearch.m_perms_at dur ev est closed).
Local Notation geval_multi_at := (MultiSearch.geval_multi_at dur ev est closed).
Local Notation multi_sum := (ObjectivesX.multi_sum dur est).
Local Notation steps_valid := (ObjectivesXP.steps_valid dur ev closed).

(* the steps place the sub-jobs `services` in order: each at a leg of its shadow tour that is >= lo, a declared alternative
   accepted by the constraint evaluation; the next one strictly behind *)
Fixpoint steps_incr (lo : nat) (t : list act) (services : list single) (steps : list mstep) : Prop :=
  match services, steps with
  | [], [] => True
  | s :: sr, (idx, pi, a) :: r =>
      (lo <= idx < leg_count closed t)%nat /\ alt_of t s idx pi a /\ ev t idx a = None /\
      steps_incr (S idx) (reschedule dur (insert_after t idx a)) sr r
  | _, _ => False
  end.

Lemma steps_incr_weaken : forall sv lo lo' t steps, (lo' <= lo)%nat -> steps_incr lo t sv steps -> steps_incr lo' t sv steps.
Proof. clear est.
  intros [|s sv] lo lo' t [|[[idx pi] a] r] Hle H; cbn [steps_incr] in *; try exact H.
  destruct H as (H1 & H2 & H3 & H4). repeat split; try assumption; lia.
Qed.

Lemma steps_incr_valid : forall sv lo t steps, steps_incr lo t sv steps -> steps_valid t sv steps.
Proof. clear est.
  induction sv as [|s sv IH]; intros lo t [|[[idx pi] a] r] H; cbn [steps_incr ObjectivesXP.steps_valid] in *; try exact H.
  destruct H as (H1 & H2 & H3 & H4). repeat split; try assumption; [lia|]. apply (IH _ _ _ H4).
Qed.

Lemma m_next_success_app : forall c l s, m_next (m_success c (l ++ [s])) = S (fst (fst s)).
Proof. intros c l s. unfold m_success. cbn [m_next]. rewrite rev_app_distr. reflexivity. Qed.

Lemma m_services_incr : forall rc r t c l steps',
  m_acts (m_services rc t r (m_success c l)) = Some steps' ->
  exists new, steps' = l ++ new /\ steps_incr (m_next (m_success c l)) t r new /\
     m_cost (m_services rc t r (m_success c l)) = Some (c + multi_sum t (map step_of new)).
Proof.
  intros rc. induction r as [|s r IH]; intros t c l steps' H.
  - cbn [ObjectivesX.m_services] in *. cbn [m_acts m_success] in H. inversion H; subst. exists []. rewrite app_nil_r.
    cbn [steps_incr map ObjectivesX.multi_sum m_cost m_success]. split; [reflexivity|]. split; [exact I|]. f_equal. lia.
  - cbn [ObjectivesX.m_services] in *. cbn [m_viol m_success] in *.
    set (skip := m_next (m_success c l)) in *.
    pose proof (ganalyze_inv dur ev est closed t s 0 skip) as Hinv.
    destruct (sc_place (ganalyze t s 0 skip)) as [p|] eqn:Ep.
    + destruct (Hinv p Ep) as (Hb & Halt & Hev & Hcost).
      rewrite Hcost in *. cbn [m_acts m_cost m_success] in *.
      destruct (IH _ _ _ _ H) as (new & E1 & E2 & E3).
      rewrite m_next_success_app in E2. cbn [fst] in E2.
      exists ((sc_index (ganalyze t s 0 skip), pi_of p, act_of_place s p) :: new).
      split; [rewrite E1, <- app_assoc; reflexivity|]. split.
      * cbn [steps_incr]. split; [lia|]. split; [exact Halt|]. split; [exact Hev|exact E2].
      * rewrite E3. cbn [map step_of fst snd ObjectivesX.multi_sum]. f_equal. lia.
    + unfold m_fail in H. cbn [m_acts] in H. discriminate.
Qed.

Lemma m_services_first_incr : forall rc s r t out steps',
  m_acts (m_services rc t (s :: r) (m_nextctx out)) = Some steps' ->
  steps_incr (m_start out) t (s :: r) steps' /\
  m_cost (m_services rc t (s :: r) (m_nextctx out)) = Some (rc + multi_sum t (map step_of steps')).
Proof.
  intros rc s r t out steps' H. cbn [ObjectivesX.m_services] in *. cbn [m_viol m_nextctx m_next m_acts m_cost] in *.
  set (skip := m_start out) in *.
  pose proof (ganalyze_inv dur ev est closed t s 0 skip) as Hinv.
  destruct (sc_place (ganalyze t s 0 skip)) as [p|] eqn:Ep.
  - destruct (Hinv p Ep) as (Hb & Halt & Hev & Hcost).
    rewrite Hcost in *. cbn [app] in *.
    destruct (m_services_incr _ _ _ _ _ _ H) as (new & E1 & E2 & E3). subst steps'. cbn [app].
    change [(sc_index (ganalyze t s 0 skip), fst (fst (fst (fst p))), act_of_place s p)]
      with ([] ++ [(sc_index (ganalyze t s 0 skip), fst (fst (fst (fst p))), act_of_place s p)]) in E2.
    rewrite m_next_success_app in E2. cbn [fst] in E2.
    split.
    + cbn [steps_incr]. split; [lia|]. split; [exact Halt|]. split; [exact Hev|exact E2].
    + rewrite E3. cbn [map step_of fst snd ObjectivesX.multi_sum]. f_equal. lia.
  - unfold m_fail in H. cbn [m_acts] in H. discriminate.
Qed.

(* what one sequence / one permutation / the whole search returns, relative to the start index of the search *)
Definition pincr (start : nat) (rc : Z) (t : list act) (sv : list single) (steps : list mstep) (c : Z) : Prop :=
  steps_incr start t sv steps /\ c = rc + multi_sum t (map step_of steps).
Definition pperm_incr (start : nat) (rc : Z) (t : list act) (perms : list (list single)) (steps : list mstep) (c : Z) : Prop :=
  (exists sv, In sv perms /\ steps_incr start t sv steps) /\ c = rc + multi_sum t (map step_of steps).
Definition low (start : nat) (m : mctx) : Prop := (start <= m_start m)%nat.

Lemma good_services_incr : forall start rc t sv out, low start out ->
  good_gen (pincr start rc t sv) (m_services rc t sv (m_nextctx out)).
Proof.
  intros start rc t [|s r] out Hlow steps c Ha Hc.
  - cbn in Ha. discriminate.
  - destruct (m_services_first_incr _ _ _ _ _ _ Ha) as [H1 H2]. split; [|congruence].
    apply (steps_incr_weaken _ (m_start out)); [exact Hlow|exact H1].
Qed.

Lemma low_promote : forall start l r, low start r -> low start (fst (m_promote l r)).
Proof. intros start l r H. unfold m_promote, low in *. cbn [fst m_start]. lia. Qed.

Lemma good_loop_incr : forall start rc t sv jac fuel out, low start out ->
  good_gen (pincr start rc t sv) out -> good_gen (pincr start rc t sv) (fst (m_loop fuel rc t sv jac out)).
Proof.
  intros start rc t sv jac. induction fuel as [|f IH]; intros out Hlow Ho; cbn [ObjectivesX.m_loop fst]; [exact Ho|].
  destruct (m_is_failure out jac); [exact Ho|].
  pose proof (good_promote _ _ _ (good_services_incr start rc t sv out Hlow) Ho) as Hp.
  pose proof (low_promote start (m_services rc t sv (m_nextctx out)) out Hlow) as Hl.
  destruct (m_promote (m_services rc t sv (m_nextctx out)) out) as [res brk]. cbn [fst] in Hp, Hl.
  destruct brk; [exact Hp|apply IH; assumption].
Qed.

Lemma good_perms_at : forall start rc t jac all perms acc,
  incl perms all -> good_gen (pperm_incr start rc t all) acc ->
  good_gen (pperm_incr start rc t all) (fst (m_perms_at start rc t jac perms acc)).
Proof.
  intros start rc t jac all. induction perms as [|sv r IH]; intros acc Hin Ha; cbn [MultiSearch.m_perms_at fst]; [exact Ha|].
  pose proof (good_loop_incr start rc t sv jac (S (S (length t))) (m_new None start) ltac:(unfold low; cbn; lia)
                ltac:(intros s c H; discriminate)) as Hl.
  destruct (m_loop (S (S (length t))) rc t sv jac (m_new None start)) as [perm oof]. cbn [fst] in Hl.
  destruct oof; [exact Ha|].
  assert (Hl' : good_gen (pperm_incr start rc t all) perm).
  { intros steps c H1 H2. destruct (Hl steps c H1 H2) as [Hv Hc]. split; [|exact Hc]. exists sv. split; [apply Hin; left; reflexivity|exact Hv]. }
  pose proof (good_promote _ _ _ Hl' Ha) as Hp.
  destruct (m_promote perm acc) as [res brk]. cbn [fst] in Hp.
  destruct brk; [exact Hp|]. apply IH; [intros x Hx; apply Hin; right; exact Hx|exact Hp].
Qed.

Theorem geval_multi_at_spec : forall start rc t perms cost steps,
  geval_multi_at start rc t perms = GSuccess cost steps ->
  (exists sv, In sv perms /\ steps_incr start t sv steps) /\ cost = rc + multi_sum t (map step_of steps).
Proof.
  intros start rc t perms cost steps H. unfold MultiSearch.geval_multi_at in H.
  pose proof (good_perms_at start rc t (job_activity_count closed t) perms perms (m_new None start) (incl_refl _)
                ltac:(intros s c Ha; discriminate)) as Hp.
  destruct (m_perms_at start rc t (job_activity_count closed t) perms (m_new None start)) as [result oof]. cbn [fst] in Hp.
  destruct oof; [discriminate|].
  unfold m_is_success in H.
  destruct (m_viol result); [destruct p; discriminate|].
  destruct (m_cost result) as [c|] eqn:Ec; [|discriminate].
  destruct (m_acts result) as [l|] eqn:Ea; [|discriminate].
  inversion H; subst. apply Hp; assumption.
Qed.

(* the start index 0 is the search of Model/ObjectivesX.v *)
Lemma m_perms_at_zero : forall rc t jac perms acc,
  m_perms_at 0 rc t jac perms acc = ObjectivesX.m_perms dur ev est closed rc t jac perms acc.
Proof.
  intros rc t jac. induction perms as [|sv r IH]; intros acc; cbn [MultiSearch.m_perms_at ObjectivesX.m_perms]; [reflexivity|].
  destruct (m_loop (S (S (length t))) rc t sv jac (m_new None 0)) as [perm oof]. destruct oof; [reflexivity|].
  destruct (m_promote perm acc) as [res brk]. destruct brk; [reflexivity|apply IH].
Qed.

Theorem geval_multi_at_zero : forall rc t perms,
  geval_multi_at 0 rc t perms = ObjectivesX.geval_multi dur ev est closed rc t perms.
Proof. intros. unfold MultiSearch.geval_multi_at, ObjectivesX.geval_multi. rewrite m_perms_at_zero. reflexivity. Qed.

(* termination *)
Lemma m_perms_at_fuel : forall start rc t jac perms acc,
  (jac <= length t)%nat -> snd (m_perms_at start rc t jac perms acc) = false.
Proof.
  intros start rc t jac. induction perms as [|sv r IH]; intros acc Hj; cbn [MultiSearch.m_perms_at]; [reflexivity|].
  pose proof (m_loop_fuel dur ev est closed rc t sv jac (S (S (length t))) (m_new None start) ltac:(cbn [m_start m_new]; lia)) as H.
  destruct (m_loop (S (S (length t))) rc t sv jac (m_new None start)) as [perm oof]. cbn [snd] in H. subst oof.
  destruct (m_promote perm acc) as [res brk]. destruct brk; [reflexivity|apply IH; exact Hj].
Qed.

Theorem geval_multi_at_terminates : forall start rc t perms, geval_multi_at start rc t perms <> GOutOfFuel.
Proof.
  intros start rc t perms. unfold MultiSearch.geval_multi_at.
  pose proof (m_perms_at_fuel start rc t (job_activity_count closed t) perms (m_new None start)
                ltac:(unfold job_activity_count; destruct closed; lia)) as H.
  destruct (m_perms_at start rc t (job_activity_count closed t) perms (m_new None start)) as [result oof].
  cbn [snd] in H. subst oof.
  destruct (m_is_success result); [discriminate|].
  destruct (m_viol result) as [[code st]|]; discriminate.
Qed.

(* ---------- the shape of the returned list ---------- *)
Fixpoint incr_idx (lo n : nat) (st : list (nat * act)) : Prop :=
  match st with
  | [] => True
  | (idx, _) :: r => (lo <= idx < n)%nat /\ incr_idx (S idx) (S n) r
  end.

Lemma length_resched_from : forall r l d, length (resched_from dur l d r) = length r.
Proof. induction r as [|a r IH]; intros; cbn [resched_from length]; [reflexivity|]. rewrite IH. reflexivity. Qed.
Lemma length_reschedule : forall t, length (reschedule dur t) = length t.
Proof. intros [|s r]; cbn [reschedule length]; [reflexivity|]. rewrite length_resched_from. reflexivity. Qed.

Lemma steps_incr_idx : forall sv lo t steps, steps_incr lo t sv steps -> incr_idx lo (length t) (map step_of steps).
Proof. clear est.
  induction sv as [|s sv IH]; intros lo t [|[[idx pi] a] r] H; cbn [steps_incr map step_of fst snd incr_idx] in *; try exact I; try contradiction.
  destruct H as (H1 & _ & _ & H4). pose proof (leg_count_le closed t). split; [lia|].
  apply IH in H4. rewrite length_reschedule, length_insert_after in H4 by lia. exact H4.
Qed.

Lemma steps_incr_jobs : forall sv lo t steps, steps_incr lo t sv steps ->
  map (fun s => a_job (snd s)) (map step_of steps) = map s_id sv /\ map (fun s => a_dem (snd s)) (map step_of steps) = map s_dem sv.
Proof.
  induction sv as [|s sv IH]; intros lo t [|[[idx pi] a] r] H; cbn [steps_incr map step_of fst snd] in *; try contradiction; [split; reflexivity|].
  destruct H as (_ & (pl & w & _ & _ & Ea) & _ & H4). destruct (IH _ _ _ H4) as [E1 E2]. rewrite E1, E2. subst a. split; reflexivity.
Qed.
End SearchAtP.

(* ================= (C) where the activities end up ================= *)
Lemma nth_error_insert_before : forall (t : list act) idx a i, (idx < length t)%nat -> (i <= idx)%nat ->
  nth_error (insert_after t idx a) i = nth_error t i.
Proof.
  intros t idx a i Hidx Hi. unfold insert_after. rewrite nth_error_app1 by (rewrite firstn_length; lia).
  rewrite <- (firstn_skipn (S idx) t) at 2. rewrite nth_error_app1 by (rewrite firstn_length; lia). reflexivity.
Qed.

Lemma nth_error_insert_at : forall (t : list act) idx a, (idx < length t)%nat -> nth_error (insert_after t idx a) (S idx) = Some a.
Proof.
  intros t idx a Hidx. unfold insert_after. rewrite nth_error_app2 by (rewrite firstn_length; lia).
  rewrite firstn_length. replace (S idx - Nat.min (S idx) (length t))%nat with 0%nat by lia. reflexivity.
Qed.

Lemma incr_idx_weaken : forall st lo lo' n, (lo' <= lo)%nat -> incr_idx lo n st -> incr_idx lo' n st.
Proof. intros [|[idx a] r] lo lo' n Hle H; cbn [incr_idx] in *; [exact I|]. destruct H as [H1 H2]. split; [lia|exact H2]. Qed.

Lemma incr_idx_lower : forall st lo n, incr_idx lo n st -> Forall (fun s => (lo <= fst s)%nat) st.
Proof.
  induction st as [|[idx a] r IH]; intros lo n H; cbn [incr_idx] in *; constructor.
  - cbn [fst]. lia.
  - destruct H as [H1 H2]. apply (IH lo (S n)). apply (incr_idx_weaken r (S idx)); [lia|exact H2].
Qed.

Lemma incr_idx_sorted : forall st lo n, incr_idx lo n st -> StronglySorted lt (map fst st).
Proof.
  induction st as [|[idx a] r IH]; intros lo n H; cbn [incr_idx map fst] in *; constructor.
  - destruct H as [_ H]. exact (IH _ _ H).
  - destruct H as [_ H]. apply incr_idx_lower in H. rewrite Forall_map. eapply Forall_impl; [|exact H]. cbn. intros x Hx. lia.
Qed.

Lemma insert_all_positions : forall st lo t, incr_idx lo (length t) st ->
  length (insert_all t st) = (length t + length st)%nat /\
  (forall i, (i <= lo)%nat -> nth_error (insert_all t st) i = nth_error t i) /\
  (forall k idx a, nth_error st k = Some (idx, a) -> nth_error (insert_all t st) (S idx) = Some a).
Proof.
  induction st as [|[idx a] r IH]; intros lo t H; cbn [incr_idx insert_all length] in *.
  - split; [lia|]. split; [reflexivity|]. intros [|k] idx a Hk; discriminate.
  - destruct H as [H1 H2]. rewrite <- (length_insert_after t idx a) in H2 by lia.
    destruct (IH _ _ H2) as (L & P & Q). rewrite length_insert_after in L by lia.
    split; [lia|]. split.
    + intros i Hi. rewrite P by lia. apply nth_error_insert_before; lia.
    + intros [|k] idx' a' Hk; cbn [nth_error] in Hk.
      * inversion Hk; subst. rewrite P by lia. apply nth_error_insert_at. lia.
      * exact (Q k idx' a' Hk).
Qed.

Section CoreEq.
Variable dur : Z -> Z -> Z.
Lemma core_resched_from : forall r l d, map act_core (resched_from dur l d r) = map act_core r.
Proof. induction r as [|a r IH]; intros; cbn [resched_from map]; [reflexivity|]. rewrite IH. reflexivity. Qed.
Lemma core_reschedule : forall t, map act_core (reschedule dur t) = map act_core t.
Proof. intros [|s r]; cbn [reschedule map]; [reflexivity|]. rewrite core_resched_from. reflexivity. Qed.
Lemma core_insert_after : forall t1 t2 idx a, map act_core t1 = map act_core t2 ->
  map act_core (insert_after t1 idx a) = map act_core (insert_after t2 idx a).
Proof.
  intros t1 t2 idx a H. unfold insert_after. rewrite !map_app. cbn [map]. rewrite <- !firstn_map, <- !skipn_map, H. reflexivity.
Qed.
Lemma core_apply_steps : forall st t1 t2, map act_core t1 = map act_core t2 ->
  map act_core (apply_steps dur t1 st) = map act_core (insert_all t2 st).
Proof.
  induction st as [|[idx a] r IH]; intros t1 t2 H; cbn [apply_steps insert_all]; [exact H|].
  apply IH. rewrite core_reschedule. apply core_insert_after. exact H.
Qed.
End CoreEq.

(* ================= (B) the placement carried out is feasible for the simulation ================= *)
Lemma steps_valid_cert : forall w cl sv t steps,
  steps_valid (wdur w) (eval_activity_multi w) cl t sv steps ->
  cert_steps w t (map step_of steps) = (true, apply_steps (wdur w) t (map step_of steps)).
Proof.
  intros w cl. induction sv as [|s sv IH]; intros t [|[[idx pi] a] r] H; cbn [steps_valid map step_of fst snd cert_steps apply_steps] in *;
    try reflexivity; try contradiction.
  destruct H as (H1 & _ & H3 & H4). pose proof (leg_count_le cl t).
  replace (idx <? length t)%nat with true by (symmetry; apply Nat.ltb_lt; lia). rewrite H3. apply IH. exact H4.
Qed.

Lemma simple_dzero : simple_demand dzero.
Proof. unfold simple_demand, dzero. cbn. lia. Qed.

Lemma resolve_perms_demand : forall subs perms sv, Forall (fun s => simple_demand (s_dem s)) subs ->
  In sv (resolve_perms subs perms) -> Forall (fun s => simple_demand (s_dem s)) sv.
Proof.
  intros subs perms sv Hs Hin. unfold resolve_perms in Hin. apply in_map_iff in Hin as (perm & E & _). subst sv.
  apply Forall_map_iff. apply Forall_forall. intros i _.
  destruct (Nat.lt_ge_cases i (length subs)) as [Hi|Hi].
  - rewrite Forall_forall in Hs. apply Hs. apply nth_In. exact Hi.
  - rewrite nth_overflow by lia. exact simple_dzero.
Qed.

Lemma steps_demand : forall (st : list (nat * act)) (sv : list single),
  map (fun s => a_dem (snd s)) st = map s_dem sv -> Forall (fun s => simple_demand (s_dem s)) sv ->
  Forall (fun s => simple_demand (a_dem (snd s))) st.
Proof.
  induction st as [|x st IH]; intros [|s sv] E H; cbn [map] in E; try discriminate; constructor.
  - inversion E as [[E1 E2]]. inversion H; subst. rewrite E1. assumption.
  - inversion E as [[E1 E2]]. inversion H; subst. apply (IH sv); assumption.
Qed.

(* the specification of the whole evaluation of a Multi job *)
Definition multi_est (w : world) (kind : Z) : list act -> nat -> act -> Z :=
  if kind =? 0 then cost_estimate_activity (wdur w) (wdist w) (w_veh w) else leg_estimate (wdist w).
Definition multi_rc (w : world) (t : list act) (kind : Z) : Z := if kind =? 0 then cost_estimate_route (w_veh w) t else 0.

Theorem eval_multi_job_spec : forall w t subs perms pos kind cost steps,
  eval_multi_job w t subs perms pos kind = GSuccess cost steps ->
  (exists sv, In sv (resolve_perms subs perms) /\
     steps_incr (wdur w) (eval_activity_multi w) (closed w) (insertion_start (closed w) t pos) t sv steps) /\
  cost = multi_rc w t kind + multi_sum (wdur w) (multi_est w kind) t (map step_of steps).
Proof.
  intros w t subs perms pos kind cost steps H. unfold eval_multi_job in H.
  destruct (negb (forallb _ subs)); [discriminate|]. destruct (negb (existsb _ subs)); [discriminate|].
  apply geval_multi_at_spec in H. exact H.
Qed.

Theorem eval_multi_job_terminates : forall w t subs perms pos kind, eval_multi_job w t subs perms pos kind <> GOutOfFuel.
Proof.
  intros w t subs perms pos kind. unfold eval_multi_job.
  destruct (negb (forallb _ subs)); [discriminate|]. destruct (negb (existsb _ subs)); [discriminate|].
  apply geval_multi_at_terminates.
Qed.

Theorem eval_multi_job_sound : forall w t subs perms pos kind cost steps,
  t <> [] -> sched_ok (wdur w) t -> (forall d, d_change (a_dem (hd d t)) = 0) ->
  Forall (fun s => simple_demand (s_dem s)) subs ->
  feasible (wdur w) (w_veh w) t = true ->
  eval_multi_job w t subs perms pos kind = GSuccess cost steps ->
  feasible (wdur w) (w_veh w) (apply_steps (wdur w) t (map step_of steps)) = true.
Proof.
  intros w t subs perms pos kind cost steps Hne Hs Hh Hd Hf H.
  apply eval_multi_job_spec in H as [(sv & Hin & Hinc) _].
  pose proof (steps_incr_valid _ _ _ _ _ _ _ Hinc) as Hv.
  pose proof (steps_valid_cert w (closed w) sv t steps Hv) as Hc.
  destruct (steps_incr_jobs _ _ _ _ _ _ _ Hinc) as [_ Hdem].
  apply (cert_steps_sound w (map step_of steps) t _ Hne Hs Hh); [|exact Hf|exact Hc].
  apply (steps_demand _ sv Hdem). apply (resolve_perms_demand subs perms); assumption.
Qed.

(* where the returned activities are in the tour with the placement carried out *)
Theorem eval_multi_job_positions : forall w t subs perms pos kind cost steps,
  eval_multi_job w t subs perms pos kind = GSuccess cost steps ->
  let st := map step_of steps in
  let t' := apply_steps (wdur w) t st in
  let start := insertion_start (closed w) t pos in
  (exists sv, In sv (resolve_perms subs perms) /\ map (fun s => a_job (snd s)) st = map s_id sv) /\
  StronglySorted lt (map fst st) /\ Forall (fun s => (start <= fst s)%nat) st /\
  length t' = (length t + length st)%nat /\
  (forall i, (i <= start)%nat -> option_map act_core (nth_error t' i) = option_map act_core (nth_error t i)) /\
  (forall k idx a, nth_error st k = Some (idx, a) -> option_map act_core (nth_error t' (S idx)) = Some (act_core a)).
Proof.
  intros w t subs perms pos kind cost steps H st t' start.
  apply eval_multi_job_spec in H as [(sv & Hin & Hinc) _]. fold start in Hinc.
  pose proof (steps_incr_idx _ _ _ _ _ _ _ Hinc) as Hidx. fold st in Hidx.
  destruct (steps_incr_jobs _ _ _ _ _ _ _ Hinc) as [Hj _]. fold st in Hj.
  destruct (insert_all_positions st start t Hidx) as (L & P & Q).
  pose proof (core_apply_steps (wdur w) st t t eq_refl) as Hcore. fold t' in Hcore.
  assert (Hnth : forall i, option_map act_core (nth_error t' i) = option_map act_core (nth_error (insert_all t st) i)).
  { intros i. rewrite <- !nth_error_map. rewrite Hcore. reflexivity. }
  split; [exists sv; split; assumption|].
  split; [exact (incr_idx_sorted _ _ _ Hidx)|].
  split; [exact (incr_idx_lower _ _ _ Hidx)|].
  split; [rewrite <- (map_length act_core t'), Hcore, map_length; exact L|].
  split.
  - intros i Hi. rewrite Hnth, P by exact Hi. reflexivity.
  - intros k idx a Hk. rewrite Hnth, (Q k idx a Hk). reflexivity.
Qed.

(* ================= (D) the greedy search may miss feasible combinations ================= *)
(* depot 0, A = 1 (service 20), B = 2, pickup P = 3, delivery D = 4 on a line: 0, 10, 20, 16, 5; distance = duration = |x - y|;
   tour 0 -> A -> B -> 0; D closes at 30.  The cheapest leg for P is A -> B (detour 0); behind it D is late (A is left at 30).
   P in front of A (detour 12) followed by D is feasible, but no sequence of the search puts P there: from start index 0 and 1 the
   cheapest leg is 1, from start index 2 it is 2. *)
Definition miss_line : list Z := [0; 10; 20; 16; 5].
Definition miss_mat : list Z :=
  flat_map (fun x => map (fun y => Z.abs (x - y)) miss_line) miss_line.
Definition miss_world : world := mkWorld 5 miss_mat miss_mat (mkVeh INF 10 0 1 0 0 0) 0 (Some 0) 0.
Definition miss_tour : list act := build_tour miss_world [(1, 1, 20, 0, INF, dzero); (2, 2, 0, 0, INF, dzero)].
Definition miss_subs : list single :=
  [mkSingle 951 [mkPlace (Some 3) 0 [(0, INF)]] (mkDemand 0 1 0 0); mkSingle 952 [mkPlace (Some 4) 0 [(0, 30)]] (mkDemand 0 0 0 1)].
Definition miss_P : act := mkAct 951 3 0 0 INF (mkDemand 0 1 0 0) 0 0.
Definition miss_D : act := mkAct 952 4 0 0 30 (mkDemand 0 0 0 1) 0 0.

Theorem multi_search_misses_feasible_combination :
  feasible (wdur miss_world) (w_veh miss_world) miss_tour = true /\
  (exists code st, eval_multi_job miss_world miss_tour miss_subs [[0; 1]%nat] PAny 0 = GFailure code st) /\
  feasible (wdur miss_world) (w_veh miss_world) (insert_all miss_tour [(0%nat, miss_P); (1%nat, miss_D)]) = true /\
  brute_any miss_world miss_tour (resolve_perms miss_subs [[0; 1]%nat]) 0 = true.
Proof. vm_compute. split; [reflexivity|]. split; [eauto|]. split; reflexivity. Qed.

(* non-vacuity of the soundness statement: the search succeeds on a feasible tour with a shipment already on board *)
Definition nv_multi_world : world := mkWorld 5 miss_mat miss_mat (mkVeh 200 3 0 1 0 0 0) 0 (Some 0) 0.
Definition nv_multi_tour : list act :=
  build_tour nv_multi_world [(1, 1, 0, 0, 100, mkDemand 0 2 0 0); (2, 2, 0, 0, 100, mkDemand 0 0 0 2)].
Definition nv_multi_subs : list single :=
  [mkSingle 951 [mkPlace (Some 3) 0 [(0, 100)]] (mkDemand 0 1 0 0); mkSingle 952 [mkPlace (Some 4) 0 [(0, 100)]; mkPlace (Some 2) 0 [(0, 100)]] (mkDemand 0 0 0 1)].

Theorem multi_search_nonvacuous :
  nv_multi_tour <> [] /\ sched_ok (wdur nv_multi_world) nv_multi_tour /\ (forall d, d_change (a_dem (hd d nv_multi_tour)) = 0) /\
  Forall (fun s => simple_demand (s_dem s)) nv_multi_subs /\
  feasible (wdur nv_multi_world) (w_veh nv_multi_world) nv_multi_tour = true /\
  exists cost steps, eval_multi_job nv_multi_world nv_multi_tour nv_multi_subs [[0; 1]%nat; [1; 0]%nat] PAny 0 = GSuccess cost steps /\
                     length steps = 2%nat.
Proof.
  split; [discriminate|]. split; [apply sched_ok_reschedule|]. split; [intros d; reflexivity|].
  split; [repeat constructor; unfold simple_demand; cbn; lia|]. split; [vm_compute; reflexivity|].
  vm_compute. eauto.
Qed.

(* ================= (E) an insertion never reorders the activities already in the tour ================= *)
(* the jobs of a lock with order `sequence` / `any` are only bound to their vehicle by locked_jobs.rs (LockingConstraint creates a
   Rule for `strict` only); their relative ORDER in the tour cannot be changed by an insertion of a foreign job, accepted or not *)
Definition served_of (jobs : list Z) (t : list act) : list Z := filter (fun j => existsb (Z.eqb j) jobs) (map a_job t).

Lemma served_of_app : forall jobs A B, served_of jobs (A ++ B) = served_of jobs A ++ served_of jobs B.
Proof. intros. unfold served_of. rewrite map_app, filter_app. reflexivity. Qed.

Theorem insertion_keeps_locked_order : forall jobs t idx x,
  existsb (Z.eqb (a_job x)) jobs = false -> served_of jobs (insert_after t idx x) = served_of jobs t.
Proof.
  intros jobs t idx x Hx. unfold insert_after.
  rewrite <- (firstn_skipn (S idx) t) at 3. rewrite !served_of_app. f_equal.
  unfold served_of at 1. cbn [map filter]. rewrite Hx. reflexivity.
Qed.

Theorem placement_keeps_locked_order : forall jobs st t,
  Forall (fun s => existsb (Z.eqb (a_job (snd s))) jobs = false) st -> served_of jobs (insert_all t st) = served_of jobs t.
Proof.
  induction st as [|[idx a] r IH]; intros t H; cbn [insert_all]; [reflexivity|].
  inversion H as [|? ? Ha Hr]; subst. cbn [snd] in Ha. rewrite (IH _ Hr). apply insertion_keeps_locked_order. exact Ha.
Qed.
