(* Lemmas about the round-five rules of the end-to-end checker (Spec/ValidY.v): recharge stations and shared reload resources.
   Each executable rule is sound and complete for its declarative statement; conservativity with respect to Spec/Valid.v /
   ValidTD.v / ValidX.v (a problem without the feature, a document without recharge activities); concrete documents. *)
From VRP Require Import Base.Tac Model.Core Spec.Feasible Spec.Intervals Proofs.IntervalsP Spec.Valid Proofs.ValidP Spec.ValidTD
  Spec.ValidX Proofs.ValidXP Spec.ValidY.
From VRP Require Model.Routing.

(* ================================================================== 1. recharge stations: accounting *)
Lemma recharges_ok_iff Y t : recharges_ok Y t = true <-> RechargesDefined Y t.
Proof. unfold recharges_ok, RechargesDefined. apply gassign_b_iff. Qed.

Lemma recharge_viols_nil Y S : recharge_viols Y S = [] <-> forall t, In t (sl_tours S) -> RechargesDefined Y t.
Proof.
  unfold recharge_viols. rewrite mapi_nil_iff. split.
  - intros H t Ht. apply In_nth_error in Ht. destruct Ht as [n Hn]. specialize (H n t Hn). cbv beta in H.
    rewrite if_nil_iff in H. apply recharges_ok_iff. exact H.
  - intros H n t Hn. rewrite if_nil_iff. apply recharges_ok_iff. apply H. eapply nth_error_In. exact Hn.
Qed.

Lemma recharges_at_most_defined Y t : RechargesDefined Y t -> (length (recharge_acts t) <= length (stations_of Y t))%nat.
Proof. apply GAssign_length. Qed.

(* a shift without recharges defines no station: no recharge activity may appear *)
Lemma recharges_none_defined Y t : recharge_of Y t = None -> RechargesDefined Y t -> recharge_acts t = [].
Proof.
  intros Hn H. apply recharges_at_most_defined in H. unfold stations_of in H. rewrite Hn in H. cbn in H.
  destruct (recharge_acts t); [reflexivity|cbn in H; lia].
Qed.

(* ---- documents without recharge activities *)
Lemma flat_acts_kinds s k : forall l arr a, In a (flat_acts s k arr l) -> exists sa, In sa l /\ fa_kind a = sa_kind sa.
Proof.
  induction l as [|x r IH]; intros arr a Ha; cbn [flat_acts] in Ha; [destruct Ha|].
  destruct (sa_time x) as [[b e]|]; cbn [In] in Ha.
  - destruct Ha as [<-|Ha]; [exists x; split; [left; reflexivity|reflexivity]|].
    destruct (IH _ _ Ha) as [sa [H1 H2]]. exists sa. split; [right; exact H1|exact H2].
  - destruct Ha as [<-|Ha]; [exists x; split; [left; reflexivity|reflexivity]|].
    destruct (IH _ _ Ha) as [sa [H1 H2]]. exists sa. split; [right; exact H1|exact H2].
Qed.

Lemma mapi_from_In {A B} (f : Z -> A -> B) : forall l k y, In y (mapi_from k f l) -> exists i x, In x l /\ y = f i x.
Proof.
  induction l as [|x r IH]; intros k y Hy; cbn [mapi_from] in Hy; [destruct Hy|].
  destruct Hy as [<-|Hy]; [exists k, x; split; [left; reflexivity|reflexivity]|].
  destruct (IH _ _ Hy) as [i [x' [H1 H2]]]. exists i, x'. split; [right; exact H1|exact H2].
Qed.

Lemma flat_tour_kinds t a : In a (flat_tour t) -> exists s sa, In s (to_stops t) /\ In sa (ss_acts s) /\ fa_kind a = sa_kind sa.
Proof.
  unfold flat_tour. intros Ha. apply in_concat in Ha. destruct Ha as [l [Hl Ha]].
  unfold mapi in Hl. apply mapi_from_In in Hl. destruct Hl as [i [s [Hs ->]]].
  unfold flat_stop in Ha. apply flat_acts_kinds in Ha. destruct Ha as [sa [H1 H2]]. exists s, sa. auto.
Qed.

Definition no_rc_tour (t : stour) : bool :=
  forallb (fun s => forallb (fun a => negb (is_rc_kind (sa_kind a))) (ss_acts s)) (to_stops t).

Lemma filter_nil_iff {A} (p : A -> bool) l : filter p l = [] <-> forall x, In x l -> p x = false.
Proof.
  induction l as [|y r IH]; cbn [filter]; [split; [intros _ x []|reflexivity]|].
  destruct (p y) eqn:E.
  - split; [discriminate|]. intros H. specialize (H y (or_introl eq_refl)). congruence.
  - rewrite IH. split; [intros H x [<-|Hx]; auto|intros H x Hx; apply H; right; exact Hx].
Qed.

Lemma no_rc_tour_acts t : no_rc_tour t = true -> recharge_acts t = [].
Proof.
  unfold no_rc_tour, recharge_acts. intros H. apply filter_nil_iff. intros a Ha.
  apply flat_tour_kinds in Ha. destruct Ha as [s [sa [Hs [Hsa ->]]]].
  rewrite forallb_forall in H. specialize (H s Hs). rewrite forallb_forall in H. specialize (H sa Hsa).
  apply negb_true_iff in H. exact H.
Qed.

Lemma map_id_in {A} (f : A -> A) l : (forall x, In x l -> f x = x) -> map f l = l.
Proof. intros H. induction l as [|y r IH]; cbn [map]; [reflexivity|]. rewrite H, IH; [reflexivity| |left; reflexivity]. intros x Hx. apply H. right. exact Hx. Qed.

Lemma mask_tour_id t : no_rc_tour t = true -> mask_tour t = t.
Proof.
  unfold no_rc_tour. intros H. destruct t as [v ty sh stops st xl]. unfold mask_tour. cbn [to_stops to_vehicle to_type to_shift to_stat to_xload] in *.
  f_equal. apply map_id_in. intros s Hs. rewrite forallb_forall in H. specialize (H s Hs).
  destruct s as [l a d ld di acts]. unfold mask_stop. cbn [ss_acts ss_loc ss_arr ss_dep ss_load ss_dist] in *. f_equal.
  apply map_id_in. intros x Hx. rewrite forallb_forall in H. specialize (H x Hx). unfold mask_sact.
  apply negb_true_iff in H. rewrite H. reflexivity.
Qed.

Lemma no_rc_sol_tours S : no_rc_sol S = true -> forall t, In t (sl_tours S) -> no_rc_tour t = true.
Proof. unfold no_rc_sol, no_rc_tour. intros H t Ht. rewrite forallb_forall in H. exact (H t Ht). Qed.

Lemma mask_sol_id S : no_rc_sol S = true -> mask_sol S = S.
Proof.
  intros H. destruct S as [st tours un]. unfold mask_sol. cbn [sl_stat sl_tours sl_unassigned]. f_equal.
  apply map_id_in. intros t Ht. apply mask_tour_id. exact (no_rc_sol_tours _ H t Ht).
Qed.

Lemma recharge_viols_no_rc Y S : no_rc_sol S = true -> recharge_viols Y S = [].
Proof.
  intros H. apply recharge_viols_nil. intros t Ht. unfold RechargesDefined.
  rewrite (no_rc_tour_acts t (no_rc_sol_tours _ H t Ht)). constructor.
Qed.

(* conservativity (C02): on a document without recharge activities the round-five accounting IS the round-four accounting,
   whatever the problem defines *)
Theorem accounted5_no_recharge Y X XS P S : no_rc_sol S = true -> accounted5 Y X XS P S = accounted4 X XS P S.
Proof. intros H. unfold accounted5. rewrite (mask_sol_id _ H), (recharge_viols_no_rc Y _ H), app_nil_r. reflexivity. Qed.

(* ================================================================== 1. recharge stations: the distance rule *)
Lemma sumz_app l1 l2 : sumz (l1 ++ l2) = sumz l1 + sumz l2.
Proof. unfold sumz. induction l1 as [|x r IH]; cbn [app fold_right]; [lia|]. rewrite IH. lia. Qed.

Lemma no_rc_items_cons x l : no_rc_items (x :: l) <-> fst x = false /\ no_rc_items l.
Proof.
  unfold no_rc_items. split.
  - intros H. split; [apply H; left; reflexivity|intros y Hy; apply H; right; exact Hy].
  - intros [H1 H2] y [<-|Hy]; auto.
Qed.

(* the checker with a running counter: every stretch that continues the current one, and every stretch that begins behind a
   recharge further on *)
Lemma seg_ok_gen m : forall l acc,
  seg_ok m acc l = true <->
  (forall l2 a l3, l = l2 ++ a :: l3 -> no_rc_items l2 -> acc + sumz (map snd (l2 ++ [a])) <= m)
  /\ (forall l0 r l2 a l3, l = l0 ++ r :: l2 ++ a :: l3 -> fst r = true -> no_rc_items l2 -> sumz (map snd (l2 ++ [a])) <= m).
Proof.
  induction l as [|[rc d] rest IH]; intros acc; cbn [seg_ok].
  - split; [|reflexivity]. intros _. split.
    + intros l2 a l3 H. destruct l2; discriminate.
    + intros l0 r l2 a l3 H. destruct l0; discriminate.
  - rewrite andb_true_iff, Z.leb_le, IH. split.
    + intros [Hd [H1 H2]]. split.
      * intros l2 a l3 Heq Hn. destruct l2 as [|y l2]; cbn [app] in Heq.
        -- injection Heq as <- _. cbn [app map snd sumz fold_right]. unfold sumz. cbn. lia.
        -- injection Heq as <- Heq. apply no_rc_items_cons in Hn. destruct Hn as [Hy Hn]. cbn [fst] in Hy. subst rc.
           specialize (H1 l2 a l3 Heq Hn). cbn [app map snd]. change (sumz (d :: map snd (l2 ++ [a]))) with (d + sumz (map snd (l2 ++ [a]))). lia.
      * intros l0 r l2 a l3 Heq Hr Hn. destruct l0 as [|y l0]; cbn [app] in Heq.
        -- injection Heq as <- Heq. cbn [fst] in Hr. subst rc. specialize (H1 l2 a l3 Heq Hn). lia.
        -- injection Heq as _ Heq. exact (H2 l0 r l2 a l3 Heq Hr Hn).
    + intros [H1 H2]. split; [|split].
      * specialize (H1 [] (rc, d) rest eq_refl). cbn [app map snd] in H1. unfold sumz in H1. cbn in H1.
        assert (Hn : no_rc_items []) by (intros x []). specialize (H1 Hn). lia.
      * intros l2 a l3 Heq Hn. destruct rc.
        -- specialize (H2 [] (true, d) l2 a l3). cbn [app] in H2. rewrite Heq in H2. specialize (H2 eq_refl eq_refl Hn). lia.
        -- specialize (H1 ((false, d) :: l2) a l3). cbn [app] in H1. rewrite Heq in H1. specialize (H1 eq_refl).
           assert (Hn' : no_rc_items ((false, d) :: l2)) by (apply no_rc_items_cons; split; [reflexivity|exact Hn]).
           specialize (H1 Hn'). cbn [map snd] in H1. change (sumz (d :: map snd (l2 ++ [a]))) with (d + sumz (map snd (l2 ++ [a]))) in H1. lia.
      * intros l0 r l2 a l3 Heq Hr Hn. apply (H2 ((rc, d) :: l0) r l2 a l3); [cbn [app]; rewrite Heq; reflexivity|exact Hr|exact Hn].
Qed.

Theorem seg_ok_iff m items : seg_ok m 0 items = true <-> RechargeOk m items.
Proof.
  rewrite seg_ok_gen. unfold RechargeOk. split.
  - intros [H1 H2] l1 l2 a l3 Heq [->|[l0 [r [-> Hr]]]] Hn.
    + cbn [app] in Heq. specialize (H1 l2 a l3 Heq Hn). rewrite Z.add_0_l in H1. exact H1.
    + rewrite <- app_assoc in Heq. cbn [app] in Heq. exact (H2 l0 r l2 a l3 Heq Hr Hn).
  - intros H. split.
    + intros l2 a l3 Heq Hn. specialize (H [] l2 a l3 Heq (or_introl eq_refl) Hn). rewrite Z.add_0_l. exact H.
    + intros l0 r l2 a l3 Heq Hr Hn. apply (H (l0 ++ [r]) l2 a l3); [rewrite <- app_assoc; exact Heq| |exact Hn].
      right. exists l0, r. split; [reflexivity|exact Hr].
Qed.

Lemma recharge_dist_viol_nil Y items k t :
  recharge_dist_viol Y items k t = [] <->
  (forall i rc l, recharge_of Y t = Some (i, rc) -> items t = Some l -> RechargeOk (rc_max rc) l).
Proof.
  unfold recharge_dist_viol. destruct (recharge_of Y t) as [[i rc]|]; [|split; [intros _ ? ? ? H; discriminate|reflexivity]].
  destruct (items t) as [l|]; [|split; [intros _ ? ? ? _ H; discriminate|reflexivity]].
  rewrite if_nil_iff, seg_ok_iff. split.
  - intros H i' rc' l' H1 H2. injection H1 as <- <-. injection H2 as <-. exact H.
  - intros H. exact (H i rc l eq_refl eq_refl).
Qed.

(* classic routing data: the rule over the matrix distances of the reported visiting order *)
Theorem recharge_dist_viols_nil Y P S :
  recharge_dist_viols Y None P S = [] <->
  forall t i rc, In t (sl_tours S) -> recharge_of Y t = Some (i, rc) -> RechargeOk (rc_max rc) (tour_items (pdist P) t).
Proof.
  unfold recharge_dist_viols. rewrite mapi_nil_iff. split.
  - intros H t i rc Ht Hrc. apply In_nth_error in Ht. destruct Ht as [n Hn]. specialize (H n t Hn).
    rewrite recharge_dist_viol_nil in H. exact (H i rc _ Hrc eq_refl).
  - intros H n t Hn. rewrite recharge_dist_viol_nil. intros i rc l Hrc Hl. injection Hl as <-.
    exact (H t i rc (nth_error_In _ _ Hn) Hrc).
Qed.

(* ================================================================== the task-order rule without recharge activities *)
Lemma order_viols_y_nil Y P' S' :
  order_viols_y Y P' S' = [] <->
  forall n t r, nth_error (sl_tours S') n = Some t -> rebuild (order_problem P') t = Some r -> Sorted (order_seq_y Y r).
Proof.
  unfold order_viols_y. rewrite mapi_nil_iff. split.
  - intros H n t r Hn Hr. specialize (H n t Hn). unfold order_viol_y in H. rewrite Hr in H.
    apply if_nil_iff in H. apply sorted_b_iff. exact H.
  - intros H n t Hn. unfold order_viol_y. destruct (rebuild (order_problem P') t) as [r|] eqn:Hr; [|reflexivity].
    apply if_nil_iff. apply sorted_b_iff. apply (H n t r Hn Hr).
Qed.

(* ================================================================== conservativity: a problem without recharges *)
Lemma recharge_of_Y0 t : recharge_of Y0 t = None.
Proof. reflexivity. Qed.

Lemma rc_problem_Y0 P : rc_problem Y0 P = P.
Proof. destruct P. unfold rc_problem. cbn. rewrite app_nil_r. reflexivity. Qed.

Lemma rc_sol_Y0 S : rc_sol Y0 S = S.
Proof. destruct S as [st tours un]. unfold rc_sol. cbn [sl_stat sl_tours sl_unassigned]. f_equal. apply map_id_in. intros t _. reflexivity. Qed.

Lemma is_rc_job_Y0 j : is_rc_job Y0 j = false.
Proof. unfold is_rc_job. cbn [yp_recharges Y0 length Z.of_nat]. destruct (j <=? RECHARGE_BASE) eqn:E; [|reflexivity]. cbn [andb]. apply Z.ltb_ge. apply Z.leb_le in E. lia. Qed.

Lemma filter_ext_all {A} (f g : A -> bool) l : (forall x, f x = g x) -> filter f l = filter g l.
Proof. intros H. induction l as [|x r IH]; cbn [filter]; [reflexivity|]. rewrite H, IH. reflexivity. Qed.

Lemma order_seq_Y0 r : order_seq_y Y0 r = order_seq r.
Proof.
  unfold order_seq_y, order_seq. f_equal. apply filter_ext_all. intros am. rewrite is_rc_job_Y0. cbn. apply andb_true_r.
Qed.

Lemma order_viols_Y0 P S : order_viols_y Y0 P S = order_viols P S.
Proof.
  unfold order_viols_y, order_viols. f_equal. apply mapi_ext. intros k t. unfold order_viol_y, order_viol.
  destruct (rebuild (order_problem P) t); [rewrite order_seq_Y0|]; reflexivity.
Qed.

Lemma recharge_dist_viols_Y0 R P S : recharge_dist_viols Y0 R P S = [].
Proof.
  unfold recharge_dist_viols. destruct R as [R'|].
  - destruct (provider_of R'); [|reflexivity]. apply concat_mapi_nil.
  - apply concat_mapi_nil.
Qed.

Theorem feasible5_Y0 R P S : feasible5 Y0 R P S = feasible_viols_x R P S ++ xfeasible_viols P S.
Proof.
  unfold feasible5, xfeasible_viols. cbv zeta. rewrite rc_problem_Y0, rc_sol_Y0, order_viols_Y0, recharge_dist_viols_Y0, app_nil_r.
  reflexivity.
Qed.

Theorem replay5_Y0 R P S : replay5 Y0 R P S = replay_viol_x R P S ++ xreplay_viols P S.
Proof. unfold replay5. rewrite rc_problem_Y0, rc_sol_Y0. reflexivity. Qed.

(* ================================================================== 2. shared reload resources *)
Theorem resource_viols_nil Y P S : resource_viols Y P S = [] <-> ResourcesRespected Y P S.
Proof.
  unfold resource_viols, ResourcesRespected. rewrite flat_map_nil_iff. split.
  - intros H res caps d c Hin Hd. specialize (H (res, caps) Hin). cbn [fst snd] in H. rewrite flat_map_nil_iff in H.
    assert (Hlt : (d < length caps)%nat) by (apply nth_error_Some; congruence).
    specialize (H d). rewrite in_seq in H. specialize (H ltac:(lia)). rewrite if_nil_iff in H. apply Z.leb_le in H.
    rewrite (nth_error_nth _ _ 0 Hd) in H. exact H.
  - intros H [res caps] Hin. cbn [fst snd]. rewrite flat_map_nil_iff. intros d Hd. rewrite in_seq in Hd.
    rewrite if_nil_iff. apply Z.leb_le.
    destruct (nth_error caps d) as [c|] eqn:E; [|apply nth_error_None in E; lia].
    rewrite (nth_error_nth _ _ 0 E). exact (H res caps d c Hin E).
Qed.

(* a problem without resources has nothing to respect *)
Lemma resource_viols_Y0 P S : resource_viols Y0 P S = [].
Proof. reflexivity. Qed.

(* ================================================================== non-vacuity: concrete documents *)
(* three locations on a line, 10 apart (ex_P's matrix); job 1 = delivery at location 2 (5 s); the shift defines recharges with
   maxDistance 30 and one station at location 1 (5 s).  Tour: 0 -> 2 (20) -> station at 1 (10): exactly 30 driven when the
   station is reached; -> 0 (10).  Serving = 5 + 5 (the recharge counts as serving time), cost = 7 + 40 * 1 + 50 * 2 *)
Definition ex_Prc : pproblem :=
  mkPProblem [mkPJob 1 [mkPTask 1 [mkPPlace 2 5 [(0, 100)] None] 1] true [] [] [] None None [] []]
             [mkPVType 1 [1] [mkPShift 0 0 INF (Some (0, 1000)) [] []] 10 7 1 2 [] None None None []]
             3 [0; 10; 20; 10; 0; 10; 20; 10; 0] [0; 10; 20; 10; 0; 10; 20; 10; 0] [].
Definition ex_Yrc (m : Z) : yproblem := mkYProblem [((1, 0%nat), mkRecharge m [mkPPlace 1 5 [(0, 1000)] (Some 9)])] [] [].
Definition ex_stat_rc : sstat := mkSStat 147 40 50 40 10 0 0.
Definition ex_Src : ssolution :=
  mkSSolution ex_stat_rc
    [mkSTour 1 1 0 [mkSStop 0 0 0 1 0 [mkSAct (-1) 10 None None None];
                    mkSStop 2 20 25 0 20 [mkSAct 1 1 None None None];
                    mkSStop 1 35 40 0 30 [mkSAct (-1) 14 None None (Some 9)];
                    mkSStop 0 50 50 0 40 [mkSAct (-1) 11 None None None]] ex_stat_rc []]
    [].
Definition all5 (Y : yproblem) (P : pproblem) (S : ssolution) : list violation :=
  precond_viol P ++ accounted5 Y X0 XS0 P S ++ feasible5 Y None P S ++ replay5 Y None P S.

(* accepted with the limit exactly reached; one unit less is exactly [FRechargeDistance 0]; judged against a problem that
   defines no station the same document is [ARecharge 0] for the accounting (and cannot be rebuilt) *)
Lemma ex_recharge :
  all5 (ex_Yrc 30) ex_Prc ex_Src = []
  /\ all5 (ex_Yrc 29) ex_Prc ex_Src = [FRechargeDistance 0]
  /\ accounted5 Y0 X0 XS0 ex_Prc ex_Src = [ARecharge 0]
  /\ recharge_acts (hd ex_tour (sl_tours ex_Src)) <> [].
Proof. repeat split; try (vm_compute; reflexivity). vm_compute. discriminate. Qed.
Lemma ex_recharge_declarative :
  RechargesDefined (ex_Yrc 30) (hd ex_tour (sl_tours ex_Src))
  /\ RechargeOk 30 (tour_items (pdist ex_Prc) (hd ex_tour (sl_tours ex_Src)))
  /\ ~ RechargeOk 29 (tour_items (pdist ex_Prc) (hd ex_tour (sl_tours ex_Src))).
Proof.
  split; [apply recharges_ok_iff; vm_compute; reflexivity|].
  split; [apply seg_ok_iff; vm_compute; reflexivity|].
  intros H. apply seg_ok_iff in H. vm_compute in H. discriminate.
Qed.
(* the recharge duration is serving time: the same document with the 5 s booked nowhere is rejected by the replay *)
Definition ex_Src_bad : ssolution :=
  mkSSolution (mkSStat 147 40 50 40 5 0 0)
    [mkSTour 1 1 0 (to_stops (hd ex_tour (sl_tours ex_Src))) (mkSStat 147 40 50 40 5 0 0) []] [].
Lemma ex_recharge_serving : replay5 (ex_Yrc 30) None ex_Prc ex_Src_bad = [RStatServing 0].
Proof. vm_compute. reflexivity. Qed.

(* shared reload resource: vehicle capacity 1, two deliveries of 1, a reload at the depot that draws on resource 1.  The second
   delivery is loaded at the reload: capacity [1] is exactly exhausted, capacity [0] is exceeded *)
Definition ex_Prs : pproblem :=
  mkPProblem [mkPJob 1 [mkPTask 1 [mkPPlace 1 0 [(0, 1000)] None] 1] true [] [] [] None None [] [];
              mkPJob 2 [mkPTask 1 [mkPPlace 2 0 [(0, 1000)] None] 1] true [] [] [] None None [] []]
             [mkPVType 1 [1] [mkPShift 0 0 INF (Some (0, 1000)) [mkPPlace 0 0 [(NEGT, INF)] None] []] 1 7 1 2 [] None None None []]
             3 [0; 10; 20; 10; 0; 10; 20; 10; 0] [0; 10; 20; 10; 0; 10; 20; 10; 0] [].
Definition ex_Yrs (c : Z) : yproblem := mkYProblem [] [((1, 0%nat), [Some 1])] [(1, [c])].
Definition ex_stat_rs : sstat := mkSStat 187 60 60 60 0 0 0.
Definition ex_Srs : ssolution :=
  mkSSolution ex_stat_rs
    [mkSTour 1 1 0 [mkSStop 0 0 0 1 0 [mkSAct (-1) 10 None None None];
                    mkSStop 1 10 10 0 10 [mkSAct 1 1 None None None];
                    mkSStop 0 20 20 1 20 [mkSAct RELOAD_JOB 13 None None None];
                    mkSStop 2 40 40 0 40 [mkSAct 2 1 None None None];
                    mkSStop 0 60 60 0 60 [mkSAct (-1) 11 None None None]] ex_stat_rs []]
    [].
Lemma ex_resource :
  valid_b ex_Prs ex_Srs = [] /\ resource_use (ex_Yrs 1) ex_Prs ex_Srs 1 = 1
  /\ resource_viols (ex_Yrs 1) ex_Prs ex_Srs = [] /\ resource_viols (ex_Yrs 0) ex_Prs ex_Srs = [(1, 0)]
  /\ res_ambiguous (ex_Yrs 1) ex_Prs = [].
Proof. repeat split; vm_compute; reflexivity. Qed.
Lemma ex_resource_declarative : ResourcesRespected (ex_Yrs 1) ex_Prs ex_Srs /\ ~ ResourcesRespected (ex_Yrs 0) ex_Prs ex_Srs.
Proof.
  split; [apply resource_viols_nil; vm_compute; reflexivity|].
  intros H. apply resource_viols_nil in H. vm_compute in H. discriminate.
Qed.

(* ================================================================== 3. reloads of a tour with required breaks *)
Lemma reloads_ok_rb_iff X P t : reloads_ok_rb X P t = true <-> ReloadsDefinedRb X P t.
Proof.
  unfold reloads_ok_rb, ReloadsDefinedRb. destruct (shift_of P t) as [[vt sh]|].
  - rewrite assign_b_iff. split; [intros H vt' sh' E; injection E as <- <-; exact H|intros H; exact (H vt sh eq_refl)].
  - split; [intros _ vt sh E; discriminate|reflexivity].
Qed.

Lemma reload_rb_viols_nil X P S :
  reload_rb_viols X P S = [] <-> forall t, In t (sl_tours S) -> has_rb X t = true -> ReloadsDefinedRb X P t.
Proof.
  unfold reload_rb_viols. rewrite mapi_nil_iff. split.
  - intros H t Ht Hrb. apply In_nth_error in Ht. destruct Ht as [n Hn]. specialize (H n t Hn). cbv beta in H.
    rewrite Hrb in H. rewrite if_nil_iff in H. apply reloads_ok_rb_iff. exact H.
  - intros H n t Hn. destruct (has_rb X t) eqn:E; [|reflexivity]. rewrite if_nil_iff. apply reloads_ok_rb_iff.
    apply H; [eapply nth_error_In; exact Hn|exact E].
Qed.

(* without required breaks the net length is the reported length and nothing is stripped: the clause is Valid.reloads_ok *)
Lemma reloads_ok_rb_X0 P t : reloads_ok_rb X0 P t = reloads_ok P t.
Proof.
  unfold reloads_ok_rb, reloads_ok, xbreaks, xstrip. rewrite has_rb_X0. destruct (shift_of P t) as [[vt sh]|]; [|reflexivity].
  rewrite map_shrink_nil. reflexivity.
Qed.

Lemma rb_tour_idx_X0 S : rb_tour_idx X0 S = [].
Proof. unfold rb_tour_idx. apply concat_mapi_nil. Qed.

Lemma filter_all_true {A} (p : A -> bool) l : (forall x, p x = true) -> filter p l = l.
Proof. intros H. induction l as [|x r IH]; cbn [filter]; [reflexivity|]. rewrite H, IH. reflexivity. Qed.

(* conservativity: for a problem without required breaks accounted6 IS accounted5 *)
Theorem accounted6_X0 Y XS P S : accounted6 Y X0 XS P S = accounted5 Y X0 XS P S.
Proof.
  unfold accounted6. replace (reload_rb_viols X0 P S) with (@nil violation).
  - rewrite app_nil_r. apply filter_all_true. intros v. unfold is_rb_reload_viol. rewrite rb_tour_idx_X0. destruct v; reflexivity.
  - symmetry. unfold reload_rb_viols. apply concat_mapi_nil.
Qed.

(* ================================================================== 4. reported breaks inside the tour *)
Lemma break_span_viols_nil X S : break_span_viols X S = [] <-> forall t, In t (sl_tours S) -> BreaksInsideTour X t.
Proof.
  unfold break_span_viols. rewrite mapi_nil_iff. split.
  - intros H t Ht Hrb a Ha. apply In_nth_error in Ht. destruct Ht as [n Hn]. specialize (H n t Hn). unfold break_span_viol in H.
    rewrite Hrb in H. rewrite flat_map_nil_iff in H. specialize (H a Ha).
    destruct (span_ok (tour_breaks t) (tour_dep (flat_tour t)) (fa_start a)) eqn:E; [|discriminate].
    unfold span_ok in E. apply orb_true_iff in E. destruct E as [E|E]; [left; apply Z.leb_le; exact E|right; apply Z.eqb_eq; exact E].
  - intros H n t Hn. unfold break_span_viol. destruct (has_rb X t) eqn:E; [|reflexivity].
    rewrite flat_map_nil_iff. intros a Ha. specialize (H t (nth_error_In _ _ Hn) E a Ha).
    assert (Hs : span_ok (tour_breaks t) (tour_dep (flat_tour t)) (fa_start a) = true).
    { unfold span_ok. apply orb_true_iff. destruct H as [H|H]; [left; apply Z.leb_le; exact H|right; apply Z.eqb_eq; exact H]. }
    rewrite Hs. reflexivity.
Qed.

Lemma break_span_viols_X0 S : break_span_viols X0 S = [].
Proof. unfold break_span_viols. apply concat_mapi_nil. Qed.

(* the required-break example of round four (a break inside a stop) lies inside its tour; the same tour with the break reported
   -5 .. -1, over one second BEFORE the departure at 0 (what a writer produces that measures the tour from the shift's earliest
   start), does not; reported -2 .. 2 (the departure activity stretched over it) it is the same moment as the departure *)
Definition ex_Sq_early : ssolution :=
  mkSSolution (sl_stat ex_Sq)
    (map (fun t => mkSTour (to_vehicle t) (to_type t) (to_shift t)
                     (map (fun s => mkSStop (ss_loc s) (ss_arr s) (ss_dep s) (ss_load s) (ss_dist s)
                                      (map (fun a => if sa_kind a =? 12 then mkSAct (sa_job a) 12 (sa_loc a) (Some (-5, -1)) (sa_tag a) else a) (ss_acts s)))
                          (to_stops t)) (to_stat t) (to_xload t)) (sl_tours ex_Sq))
    (sl_unassigned ex_Sq).
Lemma ex_break_span : break_span_viols ex_Xq ex_Sq = [] /\ break_span_viols ex_Xq ex_Sq_early = [(0, -5)]
  /\ span_ok [(-2, 2)] 0 (-2) = true /\ span_ok [(-5, -1)] 0 (-5) = false.
Proof. repeat split; vm_compute; reflexivity. Qed.
