(* C18 — facts about the primitive-float twin (Model/SlotF.v), all by computation inside the kernel. *)
From Coq Require Import Floats.
From VRP Require Import Base.Tac Model.SlotF.

(* prior mean 1.0 (the value DynamicSelective uses), one reward 5e-324 (bit pattern 1): the f64 mean becomes +0.0,
   which is below the only reward seen: 1 + (5e-324 - 1)/1 rounds to 0 *)
Lemma float_mean_leaves_hull :
  let s := fslot_update (fslot_new (f_of_bits 4607182418800017408)) (f_of_bits 1) in
  bits_of_f (f_mu s) = 0 /\ PrimFloat.ltb (f_mu s) (f_of_bits 1) = true.
Proof. vm_compute. split; reflexivity. Qed.

(* finite fitness 1.7e308 and -1.7e308: |a - b| overflows, the relative distance (hence the reward) is +inf *)
Lemma float_rel_value_overflows :
  run_relvalueF 9218378953502702454 18441750990357478262 = 9218868437227405312.
Proof. vm_compute. reflexivity. Qed.

(* sanity: the twin agrees with exact arithmetic on a dyadic history (prior 1, rewards 0.5, 0.75): mu = 0.625 *)
Lemma float_twin_example :
  bits_of_f (f_mu (fslot_run (f_of_bits 4607182418800017408) [f_of_bits 4602678819172646912; f_of_bits 4604930618986332160]))
  = 4603804719079489536.
Proof. vm_compute. reflexivity. Qed.
