(* C20: quotes equal realised objective changes (additive objectives). *)
From VRP Require Import Base.Tac Model.Core Model.Objectives Proofs.CoreTimeP Proofs.CoreEvalP Proofs.CoreMultiP.

(* ================= per-tour measures (distance; duration without waiting) ================= *)
Section Measure.
Variable m : Z -> Z -> Z.          (* any time-independent leg measure: distance or duration *)

Lemma dist_from_app : forall A p B loc,
  dist_from m loc (A ++ p :: B) = dist_from m loc (A ++ [p]) + dist_from m (a_loc p) B.
Proof.
  induction A as [|a A IH]; intros p B loc; cbn [app dist_from].
  - lia.
  - rewrite IH. lia.
Qed.

Definition leg_delta (p x : act) (B : list act) : Z :=
  m (a_loc p) (a_loc x) + match B with n :: _ => m (a_loc x) (a_loc n) - m (a_loc p) (a_loc n) | [] => 0 end.

Lemma total_measure_insert : forall A p B x,
  total_distance m (A ++ p :: x :: B) = total_distance m (A ++ p :: B) + leg_delta p x B.
Proof.
  intros A p B x. unfold leg_delta. destruct A as [|s A']; cbn [app total_distance].
  - cbn [dist_from]. destruct B as [|n r]; cbn [dist_from]; lia.
  - rewrite (dist_from_app A' p (x :: B)), (dist_from_app A' p B). cbn [dist_from].
    destruct B as [|n r]; cbn [dist_from]; lia.
Qed.

Lemma has_jobs_false_shape : forall t, has_jobs t = false -> Forall (fun a => is_terminal a = true) t.
Proof.
  unfold has_jobs. induction t as [|a t IH]; intros H; constructor; cbn in H; apply orb_false_iff in H as [H1 H2].
  - destruct (is_terminal a); [reflexivity|discriminate].
  - apply IH; assumption.
Qed.

(* the quote of a leg-measure objective is the realised change of the tour's measure; an empty tour (not yet part of the
   solution) counts as 0 before *)
Lemma leg_estimate_exact : forall t idx x,
  (idx < length t)%nat ->
  (has_jobs t = false -> (length t <= 2)%nat /\ idx = 0%nat) ->
  total_distance m (insert_after t idx x) - (if has_jobs t then total_distance m t else 0) = leg_estimate m t idx x.
Proof.
  intros t idx x Hidx Hempty.
  destruct (split_at t idx x Hidx) as [Et Hl].
  rewrite (insert_after_split t idx x x Hidx).
  set (A := firstn idx t) in *. set (p := nth idx t x) in *. set (B := skipn (S idx) t) in *.
  unfold leg_estimate. fold p B.
  rewrite total_measure_insert. rewrite <- Et. unfold leg_delta.
  destruct (has_jobs t) eqn:Hj; cbn [negb].
  - destruct B as [|n r]; lia.
  - destruct (Hempty eq_refl) as [Hlen Hi0].
    assert (HA : A = []) by (destruct A; [reflexivity|]; cbn in Hl; lia).
    rewrite Et, HA. cbn [app total_distance].
    destruct B as [|n r]; cbn [dist_from]; [lia|].
    destruct r as [|n2 r2]; cbn [dist_from]; [lia|].
    rewrite Et, HA in Hlen. cbn in Hlen. lia.
Qed.
End Measure.

(* ================= cost objective, no waiting ================= *)
Section Cost.
Variable dur dist : Z -> Z -> Z.

Definition sum_svc (acts : list act) : Z := fold_right (fun a acc => a_svc a + acc) 0 acts.
Definition last_dep (dep : Z) (acts : list act) : Z := fold_left (fun _ a => a_dep a) acts dep.
Definition nw (a : act) : Prop := a_tws a <= a_arr a.

Lemma set_sched_id : forall a, set_sched a (a_arr a) (a_dep a) = a.
Proof. destruct a; reflexivity. Qed.

Lemma last_dep_last : forall r s d, a_dep (last (s :: r) d) = last_dep (a_dep s) r.
Proof. induction r as [|b r IH]; intros s d; [reflexivity|]. change (last (s :: b :: r) d) with (last (b :: r) d). rewrite IH. reflexivity. Qed.

Lemma total_duration_last_dep : forall s r, total_duration (s :: r) = last_dep (a_dep s) r - a_dep s.
Proof. intros. unfold total_duration. rewrite last_dep_last. reflexivity. Qed.

Lemma nowait_last_dep : forall acts loc dep,
  sched_ok_from dur loc dep acts -> Forall nw acts ->
  last_dep dep acts = dep + dist_from dur loc acts + sum_svc acts.
Proof.
  induction acts as [|a r IH]; intros loc dep Hs Hn; cbn [last_dep fold_left dist_from sum_svc fold_right]; [lia|].
  destruct Hs as (H1 & H2 & H3). inversion Hn as [|? ? Hna Hnr]; subst.
  fold (last_dep (a_dep a) r). rewrite (IH _ _ H3 Hnr). unfold nw in Hna. unfold est_departure in H2.
  fold (sum_svc r). lia.
Qed.

Lemma total_duration_nowait : forall t,
  sched_ok dur t -> no_wait t -> total_duration t = total_distance dur t + sum_svc (tl t).
Proof.
  intros [|s r] Hs Hn; [reflexivity|]. rewrite total_duration_last_dep. cbn [total_distance tl].
  unfold no_wait in Hn. cbn [tl] in Hn. rewrite (nowait_last_dep r _ _ Hs Hn). lia.
Qed.

Lemma resched_prefix : forall A p C loc dep,
  sched_ok_from dur loc dep (A ++ [p]) ->
  resched_from dur loc dep (A ++ p :: C) = A ++ p :: resched_from dur (a_loc p) (a_dep p) C.
Proof.
  induction A as [|a A IH]; intros p C loc dep H; cbn [app resched_from] in *.
  - destruct H as (H1 & H2 & _). rewrite <- H1, <- H2, set_sched_id. reflexivity.
  - destruct H as (H1 & H2 & H3). rewrite <- H1, <- H2, set_sched_id. f_equal. apply IH. exact H3.
Qed.

Lemma reschedule_insert : forall A p B x,
  sched_ok dur (A ++ p :: B) ->
  reschedule dur (A ++ p :: x :: B) = A ++ p :: resched_from dur (a_loc p) (a_dep p) (x :: B).
Proof.
  intros A p B x Hs. destruct A as [|s A']; cbn [app reschedule]; [reflexivity|].
  f_equal. apply resched_prefix. cbn [app sched_ok] in Hs.
  apply (sched_ok_from_app dur _ B). rewrite <- app_assoc. exact Hs.
Qed.

Lemma dist_from_resched : forall m r loc l d, dist_from m loc (resched_from dur l d r) = dist_from m loc r.
Proof. induction r as [|a r IH]; intros; cbn [resched_from dist_from]; [reflexivity|]. cbn [a_loc set_sched]. rewrite IH. reflexivity. Qed.
Lemma sum_svc_resched : forall r l d, sum_svc (resched_from dur l d r) = sum_svc r.
Proof. unfold sum_svc. induction r as [|a r IH]; intros; cbn [resched_from fold_right]; [reflexivity|]. cbn [a_svc set_sched]. rewrite IH. reflexivity. Qed.
Lemma total_distance_reschedule : forall m t, total_distance m (reschedule dur t) = total_distance m t.
Proof. intros m [|s r]; [reflexivity|]. cbn [reschedule total_distance]. apply dist_from_resched. Qed.
Lemma sum_svc_tl_reschedule : forall t, sum_svc (tl (reschedule dur t)) = sum_svc (tl t).
Proof. intros [|s r]; [reflexivity|]. cbn [reschedule tl]. apply sum_svc_resched. Qed.

Lemma sum_svc_app : forall A B, sum_svc (A ++ B) = sum_svc A + sum_svc B.
Proof. unfold sum_svc. induction A as [|a A IH]; intros; cbn [app fold_right]; [lia|]. rewrite IH. lia. Qed.

Lemma sum_svc_tl_insert : forall A p B x, sum_svc (tl (A ++ p :: x :: B)) = sum_svc (tl (A ++ p :: B)) + a_svc x.
Proof.
  intros. destruct A as [|s A']; cbn [app tl].
  - unfold sum_svc; cbn [fold_right]. lia.
  - rewrite !sum_svc_app. unfold sum_svc; cbn [fold_right]. lia.
Qed.

Lemma waiting_of_nowait : forall acts, Forall nw acts -> waiting_of acts = 0.
Proof.
  induction 1 as [|a r Ha _ IH]; cbn [waiting_of]; [reflexivity|]. unfold nw in Ha. rewrite IH.
  destruct (a_job a <? 0); lia.
Qed.

Lemma sched_tail : forall A p B, sched_ok dur (A ++ p :: B) -> sched_ok_from dur (a_loc p) (a_dep p) B.
Proof.
  intros A p B H. destruct A as [|s A']; cbn [app sched_ok] in H; [exact H|].
  revert H. generalize (a_loc s) (a_dep s). induction A' as [|a A' IH]; intros l d H; cbn [app sched_ok_from] in H.
  - destruct H as (_ & _ & H). exact H.
  - destruct H as (_ & _ & H). apply (IH _ _ H).
Qed.

Lemma nowait_tail : forall A p B, no_wait (A ++ p :: B) -> Forall nw B.
Proof.
  intros A p B H. unfold no_wait in H. destruct A as [|s A']; cbn [app tl] in H.
  - exact H.
  - apply Forall_app in H as [_ H]. inversion H; assumption.
Qed.

Ltac close_cost Hu1 Hu2 :=
  cbn [negb] in *;
  match goal with
  | HD : total_distance ?dist ?X - ?b1 = ?e1, HT : total_distance ?dur ?X - ?b2 = ?e2 |- _ =>
    let Ea := fresh in let Eb := fresh in
    assert (Ea : total_distance dist X = b1 + e1) by lia;
    assert (Eb : total_distance dur X = b2 + e2) by lia;
    rewrite Ea, Eb; rewrite <- ?Hu2, <- ?Hu1;
    repeat match goal with |- context [Z.min 0 ?e] => replace (Z.min 0 e) with 0 by lia end; ring
  end.

Theorem cost_quote_exact_nowait : forall v t idx x,
  (idx < length t)%nat ->
  sched_ok dur t -> no_wait t -> no_wait (reschedule dur (insert_after t idx x)) ->
  v_ptime v = v_psvc v -> v_psvc v = v_pwait v ->
  (has_jobs t = false -> (length t <= 2)%nat /\ idx = 0%nat) ->
  cost_fitness dist v (reschedule dur (insert_after t idx x)) - route_cost dist v t = cost_quote dur dist v t idx x.
Proof.
  intros v t idx x Hidx Hs Hn Hn' Hu1 Hu2 Hempty.
  destruct (split_at t idx x Hidx) as [Et Hl].
  assert (Hs' := sched_ok_reschedule dur (insert_after t idx x)).
  unfold cost_fitness, route_cost, cost_quote, cost_estimate_route, cost_fitness.
  rewrite (total_duration_nowait _ Hs' Hn'), total_distance_reschedule, total_distance_reschedule, sum_svc_tl_reschedule.
  rewrite (total_duration_nowait _ Hs Hn).
  pose proof (leg_estimate_exact dist t idx x Hidx Hempty) as HD.
  pose proof (leg_estimate_exact dur t idx x Hidx Hempty) as HT.
  unfold leg_estimate in HD, HT. unfold cost_estimate_activity.
  rewrite (insert_after_split t idx x x Hidx) in *.
  set (A := firstn idx t) in *. set (p := nth idx t x) in *. set (B := skipn (S idx) t) in *.
  rewrite Et in Hs, Hn. rewrite (reschedule_insert A p B x Hs) in Hn'.
  assert (HsvcI : sum_svc (tl (A ++ p :: x :: B)) = sum_svc (tl t) + a_svc x) by (replace (tl t) with (tl (A ++ p :: B)) by (rewrite <- Et; reflexivity); apply sum_svc_tl_insert).
  rewrite HsvcI.
  (* arrival facts *)
  pose proof (nowait_tail A p _ Hn') as HnB'. cbn [resched_from] in HnB'.
  apply Forall_cons_iff in HnB' as [Hx HB']. unfold nw in Hx. cbn [a_tws a_arr set_sched] in Hx.
  pose proof (nowait_tail A p B Hn) as HnB. pose proof (sched_tail A p B Hs) as HsB.
  unfold max3. replace (Z.max (Z.max (v_ptime v) (v_psvc v)) (v_pwait v)) with (v_ptime v) by lia.
  unfold route_leg, tp_cost, act_cost, est_departure.
  assert (Htl : has_jobs t = false -> sum_svc (tl t) = match B with [] => 0 | n :: _ => a_svc n end).
  { intros Hf. destruct (Hempty Hf) as [Hlen Hi0].
    assert (HA : A = []) by (destruct A; [reflexivity|]; cbn in Hl; lia).
    rewrite Et, HA. cbn [app tl]. rewrite Et, HA in Hlen. destruct B as [|n [|n2 r2]]; cbn in Hlen |- *; lia. }
  destruct B as [|n r] eqn:EB.
  - (* last leg of an open tour, or empty open tour *)
    destruct (has_jobs t) eqn:Hj; cbn [negb];
      destruct (a_dep p + dur (a_loc p) (a_loc x) <? a_tws x) eqn:E1; try lia; try (rewrite (Htl eq_refl)); close_cost Hu1 Hu2.
  - cbn [resched_from] in HB'. apply Forall_cons_iff in HB' as [Hn1 _]. unfold nw in Hn1. cbn [a_tws a_arr set_sched a_loc] in Hn1.
    unfold est_departure in Hn1.
    apply Forall_cons_iff in HnB as [Hn0 HnR]. unfold nw in Hn0. destruct HsB as (Ha & _ & _).
    assert (Hw : waiting_of (n :: r) = 0) by (apply waiting_of_nowait; constructor; assumption).
    rewrite Hw.
    destruct (has_jobs t) eqn:Hj; cbn [negb];
      destruct (a_dep p + dur (a_loc p) (a_loc x) <? a_tws x) eqn:E1; try lia;
      destruct (Z.max (a_dep p + dur (a_loc p) (a_loc x)) (a_tws x) + a_svc x + dur (a_loc x) (a_loc n) <? a_tws n) eqn:E2; try lia;
      destruct (a_dep p + dur (a_loc p) (a_loc n) <? a_tws n) eqn:E3; try lia;
      destruct (is_terminal n); try lia; try (rewrite (Htl eq_refl)); close_cost Hu1 Hu2.
Qed.
End Cost.

(* ================= solution-level counting objectives ================= *)
Lemma removez_length_in : forall l j, NoDup l -> In j l -> Z.of_nat (length (removez j l)) = Z.of_nat (length l) - 1.
Proof.
  induction l as [|a l IH]; intros j Hnd Hin; [destruct Hin|]. inversion Hnd as [|? ? Hna Hnd']; subst.
  cbn [removez filter]. destruct Hin as [->|Hin].
  - rewrite Z.eqb_refl. cbn [negb].
    assert (E : filter (fun k => negb (k =? j)) l = l).
    { clear IH Hnd Hnd'. induction l as [|b l IHl]; [reflexivity|]. cbn [filter].
      assert (b <> j) by (intros ->; apply Hna; left; reflexivity).
      destruct (b =? j) eqn:Eb; [lia|]. cbn [negb]. f_equal. apply IHl. intros H1; apply Hna; right; exact H1. }
    rewrite E. cbn [length]. lia.
  - assert (a <> j) by (intros ->; contradiction).
    destruct (a =? j) eqn:Ea; [lia|]. cbn [negb length]. specialize (IH j Hnd' Hin). unfold removez in IH. lia.
Qed.

Lemma removez_notin : forall l j, ~ In j l -> removez j l = l.
Proof.
  induction l as [|a l IH]; intros j H; [reflexivity|]. cbn [removez filter].
  assert (a <> j) by (intros ->; apply H; left; reflexivity).
  destruct (a =? j) eqn:Ea; [lia|]. cbn [negb]. f_equal. apply IH. intros H1; apply H; right; exact H1.
Qed.

Lemma memz_in : forall l j, memz j l = true <-> In j l.
Proof.
  unfold memz. intros l j. rewrite existsb_exists. split.
  - intros (x & Hx & E). apply Z.eqb_eq in E. subst. exact Hx.
  - intros H. exists j. split; [exact H|apply Z.eqb_refl].
Qed.

Lemma filter_removez_length : forall (f : Z -> bool) l j, NoDup l -> In j l -> f j = true ->
  Z.of_nat (length (filter f (removez j l))) = Z.of_nat (length (filter f l)) - 1.
Proof.
  induction l as [|a l IH]; intros j Hnd Hin Hf; [destruct Hin|]. inversion Hnd as [|? ? Hna Hnd']; subst.
  cbn [removez filter]. destruct Hin as [->|Hin].
  - rewrite Z.eqb_refl, Hf. cbn [negb length]. fold (removez j l). rewrite (removez_notin l j Hna). lia.
  - assert (a <> j) by (intros ->; contradiction).
    destruct (a =? j) eqn:Ea; [lia|]. cbn [negb filter]. fold (removez j l).
    specialize (IH j Hnd' Hin Hf). destruct (f a); cbn [length]; lia.
Qed.

Theorem unassigned_quote_exact : forall s route j,
  NoDup (so_required s) -> In j (so_required s) -> ~ In j (so_unassigned s) ->
  (so_routes s <> [] \/ so_ignored s = []) ->
  fit_unassigned (finalize (apply_ins s route j)) - fit_unassigned (finalize s) = quote_unassigned.
Proof.
  intros s route j Hnd Hin Hnu Hr. unfold fit_unassigned, finalize, apply_ins, quote_unassigned. cbn [so_routes so_unassigned so_required so_ignored].
  rewrite (removez_notin _ _ Hnu). rewrite !app_length, !Nat2Z.inj_add.
  rewrite (filter_removez_length (fun k => negb (memz k (so_unassigned s))) _ j Hnd Hin).
  2:{ destruct (memz j (so_unassigned s)) eqn:E; [apply memz_in in E; contradiction|reflexivity]. }
  assert (Hroutes : match (match route with
                           | Some k => firstn k (so_routes s) ++ (j :: nth k (so_routes s) []) :: skipn (S k) (so_routes s)
                           | None => so_routes s ++ [[j]] end) with [] => Z.of_nat (length (so_ignored s)) | _ => 0 end = 0).
  { destruct route as [k|]; [destruct (firstn k (so_routes s)); reflexivity|destruct (so_routes s); reflexivity]. }
  rewrite Hroutes. destruct Hr as [Hr|Hr]; [destruct (so_routes s); [congruence|lia]|rewrite Hr; destruct (so_routes s); cbn; lia].
Qed.

Theorem unassigned_quote_refuted_ignored :
  exists s route j, NoDup (so_required s) /\ In j (so_required s) /\ ~ In j (so_unassigned s) /\
    fit_unassigned (finalize (apply_ins s route j)) - fit_unassigned (finalize s) <> quote_unassigned.
Proof.
  exists (mkSol [] [1] [] [7; 8]), None, 1.
  split; [constructor; [intros []|constructor]|]. split; [left; reflexivity|]. split; [intros []|]. vm_compute. discriminate.
Qed.

Theorem tours_quote_exact : forall s route j,
  (forall k, route = Some k -> (k < length (so_routes s))%nat) ->
  fit_tours (apply_ins s route j) - fit_tours s = quote_tours route.
Proof.
  intros s route j Hk. unfold fit_tours, apply_ins, quote_tours. cbn [so_routes]. destruct route as [k|].
  - specialize (Hk k eq_refl). rewrite app_length. cbn [length]. rewrite firstn_length, skipn_length. lia.
  - rewrite app_length. cbn. lia.
Qed.

Lemma fit_value_routes_app : forall (value : Z -> Z) (A B : list (list Z)),
  fold_right (fun r acc => fold_right (fun j a => a - value j) acc r) 0 (A ++ B) =
  fold_right (fun r acc => fold_right (fun j a => a - value j) acc r) 0 A +
  fold_right (fun r acc => fold_right (fun j a => a - value j) acc r) 0 B.
Proof.
  intros value A B. induction A as [|r A IH]; cbn [app fold_right]; [lia|]. rewrite IH.
  generalize (fold_right (fun r acc => fold_right (fun j a => a - value j) acc r) 0 A).
  generalize (fold_right (fun r acc => fold_right (fun j a => a - value j) acc r) 0 B).
  induction r as [|j r IHr]; intros b a; cbn [fold_right]; [lia|]. rewrite IHr. lia.
Qed.

Theorem value_quote_exact : forall value s route j,
  (forall k, route = Some k -> (k < length (so_routes s))%nat) ->
  fit_value value (apply_ins s route j) - fit_value value s = quote_value value j.
Proof.
  intros value s route j Hk. unfold fit_value, apply_ins, quote_value. cbn [so_routes]. destruct route as [k|].
  - specialize (Hk k eq_refl).
    rewrite <- (firstn_skipn k (so_routes s)) at 4.
    rewrite !fit_value_routes_app.
    assert (E : skipn k (so_routes s) = nth k (so_routes s) [] :: skipn (S k) (so_routes s)).
    { destruct (split_at (so_routes s) k [] Hk) as [E _]. rewrite E at 1.
      rewrite skipn_app, skipn_firstn_comm. rewrite firstn_length. replace (k - Nat.min k (length (so_routes s)))%nat with 0%nat by lia.
      replace (k - k)%nat with 0%nat by lia. cbn. reflexivity. }
    rewrite E. cbn [fold_right]. lia.
  - rewrite fit_value_routes_app. cbn [fold_right]. lia.
Qed.

(* ================= multi-activity jobs: the quote is the sum of the per-activity quotes on the shadow tours ================= *)
Section Multi.
Variable dur : Z -> Z -> Z.
Variable m : Z -> Z -> Z.      (* leg measure of the objective: distance (or duration without waiting) *)

(* apply_steps / multi_leg are in Model/Objectives.v (they are evaluated by the correspondence check) *)
Local Notation apply_steps := (Objectives.apply_steps dur).
Local Notation multi_leg := (Objectives.multi_leg dur m).

(* every step addresses an existing activity of the then-current shadow tour and inserts a job activity *)
Fixpoint steps_ok (t : list act) (steps : list (nat * act)) : Prop :=
  match steps with
  | [] => True
  | (idx, a) :: r => (idx < length t)%nat /\ is_terminal a = false /\ steps_ok (reschedule dur (insert_after t idx a)) r
  end.

Lemma has_jobs_app : forall A B, has_jobs (A ++ B) = has_jobs A || has_jobs B.
Proof. intros; unfold has_jobs; apply existsb_app. Qed.

Lemma has_jobs_resched_from : forall r l d, has_jobs (resched_from dur l d r) = has_jobs r.
Proof.
  unfold has_jobs. induction r as [|a r IH]; intros; cbn [resched_from existsb]; [reflexivity|].
  rewrite IH. unfold is_terminal. cbn [a_job set_sched]. reflexivity.
Qed.

Lemma has_jobs_reschedule : forall t, has_jobs (reschedule dur t) = has_jobs t.
Proof.
  intros [|s r]; [reflexivity|]. unfold reschedule.
  change (s :: resched_from dur (a_loc s) (a_dep s) r) with ([s] ++ resched_from dur (a_loc s) (a_dep s) r).
  change (s :: r) with ([s] ++ r). rewrite !has_jobs_app, has_jobs_resched_from. reflexivity.
Qed.

Lemma has_jobs_after_insert : forall t idx a, is_terminal a = false -> has_jobs (reschedule dur (insert_after t idx a)) = true.
Proof.
  intros t idx a Ha. rewrite has_jobs_reschedule. unfold insert_after.
  change (a :: skipn (S idx) t) with ([a] ++ skipn (S idx) t). rewrite !has_jobs_app.
  unfold has_jobs at 2. cbn [existsb]. rewrite Ha. cbn. apply orb_true_r.
Qed.

Lemma multi_leg_exact_nonempty : forall steps t,
  has_jobs t = true -> steps_ok t steps ->
  total_distance m (apply_steps t steps) - total_distance m t = multi_leg t steps.
Proof.
  induction steps as [|[idx a] r IH]; intros t Hj Hok; cbn [Objectives.apply_steps Objectives.multi_leg]; [lia|].
  destruct Hok as (Hidx & Ha & Hr).
  pose proof (leg_estimate_exact m t idx a Hidx ltac:(intros H; congruence)) as H1. rewrite Hj in H1.
  pose proof (IH _ (has_jobs_after_insert t idx a Ha) Hr) as H2.
  rewrite total_distance_reschedule in H2. lia.
Qed.

(* the quote of a whole (multi-activity) job equals the change of the objective, an unused tour counting as 0 before *)
Theorem multi_leg_exact : forall steps t,
  steps <> [] -> steps_ok t steps ->
  (has_jobs t = false -> (length t <= 2)%nat /\ fst (hd (0%nat, mkAct 0 0 0 0 0 dzero 0 0) steps) = 0%nat) ->
  total_distance m (apply_steps t steps) - (if has_jobs t then total_distance m t else 0) = multi_leg t steps.
Proof.
  intros [|[idx a] r] t Hne Hok Hempty; [congruence|]. cbn [Objectives.apply_steps Objectives.multi_leg].
  destruct Hok as (Hidx & Ha & Hr). cbn [hd fst] in Hempty.
  pose proof (leg_estimate_exact m t idx a Hidx Hempty) as H1.
  pose proof (multi_leg_exact_nonempty r _ (has_jobs_after_insert t idx a Ha) Hr) as H2.
  rewrite total_distance_reschedule in H2. lia.
Qed.
End Multi.

(* ================= multi-activity jobs, cost objective without waiting ================= *)
Section MultiCost.
Variable dur dist : Z -> Z -> Z.
Variable v : vehicle.
Hypothesis Hu1 : v_ptime v = v_psvc v.
Hypothesis Hu2 : v_psvc v = v_pwait v.

Lemma shadow_no_wait_head : forall steps t, shadow_no_wait dur t steps -> no_wait t.
Proof. intros [|[idx a] r] t H; cbn [shadow_no_wait] in H; tauto. Qed.

Lemma multi_cost_exact_nonempty : forall steps t,
  has_jobs t = true -> steps_ok dur t steps -> sched_ok dur t -> shadow_no_wait dur t steps ->
  cost_fitness dist v (Objectives.apply_steps dur t steps) - cost_fitness dist v t = multi_cost_sum dur dist v t steps.
Proof.
  induction steps as [|[idx a] r IH]; intros t Hj Hok Hs Hn; cbn [Objectives.apply_steps multi_cost_sum]; [lia|].
  destruct Hok as (Hidx & Ha & Hr). cbn [shadow_no_wait] in Hn. destruct Hn as [Hn0 Hn1].
  pose proof (shadow_no_wait_head r _ Hn1) as Hn1h.
  pose proof (cost_quote_exact_nowait dur dist v t idx a Hidx Hs Hn0 Hn1h Hu1 Hu2 ltac:(intros H; congruence)) as H1.
  unfold route_cost, cost_quote, cost_estimate_route in H1. rewrite Hj in H1.
  pose proof (IH _ (has_jobs_after_insert dur t idx a Ha) Hr (sched_ok_reschedule dur (insert_after t idx a)) Hn1) as H2.
  lia.
Qed.

(* the quote eval_multi accumulates (route-level estimate once + activity-level estimates on the shadow tours) equals the change of
   the cost objective, an unused tour counting as 0 before, when no shadow tour has waiting and the time rates are uniform *)
Theorem multi_cost_exact_nowait : forall steps t,
  steps <> [] -> steps_ok dur t steps -> sched_ok dur t -> shadow_no_wait dur t steps ->
  (has_jobs t = false -> (length t <= 2)%nat /\ fst (hd (0%nat, mkAct 0 0 0 0 0 dzero 0 0) steps) = 0%nat) ->
  cost_fitness dist v (Objectives.apply_steps dur t steps) - route_cost dist v t
  = cost_estimate_route v t + multi_cost_sum dur dist v t steps.
Proof.
  intros [|[idx a] r] t Hne Hok Hs Hn Hempty; [congruence|]. cbn [Objectives.apply_steps multi_cost_sum].
  destruct Hok as (Hidx & Ha & Hr). cbn [shadow_no_wait] in Hn. destruct Hn as [Hn0 Hn1]. cbn [hd fst] in Hempty.
  pose proof (shadow_no_wait_head r _ Hn1) as Hn1h.
  pose proof (cost_quote_exact_nowait dur dist v t idx a Hidx Hs Hn0 Hn1h Hu1 Hu2 Hempty) as H1.
  unfold cost_quote in H1.
  pose proof (multi_cost_exact_nonempty r _ (has_jobs_after_insert dur t idx a Ha) Hr
                (sched_ok_reschedule dur (insert_after t idx a)) Hn1) as H2.
  lia.
Qed.
End MultiCost.
