(* C20: time-dependent routing (excluded by the property): witness over the C16 provider model that the distance quote differs. *)
From Coq Require Import QArith Qround.
From VRP Require Import Base.Tac Model.Core Model.Objectives.
From VRP Require Model.Routing.
From VRP Require Import Model.GoalSel Model.GoalSelTD.
#[local] Open Scope Z_scope.

(* ================= time-dependent routing is excluded by the property: the distance quote is not exact under it ================= *)
(* a provider of Model/Routing.v (C16): one profile, two matrices (time stamps 0 and 100) over 3 locations; every duration is 10;
   every distance is 10 except 1 -> 0, which is 50 from time 100 on *)
Definition td_m0 : Routing.matrix := Routing.mkMz 0 (Some (0, 1)) [0; 10; 10; 10; 0; 10; 10; 10; 0] [0; 10; 10; 10; 0; 10; 10; 10; 0].
Definition td_m1 : Routing.matrix := Routing.mkMz 0 (Some (100, 1)) [0; 10; 10; 10; 0; 10; 10; 10; 0] [0; 10; 10; 50; 0; 10; 10; 10; 0].

(* start (leaves 0 at time 0) -> a stop at location 1 with 85 time units of service -> end at 0 *)
Definition td_tour (pr : Routing.provider) : list act :=
  td_reschedule (td_durD pr) [mkAct (-1) 0 0 0 0 dzero 0 0; mkAct 1 1 85 0 INF dzero 0 0; mkAct (-1) 0 0 0 INF dzero 0 0].
Definition td_x : act := mkAct 9 2 0 0 INF dzero 0 0.

Theorem td_distance_quote_differs :
  exists pr, Routing.build [td_m0; td_m1] = Routing.Ok pr /\
    (match pr with Routing.PAware _ _ => True | _ => False end) /\
    has_jobs (td_tour pr) = true /\
    td_leg_estimate (td_durD pr) (td_distD pr) (td_tour pr) 0 td_x = 10 /\
    td_total_distance (td_distD pr) (td_reschedule (td_durD pr) (insert_after (td_tour pr) 0 td_x))
    - td_total_distance (td_distD pr) (td_tour pr) = 50.
Proof.
  eexists. split; [vm_compute; reflexivity|]. split; [exact I|]. split; [vm_compute; reflexivity|].
  split; vm_compute; reflexivity.
Qed.

(* with a time-independent provider the same functions are the time-independent ones of Model/Core.v *)
Lemma td_resched_const : forall dur acts loc dep, td_resched (fun a b _ => dur a b) loc dep acts = resched_from dur loc dep acts.
Proof. induction acts as [|a r IH]; intros; cbn [td_resched resched_from]; [reflexivity|]. rewrite IH. reflexivity. Qed.
Lemma td_dist_from_const : forall dist acts loc dep, td_dist_from (fun a b _ => dist a b) loc dep acts = dist_from dist loc acts.
Proof. induction acts as [|a r IH]; intros; cbn [td_dist_from dist_from]; [reflexivity|]. rewrite IH. reflexivity. Qed.

Theorem td_time_independent_is_core : forall dur dist t idx x,
  td_reschedule (fun a b _ => dur a b) t = reschedule dur t /\
  td_total_distance (fun a b _ => dist a b) t = total_distance dist t /\
  td_leg_estimate (fun a b _ => dur a b) (fun a b _ => dist a b) t idx x = leg_estimate dist t idx x.
Proof.
  intros dur dist t idx x. split; [destruct t; [reflexivity|]; cbn [td_reschedule reschedule]; rewrite td_resched_const; reflexivity|].
  split; [destruct t; [reflexivity|]; cbn [td_total_distance total_distance]; apply td_dist_from_const|].
  unfold td_leg_estimate, leg_estimate. destruct (negb (has_jobs t)); destruct (skipn (S idx) t); reflexivity.
Qed.
