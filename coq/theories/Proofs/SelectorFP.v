(* C18 — the adaptive selector over IEEE-754 binary64 (Model/SelectorF.v :: fsel_run = the state machine of Model/Selector.v with
   the primitive-float slot machines and the binary64 reward inside): for every history of operator outcomes whose fitness values
   are finite with magnitude <= 2^1022 (fewer than 2^48 objectives, at most 2^52 searches), every sampler output (NaN / inf
   included) and every tie stream: no panic, every feedback names a configured operator, every reward handed to update is finite
   and in [0, 9 (2N + 1)], and every slot of both rows is the float slot machine run on exactly the rewards routed to it - hence a
   finite, valid learning state (Proofs/SlotFloatP.v :: float_state_valid) and valid sampler arguments. *)
From Coq Require Import ZArith Reals Floats Lia Lra List Bool.
From Flocq Require Import Core.Core IEEE754.BinarySingleNaN IEEE754.PrimFloat.
From VRP Require Import Model.SlotF Model.Reward Model.Selector Model.SelectorF.
From VRP Require Import Proofs.SlotFloatP Proofs.SelectorP Proofs.RewardFloatP.
Import ListNotations.

Section FSel.
  Variable ord : list pfloat -> list pfloat -> comparison.

  Lemma f_take_from e m from idx o : fb_from (f_take ord e m from idx o) = from.
  Proof. reflexivity. Qed.
  Lemma f_take_idx e m from idx o : fb_idx (f_take ord e m from idx o) = idx.
  Proof. reflexivity. Qed.

  (* executable form of the hypotheses on a history *)
  Definition round_ok (N : nat) (r : fenv * list (foutcome * pick)) : bool :=
    (match fe_best (fst r) with Some fb => fits_ok fb | None => true end)
    && forallb (fun job => fits_ok (fo_init (fst job)) && fits_ok (fo_new (fst job)) && Nat.leb (length (fo_new (fst job))) N) (snd r).

  Lemma round_ok_R N r : round_ok N r = true ->
    env_ok (fst r) /\ Forall (fun job => outcome_ok N (fst job)) (snd r).
  Proof.
    unfold round_ok. intros H. apply andb_true_iff in H. destruct H as [Hb Hj]. split.
    - intros fb Hfb. rewrite Hfb in Hb. apply fits_ok_R, Hb.
    - apply Forall_forall. intros job Hin. rewrite forallb_forall in Hj. specialize (Hj job Hin).
      apply andb_true_iff in Hj. destruct Hj as [Hj Hl]. apply andb_true_iff in Hj. destruct Hj as [Hi Hn].
      split; [apply fits_ok_R, Hi|]. split; [apply fits_ok_R, Hn | apply Nat.leb_le, Hl].
  Qed.

  Lemma fbounded_one : fbounded 1%float = true.
  Proof. vm_compute. reflexivity. Qed.

  Theorem fsel_state_valid nops N rounds : (0 < nops)%nat -> (Z.of_nat N < 2 ^ 48)%Z ->
    forallb (round_ok N) rounds = true -> (Z.of_nat (njobs rounds) <= 2 ^ 52)%Z ->
    exists s' fbs, fsel_run ord nops rounds = Some (s', fbs) /\ length fbs = njobs rounds /\
      Forall (fun fb => (fb_idx fb < nops)%nat /\ PrimFloat.is_finite (fb_reward fb) = true /\
                        (0 <=? fb_reward fb)%float = true /\ fbounded (fb_reward fb) = true) fbs /\
      forall st k, (k < nops)%nat ->
        exists sl, nth_error (sel_row st s') k = Some sl /\ sl = fslot_run 1%float (routed st k fbs) /\
          f_n sl = length (routed st k fbs) /\
          PrimFloat.is_finite (f_alpha sl) = true /\ PrimFloat.is_finite (f_beta sl) = true /\
          PrimFloat.is_finite (f_mu sl) = true /\ PrimFloat.is_finite (f_v sl) = true /\
          (0 <? f_alpha sl)%float = true /\ (10 <=? f_beta sl)%float = true /\
          (0 <? f_v sl)%float = true /\ (f_v sl <=? f_beta sl)%float = true /\
          PrimFloat.is_finite (1 / f_beta sl)%float = true /\ (0 <? 1 / f_beta sl)%float = true.
  Proof.
    intros Hpos HN Hok Hjobs. unfold fsel_run, fsel_new.
    destruct (sel_run_from_new (fslot_new 1%float) fslot_update (f_from_of ord) (f_take ord) f_take_from f_take_idx nops rounds Hpos)
      as (s' & fbs & Hr & Hwf & Hall & Hrep).
    exists s', fbs. split; [exact Hr|].
    pose proof (sel_run_length fslot_update (f_from_of ord) (f_take ord) f_take_from f_take_idx rounds _ _ _ Hr) as Hlen.
    split; [exact Hlen|].
    assert (Hrew : Forall (fun fb => PrimFloat.is_finite (fb_reward fb) = true /\ (0 <=? fb_reward fb)%float = true /\
                                     fbounded (fb_reward fb) = true) fbs).
    { apply (sel_run_feedbacks fslot_update (f_from_of ord) (f_take ord) f_take_from f_take_idx _ rounds _ _ _) with (2 := Hr).
      apply Forall_forall. intros r Hin. rewrite forallb_forall in Hok. destruct (round_ok_R N r (Hok r Hin)) as [He Hjs].
      eapply Forall_impl; [|exact Hjs]. intros job Ho m from idx. cbn [f_take fb_reward].
      destruct (f_reward_range ord (fst r) m (fst job) N He Ho HN) as [Hf [B0 _]].
      split; [apply is_finite_Ffin, Hf|]. split; [|apply (f_reward_fbounded ord _ _ _ N He Ho HN)].
      apply leb_real; [exact Ffin_0 | exact Hf | rewrite FR_0; exact B0]. }
    split.
    { rewrite Forall_forall in *. intros fb Hin. split; [apply Hall, Hin | apply Hrew, Hin]. }
    intros st k Hk. eexists. split; [apply Hrep; exact Hk|]. split; [reflexivity|].
    change (fold_left fslot_update (routed st k fbs) (fslot_new 1%float)) with (fslot_run 1%float (routed st k fbs)).
    set (rs := routed st k fbs).
    assert (Hl : (Z.of_nat (length rs) <= 2 ^ 52)%Z).
    { pose proof (routed_length_le st k fbs). fold rs in H. lia. }
    assert (Hb : Forall (fun r => fbounded r = true) rs).
    { apply Forall_forall. intros r Hin. unfold rs, routed in Hin. apply in_map_iff in Hin. destruct Hin as (fb & <- & Hfb).
      apply filter_In in Hfb. rewrite Forall_forall in Hrew. apply (Hrew fb), Hfb. }
    destruct (float_state_valid 1%float rs Hl fbounded_one Hb) as (Hn & Ha & Hbe & Hmu & Hv & Hv0 & Hvb & _).
    destruct (float_alpha_exact 1%float rs Hl) as (_ & _ & Ha0).
    destruct (float_beta_valid 1%float rs Hl fbounded_one Hb) as (_ & Hb10 & _ & Hs1 & Hs2).
    repeat split; assumption.
  Qed.

  (* ... and the arguments of the two sampler calls of every slot are valid for every admissible gamma draw *)
  Corollary fsel_sampler_arguments_valid nops N rounds g : (0 < nops)%nat -> (Z.of_nat N < 2 ^ 48)%Z ->
    forallb (round_ok N) rounds = true -> (Z.of_nat (njobs rounds) <= 2 ^ 52)%Z -> gamma_ok g = true ->
    exists s' fbs, fsel_run ord nops rounds = Some (s', fbs) /\
      forall st k, (k < nops)%nat ->
        exists sl shape scale mean sd, nth_error (sel_row st s') k = Some sl /\ fsample_args sl g = [shape; scale; mean; sd] /\
          PrimFloat.is_finite shape = true /\ (0 <? shape)%float = true /\
          PrimFloat.is_finite scale = true /\ (0 <? scale)%float = true /\
          PrimFloat.is_finite mean = true /\ PrimFloat.is_finite sd = true /\ (0 <=? sd)%float = true.
  Proof.
    intros Hpos HN Hok Hjobs Hg.
    destruct (fsel_state_valid nops N rounds Hpos HN Hok Hjobs) as (s' & fbs & Hr & Hlen & Hall & Hslots).
    exists s', fbs. split; [exact Hr|]. intros st k Hk. destruct (Hslots st k Hk) as (sl & Hnth & -> & _).
    set (rs := routed st k fbs).
    assert (Hl : (Z.of_nat (length rs) <= 2 ^ 52)%Z).
    { pose proof (routed_length_le st k fbs). fold rs in H. lia. }
    assert (Hb : Forall (fun r => fbounded r = true) rs).
    { apply Forall_forall. intros r Hin. unfold rs, routed in Hin. apply in_map_iff in Hin. destruct Hin as (fb & <- & Hfb).
      apply filter_In in Hfb. rewrite Forall_forall in Hall. apply (Hall fb), Hfb. }
    destruct (float_sampler_valid 1%float rs g Hl fbounded_one Hb (or_intror Hg)) as (shape & scale & mean & sd & Hargs & Hrest).
    exists (fslot_run 1%float rs), shape, scale, mean, sd. split; [exact Hnth|]. split; [exact Hargs | exact Hrest].
  Qed.
End FSel.

(* non-vacuity of the hypotheses of fsel_state_valid: a history with fitness values of magnitude 2^1022 and 2^1021, both rows used,
   a search_many round with two solutions, a sampler returning NaN and ties; evaluated by the kernel *)
Definition ex_rounds : list (fenv * list (foutcome * pick)) :=
  [ (mkFenv (Some [0x1p1022%float]) 0x1p-4%float,
     [ (mkFout [0x1p1022%float] [0x1p1021%float] 3, mkPick [Base.TotalCmp.key 4607182418800017408; Base.TotalCmp.key 4611686018427387904] []) ]);
    (mkFenv (Some [0x1p1021%float]) 0x1p-4%float,
     [ (mkFout [0x1p1022%float] [(-0x1p1022)%float] 0, mkPick [Base.TotalCmp.key 9221120237041090560; Base.TotalCmp.key 4607182418800017408] []);
       (mkFout [0x1p1021%float] [0x1p1021%float] 1, mkPick [Base.TotalCmp.key 0; Base.TotalCmp.key 0] [true]) ]) ].

Example fsel_hypotheses_satisfiable :
  forallb (round_ok 1) ex_rounds = true /\ (Z.of_nat (njobs ex_rounds) <= 2 ^ 52)%Z /\
  match fsel_run flex 2 ex_rounds with
  | Some (s, fbs) =>
      map (fun fb => (fb_from fb, fb_to fb, fb_idx fb, bits_of_f (fb_reward fb))) fbs =
        [(BestKnown, BestKnown, 1%nat, 4616752568008179712%Z); (Diverse, BestKnown, 0%nat, 4622945017495814144%Z); (BestKnown, Diverse, 1%nat, 0%Z)] /\
      map f_n (sel_best s) = [0%nat; 2%nat] /\ map f_n (sel_div s) = [1%nat; 0%nat]
  | None => False
  end.
Proof. split; [vm_compute; reflexivity|]. split; [vm_compute; discriminate|]. vm_compute. repeat split; reflexivity. Qed.
