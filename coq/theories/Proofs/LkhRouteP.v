(* Proofs about Model/LkhRoute.v: rearrange_route applies the permutation it is given.
   For a path that is a permutation of 0..n (what lkh_optimize returns for the identity path: C17_lkh_permutation) the in-place
   swap loop leaves activity path[j] of the old tour at position j for every j < n and does not touch the activities behind the
   range; with path[0] = 0 (C17_lkh_start) the start stays.  So the tour handed back to the solver is a rearrangement of the same
   activities. *)
From Coq Require Import Permutation Floats.
From VRP Require Import Base.Tac Model.Lkh Model.LkhG Model.LkhRoute Proofs.LkhP Proofs.LkhGP.
Local Open Scope nat_scope.

Section ListUpdate.
  Context {A : Type}.
  Variable d : A.

  Lemma set_nth_length (x : A) : forall l i, length (set_nth i x l) = length l.
  Proof. induction l as [|y l IH]; intros [|i]; cbn [set_nth length]; auto. Qed.

  Lemma nth_set_nth_eq (x : A) : forall l i, i < length l -> nth i (set_nth i x l) d = x.
  Proof.
    induction l as [|y l IH]; intros [|i] H; cbn [length] in H; try lia; cbn [set_nth nth]; [reflexivity|].
    apply IH. lia.
  Qed.

  Lemma nth_set_nth_neq (x : A) : forall l i k, k <> i -> nth k (set_nth i x l) d = nth k l d.
  Proof.
    induction l as [|y l IH]; intros [|i] [|k] H; cbn [set_nth nth]; try reflexivity; try lia.
    apply IH. lia.
  Qed.

  Lemma swap_at_length i j (l : list A) : length (swap_at d i j l) = length l.
  Proof. unfold swap_at. rewrite !set_nth_length. reflexivity. Qed.

  Lemma nth_swap_l i j (l : list A) : i < length l -> j < length l -> nth i (swap_at d i j l) d = nth j l d.
  Proof. intros Hi Hj. unfold swap_at. apply nth_set_nth_eq. rewrite set_nth_length. exact Hi. Qed.

  Lemma nth_swap_r i j (l : list A) : i < length l -> j < length l -> nth j (swap_at d i j l) d = nth i l d.
  Proof.
    intros Hi Hj. unfold swap_at. destruct (Nat.eq_dec j i) as [-> | Hne].
    - apply nth_set_nth_eq. rewrite set_nth_length. exact Hi.
    - rewrite nth_set_nth_neq by exact Hne. apply nth_set_nth_eq. exact Hj.
  Qed.

  Lemma nth_swap_other i j k (l : list A) : k <> i -> k <> j -> nth k (swap_at d i j l) d = nth k l d.
  Proof. intros H1 H2. unfold swap_at. rewrite !nth_set_nth_neq by assumption. reflexivity. Qed.
End ListUpdate.

Lemma index_of_some x : forall p, In x p -> exists i, index_of x p = Some i.
Proof.
  induction p as [|y p IH]; intros H; [destruct H|]. cbn [index_of].
  destruct (y =? x) eqn:E; [exists 0; reflexivity|].
  destruct H as [-> | H]; [rewrite Nat.eqb_refl in E; discriminate|].
  destruct (IH H) as [i Hi]. exists (S i). rewrite Hi. reflexivity.
Qed.

Section Rearrange.
  Context {A : Type}.
  Variable d : A.
  Variable n : nat.
  Variable acts0 : list A.
  Variable path0 : list nat.
  Hypothesis Hperm : Permutation path0 (seq 0 n).
  Hypothesis Hn : n <= length acts0.

  (* everything at positions >= k has been processed *)
  Record inv (k : nat) (st : list A * list nat) : Prop := {
    inv_la : length (fst st) = length acts0;
    inv_lp : length (snd st) = n;
    inv_rng : forall a, a < n -> nth a (snd st) 0 < n;
    inv_inj : forall a b, a < n -> b < n -> nth a (snd st) 0 = nth b (snd st) 0 -> a = b;
    inv_sur : forall x, x < n -> exists a, a < n /\ nth a (snd st) 0 = x;
    inv_fix : forall j, k <= j -> j < n -> nth j (snd st) 0 = j;
    inv_tgt : forall j, j < n -> nth (nth j (snd st) 0) (fst st) d = nth (nth j path0 0) acts0 d;
    inv_out : forall j, n <= j -> nth j (fst st) d = nth j acts0 d
  }.

  Lemma path0_len : length path0 = n.
  Proof. rewrite (Permutation_length Hperm). apply seq_length. Qed.

  Lemma inv_init : inv n (acts0, path0).
  Proof.
    pose proof path0_len as Hl.
    assert (ND : NoDup path0) by (eapply Permutation_NoDup; [apply Permutation_sym; exact Hperm | apply seq_NoDup]).
    constructor; cbn [fst snd]; [reflexivity | exact Hl | | | | | intros; reflexivity | intros; reflexivity].
    - intros a Ha. assert (In (nth a path0 0) path0) by (apply nth_In; lia).
      apply (Permutation_in _ Hperm) in H. apply in_seq in H. lia.
    - intros a b Ha Hb E. apply (proj1 (NoDup_nth path0 0) ND); lia.
    - intros x Hx. assert (In x path0).
      { apply (Permutation_in _ (Permutation_sym Hperm)). apply in_seq. lia. }
      destruct (In_nth _ _ 0 H) as [a [Ha E]]. exists a. split; [lia | exact E].
    - intros j H1 H2. lia.
  Qed.

  Lemma inv_step i st : i < n -> inv (S i) st -> inv i (rearr_step d st i).
  Proof.
    intros Hi [Hla Hlp Hrng Hinj Hsur Hfix Htgt Hout]. destruct st as [acts path]. cbn [fst snd] in *.
    unfold rearr_step. cbn [fst snd]. set (c := nth i path 0).
    destruct (c =? i) eqn:Ec.
    - apply Nat.eqb_eq in Ec. constructor; cbn [fst snd]; auto.
      intros j H1 H2. destruct (Nat.eq_dec j i) as [-> | Hne]; [exact Ec | apply Hfix; lia].
    - apply Nat.eqb_neq in Ec.
      assert (Hcn : c < n) by (apply Hrng; exact Hi).
      assert (Hci : c < i).
      { destruct (le_lt_dec i c) as [Hle | Hlt]; [|exact Hlt]. exfalso.
        assert (Hfc : nth c path 0 = c) by (apply Hfix; lia).
        assert (c = i) by (apply Hinj; try lia; fold c; lia). lia. }
      destruct (Hsur i Hi) as [ipos0 [Hip0 Hipv0]].
      assert (Hin : In i path). { rewrite <- Hipv0. apply nth_In. lia. }
      destruct (index_of_some i path Hin) as [ipos Hidx]. rewrite Hidx.
      pose proof (index_of_lt _ _ _ Hidx) as Hipl. rewrite Hlp in Hipl.
      pose proof (index_of_nth _ _ _ Hidx) as Hipv.
      assert (Hipi : ipos < i).
      { destruct (lt_eq_lt_dec ipos i) as [[H | H] | H]; [exact H | |].
        - subst ipos. fold c in Hipv. lia.
        - assert (nth ipos path 0 = ipos) by (apply Hfix; lia). lia. }
      (* the new path as a function *)
      assert (Pi : nth i (swap_at 0 i ipos path) 0 = i).
      { rewrite nth_swap_l by lia. exact Hipv. }
      assert (Pp : nth ipos (swap_at 0 i ipos path) 0 = c).
      { rewrite nth_swap_r by lia. reflexivity. }
      assert (Po : forall k, k <> i -> k <> ipos -> nth k (swap_at 0 i ipos path) 0 = nth k path 0).
      { intros k H1 H2. apply nth_swap_other; assumption. }
      constructor; cbn [fst snd].
      + rewrite swap_at_length. exact Hla.
      + rewrite swap_at_length. exact Hlp.
      + intros a Ha. destruct (Nat.eq_dec a i) as [-> | H1]; [rewrite Pi; exact Hi|].
        destruct (Nat.eq_dec a ipos) as [-> | H2]; [rewrite Pp; exact Hcn|]. rewrite Po by assumption. apply Hrng. exact Ha.
      + intros a b Ha Hb E.
        destruct (Nat.eq_dec a i) as [-> | A1]; destruct (Nat.eq_dec b i) as [-> | B1]; try reflexivity.
        * rewrite Pi in E. destruct (Nat.eq_dec b ipos) as [-> | B2]; [rewrite Pp in E; lia|].
          rewrite Po in E by assumption. exfalso. apply B2. apply Hinj; first [lia | congruence].
        * rewrite Pi in E. destruct (Nat.eq_dec a ipos) as [-> | A2]; [rewrite Pp in E; lia|].
          rewrite Po in E by assumption. exfalso. apply A2. apply Hinj; first [lia | congruence].
        * destruct (Nat.eq_dec a ipos) as [-> | A2]; destruct (Nat.eq_dec b ipos) as [-> | B2]; try reflexivity.
          -- rewrite Pp, Po in E by assumption. exfalso. apply B1. apply Hinj; first [lia | fold c; congruence].
          -- rewrite Pp, Po in E by assumption. exfalso. apply A1. apply Hinj; first [lia | fold c; congruence].
          -- rewrite !Po in E by assumption. apply Hinj; assumption.
      + intros x Hx. destruct (Hsur x Hx) as [a [Ha Ea]].
        destruct (Nat.eq_dec a i) as [-> | A1]; [exists ipos; split; [lia | rewrite Pp; exact Ea]|].
        destruct (Nat.eq_dec a ipos) as [-> | A2]; [exists i; split; [lia | rewrite Pi; congruence]|].
        exists a. split; [exact Ha | rewrite Po by assumption; exact Ea].
      + intros j H1 H2. destruct (Nat.eq_dec j i) as [-> | Hne]; [exact Pi|].
        rewrite Po; [apply Hfix; lia | exact Hne | lia].
      + intros j Hj.
        destruct (Nat.eq_dec j i) as [-> | J1].
        { rewrite Pi. rewrite nth_swap_r by lia. fold c. apply (Htgt i Hi). }
        destruct (Nat.eq_dec j ipos) as [-> | J2].
        { rewrite Pp. rewrite nth_swap_l by lia. rewrite <- Hipv at 1. apply (Htgt ipos). lia. }
        rewrite Po by assumption. rewrite nth_swap_other; [apply Htgt; exact Hj | |].
        * intros E. apply J1. apply Hinj; first [lia | exact E].
        * intros E. apply J2. apply Hinj; first [lia | congruence].
      + intros j Hj. rewrite nth_swap_other by lia. apply Hout. exact Hj.
  Qed.

  Lemma inv_fold : forall k st, k <= n -> inv k st -> inv 0 (fold_left (rearr_step d) (rev (seq 0 k)) st).
  Proof.
    induction k as [|k IH]; intros st Hk Hinv; [exact Hinv|].
    rewrite seq_S, rev_app_distr. cbn [rev app fold_left plus].
    apply IH; [lia|]. apply inv_step; [lia | exact Hinv].
  Qed.

  Theorem rearrange_spec :
    length (rearrange d n acts0 path0) = length acts0
    /\ (forall j, j < n -> nth j (rearrange d n acts0 path0) d = nth (nth j path0 0) acts0 d)
    /\ (forall j, n <= j -> nth j (rearrange d n acts0 path0) d = nth j acts0 d).
  Proof.
    unfold rearrange. pose proof (inv_fold n (acts0, path0) (le_n n) inv_init) as [Hla _ _ _ _ Hfix Htgt Hout].
    split; [exact Hla|]. split; [|exact Hout].
    intros j Hj. rewrite <- (Htgt j Hj). rewrite (Hfix j); [reflexivity | lia | exact Hj].
  Qed.
End Rearrange.

(* the rebuilt tour holds exactly the activities of the old one *)
Lemma nth_ext_perm {A} (d : A) (n : nat) (l l' : list A) (path : list nat) :
  Permutation path (seq 0 n) -> length l = n -> length l' = n ->
  (forall j, j < n -> nth j l' d = nth (nth j path 0) l d) -> Permutation l' l.
Proof.
  intros HP Hl Hl' H.
  assert (E : l' = map (fun k => nth k l d) path).
  { apply (nth_ext _ _ d d).
    - rewrite map_length, (Permutation_length HP), seq_length. exact Hl'.
    - intros j Hj. rewrite Hl' in Hj. rewrite (H j Hj).
      rewrite (nth_indep (map (fun k => nth k l d) path) d (nth 0 l d));
        [|rewrite map_length, (Permutation_length HP), seq_length; exact Hj].
      rewrite (map_nth (fun k => nth k l d) path 0 j). reflexivity. }
  rewrite E. eapply Permutation_trans; [apply Permutation_map; exact HP|].
  assert (G : map (fun k => nth k l d) (seq 0 n) = l).
  { subst n. clear. apply (nth_ext _ _ d d); [rewrite map_length, seq_length; reflexivity|].
    intros j Hj. rewrite map_length, seq_length in Hj.
    rewrite (nth_indep (map (fun k => nth k l d) (seq 0 (length l))) d (nth 0 l d)) by (rewrite map_length, seq_length; exact Hj).
    rewrite (map_nth (fun k => nth k l d) (seq 0 (length l)) 0 j). rewrite seq_nth by exact Hj. reflexivity. }
  rewrite G. apply Permutation_refl.
Qed.

Theorem rearrange_whole_tour_perm {A} (d : A) (acts : list A) (path : list nat) :
  Permutation path (seq 0 (length acts)) -> Permutation (rearrange d (length acts) acts path) acts.
Proof.
  intros HP. destruct (rearrange_spec d (length acts) acts path HP (le_n _)) as [Hl [Hj _]].
  eapply nth_ext_perm; eauto.
Qed.

(* ------------------------------------------------------------------ optimize_route: the tour handed back *)
Lemma route_range_le locs : route_range locs <= length locs.
Proof. unfold route_range. destruct locs as [|s r]; [cbn; lia|]. destruct (last (s :: r) s =? s); lia. Qed.

Theorem route_apply_spec locs_all q :
  Permutation q (seq 0 (route_range locs_all)) ->
  let n := route_range locs_all in
  let r := route_apply locs_all q in
  r = firstn n r ++ seq n (length locs_all - n)
  /\ Permutation (firstn n r) (seq 0 n)
  /\ firstn n r = q
  /\ Permutation r (seq 0 (length locs_all)).
Proof.
  intros HP n r. pose proof (route_range_le locs_all) as Hle. fold n in Hle, HP.
  assert (Hq : length q = n) by (rewrite (Permutation_length HP); apply seq_length).
  assert (Hr : r = q ++ seq n (length locs_all - n)).
  { unfold r, route_apply. fold n. destruct (list_eqb q (seq 0 n)) eqn:E.
    - apply list_eqb_eq in E. rewrite E. rewrite <- seq_app. f_equal. lia.
    - destruct (rearrange_spec 0 n (seq 0 (length locs_all)) q HP ltac:(rewrite seq_length; exact Hle)) as [Hl [Hj Ho]].
      rewrite seq_length in Hl.
      apply (nth_ext _ _ 0 0); [rewrite Hl, app_length, seq_length; lia|].
      intros j Hjl. rewrite Hl in Hjl. destruct (lt_dec j n) as [Hlt | Hge].
      + rewrite (Hj j Hlt). rewrite app_nth1 by lia.
        assert (nth j q 0 < n).
        { assert (In (nth j q 0) q) by (apply nth_In; lia). apply (Permutation_in _ HP) in H. apply in_seq in H. lia. }
        rewrite seq_nth by lia. reflexivity.
      + rewrite (Ho j ltac:(lia)). rewrite app_nth2 by lia. rewrite !seq_nth by lia. lia. }
  assert (Hf : firstn n r = q).
  { rewrite Hr. rewrite <- Hq. rewrite firstn_app, Nat.sub_diag, firstn_all. cbn [firstn]. apply app_nil_r. }
  split; [rewrite Hf; exact Hr|]. split; [rewrite Hf; exact HP|]. split; [exact Hf|].
  rewrite Hr. replace (length locs_all) with (n + (length locs_all - n)) at 2 by lia. rewrite seq_app.
  apply Permutation_app; [exact HP | apply Permutation_refl].
Qed.

(* with the LKH search in front: whatever the cost arithmetic, a tour that comes back from optimize_route holds the same activities,
   the activities outside the LKH range (the end at the depot) stay where they are, and the start stays first *)
Theorem route_rebuilt C (K : cops C) cost nb ho reject :
  (forall l l', ho l = Some l' -> forall e, In e l' -> In e l) ->
  forall locs_all ofuel q,
  goptimize C K cost nb ho reject ofuel (seq 0 (route_range locs_all)) = Found q ->
  let n := route_range locs_all in
  let r := route_apply locs_all q in
  Permutation r (seq 0 (length locs_all))
  /\ (forall j, n <= j -> j < length locs_all -> nth j r 0 = j)
  /\ (0 < n -> nth 0 r 0 = 0).
Proof.
  intros Hho locs_all ofuel q H n r.
  destruct (goptimize_ok C K cost nb ho reject Hho ofuel _ q H) as [HP Hhd]. fold n in HP, Hhd.
  destruct (route_apply_spec locs_all q HP) as [Hr [_ [Hf Hperm]]]. fold n r in Hr, Hf, Hperm.
  assert (Hq : length q = n) by (rewrite (Permutation_length HP); apply seq_length).
  split; [exact Hperm|]. split.
  - intros j H1 H2. rewrite Hr, Hf. rewrite app_nth2 by lia. rewrite seq_nth by lia. lia.
  - intros Hn. rewrite Hr, Hf. rewrite app_nth1 by lia. destruct n as [|m]; [lia|]. cbn [seq hd_error] in Hhd.
    destruct q as [|a q']; [discriminate|]. cbn [hd_error] in Hhd. inversion Hhd. reflexivity.
Qed.

(* ------------------------------------------------------------------ witnesses: the solver's CostMatrix makes the search cycle *)
Lemma route_cycle_witness :
  run_lkh_route false (euclid [(2, 0); (3, 2); (3, 3); (0, 2); (2, 3)]%Z) [0; 3; 1; 2; 4; 0] = (4, [])
  /\ run_lkh_route false (euclid [(325, 385); (816, 111); (791, 190); (475, 483); (992, 935); (162, 268)]%Z) [0; 3; 5; 2; 2; 1; 4; 0] = (4, [])
  /\ run_lkh_route true (euclid [(2, 0); (3, 2); (3, 3); (0, 2); (2, 3)]%Z) [0; 3; 1; 2; 4; 0] = (0, [0; 1; 4; 3; 2; 5]).
Proof. vm_compute. repeat split; reflexivity. Qed.

Lemma rearrange_example : rearrange 0 5 [10; 11; 12; 13; 14; 15] [0; 3; 1; 4; 2] = [10; 13; 11; 14; 12; 15].
Proof. vm_compute. reflexivity. Qed.
