(* C06: completeness of the whole single-job evaluation (route-level pre-checks + exhaustive scan) on closed tours for jobs with
   one place, one window and pure static demand (delivery only, pickup only, or none). *)
From VRP Require Import Base.Tac Model.Core Spec.Feasible Proofs.CoreTimeP Proofs.CoreCapP Proofs.CoreEvalP Proofs.CoreScanP
  Proofs.CoreScanCompleteP.

Lemma fut_states_length : forall t, length (fut_states t) = length t.
Proof. intros t. unfold fut_states. rewrite rev_length, run_max_length, rev_length. unfold cur_states. apply currents_length. Qed.

Lemma fut_states_mono : forall t i k, (i <= k < length t)%nat -> nthz (fut_states t) k <= nthz (fut_states t) i.
Proof.
  intros t i k H. unfold nthz, fut_states.
  set (cs := cur_states t). assert (Hl : length cs = length t) by (unfold cs, cur_states; apply currents_length).
  set (R := run_max (last cs 0) (rev cs)). assert (HR : length R = length t) by (unfold R; rewrite run_max_length, rev_length; exact Hl).
  rewrite !rev_nth by lia. rewrite HR. unfold R. apply run_max_mono. rewrite rev_length. lia.
Qed.

Lemma past_le_cap : forall v t k, load_feasible (v_cap v) t = true -> (k < length t)%nat -> 0 <= v_cap v -> nthz (past_states t) k <= v_cap v.
Proof.
  intros v t k Hf Hk Hc. apply load_feasible_split in Hf as [_ Hf].
  destruct (split_at t k (mkAct 0 0 0 0 0 dzero 0 0) Hk) as [Et Hl].
  set (A := firstn k t) in *. set (q := nth k t (mkAct 0 0 0 0 0 dzero 0 0)) in *. set (B := skipn (S k) t) in *.
  rewrite <- Hl. rewrite Et. rewrite Et in Hf. rewrite (cur_split A q B) in Hf. apply Forall_app in Hf as [HfA _].
  destruct (past_attained A q B) as [H|H]; [lia|]. rewrite Forall_forall in HfA. apply HfA; try exact H.
Qed.

Lemma fut_le_cap : forall v t k, load_feasible (v_cap v) t = true -> (k < length t)%nat -> nthz (fut_states t) k <= v_cap v.
Proof.
  intros v t k Hf Hk. apply load_feasible_split in Hf as [_ Hf].
  destruct (split_at t k (mkAct 0 0 0 0 0 dzero 0 0) Hk) as [Et Hl].
  set (A := firstn k t) in *. set (q := nth k t (mkAct 0 0 0 0 0 dzero 0 0)) in *. set (B := skipn (S k) t) in *.
  rewrite <- Hl. rewrite Et. rewrite Et in Hf. rewrite (cur_split A q B) in Hf. apply Forall_app in Hf as [HfA HfB].
  pose proof (fut_attained A q B) as H. destruct H as [H|H].
  - rewrite <- H. destruct (cA_shape A q B) as (X & HX & _). rewrite HX in HfA. apply Forall_app in HfA as [_ HfA].
    inversion HfA; assumption.
  - rewrite Forall_forall in HfB. apply HfB; try exact H.
Qed.

Lemma cur_le_fut : forall t k, (k < length t)%nat -> nthz (cur_states t) k <= nthz (fut_states t) k.
Proof.
  intros t k Hk. destruct (split_at t k (mkAct 0 0 0 0 0 dzero 0 0) Hk) as [Et Hl].
  set (A := firstn k t) in *. set (q := nth k t (mkAct 0 0 0 0 0 dzero 0 0)) in *. set (B := skipn (S k) t) in *.
  rewrite <- Hl. rewrite Et. rewrite (cur_at A q B). apply (in_cB_le_fut A q B). left. reflexivity.
Qed.

(* pure static demand: delivery only, pickup only, or nothing *)
Definition pure_static (d : demand) : Prop :=
  0 <= d_ps d /\ 0 <= d_ds d /\ d_pd d = 0 /\ d_dd d = 0 /\ (d_ps d = 0 \/ d_ds d = 0).

Lemma pure_static_simple : forall d, pure_static d -> simple_demand d.
Proof. intros d (H1 & H2 & H3 & H4 & _). unfold simple_demand. repeat split; lia. Qed.

(* the route-level capacity pre-check passes whenever some position passes the activity-level test *)
Lemma route_cap_ok : forall v t j k,
  pure_static (s_dem j) -> 0 <= v_cap v -> (k < length t)%nat -> t <> [] ->
  load_feasible (v_cap v) t = true ->
  demand_violation v t k (s_dem j) true = None ->
  eval_route_cap v t j = true.
Proof.
  intros v t j k (H1 & H2 & H3 & H4 & Hk1) Hc Hk Hne Hf Hv.
  assert (Hlen : (0 < length t)%nat) by (destruct t; [congruence|cbn; lia]).
  unfold eval_route_cap.
  pose proof (past_states_mono t 0 k ltac:(lia)) as HP.
  pose proof (fut_states_mono t k (length t - 1) ltac:(lia)) as HF.
  pose proof (fut_le_cap v t 0 Hf ltac:(lia)) as HF0.
  pose proof (fut_le_cap v t (length t - 1) Hf ltac:(lia)) as HFl.
  pose proof (cur_le_fut t 0 ltac:(lia)) as HC0.
  pose proof (cur_le_fut t (length t - 1) ltac:(lia)) as HCl.
  pose proof (past_le_cap v t (length t - 1) Hf ltac:(lia) Hc) as HPl.
  unfold demand_violation in *. unfold d_change in *. rewrite H3, H4 in *.
  destruct Hk1 as [Hps|Hds].
  - (* delivery only (or nothing): no violation at index 0 *)
    rewrite Hps in *.
    destruct (negb (d_ds (s_dem j) =? 0) && (v_cap v <? nthz (past_states t) k + d_ds (s_dem j))) eqn:E1; [discriminate|].
    destruct (negb (d_ds (s_dem j) =? 0) && (v_cap v <? nthz (past_states t) 0 + d_ds (s_dem j))) eqn:E2; [lia|].
    cbn [Z.eqb negb andb].
    destruct (negb (0 + 0 - d_ds (s_dem j) - 0 =? 0) &&
              ((v_cap v <? nthz (fut_states t) 0 + (0 + 0 - d_ds (s_dem j) - 0)) || (v_cap v <? nthz (cur_states t) 0 + (0 + 0 - d_ds (s_dem j) - 0)))) eqn:E3; [lia|].
    reflexivity.
  - (* pickup only: no violation at the last index *)
    rewrite Hds in *. cbn [Z.eqb negb andb] in *.
    destruct (negb (d_ps (s_dem j) =? 0) && (v_cap v <? nthz (fut_states t) k + d_ps (s_dem j))) eqn:E1; [discriminate|].
    destruct (negb (d_ps (s_dem j) =? 0) && (v_cap v <? nthz (fut_states t) 0 + d_ps (s_dem j))) eqn:E0.
    + destruct (negb (d_ps (s_dem j) =? 0) && (v_cap v <? nthz (fut_states t) (length t - 1) + d_ps (s_dem j))) eqn:E2; [lia|].
      destruct (negb (d_ps (s_dem j) + 0 - 0 - 0 =? 0) &&
                ((v_cap v <? nthz (fut_states t) (length t - 1) + (d_ps (s_dem j) + 0 - 0 - 0)) ||
                 (v_cap v <? nthz (cur_states t) (length t - 1) + (d_ps (s_dem j) + 0 - 0 - 0)))) eqn:E3; [lia|].
      reflexivity.
    + destruct (negb (d_ps (s_dem j) + 0 - 0 - 0 =? 0) &&
                ((v_cap v <? nthz (fut_states t) 0 + (d_ps (s_dem j) + 0 - 0 - 0)) ||
                 (v_cap v <? nthz (cur_states t) 0 + (d_ps (s_dem j) + 0 - 0 - 0)))) eqn:E3; [|reflexivity].
      destruct (negb (d_ps (s_dem j) =? 0) && (v_cap v <? nthz (fut_states t) (length t - 1) + d_ps (s_dem j))) eqn:E2; [lia|].
      destruct (negb (d_ps (s_dem j) + 0 - 0 - 0 =? 0) &&
                ((v_cap v <? nthz (fut_states t) (length t - 1) + (d_ps (s_dem j) + 0 - 0 - 0)) ||
                 (v_cap v <? nthz (cur_states t) (length t - 1) + (d_ps (s_dem j) + 0 - 0 - 0)))) eqn:E4; [lia|].
      reflexivity.
Qed.

(* ---- static demand in general: a stop that may deliver AND pick up static amounts (as merged jobs do) ---- *)
Definition static_demand (d : demand) : Prop := 0 <= d_ps d /\ 0 <= d_ds d /\ d_pd d = 0 /\ d_dd d = 0.

Lemma pure_static_static : forall d, pure_static d -> static_demand d.
Proof. intros d (H1 & H2 & H3 & H4 & _). unfold static_demand. tauto. Qed.

Lemma static_demand_simple : forall d, static_demand d -> simple_demand d.
Proof. intros d (H1 & H2 & H3 & H4). unfold simple_demand. repeat split; lia. Qed.

(* every current load lies below the larger of the two summaries of any pivot *)
Lemma cur_in_le_max : forall t k x, (k < length t)%nat -> In x (cur_states t) ->
  x <= Z.max (nthz (past_states t) k) (nthz (fut_states t) k).
Proof.
  intros t k x Hk Hin. destruct (split_at t k (mkAct 0 0 0 0 0 dzero 0 0) Hk) as [Et Hl].
  set (A := firstn k t) in *. set (q := nth k t (mkAct 0 0 0 0 0 dzero 0 0)) in *. set (B := skipn (S k) t) in *.
  rewrite <- Hl. rewrite Et. rewrite Et in Hin. rewrite (cur_split A q B) in Hin. apply in_app_or in Hin as [Hin|Hin].
  - pose proof (in_cA_le_past A q B x Hin). lia.
  - pose proof (in_cB_le_fut A q B x (or_intror Hin)). lia.
Qed.

Lemma fut0_le_max : forall t k, (k < length t)%nat ->
  nthz (fut_states t) 0 <= Z.max (nthz (past_states t) k) (nthz (fut_states t) k).
Proof.
  intros t k Hk. apply cur_in_le_max; [exact Hk|].
  assert (H0 : (0 < length t)%nat) by lia.
  destruct (split_at t 0 (mkAct 0 0 0 0 0 dzero 0 0) H0) as [Et Hl].
  set (A := firstn 0 t) in *. set (q := nth 0 t (mkAct 0 0 0 0 0 dzero 0 0)) in *. set (B := skipn 1 t) in *.
  pose proof (fut_attained A q B) as H. rewrite Hl in H. rewrite <- Et in H.
  rewrite Et at 2. rewrite (cur_split A q B).
  destruct (cA_shape A q B) as (X & HX & HlX). rewrite HX. rewrite Hl in HlX. destruct X; [|cbn in HlX; lia]. cbn [app].
  rewrite <- Et. exact H.
Qed.

Lemma past_last_le_max : forall t k, (k < length t)%nat ->
  nthz (past_states t) (length t - 1) <= Z.max (nthz (past_states t) k) (nthz (fut_states t) k).
Proof.
  intros t k Hk.
  assert (Hl0 : (length t - 1 < length t)%nat) by lia.
  destruct (split_at t (length t - 1) (mkAct 0 0 0 0 0 dzero 0 0) Hl0) as [Et Hl].
  set (A := firstn (length t - 1) t) in *. set (q := nth (length t - 1) t (mkAct 0 0 0 0 0 dzero 0 0)) in *.
  set (B := skipn (S (length t - 1)) t) in *.
  pose proof (past_attained A q B) as H. rewrite Hl in H. rewrite <- Et in H. destruct H as [H|H].
  - rewrite H. pose proof (past_states_mono t 0 k ltac:(lia)).
    assert (0 <= nthz (past_states t) k).
    { destruct (split_at t k (mkAct 0 0 0 0 0 dzero 0 0) Hk) as [Et' Hl'].
      set (A' := firstn k t) in *. set (q' := nth k t (mkAct 0 0 0 0 0 dzero 0 0)) in *. set (B' := skipn (S k) t) in *.
      rewrite <- Hl'. rewrite Et'. rewrite (past_at A' q' B'). apply lmax_ge_init. }
    lia.
  - apply cur_in_le_max; [exact Hk|].
    assert (E : cur_states t = cur_states (A ++ q :: B)) by (f_equal; exact Et).
    rewrite E. rewrite (cur_split A q B). apply in_or_app. left. rewrite <- Et. exact H.
Qed.

(* the route-level capacity pre-check (violation at the start border AND at the end border) passes whenever some position passes
   the activity-level test: with M1 = max past load and M2 = max future load of that position, the end border passes when M2 <= M1
   and the start border passes otherwise *)
Lemma route_cap_ok_static : forall v t j k,
  static_demand (s_dem j) -> 0 <= v_cap v -> (k < length t)%nat -> t <> [] ->
  load_feasible (v_cap v) t = true ->
  demand_violation v t k (s_dem j) true = None ->
  eval_route_cap v t j = true.
Proof.
  intros v t j k (H1 & H2 & H3 & H4) Hc Hk Hne Hf Hv.
  assert (Hlen : (0 < length t)%nat) by (destruct t; [congruence|cbn; lia]).
  pose proof (past_states_mono t 0 k ltac:(lia)) as HP0.
  pose proof (fut_states_mono t k (length t - 1) ltac:(lia)) as HFl.
  pose proof (fut0_le_max t k Hk) as HF0.
  pose proof (past_last_le_max t k Hk) as HPl.
  pose proof (cur_le_fut t 0 ltac:(lia)) as HC0.
  pose proof (cur_le_fut t (length t - 1) ltac:(lia)) as HCl.
  pose proof (fut_le_cap v t k Hf Hk) as HFk.
  pose proof (past_le_cap v t k Hf Hk Hc) as HPk.
  unfold eval_route_cap, demand_violation in *. unfold d_change in *. rewrite H3, H4 in *.
  set (P0 := nthz (past_states t) 0) in *. set (Pk := nthz (past_states t) k) in *. set (Pl := nthz (past_states t) (length t - 1)) in *.
  set (F0 := nthz (fut_states t) 0) in *. set (Fk := nthz (fut_states t) k) in *. set (Fl := nthz (fut_states t) (length t - 1)) in *.
  set (C0 := nthz (cur_states t) 0) in *. set (Ck := nthz (cur_states t) k) in *. set (Cl := nthz (cur_states t) (length t - 1)) in *.
  set (ps := d_ps (s_dem j)) in *. set (ds := d_ds (s_dem j)) in *. set (cap := v_cap v) in *.
  destruct (negb (ds =? 0) && (cap <? Pk + ds)) eqn:E1; [discriminate|].
  destruct (negb (ps =? 0) && (cap <? Fk + ps)) eqn:E2; [discriminate|].
  destruct (negb (ps + 0 - ds - 0 =? 0) && ((cap <? Fk + (ps + 0 - ds - 0)) || (cap <? Ck + (ps + 0 - ds - 0)))) eqn:E3; [discriminate|].
  destruct (Z_le_gt_dec Fk Pk) as [Hcase|Hcase].
  - (* the end border passes *)
    destruct (negb (ds =? 0) && (cap <? P0 + ds)) eqn:A1;
    [|destruct (negb (ps =? 0) && (cap <? F0 + ps)) eqn:A2;
      [|destruct (negb (ps + 0 - ds - 0 =? 0) && ((cap <? F0 + (ps + 0 - ds - 0)) || (cap <? C0 + (ps + 0 - ds - 0)))) eqn:A3; [|reflexivity]]];
    (destruct (negb (ds =? 0) && (cap <? Pl + ds)) eqn:B1; [lia|];
     destruct (negb (ps =? 0) && (cap <? Fl + ps)) eqn:B2; [lia|];
     destruct (negb (ps + 0 - ds - 0 =? 0) && ((cap <? Fl + (ps + 0 - ds - 0)) || (cap <? Cl + (ps + 0 - ds - 0)))) eqn:B3; [lia|reflexivity]).
  - (* the start border passes *)
    destruct (negb (ds =? 0) && (cap <? P0 + ds)) eqn:A1; [lia|].
    destruct (negb (ps =? 0) && (cap <? F0 + ps)) eqn:A2; [lia|].
    destruct (negb (ps + 0 - ds - 0 =? 0) && ((cap <? F0 + (ps + 0 - ds - 0)) || (cap <? C0 + (ps + 0 - ds - 0)))) eqn:A3; [lia|reflexivity].
Qed.

(* the whole evaluation of a single job in exhaustive mode *)
Theorem eval_single_complete_closed : forall dur est rc v shift_start t j p w k,
  s_places j = [p] -> p_tws p = [w] ->
  (forall a b, 0 <= dur a b) -> 0 <= p_svc p -> 0 <= v_cap v ->
  sched_ok dur t -> feasible dur v t = true ->
  Forall (fun a => a_tws a <= v_shift_end v) t -> fst w <= v_shift_end v -> shift_start <= snd w ->
  (forall d, d_change (a_dem (hd d t)) = 0) -> 0 <= start_delivery t -> static_demand (s_dem j) ->
  (2 <= length t)%nat -> (k < length t - 1)%nat ->
  feasible dur v (insert_after t k (target t j p w k)) = true ->
  exists idx pl c, eval_single_gen dur est rc v shift_start true t j PAny = ESuccess idx pl c /\
                   feasible dur v (insert_after t idx (target t j p w idx)) = true.
Proof.
  intros dur est rc v shift_start t j p w k Hj Hp Hdur Hsvc Hcap Hs Hf Hwin Hwt Hss Hstart Hnn Hdem Hlen Hk Hfk.
  pose proof (static_demand_simple _ Hdem) as Hsd.
  destruct (scan_complete_closed dur est v t j p w rc Hj Hp Hdur Hsvc Hs Hf Hwin Hwt Hstart Hnn Hsd k Hlen Hk Hfk) as [Hfound Hsound].
  unfold eval_single_gen.
  assert (ERT : eval_route_time (shift_start, v_shift_end v) j = true).
  { unfold eval_route_time. rewrite Hj. cbn [existsb]. rewrite Hp. cbn [existsb]. unfold tw_intersects. cbn [fst snd].
    rewrite orb_false_r. rewrite orb_false_r. apply andb_true_iff. split; lia. }
  rewrite ERT. cbn [negb].
  assert (ERC : eval_route_cap v t j = true).
  { assert (Hk' : (k < length t)%nat) by lia.
    pose proof Hf as Hf0. unfold feasible in Hf0, Hfk. apply andb_true_iff in Hf0 as [_ Hfl]. pose proof Hfk as Hfk0.
    apply andb_true_iff in Hfk0 as [_ Hil].
    apply (route_cap_ok_static v t j k Hdem Hcap Hk'); [destruct t; [cbn in Hlen; lia|discriminate]|exact Hfl|].
    replace (s_dem j) with (a_dem (target t j p w k)) by reflexivity.
    apply cap_complete_idx; try assumption. }
  rewrite ERC. cbn [negb].
  destruct (sc_place (analyze dur est v true t j PAny rc)) as [pl|] eqn:Epl; [|congruence].
  destruct (Hsound pl eq_refl) as [Hfi _].
  eexists _, pl, _. split; [reflexivity|exact Hfi].
Qed.
