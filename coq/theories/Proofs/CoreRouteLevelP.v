(* C06: completeness of the whole single-job evaluation (route-level pre-checks + exhaustive scan) on closed tours for jobs with
   one place, one window and pure static demand (delivery only, pickup only, or none). *)
From VRP Require Import Base.Tac Model.Core Spec.Feasible Proofs.CoreTimeP Proofs.CoreCapP Proofs.CoreEvalP Proofs.CoreScanP
  Proofs.CoreScanCompleteP.

Lemma fut_states_length : forall t, length (fut_states t) = length t.
Proof. intros t. unfold fut_states. rewrite rev_length, run_max_length, rev_length. unfold cur_states. apply currents_length. Qed.

Lemma fut_states_mono : forall t i k, (i <= k < length t)%nat -> nthz (fut_states t) k <= nthz (fut_states t) i.
Proof.
  intros t i k H. unfold nthz, fut_states.
  set (cs := cur_states t). assert (Hl : length cs = length t) by (unfold cs, cur_states; apply currents_length).
  set (R := run_max (last cs 0) (rev cs)). assert (HR : length R = length t) by (unfold R; rewrite run_max_length, rev_length; exact Hl).
  rewrite !rev_nth by lia. rewrite HR. unfold R. apply run_max_mono. rewrite rev_length. lia.
Qed.

Lemma past_le_cap : forall v t k, load_feasible (v_cap v) t = true -> (k < length t)%nat -> 0 <= v_cap v -> nthz (past_states t) k <= v_cap v.
Proof.
  intros v t k Hf Hk Hc. apply load_feasible_split in Hf as [_ Hf].
  destruct (split_at t k (mkAct 0 0 0 0 0 dzero 0 0) Hk) as [Et Hl].
  set (A := firstn k t) in *. set (q := nth k t (mkAct 0 0 0 0 0 dzero 0 0)) in *. set (B := skipn (S k) t) in *.
  rewrite <- Hl. rewrite Et. rewrite Et in Hf. rewrite (cur_split A q B) in Hf. apply Forall_app in Hf as [HfA _].
  destruct (past_attained A q B) as [H|H]; [lia|]. rewrite Forall_forall in HfA. apply HfA; try exact H.
Qed.

Lemma fut_le_cap : forall v t k, load_feasible (v_cap v) t = true -> (k < length t)%nat -> nthz (fut_states t) k <= v_cap v.
Proof.
  intros v t k Hf Hk. apply load_feasible_split in Hf as [_ Hf].
  destruct (split_at t k (mkAct 0 0 0 0 0 dzero 0 0) Hk) as [Et Hl].
  set (A := firstn k t) in *. set (q := nth k t (mkAct 0 0 0 0 0 dzero 0 0)) in *. set (B := skipn (S k) t) in *.
  rewrite <- Hl. rewrite Et. rewrite Et in Hf. rewrite (cur_split A q B) in Hf. apply Forall_app in Hf as [HfA HfB].
  pose proof (fut_attained A q B) as H. destruct H as [H|H].
  - rewrite <- H. destruct (cA_shape A q B) as (X & HX & _). rewrite HX in HfA. apply Forall_app in HfA as [_ HfA].
    inversion HfA; assumption.
  - rewrite Forall_forall in HfB. apply HfB; try exact H.
Qed.

Lemma cur_le_fut : forall t k, (k < length t)%nat -> nthz (cur_states t) k <= nthz (fut_states t) k.
Proof.
  intros t k Hk. destruct (split_at t k (mkAct 0 0 0 0 0 dzero 0 0) Hk) as [Et Hl].
  set (A := firstn k t) in *. set (q := nth k t (mkAct 0 0 0 0 0 dzero 0 0)) in *. set (B := skipn (S k) t) in *.
  rewrite <- Hl. rewrite Et. rewrite (cur_at A q B). apply (in_cB_le_fut A q B). left. reflexivity.
Qed.

(* pure static demand: delivery only, pickup only, or nothing *)
Definition pure_static (d : demand) : Prop :=
  0 <= d_ps d /\ 0 <= d_ds d /\ d_pd d = 0 /\ d_dd d = 0 /\ (d_ps d = 0 \/ d_ds d = 0).

Lemma pure_static_simple : forall d, pure_static d -> simple_demand d.
Proof. intros d (H1 & H2 & H3 & H4 & _). unfold simple_demand. repeat split; lia. Qed.

(* the route-level capacity pre-check passes whenever some position passes the activity-level test *)
Lemma route_cap_ok : forall v t j k,
  pure_static (s_dem j) -> 0 <= v_cap v -> (k < length t)%nat -> t <> [] ->
  load_feasible (v_cap v) t = true ->
  demand_violation v t k (s_dem j) true = None ->
  eval_route_cap v t j = true.
Proof.
  intros v t j k (H1 & H2 & H3 & H4 & Hk1) Hc Hk Hne Hf Hv.
  assert (Hlen : (0 < length t)%nat) by (destruct t; [congruence|cbn; lia]).
  unfold eval_route_cap.
  pose proof (past_states_mono t 0 k ltac:(lia)) as HP.
  pose proof (fut_states_mono t k (length t - 1) ltac:(lia)) as HF.
  pose proof (fut_le_cap v t 0 Hf ltac:(lia)) as HF0.
  pose proof (fut_le_cap v t (length t - 1) Hf ltac:(lia)) as HFl.
  pose proof (cur_le_fut t 0 ltac:(lia)) as HC0.
  pose proof (cur_le_fut t (length t - 1) ltac:(lia)) as HCl.
  pose proof (past_le_cap v t (length t - 1) Hf ltac:(lia) Hc) as HPl.
  unfold demand_violation in *. unfold d_change in *. rewrite H3, H4 in *.
  destruct Hk1 as [Hps|Hds].
  - (* delivery only (or nothing): no violation at index 0 *)
    rewrite Hps in *.
    destruct (negb (d_ds (s_dem j) =? 0) && (v_cap v <? nthz (past_states t) k + d_ds (s_dem j))) eqn:E1; [discriminate|].
    destruct (negb (d_ds (s_dem j) =? 0) && (v_cap v <? nthz (past_states t) 0 + d_ds (s_dem j))) eqn:E2; [lia|].
    cbn [Z.eqb negb andb].
    destruct (negb (0 + 0 - d_ds (s_dem j) - 0 =? 0) &&
              ((v_cap v <? nthz (fut_states t) 0 + (0 + 0 - d_ds (s_dem j) - 0)) || (v_cap v <? nthz (cur_states t) 0 + (0 + 0 - d_ds (s_dem j) - 0)))) eqn:E3; [lia|].
    reflexivity.
  - (* pickup only: no violation at the last index *)
    rewrite Hds in *. cbn [Z.eqb negb andb] in *.
    destruct (negb (d_ps (s_dem j) =? 0) && (v_cap v <? nthz (fut_states t) k + d_ps (s_dem j))) eqn:E1; [discriminate|].
    destruct (negb (d_ps (s_dem j) =? 0) && (v_cap v <? nthz (fut_states t) 0 + d_ps (s_dem j))) eqn:E0.
    + destruct (negb (d_ps (s_dem j) =? 0) && (v_cap v <? nthz (fut_states t) (length t - 1) + d_ps (s_dem j))) eqn:E2; [lia|].
      destruct (negb (d_ps (s_dem j) + 0 - 0 - 0 =? 0) &&
                ((v_cap v <? nthz (fut_states t) (length t - 1) + (d_ps (s_dem j) + 0 - 0 - 0)) ||
                 (v_cap v <? nthz (cur_states t) (length t - 1) + (d_ps (s_dem j) + 0 - 0 - 0)))) eqn:E3; [lia|].
      reflexivity.
    + destruct (negb (d_ps (s_dem j) + 0 - 0 - 0 =? 0) &&
                ((v_cap v <? nthz (fut_states t) 0 + (d_ps (s_dem j) + 0 - 0 - 0)) ||
                 (v_cap v <? nthz (cur_states t) 0 + (d_ps (s_dem j) + 0 - 0 - 0)))) eqn:E3; [|reflexivity].
      destruct (negb (d_ps (s_dem j) =? 0) && (v_cap v <? nthz (fut_states t) (length t - 1) + d_ps (s_dem j))) eqn:E2; [lia|].
      destruct (negb (d_ps (s_dem j) + 0 - 0 - 0 =? 0) &&
                ((v_cap v <? nthz (fut_states t) (length t - 1) + (d_ps (s_dem j) + 0 - 0 - 0)) ||
                 (v_cap v <? nthz (cur_states t) (length t - 1) + (d_ps (s_dem j) + 0 - 0 - 0)))) eqn:E4; [lia|].
      reflexivity.
Qed.

(* the whole evaluation of a single job in exhaustive mode *)
Theorem eval_single_complete_closed : forall dur est rc v shift_start t j p w k,
  s_places j = [p] -> p_tws p = [w] ->
  (forall a b, 0 <= dur a b) -> 0 <= p_svc p -> 0 <= v_cap v ->
  sched_ok dur t -> feasible dur v t = true ->
  Forall (fun a => a_tws a <= v_shift_end v) t -> fst w <= v_shift_end v -> shift_start <= snd w ->
  (forall d, d_change (a_dem (hd d t)) = 0) -> 0 <= start_delivery t -> pure_static (s_dem j) ->
  (2 <= length t)%nat -> (k < length t - 1)%nat ->
  feasible dur v (insert_after t k (target t j p w k)) = true ->
  exists idx pl c, eval_single_gen dur est rc v shift_start true t j PAny = ESuccess idx pl c /\
                   feasible dur v (insert_after t idx (target t j p w idx)) = true.
Proof.
  intros dur est rc v shift_start t j p w k Hj Hp Hdur Hsvc Hcap Hs Hf Hwin Hwt Hss Hstart Hnn Hdem Hlen Hk Hfk.
  pose proof (pure_static_simple _ Hdem) as Hsd.
  destruct (scan_complete_closed dur est v t j p w rc Hj Hp Hdur Hsvc Hs Hf Hwin Hwt Hstart Hnn Hsd k Hlen Hk Hfk) as [Hfound Hsound].
  unfold eval_single_gen.
  assert (ERT : eval_route_time (shift_start, v_shift_end v) j = true).
  { unfold eval_route_time. rewrite Hj. cbn [existsb]. rewrite Hp. cbn [existsb]. unfold tw_intersects. cbn [fst snd].
    rewrite orb_false_r. rewrite orb_false_r. apply andb_true_iff. split; lia. }
  rewrite ERT. cbn [negb].
  assert (ERC : eval_route_cap v t j = true).
  { assert (Hk' : (k < length t)%nat) by lia.
    pose proof Hf as Hf0. unfold feasible in Hf0, Hfk. apply andb_true_iff in Hf0 as [_ Hfl]. pose proof Hfk as Hfk0.
    apply andb_true_iff in Hfk0 as [_ Hil].
    apply (route_cap_ok v t j k Hdem Hcap Hk'); [destruct t; [cbn in Hlen; lia|discriminate]|exact Hfl|].
    replace (s_dem j) with (a_dem (target t j p w k)) by reflexivity.
    apply cap_complete_idx; try assumption. }
  rewrite ERC. cbn [negb].
  destruct (sc_place (analyze dur est v true t j PAny rc)) as [pl|] eqn:Epl; [|congruence].
  destruct (Hsound pl eq_refl) as [Hfi _].
  eexists _, pl, _. split; [reflexivity|exact Hfi].
Qed.
