(* Lemmas about the specification checker Spec/Valid.v.
   Part A: accounted_b P S = [] <-> Accounted P S  (soundness and completeness of the C02 checker).
   Part R: the independent replay of Valid.v coincides with the Core model of update_schedules / update_statistics. *)
From VRP Require Import Base.Tac Model.Core Spec.Feasible Spec.Valid.

(* ------------------------------------------------------------------ generic list facts *)
Lemma app_nil_iff {A} (l1 l2 : list A) : l1 ++ l2 = [] <-> l1 = [] /\ l2 = [].
Proof. split. - apply app_eq_nil. - intros [-> ->]; reflexivity. Qed.

Lemma flat_map_nil_iff {A B} (f : A -> list B) (l : list A) :
  flat_map f l = [] <-> forall x, In x l -> f x = [].
Proof.
  induction l as [|x r IH]; cbn [flat_map].
  - split; [intros _ y []|reflexivity].
  - rewrite app_nil_iff, IH. split.
    + intros [H1 H2] y [<-|Hy]; auto.
    + intros H; split; [apply H; left; reflexivity|intros y Hy; apply H; right; exact Hy].
Qed.

Lemma if_nil_iff {A} (b : bool) (x : A) : (if b then [] else [x]) = [] <-> b = true.
Proof. destruct b; split; intros H; try reflexivity; discriminate. Qed.

Lemma ifn_nil_iff {A} (b : bool) (x : A) : (if b then [x] else []) = [] <-> b = false.
Proof. destruct b; split; intros H; try reflexivity; discriminate. Qed.

Lemma existsb_false_iff {A} (f : A -> bool) (l : list A) :
  existsb f l = false <-> forall x, In x l -> f x = false.
Proof.
  induction l as [|y r IH]; cbn [existsb].
  - split; [intros _ x []|reflexivity].
  - rewrite orb_false_iff, IH. split.
    + intros [H1 H2] x [<-|Hx]; auto.
    + intros H. split; [apply H; left; reflexivity|intros x Hx; apply H; right; exact Hx].
Qed.

Lemma zmem_In j l : zmem j l = true <-> In j l.
Proof.
  unfold zmem. rewrite existsb_exists. split.
  - intros [x [Hx He]]. apply Z.eqb_eq in He. subst. exact Hx.
  - intros H. exists j. split; [exact H|apply Z.eqb_refl].
Qed.

(* ------------------------------------------------------------------ per-job clause *)
Lemma complete_b_iff job acts : complete_b job acts = true <-> Complete job acts.
Proof.
  unfold complete_b, Complete. rewrite andb_true_iff, Nat.eqb_eq, forallb_forall.
  split; intros [H1 H2]; split; auto; intros tk Htk.
  - apply Nat.eqb_eq. apply H2. exact Htk.
  - apply Nat.eqb_eq. apply H2. exact Htk.
Qed.

Lemma order_b_iff acts : order_b acts = true <-> PickupsFirst acts.
Proof.
  unfold PickupsFirst. induction acts as [|x r IH]; cbn [order_b].
  - split; [|reflexivity]. intros _ l1 a l2 b l3 H. destruct l1; discriminate.
  - rewrite andb_true_iff, IH. split.
    + intros [Hx Hr] l1 a l2 b l3 Heq Ha.
      destruct l1 as [|y l1]; cbn in Heq; injection Heq as Hxa Hrest.
      * subst x r. apply Z.eqb_eq in Ha. rewrite Ha in Hx. rewrite forallb_forall in Hx.
        assert (Hin : In b (l2 ++ b :: l3)) by (apply in_or_app; right; left; reflexivity).
        specialize (Hx b Hin). apply negb_true_iff in Hx. apply Z.eqb_neq in Hx. exact Hx.
      * subst. eapply Hr; [reflexivity|exact Ha].
    + intros H. split.
      * destruct (fa_kind x =? 1) eqn:Hk; [|reflexivity]. apply Z.eqb_eq in Hk.
        apply forallb_forall. intros b Hb. apply in_split in Hb. destruct Hb as [l2 [l3 ->]].
        apply negb_true_iff. apply Z.eqb_neq. apply (H [] x l2 b l3); [reflexivity|exact Hk].
      * intros l1 a l2 b l3 Heq Ha. apply (H (x :: l1) a l2 b l3); [cbn; rewrite Heq; reflexivity|exact Ha].
Qed.

Lemma job_viol_nil S job : job_viol S job = [] <-> JobAccounted S job.
Proof.
  unfold job_viol, JobAccounted.
  destruct (tours_with (pj_id job) S) as [|t [|t' ts]] eqn:Ht;
    destruct (unassigned_of (pj_id job) S) as [|u [|u' us]] eqn:Hu.
  - split; [discriminate|]. intros [[t [H _]]|[u [_ [H _]]]]; discriminate.
  - rewrite if_nil_iff, Nat.leb_le. split.
    + intros H. right. exists u. auto.
    + intros [[t [H _]]|[u0 [_ [H H1]]]]; [discriminate|]. injection H as <-. exact H1.
  - split; [discriminate|]. intros [[t [H _]]|[u0 [_ [H _]]]]; discriminate.
  - rewrite app_nil_iff, !if_nil_iff, complete_b_iff, order_b_iff. split.
    + intros [H1 H2]. left. exists t. auto.
    + intros [[t0 [H [_ [H1 H2]]]]|[u0 [H _]]]; [|discriminate]. injection H as <-. auto.
  - split; [discriminate|]. intros [[t0 [_ [H _]]]|[u0 [H _]]]; discriminate.
  - split; [discriminate|]. intros [[t0 [_ [H _]]]|[u0 [H _]]]; discriminate.
  - split; [discriminate|]. intros [[t0 [H _]]|[u0 [H _]]]; discriminate.
  - split; [discriminate|]. intros [[t0 [H _]]|[u0 [H _]]]; discriminate.
  - split; [discriminate|]. intros [[t0 [H _]]|[u0 [H _]]]; discriminate.
Qed.

(* ------------------------------------------------------------------ foreign ids *)
Lemma foreign_viol_nil P S :
  foreign_viol P S = [] <->
  (forall t a, In t (sl_tours S) -> In a (job_acts t) -> In (fa_job a) (job_ids P))
  /\ (forall u, In u (sl_unassigned S) -> In (fst u) (job_ids P)).
Proof.
  unfold foreign_viol. rewrite app_nil_iff, !flat_map_nil_iff. split.
  - intros [H1 H2]. split.
    + intros t a Ht Ha. specialize (H1 t Ht). rewrite flat_map_nil_iff in H1. specialize (H1 a Ha).
      rewrite if_nil_iff in H1. apply zmem_In. exact H1.
    + intros u Hu. specialize (H2 u Hu). rewrite if_nil_iff in H2. apply zmem_In. exact H2.
  - intros [H1 H2]. split.
    + intros t Ht. rewrite flat_map_nil_iff. intros a Ha. rewrite if_nil_iff. apply zmem_In. eauto.
    + intros u Hu. rewrite if_nil_iff. apply zmem_In. eauto.
Qed.

(* ------------------------------------------------------------------ tours *)
Lemma shift_of_some_iff P t : shift_of P t <> None <-> TourNamesShift P t.
Proof.
  unfold shift_of, TourNamesShift, vtype_of. split.
  - intros H. destruct (find _ (pr_fleet P)) as [vt|] eqn:Hf; [|congruence].
    destruct (nth_error (vt_shifts vt) (to_shift t)) as [sh|] eqn:Hn; [|congruence].
    apply find_some in Hf. destruct Hf as [Hin Hb].
    apply andb_true_iff in Hb. destruct Hb as [Hb Hb3]. apply andb_true_iff in Hb. destruct Hb as [Hb1 Hb2].
    exists vt, sh. split; [exact Hin|]. split; [apply Z.eqb_eq; exact Hb1|]. split; [apply zmem_In; exact Hb2|exact Hn].
  - intros [vt [sh [Hin [Hid [Hv Hn]]]]].
    assert (Hlt : (to_shift t < length (vt_shifts vt))%nat).
    { apply nth_error_Some. rewrite Hn. discriminate. }
    destruct (find _ (pr_fleet P)) as [vt'|] eqn:Hf.
    + apply find_some in Hf. destruct Hf as [_ Hb].
      apply andb_true_iff in Hb. destruct Hb as [_ Hb3]. apply Nat.ltb_lt in Hb3.
      destruct (nth_error (vt_shifts vt') (to_shift t)) as [sh'|] eqn:Hn'; [discriminate|].
      apply nth_error_None in Hn'. lia.
    + exfalso. eapply find_none in Hf; [|exact Hin]. cbv beta in Hf.
      rewrite (proj2 (Z.eqb_eq _ _) Hid) in Hf. rewrite (proj2 (zmem_In _ _) Hv) in Hf.
      rewrite (proj2 (Nat.ltb_lt _ _) Hlt) in Hf. discriminate.
Qed.

Lemma same_shift_key a b : same_shift a b = true <-> shift_key a = shift_key b.
Proof.
  unfold same_shift, shift_key. rewrite andb_true_iff, Z.eqb_eq, Nat.eqb_eq. split.
  - intros [-> ->]. reflexivity.
  - intros H. injection H as H1 H2. auto.
Qed.

Lemma existsb_same_shift t before :
  existsb (same_shift t) before = false <-> ~ In (shift_key t) (map shift_key before).
Proof.
  rewrite existsb_false_iff. split.
  - intros H Hin. apply in_map_iff in Hin. destruct Hin as [b [Hk Hb]].
    specialize (H b Hb). assert (Ht : same_shift t b = true) by (apply same_shift_key; symmetry; exact Hk). congruence.
  - intros H b Hb. destruct (same_shift t b) eqn:Hs; [|reflexivity].
    exfalso. apply H. apply in_map_iff. exists b. split; [|exact Hb]. apply same_shift_key in Hs. symmetry. exact Hs.
Qed.

Definition TourOk (P : pproblem) (t : stour) : Prop :=
  TourNamesShift P t /\ job_acts t <> [] /\ (forall a, In a (flat_tour t) -> extra_kind (fa_kind a) = false).

Lemma tour_viols_nil P l : forall k before,
  tour_viols P k before l = [] <->
  (forall t, In t l -> TourOk P t) /\ NoDup (map shift_key l)
  /\ (forall t, In t l -> ~ In (shift_key t) (map shift_key before)).
Proof.
  induction l as [|t r IH]; intros k before; cbn [tour_viols map].
  - split; [|reflexivity]. intros _. split; [intros t []|]. split; [constructor|intros t []].
  - rewrite !app_nil_iff, (IH (k + 1) (before ++ [t])).
    assert (HA : (match shift_of P t with Some _ => [] | None => [ATourVehicle k] end) = [] <-> TourNamesShift P t).
    { rewrite <- shift_of_some_iff. destruct (shift_of P t); split; intros H; try reflexivity; try discriminate; congruence. }
    assert (HB : (match job_acts t with [] => [ATourEmpty k] | _ => [] end) = [] <-> job_acts t <> []).
    { destruct (job_acts t); split; intros H; try reflexivity; try discriminate; congruence. }
    rewrite HA, HB, !ifn_nil_iff, existsb_same_shift.
    rewrite (existsb_false_iff (fun a => extra_kind (fa_kind a)) (flat_tour t)).
    split.
    + intros [H1 [H2 [H3 [H4 [H5 [H6 H7]]]]]]. split; [|split].
      * intros t0 [<-|Ht0]; [split; [exact H1|split; [exact H2|exact H4]]|apply H5; exact Ht0].
      * constructor; [|exact H6]. intros Hin. apply in_map_iff in Hin. destruct Hin as [b [Hk Hb]].
        apply (H7 b Hb). rewrite map_app, in_app_iff. right. left. symmetry. exact Hk.
      * intros t0 [<-|Ht0]; [exact H3|]. intros Hin. apply (H7 t0 Ht0). rewrite map_app, in_app_iff. left. exact Hin.
    + intros [H1 [H2 H3]]. inversion H2 as [|x xs Hnin Hnd]; subst.
      destruct (H1 t (or_introl eq_refl)) as [Ha [Hb Hc]].
      split; [exact Ha|]. split; [exact Hb|]. split; [apply H3; left; reflexivity|]. split; [exact Hc|].
      split; [intros t0 Ht0; apply H1; right; exact Ht0|]. split; [exact Hnd|].
      intros t0 Ht0 Hin. rewrite map_app, in_app_iff in Hin. destruct Hin as [Hin|[Hin|[]]].
      * apply (H3 t0 (or_intror Ht0)). exact Hin.
      * apply Hnin. rewrite Hin. apply in_map. exact Ht0.
Qed.

(* ------------------------------------------------------------------ the C02 checker is sound and complete *)
Lemma accounted_b_nil P S : accounted_b P S = [] <-> Accounted P S.
Proof.
  unfold accounted_b. rewrite !app_nil_iff, flat_map_nil_iff, foreign_viol_nil, (tour_viols_nil P (sl_tours S) 0 []).
  split.
  - intros [Hj [[Hf1 Hf2] [Ht [Hnd _]]]]. constructor.
    + intros job Hin. apply job_viol_nil. apply Hj. exact Hin.
    + exact Hf1.
    + exact Hf2.
    + intros t Hin. apply (Ht t Hin).
    + intros t Hin. apply (Ht t Hin).
    + exact Hnd.
    + intros t a Hin. apply (Ht t Hin).
  - intros [Hj Hf1 Hf2 Hs Hv Hnd He]. split; [|split; [split; [exact Hf1|exact Hf2]|split; [|split; [exact Hnd|]]]].
    + intros job Hin. apply job_viol_nil. apply Hj. exact Hin.
    + intros t Hin. split; [apply Hs; exact Hin|]. split; [apply Hv; exact Hin|]. intros a Ha. apply (He t a Hin Ha).
    + intros t _ [].
Qed.

Lemma accounted_b_sound P S : accounted_b P S = [] -> Accounted P S.
Proof. apply accounted_b_nil. Qed.
Lemma accounted_b_complete P S : Accounted P S -> accounted_b P S = [].
Proof. apply accounted_b_nil. Qed.

(* consequence used by the id-level bookkeeping theorems: in an accounted solution every plan job is in exactly one tour
   and not unassigned, or in no tour and exactly once unassigned *)
Lemma accounted_partition P S job :
  Accounted P S -> In job (pr_jobs P) ->
  (length (tours_with (pj_id job) S) = 1%nat /\ length (unassigned_of (pj_id job) S) = 0%nat)
  \/ (length (tours_with (pj_id job) S) = 0%nat /\ length (unassigned_of (pj_id job) S) = 1%nat).
Proof.
  intros HA Hin. destruct (acc_jobs P S HA job Hin) as [[t [H1 [H2 _]]]|[u [H1 [H2 _]]]].
  - left. cbv zeta in H1, H2. rewrite H1, H2. split; reflexivity.
  - right. cbv zeta in H1, H2. rewrite H1, H2. split; reflexivity.
Qed.

(* ------------------------------------------------------------------ Part R: the replay is the Core schedule model *)
Lemma replay_from_resched dur loc dep acts :
  replay_from dur loc dep acts = map (fun a => (a_arr a, a_dep a)) (resched_from dur loc dep acts).
Proof.
  revert loc dep. induction acts as [|a r IH]; intros loc dep; cbn [replay_from resched_from map]; [reflexivity|].
  unfold est_departure, set_sched. cbn [a_arr a_dep a_loc]. rewrite IH. reflexivity.
Qed.

Lemma replay_reschedule dur t :
  replay dur t = map (fun a => (a_arr a, a_dep a)) (reschedule dur t).
Proof. destruct t as [|s r]; cbn [replay reschedule map]; [reflexivity|]. rewrite replay_from_resched. reflexivity. Qed.

Lemma legs_sum_dist_from m loc acts : legs_sum m loc acts = dist_from m loc acts.
Proof. revert loc. induction acts as [|a r IH]; intros loc; cbn [legs_sum dist_from]; [reflexivity|]. rewrite IH. reflexivity. Qed.

Lemma tour_legs_total_distance m t : tour_legs m t = total_distance m t.
Proof. destruct t; cbn [tour_legs total_distance]; [reflexivity|]. apply legs_sum_dist_from. Qed.

(* ------------------------------------------------------------------ non-vacuity: a concrete problem and documents *)
(* three locations on a line (10 apart); job 1 = delivery at location 1 (5 s service), job 2 = pickup at location 2 with a
   window that closes at 10; one vehicle, closed shift, fixed 7, distance price 1, time price 2 *)
Definition ex_P : pproblem :=
  mkPProblem [mkPJob 1 [mkPTask 1 [mkPPlace 1 5 [(0, 100)] None] 1] true [];
              mkPJob 2 [mkPTask 0 [mkPPlace 2 0 [(0, 10)] None] 1] true []]
             [mkPVType 1 [1] [mkPShift 0 0 INF (Some (0, 1000))] 10 7 1 2 [] None None None]
             3 [0; 10; 20; 10; 0; 10; 20; 10; 0] [0; 10; 20; 10; 0; 10; 20; 10; 0].
Definition ex_stat : sstat := mkSStat 77 20 25 20 5 0 0.
Definition ex_tour : stour :=
  mkSTour 1 1 0 [mkSStop 0 0 0 1 0 [mkSAct (-1) 10 None None None];
                 mkSStop 1 10 15 0 10 [mkSAct 1 1 None None None];
                 mkSStop 0 25 25 0 20 [mkSAct (-1) 11 None None None]] ex_stat.
(* job 1 served, job 2 unassigned with one reason: accepted by the WHOLE checker *)
Definition ex_S : ssolution := mkSSolution ex_stat [ex_tour] [(2, 1%nat)].
(* the same, but job 1 is also listed as unassigned *)
Definition ex_S_dup : ssolution := mkSSolution ex_stat [ex_tour] [(2, 1%nat); (1, 1%nat)].
(* the same, but the reported cost is off by one *)
Definition ex_S_cost : ssolution :=
  mkSSolution (mkSStat 78 20 25 20 5 0 0) [mkSTour 1 1 0 (to_stops ex_tour) (mkSStat 78 20 25 20 5 0 0)] [(2, 1%nat)].

Lemma ex_valid : valid_b ex_P ex_S = [].
Proof. vm_compute. reflexivity. Qed.
Lemma ex_accounted : Accounted ex_P ex_S /\ sl_tours ex_S <> [] /\ sl_unassigned ex_S <> [].
Proof. split; [apply accounted_b_sound; vm_compute; reflexivity|]. split; discriminate. Qed.
Lemma ex_dup_rejected : accounted_b ex_P ex_S_dup = [AJobDuplicated 1] /\ ~ Accounted ex_P ex_S_dup.
Proof.
  assert (H : accounted_b ex_P ex_S_dup = [AJobDuplicated 1]) by (vm_compute; reflexivity).
  split; [exact H|]. intros HA. apply accounted_b_complete in HA. rewrite H in HA. discriminate.
Qed.
Lemma ex_cost_rejected : replay_viol ex_P ex_S_cost = [RStatCost 0].
Proof. vm_compute. reflexivity. Qed.
