(* Lemmas about the specification checker Spec/Valid.v.
   Part A: accounted_b P S = [] <-> Accounted P S  (soundness and completeness of the C02 checker).
   Part R: the independent replay of Valid.v coincides with the Core model of update_schedules / update_statistics. *)
From VRP Require Import Base.Tac Model.Core Spec.Feasible Spec.Intervals Proofs.IntervalsP Spec.Valid.

(* ------------------------------------------------------------------ generic list facts *)
Lemma app_nil_iff {A} (l1 l2 : list A) : l1 ++ l2 = [] <-> l1 = [] /\ l2 = [].
Proof. split. - apply app_eq_nil. - intros [-> ->]; reflexivity. Qed.

Lemma flat_map_nil_iff {A B} (f : A -> list B) (l : list A) :
  flat_map f l = [] <-> forall x, In x l -> f x = [].
Proof.
  induction l as [|x r IH]; cbn [flat_map].
  - split; [intros _ y []|reflexivity].
  - rewrite app_nil_iff, IH. split.
    + intros [H1 H2] y [<-|Hy]; auto.
    + intros H; split; [apply H; left; reflexivity|intros y Hy; apply H; right; exact Hy].
Qed.

Lemma if_nil_iff {A} (b : bool) (x : A) : (if b then [] else [x]) = [] <-> b = true.
Proof. destruct b; split; intros H; try reflexivity; discriminate. Qed.

Lemma ifn_nil_iff {A} (b : bool) (x : A) : (if b then [x] else []) = [] <-> b = false.
Proof. destruct b; split; intros H; try reflexivity; discriminate. Qed.

Lemma existsb_false_iff {A} (f : A -> bool) (l : list A) :
  existsb f l = false <-> forall x, In x l -> f x = false.
Proof.
  induction l as [|y r IH]; cbn [existsb].
  - split; [intros _ x []|reflexivity].
  - rewrite orb_false_iff, IH. split.
    + intros [H1 H2] x [<-|Hx]; auto.
    + intros H. split; [apply H; left; reflexivity|intros x Hx; apply H; right; exact Hx].
Qed.

Lemma zmem_In j l : zmem j l = true <-> In j l.
Proof.
  unfold zmem. rewrite existsb_exists. split.
  - intros [x [Hx He]]. apply Z.eqb_eq in He. subst. exact Hx.
  - intros H. exists j. split; [exact H|apply Z.eqb_refl].
Qed.

(* ------------------------------------------------------------------ per-job clause *)
Lemma complete_b_iff job acts : complete_b job acts = true <-> Complete job acts.
Proof.
  unfold complete_b, Complete. rewrite andb_true_iff, Nat.eqb_eq, forallb_forall.
  split; intros [H1 H2]; split; auto; intros tk Htk.
  - apply Nat.eqb_eq. apply H2. exact Htk.
  - apply Nat.eqb_eq. apply H2. exact Htk.
Qed.

Lemma order_b_iff acts : order_b acts = true <-> PickupsFirst acts.
Proof.
  unfold PickupsFirst. induction acts as [|x r IH]; cbn [order_b].
  - split; [|reflexivity]. intros _ l1 a l2 b l3 H. destruct l1; discriminate.
  - rewrite andb_true_iff, IH. split.
    + intros [Hx Hr] l1 a l2 b l3 Heq Ha.
      destruct l1 as [|y l1]; cbn in Heq; injection Heq as Hxa Hrest.
      * subst x r. apply Z.eqb_eq in Ha. rewrite Ha in Hx. rewrite forallb_forall in Hx.
        assert (Hin : In b (l2 ++ b :: l3)) by (apply in_or_app; right; left; reflexivity).
        specialize (Hx b Hin). apply negb_true_iff in Hx. apply Z.eqb_neq in Hx. exact Hx.
      * subst. eapply Hr; [reflexivity|exact Ha].
    + intros H. split.
      * destruct (fa_kind x =? 1) eqn:Hk; [|reflexivity]. apply Z.eqb_eq in Hk.
        apply forallb_forall. intros b Hb. apply in_split in Hb. destruct Hb as [l2 [l3 ->]].
        apply negb_true_iff. apply Z.eqb_neq. apply (H [] x l2 b l3); [reflexivity|exact Hk].
      * intros l1 a l2 b l3 Heq Ha. apply (H (x :: l1) a l2 b l3); [cbn; rewrite Heq; reflexivity|exact Ha].
Qed.

Lemma job_viol_nil S job : job_viol S job = [] <-> JobAccounted S job.
Proof.
  unfold job_viol, JobAccounted.
  destruct (tours_with (pj_id job) S) as [|t [|t' ts]] eqn:Ht;
    destruct (unassigned_of (pj_id job) S) as [|u [|u' us]] eqn:Hu.
  - split; [discriminate|]. intros [[t [H _]]|[u [_ [H _]]]]; discriminate.
  - rewrite if_nil_iff, Nat.leb_le. split.
    + intros H. right. exists u. auto.
    + intros [[t [H _]]|[u0 [_ [H H1]]]]; [discriminate|]. injection H as <-. exact H1.
  - split; [discriminate|]. intros [[t [H _]]|[u0 [_ [H _]]]]; discriminate.
  - rewrite app_nil_iff, !if_nil_iff, complete_b_iff, order_b_iff. split.
    + intros [H1 H2]. left. exists t. auto.
    + intros [[t0 [H [_ [H1 H2]]]]|[u0 [H _]]]; [|discriminate]. injection H as <-. auto.
  - split; [discriminate|]. intros [[t0 [_ [H _]]]|[u0 [H _]]]; discriminate.
  - split; [discriminate|]. intros [[t0 [_ [H _]]]|[u0 [H _]]]; discriminate.
  - split; [discriminate|]. intros [[t0 [H _]]|[u0 [H _]]]; discriminate.
  - split; [discriminate|]. intros [[t0 [H _]]|[u0 [H _]]]; discriminate.
  - split; [discriminate|]. intros [[t0 [H _]]|[u0 [H _]]]; discriminate.
Qed.

(* ------------------------------------------------------------------ foreign ids *)
Lemma foreign_viol_nil P S :
  foreign_viol P S = [] <->
  (forall t a, In t (sl_tours S) -> In a (job_acts t) -> In (fa_job a) (job_ids P))
  /\ (forall u, In u (sl_unassigned S) -> In (fst u) (job_ids P)).
Proof.
  unfold foreign_viol. rewrite app_nil_iff, !flat_map_nil_iff. split.
  - intros [H1 H2]. split.
    + intros t a Ht Ha. specialize (H1 t Ht). rewrite flat_map_nil_iff in H1. specialize (H1 a Ha).
      rewrite if_nil_iff in H1. apply zmem_In. exact H1.
    + intros u Hu. specialize (H2 u Hu). rewrite if_nil_iff in H2. apply zmem_In. exact H2.
  - intros [H1 H2]. split.
    + intros t Ht. rewrite flat_map_nil_iff. intros a Ha. rewrite if_nil_iff. apply zmem_In. eauto.
    + intros u Hu. rewrite if_nil_iff. apply zmem_In. eauto.
Qed.

(* ------------------------------------------------------------------ tours *)
Lemma shift_of_some_iff P t : shift_of P t <> None <-> TourNamesShift P t.
Proof.
  unfold shift_of, TourNamesShift, vtype_of. split.
  - intros H. destruct (find _ (pr_fleet P)) as [vt|] eqn:Hf; [|congruence].
    destruct (nth_error (vt_shifts vt) (to_shift t)) as [sh|] eqn:Hn; [|congruence].
    apply find_some in Hf. destruct Hf as [Hin Hb].
    apply andb_true_iff in Hb. destruct Hb as [Hb Hb3]. apply andb_true_iff in Hb. destruct Hb as [Hb1 Hb2].
    exists vt, sh. split; [exact Hin|]. split; [apply Z.eqb_eq; exact Hb1|]. split; [apply zmem_In; exact Hb2|exact Hn].
  - intros [vt [sh [Hin [Hid [Hv Hn]]]]].
    assert (Hlt : (to_shift t < length (vt_shifts vt))%nat).
    { apply nth_error_Some. rewrite Hn. discriminate. }
    destruct (find _ (pr_fleet P)) as [vt'|] eqn:Hf.
    + apply find_some in Hf. destruct Hf as [_ Hb].
      apply andb_true_iff in Hb. destruct Hb as [_ Hb3]. apply Nat.ltb_lt in Hb3.
      destruct (nth_error (vt_shifts vt') (to_shift t)) as [sh'|] eqn:Hn'; [discriminate|].
      apply nth_error_None in Hn'. lia.
    + exfalso. eapply find_none in Hf; [|exact Hin]. cbv beta in Hf.
      rewrite (proj2 (Z.eqb_eq _ _) Hid) in Hf. rewrite (proj2 (zmem_In _ _) Hv) in Hf.
      rewrite (proj2 (Nat.ltb_lt _ _) Hlt) in Hf. discriminate.
Qed.

Lemma same_shift_key a b : same_shift a b = true <-> shift_key a = shift_key b.
Proof.
  unfold same_shift, shift_key. rewrite andb_true_iff, Z.eqb_eq, Nat.eqb_eq. split.
  - intros [-> ->]. reflexivity.
  - intros H. injection H as H1 H2. auto.
Qed.

Lemma existsb_same_shift t before :
  existsb (same_shift t) before = false <-> ~ In (shift_key t) (map shift_key before).
Proof.
  rewrite existsb_false_iff. split.
  - intros H Hin. apply in_map_iff in Hin. destruct Hin as [b [Hk Hb]].
    specialize (H b Hb). assert (Ht : same_shift t b = true) by (apply same_shift_key; symmetry; exact Hk). congruence.
  - intros H b Hb. destruct (same_shift t b) eqn:Hs; [|reflexivity].
    exfalso. apply H. apply in_map_iff. exists b. split; [|exact Hb]. apply same_shift_key in Hs. symmetry. exact Hs.
Qed.

(* ---- reloads: the backtracking assignment finds a matching iff one exists *)
Lemma picks_In {A} (l : list A) : forall p rest,
  In (p, rest) (picks l) <-> exists pre post, l = pre ++ p :: post /\ rest = pre ++ post.
Proof.
  induction l as [|x r IH]; intros p rest; cbn [picks].
  - split; [intros []|]. intros [pre [post [H _]]]. destruct pre; discriminate.
  - split.
    + intros [H|H].
      * injection H as <- <-. exists [], r. split; reflexivity.
      * apply in_map_iff in H. destruct H as [[y yr] [Heq Hin]]. cbn [fst snd] in Heq. injection Heq as <- <-.
        apply IH in Hin. destruct Hin as [pre [post [H1 H2]]]. exists (x :: pre), post. cbn [app]. rewrite H1, H2. split; reflexivity.
    + intros [pre [post [H1 H2]]]. destruct pre as [|y pre]; cbn [app] in H1, H2.
      * injection H1 as <- <-. left. rewrite H2. reflexivity.
      * injection H1 as <- H1. right. apply in_map_iff. exists (p, pre ++ post). split; [cbn [fst snd]; rewrite H2; reflexivity|].
        apply IH. exists pre, post. split; [exact H1|reflexivity].
Qed.

Lemma assign_b_iff : forall acts avail, assign_b acts avail = true <-> Assign acts avail.
Proof.
  induction acts as [|a r IH]; intros avail; cbn [assign_b].
  - split; [intros _; constructor|reflexivity].
  - rewrite existsb_exists. split.
    + intros [[p rest] [Hin Hb]]. cbn [fst snd] in Hb. apply andb_true_iff in Hb. destruct Hb as [Hf Hr].
      apply picks_In in Hin. destruct Hin as [pre [post [-> ->]]]. constructor; [exact Hf|]. apply IH. exact Hr.
    + intros H. inversion H as [|a' r' pre p post Hf Hr]; subst. exists (p, pre ++ post). split.
      * apply picks_In. exists pre, post. split; reflexivity.
      * cbn [fst snd]. rewrite Hf. cbn [andb]. apply IH. exact Hr.
Qed.

Lemma reloads_ok_iff P t : reloads_ok P t = true <-> ReloadsDefined P t.
Proof.
  unfold reloads_ok, ReloadsDefined. destruct (shift_of P t) as [[vt sh]|].
  - rewrite assign_b_iff. split.
    + intros H vt' sh' Heq. injection Heq as <- <-. exact H.
    + intros H. apply (H vt sh eq_refl).
  - split; [intros _ vt sh H; discriminate|reflexivity].
Qed.

(* ---- breaks: the generic backtracking assignment *)
Lemma gassign_b_iff {X} (fits : fact -> X -> bool) : forall acts avail, gassign_b fits acts avail = true <-> GAssign fits acts avail.
Proof.
  induction acts as [|a r IH]; intros avail; cbn [gassign_b].
  - split; [intros _; constructor|reflexivity].
  - rewrite existsb_exists. split.
    + intros [[p rest] [Hin Hb]]. cbn [fst snd] in Hb. apply andb_true_iff in Hb. destruct Hb as [Hf Hr].
      apply picks_In in Hin. destruct Hin as [pre [post [-> ->]]]. constructor; [exact Hf|]. apply IH. exact Hr.
    + intros H. inversion H as [|a' r' pre p post Hf Hr]; subst. exists (p, pre ++ post). split.
      * apply picks_In. exists pre, post. split; reflexivity.
      * cbn [fst snd]. rewrite Hf. cbn [andb]. apply IH. exact Hr.
Qed.

Lemma breaks_ok_iff P t : breaks_ok P t = true <-> BreaksDefined P t.
Proof.
  unfold breaks_ok, BreaksDefined. destruct (shift_of P t) as [[vt sh]|].
  - rewrite gassign_b_iff. split.
    + intros H vt' sh' Heq. injection Heq as <- <-. exact H.
    + intros H. apply (H vt sh eq_refl).
  - split; [intros _ vt sh H; discriminate|reflexivity].
Qed.

(* an assignment uses every break at most once and only fitting ones: the activities are matched injectively *)
Lemma GAssign_length {X} (fits : fact -> X -> bool) acts avail : GAssign fits acts avail -> (length acts <= length avail)%nat.
Proof.
  intros H. induction H as [avail|a r pre p post Hf Hr IH]; cbn [length]; [lia|].
  rewrite app_length in *. cbn [length]. lia.
Qed.

Definition TourOk (P : pproblem) (t : stour) : Prop :=
  TourNamesShift P t /\ job_acts t <> [] /\ (forall a, In a (flat_tour t) -> extra_kind (fa_kind a) = false)
  /\ ReloadsDefined P t /\ BreaksDefined P t.

Lemma tour_viols_nil P l : forall k before,
  tour_viols P k before l = [] <->
  (forall t, In t l -> TourOk P t) /\ NoDup (map shift_key l)
  /\ (forall t, In t l -> ~ In (shift_key t) (map shift_key before)).
Proof.
  induction l as [|t r IH]; intros k before; cbn [tour_viols map].
  - split; [|reflexivity]. intros _. split; [intros t []|]. split; [constructor|intros t []].
  - rewrite !app_nil_iff, (IH (k + 1) (before ++ [t])).
    assert (HA : (match shift_of P t with Some _ => [] | None => [ATourVehicle k] end) = [] <-> TourNamesShift P t).
    { rewrite <- shift_of_some_iff. destruct (shift_of P t); split; intros H; try reflexivity; try discriminate; congruence. }
    assert (HB : (match job_acts t with [] => [ATourEmpty k] | _ => [] end) = [] <-> job_acts t <> []).
    { destruct (job_acts t); split; intros H; try reflexivity; try discriminate; congruence. }
    rewrite HA, HB, !ifn_nil_iff, existsb_same_shift, !if_nil_iff, reloads_ok_iff, breaks_ok_iff.
    rewrite (existsb_false_iff (fun a => extra_kind (fa_kind a)) (flat_tour t)).
    split.
    + intros [H1 [H2 [H3 [H4 [HR [HBk [H5 [H6 H7]]]]]]]]. split; [|split].
      * intros t0 [<-|Ht0]; [split; [exact H1|split; [exact H2|split; [exact H4|split; [exact HR|exact HBk]]]]|apply H5; exact Ht0].
      * constructor; [|exact H6]. intros Hin. apply in_map_iff in Hin. destruct Hin as [b [Hk Hb]].
        apply (H7 b Hb). rewrite map_app, in_app_iff. right. left. symmetry. exact Hk.
      * intros t0 [<-|Ht0]; [exact H3|]. intros Hin. apply (H7 t0 Ht0). rewrite map_app, in_app_iff. left. exact Hin.
    + intros [H1 [H2 H3]]. inversion H2 as [|x xs Hnin Hnd]; subst.
      destruct (H1 t (or_introl eq_refl)) as [Ha [Hb [Hc [Hre Hbk]]]].
      split; [exact Ha|]. split; [exact Hb|]. split; [apply H3; left; reflexivity|]. split; [exact Hc|]. split; [exact Hre|].
      split; [exact Hbk|].
      split; [intros t0 Ht0; apply H1; right; exact Ht0|]. split; [exact Hnd|].
      intros t0 Ht0 Hin. rewrite map_app, in_app_iff in Hin. destruct Hin as [Hin|[Hin|[]]].
      * apply (H3 t0 (or_intror Ht0)). exact Hin.
      * apply Hnin. rewrite Hin. apply in_map. exact Ht0.
Qed.

(* ------------------------------------------------------------------ the C02 checker is sound and complete *)
Lemma accounted_b_nil P S : accounted_b P S = [] <-> Accounted P S.
Proof.
  unfold accounted_b. rewrite !app_nil_iff, flat_map_nil_iff, foreign_viol_nil, (tour_viols_nil P (sl_tours S) 0 []).
  split.
  - intros [Hj [[Hf1 Hf2] [Ht [Hnd _]]]]. constructor.
    + intros job Hin. apply job_viol_nil. apply Hj. exact Hin.
    + exact Hf1.
    + exact Hf2.
    + intros t Hin. apply (Ht t Hin).
    + intros t Hin. apply (Ht t Hin).
    + exact Hnd.
    + intros t a Hin. apply (Ht t Hin).
    + intros t Hin. apply (Ht t Hin).
    + intros t Hin. apply (Ht t Hin).
  - intros [Hj Hf1 Hf2 Hs Hv Hnd He Hre Hbk]. split; [|split; [split; [exact Hf1|exact Hf2]|split; [|split; [exact Hnd|]]]].
    + intros job Hin. apply job_viol_nil. apply Hj. exact Hin.
    + intros t Hin. split; [apply Hs; exact Hin|]. split; [apply Hv; exact Hin|]. split; [intros a Ha; apply (He t a Hin Ha)|].
      split; [apply Hre; exact Hin|apply Hbk; exact Hin].
    + intros t _ [].
Qed.

Lemma accounted_b_sound P S : accounted_b P S = [] -> Accounted P S.
Proof. apply accounted_b_nil. Qed.
Lemma accounted_b_complete P S : Accounted P S -> accounted_b P S = [].
Proof. apply accounted_b_nil. Qed.

(* consequence used by the id-level bookkeeping theorems: in an accounted solution every plan job is in exactly one tour
   and not unassigned, or in no tour and exactly once unassigned *)
Lemma accounted_partition P S job :
  Accounted P S -> In job (pr_jobs P) ->
  (length (tours_with (pj_id job) S) = 1%nat /\ length (unassigned_of (pj_id job) S) = 0%nat)
  \/ (length (tours_with (pj_id job) S) = 0%nat /\ length (unassigned_of (pj_id job) S) = 1%nat).
Proof.
  intros HA Hin. destruct (acc_jobs P S HA job Hin) as [[t [H1 [H2 _]]]|[u [H1 [H2 _]]]].
  - left. cbv zeta in H1, H2. rewrite H1, H2. split; reflexivity.
  - right. cbv zeta in H1, H2. rewrite H1, H2. split; reflexivity.
Qed.

(* ------------------------------------------------------------------ Part X: compatibility, groups, reachability, skills *)
Lemma mapi_from_nil_iff {A B} (f : Z -> A -> list B) l : forall k,
  concat (mapi_from k f l) = [] <-> forall n x, nth_error l n = Some x -> f (k + Z.of_nat n) x = [].
Proof.
  induction l as [|y r IH]; intros k; cbn [mapi_from concat].
  - split; [intros _ n x H; destruct n; discriminate|reflexivity].
  - rewrite app_nil_iff, (IH (k + 1)). split.
    + intros [H1 H2] n x Hn. destruct n as [|n]; cbn [nth_error] in Hn.
      * injection Hn as <-. replace (k + Z.of_nat 0) with k by lia. exact H1.
      * replace (k + Z.of_nat (S n)) with (k + 1 + Z.of_nat n) by lia. apply H2. exact Hn.
    + intros H. split.
      * specialize (H 0%nat y eq_refl). replace (k + Z.of_nat 0) with k in H by lia. exact H.
      * intros n x Hn. specialize (H (S n) x Hn). replace (k + Z.of_nat (S n)) with (k + 1 + Z.of_nat n) in H by lia. exact H.
Qed.

Lemma mapi_nil_iff {A B} (f : Z -> A -> list B) l :
  concat (mapi f l) = [] <-> forall n x, nth_error l n = Some x -> f (Z.of_nat n) x = [].
Proof. unfold mapi. rewrite mapi_from_nil_iff. split; intros H n x Hn; specialize (H n x Hn); exact H. Qed.

Lemma all_same_iff l : all_same l = true <-> (forall c1 c2, In c1 l -> In c2 l -> c1 = c2).
Proof.
  destruct l as [|x r]; cbn [all_same].
  - split; [intros _ c1 c2 []|reflexivity].
  - rewrite forallb_forall. split.
    + intros H c1 c2 H1 H2.
      assert (E : forall c, In c (x :: r) -> c = x).
      { intros c [<-|Hc]; [reflexivity|]. symmetry. apply Z.eqb_eq. apply H. exact Hc. }
      rewrite (E c1 H1), (E c2 H2). reflexivity.
    + intros H y Hy. apply Z.eqb_eq. apply H; [left; reflexivity|right; exact Hy].
Qed.

Lemma compat_viols_nil P S : compat_viols P S = [] <-> forall t, In t (sl_tours S) -> Compatible P t.
Proof.
  unfold compat_viols. rewrite mapi_nil_iff. split.
  - intros H t Ht. apply In_nth_error in Ht. destruct Ht as [n Hn]. specialize (H n t Hn). cbv beta in H.
    rewrite if_nil_iff in H. unfold Compatible. apply (proj1 (all_same_iff _)). exact H.
  - intros H n t Hn. rewrite if_nil_iff. apply (proj2 (all_same_iff _)). apply H. eapply nth_error_In. exact Hn.
Qed.

Lemma legs_viol_nil P k : forall l d i,
  legs_viol P k i (fa_loc d) l = [] <->
  (forall l1 a b l2, d :: l = l1 ++ a :: b :: l2 -> perr P (fa_loc a) (fa_loc b) <= 0).
Proof.
  induction l as [|x r IH]; intros d i; cbn [legs_viol].
  - split; [|reflexivity]. intros _ l1 a b l2 H. destruct l1 as [|y [|y' l1]]; discriminate.
  - rewrite app_nil_iff, ifn_nil_iff, (IH x (i + 1)). split.
    + intros [H1 H2] l1 a b l2 Heq. destruct l1 as [|y l1]; cbn [app] in Heq.
      * injection Heq as <- <- _. apply Z.ltb_ge. exact H1.
      * injection Heq as _ Heq. eapply H2. exact Heq.
    + intros H. split.
      * apply Z.ltb_ge. apply (H [] d x r). reflexivity.
      * intros l1 a b l2 Heq. apply (H (d :: l1) a b l2). cbn [app]. rewrite Heq. reflexivity.
Qed.

Lemma reach_viol_nil P k t : reach_viol P k t = [] <-> Reachable P t.
Proof.
  unfold reach_viol, Reachable. destruct (flat_tour t) as [|d r].
  - split; [|reflexivity]. intros _ l1 a b l2 H. destruct l1; discriminate.
  - apply legs_viol_nil.
Qed.

Lemma reach_viols_nil P S : reach_viols P S = [] <-> forall t, In t (sl_tours S) -> Reachable P t.
Proof.
  unfold reach_viols. rewrite mapi_nil_iff. split.
  - intros H t Ht. apply In_nth_error in Ht. destruct Ht as [n Hn]. apply (reach_viol_nil P (Z.of_nat n)). apply H. exact Hn.
  - intros H n t Hn. apply reach_viol_nil. apply H. eapply nth_error_In. exact Hn.
Qed.

Lemma map_nodup_filter_nil (p : Z -> bool) l :
  map FGroup (nodup Z.eq_dec (filter p l)) = [] <-> forall g, In g l -> p g = false.
Proof.
  split.
  - intros H g Hg. destruct (p g) eqn:E; [|reflexivity].
    assert (Hin : In g (nodup Z.eq_dec (filter p l))) by (apply nodup_In; apply filter_In; auto).
    destruct (nodup Z.eq_dec (filter p l)); [contradiction|discriminate].
  - intros H. assert (E : filter p l = []).
    { destruct (filter p l) as [|x r] eqn:E; [reflexivity|].
      assert (Hin : In x (filter p l)) by (rewrite E; left; reflexivity).
      apply filter_In in Hin. destruct Hin as [H1 H2]. rewrite (H _ H1) in H2. discriminate. }
    rewrite E. reflexivity.
Qed.

Lemma group_viols_from_nil P l : forall before,
  group_viols_from P before l = [] <->
  (forall n t g, nth_error l n = Some t -> In g (tour_groups P t) -> ~ In g before)
  /\ (forall n1 n2 t1 t2 g, nth_error l n1 = Some t1 -> nth_error l n2 = Some t2 ->
                            In g (tour_groups P t1) -> In g (tour_groups P t2) -> n1 = n2).
Proof.
  induction l as [|t r IH]; intros before; cbn [group_viols_from].
  - split; [|reflexivity]. intros _. split.
    + intros n t g H. destruct n; discriminate.
    + intros n1 n2 t1 t2 g H. destruct n1; discriminate.
  - cbv zeta. rewrite app_nil_iff, map_nodup_filter_nil, (IH (before ++ tour_groups P t)). split.
    + intros [H1 [HA HB]]. split.
      * intros n t' g Hn Hg Hin. destruct n as [|n]; cbn [nth_error] in Hn.
        -- injection Hn as <-. specialize (H1 g Hg). apply zmem_In in Hin. congruence.
        -- apply (HA n t' g Hn Hg). apply in_or_app. left. exact Hin.
      * intros n1 n2 t1 t2 g Hn1 Hn2 Hg1 Hg2.
        destruct n1 as [|n1], n2 as [|n2]; cbn [nth_error] in Hn1, Hn2.
        -- reflexivity.
        -- injection Hn1 as <-. exfalso. apply (HA n2 t2 g Hn2 Hg2). apply in_or_app. right. exact Hg1.
        -- injection Hn2 as <-. exfalso. apply (HA n1 t1 g Hn1 Hg1). apply in_or_app. right. exact Hg2.
        -- f_equal. eapply HB; eassumption.
    + intros [HA HB]. split; [|split].
      * intros g Hg. destruct (zmem g before) eqn:E; [|reflexivity]. exfalso.
        apply zmem_In in E. apply (HA 0%nat t g eq_refl Hg E).
      * intros n t' g Hn Hg Hin. apply in_app_or in Hin. destruct Hin as [Hin|Hin].
        -- apply (HA (S n) t' g Hn Hg Hin).
        -- assert (E : S n = 0%nat) by (apply (HB (S n) 0%nat t' t g Hn eq_refl Hg Hin)). discriminate.
      * intros n1 n2 t1 t2 g Hn1 Hn2 Hg1 Hg2.
        assert (E : S n1 = S n2) by (apply (HB (S n1) (S n2) t1 t2 g Hn1 Hn2 Hg1 Hg2)). injection E as E. exact E.
Qed.

Lemma group_viols_nil P S : group_viols P S = [] <-> Grouped P S.
Proof.
  unfold group_viols, Grouped. rewrite group_viols_from_nil. split.
  - intros [_ H]. exact H.
  - intros H. split; [intros n t g _ _ []|exact H].
Qed.

(* task order: the all-pairs checker decides "no later value is smaller" *)
Lemma sorted_b_iff l : sorted_b l = true <-> Sorted l.
Proof.
  unfold Sorted. induction l as [|x r IH]; cbn [sorted_b].
  - split; [|reflexivity]. intros _ l1 a l2 b l3 H. destruct l1; discriminate.
  - rewrite andb_true_iff, IH, forallb_forall. split.
    + intros [Hx Hr] l1 a l2 b l3 Heq. destruct l1 as [|y l1]; cbn [app] in Heq; injection Heq as Hxa Hrest.
      * subst x r. apply Z.leb_le. apply Hx. apply in_or_app. right. left. reflexivity.
      * subst. eapply Hr. reflexivity.
    + intros H. split.
      * intros b Hb. apply Z.leb_le. apply in_split in Hb. destruct Hb as [l2 [l3 ->]]. apply (H [] x l2 b l3). reflexivity.
      * intros l1 a l2 b l3 Heq. apply (H (x :: l1) a l2 b l3). cbn [app]. rewrite Heq. reflexivity.
Qed.

Lemma order_viols_nil P S :
  order_viols P S = [] <->
  forall n t r, nth_error (sl_tours S) n = Some t -> rebuild (order_problem P) t = Some r -> Sorted (order_seq r).
Proof.
  unfold order_viols. rewrite mapi_nil_iff. split.
  - intros H n t r Hn Hr. specialize (H n t Hn). unfold order_viol in H. rewrite Hr in H.
    apply if_nil_iff in H. apply sorted_b_iff. exact H.
  - intros H n t Hn. unfold order_viol. destruct (rebuild (order_problem P) t) as [r|] eqn:Hr; [|reflexivity].
    apply if_nil_iff. apply sorted_b_iff. apply (H n t r Hn Hr).
Qed.

(* break placement: the checker reports nothing iff every break activity uses a place of a break of its shift at that place's
   location or, for a place without location, where the previous activity took place *)
Lemma break_placed_iff sh dep prev a :
  break_placed sh dep prev a = true <->
  exists bk p, In bk (sh_breaks sh) /\ In p (break_places dep prev bk) /\ reload_fits a p = true.
Proof.
  unfold break_placed. rewrite existsb_exists. split.
  - intros [bk [Hb He]]. apply existsb_exists in He. destruct He as [p [Hp Hf]]. exists bk, p. auto.
  - intros [bk [p [Hb [Hp Hf]]]]. exists bk. split; [exact Hb|]. apply existsb_exists. exists p. auto.
Qed.

Lemma bplace_viol_nil sh dep k : forall l d i,
  bplace_viol sh dep k i (fa_loc d) l = [] <->
  (forall l1 a b l2, d :: l = l1 ++ a :: b :: l2 -> fa_kind b = 12 -> break_placed sh dep (fa_loc a) b = true).
Proof.
  induction l as [|x r IH]; intros d i; cbn [bplace_viol].
  - split; [|reflexivity]. intros _ l1 a b l2 H. destruct l1 as [|y [|y' l1]]; discriminate.
  - rewrite app_nil_iff, ifn_nil_iff, (IH x (i + 1)). split.
    + intros [H1 H2] l1 a b l2 Heq Hk. destruct l1 as [|y l1]; cbn [app] in Heq.
      * injection Heq as <- <- _. apply Z.eqb_eq in Hk. rewrite Hk in H1. cbn [andb] in H1.
        apply negb_false_iff in H1. exact H1.
      * injection Heq as _ Heq. eapply H2; eassumption.
    + intros H. split.
      * destruct (fa_kind x =? 12) eqn:Hk; [|reflexivity]. cbn [andb]. apply negb_false_iff.
        apply (H [] d x r); [reflexivity|apply Z.eqb_eq; exact Hk].
      * intros l1 a b l2 Heq Hk. apply (H (d :: l1) a b l2); [cbn [app]; rewrite Heq; reflexivity|exact Hk].
Qed.

Lemma break_place_viol_nil P k t : break_place_viol P k t = [] <-> BreaksPlaced P t.
Proof.
  unfold break_place_viol, BreaksPlaced. destruct (shift_of P t) as [[vt sh]|].
  - destruct (flat_tour t) as [|d r] eqn:Hf.
    + split; [|reflexivity]. intros _ vt' sh' l1 a b l2 _ H. destruct l1; discriminate.
    + rewrite bplace_viol_nil. cbn [tour_dep]. split.
      * intros H vt' sh' l1 a b l2 Heq Hl Hk. injection Heq as <- <-. apply break_placed_iff. eapply H; eassumption.
      * intros H l1 a b l2 Hl Hk. apply break_placed_iff. eapply (H vt sh); [reflexivity|exact Hl|exact Hk].
  - split; [|reflexivity]. intros _ vt sh l1 a b l2 H. discriminate.
Qed.

Lemma break_place_viols_nil P S : break_place_viols P S = [] <-> forall t, In t (sl_tours S) -> BreaksPlaced P t.
Proof.
  unfold break_place_viols. rewrite mapi_nil_iff. split.
  - intros H t Ht. apply In_nth_error in Ht. destruct Ht as [n Hn]. apply (break_place_viol_nil P (Z.of_nat n)). apply H. exact Hn.
  - intros H n t Hn. apply break_place_viol_nil. apply H. eapply nth_error_In. exact Hn.
Qed.

(* the three static rules together *)
Lemma static_rules_nil P S :
  compat_viols P S ++ group_viols P S ++ reach_viols P S = [] <->
  (forall t, In t (sl_tours S) -> Compatible P t) /\ Grouped P S /\ (forall t, In t (sl_tours S) -> Reachable P t).
Proof. rewrite !app_nil_iff, compat_viols_nil, group_viols_nil, reach_viols_nil. tauto. Qed.

(* skills: allOf / oneOf / noneOf against the vehicle's skills *)
Definition SkillsOk (vt : pvtype) (job : pjob) : Prop :=
  (forall s, In s (pj_skills job) -> In s (vt_skills vt))
  /\ (pj_one job = [] \/ exists s, In s (pj_one job) /\ In s (vt_skills vt))
  /\ (forall s, In s (pj_none job) -> ~ In s (vt_skills vt)).

Lemma skills_ok_iff vt job : skills_ok vt job = true <-> SkillsOk vt job.
Proof.
  unfold skills_ok, SkillsOk. rewrite !andb_true_iff, !forallb_forall. split.
  - intros [[H1 H2] H3]. split; [|split].
    + intros s Hs. apply zmem_In. apply H1. exact Hs.
    + destruct (pj_one job) as [|x r]; [left; reflexivity|right].
      apply existsb_exists in H2. destruct H2 as [s [Hs Hz]]. exists s. split; [exact Hs|apply zmem_In; exact Hz].
    + intros s Hs Hin. specialize (H3 s Hs). apply negb_true_iff in H3. apply zmem_In in Hin. congruence.
  - intros [H1 [H2 H3]]. split; [split|].
    + intros s Hs. apply zmem_In. apply H1. exact Hs.
    + destruct (pj_one job) as [|x r] eqn:E; [reflexivity|]. destruct H2 as [H2|[s [Hs Hin]]]; [discriminate|].
      apply existsb_exists. exists s. split; [exact Hs|apply zmem_In; exact Hin].
    + intros s Hs. apply negb_true_iff. destruct (zmem s (vt_skills vt)) eqn:E; [|reflexivity].
      exfalso. apply (H3 s Hs). apply zmem_In. exact E.
Qed.

(* capacity in the extra dimensions: the checker reports nothing iff every projection of every tour that can be rebuilt is
   load-feasible for the independent simulation (the projection is the single-dimension problem of that dimension) *)
Lemma dims_feasible_viols_nil P S :
  dims_feasible_viols P S = [] <->
  forall n t d r, nth_error (sl_tours S) n = Some t -> (d < xdims P)%nat ->
                  rebuild (dim_problem d P) (dim_tour d t) = Some r -> ivl_load_feasible (v_cap (rb_veh r)) (rb_acts r) = true.
Proof.
  unfold dims_feasible_viols. rewrite mapi_nil_iff. split.
  - intros H n t d r Hn Hd Hr. specialize (H n t Hn). cbv beta in H. rewrite flat_map_nil_iff in H.
    assert (Hin : In d (seq 0 (xdims P))) by (apply in_seq; lia).
    specialize (H d Hin). unfold dim_tour_viol in H. rewrite Hr in H. cbv zeta in H. cbn [fst] in H.
    apply if_nil_iff in H. exact H.
  - intros H n t Hn. rewrite flat_map_nil_iff. intros d Hin. apply in_seq in Hin.
    unfold dim_tour_viol. destruct (rebuild (dim_problem d P) (dim_tour d t)) as [r|] eqn:Hr; [|reflexivity].
    cbv zeta. cbn [fst]. apply if_nil_iff. apply (H n t d r Hn); [lia|exact Hr].
Qed.

(* ------------------------------------------------------------------ reload intervals: the single-interval case *)
Definition no_reload (t : list act) : bool := forallb (fun a => negb (is_reload a)) t.

(* without reload activities the verdict is the one of Spec.Feasible.feasible: the C01 / C06 theorems about `feasible` speak
   about exactly what the end-to-end checker evaluates on such tours *)
Lemma feasible_x_single dur v t : no_reload t = true -> feasible_x dur v t = feasible dur v t.
Proof. intros H. unfold feasible_x, feasible. rewrite (ivl_load_feasible_single _ _ H). reflexivity. Qed.

Lemma ld_from_loads_from : forall t l, ld_from l t = loads_from l t.
Proof. induction t as [|a r IH]; intros l; cbn [ld_from loads_from]; [reflexivity|]. cbv zeta. rewrite IH. reflexivity. Qed.

Lemma replay_loads_x_single has_end t : no_reload t = true -> replay_loads_x has_end t = replay_loads has_end t.
Proof. intros H. unfold replay_loads_x, replay_loads. rewrite (ivl_loads_single _ H), ld_from_loads_from. reflexivity. Qed.

(* ------------------------------------------------------------------ Part R: the replay is the Core schedule model *)
Lemma replay_from_resched dur loc dep acts :
  replay_from dur loc dep acts = map (fun a => (a_arr a, a_dep a)) (resched_from dur loc dep acts).
Proof.
  revert loc dep. induction acts as [|a r IH]; intros loc dep; cbn [replay_from resched_from map]; [reflexivity|].
  unfold est_departure, set_sched. cbn [a_arr a_dep a_loc]. rewrite IH. reflexivity.
Qed.

Lemma replay_reschedule dur t :
  replay dur t = map (fun a => (a_arr a, a_dep a)) (reschedule dur t).
Proof. destruct t as [|s r]; cbn [replay reschedule map]; [reflexivity|]. rewrite replay_from_resched. reflexivity. Qed.

Lemma legs_sum_dist_from m loc acts : legs_sum m loc acts = dist_from m loc acts.
Proof. revert loc. induction acts as [|a r IH]; intros loc; cbn [legs_sum dist_from]; [reflexivity|]. rewrite IH. reflexivity. Qed.

Lemma tour_legs_total_distance m t : tour_legs m t = total_distance m t.
Proof. destruct t; cbn [tour_legs total_distance]; [reflexivity|]. apply legs_sum_dist_from. Qed.

(* breaks in the replayed statistic: the service time of the activities is split into `serving` and `break`; a tour without
   break activities has break = 0 and serving = the whole service time (what Model/Writer.v and its theorems are about) *)
Lemma replay_stat_break_split P vt acts :
  st_serve (replay_stat P vt acts) + st_break (replay_stat P vt acts) = replay_serving acts.
Proof. unfold replay_stat. cbn [st_serve st_break]. lia. Qed.

Lemma replay_break_none acts : forallb (fun a => negb (is_break_act a)) (tl acts) = true -> replay_break acts = 0.
Proof.
  unfold replay_break. generalize (tl acts). intros l. induction l as [|a r IH]; cbn [forallb filter]; [reflexivity|].
  intros H. apply andb_true_iff in H. destruct H as [Ha Hr]. apply negb_true_iff in Ha. rewrite Ha. apply IH. exact Hr.
Qed.

(* ------------------------------------------------------------------ non-vacuity: a concrete problem and documents *)
(* three locations on a line (10 apart); job 1 = delivery at location 1 (5 s service), job 2 = pickup at location 2 with a
   window that closes at 10; one vehicle, closed shift, fixed 7, distance price 1, time price 2 *)
Definition ex_P : pproblem :=
  mkPProblem [mkPJob 1 [mkPTask 1 [mkPPlace 1 5 [(0, 100)] None] 1] true [] [] [] None None [] [];
              mkPJob 2 [mkPTask 0 [mkPPlace 2 0 [(0, 10)] None] 1] true [] [] [] None None [] []]
             [mkPVType 1 [1] [mkPShift 0 0 INF (Some (0, 1000)) [] []] 10 7 1 2 [] None None None []]
             3 [0; 10; 20; 10; 0; 10; 20; 10; 0] [0; 10; 20; 10; 0; 10; 20; 10; 0] [].
Definition ex_stat : sstat := mkSStat 77 20 25 20 5 0 0.
Definition ex_tour : stour :=
  mkSTour 1 1 0 [mkSStop 0 0 0 1 0 [mkSAct (-1) 10 None None None];
                 mkSStop 1 10 15 0 10 [mkSAct 1 1 None None None];
                 mkSStop 0 25 25 0 20 [mkSAct (-1) 11 None None None]] ex_stat [].
(* job 1 served, job 2 unassigned with one reason: accepted by the WHOLE checker *)
Definition ex_S : ssolution := mkSSolution ex_stat [ex_tour] [(2, 1%nat)].
(* the same, but job 1 is also listed as unassigned *)
Definition ex_S_dup : ssolution := mkSSolution ex_stat [ex_tour] [(2, 1%nat); (1, 1%nat)].
(* the same, but the reported cost is off by one *)
Definition ex_S_cost : ssolution :=
  mkSSolution (mkSStat 78 20 25 20 5 0 0) [mkSTour 1 1 0 (to_stops ex_tour) (mkSStat 78 20 25 20 5 0 0) []] [(2, 1%nat)].

Lemma ex_valid : valid_b ex_P ex_S = [].
Proof. vm_compute. reflexivity. Qed.
Lemma ex_accounted : Accounted ex_P ex_S /\ sl_tours ex_S <> [] /\ sl_unassigned ex_S <> [].
Proof. split; [apply accounted_b_sound; vm_compute; reflexivity|]. split; discriminate. Qed.
Lemma ex_dup_rejected : accounted_b ex_P ex_S_dup = [AJobDuplicated 1] /\ ~ Accounted ex_P ex_S_dup.
Proof.
  assert (H : accounted_b ex_P ex_S_dup = [AJobDuplicated 1]) by (vm_compute; reflexivity).
  split; [exact H|]. intros HA. apply accounted_b_complete in HA. rewrite H in HA. discriminate.
Qed.
Lemma ex_cost_rejected : replay_viol ex_P ex_S_cost = [RStatCost 0].
Proof. vm_compute. reflexivity. Qed.

(* ---- breaks: ex_P whose shift defines one optional break, 5 s, no location, offset interval [10, 50] after the departure *)
Definition ex_Pb : pproblem :=
  mkPProblem (pr_jobs ex_P)
             [mkPVType 1 [1] [mkPShift 0 0 INF (Some (0, 1000)) [] [mkPBreak [mkPPlace NOLOC 5 [(10, 50)] None] true]]
                       10 7 1 2 [] None None None []]
             3 (pr_dur ex_P) (pr_dist ex_P) [].
(* job 1 is served 10..15 at location 1, the break is taken there 15..20, back at the depot at 30 *)
Definition ex_stat_b : sstat := mkSStat 87 20 30 20 5 0 5.
Definition ex_Sb : ssolution :=
  mkSSolution ex_stat_b
    [mkSTour 1 1 0 [mkSStop 0 0 0 1 0 [mkSAct (-1) 10 None None None];
                    mkSStop 1 10 20 0 10 [mkSAct 1 1 (Some 1) (Some (10, 15)) None; mkSAct BREAK_JOB 12 (Some 1) (Some (15, 20)) None];
                    mkSStop 0 30 30 0 20 [mkSAct (-1) 11 None None None]] ex_stat_b []]
    [(2, 1%nat)].
(* the same break taken at location 2 (a stop of its own): the place has no location, so it belongs where job 1 was served *)
Definition ex_stat_bad : sstat := mkSStat 147 40 50 40 5 0 5.
Definition ex_Sb_bad : ssolution :=
  mkSSolution ex_stat_bad
    [mkSTour 1 1 0 [mkSStop 0 0 0 1 0 [mkSAct (-1) 10 None None None];
                    mkSStop 1 10 15 0 10 [mkSAct 1 1 None None None];
                    mkSStop 2 25 30 0 20 [mkSAct BREAK_JOB 12 None None None];
                    mkSStop 0 50 50 0 40 [mkSAct (-1) 11 None None None]] ex_stat_bad []]
    [(2, 1%nat)].
Lemma ex_break : valid_b ex_Pb ex_Sb = [] /\ In (FBreakPlace 0 2) (valid_b ex_Pb ex_Sb_bad).
Proof. split; [vm_compute; reflexivity|]. vm_compute. repeat (first [left; reflexivity | right]). Qed.
Lemma ex_break_stat : valid_b ex_Pb ex_Sb = [] /\ st_break (sl_stat ex_Sb) = 5.
Proof. split; [exact (proj1 ex_break)|reflexivity]. Qed.
Lemma ex_break_accounted : Accounted ex_Pb ex_Sb /\ break_acts (hd ex_tour (sl_tours ex_Sb)) <> [].
Proof. split; [apply accounted_b_sound; vm_compute; reflexivity|vm_compute; discriminate]. Qed.
