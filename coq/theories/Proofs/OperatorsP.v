(* C04 proofs about the operator programs of Model/Operators.v.
   Part 1: JobRemovalTracker and the ruins - every ruin is a chain of atomic tracker steps (`asteps`), each of which keeps
   the invariant, leaves the pinned jobs where they are, removes jobs whole and respects the limits. *)
From VRP Require Import Base.Tac Model.Core Spec.Feasible Model.Eval Spec.Inv Model.Context Proofs.ContextP.
From VRP Require Import Model.Operators.
From Coq Require Import Permutation.

(* ================= lists ================= *)
Lemma set_nth_replace : forall rs k r r',
  NoDup (map r_actor rs) -> nth_error rs k = Some r -> r_actor r' = r_actor r -> set_nth k r' rs = replace_route rs r'.
Proof.
  induction rs as [|x rs IH]; intros k r r' Hnd Hk Ha; [destruct k; discriminate|].
  cbn [map] in Hnd. inversion Hnd as [|? ? Hni Hnd']; subst.
  destruct k as [|k]; cbn [nth_error] in Hk.
  - inversion Hk; subst x. unfold set_nth, replace_route. cbn [firstn skipn app map].
    replace (r_actor r =? r_actor r') with true by (symmetry; apply Z.eqb_eq; congruence). f_equal.
    fold (replace_route rs r'). symmetry. apply replace_id. rewrite Ha. exact Hni.
  - unfold set_nth. cbn [firstn skipn app]. unfold replace_route. cbn [map].
    destruct (r_actor x =? r_actor r') eqn:E.
    + apply Z.eqb_eq in E. exfalso. apply Hni. rewrite E, Ha. apply in_map. apply (nth_error_In _ _ Hk).
    + f_equal. apply (IH k r r' Hnd' Hk Ha).
Qed.

Lemma nth_error_find_route : forall d k r, NoDup (used d) -> nth_error (d_routes d) k = Some r -> find_route d (r_actor r) = Some r.
Proof.
  intros d k r Hnd Hk. unfold find_route, used in *. revert k Hnd Hk.
  induction (d_routes d) as [|x rs IH]; intros k Hnd Hk; [destruct k; discriminate|].
  cbn [map] in Hnd. inversion Hnd as [|? ? Hni Hnd']; subst. cbn [find].
  destruct k as [|k]; cbn [nth_error] in Hk.
  - inversion Hk; subst. rewrite Z.eqb_refl. reflexivity.
  - destruct (r_actor x =? r_actor r) eqn:E.
    + apply Z.eqb_eq in E. exfalso. apply Hni. rewrite E. apply in_map. apply (nth_error_In _ _ Hk).
    + apply (IH k Hnd' Hk).
Qed.

Lemma set_nth_In : forall k (x : rdump) l y, In y (set_nth k x l) -> y = x \/ In y l.
Proof.
  intros k x l y H. unfold set_nth in H. apply in_app_iff in H as [H|[H|H]].
  - right. rewrite <- (firstn_skipn k l). apply in_app_iff. left. exact H.
  - left. symmetry. exact H.
  - right. rewrite <- (firstn_skipn (S k) l). apply in_app_iff. right. exact H.
Qed.

Lemma set_nth_map_actor : forall k r r' l, nth_error l k = Some r -> r_actor r' = r_actor r ->
  map r_actor (set_nth k r' l) = map r_actor l.
Proof.
  intros k r r' l; revert k; induction l as [|x l IH]; intros k Hk Ha; [destruct k; discriminate|].
  destruct k as [|k]; cbn [nth_error] in Hk.
  - inversion Hk; subst. unfold set_nth. cbn. rewrite Ha. reflexivity.
  - unfold set_nth. cbn [firstn skipn app map]. f_equal. apply IH; assumption.
Qed.

(* ================= try_remove_job ================= *)
Definition removed_route (r : rdump) (j : Z) : rdump := mkRoute (r_actor r) (remove_job_acts j (r_acts r)).

Lemma trj_spec : forall P tr d idx j st' b,
  try_remove_job P (tr, d) idx j = (st', b) ->
  (b = false /\ st' = (tr, d)) \/
  (b = true /\ t_acts tr <> 0 /\ memz j (d_locked d) = false /\
   exists r, nth_error (d_routes d) idx = Some r /\ serves r j = true /\
     st' = (mkTr (Z.max (t_acts tr - parts_of P j) 0) (t_routes tr) (add_set (r_actor r) (t_actors tr)) (add_set j (t_removed tr)),
            mkDump (set_nth idx (removed_route r j) (d_routes d)) (d_required d ++ [j]) (d_ignored d) (d_unassigned d)
                   (d_locked d) (d_avail d))).
Proof.
  intros P tr d idx j st' b H. unfold try_remove_job in H.
  destruct (t_acts tr =? 0) eqn:Ea; [inversion H; auto|].
  destruct (memz j (d_locked d)) eqn:El; [inversion H; auto|].
  destruct (nth_error (d_routes d) idx) as [r|] eqn:En; [|inversion H; auto].
  destruct (serves r j) eqn:Es; [|inversion H; auto].
  inversion H; subst. right. split; [reflexivity|]. split; [apply Z.eqb_neq; exact Ea|]. split; [reflexivity|].
  exists r. auto.
Qed.

(* a successful try_remove_job is the primitive PRemove on the tour's actor *)
Lemma trj_is_step : forall P tr d idx j tr' d',
  NoDup (used d) -> try_remove_job P (tr, d) idx j = ((tr', d'), true) ->
  exists r, nth_error (d_routes d) idx = Some r /\ step P (PRemove (r_actor r) j false) d = Some d'.
Proof.
  intros P tr d idx j tr' d' Hnd H. apply trj_spec in H as [[Hb _]|(_ & _ & El & r & En & Es & E)]; [discriminate|].
  exists r. split; [exact En|]. cbn [step]. rewrite (nth_error_find_route d idx r Hnd En), Es, El. cbn [negb andb].
  inversion E; subst. f_equal. f_equal. symmetry. apply (set_nth_replace _ idx r); [exact Hnd|exact En|reflexivity].
Qed.

(* ================= uniq ================= *)
Lemma add_set_In : forall x y l, In x (add_set y l) <-> In x l \/ x = y.
Proof.
  intros x y l. unfold add_set. destruct (memz y l) eqn:E.
  - apply memz_In in E. split; [tauto|intros [H| ->]; assumption].
  - rewrite in_app_iff. cbn. intuition congruence.
Qed.
Lemma add_set_NoDup : forall y l, NoDup l -> NoDup (add_set y l).
Proof.
  intros y l H. unfold add_set. destruct (memz y l) eqn:E; [exact H|]. apply memz_false in E. apply NoDup_snoc; assumption.
Qed.
Lemma fold_add_set_In : forall l acc x, In x (fold_left (fun a y => add_set y a) l acc) <-> In x acc \/ In x l.
Proof.
  induction l as [|y l IH]; intros acc x; cbn [fold_left]; [cbn; tauto|]. rewrite IH, add_set_In. cbn [In]. intuition congruence.
Qed.
Lemma fold_add_set_NoDup : forall l acc, NoDup acc -> NoDup (fold_left (fun a y => add_set y a) l acc).
Proof. induction l as [|y l IH]; intros acc H; cbn [fold_left]; [exact H|]. apply IH. apply add_set_NoDup. exact H. Qed.
Lemma uniq_In : forall l x, In x (uniq l) <-> In x l.
Proof. intros l x. unfold uniq. rewrite fold_add_set_In. cbn. tauto. Qed.
Lemma uniq_NoDup : forall l, NoDup (uniq l).
Proof. intros l. apply fold_add_set_NoDup. constructor. Qed.
Lemma route_jobs_In : forall r j, In j (route_jobs r) <-> In j (job_ids r).
Proof. intros. apply uniq_In. Qed.

(* ================= remove_whole_route keeps the invariant (no metric needed: the tour disappears) ================= *)
Definition not_actor (a : Z) (x : rdump) : bool := negb (r_actor x =? a).
Lemma others_count_list : forall (q : rdump -> bool) rs r, NoDup (map r_actor rs) -> In r rs ->
  (length (filter q (filter (not_actor (r_actor r)) rs)) + b2n (q r))%nat = length (filter q rs).
Proof.
  intros q rs r; induction rs as [|x rs IH]; intros Hnd Hin; [destruct Hin|].
  cbn [map] in Hnd. inversion Hnd as [|? ? Hni Hnd']; subst. cbn [filter]. unfold not_actor at 1.
  destruct Hin as [->|Hin].
  - rewrite Z.eqb_refl. cbn [negb].
    assert (E : filter (not_actor (r_actor r)) rs = rs).
    { clear -Hni. induction rs as [|y rs IH]; [reflexivity|]. cbn [filter]. unfold not_actor at 1.
      destruct (r_actor y =? r_actor r) eqn:E.
      - apply Z.eqb_eq in E. exfalso. apply Hni. left. exact E.
      - cbn [negb]. f_equal. apply IH. intros Hc. apply Hni. right. exact Hc. }
    rewrite E. destruct (q r); cbn [length b2n]; lia.
  - destruct (r_actor x =? r_actor r) eqn:E.
    + apply Z.eqb_eq in E. exfalso. apply Hni. rewrite E. apply in_map. exact Hin.
    + cbn [negb filter]. specialize (IH Hnd' Hin). destruct (q x); cbn [length]; lia.
Qed.
Lemma others_count : forall (q : rdump -> bool) d r, NoDup (used d) -> In r (d_routes d) ->
  (length (filter q (others d (r_actor r))) + b2n (q r))%nat = length (filter q (d_routes d)).
Proof. intros q d r Hnd Hin. apply (others_count_list q (d_routes d) r Hnd Hin). Qed.

Lemma has_locked_false : forall d r j, has_locked d r = false -> In j (job_ids r) -> ~ In j (d_locked d).
Proof.
  intros d r j H Hj Hl. unfold has_locked in H.
  assert (existsb (fun j => memz j (d_locked d)) (job_ids r) = true); [|congruence].
  apply existsb_exists. exists j. split; [exact Hj|apply memz_In; exact Hl].
Qed.

Lemma lock_route_has_locked : forall P d l x, locks_nonempty P -> In l (pw_locks P) ->
  forallb (fun j => memz j (d_locked d)) (l_jobs l) = true ->
  list_eqb (filter (fun j => memz j (l_jobs l)) (job_ids x)) (l_jobs l) = true -> has_locked d x = true.
Proof.
  intros P d l x Hne Hl Hall He. unfold list_eqb in He. destruct (list_eq_dec Z.eq_dec _ _) as [E|E]; [|discriminate].
  destruct (l_jobs l) as [|j js] eqn:Ej; [exfalso; apply (Hne l Hl); exact Ej|].
  assert (Hj : In j (filter (fun j0 => memz j0 (j :: js)) (job_ids x))) by (rewrite E; left; reflexivity).
  apply filter_In in Hj as [Hj _]. unfold has_locked. apply existsb_exists. exists j. split; [exact Hj|].
  cbn [forallb] in Hall. apply andb_true_iff in Hall as [H _]. exact H.
Qed.

Lemma inv0_whole_route : forall P tr d k r,
  locks_nonempty P -> Inv0 P d -> nth_error (d_routes d) k = Some r -> has_locked d r = false ->
  Inv0 P (snd (remove_whole_route P (tr, d) r)).
Proof.
  intros P tr d k r Hlne H Hk Hlk. cbn [remove_whole_route snd].
  pose proof (nth_error_In _ _ Hk) as Hin.
  pose proof (proj1 (inv_actors P d H)) as Hnd. unfold used in Hnd.
  destruct (inv_pending P d H) as (Hndr & Hndi & Hndu).
  assert (Hoth : forall x, In x (others d (r_actor r)) <-> In x (d_routes d) /\ x <> r).
  { intros x. unfold others. rewrite filter_In, negb_true_iff, Z.eqb_neq. split.
    - intros [Hx Hne]. split; [exact Hx|]. intros ->. apply Hne. reflexivity.
    - intros [Hx Hne]. split; [exact Hx|]. intros E. apply Hne. apply (actor_unique (d_routes d)); assumption. }
  constructor; cbn [d_routes d_required d_ignored d_unassigned d_locked d_avail].
  - (* homes *)
    intros s Hs. pose proof (inv_homes P d H s Hs) as Hh. unfold homes in *.
    cbn [d_routes d_required d_ignored d_unassigned].
    pose proof (others_count (fun x => serves x (j_id s)) d r Hnd Hin) as C. cbn beta in C.
    destruct (serves r (j_id s)) eqn:Es.
    + apply serves_In in Es. destruct (served_facts P d r (j_id s) H Hin Es) as (_ & Hnr & Hnu & Hni).
      rewrite (b2n_memz_In (j_id s) (d_required d ++ route_jobs r)) by (apply in_app_iff; right; apply route_jobs_In; exact Es).
      rewrite (b2n_memz_notin _ _ Hnr) in Hh. cbn [b2n] in C. lia.
    + assert (En : ~ In (j_id s) (route_jobs r)). { rewrite route_jobs_In. apply memz_false. exact Es. }
      rewrite (b2n_memz_ext (j_id s) (d_required d ++ route_jobs r) (d_required d)) by (rewrite in_app_iff; tauto).
      cbn [b2n] in C. lia.
  - (* known *)
    intros j Hj. apply (inv_known P d H). apply mentioned_iff. apply mentioned_iff in Hj.
    cbn [d_routes d_required d_ignored d_unassigned d_locked] in Hj.
    destruct Hj as [(x & Hx & Hjx)|[Hj|Hj]]; [left; exists x; split; [apply Hoth; exact Hx|exact Hjx]| |tauto].
    apply in_app_iff in Hj as [Hj|Hj]; [tauto|]. left. exists r. split; [exact Hin|apply route_jobs_In; exact Hj].
  - split; [|auto]. apply NoDup_app'; [exact Hndr|apply uniq_NoDup|].
    intros x Hx Hc. apply route_jobs_In in Hc. destruct (served_facts P d r x H Hin Hc) as (_ & Hnr & _). contradiction.
  - unfold used. cbn [d_routes d_avail]. split; [apply NoDup_map_filter; exact Hnd|].
    intros a Ha. apply (proj2 (inv_actors P d H)). unfold used. rewrite in_app_iff in *. cbn [In] in Ha.
    destruct Ha as [Ha|[<-|Ha]]; [left|left; apply in_map; exact Hin|right; exact Ha].
    apply in_map_iff in Ha as (x & <- & Hx). apply in_map. apply Hoth in Hx. tauto.
  - intros v Hv. pose proof (inv_registry P d H v Hv) as Hr. unfold used in *. cbn [d_routes d_avail In].
    split.
    + intros [E|Ha] Hc.
      * apply in_map_iff in Hc as (x & Ex & Hx). apply Hoth in Hx as [Hx Hne]. apply Hne.
        apply (actor_unique (d_routes d)); [exact Hnd|exact Hx|exact Hin|congruence].
      * apply Hr in Ha. apply Ha. apply in_map_iff in Hc as (x & Ex & Hx). rewrite <- Ex. apply in_map. apply Hoth in Hx. tauto.
    + intros Hn. destruct (Z.eq_dec (r_actor r) (vs_id v)) as [E|E]; [left; exact E|right]. apply Hr. intros Hc. apply Hn.
      apply in_map_iff in Hc as (x & Ex & Hx). apply in_map_iff. exists x. split; [exact Ex|]. apply Hoth. split; [exact Hx|].
      intros ->. congruence.
  - intros x Hx. apply (inv_routes P d H). apply Hoth in Hx. tauto.
  - intros g Hg. pose proof (inv_groups P d H g Hg) as Hgo. unfold group_ok in *. cbn [d_routes].
    pose proof (others_count (has_group P g) d r Hnd Hin) as C.
    apply Nat.leb_le in Hgo. apply Nat.leb_le. lia.
  - intros l Hl. pose proof (inv_locks P d H l Hl) as Hlo. unfold lock_ok in *. cbn [d_routes d_locked].
    apply andb_true_iff in Hlo as [Hl1 Hl2]. apply andb_true_iff. split; [exact Hl1|].
    apply existsb_exists in Hl2 as (x & Hx & Hxx). apply existsb_exists. exists x. split; [|exact Hxx].
    apply Hoth. split; [exact Hx|]. intros ->. apply andb_true_iff in Hxx as [_ Hxx].
    rewrite (lock_route_has_locked P d l r Hlne Hl Hl1 Hxx) in Hlk. discriminate.
Qed.

(* ================= atomic tracker steps ================= *)
Inductive astep (P : pworld) : rst -> rst -> Prop :=
| at_job : forall st idx j st', try_remove_job P st idx j = (st', true) -> astep P st st'
| at_whole : forall tr d idx r hit, nth_error (d_routes d) idx = Some r ->
    (t_routes tr =? 0) || (t_acts tr =? 0) = false -> can_remove_full_route (tr, d) r hit = true ->
    astep P (tr, d) (remove_whole_route P (tr, d) r)
| at_tick : forall tr d, astep P (tr, d) (mkTr (t_acts tr) (Z.max (t_routes tr - 1) 0) (t_actors tr) (t_removed tr), d).

Inductive asteps (P : pworld) : rst -> rst -> Prop :=
| as_refl : forall st, asteps P st st
| as_step : forall st st1 st2, astep P st st1 -> asteps P st1 st2 -> asteps P st st2.

Lemma asteps_trans : forall P a b c, asteps P a b -> asteps P b c -> asteps P a c.
Proof. intros P a b c H; induction H; intros Hc; [exact Hc|]. eapply as_step; eauto. Qed.
Lemma asteps_one : forall P a b, astep P a b -> asteps P a b.
Proof. intros. eapply as_step; [eassumption|apply as_refl]. Qed.

(* chains of successful try_remove_job calls, with the jobs removed in order *)
Inductive jsteps (P : pworld) : rst -> list Z -> rst -> Prop :=
| js_refl : forall st, jsteps P st [] st
| js_step : forall st idx j st1 l st2, try_remove_job P st idx j = (st1, true) -> jsteps P st1 l st2 -> jsteps P st (j :: l) st2.

Lemma jsteps_trans : forall P a l1 b l2 c, jsteps P a l1 b -> jsteps P b l2 c -> jsteps P a (l1 ++ l2) c.
Proof. intros P a l1 b l2 c H; induction H; intros Hc; [exact Hc|]. cbn [app]. eapply js_step; eauto. Qed.
Lemma jsteps_asteps : forall P a l b, jsteps P a l b -> asteps P a b.
Proof. intros P a l b H; induction H; [apply as_refl|]. eapply as_step; [eapply at_job; eassumption|assumption]. Qed.

Definition JS (P : pworld) (a b : rst) : Prop := exists l, jsteps P a l b.
Lemma JS_refl : forall P a, JS P a a. Proof. intros. exists []. apply js_refl. Qed.
Lemma JS_trans : forall P a b c, JS P a b -> JS P b c -> JS P a c.
Proof. intros P a b c [l1 H1] [l2 H2]. exists (l1 ++ l2). eapply jsteps_trans; eauto. Qed.

Lemma trj_JS : forall P st idx j, JS P st (fst (try_remove_job P st idx j)).
Proof.
  intros P st idx j. destruct (try_remove_job P st idx j) as [st' b] eqn:E. cbn [fst]. destruct b.
  - exists [j]. eapply js_step; [exact E|apply js_refl].
  - destruct st as [tr d]. apply trj_spec in E as [[_ ->]|[Hb _]]; [apply JS_refl|discriminate].
Qed.

Lemma remove_jobs_at_JS : forall P idx jobs st, JS P st (remove_jobs_at P idx jobs st).
Proof.
  intros P idx jobs; induction jobs as [|j jobs IH]; intros st; unfold remove_jobs_at in *; cbn [fold_left]; [apply JS_refl|].
  eapply JS_trans; [apply trj_JS|apply IH].
Qed.

(* ---- the five job ruins are chains of try_remove_job ---- *)
Lemma random_job_loop_JS : forall P picks st, JS P st (ruin_random_job_loop P picks st).
Proof.
  intros P picks; induction picks as [|p picks IH]; intros st; cbn [ruin_random_job_loop]; [apply JS_refl|].
  destruct (is_limit (fst st)); [apply JS_refl|].
  eapply JS_trans; [|apply IH]. destruct p as [[idx j]|]; [apply trj_JS|apply JS_refl].
Qed.
Lemma neighbour_loop_JS : forall P jobs st, JS P st (ruin_neighbour_loop P jobs st).
Proof.
  intros P jobs; induction jobs as [|j jobs IH]; intros st; cbn [ruin_neighbour_loop]; [apply JS_refl|].
  destruct (is_limit (fst st)); [apply JS_refl|].
  eapply JS_trans; [|apply IH]. destruct (route_of_job (snd st) j); [apply trj_JS|apply JS_refl].
Qed.
Lemma mapped_jobs_JS : forall P d0 jobs st, JS P st (ruin_mapped_jobs P d0 jobs st).
Proof.
  intros P d0 jobs; induction jobs as [|j jobs IH]; intros st; cbn [ruin_mapped_jobs]; [apply JS_refl|].
  destruct (is_limit (fst st)); [apply JS_refl|].
  eapply JS_trans; [|apply IH]. destruct (route_jobs_map d0 j); [apply trj_JS|apply JS_refl].
Qed.
Lemma cluster_loop_JS : forall P d0 cl st, JS P st (ruin_cluster_loop P d0 cl st).
Proof.
  intros P d0 cl; induction cl as [|c cl IH]; intros st; cbn [ruin_cluster_loop]; [apply JS_refl|].
  destruct (is_limit (fst st)); [apply JS_refl|]. eapply JS_trans; [apply mapped_jobs_JS|apply IH].
Qed.
Lemma worst_loop_JS : forall P d0 pr st, JS P st (ruin_worst_loop P d0 pr st).
Proof.
  intros P d0 pr; induction pr as [|w pr IH]; intros st; cbn [ruin_worst_loop]; [apply JS_refl|].
  destruct (is_limit (fst st)); [apply JS_refl|]. eapply JS_trans; [|apply IH].
  destruct w as [[j neigh]|]; [|apply JS_refl].
  destruct (negb (memz j (d_locked (snd st))) && negb (memz j (d_unassigned (snd st)))); [apply mapped_jobs_JS|apply JS_refl].
Qed.
Lemma asr_loop_JS : forall P ks items st, JS P st (ruin_asr_loop P ks items st).
Proof.
  intros P ks items; induction items as [|[j str] items IH]; intros st; cbn [ruin_asr_loop]; [apply JS_refl|].
  destruct (memz j (t_removed (fst st))); [apply IH|].
  destruct (length (t_actors (fst st)) =? ks)%nat; [apply JS_refl|].
  eapply JS_trans; [|apply IH]. destruct (asr_route st j); [apply remove_jobs_at_JS|apply JS_refl].
Qed.

(* ---- try_remove_route and the route ruins are chains of atomic steps ---- *)
Lemma try_remove_route_asteps : forall P st idx hit sel, asteps P st (fst (try_remove_route P st idx hit sel)).
Proof.
  intros P [tr d] idx hit sel. unfold try_remove_route.
  destruct ((t_routes tr =? 0) || (t_acts tr =? 0)) eqn:Eg; [apply as_refl|].
  destruct (nth_error (d_routes d) idx) as [r|] eqn:En; [|apply as_refl].
  destruct (can_remove_full_route (tr, d) r hit) eqn:Ec; cbn [fst].
  - apply asteps_one. eapply at_whole; eassumption.
  - unfold try_remove_part_route.
    destruct (remove_jobs_at_JS P idx (firstn (Z.to_nat (t_acts tr)) sel) (tr, d)) as [l Hl].
    destruct (remove_jobs_at P idx (firstn (Z.to_nat (t_acts tr)) sel) (tr, d)) as [tr1 d1]. cbn [fst].
    eapply asteps_trans; [eapply jsteps_asteps; exact Hl|]. apply asteps_one. apply at_tick.
Qed.
Lemma random_route_loop_asteps : forall P ts st, asteps P st (ruin_random_route_loop P ts st).
Proof.
  intros P ts; induction ts as [|[[k hit] sel] ts IH]; intros st; cbn [ruin_random_route_loop]; [apply as_refl|].
  eapply asteps_trans; [|apply IH]. destruct (length (d_routes (snd st)) =? 0)%nat; [apply as_refl|apply try_remove_route_asteps].
Qed.
Lemma actor_loop_asteps : forall P ts st, asteps P st (ruin_actor_loop P ts st).
Proof.
  intros P ts; induction ts as [|[[a hit] sel] ts IH]; intros st; cbn [ruin_actor_loop]; [apply as_refl|].
  eapply asteps_trans; [|apply IH].
  destruct (find_index (fun r => r_actor r =? a) (d_routes (snd st))); [apply try_remove_route_asteps|apply as_refl].
Qed.

(* every ruin call, started with a fresh tracker, is a chain of atomic steps *)
Definition ruin_acts (c : ruin_call) : Z :=
  match c with
  | RRandomJob _ a _ _ | RNeighbour a _ _ | RCluster a _ _ | RWorstJobs a _ _ | RAsr a _ _ _ | RRandomRoute _ a _ _ | RRoutesByActor a _ _ => a
  end.
Definition ruin_routes (c : ruin_call) : Z :=
  match c with
  | RRandomJob _ _ r _ | RNeighbour _ r _ | RCluster _ r _ | RWorstJobs _ r _ | RAsr _ r _ _ | RRandomRoute _ _ r _ | RRoutesByActor _ r _ => r
  end.
Definition is_job_ruin (c : ruin_call) : bool :=
  match c with RRandomRoute _ _ _ _ | RRoutesByActor _ _ _ => false | _ => true end.

Theorem job_ruin_jsteps : forall P c d, is_job_ruin c = true ->
  exists gone tr', jsteps P (tracker_new (ruin_acts c) (ruin_routes c), d) gone (tr', run_ruin P c d).
Proof.
  intros P c d Hj. destruct c as [le a r picks|a r jobs|a r cl|a r pr|a r ks items|le a r ts|a r ts]; try discriminate;
    cbn [run_ruin ruin_acts ruin_routes].
  - unfold ruin_random_job. destruct (d_routes d) as [|r0 rs0]; [exists [], (tracker_new a r); apply js_refl|].
    destruct (random_job_loop_JS P (firstn le picks) (tracker_new a r, d)) as [l Hl].
    destruct (ruin_random_job_loop P (firstn le picks) (tracker_new a r, d)) as [tr' d'] eqn:E'. exists l, tr'. exact Hl.
  - unfold ruin_neighbour. destruct (neighbour_loop_JS P jobs (tracker_new a r, d)) as [l Hl].
    destruct (ruin_neighbour_loop P jobs (tracker_new a r, d)) as [tr' d']. exists l, tr'. exact Hl.
  - unfold ruin_cluster. destruct (cluster_loop_JS P d cl (tracker_new a r, d)) as [l Hl].
    destruct (ruin_cluster_loop P d cl (tracker_new a r, d)) as [tr' d']. exists l, tr'. exact Hl.
  - unfold ruin_worst_jobs. destruct (worst_loop_JS P d pr (tracker_new a r, d)) as [l Hl].
    destruct (ruin_worst_loop P d pr (tracker_new a r, d)) as [tr' d']. exists l, tr'. exact Hl.
  - unfold ruin_asr. destruct (asr_loop_JS P ks items (tracker_new a r, d)) as [l Hl].
    destruct (ruin_asr_loop P ks items (tracker_new a r, d)) as [tr' d']. exists l, tr'. exact Hl.
Qed.

Theorem run_ruin_asteps : forall P c d, exists tr', asteps P (tracker_new (ruin_acts c) (ruin_routes c), d) (tr', run_ruin P c d).
Proof.
  intros P c d. destruct (is_job_ruin c) eqn:Ej.
  - destruct (job_ruin_jsteps P c d Ej) as (gone & tr' & H). exists tr'. eapply jsteps_asteps. exact H.
  - destruct c as [le a r picks|a r jobs|a r cl|a r pr|a r ks items|le a r ts|a r ts]; try discriminate;
      cbn [run_ruin ruin_acts ruin_routes].
    + unfold ruin_random_route.
      pose proof (random_route_loop_asteps P (firstn (Nat.min le (length (d_routes d))) ts) (tracker_new a r, d)) as Hl.
      destruct (ruin_random_route_loop P _ (tracker_new a r, d)) as [tr' d']. exists tr'. exact Hl.
    + unfold ruin_routes_by_actor. destruct (d_routes d) as [|r0 rs0]; [exists (tracker_new a r); apply as_refl|].
      pose proof (actor_loop_asteps P ts (tracker_new a r, d)) as Hl.
      destruct (ruin_actor_loop P ts (tracker_new a r, d)) as [tr' d']. exists tr'. exact Hl.
Qed.

(* ================= what every atomic step keeps ================= *)
(* ---- the invariant ---- *)
Lemma can_remove_full_unlocked : forall tr d r hit, can_remove_full_route (tr, d) r hit = true -> has_locked d r = false.
Proof.
  intros tr d r hit H. unfold can_remove_full_route in H.
  destruct (activity_count r =? 0)%nat; [discriminate|]. destruct (has_locked d r); [discriminate|reflexivity].
Qed.

Lemma inv0_astep : forall P st st', metric P -> locks_nonempty P -> Inv0 P (snd st) -> astep P st st' -> Inv0 P (snd st').
Proof.
  intros P st st' Hm Hl H Hs. destruct Hs as [[tr d] idx j [tr' d'] E|tr d idx r hit En Eg Ec|tr d]; cbn [snd] in *.
  - destruct (trj_is_step P tr d idx j tr' d' (proj1 (inv_actors P d H)) E) as (r & _ & Es).
    apply (inv0_remove P d (r_actor r) j false d' Hm H Es).
  - apply (inv0_whole_route P tr d idx r Hl H En). apply (can_remove_full_unlocked tr d r hit Ec).
  - exact H.
Qed.
Lemma inv0_asteps : forall P st st', metric P -> locks_nonempty P -> Inv0 P (snd st) -> asteps P st st' -> Inv0 P (snd st').
Proof. intros P st st' Hm Hl H Hs; induction Hs; [exact H|]. apply IHHs. eapply inv0_astep; eauto. Qed.

(* ---- the pending lists: `required` grows at its end, nothing else moves ---- *)
Definition pending_ext (d d' : dump) : Prop :=
  (exists gone, d_required d' = d_required d ++ gone) /\ d_ignored d' = d_ignored d /\ d_unassigned d' = d_unassigned d /\
  d_locked d' = d_locked d.
Lemma pending_ext_refl : forall d, pending_ext d d.
Proof. intros d. split; [exists []; rewrite app_nil_r; reflexivity|auto]. Qed.
Lemma pending_ext_trans : forall a b c, pending_ext a b -> pending_ext b c -> pending_ext a c.
Proof.
  intros a b c [[g1 E1] (I1 & U1 & L1)] [[g2 E2] (I2 & U2 & L2)]. split; [exists (g1 ++ g2); rewrite E2, E1, app_assoc; reflexivity|].
  repeat split; congruence.
Qed.
Lemma pending_astep : forall P st st', astep P st st' -> pending_ext (snd st) (snd st').
Proof.
  intros P st st' Hs. destruct Hs as [[tr d] idx j [tr' d'] E|tr d idx r hit En Eg Ec|tr d]; cbn [snd].
  - apply trj_spec in E as [[Hb _]|(_ & _ & _ & r & _ & _ & E)]; [discriminate|]. inversion E; subst.
    split; [exists [j]; reflexivity|auto].
  - cbn [remove_whole_route snd]. split; [exists (route_jobs r); reflexivity|auto].
  - apply pending_ext_refl.
Qed.
Lemma pending_asteps : forall P st st', asteps P st st' -> pending_ext (snd st) (snd st').
Proof. intros P st st' Hs; induction Hs; [apply pending_ext_refl|]. eapply pending_ext_trans; [eapply pending_astep; eassumption|assumption]. Qed.

(* ---- pinned jobs: the locked part of every tour, tour by tour and in order, never changes ---- *)
Definition locked_jobs_of (d : dump) (r : rdump) : list Z := filter (fun j => memz j (d_locked d)) (job_ids r).
Definition has_some (p : Z * list Z) : bool := match snd p with [] => false | _ => true end.
Definition locked_view (d : dump) : list (Z * list Z) :=
  filter has_some (map (fun r => (r_actor r, locked_jobs_of d r)) (d_routes d)).

Lemma map_set_nth : forall A (f : rdump -> A) k x y l, nth_error l k = Some y -> f x = f y -> map f (set_nth k x l) = map f l.
Proof.
  intros A f k x y l; revert k; induction l as [|z l IH]; intros k Hk E; [destruct k; discriminate|].
  destruct k as [|k]; cbn [nth_error] in Hk.
  - inversion Hk; subst. unfold set_nth. cbn. rewrite E. reflexivity.
  - unfold set_nth. cbn [firstn skipn app map]. f_equal. apply IH; assumption.
Qed.

Lemma has_locked_nil : forall d r, has_locked d r = false <-> locked_jobs_of d r = [].
Proof.
  intros d r. unfold has_locked, locked_jobs_of. induction (job_ids r) as [|j l IH]; cbn [existsb filter]; [tauto|].
  destruct (memz j (d_locked d)); cbn [orb]; [split; discriminate|exact IH].
Qed.

Lemma filter_not_actor_id : forall a rs, ~ In a (map r_actor rs) -> filter (not_actor a) rs = rs.
Proof.
  intros a rs; induction rs as [|y rs IH]; intros Hni; [reflexivity|]. cbn [filter]. unfold not_actor at 1.
  destruct (r_actor y =? a) eqn:E.
  - apply Z.eqb_eq in E. exfalso. apply Hni. left. exact E.
  - cbn [negb]. f_equal. apply IH. intros Hc. apply Hni. right. exact Hc.
Qed.
Lemma lv_others : forall (L : list Z) rs r, NoDup (map r_actor rs) -> In r rs -> filter (fun j => memz j L) (job_ids r) = [] ->
  filter has_some (map (fun x => (r_actor x, filter (fun j => memz j L) (job_ids x))) (filter (not_actor (r_actor r)) rs)) =
  filter has_some (map (fun x => (r_actor x, filter (fun j => memz j L) (job_ids x))) rs).
Proof.
  intros L rs r; induction rs as [|x rs IH]; intros Hnd Hin Hnil; [reflexivity|].
  cbn [map] in Hnd. inversion Hnd as [|? ? Hni Hnd']; subst. cbn [filter map]. unfold not_actor at 1.
  destruct (r_actor x =? r_actor r) eqn:Ex; cbn [negb].
  - apply Z.eqb_eq in Ex. assert (x = r) as ->.
    { destruct Hin as [->|Hin]; [reflexivity|]. exfalso. apply Hni. rewrite Ex. apply in_map. exact Hin. }
    rewrite Hnil. cbn [has_some snd]. rewrite filter_not_actor_id by exact Hni. reflexivity.
  - cbn [map filter]. destruct Hin as [->|Hin]; [rewrite Z.eqb_refl in Ex; discriminate|].
    rewrite (IH Hnd' Hin Hnil). reflexivity.
Qed.

Lemma locked_view_astep : forall P st st', NoDup (used (snd st)) -> astep P st st' -> locked_view (snd st') = locked_view (snd st).
Proof.
  intros P st st' Hnd Hs. destruct Hs as [[tr d] idx j [tr' d'] E|tr d idx r hit En Eg Ec|tr d]; cbn [snd] in *; [| |reflexivity].
  - apply trj_spec in E as [[Hb _]|(_ & _ & El & r & En & Es & E)]; [discriminate|]. inversion E; subst. clear E.
    unfold locked_view, locked_jobs_of. cbn [d_routes d_locked]. f_equal.
    apply (map_set_nth _ (fun r0 => (r_actor r0, filter (fun j0 => memz j0 (d_locked d)) (job_ids r0))) idx (removed_route r j) r _ En).
    unfold removed_route. cbn [r_actor]. f_equal. rewrite job_ids_remove. unfold removez.
    apply filter_filter_sub. intros x Hx. apply negb_true_iff. apply Z.eqb_neq. intros ->. congruence.
  - cbn [remove_whole_route snd]. unfold locked_view, locked_jobs_of. cbn [d_routes d_locked].
    pose proof (proj1 (has_locked_nil d r) (can_remove_full_unlocked tr d r hit Ec)) as Hnil. unfold locked_jobs_of in Hnil.
    apply (lv_others (d_locked d) (d_routes d) r Hnd (nth_error_In _ _ En) Hnil).
Qed.

Lemma used_astep : forall P st st', NoDup (used (snd st)) -> astep P st st' -> NoDup (used (snd st')).
Proof.
  intros P st st' Hnd Hs. destruct Hs as [[tr d] idx j [tr' d'] E|tr d idx r hit En Eg Ec|tr d]; cbn [snd] in *; [| |exact Hnd].
  - apply trj_spec in E as [[Hb _]|(_ & _ & El & r & En & Es & E)]; [discriminate|]. inversion E; subst. unfold used. cbn [d_routes].
    rewrite (set_nth_map_actor idx r (removed_route r j) _ En eq_refl). exact Hnd.
  - cbn [remove_whole_route snd]. unfold used, others. cbn [d_routes]. apply NoDup_map_filter. exact Hnd.
Qed.

Lemma locked_view_asteps : forall P st st', NoDup (used (snd st)) -> asteps P st st' -> locked_view (snd st') = locked_view (snd st).
Proof.
  intros P st st' Hnd Hs; induction Hs; [reflexivity|].
  rewrite IHHs by (eapply used_astep; eassumption). eapply locked_view_astep; eassumption.
Qed.

(* ---- jobs are removed whole: every tour afterwards is a tour from before with ALL activities of some jobs taken out ---- *)
Definition strip (gone : list Z) (r : rdump) : rdump :=
  mkRoute (r_actor r) (filter (fun x => negb (memz (a_job (fst x)) gone)) (r_acts r)).
Definition jobwise (d d' : dump) : Prop :=
  forall r', In r' (d_routes d') -> exists r gone, In r (d_routes d) /\ r' = strip gone r.

Lemma strip_nil : forall r, strip [] r = r.
Proof.
  intros [a acts]. unfold strip. cbn [r_actor r_acts]. f_equal. induction acts as [|x acts IH]; [reflexivity|].
  cbn [filter memz existsb negb]. f_equal. exact IH.
Qed.
Lemma memz_app : forall x a b, memz x (a ++ b) = memz x a || memz x b.
Proof. intros. unfold memz. apply existsb_app. Qed.
Lemma strip_strip : forall g1 g2 r, strip g2 (strip g1 r) = strip (g1 ++ g2) r.
Proof.
  intros g1 g2 [a acts]. unfold strip. cbn [r_actor r_acts]. f_equal. induction acts as [|x acts IH]; [reflexivity|].
  cbn [filter]. rewrite memz_app.
  destruct (memz (a_job (fst x)) g1) eqn:E1; cbn [negb orb].
  - exact IH.
  - cbn [filter]. destruct (memz (a_job (fst x)) g2); cbn [negb]; [exact IH|f_equal; exact IH].
Qed.
Lemma removed_route_strip : forall r j, removed_route r j = strip [j] r.
Proof.
  intros r j. unfold removed_route, strip, remove_job_acts. f_equal. apply filter_ext. intros x.
  unfold memz. cbn [existsb]. rewrite orb_false_r. reflexivity.
Qed.
Lemma jobwise_refl : forall d, jobwise d d.
Proof. intros d r Hr. exists r, []. split; [exact Hr|symmetry; apply strip_nil]. Qed.
Lemma jobwise_trans : forall a b c, jobwise a b -> jobwise b c -> jobwise a c.
Proof.
  intros a b c H1 H2 r Hr. destruct (H2 r Hr) as (r1 & g2 & Hr1 & ->). destruct (H1 r1 Hr1) as (r0 & g1 & Hr0 & ->).
  exists r0, (g1 ++ g2). split; [exact Hr0|apply strip_strip].
Qed.
Lemma jobwise_astep : forall P st st', astep P st st' -> jobwise (snd st) (snd st').
Proof.
  intros P st st' Hs. destruct Hs as [[tr d] idx j [tr' d'] E|tr d idx r hit En Eg Ec|tr d]; cbn [snd]; [| |apply jobwise_refl].
  - apply trj_spec in E as [[Hb _]|(_ & _ & El & r & En & Es & E)]; [discriminate|]. inversion E; subst. intros r' Hr'.
    cbn [d_routes] in Hr'. apply set_nth_In in Hr' as [->|Hr'].
    + exists r, [j]. split; [apply (nth_error_In _ _ En)|apply removed_route_strip].
    + exists r', []. split; [exact Hr'|symmetry; apply strip_nil].
  - cbn [remove_whole_route snd]. intros r' Hr'. cbn [d_routes] in Hr'. unfold others in Hr'. apply filter_In in Hr' as [Hr' _].
    exists r', []. split; [exact Hr'|symmetry; apply strip_nil].
Qed.
Lemma jobwise_asteps : forall P st st', asteps P st st' -> jobwise (snd st) (snd st').
Proof. intros P st st' Hs; induction Hs; [apply jobwise_refl|]. eapply jobwise_trans; [eapply jobwise_astep; eassumption|assumption]. Qed.

(* what `jobwise` means for a multi-part job: in each tour either every activity of the job (in order) is still there, or none *)
Lemma subs_of_strip : forall gone r j, subs_of (strip gone r) j = if memz j gone then [] else subs_of r j.
Proof.
  intros gone [a acts] j. unfold subs_of, strip. cbn [r_acts r_actor]. induction acts as [|x acts IH]; [destruct (memz j gone); reflexivity|].
  cbn [filter]. destruct (a_job (fst x) =? j) eqn:Ej.
  - apply Z.eqb_eq in Ej. rewrite Ej. destruct (memz j gone) eqn:Eg; cbn [negb].
    + exact IH.
    + cbn [filter]. rewrite Ej, Z.eqb_refl. cbn [map]. f_equal. exact IH.
  - destruct (negb (memz (a_job (fst x)) gone)); [cbn [filter]; rewrite Ej|]; exact IH.
Qed.

(* ================= the limits of the tracker ================= *)
(* every job of the problem has between 1 and m activities *)
Definition parts_bound (P : pworld) (m : Z) : Prop :=
  forall s, In s (pw_jobs P) -> (1 <= j_parts s)%nat /\ Z.of_nat (j_parts s) <= m.
Lemma parts_of_bound : forall P m j, 1 <= m -> parts_bound P m -> 1 <= parts_of P j <= m.
Proof.
  intros P m j Hm Hb. unfold parts_of. destruct (find_job P j) as [s|] eqn:E; [|lia].
  unfold find_job in E. apply find_some in E as [Hs _]. destruct (Hb s Hs). lia.
Qed.

(* no removal once the activity limit is used up *)
Lemma try_remove_job_at_limit : forall P tr d idx j, t_acts tr = 0 -> try_remove_job P (tr, d) idx j = ((tr, d), false).
Proof. intros P tr d idx j H. unfold try_remove_job. rewrite H. reflexivity. Qed.
Lemma try_remove_route_at_limit : forall P tr d idx hit sel,
  t_acts tr = 0 \/ t_routes tr = 0 -> try_remove_route P (tr, d) idx hit sel = ((tr, d), false).
Proof.
  intros P tr d idx hit sel H. unfold try_remove_route.
  replace ((t_routes tr =? 0) || (t_acts tr =? 0)) with true; [reflexivity|].
  symmetry. apply orb_true_iff. destruct H as [H|H]; rewrite H; auto.
Qed.

Lemma jsteps_limits : forall P m st gone st', 1 <= m -> parts_bound P m -> jsteps P st gone st' -> 0 <= t_acts (fst st) ->
  d_required (snd st') = d_required (snd st) ++ gone /\
  0 <= t_acts (fst st') /\
  Z.of_nat (length gone) + t_acts (fst st') <= t_acts (fst st) /\
  (0 < t_acts (fst st') -> sum_parts P gone + t_acts (fst st') = t_acts (fst st)) /\
  sum_parts P gone <= t_acts (fst st) + m - 1 /\
  (gone <> [] -> 1 <= t_acts (fst st)) /\
  t_routes (fst st') = t_routes (fst st) /\
  (forall j, In j gone -> ~ In j (d_locked (snd st))).
Proof.
  intros P m st gone st' Hm Hb Hs. induction Hs as [st|[tr d] idx j [tr1 d1] l st2 E Hs IH]; intros H0.
  - rewrite app_nil_r. cbn [length sum_parts fold_right]. repeat split; try lia; try tauto.
  - apply trj_spec in E as [[Hb' _]|(_ & Ha & El & r & En & Es & E)]; [discriminate|]. inversion E; subst tr1 d1. clear E.
    cbn [fst snd] in *. pose proof (parts_of_bound P m j Hm Hb) as Hp.
    cbn [t_acts t_routes d_required d_locked] in IH. destruct IH as (I1 & I2 & I3 & I4 & I5 & I6 & I7 & I8); [lia|].
    cbn [length sum_parts fold_right]. fold (sum_parts P l).
    split; [rewrite I1, <- app_assoc; reflexivity|]. split; [exact I2|]. split; [lia|]. split; [intros Hpos; specialize (I4 Hpos); lia|].
    split.
    + destruct l as [|j' l'].
      * cbn [sum_parts fold_right]. lia.
      * assert (1 <= Z.max (t_acts tr - parts_of P j) 0) by (apply I6; discriminate). lia.
    + split; [intros _; lia|]. split; [exact I7|]. intros k [<-|Hk]; [apply memz_false; exact El|apply I8; exact Hk].
Qed.

(* the number of tours given back to the registry is bounded by the route limit *)
Lemma others_length : forall d r, NoDup (used d) -> In r (d_routes d) -> S (length (others d (r_actor r))) = length (d_routes d).
Proof.
  intros d r Hnd Hin. pose proof (others_count (fun _ => true) d r Hnd Hin) as C. cbn [b2n] in C.
  assert (E : forall l : list rdump, filter (fun _ => true) l = l) by (induction l as [|x l IH]; cbn; [|rewrite IH]; reflexivity).
  rewrite !E in C. lia.
Qed.
Lemma set_nth_length : forall k (x y : rdump) l, nth_error l k = Some y -> length (set_nth k x l) = length l.
Proof.
  intros k x y l; revert k; induction l as [|z l IH]; intros k Hk; [destruct k; discriminate|].
  destruct k as [|k]; cbn [nth_error] in Hk; unfold set_nth; cbn [firstn skipn app length]; [reflexivity|].
  f_equal. apply (IH k Hk).
Qed.
Lemma routes_limit_asteps : forall P st st', asteps P st st' -> NoDup (used (snd st)) -> 0 <= t_routes (fst st) ->
  0 <= t_routes (fst st') /\
  Z.of_nat (length (d_routes (snd st))) - Z.of_nat (length (d_routes (snd st'))) + t_routes (fst st') <= t_routes (fst st) /\
  (length (d_routes (snd st')) <= length (d_routes (snd st)))%nat.
Proof.
  intros P st st' Hs; induction Hs as [st|st st1 st2 H1 Hs IH]; intros Hnd H0; [lia|].
  pose proof (used_astep P st st1 Hnd H1) as Hnd1.
  assert (Hstep : 0 <= t_routes (fst st1) /\
                  Z.of_nat (length (d_routes (snd st))) - Z.of_nat (length (d_routes (snd st1))) + t_routes (fst st1) <= t_routes (fst st) /\
                  (length (d_routes (snd st1)) <= length (d_routes (snd st)))%nat).
  { destruct H1 as [[tr d] idx j [tr' d'] E|tr d idx r hit En Eg Ec|tr d]; cbn [fst snd] in *.
    - apply trj_spec in E as [[Hb _]|(_ & _ & _ & r & En & _ & E)]; [discriminate|]. inversion E; subst. cbn [t_routes d_routes].
      rewrite (set_nth_length idx _ r _ En). lia.
    - cbn [remove_whole_route fst snd t_routes d_routes]. pose proof (others_length d r Hnd (nth_error_In _ _ En)) as L.
      apply orb_false_iff in Eg as [Eg _]. apply Z.eqb_neq in Eg. lia.
    - cbn [t_routes]. lia. }
  destruct Hstep as (S1 & S2 & S3). destruct (IH Hnd1 S1) as (I1 & I2 & I3). lia.
Qed.

(* ================= the ruins ================= *)
Theorem ruin_inv0 : forall P c d, metric P -> locks_nonempty P -> Inv0 P d -> Inv0 P (run_ruin P c d).
Proof.
  intros P c d Hm Hl H. destruct (run_ruin_asteps P c d) as [tr' Hs].
  apply (inv0_asteps P (_, d) (_, _) Hm Hl H Hs).
Qed.
Theorem ruin_pending : forall P c d, pending_ext d (run_ruin P c d).
Proof. intros P c d. destruct (run_ruin_asteps P c d) as [tr' Hs]. apply (pending_asteps P (_, d) (_, _) Hs). Qed.
Theorem ruin_locked_view : forall P c d, NoDup (used d) -> locked_view (run_ruin P c d) = locked_view d.
Proof. intros P c d Hnd. destruct (run_ruin_asteps P c d) as [tr' Hs]. apply (locked_view_asteps P (_, d) (_, _) Hnd Hs). Qed.
Theorem ruin_jobwise : forall P c d, jobwise d (run_ruin P c d).
Proof. intros P c d. destruct (run_ruin_asteps P c d) as [tr' Hs]. apply (jobwise_asteps P (_, d) (_, _) Hs). Qed.
Lemma used_asteps : forall P st st', asteps P st st' -> NoDup (used (snd st)) -> NoDup (used (snd st')).
Proof. intros P st st' Hs; induction Hs; intros Hnd; [exact Hnd|]. apply IHHs. eapply used_astep; eassumption. Qed.
Lemma ruin_used : forall P c d, NoDup (used d) -> NoDup (used (run_ruin P c d)).
Proof. intros P c d Hnd. destruct (run_ruin_asteps P c d) as [tr' Hs]. apply (used_asteps P (_, d) (_, _) Hs Hnd). Qed.

Theorem job_ruin_limits : forall P m c d, 1 <= m -> parts_bound P m -> is_job_ruin c = true -> 0 <= ruin_acts c ->
  exists gone, d_required (run_ruin P c d) = d_required d ++ gone /\
    Z.of_nat (length gone) <= ruin_acts c /\ sum_parts P gone <= ruin_acts c + m - 1 /\
    (forall j, In j gone -> ~ In j (d_locked d)) /\ (ruin_acts c = 0 -> gone = []).
Proof.
  intros P m c d Hm Hb Hj Ha. destruct (job_ruin_jsteps P c d Hj) as (gone & tr' & Hs).
  destruct (jsteps_limits P m (_, d) gone (_, _) Hm Hb Hs Ha) as (L1 & L2 & L3 & L4 & L5 & L6 & L7 & L8). cbn [fst snd tracker_new t_acts] in *.
  exists gone. split; [exact L1|]. split; [lia|]. split; [exact L5|]. split; [exact L8|].
  intros E. destruct gone as [|j l]; [reflexivity|]. assert (1 <= ruin_acts c) by (apply L6; discriminate). lia.
Qed.

Theorem ruin_routes_limit : forall P c d, NoDup (used d) -> 0 <= ruin_routes c ->
  Z.of_nat (length (d_routes d)) - Z.of_nat (length (d_routes (run_ruin P c d))) <= ruin_routes c /\
  (length (d_routes (run_ruin P c d)) <= length (d_routes d))%nat.
Proof.
  intros P c d Hnd Hr. destruct (run_ruin_asteps P c d) as [tr' Hs].
  destruct (routes_limit_asteps P (_, d) (_, _) Hs Hnd Hr) as (R1 & R2 & R3). cbn [fst snd tracker_new t_routes] in *. lia.
Qed.

(* ---- CompositeRuin = the ruins that were hit, then restore: the FULL invariant ---- *)
Lemma p_drop_empty_step : forall P d, step P PDropEmpty d = Some (p_drop_empty d).
Proof. reflexivity. Qed.
Lemma p_finalize_step : forall P d, step P PFinalize d = Some (p_finalize d).
Proof. reflexivity. Qed.

Lemma fold_ruins_inv0 : forall P cs d, metric P -> locks_nonempty P -> Inv0 P d -> Inv0 P (fold_left (fun s c => run_ruin P c s) cs d).
Proof. intros P cs; induction cs as [|c cs IH]; intros d Hm Hl H; cbn [fold_left]; [exact H|]. apply IH; auto. apply ruin_inv0; auto. Qed.

Theorem composite_ruin_inv : forall P cs d, metric P -> locks_nonempty P -> Inv P d -> Inv P (composite_ruin P cs d).
Proof.
  intros P cs d Hm Hl [H0 Hne]. unfold composite_ruin. destruct (d_routes d) as [|r0 rs0] eqn:E; [split; assumption|].
  set (d1 := fold_left (fun s c => run_ruin P c s) cs d).
  assert (H1 : Inv0 P d1) by (apply fold_ruins_inv0; assumption).
  split.
  - apply (inv0_dropempty P d1 _ Hl H1 (p_drop_empty_step P d1)).
  - apply (noempty_dropempty P d1). apply p_drop_empty_step.
Qed.
(* also from the weak invariant (a ruin applied to the output of another ruin that was not restored) *)
Theorem composite_ruin_inv0 : forall P cs d, metric P -> locks_nonempty P -> Inv0 P d -> Inv0 P (composite_ruin P cs d).
Proof.
  intros P cs d Hm Hl H0. unfold composite_ruin. destruct (d_routes d) as [|r0 rs0] eqn:E; [assumption|].
  apply (inv0_dropempty P _ _ Hl (fold_ruins_inv0 P cs d Hm Hl H0) (p_drop_empty_step P _)).
Qed.

Lemma locked_view_drop_empty : forall d, locked_view (p_drop_empty d) = locked_view d.
Proof.
  intros d. unfold locked_view, locked_jobs_of, p_drop_empty. cbn [d_routes d_locked].
  induction (d_routes d) as [|x rs IH]; [reflexivity|]. cbn [filter map].
  destruct (nonempty x) eqn:E.
  - cbn [map filter]. rewrite IH. reflexivity.
  - unfold nonempty in E. destruct (job_ids x) eqn:Ej; [|discriminate]. cbn [filter has_some snd]. exact IH.
Qed.
Lemma jobwise_drop_empty : forall d, jobwise d (p_drop_empty d).
Proof.
  intros d r Hr. cbn [p_drop_empty d_routes] in Hr. apply filter_In in Hr as [Hr _]. exists r, []. split; [exact Hr|symmetry; apply strip_nil].
Qed.

Lemma fold_ruins_locked_view : forall P cs d, NoDup (used d) ->
  locked_view (fold_left (fun s c => run_ruin P c s) cs d) = locked_view d /\ NoDup (used (fold_left (fun s c => run_ruin P c s) cs d)).
Proof.
  intros P cs; induction cs as [|c cs IH]; intros d Hnd; cbn [fold_left]; [auto|].
  destruct (IH (run_ruin P c d) (ruin_used P c d Hnd)) as [E N]. split; [rewrite E; apply ruin_locked_view; exact Hnd|exact N].
Qed.
Theorem composite_ruin_locked_view : forall P cs d, NoDup (used d) -> locked_view (composite_ruin P cs d) = locked_view d.
Proof.
  intros P cs d Hnd. unfold composite_ruin. destruct (d_routes d) as [|r0 rs0] eqn:E; [reflexivity|].
  rewrite locked_view_drop_empty. apply (fold_ruins_locked_view P cs d Hnd).
Qed.
Lemma fold_ruins_jobwise : forall P cs d, jobwise d (fold_left (fun s c => run_ruin P c s) cs d).
Proof.
  intros P cs; induction cs as [|c cs IH]; intros d; cbn [fold_left]; [apply jobwise_refl|].
  eapply jobwise_trans; [apply ruin_jobwise|apply IH].
Qed.
Theorem composite_ruin_jobwise : forall P cs d, jobwise d (composite_ruin P cs d).
Proof.
  intros P cs d. unfold composite_ruin. destruct (d_routes d) as [|r0 rs0] eqn:E; [apply jobwise_refl|].
  eapply jobwise_trans; [apply fold_ruins_jobwise|apply jobwise_drop_empty].
Qed.
Lemma fold_ruins_pending : forall P cs d, pending_ext d (fold_left (fun s c => run_ruin P c s) cs d).
Proof.
  intros P cs; induction cs as [|c cs IH]; intros d; cbn [fold_left]; [apply pending_ext_refl|].
  eapply pending_ext_trans; [apply ruin_pending|apply IH].
Qed.
Theorem composite_ruin_pending : forall P cs d, pending_ext d (composite_ruin P cs d).
Proof.
  intros P cs d. unfold composite_ruin. destruct (d_routes d) as [|r0 rs0] eqn:E; [apply pending_ext_refl|].
  destruct (fold_ruins_pending P cs d) as (G & I & U & L). split; [exact G|]. cbn [p_drop_empty d_ignored d_unassigned d_locked]. auto.
Qed.

(* the job ruins ARE words of the primitive PRemove (what the replay of dumped transitions only validates) *)
Lemma jsteps_word : forall P st l st', jsteps P st l st' -> NoDup (used (snd st)) ->
  exists w, forallb is_removal w = true /\ length w = length l /\ run P w (snd st) = Some (snd st').
Proof.
  intros P st l st' Hs; induction Hs as [st|[tr d] idx j [tr1 d1] l st2 E Hs IH]; intros Hnd.
  - exists []. auto.
  - destruct (trj_is_step P tr d idx j tr1 d1 Hnd E) as (r & _ & Es). cbn [snd] in *.
    assert (Hnd1 : NoDup (used d1)) by (apply (used_astep P (tr, d) (tr1, d1) Hnd); eapply at_job; exact E).
    destruct (IH Hnd1) as (w & Hw & Hlen & Hr). exists (PRemove (r_actor r) j false :: w).
    split; [cbn [forallb is_removal]; exact Hw|]. split; [cbn [length]; congruence|]. cbn [run]. rewrite Es. exact Hr.
Qed.
Theorem job_ruin_is_word : forall P c d, is_job_ruin c = true -> NoDup (used d) ->
  exists w, forallb is_removal w = true /\ run P w d = Some (run_ruin P c d).
Proof.
  intros P c d Hj Hnd. destruct (job_ruin_jsteps P c d Hj) as (gone & tr' & Hs).
  destruct (jsteps_word P (_, d) gone (_, _) Hs Hnd) as (w & Hw & _ & Hr). exists w. auto.
Qed.

(* a pinned job is refused by the tracker whatever the limits are *)
Lemma try_remove_job_locked : forall P tr d idx j, memz j (d_locked d) = true -> try_remove_job P (tr, d) idx j = ((tr, d), false).
Proof. intros P tr d idx j H. unfold try_remove_job. rewrite H. destruct (t_acts tr =? 0); reflexivity. Qed.

Lemma jobwise_whole : forall d d', jobwise d d' ->
  forall r', In r' (d_routes d') -> exists r, In r (d_routes d) /\ r_actor r' = r_actor r /\
    (forall j, subs_of r' j = subs_of r j \/ subs_of r' j = []).
Proof.
  intros d d' H r' Hr'. destruct (H r' Hr') as (r & gone & Hr & ->). exists r. split; [exact Hr|]. split; [reflexivity|].
  intros j. rewrite subs_of_strip. destruct (memz j gone); auto.
Qed.

(* the lock clause of the invariant spelled out: every lock's jobs are on the lock's vehicle, in the lock's order *)
Lemma inv_locks_explicit : forall P d l, Inv0 P d -> In l (pw_locks P) ->
  (forall j, In j (l_jobs l) -> In j (d_locked d)) /\
  exists r, In r (d_routes d) /\ (r_actor r = l_actor l) /\ (filter (fun j => memz j (l_jobs l)) (job_ids r) = l_jobs l).
Proof.
  intros P d l H Hl. pose proof (inv_locks P d H l Hl) as Hlo. unfold lock_ok in Hlo. apply andb_true_iff in Hlo as [H1 H2].
  split.
  - intros j Hj. rewrite forallb_forall in H1. apply memz_In. apply H1. exact Hj.
  - apply existsb_exists in H2 as (r & Hr & Hx). apply andb_true_iff in Hx as [Ha He]. exists r. split; [exact Hr|].
    split; [apply Z.eqb_eq; exact Ha|]. unfold list_eqb in He. destruct (list_eq_dec Z.eq_dec _ _) as [E|E]; [exact E|discriminate].
Qed.

(* ================= Part 2: the operators that insert ================= *)
Section Ops.
Variable P : pworld.
Hypothesis Hm : metric P.
Hypothesis Hl : locks_nonempty P.

Lemma inv0_try_step : forall p d, Inv0 P d -> Inv0 P (try_step P p d).
Proof. intros p d H. unfold try_step. destruct (step P p d) as [d'|] eqn:E; [apply (inv0_step P p d d' Hm Hl H E)|exact H]. Qed.
Lemma inv0_p_finalize : forall d, Inv0 P d -> Inv0 P (p_finalize d).
Proof. intros d H. apply (inv0_finalize P d _ H (p_finalize_step P d)). Qed.
Lemma inv0_p_drop_empty : forall d, Inv0 P d -> Inv0 P (p_drop_empty d).
Proof. intros d H. apply (inv0_dropempty P d _ Hl H (p_drop_empty_step P d)). Qed.
Lemma inv_p_drop_empty : forall d, Inv0 P d -> Inv P (p_drop_empty d).
Proof. intros d H. split; [apply inv0_p_drop_empty; exact H|apply (noempty_dropempty P d); apply p_drop_empty_step]. Qed.
Lemma inv_finalize_ctx : forall d, Inv0 P d -> Inv P (finalize_ctx d).
Proof. intros d H. unfold finalize_ctx. apply inv_p_drop_empty. apply inv0_p_finalize. exact H. Qed.
Lemma inv0_fail_job : forall j d, Inv0 P d -> Inv0 P (fail_job P j d).
Proof. intros. apply inv0_try_step. assumption. Qed.

Lemma bind_some : forall A B (x : option A) (f : A -> option B) y, bind x f = Some y -> exists a, x = Some a /\ f a = Some y.
Proof. intros A B [a|] f y H; [exists a; auto|discriminate]. Qed.
Lemma option_map_some : forall A B (f : A -> B) x y, option_map f x = Some y -> exists a, x = Some a /\ y = f a.
Proof. intros A B f [a|] y H; [inversion H; exists a; auto|discriminate]. Qed.

(* ---- InsertionHeuristic::process = every recreate ---- *)
Lemma process_loop_inv0 : forall rounds d d', Inv0 P d -> process_loop P rounds d = Some d' -> Inv0 P d'.
Proof.
  induction rounds as [|[j a steps|j all|] rounds IH]; intros d d' H E; cbn [process_loop] in E.
  - inversion E; subst; exact H.
  - apply bind_some in E as (d1 & E1 & E2). apply (IH d1 d'); [|exact E2]. apply (inv0_step P _ d d1 Hm Hl H E1).
  - refine (IH _ d' _ E). destruct all; [apply inv0_p_finalize|]; apply inv0_fail_job; exact H.
  - refine (IH _ d' _ E). apply inv0_p_finalize. exact H.
Qed.
Theorem recreate_inv : forall rounds d d', Inv0 P d -> recreate P rounds d = Some d' -> Inv P d'.
Proof.
  intros rounds d d' H E. unfold recreate in E. apply option_map_some in E as (d1 & E1 & ->).
  apply inv_finalize_ctx. apply (process_loop_inv0 rounds d d1 H E1).
Qed.
Theorem ruin_recreate_inv : forall cs rounds d d', Inv0 P d -> ruin_recreate P cs rounds d = Some d' -> Inv P d'.
Proof. intros cs rounds d d' H E. unfold ruin_recreate in E. refine (recreate_inv rounds _ d' _ E). apply composite_ruin_inv0; assumption. Qed.

(* ---- ExchangeSequence ---- *)
Lemma fold_try_step_inv0 : forall (A : Type) (f : A -> prim) l d, Inv0 P d -> Inv0 P (fold_left (fun s x => try_step P (f x) s) l d).
Proof. intros A f l; induction l as [|x l IH]; intros d H; cbn [fold_left]; [exact H|]. apply IH. apply inv0_try_step. exact H. Qed.
Lemma extract_jobs_inv0 : forall idx size start d, Inv0 P d -> Inv0 P (snd (extract_jobs P idx size start d)).
Proof.
  intros idx size start d H. unfold extract_jobs. destruct (nth_error (d_routes d) idx) as [r|]; [|exact H]. cbn [snd].
  apply (fold_try_step_inv0 Z (fun j => PRemove (r_actor r) j false)). exact H.
Qed.
Lemma insert_jobs_inv0 : forall a res d d', Inv0 P d -> insert_jobs P a res d = Some d' -> Inv0 P d'.
Proof.
  intros a res; induction res as [|[j [steps|]] res IH]; intros d d' H E; cbn [insert_jobs] in E.
  - inversion E; subst; exact H.
  - apply bind_some in E as (d1 & E1 & E2). apply (IH d1 d'); [|exact E2]. apply (inv0_step P _ d d1 Hm Hl H E1).
  - refine (IH _ d' _ E). apply inv0_fail_job. exact H.
Qed.
Theorem exchange_sequence_inv : forall o d d', Inv P d -> exchange_sequence P o d = Some d' -> Inv P d'.
Proof.
  intros o d d' [H0 Hne] E. unfold exchange_sequence in E.
  destruct (seq_route_indices d) as [|i0 is0] eqn:Eris; [inversion E; subst; split; assumption|]. rewrite <- Eris in E.
  set (i1 := nth (so_first o mod length (seq_route_indices d)) (seq_route_indices d) 0%nat) in *.
  set (i2 := nth (so_second o mod length (seq_route_indices d)) (seq_route_indices d) 0%nat) in *.
  pose proof (extract_jobs_inv0 i1 (so_size1 o) (so_start1 o) d H0) as H1.
  destruct (extract_jobs P i1 (so_size1 o) (so_start1 o) d) as [jobs1 d1]. cbn [snd] in H1.
  destruct (i1 =? i2)%nat.
  - destruct (same_jobs _ jobs1); [|discriminate]. apply option_map_some in E as (d2 & E2 & ->).
    apply inv_finalize_ctx. apply (insert_jobs_inv0 _ _ d1 d2 H1 E2).
  - pose proof (extract_jobs_inv0 i2 (so_size2 o) (so_start2 o) d1 H1) as H2.
    destruct (extract_jobs P i2 (so_size2 o) (so_start2 o) d1) as [jobs2 d2]. cbn [snd] in H2.
    destruct (same_jobs _ jobs2 && same_jobs _ jobs1); [|discriminate]. apply option_map_some in E as (d4 & E4 & ->).
    apply bind_some in E4 as (d3 & E3 & E4). apply inv_finalize_ctx.
    refine (insert_jobs_inv0 _ _ d3 d4 _ E4). apply (insert_jobs_inv0 _ _ d2 d3 H2 E3).
Qed.

(* ---- ExchangeInterRoute ---- *)
Theorem exchange_inter_route_inv : forall o d d', Inv P d -> exchange_inter_route P o d = Some d' -> Inv P d'.
Proof.
  intros o d d' [H0 Hne] E. unfold exchange_inter_route in E.
  assert (Hsame : Some d = Some d' -> Inv P d') by (intros X; inversion X; subst; split; assumption).
  destruct (memz (io_seed_job o) (d_locked d)); [auto|].
  destruct (nth_error (d_routes d) (io_seed_route o)) as [rs|]; [|auto].
  destruct (io_pair o) as [[[[ti tj] into_seed] into_test]|]; [|auto].
  destruct (nth_error (d_routes d) ti) as [rt|]; [|auto].
  destruct ((ti =? io_seed_route o)%nat || memz tj (d_locked d)); [auto|].
  destruct (step P (PRemove (r_actor rs) (io_seed_job o) false) d) as [d1|] eqn:E1; [|auto].
  destruct (step P (PRemove (r_actor rt) tj false) d1) as [d2|] eqn:E2; [|auto].
  apply option_map_some in E as (d4 & E4 & ->). apply bind_some in E4 as (d3 & E3 & E4). apply inv_finalize_ctx.
  pose proof (inv0_step P _ d d1 Hm Hl H0 E1) as H1. pose proof (inv0_step P _ d1 d2 Hm Hl H1 E2) as H2.
  pose proof (inv0_step P _ d2 d3 Hm Hl H2 E3) as H3. apply (inv0_step P _ d3 d4 Hm Hl H3 E4).
Qed.

(* ---- ExchangeIntraRouteRandom ---- *)
Theorem exchange_intra_route_inv : forall idx j res d d', Inv P d -> exchange_intra_route P idx j res d = Some d' -> Inv P d'.
Proof.
  intros idx j res d d' [H0 Hne] E. unfold exchange_intra_route in E.
  assert (Hsame : Some d = Some d' -> Inv P d') by (intros X; inversion X; subst; split; assumption).
  destruct (nth_error (d_routes d) idx) as [r|]; [|auto]. destruct res as [steps|]; [|auto].
  destruct (2 <=? job_count r)%nat; [|auto].
  destruct (step P (PRemove (r_actor r) j false) d) as [d1|] eqn:E1; [|auto].
  apply option_map_some in E as (d2 & E2 & ->). apply inv_finalize_ctx.
  apply (inv0_step P _ d1 d2 Hm Hl (inv0_step P _ d d1 Hm Hl H0 E1) E2).
Qed.

(* ---- ExchangeSwapStar ---- *)
Theorem exchange_swap_star_inv : forall moves d d', Inv P d -> exchange_swap_star P moves d = Some d' -> Inv P d'.
Proof.
  induction moves as [|[[[[[a1 j1] a2] s1] j2] s2] moves IH]; intros d d' H E; cbn [exchange_swap_star] in E.
  - inversion E; subst; exact H.
  - destruct (bind (step P (PRemove a1 j1 false) d) (step P (PRemove a2 j2 false))) as [d2|] eqn:E12; [|apply (IH d d' H E)].
    apply bind_some in E12 as (d1 & E1 & E2). apply bind_some in E as (d5 & E5 & E6). apply (IH d5 d'); [|exact E6].
    apply option_map_some in E5 as (d4 & E4 & ->). apply bind_some in E4 as (d3 & E3 & E4). apply inv_finalize_ctx.
    destruct H as [H0 _]. pose proof (inv0_step P _ d d1 Hm Hl H0 E1) as H1. pose proof (inv0_step P _ d1 d2 Hm Hl H1 E2) as H2.
    pose proof (inv0_step P _ d2 d3 Hm Hl H2 E3) as H3. apply (inv0_step P _ d3 d4 Hm Hl H3 E4).
Qed.

(* ---- RescheduleDeparture ---- *)
Theorem reschedule_departure_inv : forall deps d d', Inv P d -> reschedule_departure P deps d = Some d' -> Inv P d'.
Proof.
  induction deps as [|[a dep] deps IH]; intros d d' H E; cbn [reschedule_departure] in E.
  - inversion E; subst; exact H.
  - apply bind_some in E as (d1 & E1 & E2). apply (IH d1 d'); [|exact E2]. destruct H as [H0 Hne]. split.
    + apply (inv0_step P _ d d1 Hm Hl H0 E1).
    + apply (noempty_step P (PDeparture a dep) d d1 eq_refl Hne E1).
Qed.

(* ---- RedistributeSearch ---- *)
Theorem redistribute_inv : forall removals rounds d d', Inv0 P d -> redistribute P removals rounds d = Some d' -> Inv P d'.
Proof.
  intros removals rounds d d' H E. unfold redistribute in E. apply option_map_some in E as (d2 & E2 & ->).
  apply inv_finalize_ctx. apply inv0_p_drop_empty.
  destruct (recreate_inv rounds _ d2 (fold_try_step_inv0 _ (fun aj => PRemove (fst aj) (snd aj) true) removals d H) E2) as [X _]. exact X.
Qed.
End Ops.
