(* C11 (c) — the imported problem carries exactly the tables' data; vehicle ids built from the profile collide. *)
From Coq Require Import DecimalString DecimalNat Decimal FinFun.
From VRP Require Import Base.Tac Base.Json Model.SerdeSem Proofs.SerdeP Generated.ProblemCodec Model.Csv.
Open Scope string_scope.

Definition olist {A} (o : option (list A)) : list A := match o with Some l => l | None => [] end.

(* the bucket a row's demand selects *)
Definition bucket_sel (d : Z) : Z -> bool :=
  if Z.ltb 0 d then is_pickup else if Z.ltb d 0 then is_delivery else is_service.
Definition bucket_of (d : Z) (j : Job) : list JobTask :=
  if Z.ltb 0 d then olist (Job_pickups j) else if Z.ltb d 0 then olist (Job_deliveries j) else olist (Job_services j).

Lemma tasks_of_olist sel rs :
  olist (tasks_of sel rs) = map task_of_row (filter (fun r => sel (i32v (jr_demand r))) rs).
Proof. unfold tasks_of. destruct (map task_of_row _); reflexivity. Qed.

Lemma bucket_sel_self d : bucket_sel d d = true.
Proof.
  unfold bucket_sel, is_pickup, is_delivery, is_service.
  destruct (Z.ltb 0 d) eqn:E1; [exact E1|]. destruct (Z.ltb d 0) eqn:E2; [exact E2|]. lia.
Qed.

Lemma bucket_of_job rows id d :
  bucket_of d (job_of rows id) =
  map task_of_row (filter (fun r => bucket_sel d (i32v (jr_demand r))) (rows_of id rows)).
Proof.
  unfold bucket_of, bucket_sel, job_of. cbn [Job_pickups Job_deliveries Job_services].
  destruct (Z.ltb 0 d); [apply tasks_of_olist|]. destruct (Z.ltb d 0); apply tasks_of_olist.
Qed.

(* (a) every row reappears: in the job of its id, in the bucket of its sign *)
Lemma csv_row_reappears : forall ord rows r,
  In r rows -> In (jr_id r) ord ->
  exists j, In j (read_jobs_ord ord rows) /\ Job_id j = jr_id r /\
            In (task_of_row r) (bucket_of (i32v (jr_demand r)) j).
Proof.
  intros ord rows r Hr Hid. exists (job_of rows (jr_id r)). split; [|split].
  - unfold read_jobs_ord. apply in_map. exact Hid.
  - reflexivity.
  - rewrite bucket_of_job. apply in_map. apply filter_In. split.
    + unfold rows_of. apply filter_In. split; [exact Hr|]. apply String.eqb_refl.
    + apply bucket_sel_self.
Qed.

(* (b) nothing is invented: every task of every imported job is the image of a row with that id and that sign *)
Lemma csv_task_from_row : forall ord rows j t d,
  In j (read_jobs_ord ord rows) -> In t (bucket_of d j) ->
  exists r, In r rows /\ jr_id r = Job_id j /\ t = task_of_row r /\ bucket_sel d (i32v (jr_demand r)) = true.
Proof.
  intros ord rows j t d Hj Ht. unfold read_jobs_ord in Hj. apply in_map_iff in Hj.
  destruct Hj as (id & <- & _). rewrite bucket_of_job in Ht. apply in_map_iff in Ht.
  destruct Ht as (r & <- & Hf). apply filter_In in Hf. destruct Hf as (Hf & Hs).
  unfold rows_of in Hf. apply filter_In in Hf. destruct Hf as (Hr & He).
  apply String.eqb_eq in He. exists r. cbn [Job_id job_of]. auto.
Qed.

Lemma csv_no_replacements : forall ord rows j,
  In j (read_jobs_ord ord rows) ->
  Job_replacements j = None /\ Job_skills j = None /\ Job_value j = None /\ Job_group j = None /\ Job_compatibility j = None.
Proof.
  intros ord rows j Hj. unfold read_jobs_ord in Hj. apply in_map_iff in Hj.
  destruct Hj as (id & <- & _). cbn. auto.
Qed.

(* (c) the jobs are exactly the distinct ids *)
Lemma csv_job_ids : forall ord rows, map Job_id (read_jobs_ord ord rows) = ord.
Proof.
  intros ord rows. unfold read_jobs_ord. rewrite map_map. cbn [Job_id job_of].
  induction ord as [|a l IH]; cbn; [reflexivity|]. f_equal. exact IH.
Qed.

Lemma dedup_in l x : In x (dedup l) <-> In x l.
Proof.
  induction l as [|a l IH]; cbn [dedup]; [reflexivity|]. cbn [In]. rewrite filter_In, IH.
  destruct (String.eqb_spec x a) as [->|Hn].
  - split; auto.
  - split; [intros [H|[H _]]; auto|]. intros [H|H]; [auto|]. right. split; [exact H|].
    destruct (String.eqb_spec x a); [contradiction|reflexivity].
Qed.

Lemma dedup_nodup l : NoDup (dedup l).
Proof.
  induction l as [|a l IH]; cbn [dedup]; [constructor|]. constructor.
  - intros H. apply filter_In in H. destruct H as (_ & H). rewrite String.eqb_refl in H. discriminate.
  - apply NoDup_filter. exact IH.
Qed.

Lemma csv_job_ids_distinct : forall rows, NoDup (map Job_id (read_jobs rows)).
Proof. intros rows. unfold read_jobs. rewrite csv_job_ids. apply dedup_nodup. Qed.

Lemma csv_job_ids_cover : forall rows id,
  In id (map Job_id (read_jobs rows)) <-> exists r, In r rows /\ jr_id r = id.
Proof.
  intros rows id. unfold read_jobs. rewrite csv_job_ids. unfold job_ids. rewrite dedup_in, in_map_iff.
  split; intros (r & H1 & H2); exists r; auto.
Qed.

(* (d) what a row's task carries *)
Lemma csv_task_data : forall r,
  JobTask_places (task_of_row r) =
    [mk_JobPlace (Location_Coordinate (jr_lat r) (jr_lng r)) (fl_of_Z (usizev (jr_duration r)))
       (match jr_tw_start r, jr_tw_end r with Some s, Some e => Some [[s; e]] | _, _ => None end) None]
  /\ JobTask_order (task_of_row r) = None
  /\ (i32v (jr_demand r) = 0 -> JobTask_demand (task_of_row r) = None)
  /\ (i32v (jr_demand r) <> 0 -> i32v (jr_demand r) <> -2147483648 ->
      exists a, JobTask_demand (task_of_row r) = Some [a] /\ i32v a = Z.abs (i32v (jr_demand r))).
Proof.
  intros r. unfold task_of_row, place_of_row, parse_tw. cbn [JobTask_places JobTask_order JobTask_demand].
  split; [|split; [reflexivity|split]].
  - destruct (jr_tw_start r), (jr_tw_end r); reflexivity.
  - intros H. rewrite H. reflexivity.
  - intros H0 Hm. destruct (Z.eqb_spec (i32v (jr_demand r)) 0) as [E|_]; [contradiction|].
    unfold abs_i32. pose proof (i32ok (jr_demand r)) as Hr. unfold in_i32 in Hr.
    destruct (to_i32_ok (Z.abs (i32v (jr_demand r)))) as (a & Ha & Hv).
    { unfold in_i32. lia. }
    rewrite Ha. exists a. auto.
Qed.

Lemma abs_i32_none_iff : forall x, abs_i32 x = None <-> i32v x = -2147483648.
Proof.
  intros x. unfold abs_i32. split.
  - intros E. pose proof (i32ok x) as Hb. unfold in_i32 in Hb.
    destruct (Z.eq_dec (i32v x) (-2147483648)) as [Hm|Hm]; [exact Hm|].
    destruct (to_i32_ok (Z.abs (i32v x))) as (a & Ha & _); [unfold in_i32; lia|congruence].
  - intros Hm. rewrite Hm. reflexivity.
Qed.

(* the import rejects the tables exactly when some DEMAND is i32::MIN (repair 1cad789) *)
Lemma csv_rejects_iff : forall rows,
  csv_rejects rows = true <-> exists r, In r rows /\ i32v (jr_demand r) = -2147483648.
Proof.
  intros rows. unfold csv_rejects. rewrite existsb_exists. split.
  - intros (r & Hr & H). exists r. split; [exact Hr|]. apply abs_i32_none_iff.
    destruct (abs_i32 (jr_demand r)); [discriminate|reflexivity].
  - intros (r & Hr & Hm). exists r. split; [exact Hr|]. apply abs_i32_none_iff in Hm. rewrite Hm. reflexivity.
Qed.

(* ... and in every table it accepts, `demand.abs()` is exact for every row: the import is total (no overflow) *)
Lemma csv_accepted_abs_exact : forall rows vrows p r,
  read_csv_problem rows vrows = CsvOk p -> In r rows ->
  p = read_csv rows vrows /\ exists a, abs_i32 (jr_demand r) = Some a /\ i32v a = Z.abs (i32v (jr_demand r)).
Proof.
  intros rows vrows p r H Hr. unfold read_csv_problem in H. destruct (csv_rejects rows) eqn:E; [discriminate|].
  inversion H. split; [reflexivity|].
  destruct (abs_i32 (jr_demand r)) as [a|] eqn:Ea.
  - exists a. split; [reflexivity|]. unfold abs_i32 in Ea.
    pose proof (i32ok (jr_demand r)) as Hb. unfold in_i32 in Hb.
    assert (i32v (jr_demand r) <> -2147483648) as Hm.
    { intros Hm. rewrite Hm in Ea. vm_compute in Ea. discriminate. }
    destruct (to_i32_ok (Z.abs (i32v (jr_demand r)))) as (a' & Ha' & Hv); [unfold in_i32; lia|]. congruence.
  - exfalso. assert (csv_rejects rows = true) as C; [|congruence].
    apply csv_rejects_iff. exists r. split; [exact Hr|]. apply abs_i32_none_iff. exact Ea.
Qed.

Lemma csv_total : forall rows vrows,
  read_csv_problem rows vrows = CsvErr \/ read_csv_problem rows vrows = CsvOk (read_csv rows vrows).
Proof. intros rows vrows. unfold read_csv_problem. destruct (csv_rejects rows); auto. Qed.

(* the pre-fix overflow condition *)
Lemma csv_panics_prefix_iff : forall rows,
  csv_panics_prefix rows = true <-> exists r, In r rows /\ i32v (jr_demand r) = -2147483648.
Proof.
  intros rows. unfold csv_panics_prefix. rewrite existsb_exists. split.
  - intros (r & Hr & H). exists r. split; [exact Hr|]. unfold abs_i32 in H.
    destruct (to_i32 (Z.abs (i32v (jr_demand r)))) eqn:E; [discriminate|].
    pose proof (i32ok (jr_demand r)) as Hb. unfold in_i32 in Hb.
    destruct (Z.eq_dec (i32v (jr_demand r)) (-2147483648)) as [Hm|Hm]; [exact Hm|].
    destruct (to_i32_ok (Z.abs (i32v (jr_demand r)))) as (a & Ha & _); [unfold in_i32; lia|congruence].
  - intros (r & Hr & Hm). exists r. split; [exact Hr|]. unfold abs_i32. rewrite Hm.
    reflexivity.
Qed.

(* vehicles: one type per row, in order, carrying the row *)
Lemma csv_vehicle_rows : forall ord pord rows vrows,
  Fleet_vehicles (Problem_fleet (read_csv_ord ord pord rows vrows)) = map veh_of_row vrows.
Proof. reflexivity. Qed.

Lemma csv_vehicle_data : forall r,
  let v := veh_of_row r in
  let depot := Location_Coordinate (vr_lat r) (vr_lng r) in
  VehicleType_type_id v = vr_id r /\
  VehicleProfile_matrix (VehicleType_profile v) = vr_profile r /\
  VehicleType_capacity v = [vr_capacity r] /\
  VehicleType_shifts v = [mk_VehicleShift (mk_ShiftStart (vr_tw_start r) None depot)
                            (Some (mk_ShiftEnd None (vr_tw_end r) depot)) None None None] /\
  List.length (VehicleType_vehicle_ids v) = Z.to_nat (usizev (vr_amount r)) /\
  VehicleType_skills v = None /\ VehicleType_limits v = None.
Proof.
  intros r. cbn. repeat split. unfold vehicle_ids_of. rewrite map_length, seq_length. reflexivity.
Qed.

Lemma csv_profiles : forall rows vrows name,
  In name (map MatrixProfile_name (Fleet_profiles (Problem_fleet (read_csv rows vrows)))) <->
  exists r, In r vrows /\ vr_profile r = name.
Proof.
  intros rows vrows name. cbn. rewrite map_map. cbn [MatrixProfile_name]. rewrite map_id.
  unfold profile_names. rewrite dedup_in, in_map_iff. split; intros (r & H1 & H2); exists r; auto.
Qed.

(* vehicle ids are "<ID>_<seq>" (repair 9df6aa4 of finding C11-F1): distinct whenever the type ids are distinct *)
Fixpoint has_us (s : string) : bool :=
  match s with EmptyString => false | String c r => Ascii.eqb c "_" || has_us r end.

Lemma has_us_app s d : has_us (s ++ String "_" d) = true.
Proof. induction s as [|c s IH]; cbn; [reflexivity|]. rewrite IH. apply orb_true_r. Qed.

Lemma sep_inj : forall s1 s2 d1 d2, has_us d1 = false -> has_us d2 = false ->
  (s1 ++ String "_" d1 = s2 ++ String "_" d2)%string -> s1 = s2 /\ d1 = d2.
Proof.
  induction s1 as [|c s1 IH]; intros s2 d1 d2 H1 H2 E; destruct s2 as [|c' s2]; cbn in E.
  - injection E as E. auto.
  - injection E as Ec Er. subst d1. rewrite has_us_app in H1. discriminate.
  - injection E as Ec Er. subst d2. rewrite has_us_app in H2. discriminate.
  - injection E as Ec Er. destruct (IH s2 d1 d2 H1 H2 Er) as (-> & ->). subst. auto.
Qed.

Lemma has_us_uint d : has_us (NilEmpty.string_of_uint d) = false.
Proof. induction d; cbn; auto. Qed.

Lemma dec_inj a b : dec_string_of_nat a = dec_string_of_nat b -> a = b.
Proof.
  unfold dec_string_of_nat. intros H. apply (f_equal NilEmpty.uint_of_string) in H.
  rewrite !NilEmpty.usu in H. injection H as H. apply (f_equal Nat.of_uint) in H.
  rewrite !DecimalNat.Unsigned.of_to in H. exact H.
Qed.

Lemma vehicle_id_inj i1 k1 i2 k2 : vehicle_id i1 k1 = vehicle_id i2 k2 -> i1 = i2 /\ k1 = k2.
Proof.
  unfold vehicle_id. intros H.
  change ("_" ++ dec_string_of_nat k1)%string with (String "_" (dec_string_of_nat k1)) in H.
  change ("_" ++ dec_string_of_nat k2)%string with (String "_" (dec_string_of_nat k2)) in H.
  apply sep_inj in H; try apply has_us_uint. destruct H as (Hi & Hk). split; [exact Hi|apply dec_inj; exact Hk].
Qed.

Lemma nodup_app_intro {A} (l l' : list A) :
  NoDup l -> NoDup l' -> (forall x, In x l -> In x l' -> False) -> NoDup (l ++ l').
Proof.
  induction l as [|a l IH]; cbn; [auto|]. intros Hl Hl' Hd. inversion Hl as [|? ? Hn Hr]; subst. constructor.
  - intros Hin. apply in_app_or in Hin. destruct Hin as [Hin|Hin]; [contradiction|].
    apply (Hd a); [left; reflexivity|exact Hin].
  - apply IH; auto. intros x Hx. apply Hd. right. exact Hx.
Qed.

Lemma vehicle_ids_of_nodup r : NoDup (vehicle_ids_of r).
Proof.
  unfold vehicle_ids_of. apply FinFun.Injective_map_NoDup; [|apply seq_NoDup].
  intros a b H. apply vehicle_id_inj in H. tauto.
Qed.

Lemma vehicle_ids_rows_nodup : forall vrows, NoDup (map vr_id vrows) -> NoDup (flat_map vehicle_ids_of vrows).
Proof.
  induction vrows as [|r l IH]; cbn; intros H; [constructor|]. inversion H as [|? ? Hn Hr]; subst.
  apply nodup_app_intro; [apply vehicle_ids_of_nodup|apply IH; exact Hr|].
  intros x Hx Hx'. apply in_flat_map in Hx'. destruct Hx' as (r' & Hr' & Hx').
  unfold vehicle_ids_of in Hx, Hx'. apply in_map_iff in Hx. apply in_map_iff in Hx'.
  destruct Hx as (k & <- & _). destruct Hx' as (k' & E & _). apply vehicle_id_inj in E.
  destruct E as (E & _). apply Hn. rewrite <- E. apply in_map. exact Hr'.
Qed.

Lemma all_vehicle_ids_rows ord pord rows vrows :
  all_vehicle_ids (read_csv_ord ord pord rows vrows) = flat_map vehicle_ids_of vrows.
Proof.
  unfold all_vehicle_ids. cbn [Problem_fleet read_csv_ord Fleet_vehicles]. unfold read_vehicles.
  rewrite flat_map_concat_map, map_map, <- flat_map_concat_map. reflexivity.
Qed.

(* distinct type ids (the table's own key, E1300) give distinct vehicle ids (E1301), whatever the profiles and amounts *)
Lemma csv_vehicle_ids_distinct : forall ord pord rows vrows,
  NoDup (map vr_id vrows) -> NoDup (all_vehicle_ids (read_csv_ord ord pord rows vrows)).
Proof. intros. rewrite all_vehicle_ids_rows. apply vehicle_ids_rows_nodup. assumption. Qed.

Lemma csv_vehicle_ids_shape : forall r x,
  In x (vehicle_ids_of r) <-> exists k, (1 <= k <= Z.to_nat (usizev (vr_amount r)))%nat /\ x = vehicle_id (vr_id r) k.
Proof.
  intros r x. unfold vehicle_ids_of. rewrite in_map_iff. split.
  - intros (k & <- & Hk). apply in_seq in Hk. exists k. split; [lia|reflexivity].
  - intros (k & Hk & ->). exists k. split; [reflexivity|]. apply in_seq. lia.
Qed.

(* concrete witnesses *)
Definition wit_vrow (id : string) : VehRow :=
  mk_VehRow id (Mk_fl 105 1) (Mk_fl 27 1) (Mk_i32 10 eq_refl) "2020-07-04T08:00:00Z" "2020-07-04T20:00:00Z"
            (Mk_usize 2 eq_refl) "car".
Definition wit_jrow (d : i32) : JobRow :=
  mk_JobRow "job1" (Mk_fl 105 1) (Mk_fl 27 1) d (Mk_usize 5 eq_refl) None None.

Lemma csv_shared_profile_witness :
  all_vehicle_ids (read_csv [] [wit_vrow "vehicle1"; wit_vrow "vehicle2"])
  = ["vehicle1_1"; "vehicle1_2"; "vehicle2_1"; "vehicle2_2"].
Proof. vm_compute. reflexivity. Qed.

Lemma csv_panic_prefix_witness :
  csv_panics_prefix [wit_jrow (Mk_i32 (-2147483648) eq_refl)] = true /\
  read_csv_problem [wit_jrow (Mk_i32 (-2147483648) eq_refl)] [] = CsvErr.
Proof. split; vm_compute; reflexivity. Qed.

Lemma csv_nonvacuous_witness :
  csv_rejects [wit_jrow (Mk_i32 3 eq_refl)] = false /\
  map Job_id (read_jobs [wit_jrow (Mk_i32 3 eq_refl); wit_jrow (Mk_i32 (-3) eq_refl)]) = ["job1"] /\
  NoDup (all_vehicle_ids (read_csv [] [wit_vrow "vehicle1"])).
Proof.
  split; [vm_compute; reflexivity|]. split; [vm_compute; reflexivity|].
  vm_compute. repeat constructor; cbn; intuition discriminate.
Qed.

Lemma csv_total_prefix_refuted : exists rows, csv_panics_prefix rows = true /\ read_csv_problem rows [] = CsvErr.
Proof. eexists. exact csv_panic_prefix_witness. Qed.
