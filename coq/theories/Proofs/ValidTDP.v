(* Lemmas about Spec/ValidTD.v: with routing functions that ignore the departure time, the departure-dependent replay IS the
   replay of Spec/Valid.v / the simulation of Spec/Feasible.v (so the time-dependent checker is a conservative generalisation:
   on time-independent data it decides exactly what the existing theorems are about). *)
From VRP Require Model.Routing.
From VRP Require Import Base.Tac Model.Core Spec.Feasible Spec.Intervals Spec.Valid Proofs.ValidP Spec.ValidTD.

(* a routing function that ignores the departure time *)
Definition cst (m : Z -> Z -> Z) : Z -> Z -> Z -> Z := fun f t _ => m f t.

Lemma sim_time_td_const dur : forall acts loc dep, sim_time_td (cst dur) loc dep acts = sim_time dur loc dep acts.
Proof.
  induction acts as [|a r IH]; intros loc dep; cbn [sim_time_td sim_time]; [reflexivity|].
  cbv zeta. unfold cst at 1 2. rewrite IH. reflexivity.
Qed.

Lemma time_feasible_td_const dur t : time_feasible_td (cst dur) t = time_feasible dur t.
Proof. destruct t as [|s r]; cbn [time_feasible_td time_feasible]; [reflexivity|]. apply sim_time_td_const. Qed.

Lemma replay_from_td_const dur : forall acts loc dep, replay_from_td (cst dur) loc dep acts = replay_from dur loc dep acts.
Proof.
  induction acts as [|a r IH]; intros loc dep; cbn [replay_from_td replay_from]; [reflexivity|].
  cbv zeta. rewrite IH. reflexivity.
Qed.

Lemma replay_td_const dur t : replay_td (cst dur) t = replay dur t.
Proof. destruct t as [|s r]; cbn [replay_td replay]; [reflexivity|]. rewrite replay_from_td_const. reflexivity. Qed.

Lemma replay_duration_td_const dur t : replay_duration_td (cst dur) t = replay_duration dur t.
Proof. unfold replay_duration_td, replay_duration. rewrite replay_td_const. reflexivity. Qed.

Lemma replay_waiting_td_const dur t : replay_waiting_td (cst dur) t = replay_waiting dur t.
Proof. unfold replay_waiting_td, replay_waiting. rewrite replay_td_const. reflexivity. Qed.

Lemma legs_td_dist dur dist : forall acts loc dep,
  sumz (map snd (legs_td (cst dur) (cst dist) loc dep acts)) = legs_sum dist loc acts.
Proof.
  induction acts as [|a r IH]; intros loc dep; cbn [legs_td legs_sum map]; [reflexivity|].
  cbv zeta. cbn [map snd]. unfold sumz. cbn [fold_right]. fold (sumz (map snd (legs_td (cst dur) (cst dist) (a_loc a)
    (Z.max (dep + cst dur loc (a_loc a) dep) (a_tws a) + a_svc a) r))). rewrite IH. reflexivity.
Qed.

Lemma legs_td_drive dur dist : forall acts loc dep,
  sumz (map fst (legs_td (cst dur) (cst dist) loc dep acts)) = legs_sum dur loc acts.
Proof.
  induction acts as [|a r IH]; intros loc dep; cbn [legs_td legs_sum map]; [reflexivity|].
  cbv zeta. cbn [map fst]. unfold sumz. cbn [fold_right]. fold (sumz (map fst (legs_td (cst dur) (cst dist) (a_loc a)
    (Z.max (dep + cst dur loc (a_loc a) dep) (a_tws a) + a_svc a) r))). rewrite IH. reflexivity.
Qed.

Lemma tour_dist_td_const dur dist t : tour_dist_td (cst dur) (cst dist) t = tour_legs dist t.
Proof. destruct t as [|s r]; unfold tour_dist_td; cbn [tour_legs_td tour_legs]; [reflexivity|]. apply legs_td_dist. Qed.

Lemma tour_drive_td_const dur dist t : tour_drive_td (cst dur) (cst dist) t = tour_legs dur t.
Proof. destruct t as [|s r]; unfold tour_drive_td; cbn [tour_legs_td tour_legs]; [reflexivity|]. apply legs_td_drive. Qed.

Lemma prefix_sums_cum dur dist : forall acts loc dep acc,
  prefix_sums acc (map snd (legs_td (cst dur) (cst dist) loc dep acts)) = cum_from dist loc acc acts.
Proof.
  induction acts as [|a r IH]; intros loc dep acc; cbn [legs_td map prefix_sums cum_from]; [reflexivity|].
  cbv zeta. cbn [snd]. rewrite IH. reflexivity.
Qed.

Lemma replay_cumdist_td_const dur dist t : replay_cumdist_td (cst dur) (cst dist) t = replay_cumdist dist t.
Proof.
  destruct t as [|s r]; cbn [replay_cumdist_td replay_cumdist tour_legs_td]; [reflexivity|].
  rewrite prefix_sums_cum. reflexivity.
Qed.

(* the statistic replayed with departure-independent routing is the one of Valid.replay_stat *)
Lemma replay_stat_td_const (P : pproblem) vt acts :
  replay_stat_td (cst (pdur P)) (cst (pdist P)) vt acts = replay_stat P vt acts.
Proof.
  unfold replay_stat_td, replay_stat.
  rewrite tour_dist_td_const, tour_drive_td_const, replay_duration_td_const, replay_waiting_td_const.
  reflexivity.
Qed.

(* without general routing data the plugins evaluate Valid.valid_b itself *)
Lemma valid_x_none P S : valid_x None P S = valid_b P S.
Proof. reflexivity. Qed.
Lemma replay_viol_x_none P S : replay_viol_x None P S = replay_viol P S.
Proof. reflexivity. Qed.
Lemma feasible_viols_x_none P S : feasible_viols_x None P S = feasible_viols P S.
Proof. reflexivity. Qed.

(* ------------------------------------------------------------------ non-vacuity: a time-dependent problem *)
(* ex_P of Proofs/ValidP.v with job 1 open from 110 on, and two matrices for the one profile, stamped 0 and 100 (document time;
   absolute 1000 and 1100): durations 10 per unit at first, 30 per unit from 100 on (in between one second more per 5 seconds
   of later departure), distances 10 per unit, then 15 *)
Definition ex_Ptd : pproblem :=
  mkPProblem [mkPJob 1 [mkPTask 1 [mkPPlace 1 5 [(110, 200)] None] 1] true [] [] [] None None [] [];
              mkPJob 2 [mkPTask 0 [mkPPlace 2 0 [(0, 10)] None] 1] true [] [] [] None None [] []]
             (pr_fleet ex_P) 3 (pr_dur ex_P) (pr_dist ex_P) [].
Definition ex_R : trouting :=
  mkTRouting [0%nat]
             [Routing.mkPM (Some 0%nat) (Some 1000) (pr_dur ex_P) (pr_dist ex_P) None;
              Routing.mkPM (Some 0%nat) (Some 1100) [0; 30; 60; 30; 0; 30; 60; 30; 0] [0; 15; 30; 15; 0; 15; 30; 15; 0] None]
             [(1, (0%nat, None))] 1000.
(* the first leg departs at 0 (10 s, 10 units), job 1 is served 110..115, the way back departs at 115, after the second
   timestamp (30 s, 15 units) *)
Definition ex_stat_td : sstat := mkSStat 322 25 145 40 5 100 0.
Definition ex_S_td : ssolution :=
  mkSSolution ex_stat_td
    [mkSTour 1 1 0 [mkSStop 0 0 0 1 0 [mkSAct (-1) 10 None None None];
                    mkSStop 1 10 115 0 10 [mkSAct 1 1 None (Some (110, 115)) None];
                    mkSStop 0 145 145 0 25 [mkSAct (-1) 11 None None None]] ex_stat_td []]
    [(2, 1%nat)].
(* the same document with the distance of the way back taken from the FIRST matrix (distance_approx: seeded mutant C03-2) *)
Definition ex_stat_td_first : sstat := mkSStat 317 20 145 40 5 100 0.
Definition ex_S_td_first : ssolution :=
  mkSSolution ex_stat_td_first
    [mkSTour 1 1 0 [mkSStop 0 0 0 1 0 [mkSAct (-1) 10 None None None];
                    mkSStop 1 10 115 0 10 [mkSAct 1 1 None (Some (110, 115)) None];
                    mkSStop 0 145 145 0 20 [mkSAct (-1) 11 None None None]] ex_stat_td_first []]
    [(2, 1%nat)].
Lemma ex_td :
  valid_td ex_R ex_Ptd ex_S_td = [] /\ replay_viol_td ex_R ex_Ptd ex_S_td_first = [RDistance 0 2; RStatDistance 0; RStatCost 0].
Proof. split; vm_compute; reflexivity. Qed.
(* finding C01-F5 (witness): shifting the departure by the slack read off the current schedule - which is what
   try_advance_departure_time does, assuming that every arrival moves 1:1 with the departure - breaks a time window when the travel
   time grows with the departure time.  Leg 0 -> 1 takes 35 s up to 48, 55 s from 68 on, one second more per second in between
   (the data of corpus/C01/td_departure_advanced.json); the job at 1 is open [50, 115]. *)
Definition ex_dur_f5 (f t dep : Z) : Z :=
  if (f =? 0) && (t =? 1) then (if dep <=? 48 then 35 else if 68 <=? dep then 55 else 35 + (dep - 48)) else 0.
Definition ex_tour_f5 (dep : Z) : list act :=
  [mkAct (-1) 0 0 50 INF dzero dep dep; mkAct 1 1 12 50 115 dzero 0 0].
Lemma ex_departure_shift_td :
  time_feasible_td ex_dur_f5 (ex_tour_f5 50) = true                  (* departing at 50: arrival 87, slack 115 - 87 = 28 *)
  /\ 50 + ex_dur_f5 0 1 50 = 87 /\ 87 + 28 = 115                      (* the arrival a 1:1 shift by 28 would give: just in time *)
  /\ 78 + ex_dur_f5 0 1 78 = 133                                       (* the real arrival after the shift *)
  /\ time_feasible_td ex_dur_f5 (ex_tour_f5 78) = false.
Proof. repeat split; vm_compute; reflexivity. Qed.

(* a departure between the timestamps: at 50 the duration of a 10-unit leg is 10 + 50/5 = 20 (linear), its distance still 10 (left) *)
Lemma ex_td_interpolation :
  match provider_of ex_R with
  | Routing.POk pr => rdur ex_R pr 1 0 1 50 = 20 /\ rdist ex_R pr 1 0 1 50 = 10 /\ rdur ex_R pr 1 0 1 52 = BAD
  | Routing.PErr _ => False
  end.
Proof. vm_compute. repeat split; reflexivity. Qed.
