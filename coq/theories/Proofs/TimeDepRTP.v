(* C06, reserved times (required breaks): the generic soundness theorem of Proofs/TimeDepP.v instantiated with
   DynamicTransportCost / DynamicActivityCost over ONE reserved time of the vehicle (time-independent inner routing), and the
   relation between the forward pass of these providers and the physical simulation of Spec/FeasibleT.v. *)
From VRP Require Import Base.Tac Model.Core Spec.Feasible Model.Eval Model.Limits Model.TimeDep Spec.FeasibleT Proofs.CoreEvalP Proofs.TimeDepP.

Ltac bdestruct_all :=
  repeat match goal with
  | |- context [Z.eqb ?a ?b] => destruct (Z.eqb_spec a b)
  | |- context [Z.ltb ?a ?b] => destruct (Z.ltb_spec a b)
  | |- context [Z.leb ?a ?b] => destruct (Z.leb_spec a b)
  | H : context [Z.eqb ?a ?b] |- _ => destruct (Z.eqb_spec a b)
  | H : context [Z.ltb ?a ?b] |- _ => destruct (Z.ltb_spec a b)
  | H : context [Z.leb ?a ?b] |- _ => destruct (Z.leb_spec a b)
  end; cbn [andb orb negb] in *.

(* the answer of the lookup closure for one span *)
Definition rt_hit (e d a b : Z) : bool := (Z.max 0 a =? Z.max 0 e) || ((a <? e + d) && (e <? b)).

Lemma rt_fn_single : forall s e d off a b, a < INF -> e < INF ->
  rt_fn (mkRT false [mkRS s e d]) off a b = if rt_hit e d a b then Some (s, e, d) else None.
Proof.
  intros s e d off a b Ha He. unfold rt_fn, rt_hit, to_u64. cbn [rt_spans rt_is_offset map bsearch rs_e rs_d rs_s].
  rewrite (subI_fin a 0 Ha). replace (a - 0) with a by lia.
  assert (Hb : (e <? subI b 0) = (e <? b)).
  { unfold subI. destruct (INF <=? b) eqn:Eb; [apply Z.leb_le in Eb|replace (b - 0) with b by lia; reflexivity].
    transitivity true; [apply Z.ltb_lt; lia|symmetry; apply Z.ltb_lt; lia]. }
  rewrite (Z.eqb_sym (Z.max 0 e) (Z.max 0 a)).
  destruct (Z.max 0 a =? Z.max 0 e) eqn:E1; cbn [orb nth_error].
  - cbn [rs_e rs_d rs_s]. replace (s + 0) with s by lia. replace (e + 0) with e by lia. reflexivity.
  - destruct (Z.max 0 a <? Z.max 0 e) eqn:E2; cbn [Nat.max Nat.sub nth_error rs_e rs_d rs_s]; rewrite Hb;
      destruct ((a <? e + d) && (e <? b)); cbn [nth_error rs_e rs_d rs_s]; replace (s + 0) with s by lia; replace (e + 0) with e by lia; reflexivity.
Qed.

Section RT1.
Variable dur : Z -> Z -> Z.            (* the inner, time-independent routing *)
Variable s e d : Z.                    (* the reserved time: window [s, e], duration d; it is taken at e *)
Hypothesis dur_nonneg : forall f t, 0 <= dur f t.
Hypothesis e_nonneg : 0 <= e.
Hypothesis d_nonneg : 0 <= d.
Hypothesis ed_fin : e + d < INF.

Definition rt1 : rtimes := mkRT false [mkRS s e d].
Definition idur (f t _x : Z) : Z := dur f t.
Notation durD1 := (durD_rt idur rt1 0).
Notation durA1 := (durA_rt idur rt1 0).
Notation edep1 := (edep_rt rt1 0).
Notation earr1 := (earr_rt rt1 0).

(* the instants a schedule can reach: never strictly inside the reserved time *)
Definition R1 (x : Z) : Prop := 0 <= x /\ x < INF /\ (x <= e \/ e + d <= x).

Lemma R1_fin : forall x, R1 x -> x < INF.
Proof. intros x H. destruct H as (_ & H & _). exact H. Qed.

Lemma durD1_eq : forall f t x, x < INF -> durD1 f t x = dur f t + (if rt_hit e d x (x + dur f t) then d else 0).
Proof.
  intros f t x Hx. unfold durD_rt, idur, rt1. rewrite rt_fn_single by lia. rewrite addI_fin by assumption.
  destruct (rt_hit e d x (x + dur f t)); lia.
Qed.

Lemma fwd1_eq : forall f t x, x < INF -> fwd durD1 f t x = x + dur f t + (if rt_hit e d x (x + dur f t) then d else 0).
Proof. intros f t x Hx. unfold fwd. rewrite addI_fin by assumption. rewrite durD1_eq by assumption. lia. Qed.

Lemma durA1_eq : forall f t L, L < INF -> durA1 f t L = dur f t + (if rt_hit e d (L - dur f t) L then d else 0).
Proof.
  intros f t L HL. unfold durA_rt, idur. pose proof (dur_nonneg f t). rewrite subI_fin by assumption. unfold rt1. rewrite rt_fn_single by lia.
  destruct (rt_hit e d (L - dur f t) L); lia.
Qed.

Lemma rt1_fifo : forall f t x y, R1 x -> R1 y -> x <= y -> fwd durD1 f t x <= fwd durD1 f t y.
Proof.
  intros f t x y (Hx0 & Hx1 & Hx2) (Hy0 & Hy1 & Hy2) Hxy. rewrite !fwd1_eq by assumption.
  pose proof (dur_nonneg f t). unfold rt_hit. bdestruct_all; lia.
Qed.

Lemma rt1_reach_travel : forall f t x, R1 x -> fwd durD1 f t x < INF -> R1 (fwd durD1 f t x).
Proof.
  intros f t x (Hx0 & Hx1 & Hx2). rewrite fwd1_eq by assumption. pose proof (dur_nonneg f t). unfold rt_hit, R1.
  intros H'. bdestruct_all; lia.
Qed.

Lemma rt1_answer : forall off a b p q r, rt_fn rt1 off a b = Some (p, q, r) -> p = s /\ q = e /\ r = d.
Proof.
  intros off a b p q r E. unfold rt_fn, rt1 in E. cbn [rt_spans rt_is_offset map bsearch] in E.
  repeat (match type of E with context [if ?c then _ else _] => destruct c end;
          cbn [nth_error Nat.max Nat.sub rs_s rs_e rs_d] in E);
    try discriminate; inversion E; repeat split; lia.
Qed.

Lemma rt1_durA_nonneg : forall f t L, 0 <= durA1 f t L.
Proof.
  intros f t L. unfold durA_rt, idur. pose proof (dur_nonneg f t).
  destruct (rt_fn rt1 0 (subI L (dur f t)) L) as [[[a b] c]|] eqn:E; [|lia].
  apply rt1_answer in E. lia.
Qed.

Lemma rt1_back_travel : forall f t x L, R1 x -> L < INF -> x <= L - durA1 f t L -> fwd durD1 f t x <= L.
Proof.
  intros f t x L (Hx0 & Hx1 & Hx2) HL. rewrite durA1_eq by assumption. rewrite fwd1_eq by assumption.
  pose proof (dur_nonneg f t). unfold rt_hit. intros H'. bdestruct_all; lia.
Qed.

(* ---------------- stops ---------------- *)
(* well-formed activities; the last conjunct excludes one tie: a demand-free zero-length stop whose window opens exactly when the
   reserved time begins and closes before it ends (reached exactly at e, estimate_departure answers Float::MAX although the stop
   is over before the reserved time begins for every earlier arrival) *)
Definition WF1 (a : act) : Prop :=
  a_tws a <= a_twe a /\ 0 <= a_tws a /\ a_tws a < INF /\ 0 <= a_svc a /\ (a_tws a = e -> a_svc a = 0 -> e + d <= a_twe a).

Lemma edep1_unfold : forall a x, x < INF -> a_tws a < INF ->
  edep1 a x =
  let start := Z.max x (a_tws a) in let dep0 := start + a_svc a in
  if rt_hit e d x dep0 then
    let extra := if e <? a_tws a
                 then d - (if (x <=? e + d) && (e <=? a_tws a) then Z.min (a_tws a) (e + d) - Z.max x e else 0) else d in
    if a_twe a <? start + extra then INF else (if INF <=? dep0 then INF else dep0 + extra)
  else dep0.
Proof.
  intros a x Hx Ht. unfold edep_rt. cbv zeta.
  assert (Hs : Z.max x (a_tws a) < INF) by lia.
  rewrite (addI_fin (Z.max x (a_tws a)) (a_svc a) Hs). unfold rt1. rewrite rt_fn_single by lia.
  destruct (rt_hit e d x (Z.max x (a_tws a) + a_svc a)); [|reflexivity].
  rewrite (addI_fin (Z.max x (a_tws a)) _ Hs). unfold addI. reflexivity.
Qed.

(* the three situations of a stop reached at a reachable instant x *)
Lemma edep1_spec : forall a x, WF1 a -> R1 x ->
  let tws := a_tws a in let svc := a_svc a in let start := Z.max x tws in
  (* the reserved time is over, or the stop is finished before it begins *)
  (((e + d <= x /\ x <> e) \/ (x <> e /\ start + svc <= e)) /\ edep1 a x = start + svc) \/
  (* it begins while the vehicle waits for the window: the service starts at max(window start, end of the reserved time) *)
  (x <= e /\ (x = e \/ e < start + svc) /\ e < tws /\
   edep1 a x = if a_twe a <? Z.max tws (e + d) then INF else (if INF <=? start + svc then INF else Z.max tws (e + d) + svc)) \/
  (* it begins at the arrival or during the service: the stop lasts d longer *)
  (x <= e /\ (x = e \/ e < start + svc) /\ tws <= e /\
   edep1 a x = if a_twe a <? start + d then INF else (if INF <=? start + svc then INF else start + svc + d)).
Proof.
  intros a x (Hw1 & Hw2 & Hw3 & Hw4 & Hw5) (Hx0 & Hx1 & Hx2). cbv zeta. rewrite edep1_unfold by assumption. cbv zeta. unfold rt_hit.
  destruct Hx2 as [Hx2|Hx2].
  - (* x <= e *)
    destruct (Z.eq_dec x e) as [Exe|Nxe].
    + subst x. destruct (Z.lt_ge_cases e (a_tws a)) as [Hlt|Hge].
      * right. left. split; [lia|]. split; [left; reflexivity|]. split; [exact Hlt|]. bdestruct_all; try lia; f_equal; lia.
      * right. right. split; [lia|]. split; [left; reflexivity|]. split; [lia|]. bdestruct_all; try lia; f_equal; lia.
    + destruct (Z.lt_ge_cases e (Z.max x (a_tws a) + a_svc a)) as [Hhit|Hno].
      * destruct (Z.lt_ge_cases e (a_tws a)) as [Hlt|Hge].
        -- right. left. split; [lia|]. split; [right; exact Hhit|]. split; [exact Hlt|]. bdestruct_all; try lia; f_equal; lia.
        -- right. right. split; [lia|]. split; [right; exact Hhit|]. split; [lia|]. bdestruct_all; try lia; f_equal; lia.
      * left. split; [right; split; [exact Nxe|lia]|]. bdestruct_all; try lia; reflexivity.
  - (* e + d <= x *)
    destruct (Z.eq_dec x e) as [Exe|Nxe].
    + (* d = 0 and x = e: the degenerate reserved time *)
      subst x. assert (d = 0) by lia. subst d. destruct (Z.lt_ge_cases e (a_tws a)) as [Hlt|Hge].
      * right. left. split; [lia|]. split; [left; reflexivity|]. split; [exact Hlt|]. bdestruct_all; try lia; f_equal; lia.
      * right. right. split; [lia|]. split; [left; reflexivity|]. split; [lia|]. bdestruct_all; try lia; f_equal; lia.
    + left. split; [left; split; [lia|exact Nxe]|]. bdestruct_all; try lia; reflexivity.
Qed.

Lemma earr1_unfold : forall a Ld, Ld < INF -> 0 <= a_svc a ->
  earr1 a Ld = let arrival := Z.min (a_twe a) (Ld - a_svc a) in
               if rt_hit e d arrival Ld then Z.max (arrival - d) (a_tws a) else arrival.
Proof.
  intros a Ld HL Hs. unfold earr_rt. cbv zeta. rewrite subI_fin by assumption. unfold rt1. rewrite rt_fn_single by lia.
  destruct (rt_hit e d (Z.min (a_twe a) (Ld - a_svc a)) Ld); reflexivity.
Qed.

Lemma rt1_earr_window : forall a Ld, WF1 a -> earr1 a Ld <= a_twe a.
Proof.
  intros a Ld (Hw1 & Hw2 & Hw3 & Hw4 & Hw5). unfold earr_rt. cbv zeta.
  destruct (rt_fn rt1 0 (Z.min (a_twe a) (subI Ld (a_svc a))) Ld) as [[[p q] r]|] eqn:E; [|lia].
  apply rt1_answer in E. lia.
Qed.

Lemma rt1_edep_inf : forall a x, WF1 a -> edep1 a x < INF -> x < INF.
Proof.
  intros a x (Hw1 & Hw2 & Hw3 & Hw4 & Hw5) H. destruct (Z.lt_ge_cases x INF) as [|Hge]; [assumption|exfalso].
  unfold edep_rt in H. cbv zeta in H.
  assert (Hm : INF <= Z.max x (a_tws a)) by lia.
  rewrite (addI_inf _ (a_svc a) Hm) in H.
  destruct (rt_fn rt1 0 x INF) as [[[p q] r]|]; [|lia].
  rewrite !(addI_inf (Z.max x (a_tws a)) _ Hm) in H. rewrite (addI_inf INF) in H by lia.
  destruct (a_twe a <? INF); lia.
Qed.

(* the same for a bounded answer: no Float::MAX branch *)
Lemma edep1_fin : forall a x, WF1 a -> R1 x -> edep1 a x < INF ->
  let tws := a_tws a in let svc := a_svc a in let start := Z.max x tws in
  (((e + d <= x /\ x <> e) \/ (x <> e /\ start + svc <= e)) /\ edep1 a x = start + svc) \/
  (x <= e /\ (x = e \/ e < start + svc) /\ e < tws /\ Z.max tws (e + d) <= a_twe a /\ edep1 a x = Z.max tws (e + d) + svc) \/
  (x <= e /\ (x = e \/ e < start + svc) /\ tws <= e /\ start + d <= a_twe a /\ edep1 a x = start + svc + d).
Proof.
  intros a x Hw Rx Hfin. cbv zeta.
  destruct (edep1_spec a x Hw Rx) as [(Cx & Ex)|[(Cx1 & Cx2 & Cx3 & Ex)|(Cx1 & Cx2 & Cx3 & Ex)]].
  - left. split; assumption.
  - right. left. rewrite Ex in Hfin. rewrite Ex.
    destruct (a_twe a <? Z.max (a_tws a) (e + d)) eqn:E1; [lia|]. apply Z.ltb_ge in E1.
    destruct (INF <=? Z.max x (a_tws a) + a_svc a) eqn:E2; [lia|]. repeat split; assumption.
  - right. right. rewrite Ex in Hfin. rewrite Ex.
    destruct (a_twe a <? Z.max x (a_tws a) + d) eqn:E1; [lia|]. apply Z.ltb_ge in E1.
    destruct (INF <=? Z.max x (a_tws a) + a_svc a) eqn:E2; [lia|]. repeat split; assumption.
Qed.

Lemma rt1_mono_stop : forall a x y, WF1 a -> R1 x -> R1 y -> x <= y -> y <= a_twe a -> edep1 a y < INF -> edep1 a x <= edep1 a y.
Proof.
  intros a x y Hw Rx Ry Hxy Hyt Hfin.
  pose proof Hw as (Hw1 & Hw2 & Hw3 & Hw4 & Hw5). pose proof Rx as (Hx0 & Hx1 & Hx2). pose proof Ry as (Hy0 & Hy1 & Hy2).
  destruct (edep1_fin a y Hw Ry Hfin) as [(Cy & Ey)|[(Cy1 & Cy2 & Cy3 & Cy4 & Ey)|(Cy1 & Cy2 & Cy3 & Cy4 & Ey)]];
  rewrite Ey in *; clear Ey;
  (destruct (edep1_spec a x Hw Rx) as [(Cx & Ex)|[(Cx1 & Cx2 & Cx3 & Ex)|(Cx1 & Cx2 & Cx3 & Ex)]]; rewrite Ex; clear Ex;
   bdestruct_all; lia).
Qed.

Lemma rt1_reach_stop : forall a x, WF1 a -> R1 x -> x <= a_twe a -> edep1 a x < INF -> R1 (edep1 a x).
Proof.
  intros a x Hw Rx Hxt Hfin. pose proof Hw as (Hw1 & Hw2 & Hw3 & Hw4 & Hw5). pose proof Rx as (Hx0 & Hx1 & Hx2).
  destruct (edep1_fin a x Hw Rx Hfin) as [(Cx & Ex)|[(Cx1 & Cx2 & Cx3 & Cx4 & Ex)|(Cx1 & Cx2 & Cx3 & Cx4 & Ex)]];
  rewrite Ex in *; clear Ex; unfold R1; lia.
Qed.

Lemma rt1_back_stop : forall a x y0 Ld, WF1 a -> R1 x -> R1 y0 -> y0 <= a_twe a -> edep1 a y0 < INF -> Ld < INF ->
  x <= earr1 a Ld ->
  edep1 a x <= Ld \/ (edep1 a x < INF /\ forall f t, fwd durD1 f t (edep1 a x) <= fwd durD1 f t (edep1 a y0)).
Proof.
  intros a x y0 Ld Hw Rx Ry Hyt Hfin HLd Hle.
  destruct (Z.le_gt_cases (edep1 a x) Ld) as [Hl|Hgt]; [left; exact Hl|right].
  pose proof Hw as (Hw1 & Hw2 & Hw3 & Hw4 & Hw5). pose proof Rx as (Hx0 & Hx1 & Hx2). pose proof Ry as (Hy0 & Hy1 & Hy2).
  rewrite earr1_unfold in Hle by assumption. cbv zeta in Hle. unfold rt_hit in Hle.
  assert (Hkey : edep1 a x < INF /\ (edep1 a x <= edep1 a y0 \/ (edep1 a x = e + d /\ edep1 a y0 = e))).
  { (* what is known about the original departure *)
    assert (Hy : a_tws a + a_svc a <= edep1 a y0 /\
                 (e + d <= y0 -> y0 + a_svc a <= edep1 a y0) /\
                 (e < a_tws a -> y0 <= e -> Z.max (a_tws a) (e + d) <= a_twe a /\ edep1 a y0 = Z.max (a_tws a) (e + d) + a_svc a) /\
                 (a_tws a <= e -> y0 <= e ->
                    (y0 <> e /\ Z.max y0 (a_tws a) + a_svc a <= e /\ edep1 a y0 = Z.max y0 (a_tws a) + a_svc a) \/
                    (a_tws a + d <= a_twe a /\ a_tws a + a_svc a + d <= edep1 a y0))).
    { destruct (edep1_fin a y0 Hw Ry Hfin) as [(Cy & Ey)|[(Cy1 & Cy2 & Cy3 & Cy4 & Ey)|(Cy1 & Cy2 & Cy3 & Cy4 & Ey)]];
        rewrite Ey; clear Ey Hle Hgt; repeat split; try lia; intros; lia. }
    destruct Hy as (Hq1 & Hq2 & Hq3 & Hq4).
    destruct (Z.le_gt_cases x (a_tws a)) as [Hxt|Hxt].
    - (* x <= window start: the service starts at the window start, as early as for any arrival *)
      destruct (edep1_spec a x Hw Rx) as [(Cx & Ex)|[(Cx1 & Cx2 & Cx3 & Ex)|(Cx1 & Cx2 & Cx3 & Ex)]];
        rewrite Ex in *; clear Ex; rewrite (Z.max_r x (a_tws a) Hxt) in *.
      + split; [lia|left; lia].
      + clear Hle. destruct Hy2 as [Hy2|Hy2].
        * destruct (Hq3 Cx3 Hy2) as [Hb1 Hb2]. rewrite Hb2. bdestruct_all; lia.
        * pose proof (Hq2 Hy2). bdestruct_all; lia.
      + clear Hle. destruct Hy2 as [Hy2|Hy2].
        * destruct (Hq4 Cx3 Hy2) as [(Hc1 & Hc2 & Hc3)|(Hc1 & Hc2)].
          -- (* the original stop is over before the reserved time begins: only the tie x = e = window start is left *)
             assert (Hx_e : x = e) by lia. assert (Ht_e : a_tws a = e) by lia. assert (Hs0 : a_svc a = 0) by lia.
             pose proof (Hw5 Ht_e Hs0). rewrite Hc3. bdestruct_all; lia.
          -- bdestruct_all; lia.
        * pose proof (Hq2 Hy2). bdestruct_all; lia.
    - (* x behind the window start: the bound of the latest arrival applies to x itself *)
      exfalso.
      destruct (edep1_spec a x Hw Rx) as [(Cx & Ex)|[(Cx1 & Cx2 & Cx3 & Ex)|(Cx1 & Cx2 & Cx3 & Ex)]];
        rewrite Ex in *; clear Ex Hq1 Hq2 Hq3 Hq4; rewrite (Z.max_l x (a_tws a)) in * by lia; bdestruct_all; lia. }
  destruct Hkey as [Hf [Hle2|[E1 E2]]]; split; try exact Hf; intros f t.
  - apply rt1_fifo; [apply rt1_reach_stop; try assumption|apply rt1_reach_stop; assumption|exact Hle2].
    (* x <= twe: from the latest-arrival bound *)
    pose proof (rt1_earr_window a Ld Hw). rewrite earr1_unfold in H by assumption. cbv zeta in H. unfold rt_hit in H. lia.
  - rewrite E1, E2. rewrite !fwd1_eq by lia. pose proof (dur_nonneg f t). unfold rt_hit. bdestruct_all; lia.
Qed.

(* ---------------- the generic theorem instantiated ---------------- *)
Local Ltac rt1_hyps :=
  first [ exact R1_fin | exact rt1_fifo | exact rt1_reach_travel | exact rt1_durA_nonneg | exact rt1_back_travel
        | exact rt1_mono_stop | exact rt1_reach_stop | exact rt1_back_stop | exact rt1_earr_window | exact rt1_edep_inf ].

(* SOUNDNESS of evaluate_activity with one reserved time, against the forward pass of the same providers *)
Theorem rt1_eval_sound : forall v prev target nexts,
  R1 (a_dep prev) -> WF1 target -> Forall WF1 nexts -> fin_latest durA1 earr1 nexts ->
  sim_g durD1 edep1 (a_loc prev) (a_dep prev) nexts = true ->
  eval_time_g durD1 durA1 edep1 earr1 v prev target nexts = None ->
  sim_g durD1 edep1 (a_loc prev) (a_dep prev) (target :: nexts) = true.
Proof.
  intros v prev target nexts Hp. apply (eval_time_g_sound durD1 durA1 edep1 earr1 R1 WF1); try exact Hp; rt1_hyps.
Qed.

Theorem rt1_eval_sound_tour : forall v s0 A p B target,
  B <> [] ->
  sched_ok_g durD1 edep1 (a_loc s0) (a_dep s0) (A ++ [p]) -> R1 (a_dep s0) -> Forall WF1 (A ++ [p]) ->
  WF1 target -> Forall WF1 B -> fin_latest durA1 earr1 B ->
  time_feasible_g durD1 edep1 (s0 :: A ++ p :: B) = true ->
  eval_time_g durD1 durA1 edep1 earr1 v p target B = None ->
  time_feasible_g durD1 edep1 (s0 :: A ++ p :: target :: B) = true.
Proof.
  intros v s0 A p B target HB Hs Rs. apply (eval_time_g_sound_tour_start durD1 durA1 edep1 earr1 R1 WF1); try assumption; rt1_hyps.
Qed.

Theorem rt1_eval_sound_idx : forall v t idx target,
  (S idx < length t)%nat -> sched_ok_gt durD1 edep1 t -> R1 (a_dep (hd target t)) -> Forall WF1 (tl t) -> WF1 target ->
  fin_latest durA1 earr1 (skipn (S idx) t) -> time_feasible_g durD1 edep1 t = true ->
  eval_time_g durD1 durA1 edep1 earr1 v (nth idx t target) target (skipn (S idx) t) = None ->
  time_feasible_g durD1 edep1 (insert_after t idx target) = true.
Proof.
  intros v t idx target Hidx Hs Rs Hwf Hwt Hfl Hft ET.
  apply (eval_time_g_sound_idx durD1 durA1 edep1 earr1 R1 WF1) with (v := v); try assumption; first [rt1_hyps | exact (fun a arr dd x => eq_refl)].
Qed.

(* ---------------- the forward pass of the providers vs the physical simulation (Spec/FeasibleT.v) ---------------- *)
Notation work1 := (work [(e, d)]).
Notation wait1 := (wait_until [(e, d)]).
Notation sim_t1 := (sim_t idur [(e, d)]).

Lemma work1_eq : forall now amount,
  work1 now amount = now + amount + (if (now =? e) || ((now <? e) && (e <? now + amount)) then d else 0).
Proof. intros. cbn [work]. destruct ((now =? e) || ((now <? e) && (e <? now + amount))); cbn [work]; lia. Qed.

Lemma wait1_eq : forall now until,
  wait1 now until = if until <=? now then now else if (now <=? e) && (e <? until) && (until <? e + d) then e + d else until.
Proof. intros. unfold wait_until. cbn [wait_from]. reflexivity. Qed.

(* the model is at x, the physical vehicle at q: the same instant, or the model sits at e with the reserved time still ahead while
   the vehicle has already taken it *)
Definition Rel1 (x q : Z) : Prop := x = q \/ (x = e /\ q = e + d).

Lemma rel1_travel : forall f t x q, R1 x -> Rel1 x q -> fwd durD1 f t x = work1 q (idur f t q).
Proof.
  intros f t x q (Hx0 & Hx1 & Hx2) Hr. rewrite fwd1_eq by assumption. rewrite work1_eq. unfold idur, rt_hit.
  pose proof (dur_nonneg f t). destruct Hr as [Hr|[Hr1 Hr2]]; subst; bdestruct_all; lia.
Qed.

Lemma rel1_stop : forall a x, WF1 a -> R1 x -> x <= a_twe a -> edep1 a x < INF ->
  wait1 x (a_tws a) <= a_twe a /\ Rel1 (edep1 a x) (work1 (wait1 x (a_tws a)) (a_svc a)).
Proof.
  intros a x Hw Rx Hxt Hfin. pose proof Hw as (Hw1 & Hw2 & Hw3 & Hw4 & Hw5). pose proof Rx as (Hx0 & Hx1 & Hx2).
  rewrite work1_eq, wait1_eq. unfold Rel1.
  destruct (edep1_fin a x Hw Rx Hfin) as [(Cx & Ex)|[(Cx1 & Cx2 & Cx3 & Cx4 & Ex)|(Cx1 & Cx2 & Cx3 & Cx4 & Ex)]];
    rewrite Ex; clear Ex Hfin;
    destruct (Z.le_gt_cases x (a_tws a)) as [Hc|Hc];
    [rewrite (Z.max_r x (a_tws a) Hc) in *|rewrite (Z.max_l x (a_tws a)) in * by lia
    |rewrite (Z.max_r x (a_tws a) Hc) in *|rewrite (Z.max_l x (a_tws a)) in * by lia
    |rewrite (Z.max_r x (a_tws a) Hc) in *|rewrite (Z.max_l x (a_tws a)) in * by lia];
    bdestruct_all; lia.
Qed.

(* the last activity of the walk does not wait for a window (the end activity of a closed tour) *)
Fixpoint ends_free (acts : list act) : Prop :=
  match acts with
  | [] => True
  | [a] => a_tws a <= 0
  | _ :: r => ends_free r
  end.

Theorem rt1_forward_physical : forall acts loc x q,
  R1 x -> Rel1 x q -> Forall WF1 acts -> ends_free acts ->
  sim_g durD1 edep1 loc x acts = true -> sim_t1 loc q acts = true.
Proof.
  induction acts as [|a r IH]; intros loc x q Rx Hr Hwf Hend H; [reflexivity|].
  inversion Hwf as [|? ? Hwa Hwr]; subst. pose proof Hwa as (Hw1 & Hw2 & Hw3 & Hw4 & Hw5).
  cbn [sim_g] in H. apply andb_true_iff in H as [H1 H2]. apply Z.leb_le in H1.
  cbn [sim_t]. rewrite <- (rel1_travel loc (a_loc a) x q Rx Hr).
  set (arr := fwd durD1 loc (a_loc a) x) in *.
  destruct r as [|b r'].
  - (* last activity: reached in its window; it does not wait *)
    cbn [ends_free] in Hend.
    assert (Harr0 : 0 <= arr).
    { unfold arr. pose proof Rx as (Hx0 & Hx1 & Hx2). rewrite fwd1_eq by assumption. pose proof (dur_nonneg loc (a_loc a)).
      destruct (rt_hit e d x (x + dur loc (a_loc a))); lia. }
    rewrite wait1_eq. replace (a_tws a <=? arr) with true by (symmetry; apply Z.leb_le; lia).
    cbn [sim_t]. rewrite andb_true_r. apply andb_true_iff; split; apply Z.leb_le; lia.
  - apply andb_true_iff in H2 as [H2 H4]. apply andb_true_iff in H2 as [H2 H3].
    apply Z.ltb_lt in H2. apply Z.ltb_lt in H3.
    assert (Ra : R1 arr) by (apply rt1_reach_travel; assumption).
    destruct (rel1_stop a arr Hwa Ra H1 H3) as [Hs Hrel].
    apply andb_true_iff; split; [apply andb_true_iff; split; apply Z.leb_le; lia|].
    apply (IH (a_loc a) (edep1 a arr) _ (rt1_reach_stop a arr Hwa Ra H1 H3) Hrel Hwr Hend H4).
Qed.
End RT1.

(* ---------------- closed tours: the accepted activity keeps the tour feasible for the PHYSICAL simulation ---------------- *)
Lemma ends_free_app : forall A B, B <> [] -> ends_free B -> ends_free (A ++ B).
Proof.
  induction A as [|a A IH]; intros B HB H; [exact H|]. cbn [app]. specialize (IH B HB H).
  destruct (A ++ B) as [|z zs] eqn:E; [destruct A; cbn [app] in E; [congruence|discriminate]|]. exact IH.
Qed.

Theorem rt1_eval_sound_physical : forall dur s e d v s0 A p B target,
  (forall f t, 0 <= dur f t) -> 0 <= e -> 0 <= d -> e + d < INF ->
  let durD := durD_rt (idur dur) (rt1 s e d) 0 in let durA := durA_rt (idur dur) (rt1 s e d) 0 in
  let edep := edep_rt (rt1 s e d) 0 in let earr := earr_rt (rt1 s e d) 0 in
  B <> [] -> ends_free B ->
  sched_ok_g durD edep (a_loc s0) (a_dep s0) (A ++ [p]) -> R1 e d (a_dep s0) ->
  Forall (WF1 e d) (A ++ [p]) -> WF1 e d target -> Forall (WF1 e d) B -> fin_latest durA earr B ->
  time_feasible_g durD edep (s0 :: A ++ p :: B) = true ->
  eval_time_g durD durA edep earr v p target B = None ->
  time_feasible_t (idur dur) [(e, d)] (s0 :: A ++ p :: target :: B) = true.
Proof.
  intros dur s e d v s0 A p B target Hd He Hdn Hfin durD durA edep earr HB Hend Hs Rs HwA Hwt HwB Hfl Hf Hev.
  pose proof (rt1_eval_sound_tour dur s e d Hd He Hdn Hfin v s0 A p B target HB Hs Rs HwA Hwt HwB Hfl Hf Hev) as Hg.
  cbn [time_feasible_g time_feasible_t] in *.
  apply (rt1_forward_physical dur s e d Hd He Hdn Hfin (A ++ p :: target :: B) (a_loc s0) (a_dep s0) (a_dep s0) Rs (or_introl eq_refl)).
  - apply Forall_app in HwA as [HA Hp]. inversion Hp; subst. apply Forall_app; split; [exact HA|]. constructor; [assumption|]. constructor; assumption.
  - apply ends_free_app; [discriminate|]. cbn [ends_free]. destruct B as [|b B']; [congruence|]. exact Hend.
  - exact Hg.
Qed.

Lemma ends_free_app_inv : forall A B, B <> [] -> ends_free (A ++ B) -> ends_free B.
Proof.
  induction A as [|a A IH]; intros B HB H; [exact H|]. cbn [app] in H.
  destruct (A ++ B) as [|z zs] eqn:E; [destruct A; cbn [app] in E; [congruence|discriminate]|]. change (ends_free (z :: zs)) in H. rewrite <- E in H. apply IH; assumption.
Qed.

(* by position, with the capacity part of the goal: the whole verdict of GoalContext::evaluate on activity level *)
Theorem rt1_insertion_sound_physical : forall dur s e d v t idx target,
  (forall f t, 0 <= dur f t) -> 0 <= e -> 0 <= d -> e + d < INF ->
  let durD := durD_rt (idur dur) (rt1 s e d) 0 in let durA := durA_rt (idur dur) (rt1 s e d) 0 in
  let edep := edep_rt (rt1 s e d) 0 in let earr := earr_rt (rt1 s e d) 0 in
  (S idx < length t)%nat -> sched_ok_gt durD edep t -> R1 e d (a_dep (hd target t)) ->
  Forall (WF1 e d) (tl t) -> WF1 e d target -> ends_free (tl t) -> fin_latest durA earr (skipn (S idx) t) ->
  d_change (a_dem (hd target t)) = 0 -> simple_demand (a_dem target) ->
  time_feasible_g durD edep t = true -> load_feasible (v_cap v) t = true ->
  eval_activity_g durD durA edep earr v t idx target = None ->
  feasible_t (idur dur) [(e, d)] v (insert_after t idx target) = true.
Proof.
  intros dur s e d v t idx target Hdn He Hd Hfin durD durA edep earr Hidx Hs Rs Hwf Hwt Hend Hfl Hst Hdem Hft Hld Hev.
  unfold eval_activity_g in Hev.
  destruct (eval_time_g durD durA edep earr v (nth idx t target) target (skipn (S idx) t)) eqn:ET; [discriminate|].
  destruct (eval_cap v t idx target) eqn:EC; [discriminate|]. clear Hev.
  unfold feasible_t. apply andb_true_iff; split; [|apply load_insert_sound; try assumption; lia].
  pose proof (rt1_eval_sound_idx dur s e d Hdn He Hd Hfin v t idx target Hidx Hs Rs Hwf Hwt Hfl Hft ET) as Hg.
  destruct t as [|s0 r]; [cbn in Hidx; lia|]. cbn [hd tl] in *.
  assert (Hlen : (idx < length r)%nat) by (cbn [length] in Hidx; lia).
  assert (Ei : insert_after (s0 :: r) idx target = s0 :: (firstn idx r ++ target :: skipn idx r)) by reflexivity.
  rewrite Ei in Hg |- *. cbn [time_feasible_g time_feasible_t] in *.
  assert (Hsk : skipn idx r <> []).
  { intros E. pose proof (firstn_skipn idx r) as F. rewrite E, app_nil_r in F. apply (f_equal (@length act)) in F.
    rewrite firstn_length in F. lia. }
  apply (rt1_forward_physical dur s e d Hdn He Hd Hfin _ (a_loc s0) (a_dep s0) (a_dep s0) Rs (or_introl eq_refl)).
  - rewrite <- (firstn_skipn idx r) in Hwf. apply Forall_app in Hwf as [Ha Hb]. apply Forall_app; split; [exact Ha|constructor; assumption].
  - apply ends_free_app; [discriminate|]. rewrite <- (firstn_skipn idx r) in Hend. apply ends_free_app_inv in Hend; [|exact Hsk].
    cbn [ends_free]. destruct (skipn idx r) as [|z zs]; [congruence|exact Hend].
  - exact Hg.
Qed.

(* ================= witnesses on the modelled providers (tworld), replayed on the real code by corpus/C06/c06_time ================= *)
Definition rtw_world (closed_end : option Z) (se : Z) (spans : list rspan) : tworld :=
  mkTW (mkWorld 3 [0; 13; 5;  13; 0; 15;  5; 15; 0] [0; 13; 5;  13; 0; 15;  5; 15; 0] (mkVeh se 10 0 1 0 0 0) 0 closed_end 0)
       (rt_create false spans) [].
Definition tw_accepts (x : tworld) (t : list act) (idx : nat) (a : act) : bool :=
  match eval_activity_g (tw_durD x) (tw_durA x) (tw_edep x) (tw_earr x) (w_veh (tw_w x)) t idx a with None => true | Some _ => false end.

(* F5, first form: the reserved time [8, 48) is running when the window of the new stop opens at 15; the service could start at 48,
   after the window has closed at 46: estimate_departure answers Float::MAX, and MAX > MAX is false for the unbounded latest arrival
   of the next stop: accepted, the refreshed schedule holds f64::MAX *)
Theorem rt_unbounded_next_unsound_witness :
  let x := rtw_world None INF [mkRS 0 8 40] in
  let t := build_tour_t x [(1, 1, 0, 0, INF, dzero)] in
  let a := mkAct 9 0 12 15 46 dzero 0 0 in
  tw_feasible x t = true /\ tw_accepts x t 0 a = true /\ tw_feasible x (insert_after t 0 a) = false /\
  sched_out (reschedule_g (tw_durD x) (tw_edep x) (insert_after t 0 a)) = [(0, 0); (0, INF); (INF, INF)] /\
  times_t (tw_idur x) (tw_breaks x) 0 0 (tl (insert_after t 0 a)) = [(0, 48, 60); (73, 73, 73)].
Proof. vm_compute. repeat split; reflexivity. Qed.

(* F5, second form: the new stop is the LAST one of an open tour - estimate_departure is not asked at all *)
Theorem rt_open_end_unsound_witness :
  let x := rtw_world None INF [mkRS 0 8 10] in
  let t := build_tour_t x [] in
  let a := mkAct 9 2 0 10 15 dzero 0 0 in
  tw_feasible x t = true /\ tw_accepts x t 0 a = true /\ tw_feasible x (insert_after t 0 a) = false /\
  sched_out (reschedule_g (tw_durD x) (tw_edep x) (insert_after t 0 a)) = [(0, 0); (5, INF)] /\
  times_t (tw_idur x) (tw_breaks x) 0 0 (tl (insert_after t 0 a)) = [(5, 18, 18)].
Proof. vm_compute. repeat split; reflexivity. Qed.

(* F6: two reserved times [7, 12) and [32, 72) fall into one waiting period; the lookup answers the first one only *)
Theorem rt_two_breaks_unsound_witness :
  let x := rtw_world (Some 0) 406 [mkRS 7 7 5; mkRS 32 32 40] in
  let t := build_tour_t x [] in
  let a := mkAct 9 0 0 40 56 dzero 0 0 in
  tw_feasible x t = true /\ tw_accepts x t 0 a = true /\ tw_feasible x (insert_after t 0 a) = false /\
  sched_out (reschedule_g (tw_durD x) (tw_edep x) (insert_after t 0 a)) = [(0, 0); (0, 40); (80, 80)] /\
  times_t (tw_idur x) (tw_breaks x) 0 0 (tl (insert_after t 0 a)) = [(0, 72, 72); (72, 72, 72)].
Proof. vm_compute. repeat split; reflexivity. Qed.

(* the cached latest arrival is only CONSERVATIVE with a reserved time: stop 1 may be left at 85 (arrival at the depot at 95, exactly
   when the reserved time [95, 105) begins, shift end 100), the cached value allows 80 only.  No finding: required breaks are not
   among the constraints the completeness clause of the property lists *)
Theorem rt_latest_conservative_witness :
  let x := rtw_world (Some 0) 100 [mkRS 90 95 10] in
  let t := build_tour_t x [(1, 1, 0, 0, INF, dzero)] in
  latest_states_g (tw_durA x) (tw_earr x) t = [0; 77] /\
  sim_g (tw_durD x) (tw_edep x) 1 82 (skipn 2 t) = true /\
  sim_t (tw_idur x) (tw_breaks x) 1 82 (skipn 2 t) = true /\
  fwd (tw_durD x) 1 0 82 = 95.
Proof. vm_compute. repeat split; reflexivity. Qed.

(* the tie excluded by WF1: stop 1 (window [20, 25], no service) is reached exactly at 20 = begin of the reserved time [20, 30):
   accepted (its cached latest arrival is 20), the refreshed schedule answers Float::MAX for its departure; the physical simulation
   finds the tour feasible (the stop is over at 20, the reserved time is taken on the way back) *)
Theorem rt_tie_witness :
  let x := rtw_world (Some 0) 1000 [mkRS 20 20 10] in
  let t := build_tour_t x [(1, 1, 0, 20, 25, dzero)] in
  let a := mkAct 9 2 0 0 INF dzero 0 0 in
  latest_states_g (tw_durA x) (tw_earr x) t = [0; 20] /\ tw_accepts x t 0 a = true /\
  tw_feasible x (insert_after t 0 a) = true /\
  sched_out (reschedule_g (tw_durD x) (tw_edep x) (insert_after t 0 a)) = [(0, 0); (5, 5); (20, INF); (INF, INF)].
Proof. vm_compute. repeat split; reflexivity. Qed.

(* non-vacuity of the premises of rt1_insertion_sound_physical: a closed tour, the reserved time [60, 70), the candidate is accepted
   at the first leg with its service interrupted by the reserved time (reached at 5, window opens at 55, service 55 .. 73 with the
   break 60 .. 70 inside) *)
Definition nv_rt_world : tworld := rtw_world (Some 0) 1000 [mkRS 50 60 10].
Definition nv_rt_tour : list act := build_tour_t nv_rt_world [(1, 1, 5, 0, 500, dzero)].
Definition nv_rt_target : act := mkAct 9 2 8 55 200 dzero 0 0.

Theorem rt_nonvacuous :
  let dur := wdur (tw_w nv_rt_world) in
  let durD := durD_rt (idur dur) (rt1 50 60 10) 0 in let durA := durA_rt (idur dur) (rt1 50 60 10) 0 in
  let edep := edep_rt (rt1 50 60 10) 0 in let earr := earr_rt (rt1 50 60 10) 0 in
  let t := nv_rt_tour in let target := nv_rt_target in
  (forall f t, 0 <= dur f t) /\ (S 0 < length t)%nat /\ sched_ok_gt durD edep t /\ R1 60 10 (a_dep (hd target t)) /\
  Forall (WF1 60 10) (tl t) /\ WF1 60 10 target /\ ends_free (tl t) /\ fin_latest durA earr (skipn 1 t) /\
  d_change (a_dem (hd target t)) = 0 /\ simple_demand (a_dem target) /\
  time_feasible_g durD edep t = true /\ load_feasible (v_cap (w_veh (tw_w nv_rt_world))) t = true /\
  eval_activity_g durD durA edep earr (w_veh (tw_w nv_rt_world)) t 0 target = None /\
  sched_out (reschedule_g durD edep (insert_after t 0 target)) = [(0, 0); (5, 73); (88, 93); (106, 106)].
Proof.
  cbv zeta. split.
  { intros f t. unfold wdur, mat. cbn [tw_w nv_rt_world rtw_world w_n w_dur].
    assert (H : Forall (fun x => 0 <= x) [0; 13; 5; 13; 0; 15; 5; 15; 0]) by (repeat constructor; lia).
    destruct (Nat.lt_ge_cases (Z.to_nat (f * 3 + t)) (length [0; 13; 5; 13; 0; 15; 5; 15; 0])) as [Hl|Hl].
    - rewrite Forall_forall in H. apply H. apply nth_In. exact Hl.
    - rewrite nth_overflow by exact Hl. lia. }
  split; [vm_compute; lia|].
  split; [vm_compute; repeat split; reflexivity|].
  split; [vm_compute; repeat split; try discriminate; left; discriminate|].
  split; [repeat constructor; vm_compute; repeat split; try discriminate; intros; discriminate|].
  split; [vm_compute; repeat split; try discriminate; intros; discriminate|].
  split; [vm_compute; discriminate|].
  split; [vm_compute; repeat split; reflexivity|].
  split; [reflexivity|].
  split; [unfold simple_demand; vm_compute; repeat split; try discriminate; left; split; reflexivity|].
  vm_compute. repeat split; reflexivity.
Qed.

(* an Offset span is the Window span shifted by the tour's departure: the theorems above cover both kinds *)
Theorem rt_fn_offset_shift : forall s e d off a b,
  0 <= e -> 0 <= off -> off <= a -> a < INF -> b < INF ->
  rt_fn (mkRT true [mkRS s e d]) off a b = rt_fn (mkRT false [mkRS (s + off) (e + off) d]) 0 a b.
Proof.
  intros s e d off a b He Hoff Ha Hai Hbi. unfold rt_fn, to_u64. cbn [rt_spans rt_is_offset map bsearch rs_e rs_d rs_s].
  rewrite !subI_fin by lia. replace (a - 0) with a by lia. replace (b - 0) with b by lia.
  repeat (bdestruct_all; cbn [nth_error Nat.max Nat.sub rs_e rs_d rs_s andb orb]);
    try (exfalso; lia); rewrite ?Z.add_0_r; reflexivity.
Qed.
