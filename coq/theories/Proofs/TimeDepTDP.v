(* C06, time-dependent routing: the generic soundness theorem of Proofs/TimeDepP.v instantiated with a duration function of the
   departure time that the code ALSO uses for its TravelTime::Arrival look-ups (TimeAwareMatrixTransportCost::interpolate_duration
   takes the timestamp as it is), SimpleActivityCost.  Hypotheses: FIFO and "the look-up at the arrival time does not under-
   estimate" (ARRC); exactness of the cached latest arrival under the converse (INV).  Witnesses: without FIFO; with FIFO but
   durations that decrease in time (finding C06-F7); exactness fails for increasing durations (conservative, no finding). *)
From VRP Require Import Base.Tac Model.Core Spec.Feasible Model.Eval Model.Limits Model.TimeDep Spec.FeasibleT Proofs.CoreEvalP Proofs.TimeDepP.

Section TD.
Variable dur : Z -> Z -> Z -> Z.
Hypothesis dur_nonneg : forall f t x, 0 <= dur f t x.
(* FIFO: leaving later never means arriving earlier *)
Hypothesis FIFO : forall f t x y, x <= y -> x + dur f t x <= y + dur f t y.
(* the duration found at the ARRIVAL time L is not smaller than the duration of the departure it is used to compute *)
Hypothesis ARRC : forall f t L, (L - dur f t L) + dur f t (L - dur f t L) <= L.

Definition Rtd (x : Z) : Prop := x < INF.

Lemma td_fifo : forall f t x y, Rtd x -> Rtd y -> x <= y -> fwd dur f t x <= fwd dur f t y.
Proof. intros f t x y Hx Hy Hxy. unfold fwd, Rtd in *. rewrite !addI_fin by assumption. apply FIFO. exact Hxy. Qed.
Lemma td_reach_travel : forall f t x, Rtd x -> fwd dur f t x < INF -> Rtd (fwd dur f t x).
Proof. intros. assumption. Qed.
Lemma td_back_travel : forall f t x L, Rtd x -> L < INF -> x <= L - dur f t L -> fwd dur f t x <= L.
Proof.
  intros f t x L Hx HL Hle. unfold fwd, Rtd in *. rewrite addI_fin by assumption.
  pose proof (FIFO f t x (L - dur f t L) Hle). pose proof (ARRC f t L). lia.
Qed.

Lemma edep_simple_fin : forall a x, edep_simple a x < INF -> Z.max x (a_tws a) < INF /\ edep_simple a x = Z.max x (a_tws a) + a_svc a.
Proof.
  intros a x H. unfold edep_simple in *. pose proof (addI_lt_inf _ _ H) as Hm. split; [exact Hm|]. apply addI_fin. exact Hm.
Qed.

Lemma td_mono_stop : forall a x y, wf_act a -> Rtd x -> Rtd y -> x <= y -> y <= a_twe a -> edep_simple a y < INF -> edep_simple a x <= edep_simple a y.
Proof.
  intros a x y _ _ _ Hxy _ Hy. destruct (edep_simple_fin a y Hy) as [Hm Ey]. rewrite Ey.
  unfold edep_simple. rewrite addI_fin by lia. lia.
Qed.
Lemma td_reach_stop : forall a x, wf_act a -> Rtd x -> x <= a_twe a -> edep_simple a x < INF -> Rtd (edep_simple a x).
Proof. intros. assumption. Qed.
Lemma td_back_stop : forall a x y0 Ld, wf_act a -> Rtd x -> Rtd y0 -> y0 <= a_twe a -> edep_simple a y0 < INF -> Ld < INF ->
  x <= earr_simple a Ld -> edep_simple a x <= Ld \/
  (edep_simple a x < INF /\ forall f t, fwd dur f t (edep_simple a x) <= fwd dur f t (edep_simple a y0)).
Proof.
  intros a x y0 Ld _ Hx _ _ Hy0 HLd Hle. destruct (edep_simple_fin a y0 Hy0) as [Hm Ey]. unfold Rtd in Hx.
  unfold earr_simple in Hle. rewrite subI_fin in Hle by assumption.
  assert (Ex : edep_simple a x = Z.max x (a_tws a) + a_svc a) by (unfold edep_simple; apply addI_fin; lia).
  destruct (Z.le_gt_cases (a_tws a) x) as [Hc|Hc]; [left; rewrite Ex; lia|right].
  assert (Hle2 : edep_simple a x <= edep_simple a y0) by (rewrite Ex, Ey; lia).
  split; [lia|]. intros f t. apply td_fifo; unfold Rtd; lia.
Qed.
Lemma td_earr_window : forall a Ld, wf_act a -> earr_simple a Ld <= a_twe a.
Proof. intros. unfold earr_simple. lia. Qed.
Lemma td_edep_inf : forall a x, wf_act a -> edep_simple a x < INF -> x < INF.
Proof. intros a x _ H. destruct (edep_simple_fin a x H). lia. Qed.

(* SOUNDNESS under FIFO + ARRC: the accepted activity keeps the tail feasible for the forward pass with departure-time look-ups *)
Theorem td_eval_sound : forall v prev target nexts,
  a_dep prev < INF -> wf_act target -> Forall wf_act nexts -> fin_latest dur earr_simple nexts ->
  sim_g dur edep_simple (a_loc prev) (a_dep prev) nexts = true ->
  eval_time_g dur dur edep_simple earr_simple v prev target nexts = None ->
  sim_g dur edep_simple (a_loc prev) (a_dep prev) (target :: nexts) = true.
Proof.
  intros v prev target nexts Hp. apply (eval_time_g_sound dur dur edep_simple earr_simple Rtd wf_act); try exact Hp;
  first [ exact (fun x (H : Rtd x) => H) | exact td_fifo | exact td_reach_travel | exact dur_nonneg | exact td_back_travel
          | exact td_mono_stop | exact td_reach_stop | exact td_back_stop | exact td_earr_window | exact td_edep_inf ].
Qed.

(* the cached latest arrival is sound ... *)
Theorem td_latest_sound : forall r a loc0 dep0,
  dep0 < INF -> sim_g dur edep_simple loc0 dep0 (a :: r) = true -> Forall wf_act (a :: r) -> fin_latest dur earr_simple (a :: r) ->
  forall loc x, x < INF -> fwd dur loc (a_loc a) x <= latest_g dur earr_simple (a :: r) -> sim_g dur edep_simple loc x (a :: r) = true.
Proof.
  intros r a loc0 dep0 H0. apply (latest_g_sound dur dur edep_simple earr_simple Rtd wf_act); try exact H0;
  first [ exact (fun x (H : Rtd x) => H) | exact td_fifo | exact td_reach_travel | exact dur_nonneg | exact td_back_travel
          | exact td_mono_stop | exact td_reach_stop | exact td_back_stop | exact td_earr_window | exact td_edep_inf ].
Qed.

(* ---- by position, against the specification's walk (Spec/FeasibleT.v without breaks: travel times of the departure instant) ---- *)
Lemma td_forward_spec : forall acts loc x,
  Forall wf_act acts -> sim_g dur edep_simple loc x acts = true -> x < INF -> sim_t dur [] loc x acts = true.
Proof.
  induction acts as [|a r IH]; intros loc x Hwf H Hx; [reflexivity|].
  inversion Hwf as [|? ? Hwa Hwr]; subst. unfold wf_act in Hwa.
  cbn [sim_g] in H. apply andb_true_iff in H as [H1 H2]. apply Z.leb_le in H1.
  unfold fwd in *. rewrite addI_fin in * by assumption.
  cbn [sim_t work]. unfold wait_until. cbn [wait_from].
  assert (Est : (if a_tws a <=? x + dur loc (a_loc a) x then x + dur loc (a_loc a) x else a_tws a) = Z.max (x + dur loc (a_loc a) x) (a_tws a)).
  { destruct (a_tws a <=? x + dur loc (a_loc a) x) eqn:E; [apply Z.leb_le in E|apply Z.leb_gt in E]; lia. }
  rewrite Est. apply andb_true_iff; split; [apply andb_true_iff; split; apply Z.leb_le; lia|].
  destruct r as [|b r']; [reflexivity|].
  apply andb_true_iff in H2 as [H2 H4]. apply andb_true_iff in H2 as [H2 H3]. apply Z.ltb_lt in H2. apply Z.ltb_lt in H3.
  destruct (edep_simple_fin a _ H3) as [Hm Ee]. rewrite Ee in H4.
  apply (IH _ _ Hwr H4). lia.
Qed.

Theorem td_insertion_sound : forall v t idx target,
  (S idx < length t)%nat -> sched_ok_gt dur edep_simple t -> a_dep (hd target t) < INF ->
  Forall wf_act (tl t) -> wf_act target -> fin_latest dur earr_simple (skipn (S idx) t) ->
  d_change (a_dem (hd target t)) = 0 -> simple_demand (a_dem target) ->
  time_feasible_g dur edep_simple t = true -> load_feasible (v_cap v) t = true ->
  eval_activity_g dur dur edep_simple earr_simple v t idx target = None ->
  feasible_t dur [] v (insert_after t idx target) = true.
Proof.
  intros v t idx target Hidx Hs Hd Hwf Hwt Hfin Hst Hdem Hft Hfl He.
  unfold eval_activity_g in He.
  destruct (eval_time_g dur dur edep_simple earr_simple v (nth idx t target) target (skipn (S idx) t)) eqn:ET; [discriminate|].
  destruct (eval_cap v t idx target) eqn:EC; [discriminate|]. clear He.
  unfold feasible_t. apply andb_true_iff; split.
  - pose proof (eval_time_g_sound_idx dur dur edep_simple earr_simple Rtd wf_act
                  (fun x (H : Rtd x) => H) td_fifo td_reach_travel dur_nonneg td_back_travel td_mono_stop td_reach_stop td_back_stop
                  td_earr_window td_edep_inf (fun a arr d x => eq_refl) v t idx target Hidx Hs Hd Hwf Hwt Hfin Hft ET) as Hg.
    assert (Hne : insert_after t idx target = hd target t :: tl (insert_after t idx target) /\
                  Forall wf_act (tl (insert_after t idx target))).
    { destruct t as [|s r]; [cbn in Hidx; lia|]. unfold insert_after. cbn [firstn app hd tl]. split; [reflexivity|].
      cbn [tl] in Hwf. cbn [skipn]. rewrite <- (firstn_skipn idx r) in Hwf. apply Forall_app in Hwf as [Ha Hb].
      apply Forall_app; split; [exact Ha|constructor; assumption]. }
    destruct Hne as [E Hw']. rewrite E in Hg |- *. cbn [time_feasible_g time_feasible_t] in *.
    apply td_forward_spec; assumption.
  - apply load_insert_sound; try assumption. lia.
Qed.

(* ... and EXACT when, conversely, a departure that arrives by L is not later than L minus the duration found at L *)
Hypothesis INV : forall f t x L, x + dur f t x <= L -> x <= L - dur f t L.

Lemma td_latest_complete : forall r a loc x,
  x < INF -> fin_latest dur earr_simple (a :: r) -> sim_g dur edep_simple loc x (a :: r) = true ->
  fwd dur loc (a_loc a) x <= latest_g dur earr_simple (a :: r).
Proof.
  induction r as [|b r IH]; intros a loc x Hx Hfin H.
  - cbn [sim_g latest_g] in *. rewrite andb_true_r in H. apply Z.leb_le in H. exact H.
  - destruct Hfin as [Hfa Hfb]. pose proof Hfb as Hfb'. destruct Hfb' as [HLb _].
    change (latest_g dur earr_simple (a :: b :: r)) with
      (let end_time := latest_g dur earr_simple (b :: r) in
       if INF <=? end_time then a_twe a else earr_simple a (end_time - dur (a_loc a) (a_loc b) end_time)).
    cbv zeta. destruct (INF <=? latest_g dur earr_simple (b :: r)) eqn:EL; [apply Z.leb_le in EL; lia|].
    set (Lb := latest_g dur earr_simple (b :: r)) in *.
    change (sim_g dur edep_simple loc x (a :: b :: r)) with
      ((fwd dur loc (a_loc a) x <=? a_twe a) &&
       ((fwd dur loc (a_loc a) x <? INF) && (edep_simple a (fwd dur loc (a_loc a) x) <? INF) &&
        sim_g dur edep_simple (a_loc a) (edep_simple a (fwd dur loc (a_loc a) x)) (b :: r))) in H.
    apply andb_true_iff in H as [H1 H2]. apply andb_true_iff in H2 as [H2 H4]. apply andb_true_iff in H2 as [H2 H3].
    apply Z.leb_le in H1. apply Z.ltb_lt in H2. apply Z.ltb_lt in H3.
    set (arr := fwd dur loc (a_loc a) x) in *.
    pose proof (IH b (a_loc a) (edep_simple a arr) H3 Hfb H4) as Hb. fold Lb in Hb.
    unfold fwd in Hb. rewrite addI_fin in Hb by assumption.
    apply INV in Hb. destruct (edep_simple_fin a arr H3) as [Hm Ee]. rewrite Ee in Hb.
    pose proof (dur_nonneg (a_loc a) (a_loc b) Lb).
    unfold earr_simple. rewrite subI_fin by lia. lia.
Qed.

Theorem td_latest_exact : forall r a loc0 dep0,
  dep0 < INF -> sim_g dur edep_simple loc0 dep0 (a :: r) = true -> Forall wf_act (a :: r) -> fin_latest dur earr_simple (a :: r) ->
  forall loc x, x < INF ->
    (sim_g dur edep_simple loc x (a :: r) = true <-> fwd dur loc (a_loc a) x <= latest_g dur earr_simple (a :: r)).
Proof.
  intros r a loc0 dep0 H0 Hs Hw Hf loc x Hx. split.
  - intros H. apply td_latest_complete; assumption.
  - intros H. apply (td_latest_sound r a loc0 dep0); assumption.
Qed.

End TD.

(* a duration function that does not depend on the time satisfies FIFO, ARRC and INV: the time-independent case is an instance *)
Lemma const_dur_hyps : forall (d : Z -> Z -> Z),
  (forall f t x y, x <= y -> x + d f t <= y + d f t) /\ (forall f t (L : Z), (L - d f t) + d f t <= L) /\
  (forall f t x L, x + d f t <= L -> x <= L - d f t).
Proof. intros d. repeat split; intros; lia. Qed.

(* non-decreasing durations satisfy FIFO and ARRC (so the evaluator is sound for them), but not INV in general *)
Lemma nondecreasing_dur_hyps : forall (dur : Z -> Z -> Z -> Z),
  (forall f t x, 0 <= dur f t x) -> (forall f t x y, x <= y -> dur f t x <= dur f t y) ->
  (forall f t x y, x <= y -> x + dur f t x <= y + dur f t y) /\ (forall f t L, (L - dur f t L) + dur f t (L - dur f t L) <= L).
Proof.
  intros dur Hn Hm. split.
  - intros f t x y H. pose proof (Hm f t x y H). lia.
  - intros f t L. pose proof (Hn f t L). pose proof (Hm f t (L - dur f t L) L ltac:(lia)). lia.
Qed.

(* ================= witnesses on the modelled TimeAwareMatrixTransportCost ================= *)
(* three locations + the candidate's: 0 depot, 1 = A, 2 = B, 3 = X; only the leg A -> B depends on the time *)
Definition tdw_mat (ab : Z) (s3a : Z) : list Z :=
  (*        to: 0    1    2    3 *)
  [ (* 0 *) 0;   10;  99;  10;
    (* 1 *) 10;  0;   ab;  10;
    (* 2 *) 10;  99;  0;   99;
    (* 3 *) 10;  s3a; 99;  0 ].
Definition tdw_world (ms : list tdm) : tworld :=
  mkTW (mkWorld 4 (tdw_mat 0 0) (tdw_mat 0 0) (mkVeh 1000 10 0 1 0 0 0) 0 (Some 0) 0) None ms.

(* (1) FIFO holds (the duration of A -> B falls by 1/2 per time unit between the timestamps 0 and 32: 42 -> 26), but the look-up
   at the ARRIVAL time 50 finds 26 and lets A be left at 24, from where the leg takes 30: finding C06-F7 *)
Definition tdw_fifo : tworld := tdw_world [mkTD 0 (tdw_mat 42 14) (tdw_mat 42 14); mkTD 32 (tdw_mat 26 14) (tdw_mat 26 14)].
Definition tdw_tour (x : tworld) : list act := build_tour_t x [(1, 1, 0, 0, INF, dzero); (2, 2, 0, 0, 50, dzero)].
Definition tdw_X : act := mkAct 9 3 0 0 INF dzero 0 0.

Theorem td_decreasing_unsound_witness :
  let x := tdw_fifo in let t := tdw_tour x in
  tw_feasible x t = true /\
  eval_activity_g (tw_durD x) (tw_durA x) (tw_edep x) (tw_earr x) (w_veh (tw_w x)) t 0 tdw_X = None /\
  tw_feasible x (insert_after t 0 tdw_X) = false /\
  sched_out (reschedule_g (tw_durD x) (tw_edep x) (insert_after t 0 tdw_X)) = [(0, 0); (10, 10); (24, 24); (54, 54); (64, 64)].
Proof. vm_compute. repeat split; reflexivity. Qed.

(* the interpolated leg of that witness is FIFO on the (even) instants the example visits: slope -1/2 *)
Definition fifo_on (d : Z -> Z) (pts : list Z) : bool :=
  forallb (fun p => forallb (fun q => (q <? p) || (p + d p <=? q + d q)) pts) pts.
Lemma tdw_fifo_leg : fifo_on (tw_idur tdw_fifo 1 2) (map (fun k => 2 * Z.of_nat k) (seq 0 41)) = true.
Proof. vm_compute. reflexivity. Qed.

(* (2) without FIFO: the duration of A -> B falls by 2 per time unit (60 -> 28 between 0 and 16); the route over X reaches A
   EARLIER than the direct way (10 instead of 14: the static legs are not metric), A is left at 4 instead of 14 and B is reached at
   56 instead of 46: the evaluator only checks that A is reached by its cached latest arrival *)
Definition tdw_nonfifo : tworld :=
  mkTW (mkWorld 4 (tdw_mat 0 0) (tdw_mat 0 0) (mkVeh 1000 10 0 1 0 0 0) 0 (Some 0) 0) None
       [mkTD 0 [0; 14; 99; 2;  10; 0; 60; 10;  10; 99; 0; 99;  10; 2; 99; 0] (tdw_mat 60 2);
        mkTD 16 [0; 14; 99; 2;  10; 0; 28; 10;  10; 99; 0; 99;  10; 2; 99; 0] (tdw_mat 28 2)].

Theorem td_nonfifo_unsound_witness :
  let x := tdw_nonfifo in let t := tdw_tour x in
  tw_feasible x t = true /\
  eval_activity_g (tw_durD x) (tw_durA x) (tw_edep x) (tw_earr x) (w_veh (tw_w x)) t 0 tdw_X = None /\
  tw_feasible x (insert_after t 0 tdw_X) = false /\
  sched_out t = [(0, 0); (14, 14); (46, 46); (56, 56)] /\
  sched_out (reschedule_g (tw_durD x) (tw_edep x) (insert_after t 0 tdw_X)) = [(0, 0); (2, 2); (4, 4); (56, 56); (66, 66)] /\
  (* TimeAwareMatrixTransportCost on legal input violates FIFO: leaving A at 0 arrives at 60, leaving at 16 arrives at 44 *)
  0 + tw_idur x 1 2 0 = 60 /\ 16 + tw_idur x 1 2 16 = 44.
Proof. vm_compute. repeat split; reflexivity. Qed.

(* (3) exactness of the cached latest arrival fails for INCREASING durations (10 -> 42 between 0 and 32): the look-up at the arrival
   time 50 finds 42 and allows A to be left by 8, although leaving at 20 (duration 30) still arrives in time: only conservative *)
Definition tdw_incr : tworld := tdw_world [mkTD 0 (tdw_mat 10 14) (tdw_mat 10 14); mkTD 32 (tdw_mat 42 14) (tdw_mat 42 14)].
Theorem td_latest_conservative_witness :
  let x := tdw_incr in let t := tdw_tour x in
  latest_states_g (tw_durA x) (tw_earr x) t = [0; 8; 50] /\
  fwd (tw_durD x) 1 2 20 = 50 /\
  sim_g (tw_durD x) (tw_edep x) 1 20 (skipn 2 t) = true.
Proof. vm_compute. repeat split; reflexivity. Qed.

(* non-vacuity of the premises of td_insertion_sound: every leg takes 10 until time 10, then one unit more per unit of time up to 20
   (non-decreasing, hence FIFO + ARRC); a closed tour with one stop, the candidate accepted at the first leg *)
Definition ramp (_f _t x : Z) : Z := 10 + Z.min 10 (Z.max 0 (x - 10)).
Definition nv_td_tour : list act :=
  reschedule_g ramp edep_simple [mkAct (-1) 0 0 0 0 dzero 0 0; mkAct 1 1 2 0 100 dzero 0 0; mkAct (-1) 0 0 0 200 dzero 0 0].
Definition nv_td_target : act := mkAct 9 2 1 0 100 dzero 0 0.
Definition nv_td_veh : vehicle := mkVeh 200 10 0 1 0 0 0.

Theorem td_nonvacuous :
  (forall f t x, 0 <= ramp f t x) /\ (forall f t x y, x <= y -> x + ramp f t x <= y + ramp f t y) /\
  (forall f t L, (L - ramp f t L) + ramp f t (L - ramp f t L) <= L) /\
  ramp 0 1 0 <> ramp 0 1 30 /\
  let t := nv_td_tour in let target := nv_td_target in
  (S 0 < length t)%nat /\ sched_ok_gt ramp edep_simple t /\ a_dep (hd target t) < INF /\ Forall wf_act (tl t) /\ wf_act target /\
  fin_latest ramp earr_simple (skipn 1 t) /\ d_change (a_dem (hd target t)) = 0 /\ simple_demand (a_dem target) /\
  time_feasible_g ramp edep_simple t = true /\ load_feasible (v_cap nv_td_veh) t = true /\
  eval_activity_g ramp ramp edep_simple earr_simple nv_td_veh t 0 target = None /\
  sched_out (reschedule_g ramp edep_simple (insert_after t 0 target)) = [(0, 0); (10, 11); (22, 24); (44, 44)].
Proof.
  assert (Hn : forall f t x, 0 <= ramp f t x) by (intros; unfold ramp; lia).
  assert (Hm : forall f t x y, x <= y -> ramp f t x <= ramp f t y) by (intros; unfold ramp; lia).
  destruct (nondecreasing_dur_hyps ramp Hn Hm) as [Hf Ha].
  split; [exact Hn|]. split; [exact Hf|]. split; [exact Ha|]. split; [vm_compute; discriminate|].
  cbv zeta.
  split; [vm_compute; lia|].
  split; [vm_compute; repeat split; reflexivity|].
  split; [vm_compute; reflexivity|].
  split; [repeat constructor; vm_compute; discriminate|].
  split; [vm_compute; discriminate|].
  split; [vm_compute; repeat split; reflexivity|].
  split; [reflexivity|].
  split; [unfold simple_demand; vm_compute; repeat split; try discriminate; left; split; reflexivity|].
  vm_compute. repeat split; reflexivity.
Qed.
