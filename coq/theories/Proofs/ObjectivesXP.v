(* C20, widened: proofs about Model/ObjectivesX.v — (A) the cost objective with driver costs, (B) invariants of the modelled search
   (eval_single / eval_multi): the quote is the route-level estimate + the sum of the activity-level estimates of exactly the inserted
   activities on their shadow tours, every inserted activity is a declared place / window of its sub-job and is accepted by the
   constraint evaluation; (C) termination of the loops, the entry point eval_jobx: quote = realised change. *)
From VRP Require Import Base.Tac Model.Core Spec.Feasible Model.Eval Model.Objectives Model.ObjectivesX Proofs.CoreTimeP Proofs.CoreEvalP Proofs.CoreMultiP Proofs.ObjectivesP.

(* ================= (A) driver costs ================= *)
Section DriverP.
Variable dur dist : Z -> Z -> Z.
Variable v : vehicle.
Variable d : dcosts.

Definition uniform_v : Prop := v_ptime v = v_psvc v /\ v_psvc v = v_pwait v.
Definition uniform_d : Prop := dc_ptime d = dc_psvc d /\ dc_psvc d = dc_pwait d.

Lemma Forall_skipn_ : forall {A} (P : A -> Prop) n (l : list A), Forall P l -> Forall P (skipn n l).
Proof. intros A P n l H. rewrite <- (firstn_skipn n l) in H. apply Forall_app in H. tauto. Qed.

Lemma nowait_skipn : forall t idx, no_wait t -> Forall nw (skipn (S idx) t).
Proof.
  intros [|s r] idx H; [rewrite skipn_nil; constructor|]. unfold no_wait in H. cbn [tl] in H. cbn [skipn].
  apply Forall_skipn_. exact H.
Qed.

Lemma cea_d_eff : forall t idx x,
  waiting_of (skipn (S idx) t) = 0 ->
  cost_estimate_activity_d dur dist v d t idx x = cost_estimate_activity dur dist (eff_vehicle v d) t idx x.
Proof.
  intros t idx x Hw. unfold cost_estimate_activity_d, cost_estimate_activity, route_leg_d, route_leg, tp_cost_d, tp_cost, act_cost_d, act_cost.
  cbn [eff_vehicle v_pdist v_ptime v_pwait v_psvc].
  destruct (skipn (S idx) t) as [|n r] eqn:E.
  - destruct (negb (has_jobs t)); ring.
  - rewrite Hw. destruct (negb (has_jobs t)); [ring|].
    destruct (is_terminal n);
    match goal with |- context [Z.min 0 ?e] => replace (Z.min 0 e) with 0 by lia end; ring.
Qed.

Lemma fitness_d_eff : forall t, uniform_v -> uniform_d ->
  cost_fitness_d dist v d t = cost_fitness dist (eff_vehicle v d) t.
Proof.
  intros t [Hv1 Hv2] [Hd1 Hd2]. unfold cost_fitness_d, cost_fitness, max3. cbn [eff_vehicle v_fixed v_pdist v_ptime v_pwait v_psvc].
  rewrite <- Hv2, <- Hv1, <- Hd2, <- Hd1. rewrite !Z.max_id. ring.
Qed.

Lemma route_cost_d_eff : forall t, uniform_v -> uniform_d -> route_cost_d dist v d t = route_cost dist (eff_vehicle v d) t.
Proof. intros t Hv Hd. unfold route_cost_d, route_cost. rewrite fitness_d_eff by assumption. reflexivity. Qed.

Lemma cer_d_eff : forall t, cost_estimate_route_d v d t = cost_estimate_route (eff_vehicle v d) t.
Proof. intros t. unfold cost_estimate_route_d, cost_estimate_route. cbn [eff_vehicle v_fixed]. destruct (has_jobs t); lia. Qed.

Theorem cost_quote_exact_nowait_driver : forall t idx x,
  (idx < length t)%nat ->
  sched_ok dur t -> no_wait t -> no_wait (reschedule dur (insert_after t idx x)) ->
  uniform_v -> uniform_d ->
  (has_jobs t = false -> (length t <= 2)%nat /\ idx = 0%nat) ->
  cost_fitness_d dist v d (reschedule dur (insert_after t idx x)) - route_cost_d dist v d t = cost_quote_d dur dist v d t idx x.
Proof.
  intros t idx x Hidx Hs Hn Hn' Hv Hd He.
  rewrite fitness_d_eff, route_cost_d_eff by assumption. unfold cost_quote_d.
  rewrite cer_d_eff. rewrite cea_d_eff. 2:{ apply (waiting_of_nowait dur dist), nowait_skipn. exact Hn. }
  destruct Hv as [Hv1 Hv2]. destruct Hd as [Hd1 Hd2].
  apply (cost_quote_exact_nowait dur dist (eff_vehicle v d) t idx x Hidx Hs Hn Hn'); cbn [eff_vehicle v_ptime v_psvc v_pwait]; try lia; try exact He.
Qed.

(* multi-activity: the sum of the driver-aware activity estimates over the shadow tours *)
Lemma multi_sum_cost_eff : forall steps t,
  shadow_no_wait dur t steps ->
  multi_sum dur (cost_estimate_activity_d dur dist v d) t steps = multi_cost_sum dur dist (eff_vehicle v d) t steps.
Proof.
  induction steps as [|[idx a] r IH]; intros t Hn; cbn [multi_sum multi_cost_sum]; [reflexivity|].
  cbn [shadow_no_wait] in Hn. destruct Hn as [Hn0 Hn1].
  rewrite cea_d_eff by (apply (waiting_of_nowait dur dist), nowait_skipn; exact Hn0). rewrite (IH _ Hn1). reflexivity.
Qed.

Theorem multi_cost_exact_nowait_driver : forall steps t,
  uniform_v -> uniform_d ->
  steps <> [] -> steps_ok dur t steps -> sched_ok dur t -> shadow_no_wait dur t steps ->
  (has_jobs t = false -> (length t <= 2)%nat /\ fst (hd (0%nat, mkAct 0 0 0 0 0 dzero 0 0) steps) = 0%nat) ->
  cost_fitness_d dist v d (apply_steps dur t steps) - route_cost_d dist v d t
  = cost_estimate_route_d v d t + multi_sum dur (cost_estimate_activity_d dur dist v d) t steps.
Proof.
  intros steps t Hv Hd Hne Hok Hs Hn He.
  rewrite fitness_d_eff, route_cost_d_eff, cer_d_eff, multi_sum_cost_eff by assumption.
  destruct Hv as [Hv1 Hv2]. destruct Hd as [Hd1 Hd2].
  apply (multi_cost_exact_nowait dur dist (eff_vehicle v d)); cbn [eff_vehicle v_ptime v_psvc v_pwait]; try lia; assumption.
Qed.
End DriverP.

(* ================= (B) the search ================= *)
Section SearchP.
Variable dur : Z -> Z -> Z.
Variable ev : list act -> nat -> act -> option (Z * bool).
Variable est : list act -> nat -> act -> Z.
Variable closed : bool.

Local Notation gscan_windows := (ObjectivesX.gscan_windows ev est).
Local Notation gscan_places := (ObjectivesX.gscan_places ev est).
Local Notation gscan_legs := (ObjectivesX.gscan_legs ev est).
Local Notation ganalyze := (ObjectivesX.ganalyze ev est closed).
Local Notation m_services := (ObjectivesX.m_services dur ev est closed).
Local Notation m_loop := (ObjectivesX.m_loop dur ev est closed).
Local Notation m_perms := (ObjectivesX.m_perms dur ev est closed).
Local Notation geval_multi := (ObjectivesX.geval_multi dur ev est closed).
Local Notation geval_single := (ObjectivesX.geval_single ev est closed).
Local Notation multi_sum := (ObjectivesX.multi_sum dur est).

(* `a` is a declared alternative (place pi, one of its windows) of job j at leg idx of tour t *)
Definition alt_of (t : list act) (j : single) (idx pi : nat) (a : act) : Prop :=
  exists pl w, nth_error (s_places j) pi = Some pl /\ In w (p_tws pl) /\ a = mk_target j (nth idx t xd0) pl w.

Definition pi_of (p : placed) : nat := fst (fst (fst (fst p))).

Definition sc_inv (t : list act) (j : single) (rc : Z) (lo hi : nat) (c : sctx) : Prop :=
  forall p, sc_place c = Some p ->
    (lo <= sc_index c < hi)%nat /\ alt_of t j (sc_index c) (pi_of p) (act_of_place j p) /\
    ev t (sc_index c) (act_of_place j p) = None /\
    sc_cost c = Some (est t (sc_index c) (act_of_place j p) + rc).

Lemma act_of_place_target : forall j prev pl w pi,
  act_of_place j (pi, a_loc (mk_target j prev pl w), a_svc (mk_target j prev pl w), a_tws (mk_target j prev pl w), a_twe (mk_target j prev pl w))
  = mk_target j prev pl w.
Proof. reflexivity. Qed.

Lemma gscan_windows_inv : forall t j rc lo hi idx pi pl,
  (lo <= idx < hi)%nat -> nth_error (s_places j) pi = Some pl ->
  forall ws c, incl ws (p_tws pl) -> sc_inv t j rc lo hi c ->
  sc_inv t j rc lo hi (fst (gscan_windows t idx j pi pl rc ws c)).
Proof.
  intros t j rc lo hi idx pi pl Hidx Hpl. induction ws as [|w ws IH]; intros c Hin Hc; cbn [ObjectivesX.gscan_windows fst]; [exact Hc|].
  assert (Hw : In w (p_tws pl)) by (apply Hin; left; reflexivity).
  assert (Hin' : incl ws (p_tws pl)) by (intros x Hx; apply Hin; right; exact Hx).
  destruct (ev t idx (mk_target j (nth idx t xd0) pl w)) as [[code stopped]|] eqn:E.
  - assert (Hc' : sc_inv t j rc lo hi (mkSctx (Some (code, stopped)) (sc_index c) (sc_cost c) (sc_place c))) by exact Hc.
    destruct stopped; [exact Hc'|apply IH; assumption].
  - apply IH; [exact Hin'|].
    destruct (match sc_cost c with Some o => est t idx (mk_target j (nth idx t xd0) pl w) + rc <? o | None => true end); [|exact Hc].
    intros p Hp. cbn [sc_place] in Hp. inversion Hp; subst p; clear Hp. cbn [sc_index sc_cost pi_of fst].
    change (act_of_place j (pi, match p_loc pl with Some l => l | None => a_loc (nth idx t xd0) end, p_svc pl, fst w, snd w)) with (mk_target j (nth idx t xd0) pl w). split; [exact Hidx|]. split; [exists pl, w; auto|]. split; [exact E|reflexivity].
Qed.

Lemma gscan_places_inv : forall t j rc lo hi idx, (lo <= idx < hi)%nat ->
  forall ps pi c, (forall k pl, nth_error ps k = Some pl -> nth_error (s_places j) (pi + k) = Some pl) ->
  sc_inv t j rc lo hi c -> sc_inv t j rc lo hi (fst (gscan_places t idx j pi rc ps c)).
Proof.
  intros t j rc lo hi idx Hidx. induction ps as [|pl ps IH]; intros pi c Hps Hc; cbn [ObjectivesX.gscan_places fst]; [exact Hc|].
  assert (Hpl : nth_error (s_places j) pi = Some pl) by (rewrite <- (Nat.add_0_r pi); apply Hps; reflexivity).
  pose proof (gscan_windows_inv t j rc lo hi idx pi pl Hidx Hpl (p_tws pl) c (incl_refl _) Hc) as Hw.
  destruct (gscan_windows t idx j pi pl rc (p_tws pl) c) as [c' stop]. cbn [fst] in Hw.
  destruct stop; [exact Hw|]. apply IH; [|exact Hw].
  intros k pl' Hk. replace (S pi + k)%nat with (pi + S k)%nat by lia. apply Hps. exact Hk.
Qed.

Lemma gscan_legs_inv : forall t j rc lo hi n idx c,
  (lo <= idx)%nat -> (idx + n <= hi)%nat -> sc_inv t j rc lo hi c -> sc_inv t j rc lo hi (gscan_legs t j rc idx n c).
Proof.
  intros t j rc lo hi. induction n as [|n IH]; intros idx c Hlo Hhi Hc; cbn [ObjectivesX.gscan_legs]; [exact Hc|].
  pose proof (gscan_places_inv t j rc lo hi idx ltac:(lia) (s_places j) 0%nat c ltac:(intros k pl H; exact H) Hc) as Hp.
  destruct (gscan_places t idx j 0 rc (s_places j) c) as [c' stop]. cbn [fst] in Hp.
  destruct stop; [exact Hp|]. apply IH; [lia|lia|exact Hp].
Qed.

Lemma ganalyze_inv : forall t j rc skip, sc_inv t j rc skip (leg_count closed t) (ganalyze t j rc skip).
Proof.
  intros t j rc skip. unfold ObjectivesX.ganalyze.
  destruct (Nat.le_gt_cases skip (leg_count closed t)) as [H|H].
  - apply gscan_legs_inv; [lia|lia|]. intros p Hp; discriminate.
  - replace (leg_count closed t - skip)%nat with 0%nat by lia. cbn [ObjectivesX.gscan_legs]. intros p Hp; discriminate.
Qed.

(* ---------- sequences of sub-jobs ---------- *)
Fixpoint steps_valid (t : list act) (services : list single) (steps : list mstep) : Prop :=
  match services, steps with
  | [], [] => True
  | s :: sr, (idx, pi, a) :: r =>
      (idx < leg_count closed t)%nat /\ alt_of t s idx pi a /\ ev t idx a = None /\
      steps_valid (reschedule dur (insert_after t idx a)) sr r
  | _, _ => False
  end.

Lemma m_services_succ : forall rc r t c l steps',
  m_acts (m_services rc t r (m_success c l)) = Some steps' ->
  exists new, steps' = l ++ new /\ steps_valid t r new /\
     m_cost (m_services rc t r (m_success c l)) = Some (c + multi_sum t (map step_of new)).
Proof.
  intros rc. induction r as [|s r IH]; intros t c l steps' H.
  - cbn [ObjectivesX.m_services] in *. cbn [m_acts m_success] in H. inversion H; subst. exists []. rewrite app_nil_r.
    cbn [steps_valid map ObjectivesX.multi_sum m_cost m_success]. split; [reflexivity|]. split; [exact I|]. f_equal. lia.
  - cbn [ObjectivesX.m_services] in *. cbn [m_viol m_success] in *.
    set (skip := m_next (m_success c l)) in *.
    pose proof (ganalyze_inv t s 0 skip) as Hinv.
    destruct (sc_place (ganalyze t s 0 skip)) as [p|] eqn:Ep.
    + destruct (Hinv p Ep) as (Hb & Halt & Hev & Hcost).
      rewrite Hcost in *. cbn [m_acts m_cost m_success] in *.
      destruct (IH _ _ _ _ H) as (new & E1 & E2 & E3).
      exists ((sc_index (ganalyze t s 0 skip), pi_of p, act_of_place s p) :: new).
      split; [rewrite E1, <- app_assoc; reflexivity|]. split.
      * cbn [steps_valid]. split; [lia|]. split; [exact Halt|]. split; [exact Hev|exact E2].
      * rewrite E3. cbn [map step_of fst snd ObjectivesX.multi_sum]. f_equal. lia.
    + unfold m_fail in H. cbn [m_acts] in H. discriminate.
Qed.

Lemma m_services_first : forall rc s r t out steps',
  m_acts (m_services rc t (s :: r) (m_nextctx out)) = Some steps' ->
  steps_valid t (s :: r) steps' /\
  m_cost (m_services rc t (s :: r) (m_nextctx out)) = Some (rc + multi_sum t (map step_of steps')).
Proof.
  intros rc s r t out steps' H. cbn [ObjectivesX.m_services] in *. cbn [m_viol m_nextctx m_next m_acts m_cost] in *.
  set (skip := m_start out) in *.
  pose proof (ganalyze_inv t s 0 skip) as Hinv.
  destruct (sc_place (ganalyze t s 0 skip)) as [p|] eqn:Ep.
  - destruct (Hinv p Ep) as (Hb & Halt & Hev & Hcost).
    rewrite Hcost in *. cbn [app] in *.
    destruct (m_services_succ _ _ _ _ _ _ H) as (new & E1 & E2 & E3). subst steps'. cbn [app].
    split.
    + cbn [steps_valid]. split; [lia|]. split; [exact Halt|]. split; [exact Hev|exact E2].
    + rewrite E3. cbn [map step_of fst snd ObjectivesX.multi_sum]. f_equal. lia.
  - unfold m_fail in H. cbn [m_acts] in H. discriminate.
Qed.

(* ---------- promote / the loop over start indices ---------- *)
Definition good_gen (P : list mstep -> Z -> Prop) (m : mctx) : Prop :=
  forall steps c, m_acts m = Some steps -> m_cost m = Some c -> P steps c.
(* the steps follow the order `sv` of the sub-jobs and the cost is the sum of their estimates *)
Definition pstep (rc : Z) (t : list act) (sv : list single) (steps : list mstep) (c : Z) : Prop :=
  steps_valid t sv steps /\ c = rc + multi_sum t (map step_of steps).
Definition pperm (rc : Z) (t : list act) (perms : list (list single)) (steps : list mstep) (c : Z) : Prop :=
  (exists sv, In sv perms /\ steps_valid t sv steps) /\ c = rc + multi_sum t (map step_of steps).
Definition good (rc : Z) (t : list act) (services : list single) : mctx -> Prop := good_gen (pstep rc t services).

Lemma good_promote : forall P l r, good_gen P l -> good_gen P r -> good_gen P (fst (m_promote l r)).
Proof.
  intros P l r Hl Hr. unfold m_promote. cbn [fst].
  destruct (m_cost l) as [cl|] eqn:El; destruct (m_cost r) as [cr|] eqn:Er.
  - destruct (cl <? cr); intros steps c Ha Hc; cbn [m_acts m_cost] in *; [apply Hl|apply Hr]; congruence.
  - intros steps c Ha Hc; cbn [m_acts m_cost] in *. apply Hl; congruence.
  - intros steps c Ha Hc; cbn [m_acts m_cost] in *. apply Hr; congruence.
  - destruct (m_viol l); intros steps c Ha Hc; cbn [m_acts m_cost] in *; congruence.
Qed.

Lemma good_services : forall rc t sv out, good rc t sv (m_services rc t sv (m_nextctx out)).
Proof.
  intros rc t [|s r] out steps c Ha Hc.
  - cbn in Ha. discriminate.
  - destruct (m_services_first _ _ _ _ _ _ Ha) as [H1 H2]. split; [exact H1|congruence].
Qed.

Lemma good_loop : forall rc t sv jac fuel out, good rc t sv out -> good rc t sv (fst (m_loop fuel rc t sv jac out)).
Proof.
  intros rc t sv jac. induction fuel as [|f IH]; intros out Ho; cbn [ObjectivesX.m_loop fst]; [exact Ho|].
  destruct (m_is_failure out jac); [exact Ho|].
  pose proof (good_promote _ _ _ (good_services rc t sv out) Ho) as Hp.
  destruct (m_promote (m_services rc t sv (m_nextctx out)) out) as [res brk]. cbn [fst] in Hp.
  destruct brk; [exact Hp|apply IH; exact Hp].
Qed.

Lemma good_perms : forall rc t jac all perms acc,
  incl perms all -> good_gen (pperm rc t all) acc -> good_gen (pperm rc t all) (fst (m_perms rc t jac perms acc)).
Proof.
  intros rc t jac all. induction perms as [|sv r IH]; intros acc Hin Ha; cbn [ObjectivesX.m_perms fst]; [exact Ha|].
  pose proof (good_loop rc t sv jac (S (S (length t))) (m_new None 0) ltac:(intros s c H; discriminate)) as Hl.
  destruct (m_loop (S (S (length t))) rc t sv jac (m_new None 0)) as [perm oof]. cbn [fst] in Hl.
  destruct oof; [exact Ha|].
  assert (Hl' : good_gen (pperm rc t all) perm).
  { intros steps c H1 H2. destruct (Hl steps c H1 H2) as [Hv Hc]. split; [|exact Hc]. exists sv. split; [apply Hin; left; reflexivity|exact Hv]. }
  pose proof (good_promote _ _ _ Hl' Ha) as Hp.
  destruct (m_promote perm acc) as [res brk]. cbn [fst] in Hp.
  destruct brk; [exact Hp|]. apply IH; [intros x Hx; apply Hin; right; exact Hx|exact Hp].
Qed.

Theorem geval_multi_spec : forall rc t perms cost steps,
  geval_multi rc t perms = GSuccess cost steps ->
  (exists sv, In sv perms /\ steps_valid t sv steps) /\ cost = rc + multi_sum t (map step_of steps).
Proof.
  intros rc t perms cost steps H. unfold ObjectivesX.geval_multi in H.
  pose proof (good_perms rc t (job_activity_count closed t) perms perms (m_new None 0) (incl_refl _)
                ltac:(intros s c Ha; discriminate)) as Hp.
  destruct (m_perms rc t (job_activity_count closed t) perms (m_new None 0)) as [result oof]. cbn [fst] in Hp.
  destruct oof; [discriminate|].
  unfold m_is_success in H.
  destruct (m_viol result); [destruct p; discriminate|].
  destruct (m_cost result) as [c|] eqn:Ec; [|discriminate].
  destruct (m_acts result) as [l|] eqn:Ea; [|discriminate].
  inversion H; subst. apply Hp; assumption.
Qed.

Theorem geval_single_spec : forall rc t j cost steps,
  geval_single rc t j = GSuccess cost steps ->
  steps_valid t [j] steps /\ cost = rc + multi_sum t (map step_of steps).
Proof.
  intros rc t j cost steps H. unfold ObjectivesX.geval_single in H.
  pose proof (ganalyze_inv t j rc 0) as Hinv.
  destruct (sc_place (ganalyze t j rc 0)) as [p|] eqn:Ep.
  - destruct (Hinv p Ep) as (Hb & Halt & Hev & Hcost). rewrite Hcost in H. inversion H; subst.
    cbn [steps_valid map step_of fst snd ObjectivesX.multi_sum]. split; [|lia].
    split; [lia|]. split; [exact Halt|]. split; [exact Hev|exact I].
  - destruct (sc_viol (ganalyze t j rc 0)) as [[code st]|]; discriminate.
Qed.
End SearchP.

(* ================= (C) termination, glue, the entry point ================= *)
Section Glue.
Variable dur : Z -> Z -> Z.
Variable ev : list act -> nat -> act -> option (Z * bool).
Variable est : list act -> nat -> act -> Z.
Variable closed : bool.

Lemma m_loop_fuel : forall rc t sv jac fuel out,
  (jac + 1 - m_start out < fuel)%nat -> snd (m_loop dur ev est closed fuel rc t sv jac out) = false.
Proof.
  intros rc t sv jac. induction fuel as [|f IH]; intros out Hf; [lia|]. cbn [ObjectivesX.m_loop].
  destruct (m_is_failure out jac) eqn:Ef; [reflexivity|].
  unfold m_is_failure in Ef. apply orb_false_iff in Ef as [_ Ef]. apply Nat.ltb_ge in Ef.
  unfold m_promote. cbn [fst snd].
  match goal with |- snd (if ?b then _ else _) = false => destruct b end; [reflexivity|].
  apply IH. cbn [m_start]. lia.
Qed.

Lemma m_perms_fuel : forall rc t jac perms acc,
  (jac <= length t)%nat -> snd (m_perms dur ev est closed rc t jac perms acc) = false.
Proof.
  intros rc t jac. induction perms as [|sv r IH]; intros acc Hj; cbn [ObjectivesX.m_perms]; [reflexivity|].
  pose proof (m_loop_fuel rc t sv jac (S (S (length t))) (m_new None 0) ltac:(cbn [m_start m_new]; lia)) as H.
  destruct (m_loop dur ev est closed (S (S (length t))) rc t sv jac (m_new None 0)) as [perm oof]. cbn [snd] in H. subst oof.
  destruct (m_promote perm acc) as [res brk]. destruct brk; [reflexivity|apply IH; exact Hj].
Qed.

Theorem geval_multi_terminates : forall rc t perms, geval_multi dur ev est closed rc t perms <> GOutOfFuel.
Proof.
  intros rc t perms. unfold geval_multi.
  pose proof (m_perms_fuel rc t (job_activity_count closed t) perms (m_new None 0)
                ltac:(unfold job_activity_count; destruct closed; lia)) as H.
  destruct (m_perms dur ev est closed rc t (job_activity_count closed t) perms (m_new None 0)) as [result oof].
  cbn [snd] in H. subst oof.
  destruct (m_is_success result); [discriminate|].
  destruct (m_viol result) as [[code st]|]; discriminate.
Qed.

End Glue.

Lemma leg_count_le : forall closed t, (leg_count closed t <= length t)%nat.
Proof. intros closed [|a [|b r]]; cbn [leg_count length]; [lia|lia|]. destruct closed; cbn [length]; lia. Qed.

Lemma steps_valid_ok : forall dur ev closed sv t steps,
  Forall (fun s => 0 <= s_id s) sv -> steps_valid dur ev closed t sv steps -> steps_ok dur t (map step_of steps).
Proof.
  intros dur ev closed. induction sv as [|s sv IH]; intros t [|[[idx pi] a] r] Hid Hv; cbn [steps_valid map step_of fst snd steps_ok] in *; try exact I; try contradiction.
  destruct Hv as (Hidx & (pl & w & _ & _ & Ea) & _ & Hr). inversion Hid as [|? ? Hs Hsv]; subst.
  split; [pose proof (leg_count_le closed t); lia|]. split.
  - unfold is_terminal, mk_target. cbn [a_job]. lia.
  - apply IH; assumption.
Qed.

Lemma steps_valid_nonempty : forall dur ev closed sv t steps, sv <> [] -> steps_valid dur ev closed t sv steps -> steps <> [].
Proof. intros dur ev closed [|s sv] t [|x r] Hne Hv; cbn in Hv; try congruence; try contradiction. Qed.

Lemma steps_valid_first : forall dur ev closed sv t steps,
  steps_valid dur ev closed t sv steps -> leg_count closed t = 1%nat ->
  fst (hd (0%nat, mkAct 0 0 0 0 0 dzero 0 0) (map step_of steps)) = 0%nat.
Proof.
  intros dur ev closed [|s sv] t [|[[idx pi] a] r] Hv Hl; cbn [steps_valid] in Hv; try reflexivity; try contradiction.
  cbn [map hd step_of fst snd]. lia.
Qed.

Lemma multi_sum_leg : forall dur m steps t, multi_sum dur (leg_estimate m) t steps = multi_leg dur m t steps.
Proof. intros dur m. induction steps as [|[idx a] r IH]; intros t; cbn [multi_sum multi_leg]; [reflexivity|]. rewrite IH. reflexivity. Qed.
(* ---------- the entry point of the correspondence: eval_jobx ---------- *)
(* the allowed orders of the sub-jobs *)
Definition jobx_perms (j : jobx) : list (list single) :=
  match j with JSingle s => [[s]] | JMulti subs perms => resolve_perms subs perms end.
(* every order is non-empty and all job ids are non-negative (negative ids stand for the tour's start / end) *)
Definition jobx_ok (j : jobx) : Prop :=
  Forall (fun sv => sv <> [] /\ Forall (fun s => 0 <= s_id s) sv) (jobx_perms j).
Definition jobx_ev (w : world) (j : jobx) : list act -> nat -> act -> option (Z * bool) :=
  match j with JSingle _ => eval_activity (wdur w) (w_veh w) | JMulti _ _ => eval_activity_multi w end.
Definition jobx_est (w : world) (d : dcosts) (kind : Z) : list act -> nat -> act -> Z :=
  if kind =? 0 then cost_estimate_activity_d (wdur w) (wdist w) (w_veh w) d else leg_estimate (wdist w).
Definition jobx_rc (w : world) (d : dcosts) (t : list act) (kind : Z) : Z :=
  if kind =? 0 then cost_estimate_route_d (w_veh w) d t else 0.

Theorem eval_jobx_spec : forall w d t j kind cost steps,
  eval_jobx w d t j kind = GSuccess cost steps ->
  (exists sv, In sv (jobx_perms j) /\ steps_valid (wdur w) (jobx_ev w j) (closed w) t sv steps) /\
  cost = jobx_rc w d t kind + multi_sum (wdur w) (jobx_est w d kind) t (map step_of steps).
Proof.
  intros w d t j kind cost steps H. unfold eval_jobx in H. unfold jobx_rc, jobx_est, jobx_ev, jobx_perms.
  destruct j as [s|subs perms].
  - destruct (negb (eval_route_time _ s)); [discriminate|]. destruct (negb (eval_route_cap _ t s)); [discriminate|].
    apply (geval_single_spec (wdur w)) in H. destruct H as [H1 H2]. split; [|exact H2]. exists [s]. split; [left; reflexivity|exact H1].
  - destruct (negb (forallb _ subs)); [discriminate|]. destruct (negb (existsb _ subs)); [discriminate|].
    apply geval_multi_spec in H. exact H.
Qed.

Theorem eval_jobx_terminates : forall w d t j kind, eval_jobx w d t j kind <> GOutOfFuel.
Proof.
  intros w d t j kind. unfold eval_jobx. destruct j as [s|subs perms].
  - destruct (negb (eval_route_time _ s)); [discriminate|]. destruct (negb (eval_route_cap _ t s)); [discriminate|].
    unfold geval_single. destruct (sc_place _); [discriminate|]. destruct (sc_viol _) as [[c st]|]; discriminate.
  - destruct (negb (forallb _ subs)); [discriminate|]. destruct (negb (existsb _ subs)); [discriminate|].
    apply geval_multi_terminates.
Qed.

Lemma jobx_facts : forall w t j steps,
  jobx_ok j -> (exists sv, In sv (jobx_perms j) /\ steps_valid (wdur w) (jobx_ev w j) (closed w) t sv steps) ->
  steps_ok (wdur w) t (map step_of steps) /\ map step_of steps <> [] /\
  (leg_count (closed w) t = 1%nat -> fst (hd (0%nat, mkAct 0 0 0 0 0 dzero 0 0) (map step_of steps)) = 0%nat).
Proof.
  intros w t j steps Hok (sv & Hin & Hv). unfold jobx_ok in Hok. rewrite Forall_forall in Hok. destruct (Hok sv Hin) as [Hne Hid].
  split; [exact (steps_valid_ok (wdur w) (jobx_ev w j) (closed w) sv t steps Hid Hv)|]. split.
  - pose proof (steps_valid_nonempty _ _ _ _ _ _ Hne Hv) as H. destruct steps; [congruence|discriminate].
  - intros Hl. exact (steps_valid_first (wdur w) (jobx_ev w j) (closed w) sv t steps Hv Hl).
Qed.

Theorem eval_jobx_distance_exact : forall w d t j cost steps,
  jobx_ok j ->
  (has_jobs t = false -> (length t <= 2)%nat /\ leg_count (closed w) t = 1%nat) ->
  eval_jobx w d t j 1 = GSuccess cost steps ->
  total_distance (wdist w) (apply_steps (wdur w) t (map step_of steps)) - route_distance (wdist w) t = cost.
Proof.
  intros w d t j cost steps Hok He H. apply eval_jobx_spec in H as [Hv Hc].
  destruct (jobx_facts w t j steps Hok Hv) as (H1 & H2 & H3).
  unfold jobx_rc, jobx_est in Hc. cbn in Hc. rewrite multi_sum_leg in Hc. subst cost. unfold route_distance.
  rewrite (multi_leg_exact (wdur w) (wdist w) _ t H2 H1); [lia|]. intros Hj. destruct (He Hj) as [Ha Hb]. split; [exact Ha|apply H3; exact Hb].
Qed.

Theorem eval_jobx_cost_exact_nowait : forall w d t j cost steps,
  jobx_ok j ->
  (has_jobs t = false -> (length t <= 2)%nat /\ leg_count (closed w) t = 1%nat) ->
  sched_ok (wdur w) t ->
  uniform_v (w_veh w) -> uniform_d d ->
  eval_jobx w d t j 0 = GSuccess cost steps ->
  shadow_no_wait (wdur w) t (map step_of steps) ->
  cost_fitness_d (wdist w) (w_veh w) d (apply_steps (wdur w) t (map step_of steps)) - route_cost_d (wdist w) (w_veh w) d t = cost.
Proof.
  intros w d t j cost steps Hok He Hs Hv Hd H Hn. apply eval_jobx_spec in H as [Hval Hc].
  destruct (jobx_facts w t j steps Hok Hval) as (H1 & H2 & H3).
  unfold jobx_rc, jobx_est in Hc. cbn in Hc. subst cost.
  apply multi_cost_exact_nowait_driver; try assumption.
  intros Hj. destruct (He Hj) as [Ha Hb]. split; [exact Ha|apply H3; exact Hb].
Qed.

