(* C18 — the adaptive selector as a state machine (Model/Selector.v): selection is total and picks a configured operator for
   every sampler output and every tie stream, only the chosen slot of the row of the from-state changes, every slot is the slot
   machine run on exactly the rewards routed to it (so every per-slot theorem lifts to every history), rewards fed to update lie
   in the proved range. *)
From Coq Require Import QArith Qabs Qminmax Lqa.
From VRP Require Import Base.Tac Base.TotalCmp Model.SlotQ Model.Reward Model.Selector Proofs.SlotQP Proofs.RewardP.
Local Open Scope Z_scope.

(* ---------- lists ---------- *)
Lemma set_at_length {A} : forall (l : list A) i x, length (set_at l i x) = length l.
Proof. induction l as [|y l IH]; intros [|i] x; cbn; auto. Qed.

Lemma set_at_nth_error_same {A} : forall (l : list A) i x, (i < length l)%nat -> nth_error (set_at l i x) i = Some x.
Proof. induction l as [|y l IH]; intros [|i] x H; cbn in *; try lia; auto. apply IH. lia. Qed.

Lemma set_at_nth_error_other {A} : forall (l : list A) i j x, i <> j -> nth_error (set_at l i x) j = nth_error l j.
Proof. induction l as [|y l IH]; intros [|i] [|j] x H; cbn; auto; try congruence. Qed.

Lemma nth_error_repeat {A} (x : A) n k : (k < n)%nat -> nth_error (repeat x n) k = Some x.
Proof. revert k. induction n as [|n IH]; intros [|k] H; cbn; try lia; auto. apply IH. lia. Qed.

Lemma nth_map_seq {A} (f : nat -> A) n j d : (j < n)%nat -> nth j (map f (seq 0 n)) d = f j.
Proof.
  intros H. rewrite (nth_indep _ d (f 0%nat)) by (rewrite map_length, seq_length; exact H).
  rewrite map_nth, seq_nth by exact H. reflexivity.
Qed.

Section SelectP.
  Context {S : Type}.

  Definition sel_wf (nops : nat) (s : sel S) : Prop := length (sel_best s) = nops /\ length (sel_div s) = nops.

  Lemma sel_row_length nops s st : sel_wf nops s -> length (sel_row st s) = nops.
  Proof. intros [H1 H2]. destruct st; assumption. Qed.

  Lemma sample_keys_length (row : list S) xs : length (sel_sample_keys row xs) = length row.
  Proof. unfold sel_sample_keys. rewrite map_length, seq_length. reflexivity. Qed.

  (* selection never fails and returns the index of a configured operator whose sampled value is maximal (f64::total_cmp),
     whatever the sampler returned (xs: arbitrary keys, NaN and infinities included) and whatever the tie stream is *)
  Lemma sel_select_spec nops s from xs ties : sel_wf nops s -> (0 < nops)%nat ->
    exists i, sel_select s from xs ties = Some i /\ (i < nops)%nat /\
              forall k, (k < nops)%nat -> nth k xs 0 <= nth i xs 0.
  Proof.
    intros Hwf Hpos. unfold sel_select. pose proof (sel_row_length nops s from Hwf) as Hl.
    set (row := sel_row from s) in *.
    assert (Hne : sel_sample_keys row xs <> []).
    { intros Hnil. apply (f_equal (@length Z)) in Hnil. rewrite sample_keys_length in Hnil. cbn in Hnil. lia. }
    destruct (random_argmax_spec ties _ Hne) as (i & Hi & Hlt & Hmax). rewrite sample_keys_length in Hlt.
    exists i. rewrite Hi. assert (Hb : Nat.ltb i (length row) = true) by (apply Nat.ltb_lt; exact Hlt). rewrite Hb.
    split; [reflexivity|]. split; [lia|]. intros k Hk.
    assert (Hnth : forall j, (j < length row)%nat -> nth j (sel_sample_keys row xs) 0 = nth j xs 0).
    { intros j Hj. unfold sel_sample_keys. apply (nth_map_seq (fun k0 => nth k0 xs 0)). exact Hj. }
    assert (Hk' : (k < length row)%nat) by lia.
    rewrite <- (Hnth i Hlt), <- (Hnth k Hk'). apply Hmax. apply nth_In. rewrite sample_keys_length. lia.
  Qed.

  Lemma sel_select_lt (s : sel S) from xs ties i : sel_select s from xs ties = Some i -> (i < length (sel_row from s))%nat.
  Proof.
    unfold sel_select. destruct (random_argmax ties _) as [j|]; [|discriminate].
    destruct (Nat.ltb j (length (sel_row from s))) eqn:Hb; [|discriminate]. intros [= <-]. apply Nat.ltb_lt. exact Hb.
  Qed.

  (* without configured operators the expect of SearchAgent::search panics *)
  Lemma sel_select_no_operators (s : sel S) from xs ties : sel_row from s = [] -> sel_select s from xs ties = None.
  Proof. intros H. unfold sel_select. rewrite H. reflexivity. Qed.

  Lemma sel_set_row_same st (s : sel S) row : sel_row st (sel_set_row st s row) = row.
  Proof. destruct st; reflexivity. Qed.
  Lemma sel_set_row_other st st' (s : sel S) row : st <> st' -> sel_row st' (sel_set_row st s row) = sel_row st' s.
  Proof. destruct st, st'; intros H; try congruence; reflexivity. Qed.
End SelectP.

Section GenericP.
  Context {S R : Type}.
  Variable snew : S.
  Variable supd : S -> R -> S.
  Context {E O : Type}.
  Variable from_of : E -> O -> sstate.
  Variable take : E -> option Z -> sstate -> nat -> O -> feedback R.
  (* SearchAction::take copies `from` and `slot_idx` of its context into the feedback *)
  Hypothesis take_from : forall e m from idx o, fb_from (take e m from idx o) = from.
  Hypothesis take_idx : forall e m from idx o, fb_idx (take e m from idx o) = idx.

  Lemma sel_new_wf nops : sel_wf nops (sel_new snew nops).
  Proof. split; cbn; apply repeat_length. Qed.

  Lemma sel_new_row nops st k : (k < nops)%nat -> nth_error (sel_row st (sel_new snew nops)) k = Some snew.
  Proof. intros H. destruct st; cbn; apply nth_error_repeat; exact H. Qed.


  (* ---------- update ---------- *)
  Lemma sel_update_spec nops (s : sel S) fb : sel_wf nops s -> (fb_idx fb < nops)%nat ->
    exists s' slot, sel_update supd s fb = Some s' /\ sel_wf nops s' /\
      nth_error (sel_row (fb_from fb) s) (fb_idx fb) = Some slot /\
      nth_error (sel_row (fb_from fb) s') (fb_idx fb) = Some (supd slot (fb_reward fb)) /\
      (forall st k, (st <> fb_from fb \/ k <> fb_idx fb) -> nth_error (sel_row st s') k = nth_error (sel_row st s) k) /\
      sel_med s' = rem_add (sel_med s) (fb_duration fb).
  Proof.
    intros Hwf Hidx. destruct fb as [from to idx r d]. cbn [fb_from fb_idx fb_reward fb_duration] in *.
    unfold sel_update. cbn [fb_from fb_idx fb_reward fb_duration].
    pose proof (sel_row_length nops s from Hwf) as Hl.
    destruct (nth_error (sel_row from s) idx) as [slot|] eqn:Hn.
    2:{ apply nth_error_None in Hn. lia. }
    eexists. exists slot. split; [reflexivity|].
    destruct Hwf as [H1 H2].
    destruct from; cbn [sel_row sel_set_row sel_best sel_div sel_med] in *.
    all: split; [split; cbn [sel_best sel_div]; try rewrite set_at_length; assumption|].
    all: split; [reflexivity|].
    all: split; [apply set_at_nth_error_same; lia|].
    all: split; [|reflexivity].
    all: intros st k [Hst|Hk]; destruct st; cbn [sel_row sel_best sel_div]; try congruence; try reflexivity.
    all: apply set_at_nth_error_other; congruence.
  Qed.

  (* ---------- searches of one round ---------- *)
  Lemma sel_search_spec nops (s : sel S) e o p : sel_wf nops s -> (0 < nops)%nat ->
    exists fb, sel_search from_of take s e o p = Some fb /\ fb_from fb = from_of e o /\ (fb_idx fb < nops)%nat /\
      fb = take e (rem_median (sel_med s)) (from_of e o) (fb_idx fb) o /\
      forall k, (k < nops)%nat -> nth k (pk_xs p) 0 <= nth (fb_idx fb) (pk_xs p) 0.
  Proof.
    intros Hwf Hpos. unfold sel_search.
    destruct (sel_select_spec nops s (from_of e o) (pk_xs p) (pk_ties p) Hwf Hpos) as (i & Hi & Hlt & Hmax).
    rewrite Hi. eexists. split; [reflexivity|]. rewrite take_from, take_idx. repeat split; auto.
  Qed.

  Lemma sel_searches_spec nops (s : sel S) e jobs : sel_wf nops s -> (0 < nops)%nat ->
    exists fbs, sel_searches from_of take s e jobs = Some fbs /\ length fbs = length jobs /\
      Forall (fun fb => (fb_idx fb < nops)%nat) fbs.
  Proof.
    intros Hwf Hpos. induction jobs as [|[o p] rest IH]; cbn [sel_searches].
    - exists []. repeat split; constructor.
    - destruct (sel_search_spec nops s e o p Hwf Hpos) as (fb & Hfb & _ & Hlt & _). rewrite Hfb.
      destruct IH as (fbs & Hs & Hl & Hall). rewrite Hs. exists (fb :: fbs). split; [reflexivity|].
      split; [cbn; lia | constructor; assumption].
  Qed.

  (* every feedback of a round was produced by `take` for the from-state of its own job, the median of the state the round
     started with, and an index that is maximal among the sampled values of that job *)
  Lemma sel_searches_each (s : sel S) e jobs fbs : sel_searches from_of take s e jobs = Some fbs ->
    Forall2 (fun job fb => fb_from fb = from_of e (fst job) /\
                           fb = take e (rem_median (sel_med s)) (from_of e (fst job)) (fb_idx fb) (fst job) /\
                           sel_select s (from_of e (fst job)) (pk_xs (snd job)) (pk_ties (snd job)) = Some (fb_idx fb)) jobs fbs.
  Proof.
    revert fbs. induction jobs as [|[o p] rest IH]; intros fbs H; cbn [sel_searches] in H.
    - injection H as <-. constructor.
    - unfold sel_search in H. destruct (sel_select s (from_of e o) (pk_xs p) (pk_ties p)) as [i|] eqn:Hi; [|discriminate].
      destruct (sel_searches from_of take s e rest) as [fbs'|]; [|discriminate]. injection H as <-.
      constructor; [|apply IH; reflexivity]. cbn [fst snd]. rewrite take_from, take_idx. auto.
  Qed.

  (* ---------- representation: slot k of row st = the slot machine run on the rewards routed to (st, k) ---------- *)
  Definition repr (s0 s : sel S) (fbs : list (feedback R)) : Prop :=
    forall st k slot0, nth_error (sel_row st s0) k = Some slot0 ->
      nth_error (sel_row st s) k = Some (fold_left supd (routed st k fbs) slot0).

  Lemma routed_app st k (a b : list (feedback R)) : routed st k (a ++ b) = routed st k a ++ routed st k b.
  Proof. unfold routed. rewrite filter_app, map_app. reflexivity. Qed.

  Lemma sstate_eqb_true a b : sstate_eqb a b = true <-> a = b.
  Proof. destruct a, b; cbn; split; congruence. Qed.

  Lemma sel_updates_spec nops : forall fbs (s : sel S), sel_wf nops s -> Forall (fun fb => (fb_idx fb < nops)%nat) fbs ->
    exists s', sel_updates supd s fbs = Some s' /\ sel_wf nops s' /\ repr s s' fbs /\
      sel_med s' = fold_left rem_add (map fb_duration fbs) (sel_med s).
  Proof.
    induction fbs as [|fb rest IH]; intros s Hwf Hall; cbn [sel_updates].
    - exists s. split; [reflexivity|]. split; [exact Hwf|]. split; [|reflexivity]. intros st k slot0 H. exact H.
    - inversion Hall as [|? ? Hfb Hrest]; subst.
      destruct (sel_update_spec nops s fb Hwf Hfb) as (s1 & slot & Hu & Hwf1 & Hold & Hnew & Hoth & Hmed). rewrite Hu.
      destruct (IH s1 Hwf1 Hrest) as (s' & Hs' & Hwf' & Hrep & Hmed'). exists s'. split; [exact Hs'|]. split; [exact Hwf'|].
      split.
      + intros st k slot0 H0. unfold routed. cbn [filter].
        destruct (sstate_eqb (fb_from fb) st && Nat.eqb (fb_idx fb) k) eqn:Hc.
        * apply andb_true_iff in Hc. destruct Hc as [Hc1 Hc2]. apply sstate_eqb_true in Hc1. apply Nat.eqb_eq in Hc2. subst st k.
          rewrite Hold in H0. injection H0 as <-. cbn [map fold_left]. apply Hrep. exact Hnew.
        * apply Hrep. rewrite Hoth; [exact H0|]. apply andb_false_iff in Hc. destruct Hc as [Hc|Hc].
          -- left. intros ->. destruct (fb_from fb); discriminate.
          -- right. apply Nat.eqb_neq in Hc. congruence.
      + cbn [map fold_left]. rewrite Hmed', Hmed. reflexivity.
  Qed.

  Lemma repr_trans s0 s1 s2 a b : repr s0 s1 a -> repr s1 s2 b -> repr s0 s2 (a ++ b).
  Proof.
    intros H1 H2 st k slot0 H0. rewrite routed_app, fold_left_app. apply H2. apply H1. exact H0.
  Qed.

  Lemma sel_round_spec nops (s : sel S) e jobs : sel_wf nops s -> (0 < nops)%nat ->
    exists s' fbs, sel_round supd from_of take s e jobs = Some (s', fbs) /\ sel_wf nops s' /\ repr s s' fbs /\
      length fbs = length jobs /\ Forall (fun fb => (fb_idx fb < nops)%nat) fbs.
  Proof.
    intros Hwf Hpos. unfold sel_round.
    destruct (sel_searches_spec nops s e jobs Hwf Hpos) as (fbs & Hs & Hl & Hall). rewrite Hs.
    destruct (sel_updates_spec nops fbs s Hwf Hall) as (s' & Hu & Hwf' & Hrep & _). rewrite Hu.
    exists s', fbs. repeat split; try assumption; apply Hwf'.
  Qed.

  (* the whole history: never panics, keeps one slot per configured operator in both rows, every feedback names a configured
     operator, and every slot is the fold of `update` over exactly the rewards routed to it *)
  Theorem sel_run_spec nops : forall rounds (s : sel S), sel_wf nops s -> (0 < nops)%nat ->
    exists s' fbs, sel_run supd from_of take s rounds = Some (s', fbs) /\ sel_wf nops s' /\ repr s s' fbs /\
      Forall (fun fb => (fb_idx fb < nops)%nat) fbs.
  Proof.
    induction rounds as [|[e jobs] rest IH]; intros s Hwf Hpos; cbn [sel_run].
    - exists s, []. split; [reflexivity|]. split; [exact Hwf|]. split; [|constructor]. intros st k slot0 H. exact H.
    - destruct (sel_round_spec nops s e jobs Hwf Hpos) as (s1 & fbs1 & Hr & Hwf1 & Hrep1 & _ & Hall1). rewrite Hr.
      destruct (IH s1 Hwf1 Hpos) as (s2 & fbs2 & Hr2 & Hwf2 & Hrep2 & Hall2). rewrite Hr2.
      exists s2, (fbs1 ++ fbs2). split; [reflexivity|]. split; [exact Hwf2|].
      split; [eapply repr_trans; eassumption | apply Forall_app; split; assumption].
  Qed.

  Corollary sel_run_from_new nops rounds : (0 < nops)%nat ->
    exists s' fbs, sel_run supd from_of take (sel_new snew nops) rounds = Some (s', fbs) /\ sel_wf nops s' /\
      Forall (fun fb => (fb_idx fb < nops)%nat) fbs /\
      forall st k, (k < nops)%nat -> nth_error (sel_row st s') k = Some (fold_left supd (routed st k fbs) snew).
  Proof.
    intros Hpos. destruct (sel_run_spec nops rounds (sel_new snew nops) (sel_new_wf nops) Hpos) as (s' & fbs & Hr & Hwf & Hrep & Hall).
    exists s', fbs. repeat split; try assumption; try apply Hwf. intros st k Hk. apply Hrep. apply sel_new_row. exact Hk.
  Qed.


  (* one feedback per search *)
  Definition njobs (rounds : list (E * list (O * pick))) : nat := fold_right (fun r acc => (length (snd r) + acc)%nat) 0%nat rounds.

  Lemma sel_searches_length (s : sel S) e jobs fbs : sel_searches from_of take s e jobs = Some fbs -> length fbs = length jobs.
  Proof. intros H. apply sel_searches_each in H. induction H; cbn [length]; congruence. Qed.

  Lemma sel_run_length : forall rounds (s : sel S) s' fbs, sel_run supd from_of take s rounds = Some (s', fbs) -> length fbs = njobs rounds.
  Proof.
    induction rounds as [|[e jobs] rest IH]; intros s s' fbs H; cbn [sel_run] in H.
    - injection H as <- <-. reflexivity.
    - unfold sel_round in H. destruct (sel_searches from_of take s e jobs) as [fbs1|] eqn:Hs; [|discriminate].
      destruct (sel_updates supd s fbs1) as [s1|]; [|discriminate].
      destruct (sel_run supd from_of take s1 rest) as [[s2 fbs2]|] eqn:Hr; [|discriminate].
      injection H as <- <-. rewrite app_length. cbn [njobs fold_right snd]. rewrite (sel_searches_length _ _ _ _ Hs). f_equal.
      apply (IH _ _ _ Hr).
  Qed.


  (* what every feedback of a history is: produced by `take` for some job of some round *)
  Lemma sel_run_feedbacks (P : feedback R -> Prop) :
    forall rounds (s : sel S) s' fbs,
      Forall (fun r => Forall (fun job => forall m from idx, P (take (fst r) m from idx (fst job))) (snd r)) rounds ->
      sel_run supd from_of take s rounds = Some (s', fbs) -> Forall P fbs.
  Proof.
    induction rounds as [|[e jobs] rest IH]; intros s s' fbs Hall H; cbn [sel_run] in H.
    - injection H as <- <-. constructor.
    - inversion Hall as [|? ? Hj Hrest]; subst. cbn [fst snd] in Hj.
      unfold sel_round in H. destruct (sel_searches from_of take s e jobs) as [fbs1|] eqn:Hs; [|discriminate].
      destruct (sel_updates supd s fbs1) as [s1|]; [|discriminate].
      destruct (sel_run supd from_of take s1 rest) as [[s2 fbs2]|] eqn:Hr; [|discriminate].
      injection H as <- <-. apply Forall_app. split; [|eapply IH; eassumption].
      pose proof (sel_searches_each s e jobs fbs1 Hs) as Hea. clear Hs Hall.
      induction Hea as [|job fb jobs' fbs' (_ & Hfb & _) _ IHe]; [constructor|].
      inversion Hj as [|? ? Hjob Hjobs]; subst. constructor; [|apply IHe; exact Hjobs]. rewrite Hfb. apply Hjob.
  Qed.

  (* no operator configured: the first search panics (expect("cannot get slot machine")) *)
  Lemma sel_run_no_operators e o p jobs rest :
    sel_run supd from_of take (sel_new snew 0) ((e, (o, p) :: jobs) :: rest) = None.
  Proof.
    cbn [sel_run]. unfold sel_round. cbn [sel_searches]. unfold sel_search.
    rewrite sel_select_no_operators; [reflexivity|]. destruct (from_of e o); reflexivity.
  Qed.

  (* the number of updates a slot received = the number of feedbacks routed to it; all of them together = all feedbacks *)
  Lemma routed_total (fbs : list (feedback R)) nops : Forall (fun fb => (fb_idx fb < nops)%nat) fbs ->
    length fbs = fold_left (fun acc k => (acc + length (routed BestKnown k fbs) + length (routed Diverse k fbs))%nat) (seq 0 nops) 0%nat.
  Proof.
    intros Hall.
    assert (G : forall n acc, fold_left (fun acc k => (acc + length (routed BestKnown k fbs) + length (routed Diverse k fbs))%nat) (seq 0 n) acc
                      = (acc + length (filter (fun fb => Nat.ltb (fb_idx fb) n) fbs))%nat).
    { induction n as [|n IHn]; intros acc.
      - cbn [seq fold_left]. assert (Hf : filter (fun fb : feedback R => Nat.ltb (fb_idx fb) 0) fbs = []).
        { clear. induction fbs as [|fb r IH]; cbn; auto. }
        rewrite Hf. cbn. lia.
      - rewrite seq_S, fold_left_app. cbn [fold_left Nat.add]. rewrite IHn.
        assert (Hsplit : length (filter (fun fb => Nat.ltb (fb_idx fb) (Datatypes.S n)) fbs)
                  = (length (filter (fun fb => Nat.ltb (fb_idx fb) n) fbs) + length (routed BestKnown n fbs) + length (routed Diverse n fbs))%nat).
        { clear. unfold routed. rewrite !map_length. induction fbs as [|fb r IH]; [reflexivity|]. cbn [filter].
          destruct (Nat.ltb (fb_idx fb) (Datatypes.S n)) eqn:H1; destruct (Nat.ltb (fb_idx fb) n) eqn:H2;
          destruct (Nat.eqb (fb_idx fb) n) eqn:H3; destruct (fb_from fb); cbn [sstate_eqb andb length]; try lia;
          apply Nat.ltb_lt in H1 || apply Nat.ltb_ge in H1; apply Nat.ltb_lt in H2 || apply Nat.ltb_ge in H2;
          apply Nat.eqb_eq in H3 || apply Nat.eqb_neq in H3; lia. }
        lia. }
    rewrite G. cbn [Nat.add]. clear G. induction Hall as [|fb r Hfb _ IH]; [reflexivity|]. cbn [filter].
    apply Nat.ltb_lt in Hfb. rewrite Hfb. cbn [length]. f_equal. exact IH.
  Qed.
End GenericP.

Lemma routed_length_le {R} st k (fbs : list (feedback R)) : (length (routed st k fbs) <= length fbs)%nat.
Proof.
  unfold routed. rewrite map_length. induction fbs as [|fb r IH]; cbn [filter length]; [lia|].
  destruct (sstate_eqb (fb_from fb) st && Nat.eqb (fb_idx fb) k); cbn [length]; lia.
Qed.


(* ---------------- exact-arithmetic instance ---------------- *)
Section QP.
  Variable ord : list Q -> list Q -> comparison.
  Local Open Scope Q_scope.

  Lemma q_take_from e m from idx o : fb_from (q_take ord e m from idx o) = from.
  Proof. reflexivity. Qed.
  Lemma q_take_idx e m from idx o : fb_idx (q_take ord e m from idx o) = idx.
  Proof. reflexivity. Qed.

  (* the reward of SearchAction::take for ANY objective answer: 0 <= reward <= 9 (2N + 1), N = number of objectives *)
  Lemma q_reward_bounds e m o : 0 <= q_reward ord e m o <= 9 * (2 * qnat (length (qo_new o)) + 1).
  Proof.
    unfold q_reward.
    set (o_nb := cmp_to_best ord (qe_best e) (qo_new o)).
    set (inb := match o_nb with Lt => true | _ => false end).
    pose proof (distance_reward_bounds (qe_best e) (ord (qo_new o) (qo_init o)) o_nb (qo_new o) (qo_init o)) as [D1 D2].
    pose proof (perf_multiplier_bounds (qe_ratio e) (option_map Z.to_nat m) (Z.to_nat (qo_duration o)) inb) as [M1 M2].
    assert (M : 0 <= perf_multiplier (qe_ratio e) (option_map Z.to_nat m) (Z.to_nat (qo_duration o)) inb <= 3)
      by (split; [apply Qlt_le_weak; eapply Qlt_trans; [|exact M1]; reflexivity | exact M2]).
    pose proof (prod_bounds _ _ _ _ (conj D1 D2) M) as [P1 P2].
    split; lra.
  Qed.

  Definition reward_ok (N : nat) (r : Q) : Prop := 0 <= r <= 9 * (2 * qnat N + 1).

  Definition outcomes_le (N : nat) (rounds : list (qenv * list (qoutcome * pick))) : Prop :=
    Forall (fun round => Forall (fun job => (length (qo_new (fst job)) <= N)%nat) (snd round)) rounds.

  Lemma qnat_mono_bound n N : (n <= N)%nat -> 9 * (2 * qnat n + 1) <= 9 * (2 * qnat N + 1).
  Proof. intros H. pose proof (qnat_le n N H). lra. Qed.

  (* all rewards handed to update during a history are in the proved range *)
  Lemma qsel_rewards_ok N : forall rounds (s : sel slot) s' fbs, outcomes_le N rounds ->
    sel_run slot_update (q_from_of ord) (q_take ord) s rounds = Some (s', fbs) -> Forall (fun fb => reward_ok N (fb_reward fb)) fbs.
  Proof.
    induction rounds as [|[e jobs] rest IH]; intros s s' fbs Hle H; cbn [sel_run] in H.
    - injection H as <- <-. constructor.
    - inversion Hle as [|? ? Hj Hrest]; subst. cbn [snd] in Hj.
      unfold sel_round in H. destruct (sel_searches (q_from_of ord) (q_take ord) s e jobs) as [fbs1|] eqn:Hs; [|discriminate].
      destruct (sel_updates slot_update s fbs1) as [s1|]; [|discriminate].
      destruct (sel_run slot_update (q_from_of ord) (q_take ord) s1 rest) as [[s2 fbs2]|] eqn:Hr; [|discriminate].
      injection H as <- <-. apply Forall_app. split; [|eapply IH; eassumption].
      pose proof (sel_searches_each (q_from_of ord) (q_take ord) (q_take_from) (q_take_idx) s e jobs fbs1 Hs) as Hea.
      clear Hs Hle. induction Hea as [|job fb jobs' fbs' (_ & Hfb & _) _ IHe]; [constructor|].
      inversion Hj as [|? ? Hjob Hjobs]; subst. constructor; [|apply IHe; exact Hjobs].
      rewrite Hfb. cbn [q_take fb_reward]. pose proof (q_reward_bounds e (rem_median (sel_med s)) (fst job)) as [B1 B2].
      split; [exact B1|]. eapply Qle_trans; [exact B2|]. apply qnat_mono_bound. exact Hjob.
  Qed.

  Lemma routed_in {R} st k (fbs : list (feedback R)) r : In r (routed st k fbs) -> exists fb, In fb fbs /\ fb_reward fb = r.
  Proof.
    unfold routed. intros H. apply in_map_iff in H. destruct H as (fb & <- & Hin). apply filter_In in Hin.
    exists fb. split; [apply Hin | reflexivity].
  Qed.

  (* for every history of operator outcomes (every objective, every sampler output, every tie stream, every duration):
     the run does not panic, and every slot of both rows is a valid learning state *)
  Theorem qsel_state_valid nops N rounds : (0 < nops)%nat -> outcomes_le N rounds ->
    exists s' fbs, qsel_run ord nops rounds = Some (s', fbs) /\
      Forall (fun fb => (fb_idx fb < nops)%nat /\ reward_ok N (fb_reward fb)) fbs /\
      forall st k, (k < nops)%nat ->
        exists sl, nth_error (sel_row st s') k = Some sl /\ sl = slot_run 1 (routed st k fbs) /\
          s_n sl = length (routed st k fbs) /\ s_alpha sl == 1 + qn (s_n sl) / 2 /\ 0 < s_alpha sl /\ 10 <= s_beta sl /\ 0 <= s_v sl /\
          (routed st k fbs <> [] -> 0 <= s_mu sl <= 9 * (2 * qnat N + 1)).
  Proof.
    intros Hpos Hle. unfold qsel_run, qsel_new.
    destruct (sel_run_from_new (slot_new 1) slot_update (q_from_of ord) (q_take ord) q_take_from q_take_idx nops rounds Hpos)
      as (s' & fbs & Hr & Hwf & Hall & Hrep).
    exists s', fbs. split; [exact Hr|].
    pose proof (qsel_rewards_ok N rounds _ _ _ Hle Hr) as Hrew.
    split.
    { rewrite Forall_forall in *. intros fb Hin. split; [apply Hall | apply Hrew]; exact Hin. }
    intros st k Hk. eexists. split; [apply Hrep; exact Hk|]. split; [reflexivity|].
    change (fold_left slot_update (routed st k fbs) (slot_new 1)) with (slot_run 1 (routed st k fbs)).
    split; [apply count_ok|]. split; [rewrite count_ok; apply alpha_closed|]. split; [apply alpha_pos|].
    split; [apply beta_ge_10|]. split; [apply variance_nonneg|].
    intros Hne. apply mean_in_hull; [exact Hne|]. intros r Hin. destruct (routed_in st k fbs r Hin) as (fb & Hfb & <-).
    rewrite Forall_forall in Hrew. apply Hrew. exact Hfb.
  Qed.
End QP.
