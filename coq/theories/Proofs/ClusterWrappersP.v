(* Proofs about Model/ClusterWrappers.v: the job-level DBSCAN wrapper create_job_clusters returns exactly what
   dbscan::create_clusters returns on the neighbourhood it constructs, hence the DBSCAN contract w.r.t. that neighbourhood
   (read on the returned HashSets); the constructed neighbourhood is characterised; create_multi_tier_clusters returns one
   k-medoids partition with the nearest-medoid clause per admissible k. *)
From Coq Require Import QArith Qabs Permutation Sorted.
From VRP Require Import Base.Tac Model.Dbscan Model.KMedoids Model.ClusterWrappers Proofs.DbscanP Proofs.KMedoidsP.
Local Open Scope nat_scope.

(* ------------------------------------------------------------------ the constructed neighbourhood *)
Lemma qltb_iff a b : qltb a b = true <-> (a < b)%Q.
Proof.
  unfold qltb. rewrite negb_true_iff. split.
  - intros H. apply Qnot_le_lt. intros Hle. apply Qle_bool_iff in Hle. congruence.
  - intros H. destruct (Qle_bool b a) eqn:E; [|reflexivity]. apply Qle_bool_iff in E. exfalso. exact (Qlt_not_le _ _ H E).
Qed.

Lemma take_while_In {A} (f : A -> bool) l x : In x (take_while f l) -> In x l /\ f x = true.
Proof.
  induction l as [|a r IH]; cbn [take_while]; [intros []|].
  destruct (f a) eqn:E; [|intros []]. intros [<- | H]; [split; [left; reflexivity | exact E]|].
  destruct (IH H) as [H1 H2]. split; [right; exact H1 | exact H2].
Qed.

Lemma take_while_sorted {A} (R : A -> A -> Prop) (f : A -> bool) l x :
  (forall a b, R a b -> f b = true -> f a = true) ->
  StronglySorted R l -> In x l -> f x = true -> In x (take_while f l).
Proof.
  intros Hmono. induction l as [|a r IH]; intros HS Hin Hx; [destruct Hin|].
  inversion HS as [|a' r' HSr Hall]; subst. cbn [take_while].
  destruct (f a) eqn:E.
  - destruct Hin as [<- | Hin]; [left; reflexivity | right; apply IH; assumption].
  - exfalso. destruct Hin as [<- | Hin]; [congruence|].
    rewrite Forall_forall in Hall. specialize (Hmono a x (Hall x Hin) Hx). congruence.
Qed.

Lemma StronglySorted_filter {A} (R : A -> A -> Prop) (f : A -> bool) l :
  StronglySorted R l -> StronglySorted R (filter f l).
Proof.
  induction 1 as [|a r HS IH Hall]; cbn [filter]; [constructor|].
  destruct (f a); [|exact IH]. constructor; [exact IH|].
  rewrite Forall_forall in *. intros x Hx. apply filter_In in Hx. apply Hall. tauto.
Qed.

(* every neighbour the wrapper hands to DBSCAN is a job with a location whose cost in the row is below epsilon *)
Lemma jc_neighbours_sound hasloc eps row q :
  In q (jc_neighbours hasloc eps row) ->
  hasloc q = true /\ exists c, In (q, c) row /\ (inject_Z c < eps)%Q.
Proof.
  unfold jc_neighbours, located. intros H. apply in_map_iff in H. destruct H as [[q' c] [Hq H]]. cbn [fst] in Hq. subst q'.
  apply take_while_In in H. destruct H as [H1 H2]. apply filter_In in H1. destruct H1 as [H1 H3]. cbn [fst snd] in *.
  split; [exact H3|]. exists c. split; [exact H1 | apply qltb_iff; exact H2].
Qed.

(* and for a row sorted by cost (what the job index stores) these are ALL of them *)
Lemma jc_neighbours_complete hasloc eps row q c :
  StronglySorted (fun a b : nat * Z => (snd a <= snd b)%Z) row ->
  In (q, c) row -> hasloc q = true -> (inject_Z c < eps)%Q ->
  In q (jc_neighbours hasloc eps row).
Proof.
  intros HS Hin Hl Hc. unfold jc_neighbours. apply in_map_iff. exists (q, c). split; [reflexivity|].
  apply (take_while_sorted (fun a b : nat * Z => (snd a <= snd b)%Z)).
  - intros a b Hab Hb. apply qltb_iff. apply qltb_iff in Hb.
    eapply Qle_lt_trans; [|exact Hb]. rewrite <- Zle_Qle. exact Hab.
  - apply StronglySorted_filter. exact HS.
  - unfold located. apply filter_In. split; [exact Hin | exact Hl].
  - apply qltb_iff. exact Hc.
Qed.

Lemma jc_table_nbrs hasloc eps prow j : nbrs (jc_table hasloc eps prow) j = jc_neighbours hasloc eps (nth j prow []).
Proof.
  unfold nbrs, jc_table.
  change (@nil nat) with (jc_neighbours hasloc eps []) at 1. apply map_nth.
Qed.

Lemma jc_min_points_ge2 mp : 2 <= jc_min_points mp.
Proof. unfold jc_min_points. lia. Qed.

Lemma jc_min_points_spec mp : jc_min_points mp = Nat.max (match mp with Some m => m | None => 3 end) 2.
Proof. reflexivity. Qed.

(* ------------------------------------------------------------------ seeds of the clusters are given points *)
Lemma grow_prefix tbl minp : forall fuel work seen clustered noise cluster c cl',
  grow fuel tbl minp work seen clustered noise cluster = Some (c, cl') -> exists ext, c = cluster ++ ext.
Proof.
  induction fuel as [|f IH]; intros work seen clustered noise cluster c cl' H; cbn [grow] in H; [discriminate|].
  destruct work as [|q rest].
  - inversion H; subst. exists []. rewrite app_nil_r. reflexivity.
  - destruct (mem q clustered).
    + eapply IH. exact H.
    + apply IH in H. destruct H as [ext ->]. exists (q :: ext). rewrite <- app_assoc. reflexivity.
Qed.

Definition head_in (all : list nat) (c : list nat) : Prop := exists p, hd_error c = Some p /\ In p all.

Lemma outer_heads tbl minp all : forall fuel pts clustered noise acc cs,
  outer fuel tbl minp pts clustered noise acc = Some cs ->
  (forall x, In x pts -> In x all) -> Forall (head_in all) acc -> Forall (head_in all) cs.
Proof.
  intros fuel pts. induction pts as [|p ps IH]; intros clustered noise acc cs H Hsub Hacc; cbn [outer] in H.
  - inversion H; subst. apply Forall_rev. exact Hacc.
  - assert (Hsub' : forall x, In x ps -> In x all) by (intros x Hx; apply Hsub; right; exact Hx).
    destruct (mem p clustered || mem p noise).
    + eapply IH; eauto.
    + destruct (length (nbrs tbl p) <? minp).
      * eapply IH; eauto.
      * destruct (grow fuel tbl minp (nbrs tbl p) (nbrs tbl p) (p :: clustered) noise [p]) as [[c cl']|] eqn:Eg; [|discriminate].
        eapply IH; [exact H | exact Hsub' |].
        constructor; [|exact Hacc].
        apply grow_prefix in Eg. destruct Eg as [ext ->]. exists p. split; [reflexivity | apply Hsub; left; reflexivity].
Qed.

Lemma create_clusters_heads tbl minp pts cs :
  create_clusters tbl minp pts = Some cs -> Forall (head_in pts) cs.
Proof.
  unfold create_clusters. intros H. eapply outer_heads; [exact H | auto | constructor].
Qed.

(* ------------------------------------------------------------------ the contract on sets *)
(* the DBSCAN contract for clusters given as SETS (create_job_clusters returns Vec<HashSet<Job>>) *)
Definition set_contract (tbl : list (list nat)) (minp : nat) (pts : list nat) (cs : list (list nat)) : Prop :=
  NoDup (concat cs)
  /\ (forall c, In c cs -> exists p, In p c /\ In p pts /\ core tbl minp p /\ forall q, In q c -> dreach tbl minp p q)
  /\ (forall p, In p pts -> core tbl minp p -> exists c, In c cs /\ In p c).

Lemma Forall2_in_r {A B} (R : A -> B -> Prop) l l' y : Forall2 R l l' -> In y l' -> exists x, In x l /\ R x y.
Proof.
  induction 1 as [|a b l l' Hab HF IH]; [intros []|]. intros [<- | Hy].
  - exists a. split; [left; reflexivity | exact Hab].
  - destruct (IH Hy) as [x [Hx HR]]. exists x. split; [right; exact Hx | exact HR].
Qed.

Lemma Forall2_in_l {A B} (R : A -> B -> Prop) l l' x : Forall2 R l l' -> In x l -> exists y, In y l' /\ R x y.
Proof.
  induction 1 as [|a b l l' Hab HF IH]; [intros []|]. intros [<- | Hx].
  - exists b. split; [left; reflexivity | exact Hab].
  - destruct (IH Hx) as [y [Hy HR]]. exists y. split; [right; exact Hy | exact HR].
Qed.

Lemma concat_perm (cs cs' : list (list nat)) : Forall2 (@Permutation nat) cs cs' -> Permutation (concat cs) (concat cs').
Proof. induction 1; cbn [concat]; [constructor | apply Permutation_app; assumption]. Qed.

Lemma ordered_to_set_contract tbl minp pts cs cs' :
  dbscan_contract tbl minp pts cs -> Forall (head_in pts) cs -> Forall2 (@Permutation nat) cs cs' ->
  set_contract tbl minp pts cs'.
Proof.
  intros Hc Hh HP. apply dbscan_contract_spec in Hc. destruct Hc as [A [B C]].
  split; [eapply Permutation_NoDup; [apply concat_perm; exact HP | exact A]|]. split.
  - intros c' Hc'. destruct (Forall2_in_r _ _ _ _ HP Hc') as [c [Hc Hperm]].
    destruct (B c Hc) as [p [Hhd [Hcore Hreach]]].
    rewrite Forall_forall in Hh. destruct (Hh c Hc) as [p' [Hhd' Hin]]. rewrite Hhd in Hhd'. inversion Hhd'; subst p'.
    exists p. split.
    + apply (Permutation_in _ Hperm). destruct c; [discriminate|]. inversion Hhd; subst. left. reflexivity.
    + split; [exact Hin|]. split; [exact Hcore|]. intros q Hq. apply Hreach. apply (Permutation_in _ (Permutation_sym Hperm)). exact Hq.
  - intros p Hp Hcore. destruct (C p Hp Hcore) as [c [Hc Hpc]].
    destruct (Forall2_in_l _ _ _ _ HP Hc) as [c' [Hc' Hperm]]. exists c'. split; [exact Hc' | apply (Permutation_in _ Hperm); exact Hpc].
Qed.

(* ------------------------------------------------------------------ create_job_clusters *)
Theorem create_job_clusters_total hasloc rows jobs mp eps : create_job_clusters hasloc rows jobs mp eps <> JFuel.
Proof.
  unfold create_job_clusters. destruct rows as [|prow0 rest]; [discriminate|].
  destruct (create_clusters_total (jc_table hasloc (jc_epsilon hasloc (prow0 :: rest) jobs mp eps) prow0) (jc_min_points mp)
                                  (filter hasloc jobs)) as [cs ->]. discriminate.
Qed.

(* Err("cannot find any profile") exactly for a fleet without profiles *)
Theorem create_job_clusters_err hasloc rows jobs mp eps : create_job_clusters hasloc rows jobs mp eps = JErr <-> rows = [].
Proof.
  unfold create_job_clusters. destruct rows as [|prow0 rest]; [tauto|].
  destruct (create_clusters _ _ _); split; discriminate.
Qed.

(* the wrapper adds and removes nothing: its clusters are those of dbscan::create_clusters on the constructed table over
   the jobs with locations *)
Theorem create_job_clusters_is_dbscan hasloc prow0 rest jobs mp eps cs :
  create_job_clusters hasloc (prow0 :: rest) jobs mp eps = JOk cs <->
  create_clusters (jc_table hasloc (jc_epsilon hasloc (prow0 :: rest) jobs mp eps) prow0) (jc_min_points mp) (filter hasloc jobs) = Some cs.
Proof.
  unfold create_job_clusters. destruct (create_clusters _ _ _) as [cs0|]; split; intros H; inversion H; reflexivity.
Qed.

Theorem create_job_clusters_contract hasloc prow0 rest jobs mp eps cs :
  create_job_clusters hasloc (prow0 :: rest) jobs mp eps = JOk cs ->
  let e := jc_epsilon hasloc (prow0 :: rest) jobs mp eps in
  let tbl := jc_table hasloc e prow0 in
  let minp := jc_min_points mp in
  (forall j, nbrs tbl j = jc_neighbours hasloc e (nth j prow0 []))
  /\ 2 <= minp
  /\ forall cs', Forall2 (@Permutation nat) cs cs' ->
       NoDup (concat cs')
       /\ (forall c, In c cs' -> exists p, In p c /\ In p jobs /\ core tbl minp p /\ forall q, In q c -> dreach tbl minp p q)
       /\ (forall j, In j jobs -> hasloc j = true -> core tbl minp j -> exists c, In c cs' /\ In j c)
       /\ (forall c j, In c cs' -> In j c -> hasloc j = true).
Proof.
  intros H e tbl minp. apply create_job_clusters_is_dbscan in H. fold e in H. fold tbl in H. fold minp in H.
  split; [intros j; apply jc_table_nbrs|]. split; [apply jc_min_points_ge2|].
  intros cs' HP.
  pose proof (ordered_to_set_contract _ _ _ _ _ (create_clusters_contract _ _ _ _ H) (create_clusters_heads _ _ _ _ H) HP) as [A [B C]].
  split; [exact A|]. split; [|split].
  - intros c Hc. destruct (B c Hc) as [p [Hp [Hpts R]]]. exists p. split; [exact Hp|].
    apply filter_In in Hpts. split; [tauto | exact R].
  - intros j Hj Hl Hcore. apply C; [apply filter_In; split; assumption | exact Hcore].
  - intros c j Hc Hj. destruct (B c Hc) as [p [_ [Hpts [_ R]]]]. specialize (R j Hj).
    apply filter_In in Hpts. destruct Hpts as [_ Hlp].
    inversion R as [|c0 q0 _ _ Hnb]; subst; [exact Hlp|].
    unfold tbl in Hnb. rewrite jc_table_nbrs in Hnb. apply jc_neighbours_sound in Hnb. tauto.
Qed.

(* ------------------------------------------------------------------ create_multi_tier_clusters *)
Lemma multi_tier_ks_ge2 k : In k multi_tier_ks -> 2 <= k.
Proof. unfold multi_tier_ks. cbn [In]. lia. Qed.

Theorem multi_tier_contract d chunks ord size :
  (forall l, Permutation (ord l) l) ->
  forall m, In m (create_multi_tier_clusters d chunks ord size) ->
    km_partition (seq 0 size) m /\ km_nearest d m.
Proof.
  intros Hord m Hm. unfold create_multi_tier_clusters in Hm. apply filter_In in Hm. destruct Hm as [Hm _].
  apply in_map_iff in Hm. destruct Hm as [k [<- _]]. exact (create_kmedoids_contract d chunks ord (seq 0 size) k Hord).
Qed.

(* no tier is lost: one non-empty map per k of the fixed list with k <= size/3, in that order *)
Theorem multi_tier_tiers d chunks ord size :
  (forall l, Permutation (ord l) l) ->
  create_multi_tier_clusters d chunks ord size
  = map (fun k => create_kmedoids d chunks ord (seq 0 size) k) (filter (fun k => k <=? size / 3) multi_tier_ks).
Proof.
  intros Hord. unfold create_multi_tier_clusters.
  assert (G : forall l, (forall k, In k l -> 1 <= size) ->
                        filter (fun m => negb (cm_is_empty m)) (map (fun k => create_kmedoids d chunks ord (seq 0 size) k) l)
                        = map (fun k => create_kmedoids d chunks ord (seq 0 size) k) l).
  { induction l as [|k l IH]; intros Hl; [reflexivity|]. cbn [map filter].
    destruct (create_kmedoids d chunks ord (seq 0 size) k) as [|kc r] eqn:E.
    - exfalso. destruct (create_kmedoids_contract d chunks ord (seq 0 size) k Hord) as [P _]. rewrite E in P.
      unfold km_partition in P. cbn [flat_map] in P. apply Permutation_nil in P.
      specialize (Hl k (or_introl eq_refl)). destruct size; [lia | discriminate].
    - cbn [cm_is_empty negb]. f_equal. apply IH. intros k' Hk'. apply (Hl k'). right. exact Hk'. }
  apply G. intros k Hk. apply filter_In in Hk. destruct Hk as [Hk1 Hk2]. apply Nat.leb_le in Hk2.
  apply multi_tier_ks_ge2 in Hk1.
  destruct (Nat.eq_dec size 0) as [->|]; [cbn in Hk2; lia | lia].
Qed.
