(* C07 — proofs about Model/Evolution.v (insertion loop, initial phase, Iterative::run, generation count). *)
From VRP Require Import Base.Tac Model.Homes Proofs.HomesP Model.Evolution.
Local Open Scope nat_scope.

(* the evaluator only answers about jobs it was given, and those are taken from `required` *)
Definition eres_ok (r : eres) (s : hsol) : Prop :=
  match r with
  | ESuccess _ j => In j (h_required s)
  | EFailure (Some j) _ _ => In j (h_required s)
  | EFailure None _ _ => True
  end.
Definition ev_ok (ev : nat -> hsol -> eres) : Prop := forall i s, eres_ok (ev i s) s.

Definition Good (jobs : list Z) (s : hsol) : Prop := Inv jobs s /\ h_required s = [].

(* the quota stays true from its k-th poll on *)
Definition fires_by (q : quota) (k : nat) : Prop := forall n, k <= S n -> q n = true.

Lemma counting_fires_by k : fires_by (counting_quota (Some k)) k.
Proof. intros n H. unfold counting_quota. apply Nat.leb_le. exact H. Qed.

Lemma counting_never n : counting_quota None n = false.
Proof. reflexivity. Qed.

(* ------------------------------------------------------------------ lists *)
Lemma filter_len_le {A} (f : A -> bool) l : length (filter f l) <= length l.
Proof. induction l as [|a l IH]; cbn [filter length]; [lia|destruct (f a); cbn [length]; lia]. Qed.

Lemma zremove_length_lt j l : In j l -> length (zremove j l) < length l.
Proof.
  unfold zremove. induction l as [|a l IH]; cbn [In filter length]; intros H; [contradiction|].
  pose proof (filter_len_le (fun k => negb (k =? j)%Z) l) as Hle.
  destruct H as [->|H].
  - rewrite Z.eqb_refl. cbn [negb]. lia.
  - specialize (IH H). destruct (negb (a =? j)%Z); cbn [length]; lia.
Qed.

(* ------------------------------------------------------------------ one iteration of the insertion loop *)
Lemma iterate_polls r st : p_polls (iterate r st) = p_polls st.
Proof.
  destruct r as [k j|job a h]; cbn [iterate apply_success p_polls]; [reflexivity|].
  unfold apply_failure. destruct (h && (0 <? p_reg st)); reflexivity.
Qed.

Lemma iterate_ins r st : p_ins st <= p_ins (iterate r st) <= S (p_ins st).
Proof.
  destruct r as [k j|job a h]; cbn [iterate apply_success p_ins]; [lia|].
  unfold apply_failure. destruct (h && (0 <? p_reg st)); cbn [p_ins]; lia.
Qed.

Lemma iterate_inv jobs r st : Inv jobs (p_sol st) -> eres_ok r (p_sol st) -> Inv jobs (p_sol (iterate r st)).
Proof.
  intros HI Hok. destruct r as [k j|job a h]; cbn [iterate].
  - cbn [apply_success p_sol]. apply step_insert; assumption.
  - unfold apply_failure. destruct (h && (0 <? p_reg st)); cbn [p_sol].
    + apply step_push_empty. exact HI.
    + destruct job as [j|]; cbn [eres_ok] in Hok.
      * destruct (a || false); [apply step_finalize|]; apply step_fail; assumption.
      * destruct (a || true); [apply step_finalize|]; exact HI.
Qed.

Lemma iterate_measure r st :
  h_required (p_sol st) <> [] -> eres_ok r (p_sol st) -> measure (iterate r st) < measure st.
Proof.
  intros Hne Hok. unfold measure. destruct r as [k j|job a h]; cbn [iterate].
  - cbn [apply_success p_sol p_reg step h_required]. cbn [eres_ok] in Hok.
    pose proof (zremove_length_lt j _ Hok). destruct (length (h_routes (p_sol st)) <=? k); lia.
  - unfold apply_failure. destruct (h && (0 <? p_reg st)) eqn:Hh; cbn [p_sol p_reg].
    + apply andb_true_iff in Hh. destruct Hh as [_ Hh]. apply Nat.ltb_lt in Hh. cbn [step h_required]. lia.
    + assert (Hpos : 0 < length (h_required (p_sol st))).
      { destruct (h_required (p_sol st)); [congruence|cbn; lia]. }
      destruct job as [j|]; cbn [eres_ok] in Hok.
      * pose proof (zremove_length_lt j _ Hok). destruct (a || false); cbn [step h_required length]; lia.
      * destruct (a || true) eqn:E; [cbn [step h_required length]; lia|]. rewrite orb_true_r in E. discriminate.
Qed.

(* ------------------------------------------------------------------ the insertion loop *)
Section PLoop.
  Variable jobs : list Z.
  Variable ev : nat -> hsol -> eres.
  Variable q : quota.
  Hypothesis Hev : ev_ok ev.

  Lemma ploop_some : forall fuel i st,
      Inv jobs (p_sol st) -> measure st <= fuel ->
      exists st', ploop fuel ev q i st = Some st'
                  /\ Inv jobs (p_sol st')
                  /\ p_polls st <= p_polls st'
                  /\ (forall m, q m = true -> p_polls st <= m -> p_polls st' <= S m)
                  /\ p_ins st <= p_ins st'
                  /\ p_ins st' + p_polls st <= p_ins st + p_polls st'.
  Proof.
    induction fuel as [|f IH]; intros i st HI Hm; cbn [ploop];
      destruct (h_required (p_sol st)) as [|x req] eqn:Hreq.
    - exists st. split; [reflexivity|]. split; [exact HI|]. repeat split; intros; lia.
    - destruct (q (p_polls st)) eqn:Hq.
      + exists (poll st). cbn [poll p_sol p_polls p_ins]. split; [reflexivity|]. split; [exact HI|]. repeat split; intros; lia.
      + unfold measure in Hm. rewrite Hreq in Hm. cbn [length] in Hm. lia.
    - exists st. split; [reflexivity|]. split; [exact HI|]. repeat split; intros; lia.
    - destruct (q (p_polls st)) eqn:Hq.
      + exists (poll st). cbn [poll p_sol p_polls p_ins]. split; [reflexivity|]. split; [exact HI|]. repeat split; intros; lia.
      + set (st2 := iterate (ev i (p_sol st)) (poll st)).
        assert (Hne : h_required (p_sol (poll st)) <> []) by (cbn [poll p_sol]; rewrite Hreq; discriminate).
        assert (Hok : eres_ok (ev i (p_sol st)) (p_sol (poll st))) by (cbn [poll p_sol]; apply Hev).
        assert (HI2 : Inv jobs (p_sol st2)) by (apply iterate_inv; [exact HI|exact Hok]).
        assert (Hm2 : measure st2 <= f).
        { pose proof (iterate_measure _ _ Hne Hok) as H. fold st2 in H. unfold measure in H, Hm |- *. cbn [poll p_sol p_reg] in H. lia. }
        destruct (IH (S i) st2 HI2 Hm2) as (st' & E & HI' & Hp & Hstop & Hi1 & Hi2).
        assert (Hpolls2 : p_polls st2 = S (p_polls st)) by (unfold st2; rewrite iterate_polls; reflexivity).
        pose proof (iterate_ins (ev i (p_sol st)) (poll st)) as Hins. fold st2 in Hins. cbn [poll p_ins] in Hins.
        exists st'. split; [exact E|]. split; [exact HI'|]. split; [lia|]. split; [|split; lia].
        intros m Hqm Hle. apply Hstop; [exact Hqm|].
        assert (p_polls st <> m) by (intros Heq; rewrite Heq in Hq; congruence). lia.
  Qed.

  Lemma ploop_quota_first fuel i st :
    q (p_polls st) = true -> ploop fuel ev q i st = Some st \/ ploop fuel ev q i st = Some (poll st).
  Proof.
    intros Hq. destruct fuel; cbn [ploop]; destruct (h_required (p_sol st)); rewrite ?Hq; auto.
  Qed.

  Theorem process_total st :
    Inv jobs (p_sol st) ->
    exists st', process ev q st = Some st'
                /\ Inv jobs (p_sol st') /\ h_required (p_sol st') = []
                /\ p_polls st <= p_polls st'
                /\ (forall m, q m = true -> p_polls st <= m -> p_polls st' <= S m)
                /\ p_ins st <= p_ins st'
                /\ p_ins st' + p_polls st <= p_ins st + p_polls st'.
  Proof.
    intros HI. unfold process.
    assert (HI0 : Inv jobs (p_sol (prepare st))) by (cbn [prepare p_sol]; apply step_prepare; exact HI).
    destruct (ploop_some (measure (prepare st)) 0 (prepare st) HI0 (le_n _)) as (st1 & E & HI1 & Hp & Hstop & Hi1 & Hi2).
    rewrite E. exists (finalize st1). cbn [finalize p_sol p_polls p_ins prepare] in *.
    split; [reflexivity|]. split; [apply step_drop_empty; apply step_finalize; exact HI1|]. split; [reflexivity|]. auto.
  Qed.

  (* the quota is already true at the first poll: nothing is inserted, every pending job is reported unassigned *)
  Theorem process_quota_first st :
    q (p_polls st) = true ->
    exists st', process ev q st = Some st'
                /\ h_routes (p_sol st') = h_routes (step (p_sol st) HDropEmpty)
                /\ p_ins st' = p_ins st
                /\ p_polls st' <= S (p_polls st)
                /\ h_required (p_sol st') = []
                /\ (forall j, In j (h_unassigned (p_sol st')) <-> In j (h_unassigned (p_sol st)) \/ In j (h_required (p_sol st))).
  Proof.
    intros Hq. unfold process.
    assert (Hq0 : q (p_polls (prepare st)) = true) by exact Hq.
    destruct (ploop_quota_first (measure (prepare st)) 0 (prepare st) Hq0) as [E|E]; rewrite E;
      eexists; (split; [reflexivity|]); cbn [finalize prepare poll p_sol p_polls p_ins step h_routes h_required h_unassigned];
      (repeat split; [lia| |]); intros H; try (apply fold_insert_In in H; rewrite in_app_iff in H; tauto);
      apply fold_insert_In; rewrite in_app_iff; tauto.
  Qed.
End PLoop.

(* what reaches the writer after ANY interruption of the loop is an exact partition of the plan *)
Corollary process_partition jobs ev q st st' :
  ev_ok ev -> Inv jobs (p_sol st) -> process ev q st = Some st' ->
  forall j, In j jobs ->
    (count_occ Z.eq_dec (concat (h_routes (p_sol st'))) j = 1 /\ count_occ Z.eq_dec (reported_unassigned (p_sol st')) j = 0)
    \/ (count_occ Z.eq_dec (concat (h_routes (p_sol st'))) j = 0 /\ count_occ Z.eq_dec (reported_unassigned (p_sol st')) j = 1).
Proof.
  intros Hev HI E. destruct (process_total jobs ev q Hev st HI) as (st2 & E2 & HI2 & Hreq & _).
  rewrite E in E2. injection E2 as <-. exact (proj1 (reported_partition jobs _ HI2 Hreq)).
Qed.

(* ------------------------------------------------------------------ termination criteria *)
(* CompositeTermination = any: whatever other criteria are configured (before or after it in the list), the composite is
   terminated as soon as the generation limit is reached - further criteria can only stop the run EARLIER *)
Lemma is_termination_gen_limit ts l gen tm ot : forall tp,
    gen_limit ts = Some l -> l <= gen -> fst (is_termination ts gen tm ot tp) = true.
Proof.
  induction ts as [|t r IH]; intros tp Hl Hle; [discriminate|].
  destruct t as [l'| |i|l']; cbn [is_termination gen_limit] in *.
  - injection Hl as ->. apply Nat.leb_le in Hle. rewrite Hle. reflexivity.
  - destruct (tm tp); [reflexivity|]. apply IH; assumption.
  - destruct (ot i tp); [reflexivity|]. apply IH; assumption.
  - injection Hl as ->. apply Nat.leb_le in Hle. rewrite Hle. reflexivity.
Qed.

(* a user-supplied criterion on statistics.generation terminates the composite wherever it stands in the list *)
Lemma is_termination_user_limit ts l gen tm ot : forall tp,
    In (TUser l) ts -> l <= gen -> fst (is_termination ts gen tm ot tp) = true.
Proof.
  induction ts as [|t r IH]; intros tp Hin Hle; [contradiction|].
  destruct Hin as [->|Hin].
  - cbn [is_termination]. apply Nat.leb_le in Hle. rewrite Hle. reflexivity.
  - destruct t as [l'| |i|l']; cbn [is_termination].
    + destruct (l' <=? gen); [reflexivity|apply IH; assumption].
    + destruct (tm tp); [reflexivity|apply IH; assumption].
    + destruct (ot i tp); [reflexivity|apply IH; assumption].
    + destruct (l' <=? gen); [reflexivity|apply IH; assumption].
Qed.

(* the limit of the MaxGeneration criterion is the configured max_generations, whatever else is configured *)
Lemma gen_limit_terminations N mt cv tg : gen_limit (terminations (Some N) mt cv tg) = Some N.
Proof. reflexivity. Qed.

Lemma gen_limit_cfg cfg N : c_max_gen cfg = Some N -> gen_limit (cfg_terms cfg) = Some N.
Proof. intros H. unfold cfg_terms, terminations. rewrite H. destruct (c_max_time cfg); reflexivity. Qed.

(* the effective limit on statistics.generation: the configured maximum, lowered by a user-supplied criterion *)
Definition eff_limit (cfg : econfig) (N : nat) : nat :=
  match c_user_term cfg with Some l => Nat.min N l | None => N end.

Lemma eff_limit_le cfg N : eff_limit cfg N <= N.
Proof. unfold eff_limit. destruct (c_user_term cfg); lia. Qed.

Lemma eff_limit_pos cfg N : 1 <= N -> (forall l, c_user_term cfg = Some l -> 1 <= l) -> 1 <= eff_limit cfg N.
Proof. intros HN Hu. unfold eff_limit. destruct (c_user_term cfg) as [l|]; [specialize (Hu l eq_refl); lia|exact HN]. Qed.

Lemma min_leb a b g : (Nat.min a b <=? g) = (a <=? g) || (b <=? g).
Proof.
  destruct (a <=? g) eqn:Ea, (b <=? g) eqn:Eb; cbn [orb];
    rewrite ?Nat.leb_le, ?Nat.leb_gt in *; lia.
Qed.

Lemma is_termination_exact cfg N gen tm ot tp :
  c_max_gen cfg = Some N ->
  (forall t, tm t = false) -> (forall i t, ot i t = false) ->
  fst (is_termination (cfg_terms cfg) gen tm ot tp) = (eff_limit cfg N <=? gen).
Proof.
  intros Hc Htm Hot. unfold cfg_terms, terminations, eff_limit. rewrite Hc.
  destruct (c_user_term cfg) as [l|]; [rewrite min_leb|];
    destruct (c_max_time cfg), (c_min_cv cfg), (c_target cfg); cbn [app is_termination]; destruct (N <=? gen); cbn [orb fst];
    rewrite ?Htm, ?Hot; cbn [fst]; try reflexivity; destruct (l <=? gen); reflexivity.
Qed.

Definition first_check_passes (cfg : econfig) (W : oracles) : Prop :=
  fst (is_termination (cfg_terms cfg) 0 (o_time W) (o_other W) 0) = false /\ est_exceeds (cfg_terms cfg) 0 (o_init_quota W 0) = false.

Lemma first_check_positive_limit cfg W N :
  c_max_gen cfg = Some N -> 1 <= eff_limit cfg N ->
  (forall t, t < 3 -> o_time W t = false /\ forall i, o_other W i t = false) -> (c_max_time cfg = true -> o_init_quota W 0 = false) ->
  first_check_passes cfg W.
Proof.
  intros Hg HN Hquiet Hiq. unfold first_check_passes, cfg_terms, terminations. rewrite Hg.
  destruct (Hquiet 0) as [Ht0 Ho0]; [lia|]. destruct (Hquiet 1) as [Ht1 Ho1]; [lia|]. destruct (Hquiet 2) as [Ht2 Ho2]; [lia|].
  pose proof (eff_limit_le cfg N) as HNle.
  assert (E1 : (N <=? 0) = false) by (apply Nat.leb_gt; lia).
  assert (E2 : (N =? 0) = false) by (apply Nat.eqb_neq; lia).
  assert (E3 : (N <? 20 * 0) = false) by (apply Nat.ltb_ge; lia).
  unfold eff_limit in HN.
  destruct (c_user_term cfg) as [l|];
    [assert (E4 : (l <=? 0) = false) by (apply Nat.leb_gt; lia)|];
    (destruct (c_max_time cfg) eqn:Emt; [rewrite (Hiq eq_refl)|]);
    destruct (c_min_cv cfg), (c_target cfg); cbn [app is_termination est_exceeds existsb];
    rewrite E1, E2, E3, ?E4, ?Ht0, ?Ht1, ?Ht2, ?Ho0, ?Ho1, ?Ho2; split; reflexivity.
Qed.

(* ------------------------------------------------------------------ telemetry *)
Definition tele_wf (t : tele) : Prop :=
  t_metric_gens t = t_stat_gen t
  /\ ((t_next t = None /\ t_stat_gen t = 0) \/ t_next t = Some (S (t_stat_gen t))).

Lemma tele0_wf : tele_wf tele0.
Proof. split; [reflexivity|left; split; reflexivity]. Qed.

Lemma on_generation_wf t b : tele_wf (on_generation t b).
Proof. split; [reflexivity|right; reflexivity]. Qed.

Lemma on_generation_gens t b : gens_run (on_generation t b) = S (gens_run t).
Proof. unfold gens_run, on_generation. cbn [t_next]. destruct (t_next t); reflexivity. Qed.

Lemma on_generation_stat t b : t_stat_gen (on_generation t b) = gens_run t.
Proof. unfold gens_run, on_generation. cbn [t_stat_gen]. destruct (t_next t); reflexivity. Qed.

Lemma on_generation_evolution t : length (t_evolution (on_generation t true)) = S (length (t_evolution t)).
Proof. unfold on_generation. cbn [t_evolution]. rewrite app_length. cbn [length]. lia. Qed.

Lemma tele_wf_gens t : tele_wf t -> gens_run t = 0 /\ t_stat_gen t = 0 \/ gens_run t = S (t_stat_gen t).
Proof. intros [_ [[H1 H2]|H]]; unfold gens_run; [rewrite H1; left; split; [reflexivity|exact H2]|rewrite H; right; reflexivity]. Qed.

(* ------------------------------------------------------------------ evolution *)
Definition oracles_ok (W : oracles) : Prop :=
  (forall idx, ev_ok (o_init_ev W idx)) /\ (forall g j, ev_ok (o_search_ev W g j)).

(* a user-supplied hyper-heuristic may hand over ANY list of offspring per generation - none, fewer, more, duplicates, copies of
   parents, solutions of its own - as long as each of them is a complete solution of the plan whenever the population and the
   offspring of the built-in search are *)
Definition hyper_ok (jobs : list Z) (W : oracles) : Prop :=
  forall g pop offs, Forall (Good jobs) pop -> Forall (Good jobs) offs -> Forall (Good jobs) (o_hyper W g pop offs).

(* in particular every heuristic that only selects among the parents and the offspring of the built-in search: drops some or all,
   duplicates, reorders *)
Lemma hyper_selection_ok jobs W :
  (forall g pop offs s, In s (o_hyper W g pop offs) -> In s pop \/ In s offs) -> hyper_ok jobs W.
Proof.
  intros Hsel g pop offs Hpop Hoffs. apply Forall_forall. intros s Hs.
  destruct (Hsel g pop offs s Hs) as [H|H]; [exact (proj1 (Forall_forall _ _) Hpop s H)|exact (proj1 (Forall_forall _ _) Hoffs s H)].
Qed.

Lemma rop_guards ops : forall s, guards s (map rop_hop ops).
Proof. induction ops as [|o r IH]; intros s; cbn [map guards]; [exact I|split; [destruct o; exact I|apply IH]]. Qed.

Section Evolve.
  Variable cfg : econfig.
  Variable W : oracles.
  Variable q : quota.
  Hypothesis HW : oracles_ok W.
  Let jobs := c_jobs cfg.
  Hypothesis HH : hyper_ok jobs W.

  Lemma process_good ev st : ev_ok ev -> Inv jobs (p_sol st) ->
    exists st', process ev q st = Some st' /\ Good jobs (p_sol st') /\ p_polls st <= p_polls st'.
  Proof.
    intros Hev HI. destruct (process_total jobs ev q Hev st HI) as (st' & E & HI' & Hreq & Hp & _).
    exists st'. split; [exact E|]. split; [split; assumption|exact Hp].
  Qed.

  Lemma offspring_some g pop : Forall (Good jobs) pop -> forall parents j polls,
      exists offs polls', offspring g j parents cfg W q pop polls = Some (offs, polls')
                          /\ Forall (Good jobs) offs /\ polls <= polls'.
  Proof.
    intros Hpop. induction parents as [|p r IH]; intros j polls; cbn [offspring].
    - exists [], (polls + o_skip W g j). split; [reflexivity|]. split; [constructor|lia].
    - destruct (nth_error pop p) as [s|] eqn:Hs; [|apply IH].
      assert (Hgood : Good jobs s) by (eapply Forall_forall; [exact Hpop|eapply nth_error_In; exact Hs]).
      assert (HIr : Inv jobs (run s (map rop_hop (o_ruin W g j s)))).
      { apply homes_reach; [exact (proj1 Hgood)|apply rop_guards]. }
      destruct (process_good (o_search_ev W g j) (mkP (run s (map rop_hop (o_ruin W g j s))) (c_reg cfg) (polls + o_skip W g j) 0)
                             (proj2 HW g j) HIr) as (pst & E & Hg & Hp).
      rewrite E. cbn [p_polls] in Hp.
      destruct (IH (S j) (p_polls pst)) as (rest & polls' & E2 & Hrest & Hp2). rewrite E2.
      exists (p_sol pst :: rest), polls'. split; [reflexivity|]. split; [constructor; assumption|lia].
  Qed.

  Lemma generation_some st : Forall (Good jobs) (s_pop st) ->
    exists offs polls, generation cfg W q st
                       = Some (mkS (s_pop st ++ offs) (on_generation (s_tele st) (match s_pop st ++ offs with [] => false | _ => true end))
                                   polls (s_tpolls st))
                       /\ Forall (Good jobs) offs /\ s_polls st <= polls.
  Proof.
    intros Hpop. unfold generation.
    destruct (offspring_some (gens_run (s_tele st)) (s_pop st) Hpop (o_parents W (gens_run (s_tele st)) (s_pop st)) 0 (s_polls st))
      as (offs & polls & E & Hoffs & Hp).
    rewrite E. exists (o_hyper W (gens_run (s_tele st)) (s_pop st) offs), polls. split; [reflexivity|].
    split; [apply HH; assumption|exact Hp].
  Qed.

  (* EVERY iteration of Iterative::run is counted, whatever the heuristic handed over: the generation counter read by the
     termination criteria (statistics.generation) advances, and an empty hand-over leaves the population as it was *)
  Lemma generation_counted st : Forall (Good jobs) (s_pop st) ->
    exists st', generation cfg W q st = Some st'
                /\ gens_run (s_tele st') = S (gens_run (s_tele st))
                /\ t_stat_gen (s_tele st') = gens_run (s_tele st)
                /\ (exists offs, s_pop st' = s_pop st ++ o_hyper W (gens_run (s_tele st)) (s_pop st) offs)
                /\ ((forall offs, o_hyper W (gens_run (s_tele st)) (s_pop st) offs = []) -> s_pop st' = s_pop st).
  Proof.
    intros Hpop. unfold generation.
    destruct (offspring_some (gens_run (s_tele st)) (s_pop st) Hpop (o_parents W (gens_run (s_tele st)) (s_pop st)) 0 (s_polls st))
      as (offs & polls & E & Hoffs & Hp).
    rewrite E. eexists. split; [reflexivity|]. cbn [s_tele s_pop].
    split; [apply on_generation_gens|]. split; [apply on_generation_stat|]. split; [exists offs; reflexivity|].
    intros Hnone. rewrite Hnone. apply app_nil_r.
  Qed.

  Lemma initial_some : forall n idx st, Forall (Good jobs) (s_pop st) ->
      exists st1, initial n idx cfg W q st = Some st1
                  /\ Forall (Good jobs) (s_pop st1) /\ s_tele st1 = s_tele st /\ (exists l, s_pop st1 = s_pop st ++ l).
  Proof.
    induction n as [|n IH]; intros idx st Hpop; cbn [initial].
    - exists st. split; [reflexivity|]. split; [exact Hpop|]. split; [reflexivity|exists []; rewrite app_nil_r; reflexivity].
    - destruct (is_termination (cfg_terms cfg) (t_stat_gen (s_tele st)) (o_time W) (o_other W) (s_tpolls st)) as [term tp].
      destruct (est_exceeds (cfg_terms cfg) (t_stat_gen (s_tele st)) (o_init_quota W idx) || term).
      + eexists. split; [reflexivity|]. cbn [s_pop s_tele]. split; [exact Hpop|]. split; [reflexivity|exists []; rewrite app_nil_r; reflexivity].
      + destruct (process_good (o_init_ev W idx) (mkP (init jobs) (c_reg cfg) (s_polls st) 0) (proj1 HW idx) (homes_init jobs))
          as (p & E & Hg & _).
        fold jobs. rewrite E.
        destruct (IH (S idx) (mkS (s_pop st ++ [p_sol p]) (s_tele st) (p_polls p) tp)) as (st1 & E1 & Hp1 & Ht1 & l & Hl).
        { cbn [s_pop]. apply Forall_app. split; [exact Hpop|constructor; [exact Hg|constructor]]. }
        exists st1. split; [exact E1|]. split; [exact Hp1|]. split; [exact Ht1|].
        exists ([p_sol p] ++ l). rewrite Hl. cbn [s_pop]. rewrite <- app_assoc. reflexivity.
  Qed.

  Lemma initial_first n st :
    fst (is_termination (cfg_terms cfg) (t_stat_gen (s_tele st)) (o_time W) (o_other W) (s_tpolls st)) = false ->
    est_exceeds (cfg_terms cfg) (t_stat_gen (s_tele st)) (o_init_quota W 0) = false ->
    Forall (Good jobs) (s_pop st) ->
    exists st1, initial (S n) 0 cfg W q st = Some st1
                /\ Forall (Good jobs) (s_pop st1) /\ s_tele st1 = s_tele st /\ s_pop st1 <> [].
  Proof.
    intros Ht He Hpop. cbn [initial].
    destruct (is_termination (cfg_terms cfg) (t_stat_gen (s_tele st)) (o_time W) (o_other W) (s_tpolls st)) as [term tp].
    cbn [fst] in Ht. subst term. rewrite He. cbn [orb].
    destruct (process_good (o_init_ev W 0) (mkP (init jobs) (c_reg cfg) (s_polls st) 0) (proj1 HW 0) (homes_init jobs))
      as (p & E & Hg & _).
    fold jobs. rewrite E.
    destruct (initial_some n 1 (mkS (s_pop st ++ [p_sol p]) (s_tele st) (p_polls p) tp)) as (st1 & E1 & Hp1 & Ht1 & l & Hl).
    { cbn [s_pop]. apply Forall_app. split; [exact Hpop|constructor; [exact Hg|constructor]]. }
    exists st1. split; [exact E1|]. split; [exact Hp1|]. split; [exact Ht1|].
    rewrite Hl. cbn [s_pop]. destruct (s_pop st); discriminate.
  Qed.

  (* Iterative::run under a generation limit l: returns, keeps every individual good, never exceeds l + 1 generations,
     and starts no generation once the quota has fired *)
  Lemma iloop_some l k :
    gen_limit (cfg_terms cfg) = Some l ->
    forall fuel st,
      Forall (Good jobs) (s_pop st) -> tele_wf (s_tele st) -> gens_run (s_tele st) <= S l -> S l - gens_run (s_tele st) <= fuel ->
      exists st', iloop fuel cfg W q st = Some st'
                  /\ Forall (Good jobs) (s_pop st') /\ (exists e, s_pop st' = s_pop st ++ e)
                  /\ tele_wf (s_tele st') /\ gens_run (s_tele st') <= S l
                  /\ (fires_by q k -> gens_run (s_tele st) <= s_polls st -> gens_run (s_tele st') <= Nat.max (gens_run (s_tele st)) (pred k))
                  /\ (s_pop st <> [] -> length (t_evolution (s_tele st)) = gens_run (s_tele st)
                      -> length (t_evolution (s_tele st')) = gens_run (s_tele st')).
  Proof.
    intros Hl. induction fuel as [|f IH]; intros st Hpop Hwf Hg Hfuel; cbn [iloop];
      destruct (is_termination (cfg_terms cfg) (t_stat_gen (s_tele st)) (o_time W) (o_other W) (s_tpolls st)) as [term tp] eqn:Eterm;
      destruct (term || q (s_polls st)) eqn:Estop.
    - eexists. split; [reflexivity|]. cbn [s_pop s_tele]. split; [exact Hpop|]. split; [exists []; rewrite app_nil_r; reflexivity|].
      split; [exact Hwf|]. split; [exact Hg|]. split; [intros; lia|auto].
    - exfalso. apply orb_false_iff in Estop. destruct Estop as [Et _]. subst term.
      pose proof (is_termination_gen_limit (cfg_terms cfg) l (t_stat_gen (s_tele st)) (o_time W) (o_other W) (s_tpolls st) Hl) as Hterm.
      rewrite Eterm in Hterm. cbn [fst] in Hterm.
      destruct (tele_wf_gens _ Hwf) as [[H1 H2]|H1].
      + assert (l = 0) by lia. subst l. rewrite H2 in Hterm. specialize (Hterm (le_n 0)). discriminate.
      + assert (l <= t_stat_gen (s_tele st)) by lia. specialize (Hterm H). discriminate.
    - eexists. split; [reflexivity|]. cbn [s_pop s_tele]. split; [exact Hpop|]. split; [exists []; rewrite app_nil_r; reflexivity|].
      split; [exact Hwf|]. split; [exact Hg|]. split; [intros; lia|auto].
    - apply orb_false_iff in Estop. destruct Estop as [Et Eq]. subst term.
      assert (Hlt : gens_run (s_tele st) <= l).
      { pose proof (is_termination_gen_limit (cfg_terms cfg) l (t_stat_gen (s_tele st)) (o_time W) (o_other W) (s_tpolls st) Hl) as Hterm.
        rewrite Eterm in Hterm. cbn [fst] in Hterm.
        destruct (tele_wf_gens _ Hwf) as [[H1 H2]|H1]; [lia|].
        destruct (le_lt_dec l (t_stat_gen (s_tele st))) as [Hle|Hgt]; [specialize (Hterm Hle); discriminate|lia]. }
      set (st1 := mkS (s_pop st) (s_tele st) (S (s_polls st)) tp).
      destruct (generation_some st1 Hpop) as (offs & polls & E & Hoffs & Hp). rewrite E.
      cbn [s_pop s_tele s_polls s_tpolls st1] in *.
      set (st2 := mkS (s_pop st ++ offs) (on_generation (s_tele st) (match s_pop st ++ offs with [] => false | _ => true end)) polls tp).
      assert (Hpop2 : Forall (Good jobs) (s_pop st2)) by (cbn [s_pop st2]; apply Forall_app; split; assumption).
      assert (Hg2 : gens_run (s_tele st2) = S (gens_run (s_tele st))) by (cbn [s_tele st2]; apply on_generation_gens).
      destruct (IH st2 Hpop2) as (st' & E' & Hpop' & (e & He) & Hwf' & Hg' & Hq' & Hev').
      { cbn [s_tele st2]. apply on_generation_wf. }
      { lia. }
      { lia. }
      exists st'. split; [exact E'|]. split; [exact Hpop'|].
      split; [exists (offs ++ e); rewrite He; cbn [s_pop st2]; rewrite app_assoc; reflexivity|].
      split; [exact Hwf'|]. split; [exact Hg'|]. split.
      + intros Hk Hinv.
        assert (Hk2 : S (s_polls st) < k).
        { destruct (le_lt_dec k (S (s_polls st))) as [Hle|Hgt]; [|exact Hgt]. rewrite (Hk _ Hle) in Eq. discriminate. }
        assert (gens_run (s_tele st2) <= s_polls st2) by (cbn [s_polls st2]; lia).
        specialize (Hq' Hk H). lia.
      + intros Hne Hlen. apply Hev'.
        * cbn [s_pop st2]. destruct (s_pop st); [congruence|discriminate].
        * cbn [s_tele st2]. rewrite on_generation_gens.
          destruct (s_pop st ++ offs) eqn:Eapp.
          -- destruct (s_pop st); [congruence|discriminate].
          -- rewrite on_generation_evolution. lia.
  Qed.

  (* nothing but the limit on statistics.generation stops the loop: exactly L + 1 generations, L = the configured maximum,
     lowered by a user-supplied criterion on the statistics if there is one *)
  Lemma iloop_exact N :
    c_max_gen cfg = Some N -> 1 <= eff_limit cfg N -> (forall n, q n = false) -> (forall t, o_time W t = false) ->
    (forall i t, o_other W i t = false) ->
    forall fuel st,
      Forall (Good jobs) (s_pop st) -> tele_wf (s_tele st) -> gens_run (s_tele st) <= S (eff_limit cfg N)
      -> S (eff_limit cfg N) - gens_run (s_tele st) <= fuel ->
      exists st', iloop fuel cfg W q st = Some st' /\ gens_run (s_tele st') = S (eff_limit cfg N)
                  /\ t_metric_gens (s_tele st') = eff_limit cfg N
                  /\ (exists e, s_pop st' = s_pop st ++ e).
  Proof.
    intros Hc HN Hq Htm Hot. set (L := eff_limit cfg N) in *.
    induction fuel as [|f IH]; intros st Hpop Hwf Hg Hfuel; cbn [iloop];
      pose proof (is_termination_exact cfg N (t_stat_gen (s_tele st)) (o_time W) (o_other W) (s_tpolls st) Hc Htm Hot) as Hterm;
      fold L in Hterm;
      destruct (is_termination (cfg_terms cfg) (t_stat_gen (s_tele st)) (o_time W) (o_other W) (s_tpolls st)) as [term tp];
      cbn [fst] in Hterm; subst term; rewrite Hq, orb_false_r;
      destruct (L <=? t_stat_gen (s_tele st)) eqn:E.
    - apply Nat.leb_le in E. eexists. split; [reflexivity|]. cbn [s_tele].
      destruct (tele_wf_gens _ Hwf) as [[H1 H2]|H1]; [lia|]. destruct Hwf as [Hm _].
      split; [lia|]. split; [lia|]. exists []. cbn [s_pop]. rewrite app_nil_r. reflexivity.
    - apply Nat.leb_gt in E. exfalso. destruct (tele_wf_gens _ Hwf) as [[H1 H2]|H1]; lia.
    - apply Nat.leb_le in E. eexists. split; [reflexivity|]. cbn [s_tele].
      destruct (tele_wf_gens _ Hwf) as [[H1 H2]|H1]; [lia|]. destruct Hwf as [Hm _].
      split; [lia|]. split; [lia|]. exists []. cbn [s_pop]. rewrite app_nil_r. reflexivity.
    - apply Nat.leb_gt in E.
      set (st1 := mkS (s_pop st) (s_tele st) (S (s_polls st)) tp).
      destruct (generation_some st1 Hpop) as (offs & polls & Eg & Hoffs & Hp). rewrite Eg.
      cbn [s_pop s_tele s_polls s_tpolls st1] in *.
      match goal with |- exists st', iloop f cfg W q ?s = _ /\ _ => destruct (IH s) as (st' & E' & Hg' & Hm' & e & He) end;
        cbn [s_pop s_tele].
      + apply Forall_app; split; assumption.
      + apply on_generation_wf.
      + rewrite on_generation_gens. destruct (tele_wf_gens _ Hwf) as [[H1 H2]|H1]; lia.
      + rewrite on_generation_gens. lia.
      + exists st'. split; [exact E'|]. split; [exact Hg'|]. split; [exact Hm'|].
        exists (offs ++ e). rewrite He. cbn [s_pop]. rewrite app_assoc. reflexivity.
  Qed.

  Lemma pick_in (pop : list hsol) h t n : pop = h :: t -> In (nth n pop h) pop.
  Proof. intros ->. destruct (nth_in_or_default n (h :: t) h) as [H|H]; [exact H|rewrite H; left; reflexivity]. Qed.

  Theorem evolve_returns N k :
    c_max_gen cfg = Some N -> 1 <= c_init_ops cfg -> 1 <= c_init_size cfg -> first_check_passes cfg W ->
    exists best st, evolve cfg W q = EOk best st
                    /\ Good jobs best /\ In best (s_pop st) /\ Forall (Good jobs) (s_pop st)
                    /\ gens_run (s_tele st) <= S N /\ (fires_by q k -> gens_run (s_tele st) <= pred k)
                    /\ length (t_evolution (s_tele st)) = gens_run (s_tele st).
  Proof.
    intros Hc Hops Hsize [Hf1 Hf2]. unfold evolve.
    assert (E0 : (c_init_ops cfg =? 0) = false) by (apply Nat.eqb_neq; lia). rewrite E0.
    destruct (c_init_size cfg) as [|n] eqn:En; [lia|].
    destruct (initial_first n estate0 Hf1 Hf2 (Forall_nil _)) as (st1 & E1 & Hp1 & Ht1 & Hne1). rewrite E1.
    pose proof (gen_limit_cfg cfg N Hc) as Hl. unfold loop_fuel. rewrite Hl.
    destruct (iloop_some N k Hl (S N) st1 Hp1) as (st2 & E2 & Hp2 & (e & He) & Hwf2 & Hg2 & Hq2 & Hev2).
    { rewrite Ht1. apply tele0_wf. }
    { rewrite Ht1. cbn. lia. }
    { rewrite Ht1. cbn. lia. }
    rewrite E2. destruct (s_pop st2) as [|h t] eqn:Epop.
    - exfalso. rewrite He in Epop. destruct (s_pop st1); [congruence|discriminate].
    - exists (nth (o_best W (h :: t)) (h :: t) h), st2. split; [reflexivity|].
      assert (Hin : In (nth (o_best W (h :: t)) (h :: t) h) (h :: t)) by (eapply pick_in; reflexivity).
      rewrite ?Epop.
      split; [eapply Forall_forall; [exact Hp2|exact Hin]|]. split; [exact Hin|]. split; [exact Hp2|]. split; [exact Hg2|].
      rewrite Ht1 in Hq2, Hev2. cbn [tele0 gens_run t_next t_evolution length] in Hq2, Hev2. split.
      + intros Hk. specialize (Hq2 Hk (Nat.le_0_l _)). change (gens_run (s_tele estate0)) with 0 in Hq2. lia.
      + apply Hev2; [exact Hne1|reflexivity].
  Qed.

  Theorem evolve_generations_exact N :
    c_max_gen cfg = Some N -> 1 <= eff_limit cfg N -> 1 <= c_init_ops cfg -> 1 <= c_init_size cfg -> first_check_passes cfg W ->
    (forall n, q n = false) -> (forall t, o_time W t = false) -> (forall i t, o_other W i t = false) ->
    exists best st, evolve cfg W q = EOk best st /\ gens_run (s_tele st) = S (eff_limit cfg N)
                    /\ t_metric_gens (s_tele st) = eff_limit cfg N.
  Proof.
    intros Hc HN Hops Hsize [Hf1 Hf2] Hq Htm Hot. unfold evolve.
    assert (E0 : (c_init_ops cfg =? 0) = false) by (apply Nat.eqb_neq; lia). rewrite E0.
    destruct (c_init_size cfg) as [|n] eqn:En; [lia|].
    destruct (initial_first n estate0 Hf1 Hf2 (Forall_nil _)) as (st1 & E1 & Hp1 & Ht1 & Hne1). rewrite E1.
    pose proof (gen_limit_cfg cfg N Hc) as Hl. unfold loop_fuel. rewrite Hl.
    pose proof (eff_limit_le cfg N) as HLN.
    destruct (iloop_exact N Hc HN Hq Htm Hot (S N) st1 Hp1) as (st2 & E2 & Hg2 & Hm2 & e & He).
    { rewrite Ht1. apply tele0_wf. }
    { rewrite Ht1. cbn. lia. }
    { rewrite Ht1. cbn. lia. }
    rewrite E2. destruct (s_pop st2) as [|h t] eqn:Epop.
    - exfalso. destruct (s_pop st1); [congruence|discriminate].
    - eexists _, st2. split; [reflexivity|]. split; assumption.
  Qed.
End Evolve.

(* ------------------------------------------------------------------ the documented errors *)
Theorem evolve_no_initial_operator cfg W q : c_init_ops cfg = 0 -> evolve cfg W q = EErr ErrNoInitialMethods.
Proof. intros H. unfold evolve. rewrite H. reflexivity. Qed.

Theorem evolve_zero_generations cfg W q : c_max_gen cfg = Some 0 -> 1 <= c_init_ops cfg -> evolve cfg W q = EErr ErrNoSolution.
Proof.
  intros Hc Hops. unfold evolve.
  assert (E0 : (c_init_ops cfg =? 0) = false) by (apply Nat.eqb_neq; lia). rewrite E0.
  assert (Hterm : forall tp, is_termination (cfg_terms cfg) 0 (o_time W) (o_other W) tp = (true, tp)).
  { intros tp. unfold cfg_terms, terminations. rewrite Hc. destruct (c_max_time cfg); reflexivity. }
  assert (Hinit : initial (c_init_size cfg) 0 cfg W q estate0 = Some estate0).
  { destruct (c_init_size cfg); cbn [initial]; [reflexivity|].
    change (t_stat_gen (s_tele estate0)) with 0. rewrite Hterm. cbv beta iota zeta. rewrite orb_true_r. reflexivity. }
  rewrite Hinit. unfold loop_fuel. rewrite (gen_limit_cfg cfg 0 Hc). cbn [iloop].
  change (t_stat_gen (s_tele estate0)) with 0. rewrite Hterm. reflexivity.
Qed.

(* ------------------------------------------------------------------ DecomposeSearch inner loop *)
Lemma decompose_inner_bounds q inner : forall repeat polls done,
    let r := decompose_inner repeat q polls inner done in
    done <= fst r <= done + repeat /\ (1 <= repeat -> S done <= fst r) /\ polls <= snd r.
Proof.
  induction repeat as [|r IH]; intros polls done; cbn [decompose_inner].
  - cbn [fst snd]. lia.
  - destruct (q (polls + inner done)); cbn [fst snd].
    + lia.
    + specialize (IH (S (polls + inner done)) (S done)). cbv zeta in IH. lia.
Qed.

Lemma decompose_inner_reached q inner repeat polls done :
  (forall n, q n = true) -> 1 <= repeat -> fst (decompose_inner repeat q polls inner done) = S done.
Proof. intros Hq Hr. destruct repeat; [lia|]. cbn [decompose_inner]. rewrite Hq. reflexivity. Qed.
